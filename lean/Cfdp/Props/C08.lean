import Cfdp.Gen.RecvFrames
import Cfdp.Model.Loop
import Cfdp.Tactic.Peel
import Cfdp.Props.C09
import Cfdp.Props.C18

/-!
# C08 — receiver NAKs are well-formed and ask for exactly what is missing
-/
namespace Cfdp.Recv
open Cfdp.Codec Cfdp.Gen Cfdp.Timer

/-- a well-formed segment request: the metadata marker 0-0 or a non-empty range; ends at or below `N` -/
def ReqOk (N : Nat) (r : Nat × Nat) : Prop := (r = (0, 0) ∨ r.1 < r.2) ∧ r.2 ≤ N

/-- bookkeeping from which NAKs are built: a well-formed segment list, and everything held or
queued lies below `N` (the size of the file being sent) -/
structure NQ (N : Nat) (s : State) : Prop where
  inv : Seg.Inv s.segs
  segsB : ∀ sg ∈ s.segs, sg.2 ≤ N
  naks : ∀ r ∈ s.naks, ReqOk N r
  delayed : ∀ d ∈ s.delayed, d.2.2 ≤ N
  fsz : ∀ n, s.fileSize = some n → n ≤ N

theorem nq_frame {N : Nat} {s s' : State} (h : NQ N s) (h1 : s'.segs = s.segs) (h2 : s'.naks = s.naks)
    (h3 : s'.delayed = s.delayed) (h4 : s'.fileSize = s.fileSize) : NQ N s' := by
  refine ⟨?_, ?_, ?_, ?_, ?_⟩
  · rw [h1]; exact h.inv
  · rw [h1]; exact h.segsB
  · rw [h2]; exact h.naks
  · rw [h3]; exact h.delayed
  · rw [h4]; exact h.fsz

theorem reqOk_gaps {N : Nat} {l : List Seg.Seg} (h : Seg.Inv l) (a b : Nat) (hb : b ≤ N) :
    ∀ r ∈ Seg.gaps l a b, ReqOk N r := by
  intro r hr
  have := (Seg.gaps_exact l a b h).2.1 r hr
  exact ⟨Or.inr this.2.1, Nat.le_trans this.2.2 hb⟩

theorem endOr0_le {N : Nat} {l : List Seg.Seg} (h : ∀ sg ∈ l, sg.2 ≤ N) : Seg.endOr0 l ≤ N := by
  simp only [Seg.endOr0, Seg.endOf]
  cases hl : l.getLast? with
  | none => simp
  | some x => simpa using h x (List.mem_of_getLast? hl)

theorem endOf_getD_le {N : Nat} {l : List Seg.Seg} (h : ∀ sg ∈ l, sg.2 ≤ N) : (Seg.endOf l).getD 0 ≤ N :=
  endOr0_le h

theorem reqOk_getAllNaks {N : Nat} {s : State} (h : NQ N s) : ∀ r ∈ getAllNaks s, ReqOk N r := by
  intro r hr
  simp only [getAllNaks, List.mem_append] at hr
  rcases hr with hr | hr
  · split at hr
    · simp only [List.mem_singleton] at hr; subst hr; exact ⟨Or.inl rfl, Nat.zero_le _⟩
    · cases hr
  · refine reqOk_gaps h.inv 0 _ ?_ r hr
    cases hf : s.fileSize with
    | none => exact endOr0_le h.segsB
    | some n => exact h.fsz n hf

/-- replacing the queue by a freshly computed list of everything missing -/
theorem nq_setAll {N : Nat} {s s' : State} (h : NQ N s) (h1 : s'.segs = s.segs) (h2 : s'.naks = getAllNaks s)
    (h3 : s'.delayed = s.delayed) (h4 : s'.fileSize = s.fileSize) : NQ N s' := by
  refine ⟨?_, ?_, ?_, ?_, ?_⟩
  · rw [h1]; exact h.inv
  · rw [h1]; exact h.segsB
  · rw [h2]; exact reqOk_getAllNaks h
  · rw [h3]; exact h.delayed
  · rw [h4]; exact h.fsz

theorem getAllNaks_congr {s s' : State} (h1 : s'.segs = s.segs) (h2 : s'.md = s.md) (h3 : s'.fileSize = s.fileSize) :
    getAllNaks s' = getAllNaks s := by
  simp only [getAllNaks, h1, h2, h3]

theorem nq_resume {N : Nat} {s : State} (h : NQ N s) (now : Nat) : NQ N (resume s now) := by
  simp only [resume]
  repeat' split
  all_goals first
    | inv_auto nq_frame 4 []
    | exact nq_setAll h rfl (getAllNaks_congr rfl rfl rfl) rfl rfl

theorem nq_subNaks {N : Nat} {s s' : State} (h : NQ N s) (h1 : s'.segs = s.segs)
    (h2 : ∀ r ∈ s'.naks, r ∈ s.naks) (h3 : s'.delayed = s.delayed) (h4 : s'.fileSize = s.fileSize) : NQ N s' := by
  refine ⟨?_, ?_, ?_, ?_, ?_⟩
  · rw [h1]; exact h.inv
  · rw [h1]; exact h.segsB
  · intro r hr; exact h.naks r (h2 r hr)
  · rw [h3]; exact h.delayed
  · rw [h4]; exact h.fsz

theorem nq_sendNaksTimer {N : Nat} {s : State} (h : NQ N s) (now : Nat) : NQ N (sendNaksTimer s now).1 :=
  nq_frame h (segs_sendNaksTimer _ _) (naks_sendNaksTimer _ _) (delayed_sendNaksTimer _ _) (fileSize_sendNaksTimer _ _)

theorem nq_sendNaks {N : Nat} {s : State} (h : NQ N s) (now : Nat) : NQ N (sendNaks s now) := by
  have h1 := nq_sendNaksTimer h now
  simp only [sendNaks]
  repeat' split
  all_goals first
    | exact h1
    | exact nq_frame h1 rfl rfl rfl rfl
    | (refine nq_subNaks h1 ?_ ?_ ?_ ?_
       · simp only [segs_sendPayload]
       · intro r hr
         simp only [naks_sendPayload] at hr
         exact List.mem_of_mem_drop hr
       · simp only [delayed_sendPayload]
       · simp only [fileSize_sendPayload])

theorem nq_answerPrompt {N : Nat} {s : State} (h : NQ N s) (now : Nat) : NQ N (answerPrompt s now) := by
  simp only [answerPrompt]
  repeat' split
  all_goals first
    | exact h
    | (apply nq_sendNaks
       exact nq_setAll h rfl (getAllNaks_congr rfl rfl rfl) rfl rfl)
    | inv_auto nq_frame 4 []

theorem nq_sendPdu {N : Nat} {s : State} (h : NQ N s) (now : Nat) : NQ N (sendPdu s now) := by
  simp only [sendPdu]
  repeat' split
  all_goals inv_auto nq_frame 4 [nq_answerPrompt, nq_sendNaks]

theorem nq_storeFileData {N : Nat} {s : State} (h : NQ N s) (off : Nat) (d : Bytes) (hb : off + d.length ≤ N) :
    NQ N (storeFileData s off d) := by
  simp only [storeFileData]
  split
  · rename_i hlen
    have hab : off < off + d.length := by omega
    have hinv := Seg.merge_inv s.segs off (off + d.length) h.inv hab
    have hbd := Seg.merge_bounded s.segs off (off + d.length) N h.inv hab h.segsB hb
    split
    · exact nq_frame h rfl rfl rfl rfl
    · exact ⟨hinv, hbd, h.naks, h.delayed, h.fsz⟩
  · exact h

theorem nq_immediateNak {N : Nat} {s : State} (h : NQ N s) (prevEnd off now : Nat) (hb : off ≤ N) :
    NQ N (immediateNak s prevEnd off now) := by
  simp only [immediateNak]
  repeat' split
  all_goals first
    | exact h
    | inv_auto nq_frame 4 []
    | exact nq_setAll h rfl (getAllNaks_congr rfl rfl rfl) rfl rfl
    | (rename_i hgt _
       refine ⟨h.inv, h.segsB, ?_, h.delayed, h.fsz⟩
       intro r hr
       simp only [List.mem_append, List.mem_singleton] at hr
       rcases hr with hr | hr
       · exact h.naks r hr
       · subst hr; exact ⟨Or.inr hgt, hb⟩)
    | (refine ⟨h.inv, h.segsB, h.naks, ?_, h.fsz⟩
       intro x hx
       simp only [List.mem_append, List.mem_singleton] at hx
       rcases hx with hx | hx
       · exact h.delayed x hx
       · subst hx; exact hb)

theorem nq_scheduleNaks {N : Nat} {s : State} (h : NQ N s) (n now : Nat) (hb : n ≤ N) :
    NQ N (scheduleNaks s n now) := by
  simp only [scheduleNaks]
  repeat' split
  all_goals first
    | exact h
    | exact nq_setAll h rfl rfl rfl rfl
    | (refine ⟨h.inv, h.segsB, h.naks, ?_, h.fsz⟩
       intro x hx
       simp only [List.mem_append, List.mem_singleton] at hx
       rcases hx with hx | hx
       · exact h.delayed x hx
       · subst hx; exact hb)

theorem nq_ackFileData {N : Nat} {s : State} (h : NQ N s) (off : Nat) (d : Bytes) (now : Nat)
    (hb : off + d.length ≤ N) : NQ N (ackFileData s off d now) := by
  simp only [ackFileData]
  peel nq_frame 4
  apply nq_immediateNak _ _ _ _ (by omega)
  peel nq_frame 4
  exact nq_storeFileData h off d hb

theorem nq_setFileSize {N : Nat} {s : State} (h : NQ N s) (n : Nat) (hn : n ≤ N) :
    NQ N { s with fileSize := some n } :=
  ⟨h.inv, h.segsB, h.naks, h.delayed, fun m hm => by cases hm; exact hn⟩

theorem nq_ackEof {N : Nat} {s : State} (h : NQ N s) (e : Eof) (now : Nat) (hb : e.fileSize ≤ N) :
    NQ N (ackEof s e now) := by
  simp only [ackEof]
  split
  · apply nq_scheduleNaks _ _ _ hb
    peel nq_frame 4
    apply nq_setFileSize _ _ hb
    inv_auto nq_frame 4 []
  · inv_auto nq_frame 4 []

theorem nq_unackComplete {N : Nat} {s : State} (h : NQ N s) (now : Nat) : NQ N (unackComplete s now) := by
  simp only [unackComplete, unackCheckMissing]
  repeat' split
  all_goals inv_auto nq_frame 4 []

theorem nq_unackEofNoError {N : Nat} {s : State} (h : NQ N s) (e : Eof) (now : Nat) (hb : e.fileSize ≤ N) :
    NQ N (unackEofNoError s e now) := by
  simp only [unackEofNoError]
  apply nq_unackComplete
  apply nq_setFileSize _ _ hb
  inv_auto nq_frame 4 []

theorem nq_unackEof {N : Nat} {s : State} (h : NQ N s) (e : Eof) (now : Nat) (hb : e.fileSize ≤ N) :
    NQ N (unackEof s e now) := by
  simp only [unackEof]
  repeat' split
  all_goals first
    | (apply nq_unackEofNoError _ _ _ hb; inv_auto nq_frame 4 [])
    | inv_auto nq_frame 4 []

/-- what the link may deliver for a file of `N` bytes: data inside the file, an EOF announcing at most `N` -/
def PduOk (N : Nat) (p : Pdu) : Prop :=
  match p.payload with
  | .fileData off d | .fileDataSeg _ _ off d => off + d.length ≤ N
  | .eof e => e.fileSize ≤ N
  | _ => True

theorem nq_processPdu {N : Nat} {s : State} (h : NQ N s) (p : Pdu) (now : Nat) (hp : PduOk N p) :
    NQ N (processPdu s p now).1 := by
  have h0 : NQ N (pduArrived s now) := nq_frame h rfl rfl rfl rfl
  simp only [processPdu]
  generalize pduArrived s now = t at h0
  simp only [processPduBody]
  cases hpl : p.payload <;> simp only [PduOk, hpl] at hp <;> cases hm : t.cfg.mode <;> dsimp only
  all_goals first
    | exact h0
    | exact nq_ackFileData h0 _ _ _ hp
    | exact nq_ackEof h0 _ _ hp
    | exact nq_unackEof h0 _ _ hp
    | (peel nq_frame 4; exact nq_storeFileData h0 _ _ hp)
    | ((repeat' split) <;> inv_auto nq_frame 4 [])

theorem expiredPrefix_windows (now : Nat) (l : List (Counter × Nat × Nat)) :
    (expiredPrefix now l).1.map (·.2) = l.map (·.2) := by
  induction l with
  | nil => rfl
  | cons x rest ih =>
    obtain ⟨c, a, b⟩ := x
    simp only [expiredPrefix]
    split
    · simp only [List.map_cons, ih]
    · simp only [List.map_cons]

theorem expiredPrefix_bound {N : Nat} (now : Nat) (l : List (Counter × Nat × Nat)) (h : ∀ d ∈ l, d.2.2 ≤ N) :
    ∀ d ∈ (expiredPrefix now l).1, d.2.2 ≤ N := by
  intro d hd
  have hm : d.2 ∈ (expiredPrefix now l).1.map (·.2) := List.mem_map_of_mem hd
  rw [expiredPrefix_windows] at hm
  obtain ⟨d', hd', he⟩ := List.mem_map.mp hm
  rw [← he]; exact h d' hd'

theorem nq_handleDelayed {N : Nat} {s : State} (h : NQ N s) (now : Nat) : NQ N (handleDelayed s now) := by
  have hb := expiredPrefix_bound now s.delayed h.delayed
  have hg : ∀ x ∈ (expiredPrefix now s.delayed).1.take (expiredPrefix now s.delayed).2,
      ∀ r ∈ Seg.gaps s.segs x.2.1 x.2.2, ReqOk N r :=
    fun x hx => reqOk_gaps h.inv _ _ (hb x (List.mem_of_mem_take hx))
  by_cases hmd : s.md.isNone = true <;> simp only [handleDelayed, hmd, ↓reduceIte]
  all_goals split
  all_goals first
    | exact ⟨h.inv, h.segsB, h.naks, hb, h.fsz⟩
    | skip
  all_goals refine ⟨h.inv, h.segsB, ?_, fun d hd => hb d (List.mem_of_mem_drop hd), h.fsz⟩
  all_goals
    intro r hr
    simp only [List.mem_append, List.mem_flatMap, List.mem_singleton] at hr
  · rcases hr with (hr | hr) | ⟨x, hx, hr⟩
    · exact h.naks r hr
    · subst hr; exact ⟨Or.inl rfl, Nat.zero_le _⟩
    · exact hg x hx r hr
  · rcases hr with hr | ⟨x, hx, hr⟩
    · exact h.naks r hr
    · exact hg x hx r hr

theorem nq_handleInactivity {N : Nat} {s : State} (h : NQ N s) (now : Nat) : NQ N (handleInactivity s now).1 := by
  inv_auto nq_frame 4 []

theorem nq_handleAckTimer {N : Nat} {s : State} (h : NQ N s) (now : Nat) (b : Bool) : NQ N (handleAckTimer s now b) := by
  inv_auto nq_frame 4 []

theorem nq_handleTimeoutMain {N : Nat} {s : State} (h : NQ N s) (now : Nat) : NQ N (handleTimeoutMain s now) := by
  have h1 : NQ N (handleInactivity (handleDelayed s now) now).1 := nq_handleInactivity (nq_handleDelayed h now) now
  simp only [handleTimeoutMain]
  repeat' split
  all_goals first
    | exact h
    | exact h1
    | exact nq_setAll h1 rfl (getAllNaks_congr rfl rfl rfl) rfl rfl
    | (apply nq_handleAckTimer; inv_auto nq_frame 4 [])
    | inv_auto nq_frame 4 []


theorem nq_handleTimeout {N : Nat} {s : State} (h : NQ N s) (now : Nat) : NQ N (handleTimeout s now) := by
  simp only [handleTimeout, unackFinishedLimit]
  repeat' split
  all_goals inv_auto nq_frame 4 [nq_handleTimeoutMain]

/-! ### the NAK PDU -/

theorem foldl_min_le (l : List Nat) (x : Nat) : l.foldl min x ≤ x ∧ ∀ y ∈ l, l.foldl min x ≤ y := by
  induction l generalizing x with
  | nil => exact ⟨Nat.le_refl _, fun y hy => by cases hy⟩
  | cons a rest ih =>
    simp only [List.foldl_cons]
    obtain ⟨i1, i2⟩ := ih (min x a)
    refine ⟨Nat.le_trans i1 (Nat.min_le_left _ _), ?_⟩
    intro y hy
    simp only [List.mem_cons] at hy
    rcases hy with hy | hy
    · subst hy; exact Nat.le_trans i1 (Nat.min_le_right _ _)
    · exact i2 y hy

theorem le_foldl_max (l : List Nat) (x : Nat) : x ≤ l.foldl max x ∧ ∀ y ∈ l, y ≤ l.foldl max x := by
  induction l generalizing x with
  | nil => exact ⟨Nat.le_refl _, fun y hy => by cases hy⟩
  | cons a rest ih =>
    simp only [List.foldl_cons]
    obtain ⟨i1, i2⟩ := ih (max x a)
    refine ⟨Nat.le_trans (Nat.le_max_left _ _) i1, ?_⟩
    intro y hy
    simp only [List.mem_cons] at hy
    rcases hy with hy | hy
    · subst hy; exact Nat.le_trans (Nat.le_max_right _ _) i1
    · exact i2 y hy

theorem listMin_le (l : List Nat) (d : Nat) : ∀ y ∈ l, listMin l d ≤ y := by
  intro y hy
  cases l with
  | nil => cases hy
  | cons a rest =>
    simp only [listMin]
    simp only [List.mem_cons] at hy
    rcases hy with hy | hy
    · subst hy; exact (foldl_min_le rest _).1
    · exact (foldl_min_le rest a).2 y hy

theorem le_listMax (l : List Nat) (d : Nat) : ∀ y ∈ l, y ≤ listMax l d := by
  intro y hy
  cases l with
  | nil => cases hy
  | cons a rest =>
    simp only [listMax]
    simp only [List.mem_cons] at hy
    rcases hy with hy | hy
    · subst hy; exact (le_foldl_max rest _).1
    · exact (le_foldl_max rest a).2 y hy

/-- a well-formed NAK for a file of `N` bytes under configuration `cfg` -/
def NakOk (N : Nat) (cfg : Config) (nk : Nak) : Prop :=
  (∀ r ∈ nk.requests, ReqOk N r ∧ nk.scopeStart ≤ r.1 ∧ r.2 ≤ nk.scopeEnd) ∧
  (nk.requests.length ≤ 1 ∨ (Payload.nak nk).len cfg.fss ≤ cfg.seg + 1)

theorem nak_sendNaks {N : Nat} {s : State} (h : NQ N s) (hs : s.sent = none) (now : Nat) :
    ∀ p nk, (sendNaks s now).sent = some p → p.payload = .nak nk → NakOk N s.cfg nk := by
  intro p nk hp hnk
  have h1 := nq_sendNaksTimer h now
  have hs1 : (sendNaksTimer s now).1.sent = none := by rw [sent_sendNaksTimer]; exact hs
  have hc1 : (sendNaksTimer s now).1.cfg = s.cfg := cfg_sendNaksTimer _ _
  simp only [sendNaks] at hp
  generalize (sendNaksTimer s now).1 = t at h1 hs1 hc1 hp
  split at hp
  · rw [hs1] at hp; cases hp
  · split at hp
    · simp only [hs1] at hp; cases hp
    · rename_i m hm
      simp only [sendPayload, Option.some.injEq] at hp
      subst hp
      simp only [Pdu.mk.injEq] at hnk
      cases hnk
      refine ⟨?_, ?_⟩
      · intro r hr
        have hr' : r ∈ t.naks := List.mem_of_mem_take hr
        refine ⟨h1.naks r hr', ?_, ?_⟩
        · exact listMin_le _ _ _ (List.mem_map_of_mem (f := (·.1)) hr)
        · exact le_listMax _ _ _ (List.mem_map_of_mem (f := (·.2)) hr)
      · simp only [Payload.len, Nak.len, List.length_take]
        rw [← hc1]
        simp only [maxNakNum, Option.some.injEq] at hm
        subst hm
        have hf : 0 < 2 * fssLen t.cfg.fss := by cases t.cfg.fss <;> simp [fssLen]
        generalize hq : (t.cfg.seg - 2 * fssLen t.cfg.fss) / (2 * fssLen t.cfg.fss) = q
        by_cases hq0 : q = 0
        · left; omega
        · right
          have hdm := Nat.div_mul_le_self (t.cfg.seg - 2 * fssLen t.cfg.fss) (2 * fssLen t.cfg.fss)
          rw [hq] at hdm
          have hmin : min (min t.naks.length (max 1 q)) t.naks.length ≤ q := by omega
          have hmul := Nat.mul_le_mul_right (2 * fssLen t.cfg.fss) hmin
          have hq1 : 2 * fssLen t.cfg.fss ≤ q * (2 * fssLen t.cfg.fss) := by
            have : 1 ≤ q := by omega
            simpa using Nat.mul_le_mul_right (2 * fssLen t.cfg.fss) this
          generalize 2 * fssLen t.cfg.fss = F at hf hdm hmul hq1 ⊢
          generalize min (min t.naks.length (max 1 q)) t.naks.length * F = P at hmul ⊢
          generalize q * F = Q at hdm hmul hq1
          omega

theorem nak_sendNaks' {N : Nat} {s : State} (now : Nat) (p : Pdu) (nk : Nak) (hp : (sendNaks s now).sent = some p)
    (hnk : p.payload = .nak nk) (h : NQ N s) (hs : s.sent = none) (c : Config) (hc : s.cfg = c) : NakOk N c nk := by
  subst hc; exact nak_sendNaks h hs now p nk hp hnk

theorem nak_sendPdu {N : Nat} {s : State} (h : NQ N s) (hs : s.sent = none) (now : Nat) :
    ∀ p nk, (sendPdu s now).sent = some p → p.payload = .nak nk → NakOk N s.cfg nk := by
  intro p nk hp hnk
  simp only [sendPdu, answerPrompt] at hp
  repeat' split at hp
  all_goals first
    | (rw [hs] at hp; cases hp; done)
    | (simp only [sendAckEof, sendFinished, sendPayload, setFinishedFlag] at hp
       repeat' split at hp
       all_goals first
         | (rw [hs] at hp; cases hp; done)
         | (simp only [Option.some.injEq] at hp; subst hp; cases hnk; done))
    | (simp only [sendPayload, Option.some.injEq] at hp; subst hp; cases hnk; done)
    | exact nak_sendNaks h hs now p nk hp hnk
    | skip
  -- the answer to a Prompt(NAK): the queue is recomputed first
  all_goals
    refine nak_sendNaks' now p nk hp hnk ?_ ?_ s.cfg rfl
    · exact nq_setAll h rfl (getAllNaks_congr rfl rfl rfl) rfl rfl
    · exact hs

end Cfdp.Recv

namespace Cfdp.Loop
open Cfdp.Codec Cfdp.Gen Cfdp.Recv

/-- what the link delivers for a file of `N` bytes -/
def EvOk (N : Nat) (e : Ev) : Prop :=
  match e with
  | .pdu p => PduOk N p
  | _ => True

theorem nq_clean {N : Nat} {s s' : Recv.State} (h : NQ N s) (h1 : s'.segs = s.segs) (h2 : s'.naks = s.naks)
    (h3 : s'.delayed = s.delayed) (h4 : s'.fileSize = s.fileSize) : NQ N s' := nq_frame h h1 h2 h3 h4

theorem nq_recvStep {N : Nat} {s : Recv.State} (h : NQ N s) (now : Nat) (e : Ev) (he : EvOk N e) :
    NQ N (recvStep s now e) ∧
    ∀ p nk, (recvStep s now e).sent = some p → p.payload = .nak nk → NakOk N s.cfg nk := by
  have h0 : NQ N { s with sent := none, out := [] } := nq_frame h rfl rfl rfl rfl
  have nosent : ∀ {s' : Recv.State}, s'.sent = none →
      ∀ p nk, s'.sent = some p → p.payload = Payload.nak nk → NakOk N s.cfg nk := by
    intro s' hs p nk hp; rw [hs] at hp; cases hp
  simp only [recvStep]
  repeat' split
  all_goals first
    | exact ⟨h0, nosent rfl⟩
    | exact ⟨nq_processPdu h0 _ _ he, nosent (Recv.sent_processPdu _ _ _)⟩
    | exact ⟨nq_sendPdu h0 _, nak_sendPdu h0 rfl _⟩
    | exact ⟨nq_handleTimeout h0 _, nosent (Recv.sent_handleTimeout _ _)⟩
    | exact ⟨nq_clean h0 (Recv.segs_cancel _ _) (Recv.naks_cancel _ _) (Recv.delayed_cancel _ _) (Recv.fileSize_cancel _ _),
        nosent (Recv.sent_cancel _ _)⟩
    | exact ⟨nq_clean h0 (Recv.segs_suspend _ _) (Recv.naks_suspend _ _) (Recv.delayed_suspend _ _) (Recv.fileSize_suspend _ _),
        nosent (Recv.sent_suspend _ _)⟩
    | exact ⟨nq_resume h0 _, nosent (Recv.sent_resume _ _)⟩
    | exact ⟨nq_clean h0 (Recv.segs_sendReport _) (Recv.naks_sendReport _) (Recv.delayed_sendReport _) (Recv.fileSize_sendReport _),
        nosent (Recv.sent_sendReport _)⟩
    | exact ⟨nq_clean h0 (Recv.segs_shutdown _ _) (Recv.naks_shutdown _ _) (Recv.delayed_shutdown _ _) (Recv.fileSize_shutdown _ _),
        nosent (Recv.sent_shutdown _ _)⟩

theorem cfg_recvStep (s : Recv.State) (now : Nat) (e : Ev) : (recvStep s now e).cfg = s.cfg := by
  simp only [recvStep]
  repeat' split
  all_goals first
    | rfl
    | simp only [Recv.cfg_processPdu, Recv.cfg_sendPdu, Recv.cfg_handleTimeout, Recv.cfg_cancel, Recv.cfg_suspend,
        Recv.cfg_resume, Recv.cfg_sendReport, Recv.cfg_shutdown]

/-- **C08 (well-formedness).** For a file of `N` bytes (data PDUs inside the file, EOFs announcing
at most `N`; otherwise any PDUs in any order, duplicated or lost, prompts, timer expirations, user
requests at any point): every NAK the receiver transmits consists of requests that are non-empty
ranges or the 0-0 marker, lie inside the announced scope and inside the file, and its data field
is at most one octet (the directive code) longer than the configured segment size. -/
theorem C08_wellformed (cfg : Recv.Config) (fs : Fs.FS) (t0 N : Nat) (evs : List (Nat × Ev))
    (hev : ∀ x ∈ evs, EvOk N x.2) :
    ∀ p ∈ (recvRun (Recv.new cfg fs t0) evs).2, ∀ nk, p.payload = .nak nk → NakOk N cfg nk := by
  have key : ∀ (evs : List (Nat × Ev)) (s : Recv.State), NQ N s → (∀ x ∈ evs, EvOk N x.2) →
      ∀ p ∈ (recvRun s evs).2, ∀ nk, p.payload = .nak nk → NakOk N s.cfg nk := by
    intro evs
    induction evs with
    | nil => intro s _ _ p hp; cases hp
    | cons x rest ih =>
      intro s hs hx p hp nk hnk
      obtain ⟨now, e⟩ := x
      obtain ⟨h1, h2⟩ := nq_recvStep hs now e (hx (now, e) (List.mem_cons_self ..))
      simp only [recvRun, List.mem_append] at hp
      rcases hp with hp | hp
      · cases hsent : (recvStep s now e).sent with
        | none => rw [hsent] at hp; cases hp
        | some q =>
          rw [hsent] at hp
          simp only [Option.toList, List.mem_singleton] at hp
          subst hp
          exact h2 p nk hsent hnk
      · have := ih _ h1 (fun y hy => hx y (List.mem_cons_of_mem _ hy)) p hp nk hnk
        rw [cfg_recvStep] at this
        exact this
  have hnew : NQ N (Recv.new cfg fs t0) :=
    ⟨⟨(fun sg hsg => by cases hsg), List.Pairwise.nil⟩, (fun sg hsg => by cases hsg), (fun r hr => by cases hr),
      (fun d hd => by cases hd), (fun n hn => by cases hn)⟩
  exact key evs _ hnew hev

end Cfdp.Loop

/-! ### exactness: what is asked for after EOF is exactly what is missing -/
namespace Cfdp.Recv
open Cfdp.Codec Cfdp.Gen Cfdp.Timer

/-- **C08 (exactness).** With the EOF in hand (`fileSize = some n`), the list the receiver computes
when it (re)builds its NAK queue — after the EOF, on every NAK-timer expiry, on a Prompt(NAK), on
resume — is the 0-0 marker exactly when the metadata is missing, followed by ranges that cover
precisely the bytes of `[0, n)` not yet received: none left out (a missing first segment included),
none requested that is already held. -/
theorem C08_exact (s : State) (n : Nat) (hinv : Seg.Inv s.segs) (hn : s.fileSize = some n) :
    getAllNaks s = (if s.md.isNone then [(0, 0)] else []) ++ Seg.gaps s.segs 0 n ∧
    (∀ x, (∃ r ∈ Seg.gaps s.segs 0 n, r.1 ≤ x ∧ x < r.2) ↔ (x < n ∧ ¬ Seg.cov s.segs x)) ∧
    (∀ r ∈ Seg.gaps s.segs 0 n, r.1 < r.2 ∧ r.2 ≤ n) := by
  refine ⟨by simp only [getAllNaks, hn, Option.getD_some], ?_, ?_⟩
  · intro x
    have := (Seg.gaps_exact s.segs 0 n hinv).2.2 x
    simp only [Seg.cov, Nat.zero_le, true_and] at this ⊢
    exact this
  · intro r hr
    have := (Seg.gaps_exact s.segs 0 n hinv).2.1 r hr
    exact ⟨this.2.1, this.2.2⟩

/-- the queue is rebuilt from that list: right after a NoError EOF (zero delay), … -/
theorem C08_queue_after_eof (s : State) (n now : Nat) (hd : s.cfg.delay = 0) (hm : hasNaks s = true) :
    (scheduleNaks s n now).naks = getAllNaks s := by
  simp only [scheduleNaks, hm, hd, if_true, beq_self_eq_true]

/-- … or after the configured delay: a timer is queued for the window `[0, n)` and, when it fires,
the gaps that persist in that window are appended -/
theorem C08_queue_after_eof_delayed (s : State) (n now : Nat) (hd : s.cfg.delay ≠ 0) (hm : hasNaks s = true) :
    (scheduleNaks s n now).delayed = s.delayed ++ [((Counter.new s.cfg.delay 1 now).unpause, 0, n)] ∧
    (scheduleNaks s n now).naks = s.naks := by
  have : (s.cfg.delay == 0) = false := by simpa using hd
  simp only [scheduleNaks, hm, this, if_true, Bool.false_eq_true, if_false, and_self]

/-- immediate procedure: a gap detected by a file-data PDU (`off` beyond the previous end of the
data) is queued at once with zero delay, or gets a timer of the configured delay -/
theorem C08_immediate_gap (s : State) (prevEnd off now : Nat) (hi : s.cfg.immediate = true)
    (he : s.fileSize = none) (hno : (s.timer.nak.timeoutOccurred now).2 = false) (hgap : prevEnd < off) :
    (s.cfg.delay = 0 → (immediateNak s prevEnd off now).naks = s.naks ++ [(prevEnd, off)]) ∧
    (s.cfg.delay ≠ 0 → (immediateNak s prevEnd off now).delayed =
        s.delayed ++ [((Counter.new s.cfg.delay 1 now).unpause, prevEnd, off)]) := by
  have he' : eofReceived s = false := by simp only [eofReceived, he]; rfl
  refine ⟨?_, ?_⟩
  · intro hd
    simp only [immediateNak, hi, he', hno, hgap, hd, Bool.not_false, Bool.and_self, if_true, Bool.false_eq_true,
      if_false, gt_iff_lt, beq_self_eq_true]
  · intro hd
    have : (s.cfg.delay == 0) = false := by simpa using hd
    simp only [immediateNak, hi, he', hno, hgap, this, Bool.not_false, Bool.and_self, if_true, Bool.false_eq_true,
      if_false, gt_iff_lt]

end Cfdp.Recv

/-! ### deferred procedure: nothing is asked for before the EOF -/
namespace Cfdp.Recv
open Cfdp.Codec Cfdp.Gen Cfdp.Timer

/-- deferred procedure, EOF not yet received, no prompt pending: nothing queued, NAK counter never started -/
structure DQ (s : State) : Prop where
  deferred : s.cfg.immediate = false
  noEof : s.fileSize = none
  naks : s.naks = []
  delayed : s.delayed = []
  prompt : s.prompt = none
  ack : s.ack = none
  idle : Idle s.timer.nak

theorem dq_frame {s s' : State} (h : DQ s) (h1 : s'.cfg = s.cfg) (h2 : s'.fileSize = s.fileSize)
    (h3 : s'.naks = s.naks) (h4 : s'.delayed = s.delayed) (h5 : s'.prompt = s.prompt) (h6 : s'.ack = s.ack)
    (h7 : s'.timer.nak = s.timer.nak) : DQ s' := by
  refine ⟨?_, ?_, ?_, ?_, ?_, ?_, ?_⟩
  · rw [h1]; exact h.deferred
  · rw [h2]; exact h.noEof
  · rw [h3]; exact h.naks
  · rw [h4]; exact h.delayed
  · rw [h5]; exact h.prompt
  · rw [h6]; exact h.ack
  · rw [h7]; exact h.idle

/-- the same with the NAK counter paused once more -/
theorem dq_pause {s s' : State} (h : DQ s) (now : Nat) (h1 : s'.cfg = s.cfg) (h2 : s'.fileSize = s.fileSize)
    (h3 : s'.naks = s.naks) (h4 : s'.delayed = s.delayed) (h5 : s'.prompt = s.prompt) (h6 : s'.ack = s.ack)
    (h7 : s'.timer.nak = s.timer.nak.pause now) : DQ s' := by
  refine ⟨?_, ?_, ?_, ?_, ?_, ?_, ?_⟩
  · rw [h1]; exact h.deferred
  · rw [h2]; exact h.noEof
  · rw [h3]; exact h.naks
  · rw [h4]; exact h.delayed
  · rw [h5]; exact h.prompt
  · rw [h6]; exact h.ack
  · rw [h7, idle_pause h.idle]; exact h.idle

theorem dq_shutdown {s : State} (h : DQ s) (now : Nat) : DQ (shutdown s now) := dq_pause h now rfl rfl rfl rfl rfl rfl rfl
theorem dq_suspend {s : State} (h : DQ s) (now : Nat) : DQ (suspend s now) := dq_pause h now rfl rfl rfl rfl rfl rfl rfl

theorem dq_abandon {s : State} (h : DQ s) (now : Nat) : DQ (abandon s now) := by
  simp only [abandon]
  inv_auto dq_frame 7 [dq_shutdown]

theorem dq_cancelInner {s : State} (h : DQ s) (now : Nat) : DQ (cancelInner s now) := by
  have h1 : DQ { s with recvState := .Cancelled, timer := { s.timer with nak := s.timer.nak.pause now } } :=
    dq_pause h now rfl rfl rfl rfl rfl rfl rfl
  dsimp only at h1
  simp only [cancelInner]
  repeat' split
  all_goals inv_auto dq_frame 7 [dq_shutdown]

theorem dq_handleFault {s : State} (h : DQ s) (c : Condition) (now : Nat) : DQ (handleFault s c now).1 := by
  simp only [handleFault, dispatchFault]
  repeat' split
  all_goals inv_auto dq_frame 7 [dq_cancelInner, dq_suspend, dq_abandon]

theorem dq_resume {s : State} (h : DQ s) (now : Nat) : DQ (resume s now) := by
  have he : eofReceived s = false := by simp only [eofReceived, h.noEof]; rfl
  simp only [resume, h.deferred, he, Bool.or_self, Bool.and_false]
  repeat' split
  all_goals first
    | inv_auto dq_frame 7 []
    | (rename_i hh; simp [eofReceived, h.noEof] at hh)

theorem dq_cancel {s : State} (h : DQ s) (now : Nat) : DQ (cancel s now) := by
  simp only [cancel]
  inv_auto dq_frame 7 [dq_cancelInner]

theorem dq_sendReport {s : State} (h : DQ s) : DQ (sendReport s) := by
  inv_auto dq_frame 7 []

theorem dq_sendPdu {s : State} (h : DQ s) (now : Nat) :
    DQ (sendPdu s now) ∧ ∀ p nk, (sendPdu s now).sent = some p → s.sent = none → p.payload ≠ .nak nk := by
  simp only [sendPdu, h.prompt, h.ack, h.naks, Option.isSome_none, List.isEmpty_nil, Bool.not_true]
  repeat' split
  all_goals first
    | (refine ⟨h, ?_⟩; intro p nk hp hs; rw [hs] at hp; cases hp)
    | (rename_i hh; simp at hh; done)
    | skip
  all_goals
    refine ⟨by inv_auto dq_frame 7 [], ?_⟩
    intro p nk hp hs
    simp only [sendFinished, sendPayload, setFinishedFlag] at hp
    repeat' split at hp
    all_goals first
      | (rw [hs] at hp; cases hp; done)
      | (simp only [Option.some.injEq] at hp; subst hp; intro hh; cases hh)

theorem checkFinished_noEof {s : State} (h : s.fileSize = none) (now : Nat) : checkFinished s now = s := by
  simp only [checkFinished, eofReceived, h, Option.isSome_none, Bool.and_false, Bool.false_and]
  rfl

theorem immediateNak_deferred {s : State} (h : s.cfg.immediate = false) (a b now : Nat) :
    immediateNak s a b now = s := by
  simp only [immediateNak, h, Bool.false_and]
  rfl

/-- a PDU that is neither an EOF nor a Prompt -/
def Plain (p : Pdu) : Prop :=
  match p.payload with
  | .eof _ | .prompt _ => False
  | _ => True

theorem dq_processPdu {s : State} (h : DQ s) (p : Pdu) (now : Nat) (hp : Plain p) : DQ (processPdu s p now).1 := by
  have h0 : DQ (pduArrived s now) := dq_frame h rfl rfl rfl rfl rfl rfl rfl
  simp only [processPdu]
  generalize pduArrived s now = t at h0
  simp only [processPduBody]
  cases hpl : p.payload <;> simp only [Plain, hpl] at hp <;> cases hm : t.cfg.mode <;> dsimp only
  all_goals first
    | exact h0
    | (simp only [ackFileData]
       rw [checkFinished_noEof (by simp only [fileSize_immediateNak, fileSize_emit, fileSize_storeFileData]; exact h0.noEof)]
       rw [immediateNak_deferred (by simp only [cfg_emit, cfg_storeFileData]; exact h0.deferred)]
       inv_auto dq_frame 7 [])
    | ((repeat' split) <;> first
        | exact h0
        | (rw [checkFinished_noEof (by simp only [fileSize_storeMetadata]; exact h0.noEof)]; inv_auto dq_frame 7 [])
        | inv_auto dq_frame 7 [dq_shutdown])

theorem dq_handleTimeoutMain {s : State} (h : DQ s) (now : Nat) : DQ (handleTimeoutMain s now) := by
  have hi : DQ (handleInactivity s now).1 := by
    simp only [handleInactivity]
    repeat' split
    all_goals inv_auto dq_frame 7 [dq_abandon, dq_handleFault]
  have hidle : Idle (handleInactivity s now).1.timer.nak := hi.idle
  have hack : ∀ c, DQ (handleAckTimer (handleInactivity s now).1 now c) := by
    intro c
    generalize (handleInactivity s now).1 = t at hi
    simp only [handleAckTimer]
    repeat' split
    all_goals inv_auto dq_frame 7 [dq_abandon, dq_handleFault, dq_shutdown]
  have hack2 : ∀ c, DQ (handleAckTimer { (handleInactivity s now).1 with timer :=
      { (handleInactivity s now).1.timer with nak := (handleInactivity s now).1.timer.nak.pause now } } now c) := by
    intro c
    have hp : DQ { (handleInactivity s now).1 with timer :=
        { (handleInactivity s now).1.timer with nak := (handleInactivity s now).1.timer.nak.pause now } } :=
      dq_pause hi now rfl rfl rfl rfl rfl rfl rfl
    generalize ({ (handleInactivity s now).1 with timer :=
        { (handleInactivity s now).1.timer with nak := (handleInactivity s now).1.timer.nak.pause now } } : State) = t at hp
    simp only [handleAckTimer]
    repeat' split
    all_goals inv_auto dq_frame 7 [dq_abandon, dq_handleFault, dq_shutdown]
  dsimp only at hack2
  simp only [handleTimeoutMain, handleDelayed_nil h.delayed, idle_timeoutOccurred hidle]
  repeat' split
  all_goals first
    | exact h
    | exact hi
    | contradiction
    | exact hack2 _
    | inv_auto dq_frame 7 []


theorem dq_handleTimeout {s : State} (h : DQ s) (now : Nat) : DQ (handleTimeout s now) := by
  simp only [handleTimeout, unackFinishedLimit]
  repeat' split
  all_goals inv_auto dq_frame 7 [dq_handleTimeoutMain, dq_shutdown]

end Cfdp.Recv

namespace Cfdp.Loop
open Cfdp.Codec Cfdp.Gen Cfdp.Recv

def plainEv (e : Ev) : Prop :=
  match e with
  | .pdu p => Plain p
  | _ => True

theorem dq_recvStep {s : Recv.State} (h : DQ s) (now : Nat) (e : Ev) (he : plainEv e) :
    DQ (recvStep s now e) ∧ ∀ p nk, (recvStep s now e).sent = some p → p.payload ≠ .nak nk := by
  have h0 : DQ { s with sent := none, out := [] } := dq_frame h rfl rfl rfl rfl rfl rfl rfl
  have nosent : ∀ {s' : Recv.State}, s'.sent = none → ∀ p nk, s'.sent = some p → p.payload ≠ Payload.nak nk := by
    intro s' hs p nk hp; rw [hs] at hp; cases hp
  simp only [recvStep]
  repeat' split
  all_goals first
    | exact ⟨h0, nosent rfl⟩
    | exact ⟨dq_processPdu h0 _ _ he, nosent (Recv.sent_processPdu _ _ _)⟩
    | exact ⟨(dq_sendPdu h0 _).1, fun p nk hp => (dq_sendPdu h0 _).2 p nk hp rfl⟩
    | exact ⟨dq_handleTimeout h0 _, nosent (Recv.sent_handleTimeout _ _)⟩
    | exact ⟨dq_cancel h0 _, nosent (Recv.sent_cancel _ _)⟩
    | exact ⟨dq_suspend h0 _, nosent (Recv.sent_suspend _ _)⟩
    | exact ⟨dq_resume h0 _, nosent (Recv.sent_resume _ _)⟩
    | exact ⟨dq_sendReport h0, nosent (Recv.sent_sendReport _)⟩
    | exact ⟨dq_shutdown h0 _, nosent (Recv.sent_shutdown _ _)⟩

/-- **C08 (deferred procedure).** A receiver configured for deferred NAKs transmits no NAK before an
EOF has arrived, unless the sender prompts for one: over every history without EOF and Prompt PDUs
(any data, metadata, other PDUs, timer expirations, suspensions, resumptions, faults). -/
theorem C08_deferred_quiet (cfg : Recv.Config) (fs : Fs.FS) (t0 : Nat) (hd : cfg.immediate = false)
    (evs : List (Nat × Ev)) (hev : ∀ x ∈ evs, plainEv x.2) :
    ∀ p ∈ (recvRun (Recv.new cfg fs t0) evs).2, ∀ nk, p.payload ≠ .nak nk := by
  have key : ∀ (evs : List (Nat × Ev)) (s : Recv.State), DQ s → (∀ x ∈ evs, plainEv x.2) →
      ∀ p ∈ (recvRun s evs).2, ∀ nk, p.payload ≠ .nak nk := by
    intro evs
    induction evs with
    | nil => intro s _ _ p hp; cases hp
    | cons x rest ih =>
      intro s hs hx p hp nk
      obtain ⟨now, e⟩ := x
      obtain ⟨h1, h2⟩ := dq_recvStep hs now e (hx (now, e) (List.mem_cons_self ..))
      simp only [recvRun, List.mem_append] at hp
      rcases hp with hp | hp
      · cases hsent : (recvStep s now e).sent with
        | none => rw [hsent] at hp; cases hp
        | some q =>
          rw [hsent] at hp
          simp only [Option.toList, List.mem_singleton] at hp
          subst hp
          exact h2 p nk hsent
      · exact ih _ h1 (fun y hy => hx y (List.mem_cons_of_mem _ hy)) p hp nk
  exact key evs _ ⟨hd, rfl, rfl, rfl, rfl, rfl, ⟨rfl, rfl⟩⟩ hev

end Cfdp.Loop

/-! ### non-vacuity -/
namespace Cfdp.Loop
open Cfdp.Codec Cfdp.Gen

abbrev c08Cfg : Recv.Config :=
  { mode := .Acknowledged, fss := .Small, seg := 64, crc := .NotPresent, max := 2, ti := 1, ta := 1, tn := 1,
    immediate := false, delay := 0, fho := [], src := ⟨2, 1⟩, dst := ⟨2, 2⟩, seq := ⟨2, 7⟩ }
abbrev c08Hdr : Header := { (default : Header) with pduType := .FileDirective, direction := .ToReceiver }
abbrev c08Data (off : Nat) (d : Bytes) : Pdu := { header := { c08Hdr with pduType := .FileData }, payload := .fileData off d }
abbrev c08Eof : Pdu := { header := c08Hdr, payload := .eof { cond := .NoError, checksum := 0, fileSize := 8, fault := none } }
abbrev c08Hist : List (Nat × Ev) :=
  [(0, .pdu (c08Data 2 [3, 4])), (0, .pdu (c08Data 6 [7])), (0, .send), (0, .pdu c08Eof), (0, .send), (0, .send)]

/-- metadata, first segment, a middle piece and the tail lost: the EOF is acknowledged, then one NAK
asks for the metadata and exactly the three missing ranges, inside its scope -/
example : ((recvRun (Recv.new c08Cfg [([], .dir)] 0) c08Hist).2.map
      (fun p => match p.payload with
        | .nak n => some (n.scopeStart, n.scopeEnd, n.requests) | .ack _ => none | _ => some (9, 9, []))) =
    [none, some (0, 8, [(0, 0), (0, 2), (4, 6), (7, 8)])] := by decide
example : ∀ x ∈ c08Hist, EvOk 8 x.2 := by
  intro x hx
  simp only [c08Hist, List.mem_cons, List.mem_nil_iff, or_false] at hx
  rcases hx with rfl | rfl | rfl | rfl | rfl | rfl <;> simp [EvOk, Recv.PduOk]

end Cfdp.Loop

#print axioms Cfdp.Loop.C08_wellformed
#print axioms Cfdp.Recv.C08_exact
#print axioms Cfdp.Recv.C08_queue_after_eof
#print axioms Cfdp.Recv.C08_queue_after_eof_delayed
#print axioms Cfdp.Recv.C08_immediate_gap
#print axioms Cfdp.Loop.C08_deferred_quiet
