import Cfdp.Model.Daemon

/-!
# C11 — concurrent transactions are isolated; stray PDUs cannot disturb the daemon
(the routing part: which task a PDU reaches, which identifiers Put hands out)
-/
namespace Cfdp.Daemon

/-- **C11 (a PDU reaches only its own transaction).** Whatever `forward_pdu` decides for a PDU, the
only entry of the transaction table it can touch is the one keyed by the PDU's (source entity,
sequence number): every other transaction keeps its entry and its liveness, and the decision names
no other transaction. -/
theorem C11_route_isolated (d : DState) (h : Hdr) (k : Tid) (hk : k ≠ key h) :
    (k ∈ (route d h).2.entries ↔ k ∈ d.entries) ∧ (k ∈ (route d h).2.dead ↔ k ∈ d.dead) ∧
    (route d h).1 ≠ .forward k ∧ (route d h).1 ≠ .spawnRecv k := by
  simp only [route]
  repeat' split
  all_goals simp_all [List.mem_filter]
  all_goals (first | (intro hh; exact hk hh.symm) | (intro hh; exact hk hh) | skip)

/-- **C11 (stray responses are discarded).** A PDU addressed to a sender (`ToSender`) for which no
transaction exists creates nothing and changes nothing, and so does any PDU whose transport entity
is unknown. -/
theorem C11_stray_discarded (d : DState) (h : Hdr) (hno : d.entries.contains (key h) = false) :
    (h.dir = .toSender → (route d h).2 = d ∧
      ((route d h).1 = .unableToResume (key h) ∨ (route d h).1 = .noTransport)) ∧
    (d.peers.contains (transportEntity h) = false → route d h = (.noTransport, d)) := by
  refine ⟨?_, ?_⟩
  · intro hd
    simp only [route, hno, Bool.false_eq_true, if_false, hd]
    split <;> simp
  · intro hp
    simp only [route, hno, Bool.false_eq_true, if_false, hp]

/-- a PDU that legitimately starts a transaction (`ToReceiver`, from an entity with a transport)
creates exactly one new entry: its own -/
theorem C11_spawn (d : DState) (h : Hdr) (hno : d.entries.contains (key h) = false) (hd : h.dir = .toReceiver)
    (hp : d.peers.contains h.src = true) :
    route d h = (.spawnRecv (key h), { d with entries := d.entries ++ [key h], spawned := d.spawned ++ [key h] }) := by
  simp only [route, hno, Bool.false_eq_true, if_false, hd, transportEntity, hp, if_true]

/-! ### identifiers handed out for Put requests -/

/-- the identifiers returned by the Put requests of a history, in order -/
def putIds : DState → List Op → List Tid
  | _, [] => []
  | d, o :: rest =>
    (match o with
     | .put dest => ((put d dest).1).toList
     | _ => []) ++ putIds (step d o) rest

theorem entity_step (d : DState) (o : Op) : (step d o).entity = d.entity := by
  cases o <;> simp only [step, route, put, taskEnded, cleanup]
  all_goals (repeat' split)
  all_goals rfl

theorem nextSeq_step (d : DState) (o : Op) : d.nextSeq ≤ (step d o).nextSeq := by
  cases o <;> simp only [step, route, put, taskEnded, cleanup]
  all_goals (repeat' split)
  all_goals first | exact Nat.le_refl _ | exact Nat.le_succ _

theorem putIds_bound (d : DState) (ops : List Op) :
    ∀ id ∈ putIds d ops, id.1 = d.entity ∧ d.nextSeq ≤ id.2 := by
  induction ops generalizing d with
  | nil => intro id h; cases h
  | cons o rest ih =>
    intro id h
    simp only [putIds, List.mem_append] at h
    rcases h with h | h
    · cases o with
      | put dest =>
        simp only [put] at h
        split at h
        · simp only [Option.toList, List.mem_singleton] at h
          subst h; exact ⟨rfl, Nat.le_refl _⟩
        · cases h
      | _ => cases h
    · have := ih (step d o) id h
      rw [entity_step] at this
      exact ⟨this.1, Nat.le_trans (nextSeq_step d o) this.2⟩

/-- **C11 (distinct identifiers).** Over any history of PDUs, Put requests, transaction ends and
clean-ups, the identifiers handed out for Put requests are pairwise distinct (the sequence number
is a counter; in the code it has the width of the configured `VariableID` and wraps after 2^width
requests — the model counts in ℕ). -/
theorem C11_ids_distinct (d : DState) (ops : List Op) : (putIds d ops).Pairwise (· ≠ ·) := by
  induction ops generalizing d with
  | nil => exact List.Pairwise.nil
  | cons o rest ih =>
    simp only [putIds]
    rw [List.pairwise_append]
    refine ⟨?_, ih _, ?_⟩
    · cases o with
      | put dest =>
        show List.Pairwise (· ≠ ·) ((put d dest).1).toList
        cases (put d dest).1 with
        | none => exact List.Pairwise.nil
        | some a => exact List.pairwise_singleton _ _
      | _ => exact List.Pairwise.nil
    · intro a ha b hb
      cases o with
      | put dest =>
        simp only [put] at ha
        split at ha
        · simp only [Option.toList, List.mem_singleton] at ha
          subst ha
          have := (putIds_bound (step d (.put dest)) rest b hb).2
          have hs : (step d (.put dest)).nextSeq = d.nextSeq + 1 := by
            simp only [step, put]; split <;> rfl
          rw [hs] at this
          intro heq
          rw [← heq] at this
          exact absurd this (Nat.not_succ_le_self _)
        · cases ha
      | _ => cases ha

end Cfdp.Daemon

#print axioms Cfdp.Daemon.C11_route_isolated
#print axioms Cfdp.Daemon.C11_stray_discarded
#print axioms Cfdp.Daemon.C11_spawn
#print axioms Cfdp.Daemon.C11_ids_distinct
