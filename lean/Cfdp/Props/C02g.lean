import Cfdp.Props.C18m
set_option linter.unusedSimpArgs false

/-! # C02: from the EOF into the Metadata loop

`C02_lost_metadatas_round` (Props/C02m.lean) starts from a receiver that holds the truthful EOF and every byte of the file but
not the Metadata.  This file shows how it gets there: the truthful EOF arriving at a receiver that holds every byte
but no Metadata leaves it collecting, the request queue rebuilt with the 0-0 marker and the ACK of the EOF due
(`eof_enters_md_wait`). -/
namespace Cfdp.Loop
open Cfdp.Codec Cfdp.Gen Cfdp.Timer Cfdp.Recv Cfdp.Send

/-- **the EOF opens the wait for the Metadata.**  A receiver (acknowledged mode, no NAK delay) that holds every byte of the
source file but no Metadata, and no EOF yet, receives the truthful EOF: it stays collecting (`MW`), its request queue
is the 0-0 marker, the ACK of the EOF is due, the inactivity counter starts again, the NAK counter and the data are
untouched. -/
theorem eof_enters_md_wait (src : Bytes) (ct : ChecksumType) (fs0 : Fs.FS) (r : Recv.State) (t : Nat) (p : Pdu) (e : Eof)
    (hmode : r.cfg.mode = .Acknowledged) (hact : r.state = .Active) (hrd : r.recvState = .ReceiveData)
    (hmd : r.md = none) (hdata : DataOk src r)
    (hcomp : Seg.isComplete r.segs src.length = true) (hfs : r.fs = fs0) (hdl : r.cfg.delay = 0)
    (hp : p.payload = .eof e) (he1 : e.cond = .NoError) (he2 : e.fileSize = src.length)
    (he3 : e.checksum = fileChecksum ct src) :
    MW src ct fs0 (recvStep r t (.pdu p)) ∧ (recvStep r t (.pdu p)).segs = r.segs ∧
    (recvStep r t (.pdu p)).naks = getAllNaks (recvStep r t (.pdu p)) ∧
    (∃ a, (recvStep r t (.pdu p)).ack = some a) ∧ (recvStep r t (.pdu p)).prompt = r.prompt ∧
    (recvStep r t (.pdu p)).delayed = r.delayed ∧
    (recvStep r t (.pdu p)).timer = { r.timer with inactivity := r.timer.inactivity.reset t } ∧
    (recvStep r t (.pdu p)).nakReceived = r.nakReceived ∧ (recvStep r t (.pdu p)).received = r.received := by
  have hnt : ((clrR r).state == TransactionState.Terminated) = false := by
    show (r.state == TransactionState.Terminated) = false; rw [hact]; rfl
  generalize hq : pduArrived (clrR r) t = q
  have q1 : q.cfg = r.cfg := by rw [← hq, cfg_pduArrived]; rfl
  have q2 : q.segs = r.segs := by rw [← hq, segs_pduArrived]; rfl
  have q3 : q.tempFile = r.tempFile := by rw [← hq, tempFile_pduArrived]; rfl
  have hmq : q.cfg.mode = .Acknowledged := by rw [q1]; exact hmode
  generalize hy : emit { prepareAckEof { q with condition := e.cond } with checksum := some e.checksum } .eofRecv = y
  have y1 : y.recvState = .ReceiveData := by rw [← hy, ← hq]; exact hrd
  have y2 : y.md = none := by rw [← hy, ← hq]; exact hmd
  have y4 : y.checksum = some (fileChecksum ct src) := by rw [← hy, ← he3]; rfl
  have y5 : y.condition = .NoError := by rw [← hy, ← he1]; rfl
  have y6 : y.cfg = r.cfg := by rw [← hy]; exact q1
  have y7 : y.state = .Active := by rw [← hy, ← hq]; exact hact
  have y8 : y.fs = fs0 := by rw [← hy, ← hq]; exact hfs
  have y9 : DataOk src y := by rw [← hy]; exact dataOk_frame (dataOk_frame hdata q2 q3) rfl rfl
  have ysegs : y.segs = r.segs := by rw [← hy]; exact q2
  have hcb : (y.condition == Condition.NoError) = true := by rw [y5]; rfl
  have hcs : checkFileSize y e.fileSize t = y := by rw [he2]; exact C02_size_check_passes src y t y9
  have hack : ackEof q e t =
      (if y.condition == Condition.NoError then
        scheduleNaks (checkFinished { checkFileSize y e.fileSize t with fileSize := some e.fileSize } t) e.fileSize t
       else cancelInner y t) := by
    rw [← hy]; rfl
  have e0 : recvStep r t (.pdu p) = ackEof q e t := by
    rw [recvStep_eq]
    simp only [hnt, Bool.false_eq_true, if_false, Recv.processPdu, hq, Recv.processPduBody, hmq, hp]
  have e1 : recvStep r t (.pdu p) = scheduleNaks (checkFinished { y with fileSize := some e.fileSize } t) e.fileSize t := by
    rw [e0, hack, hcs]
    simp only [hcb, if_true]
  generalize hz : ({ y with fileSize := some e.fileSize } : Recv.State) = z at e1
  have z1 : z.recvState = .ReceiveData := by rw [← hz]; exact y1
  have z2 : z.md = none := by rw [← hz]; exact y2
  have z3 : z.fileSize = some src.length := by rw [← hz, ← he2]
  have z4 : z.checksum = some (fileChecksum ct src) := by rw [← hz]; exact y4
  have z5 : z.condition = .NoError := by rw [← hz]; exact y5
  have z6 : z.cfg = r.cfg := by rw [← hz]; exact y6
  have z7 : z.state = .Active := by rw [← hz]; exact y7
  have z8 : z.fs = fs0 := by rw [← hz]; exact y8
  have z9 : DataOk src z := by rw [← hz]; exact dataOk_frame y9 rfl rfl
  have zsegs : z.segs = r.segs := by rw [← hz]; exact ysegs
  -- the Metadata is missing: nothing is finalised, the queue is rebuilt with the 0-0 marker
  have hnn : hasNaks z = true := by
    simp only [hasNaks, z2, Option.isNone_none, Bool.true_or]
  have hnoop : checkFinished z t = z := by
    simp only [checkFinished, z2, Option.isSome_none, Bool.and_false, Bool.false_and, Bool.false_eq_true, if_false]
  have hdz : z.cfg.delay = 0 := by rw [z6]; exact hdl
  have e2 : recvStep r t (.pdu p) = { z with naks := getAllNaks z } := by
    rw [e1, hnoop]
    simp only [scheduleNaks, hnn, hdz, if_true, beq_self_eq_true]
  rw [e2]
  have zc : Seg.isComplete z.segs src.length = true := by rw [zsegs]; exact hcomp
  refine ⟨⟨by show z.cfg.mode = _; rw [z6]; exact hmode, z7, z1, z2, z3, z4, z5, dataOk_frame z9 rfl rfl, zc, z8⟩, zsegs,
    (getAllNaks_congr (s := z) (s' := { z with naks := getAllNaks z }) rfl rfl rfl).symm, ?_, ?_, ?_, ?_, ?_, ?_⟩
  · rw [← hz, ← hy]; exact ⟨_, rfl⟩
  · show z.prompt = _; rw [← hz, ← hy, ← hq]; rfl
  · show z.delayed = _; rw [← hz, ← hy, ← hq]; rfl
  · show z.timer = _; rw [← hz, ← hy, ← hq]; rfl
  · show z.nakReceived = _; rw [← hz, ← hy, ← hq]; rfl
  · show z.received = _; rw [← hz, ← hy, ← hq]; rfl

/-- **the EOF enters the Metadata loop**: after the ACK of the EOF and the NAK carrying the 0-0 marker have gone out, the
receiver is in the starting state of `C02_lost_metadatas_round` -/
theorem eof_enters_md_loop {mx Ta Ti Tn : Nat} (src : Bytes) (ct : ChecksumType) (fs0 : Fs.FS) (r : Recv.State) (t0 t j : Nat)
    (p : Pdu) (e : Eof)
    (hmode : r.cfg.mode = .Acknowledged) (hact : r.state = .Active) (hrd : r.recvState = .ReceiveData)
    (hmd : r.md = none) (hdata : DataOk src r)
    (hcomp : Seg.isComplete r.segs src.length = true) (hfs : r.fs = fs0) (hdl : r.cfg.delay = 0)
    (hpr : r.prompt = none) (hdel : r.delayed = []) (hrt : RT mx Ta Ti Tn r.timer) (hmax : 0 < mx)
    (hroom : (r.nakReceived == r.received) = false ∨ (r.timer.nak.update t).count ≠ r.timer.nak.max)
    (hj : (if (r.nakReceived == r.received) then (r.timer.nak.update t).count else 0) ≤ j)
    (hp : p.payload = .eof e) (he1 : e.cond = .NoError) (he2 : e.fileSize = src.length)
    (he3 : e.checksum = fileChecksum ct src) :
    MW src ct fs0 (eofFlush r t0 t p).1 ∧ WN mx Ta Ti Tn (eofFlush r t0 t p).1 ∧ (eofFlush r t0 t p).1.segs = r.segs ∧
    NB t j (eofFlush r t0 t p).1 ∧ IB Ti t0 (max t0 t) (eofFlush r t0 t p).1.timer.inactivity := by
  obtain ⟨w1, w2, w3, ⟨a, w4⟩, w5, w6, w7, w8, w9⟩ :=
    eof_enters_md_wait src ct fs0 r t0 p e hmode hact hrd hmd hdata hcomp hfs hdl hp he1 he2 he3
  generalize hr1 : recvStep r t0 (.pdu p) = r1 at w1 w2 w3 w4 w5 w6 w7 w8 w9
  have hwf : eofFlush r t0 t p = recvN (r1.naks.length + 1) r1 t := by unfold eofFlush; rw [hr1]
  rw [hwf]
  simp only [recvN]
  -- the ACK of the EOF
  have hs1 := recv_sends_ack_eof r1 t a w1.act w1.rd (by rw [w5]; exact hpr) w4
  generalize hr2 : recvStep r1 t .send = r2 at hs1
  have hk3 : (clrR r1).ack = some a := w4
  have e2 : r2 = Recv.sendPayload { clrR r1 with ack := none } (.ack a) := by
    rw [hs1]; simp only [Recv.sendAckEof, hk3]
  have r2naks : r2.naks = r1.naks := by rw [hs1, Recv.naks_sendAckEof]; rfl
  have r2timer : r2.timer = r1.timer := by rw [hs1, Recv.timer_sendAckEof]; rfl
  have r2same : SameData r2 r1 := by
    rw [hs1]
    exact ⟨by rw [cfg_sendAckEof]; rfl, by rw [state_sendAckEof]; rfl, by rw [recvState_sendAckEof]; rfl,
      by rw [md_sendAckEof]; rfl, by rw [fileSize_sendAckEof]; rfl, by rw [checksum_sendAckEof]; rfl,
      by rw [condition_sendAckEof]; rfl, by rw [segs_sendAckEof]; rfl, by rw [tempFile_sendAckEof]; rfl,
      by rw [fs_sendAckEof]; rfl⟩
  have r2rg : MW src ct fs0 r2 := mw_of_same w1 r2same
  have hrt1 : RT mx Ta Ti Tn r1.timer := by rw [w7]; exact ⟨hrt.ack, cq_reset hrt.inactivity t0, hrt.nak⟩
  have r2nq : NQ mx Ta Ti Tn t r2 := by
    refine ⟨r2rg.act, r2rg.rd, ?_, ?_, by rw [r2timer]; exact hrt1, ?_⟩
    · rw [hs1, Recv.prompt_sendAckEof]; show r1.prompt = none; rw [w5]; exact hpr
    · rw [e2, Recv.ack_sendPayload]
    · unfold NakRoom
      have hnr : r2.nakReceived = r.nakReceived := by rw [hs1, nakReceived_sendAckEof]; show r1.nakReceived = _; exact w8
      have hrc : r2.received = r.received := by rw [hs1, received_sendAckEof]; show r1.received = _; exact w9
      have hnk : r2.timer.nak = r.timer.nak := by rw [r2timer, w7]
      rw [hnr, hrc, hnk]
      refine ⟨by rw [hrt.nak.2.2.1]; exact hmax, ?_⟩
      rcases hroom with h | h
      · exact Or.inl h
      · right; rw [max_update]; exact h
  have r2len : r1.naks.length = r2.naks.length := by rw [r2naks]
  rw [r2len]
  obtain ⟨f1, f2, f3, _, _⟩ := recv_flushes_naks r2.naks.length r2 t r2nq (Nat.le_refl _)
  have hd2 : r2.delayed = [] := by rw [hs1, delayed_sendAckEof]; show r1.delayed = []; rw [w6]; exact hdel
  -- the queue is not empty
  have hne : r2.naks ≠ [] := by
    rw [r2naks, w3]
    have : r1.md = none := w1.md
    simp only [getAllNaks, this, Option.isNone_none, if_true, List.cons_append, List.nil_append]
    exact List.cons_ne_nil _ _
  have hnr2 : r2.nakReceived = r.nakReceived := by rw [hs1, nakReceived_sendAckEof]; show r1.nakReceived = _; exact w8
  have hrc2 : r2.received = r.received := by rw [hs1, received_sendAckEof]; show r1.received = _; exact w9
  have hnk2 : r2.timer.nak = r.timer.nak := by rw [r2timer, w7]
  have hnc : NC t (if (r.nakReceived == r.received) then (r.timer.nak.update t).count else 0) (recvN r2.naks.length r2 t).1 ∧
      (recvN r2.naks.length r2 t).1.received = r2.received := by
    cases hl : r2.naks.length with
    | zero => exact absurd (List.eq_nil_of_length_eq_zero hl) hne
    | succ k =>
      simp only [recvN]
      obtain ⟨n1, n2⟩ := nc_first r2 t r2nq hne
      rw [hnr2, hrc2, hnk2] at n1
      obtain ⟨b1, b2⟩ := nc_recvN k _ t _ (recv_sends_nak _ t r2nq hne).1 n1
      exact ⟨b1, b2.trans n2⟩
  have hin : (recvN r2.naks.length r2 t).1.timer.inactivity = r2.timer.inactivity := inact_recvN _ _ t r2nq
  refine ⟨mw_of_same r2rg f3, ⟨f2.pr, f2.ack, f2.rt, by rw [delayed_recvN]; exact hd2, f1⟩,
    (f3.2.2.2.2.2.2.2.1.trans r2same.2.2.2.2.2.2.2.1).trans w2,
    ⟨hnc.1.start, hnc.1.run, by rw [hnc.1.count]; exact hj, by rw [hnc.1.seen]; exact Nat.le_refl _⟩, ?_⟩
  rw [hin, r2timer, w7]
  exact ⟨by show 0 * Ti ≤ t0 - t0; omega, Nat.le_refl _, Nat.le_max_left _ _⟩

/-- **C02 (from the EOF on, the Metadata PDU lost again and again).**  A receiver holding every byte of the file but no
Metadata gets the truthful EOF at `t0` and transmits the ACK and its NAK at `t`; the Metadata PDU the sender repeats is
lost again and again: as long as the NAK-timer expiries counted from `t` stay below the limits (`FairT`), each is
followed by NAKs carrying the 0-0 marker, and when one of them reaches the sender the Metadata PDU it transmits
completes the delivery: Finished / NoError / Complete / Retained. -/
theorem C02_from_eof_lost_metadatas {mx Ta Ti Tn : Nat} (s : Send.State) (r : Recv.State) (t0 t j ts1 t' : Nat) (p : Pdu)
    (e : Eof) (ts : List Nat) (fs0 : Fs.FS)
    (hs : SQ s.st s) (hsn : s.md.srcName.isEmpty = false)
    (hmode : r.cfg.mode = .Acknowledged) (hact : r.state = .Active) (hrd : r.recvState = .ReceiveData)
    (hmd : r.md = none) (hdata : DataOk s.file r)
    (hcomp : Seg.isComplete r.segs s.file.length = true) (hfs : r.fs = fs0) (hdl : r.cfg.delay = 0)
    (hpr : r.prompt = none) (hdel : r.delayed = []) (hrt : RT mx Ta Ti Tn r.timer) (hmax : 0 < mx)
    (hroom : (r.nakReceived == r.received) = false ∨ (r.timer.nak.update t).count ≠ r.timer.nak.max)
    (hj : (if (r.nakReceived == r.received) then (r.timer.nak.update t).count else 0) ≤ j)
    (hp : p.payload = .eof e) (he1 : e.cond = .NoError) (he2 : e.fileSize = s.file.length)
    (he3 : e.checksum = fileChecksum s.md.cksumType s.file)
    (hf : FairT mx Tn Ti t j t0 ts) (hne : ts ≠ [])
    (hfsw : (fs0.writeFile (Fs.relOf s.md.dstName) s.file).isSome = true) :
    ∃ q ∈ (mdRounds (eofFlush r t0 t p).1 ts).2,
      ∃ pdu ∈ (sendN (sendStep s ts1 (.pdu q)).naks.length (sendStep s ts1 (.pdu q)) ts1).2,
        FG (recvStep (mdRounds (eofFlush r t0 t p).1 ts).1 t' (.pdu pdu)) := by
  obtain ⟨a1, a2, _, a4, a5⟩ := eof_enters_md_loop s.file s.md.cksumType fs0 r t0 t j p e hmode hact hrd hmd hdata hcomp hfs
    hdl hpr hdel hrt hmax hroom hj hp he1 he2 he3
  exact C02_lost_metadatas_round s _ ts t j t0 ts1 t' fs0 hs hsn a1 a2 hmax a4 a5 hf hne hfsw

/-! ### the premises are satisfiable -/

/-- the receiver after both segments; the Metadata PDU was lost and the EOF is still to come -/
def exRM0 : Recv.State :=
  (recvRun (Recv.new cfgL [([], .dir)] 0) [(0, .pdu exOut[1]!), (0, .pdu exOut[2]!)]).1

example : ∃ q ∈ (mdRounds (eofFlush exRM0 5 6 exOut[3]!).1 [1000000006, 2000000100]).2,
    ∃ pdu ∈ (sendN (sendStep exS4 2000000200 (.pdu q)).naks.length (sendStep exS4 2000000200 (.pdu q)) 2000000200).2,
      FG (recvStep (mdRounds (eofFlush exRM0 5 6 exOut[3]!).1 [1000000006, 2000000100]).1 2000000300 (.pdu pdu)) := by
  have hsegs : exRM0.segs = [(0, 6)] := by decide
  have htmp : exRM0.tempFile = some [1, 2, 3, 4, 5, 6] := by decide
  have hri : RI cfgL.max (cfgL.ta * 1000000000) (cfgL.ti * 1000000000) (cfgL.tn * 1000000000) exRM0 :=
    ri_run _ _ (ri_new cfgL [([], .dir)] 0 (by decide) (by decide) (by decide) ⟨by decide, by decide, by decide⟩)
  have hfile : exS4.file = Send.exFile := rfl
  have hdata : DataOk exS4.file exRM0 := by
    rw [hfile]
    refine ⟨?_, ?_, ?_, ?_⟩
    · rw [hsegs]; exact ⟨fun sg hsg => by simp at hsg; subst hsg; decide, by simp⟩
    · rw [hsegs]; intro sg hsg; simp at hsg; subst hsg; decide
    · rw [htmp]; decide
    · rw [hsegs, htmp]
      intro x hx
      obtain ⟨sg, hsg, h1, h2⟩ := hx
      simp at hsg; subst hsg
      have : x = 0 ∨ x = 1 ∨ x = 2 ∨ x = 3 ∨ x = 4 ∨ x = 5 := by simp only at h1 h2; omega
      rcases this with rfl | rfl | rfl | rfl | rfl | rfl <;> rfl
  have he : ∃ e, (exOut[3]!).payload = .eof e ∧ e.cond = .NoError ∧ e.fileSize = 6 ∧ e.checksum = 0 := ⟨_, rfl, rfl, rfl, rfl⟩
  obtain ⟨e, hp, he1, he2, he3⟩ := he
  exact C02_from_eof_lost_metadatas (mx := 4) (Ta := 1000000000) (Ti := 3000000000) (Tn := 1000000000) exS4 exRM0 5 6 0
    2000000200 2000000300 exOut[3]! e [1000000006, 2000000100] exRM0.fs
    ⟨good_run _ (Send.good_new cfgS4 Send.exMd Send.exFile 0 rfl (by decide)) _, by decide, by decide, by decide, by decide, rfl⟩
    (by decide) (by decide) (by decide) (by decide) (by decide) hdata (by decide) rfl (by decide) (by decide) (by decide)
    hri.inv.rt (by decide) (Or.inl (by decide)) (by decide) hp he1 he2 (by rw [he3]; rfl)
    ⟨by decide, by decide, by decide, by decide, by decide, by decide, by decide, by decide, by decide, by decide, trivial⟩
    (by decide) (by decide)

end Cfdp.Loop

#print axioms Cfdp.Loop.eof_enters_md_wait
#print axioms Cfdp.Loop.eof_enters_md_loop
#print axioms Cfdp.Loop.C02_from_eof_lost_metadatas
#print axioms Cfdp.Seg.C02_round_completes
#print axioms Cfdp.Seg.C02_gaps_answered
#print axioms Cfdp.Recv.C02_finishes_when_complete
#print axioms Cfdp.Recv.C02_never_waits_complete
#print axioms Cfdp.Recv.C02_complete_is_success
#print axioms Cfdp.Recv.C02_size_check_passes
#print axioms Cfdp.Loop.C02_no_integrity_fault
#print axioms Cfdp.Net.C02_two_party_no_integrity_fault
#print axioms Cfdp.Loop.C02_recv_completes
#print axioms Cfdp.Loop.C02_send_completes
#print axioms Cfdp.Net.C02_two_party_completes
#print axioms Cfdp.Loop.C02_sender_answers_nak
#print axioms Cfdp.Loop.C02_receiver_recovers
#print axioms Cfdp.Loop.C02_recovery_round
#print axioms Cfdp.Loop.C02_full_round
#print axioms Cfdp.Loop.C02_full_round_after_wake
#print axioms Cfdp.Loop.C02_timer_round
#print axioms Cfdp.Loop.C02_lost_eof_round
#print axioms Cfdp.Loop.C02_lost_finished_round
#print axioms Cfdp.Loop.C02_lost_metadata_round
#print axioms Cfdp.Loop.C02_lossy_rounds
#print axioms Cfdp.Loop.C02_lossy_rounds_fair
#print axioms Cfdp.Loop.C02_two_party_nak_loop
#print axioms Cfdp.Loop.C02_eof_repeated
#print axioms Cfdp.Loop.C02_lost_eofs_round
#print axioms Cfdp.Loop.C02_lost_finisheds_round
#print axioms Cfdp.Loop.C02_from_eof_lossy_rounds
#print axioms Cfdp.Loop.C02_completion_then_lost_finisheds
#print axioms Cfdp.Loop.C02_lost_metadatas_round
