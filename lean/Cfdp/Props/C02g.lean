import Cfdp.Props.C18m
set_option linter.unusedSimpArgs false

/-! # C02: from the EOF into the Metadata loop

`C02_lost_metadatas_round` (Props/C02m.lean) starts from a receiver that holds the truthful EOF and every byte of the file but
not the Metadata.  This file shows how it gets there: the truthful EOF arriving at a receiver that holds every byte
but no Metadata leaves it collecting, the request queue rebuilt with the 0-0 marker and the ACK of the EOF due
(`eof_enters_md_wait`). -/
namespace Cfdp.Loop
open Cfdp.Codec Cfdp.Gen Cfdp.Timer Cfdp.Recv Cfdp.Send

/-- **the EOF opens the wait for the Metadata.**  A receiver (acknowledged mode, no NAK delay) that holds every byte of the
source file but no Metadata, and no EOF yet, receives the truthful EOF: it stays collecting (`MW`), its request queue
is the 0-0 marker, the ACK of the EOF is due, the inactivity counter starts again, the NAK counter and the data are
untouched. -/
theorem eof_enters_md_wait (src : Bytes) (ct : ChecksumType) (fs0 : Fs.FS) (r : Recv.State) (t : Nat) (p : Pdu) (e : Eof)
    (hmode : r.cfg.mode = .Acknowledged) (hact : r.state = .Active) (hrd : r.recvState = .ReceiveData)
    (hmd : r.md = none) (hdata : DataOk src r)
    (hcomp : Seg.isComplete r.segs src.length = true) (hfs : r.fs = fs0) (hdl : r.cfg.delay = 0)
    (hp : p.payload = .eof e) (he1 : e.cond = .NoError) (he2 : e.fileSize = src.length)
    (he3 : e.checksum = fileChecksum ct src) :
    MW src ct fs0 (recvStep r t (.pdu p)) ∧ (recvStep r t (.pdu p)).segs = r.segs ∧
    (recvStep r t (.pdu p)).naks = getAllNaks (recvStep r t (.pdu p)) ∧
    (∃ a, (recvStep r t (.pdu p)).ack = some a) ∧ (recvStep r t (.pdu p)).prompt = r.prompt ∧
    (recvStep r t (.pdu p)).delayed = r.delayed ∧
    (recvStep r t (.pdu p)).timer = { r.timer with inactivity := r.timer.inactivity.reset t } ∧
    (recvStep r t (.pdu p)).nakReceived = r.nakReceived ∧ (recvStep r t (.pdu p)).received = r.received := by
  have hnt : ((clrR r).state == TransactionState.Terminated) = false := by
    show (r.state == TransactionState.Terminated) = false; rw [hact]; rfl
  generalize hq : pduArrived (clrR r) t = q
  have q1 : q.cfg = r.cfg := by rw [← hq, cfg_pduArrived]; rfl
  have q2 : q.segs = r.segs := by rw [← hq, segs_pduArrived]; rfl
  have q3 : q.tempFile = r.tempFile := by rw [← hq, tempFile_pduArrived]; rfl
  have hmq : q.cfg.mode = .Acknowledged := by rw [q1]; exact hmode
  generalize hy : emit { prepareAckEof { q with condition := e.cond } with checksum := some e.checksum } .eofRecv = y
  have y1 : y.recvState = .ReceiveData := by rw [← hy, ← hq]; exact hrd
  have y2 : y.md = none := by rw [← hy, ← hq]; exact hmd
  have y4 : y.checksum = some (fileChecksum ct src) := by rw [← hy, ← he3]; rfl
  have y5 : y.condition = .NoError := by rw [← hy, ← he1]; rfl
  have y6 : y.cfg = r.cfg := by rw [← hy]; exact q1
  have y7 : y.state = .Active := by rw [← hy, ← hq]; exact hact
  have y8 : y.fs = fs0 := by rw [← hy, ← hq]; exact hfs
  have y9 : DataOk src y := by rw [← hy]; exact dataOk_frame (dataOk_frame hdata q2 q3) rfl rfl
  have ysegs : y.segs = r.segs := by rw [← hy]; exact q2
  have hcb : (y.condition == Condition.NoError) = true := by rw [y5]; rfl
  have hcs : checkFileSize y e.fileSize t = y := by rw [he2]; exact C02_size_check_passes src y t y9
  have hack : ackEof q e t =
      (if y.condition == Condition.NoError then
        scheduleNaks (checkFinished { checkFileSize y e.fileSize t with fileSize := some e.fileSize } t) e.fileSize t
       else cancelInner y t) := by
    rw [← hy]; rfl
  have e0 : recvStep r t (.pdu p) = ackEof q e t := by
    rw [recvStep_eq]
    simp only [hnt, Bool.false_eq_true, if_false, Recv.processPdu, hq, Recv.processPduBody, hmq, hp]
  have e1 : recvStep r t (.pdu p) = scheduleNaks (checkFinished { y with fileSize := some e.fileSize } t) e.fileSize t := by
    rw [e0, hack, hcs]
    simp only [hcb, if_true]
  generalize hz : ({ y with fileSize := some e.fileSize } : Recv.State) = z at e1
  have z1 : z.recvState = .ReceiveData := by rw [← hz]; exact y1
  have z2 : z.md = none := by rw [← hz]; exact y2
  have z3 : z.fileSize = some src.length := by rw [← hz, ← he2]
  have z4 : z.checksum = some (fileChecksum ct src) := by rw [← hz]; exact y4
  have z5 : z.condition = .NoError := by rw [← hz]; exact y5
  have z6 : z.cfg = r.cfg := by rw [← hz]; exact y6
  have z7 : z.state = .Active := by rw [← hz]; exact y7
  have z8 : z.fs = fs0 := by rw [← hz]; exact y8
  have z9 : DataOk src z := by rw [← hz]; exact dataOk_frame y9 rfl rfl
  have zsegs : z.segs = r.segs := by rw [← hz]; exact ysegs
  -- the Metadata is missing: nothing is finalised, the queue is rebuilt with the 0-0 marker
  have hnn : hasNaks z = true := by
    simp only [hasNaks, z2, Option.isNone_none, Bool.true_or]
  have hnoop : checkFinished z t = z := by
    simp only [checkFinished, z2, Option.isSome_none, Bool.and_false, Bool.false_and, Bool.false_eq_true, if_false]
  have hdz : z.cfg.delay = 0 := by rw [z6]; exact hdl
  have e2 : recvStep r t (.pdu p) = { z with naks := getAllNaks z } := by
    rw [e1, hnoop]
    simp only [scheduleNaks, hnn, hdz, if_true, beq_self_eq_true]
  rw [e2]
  have zc : Seg.isComplete z.segs src.length = true := by rw [zsegs]; exact hcomp
  refine ⟨⟨by show z.cfg.mode = _; rw [z6]; exact hmode, z7, z1, z2, z3, z4, z5, dataOk_frame z9 rfl rfl, zc, z8⟩, zsegs,
    (getAllNaks_congr (s := z) (s' := { z with naks := getAllNaks z }) rfl rfl rfl).symm, ?_, ?_, ?_, ?_, ?_, ?_⟩
  · rw [← hz, ← hy]; exact ⟨_, rfl⟩
  · show z.prompt = _; rw [← hz, ← hy, ← hq]; rfl
  · show z.delayed = _; rw [← hz, ← hy, ← hq]; rfl
  · show z.timer = _; rw [← hz, ← hy, ← hq]; rfl
  · show z.nakReceived = _; rw [← hz, ← hy, ← hq]; rfl
  · show z.received = _; rw [← hz, ← hy, ← hq]; rfl

end Cfdp.Loop

#print axioms Cfdp.Loop.eof_enters_md_wait
#print axioms Cfdp.Seg.C02_round_completes
#print axioms Cfdp.Seg.C02_gaps_answered
#print axioms Cfdp.Recv.C02_finishes_when_complete
#print axioms Cfdp.Recv.C02_never_waits_complete
#print axioms Cfdp.Recv.C02_complete_is_success
#print axioms Cfdp.Recv.C02_size_check_passes
#print axioms Cfdp.Loop.C02_no_integrity_fault
#print axioms Cfdp.Net.C02_two_party_no_integrity_fault
#print axioms Cfdp.Loop.C02_recv_completes
#print axioms Cfdp.Loop.C02_send_completes
#print axioms Cfdp.Net.C02_two_party_completes
#print axioms Cfdp.Loop.C02_sender_answers_nak
#print axioms Cfdp.Loop.C02_receiver_recovers
#print axioms Cfdp.Loop.C02_recovery_round
#print axioms Cfdp.Loop.C02_full_round
#print axioms Cfdp.Loop.C02_full_round_after_wake
#print axioms Cfdp.Loop.C02_timer_round
#print axioms Cfdp.Loop.C02_lost_eof_round
#print axioms Cfdp.Loop.C02_lost_finished_round
#print axioms Cfdp.Loop.C02_lost_metadata_round
#print axioms Cfdp.Loop.C02_lossy_rounds
#print axioms Cfdp.Loop.C02_lossy_rounds_fair
#print axioms Cfdp.Loop.C02_two_party_nak_loop
#print axioms Cfdp.Loop.C02_eof_repeated
#print axioms Cfdp.Loop.C02_lost_eofs_round
#print axioms Cfdp.Loop.C02_lost_finisheds_round
#print axioms Cfdp.Loop.C02_from_eof_lossy_rounds
#print axioms Cfdp.Loop.C02_completion_then_lost_finisheds
#print axioms Cfdp.Loop.C02_lost_metadatas_round
