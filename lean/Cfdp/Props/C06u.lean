import Cfdp.Props.C06
import Cfdp.Props.C05u

/-! # C06, reserved CFDP messages and status reports: decoding never panics -/
namespace Cfdp.Codec
open Cfdp.Gen

theorem readIdLV_np (bs : Bytes) : readIdLV bs ≠ .error .panic := by
  unfold readIdLV; np_auto []
theorem decIdPair_np (bs : Bytes) : decIdPair bs ≠ .error .panic := by
  unfold decIdPair; np_auto []
theorem decHandler_np (bs : Bytes) : decHandler bs ≠ .error .panic := by
  unfold decHandler; np_auto []
theorem decSuspResp_np (bs : Bytes) : decSuspResp bs ≠ .error .panic := by
  unfold decSuspResp; np_auto [decIdPair_np]
theorem UserOp.decodeBody_np (mt : MessageType) (bs : Bytes) : UserOp.decodeBody mt bs ≠ .error .panic := by
  unfold UserOp.decodeBody
  cases mt <;> np_auto [readIdLV_np, decIdPair_np, decHandler_np, decSuspResp_np, FsRequest.decode_np, FsResponse.decode_np]

/-- **C06 (reserved CFDP messages).**  For every byte string the user-operation decoder returns a
message or an error of the `PDUError` kind — the model, which has an explicit `panic` outcome for
every arithmetic that can overflow in the code, never reaches it. -/
theorem C06_userop_total (bs : Bytes) : UserOp.decode bs ≠ .error .panic := by
  rw [UserOp.decode_eq]
  np_auto [UserOp.decodeBody_np]

/-- **C06 (status report).** -/
theorem C06_report_total (bs : Bytes) : Report.decode bs ≠ .error .panic := by
  unfold Report.decode; np_auto [VarId.decode_np]

end Cfdp.Codec

#print axioms Cfdp.Codec.C06_userop_total
#print axioms Cfdp.Codec.C06_report_total
#print axioms Cfdp.Codec.C06_total
#print axioms Cfdp.Codec.C06_alloc
