import Cfdp.Props.C04
import Cfdp.Props.C18

/-!
# C10 — cancel ends both sides and never leaves a partial file
-/
namespace Cfdp.Recv
open Cfdp.Codec Cfdp.Gen Cfdp.Timer

/-! ### the destination name is written only by a completed delivery -/

theorem fs_finalizeReceive_md (s : State) (now : Nat) : (finalizeReceive s now).1.md = s.md := md_finalizeReceive _ _

/-- `check_finished` touches the filestore only when its guard holds: metadata present, EOF
received, nothing missing -/
theorem fs_checkFinished (s : State) (now : Nat) (h : (checkFinished s now).fs ≠ s.fs) :
    s.recvState = .ReceiveData ∧ NothingMissing s := by
  simp only [checkFinished] at h
  split at h
  · rename_i hg
    simp only [Bool.and_eq_true, eofReceived, Bool.not_eq_true', beq_iff_eq] at hg
    obtain ⟨⟨⟨h1, h2⟩, h3⟩, h4⟩ := hg
    refine ⟨h1, h2, ?_⟩
    intro hft
    obtain ⟨n, hn⟩ := Option.isSome_iff_exists.mp h3
    refine ⟨n, hn, ?_⟩
    simp only [hft, Bool.true_and] at h4
    simp only [hasNaks, hn, Bool.or_eq_false_iff] at h4
    simpa using h4.2
  · exact absurd rfl h

theorem handleFault_stops {s : State} {c : Condition} (h : handlerFor s c ≠ .Ignore) (now : Nat) :
    (handleFault s c now).2 = false := by
  have hh : ∀ i, handlerFor (emit { s with condition := c } i) c = handlerFor s c := fun _ => rfl
  simp only [handleFault, dispatchFault, hh]
  cases hf : handlerFor s c <;> simp_all

theorem fs_unackComplete (s : State) (now : Nat) (n : Nat) (hn : s.fileSize = some n)
    (hi : handlerFor s .CheckLimitReached ≠ .Ignore) (h : (unackComplete s now).fs ≠ s.fs) :
    NothingMissing (unackComplete s now) := by
  simp only [unackComplete, unackCheckMissing] at h ⊢
  split
  · -- something is missing: the fault handler stops the finalisation
    rename_i hg
    simp only [hg, if_true, handleFault_stops hi now, Bool.not_false, fs_handleFault] at h
    exact absurd rfl h
  · rename_i hg
    simp only [Bool.not_true, Bool.false_eq_true, if_false]
    refine nothingMissing_frame (s := s) ?_ (md_unackFinish _ _) (fileSize_unackFinish _ _) (segs_unackFinish _ _)
    simp only [Bool.or_eq_true, Bool.and_eq_true, not_or, not_and, Bool.not_eq_true] at hg
    refine ⟨by cases hm : s.md <;> simp_all, ?_⟩
    intro hft
    have := hg.2 hft
    simp only [hasNaks, hn, Bool.or_eq_false_iff] at this
    exact ⟨n, hn, by simpa using this.2⟩

theorem nm_checkFinished (s : State) (now : Nat) (h : (checkFinished s now).fs ≠ s.fs) :
    NothingMissing (checkFinished s now) :=
  nothingMissing_frame (fs_checkFinished s now h).2 (md_checkFinished _ _) (fileSize_checkFinished _ _)
    (segs_checkFinished _ _)

theorem fs_ackFileData (s : State) (off : Nat) (d : Bytes) (now : Nat) (h : (ackFileData s off d now).fs ≠ s.fs) :
    NothingMissing (ackFileData s off d now) := by
  simp only [ackFileData] at h ⊢
  apply nm_checkFinished
  intro hh; apply h; rw [hh]
  simp only [fs_immediateNak, fs_emit, fs_storeFileData]

theorem fs_ackEof (s : State) (e : Eof) (now : Nat) (h : (ackEof s e now).fs ≠ s.fs) :
    NothingMissing (ackEof s e now) := by
  simp only [ackEof] at h ⊢
  split at h
  · rename_i hc
    simp only [hc, if_true]
    simp only [fs_scheduleNaks] at h
    refine nothingMissing_frame (nm_checkFinished _ now ?_) (md_scheduleNaks _ _ _) (fileSize_scheduleNaks _ _ _)
      (segs_scheduleNaks _ _ _)
    intro hh; apply h; rw [hh]
    simp only [fs_checkFileSize, fs_emit, fs_prepareAckEof]
  · simp only [fs_cancelInner, fs_emit, fs_prepareAckEof] at h
    exact absurd rfl h

theorem fs_unackEof (s : State) (e : Eof) (now : Nat) (hi : handlerFor s .CheckLimitReached ≠ .Ignore)
    (h : (unackEof s e now).fs ≠ s.fs) : NothingMissing (unackEof s e now) := by
  simp only [unackEof] at h ⊢
  split at h
  · simp only [fs_setFinishedFlag, fs_emit] at h
    exact absurd rfl h
  · split at h
    · rename_i h1 h2
      simp only [h1, h2, if_true, Bool.false_eq_true, if_false]
      simp only [unackEofNoError] at h ⊢
      refine fs_unackComplete _ now e.fileSize rfl ?_ ?_
      · simp only [handlerFor, cfg_checkFileSize, cfg_emit]; exact hi
      · intro hh; apply h; rw [hh]
        simp only [fs_checkFileSize, fs_emit]
    · simp only [fs_cancelInner, fs_emit] at h
      exact absurd rfl h

/-- the filestore is only touched by a PDU that completes the delivery: the transaction is still
receiving and, unless the user chose to ignore the CheckLimitReached fault, nothing is missing -/
theorem fs_processPdu (s : State) (p : Pdu) (now : Nat) (h : (processPdu s p now).1.fs ≠ s.fs) :
    s.recvState = .ReceiveData ∧
    (handlerFor s .CheckLimitReached ≠ .Ignore → NothingMissing (processPdu s p now).1) := by
  have hr : s.recvState = .ReceiveData := by
    apply Classical.byContradiction
    intro hn
    exact h (processPdu_nr (s := s) hn p now).1
  refine ⟨hr, ?_⟩
  intro hi
  have hfs0 : (pduArrived s now).fs = s.fs := rfl
  have hi0 : handlerFor (pduArrived s now) .CheckLimitReached ≠ .Ignore := hi
  simp only [processPdu] at h ⊢
  rw [← hfs0] at h
  generalize pduArrived s now = t at h hi0
  simp only [processPduBody] at h ⊢
  cases hpl : p.payload <;> simp only [hpl] at h ⊢ <;> cases hm : t.cfg.mode <;> simp only [hm] at h ⊢
  all_goals first
    | (exact absurd rfl h)
    | exact fs_ackFileData t _ _ now h
    | exact fs_ackEof t _ now h
    | exact fs_unackEof t _ now hi0 h
    | (split at h
       · simp only [fs_shutdown] at h; exact absurd rfl h
       · exact absurd rfl h)
    | (split at h
       · rename_i hmd
         simp only [hmd, if_true]
         apply nm_checkFinished
         intro hh; apply h; rw [hh]; rfl
       · exact absurd rfl h)
    | (split at h
       · exact absurd rfl h
       · exact absurd rfl h)
    | (simp only [fs_emit, fs_storeFileData] at h; exact absurd rfl h)

end Cfdp.Recv

namespace Cfdp.Loop
open Cfdp.Codec Cfdp.Gen Cfdp.Recv

/-- **C10 (no partial file).** Over every event the loop can see: if a loop iteration changes
anything in the filestore, the transaction was still receiving (so neither cancelled nor finished
before) and — unless the user configured the CheckLimitReached fault to be ignored — the metadata
and every byte of the announced file size had been received: the destination name is only ever
written by a completed delivery, never by a cancel, a fault, a timeout or a partial transfer. -/
theorem C10_no_partial (s : Recv.State) (now : Nat) (e : Ev) (h : (recvStep s now e).fs ≠ s.fs) :
    s.recvState = .ReceiveData ∧
    (handlerFor s .CheckLimitReached ≠ .Ignore → NothingMissing (recvStep s now e)) := by
  simp only [recvStep] at h ⊢
  split at h
  · exact absurd rfl h
  · split at h
    · rename_i p
      have := fs_processPdu { s with sent := none, out := [] } p now h
      simp only [*, Bool.false_eq_true, if_false]
      exact this
    all_goals first
      | (exfalso; apply h; split <;> simp only [Recv.fs_sendPdu, Recv.fs_handleTimeout])
      | (exfalso; apply h
         simp only [Recv.fs_cancel, Recv.fs_suspend, Recv.fs_resume, Recv.fs_sendReport, Recv.fs_shutdown])
      | (exfalso; exact h rfl)

/-- **C10 (cancel freezes the filestore).** A cancel — the user's, the peer's EOF(cancel) or a
cancelling fault handler — puts the receiver in the Cancelled phase without touching the filestore,
and from then on no history of events changes it (C04_final): a cancelled transfer leaves under the
destination name exactly what was there when the cancel took effect. -/
theorem C10_cancel_freezes (s : Recv.State) (now : Nat) (evs : List (Nat × Ev)) :
    (recvStep s now .cancel).fs = s.fs ∧
    (s.state ≠ .Terminated →
      (recvStep s now .cancel).recvState = .Cancelled ∧
      (recvRun (recvStep s now .cancel) evs).1.fs = s.fs) := by
  have h1 : (recvStep s now .cancel).fs = s.fs := by
    simp only [recvStep]
    split
    · rfl
    · simp only [Recv.fs_cancel]
  refine ⟨h1, ?_⟩
  intro hs
  have hb : (s.state == TransactionState.Terminated) = false := by
    cases hst : s.state <;> simp_all
  have h2 : (recvStep s now .cancel).recvState = .Cancelled := by
    simp only [recvStep, hb, Bool.false_eq_true, if_false, Recv.cancel, Recv.cancelInner, Recv.recvState_emit]
    repeat' split
    all_goals simp [Recv.prepareFinished, Recv.shutdown]
  refine ⟨h2, ?_⟩
  have hn : NR (recvStep s now .cancel) := by unfold NR; rw [h2]; intro hh; cases hh
  rw [(C04_final _ hn evs).1, h1]

end Cfdp.Loop

namespace Cfdp.Recv
open Cfdp.Codec Cfdp.Gen Cfdp.Timer

theorem recvState_cancelInner (s : State) (now : Nat) : (cancelInner s now).recvState = .Cancelled := by
  simp only [cancelInner, recvState_emit]
  split
  · rfl
  · split <;> rfl

/-- the Finished PDU content built by `prepare_finished(None)` -/
def finOf (s : State) : Finished :=
  { cond := s.condition, delivery := s.delivery, fileStatus := s.fileStatus, responses := s.responses, fault := none }

/-- what `_cancel` leaves behind, by mode and closure -/
theorem cancelInner_cases (s : State) (now : Nat) :
    (s.cfg.mode = .Acknowledged →
      (cancelInner s now).finished = some (finOf s, true) ∧ (cancelInner s now).state = s.state ∧
      (cancelInner s now).out = s.out ++ [.finished s.condition s.delivery s.fileStatus s.state s.status []]) ∧
    (s.cfg.mode = .Unacknowledged → closureRequested s = true →
      (cancelInner s now).finished = some (finOf s, true) ∧ (cancelInner s now).state = s.state ∧
      (cancelInner s now).out = s.out ++ [.finished s.condition s.delivery s.fileStatus s.state s.status []]) ∧
    (s.cfg.mode = .Unacknowledged → closureRequested s = false →
      (cancelInner s now).state = .Terminated ∧
      (cancelInner s now).out = s.out ++ [.finished s.condition s.delivery s.fileStatus .Terminated s.status []]) := by
  refine ⟨?_, ?_, ?_⟩
  · intro hm
    simp only [cancelInner, hm, emit, prepareFinished, finOf, and_self]
  · intro hm hc
    simp only [closureRequested] at hc
    simp only [cancelInner, hm, closureRequested, hc, if_true, emit, prepareFinished, finOf, and_self]
  · intro hm hc
    simp only [closureRequested] at hc
    simp only [cancelInner, hm, closureRequested, hc, Bool.false_eq_true, if_false, emit, shutdown, and_self]

/-- **C10 (receiver cancel).** A user cancel puts the receiver in the Cancelled phase with the
cancel condition without touching the filestore, tells the user (Finished indication carrying the
condition) and the sender: in acknowledged mode, and in unacknowledged mode when closure was
requested, a Finished PDU with the condition is queued and the transaction stays alive to send it;
otherwise it ends at once. -/
theorem C10_recv_cancel (s : State) (now : Nat) :
    (cancel s now).recvState = .Cancelled ∧ (cancel s now).condition = .CancelReceived ∧ (cancel s now).fs = s.fs ∧
    ((s.cfg.mode = .Acknowledged ∨ closureRequested s = true) →
      (cancel s now).finished.map (fun x => (x.1.cond, x.2)) = some (.CancelReceived, true) ∧
      (cancel s now).state = s.state ∧
      (cancel s now).out = s.out ++ [.finished .CancelReceived s.delivery s.fileStatus s.state s.status []]) ∧
    (s.cfg.mode = .Unacknowledged → closureRequested s = false →
      (cancel s now).state = .Terminated ∧
      (cancel s now).out = s.out ++ [.finished .CancelReceived s.delivery s.fileStatus .Terminated s.status []]) := by
  have hcl : closureRequested { s with condition := Condition.CancelReceived } = closureRequested s := rfl
  obtain ⟨c1, c2, c3⟩ := cancelInner_cases { s with condition := Condition.CancelReceived } now
  refine ⟨?_, ?_, fs_cancel _ _, ?_, ?_⟩
  · simp only [cancel, recvState_cancelInner]
  · simp only [cancel, condition_cancelInner]
  · intro hm
    cases hmode : s.cfg.mode
    · obtain ⟨f1, f2, f3⟩ := c1 hmode
      simp only [cancel]
      rw [f1, f2, f3]
      exact ⟨rfl, rfl, rfl⟩
    · have hc : closureRequested s = true := by
        rcases hm with hm | hm
        · rw [hmode] at hm; cases hm
        · exact hm
      obtain ⟨f1, f2, f3⟩ := c2 hmode (hcl.trans hc)
      simp only [cancel]
      rw [f1, f2, f3]
      exact ⟨rfl, rfl, rfl⟩
  · intro hm hc
    obtain ⟨f1, f2⟩ := c3 hm (hcl.trans hc)
    simp only [cancel]
    rw [f1, f2]
    exact ⟨rfl, rfl⟩

/-- the peer's cancel: an EOF with an error condition cancels the receiver with that condition -/
theorem C10_recv_peer_cancel (s : State) (e : Eof) (now : Nat) (he : e.cond ≠ .NoError) :
    (ackEof s e now).recvState = .Cancelled ∧ (ackEof s e now).condition = e.cond ∧
    (s.recvState = .ReceiveData → (unackEof s e now).recvState = .Cancelled ∧ (unackEof s e now).condition = e.cond) := by
  have hb : (e.cond == Condition.NoError) = false := by cases hc : e.cond <;> simp_all
  refine ⟨?_, ?_, ?_⟩
  · simp only [ackEof, condition_emit, prepareAckEof, hb, Bool.false_eq_true, if_false, recvState_cancelInner]
  · simp only [ackEof, condition_emit, prepareAckEof, hb, Bool.false_eq_true, if_false, condition_cancelInner]
  · intro hr
    have hr' : (s.recvState != RecvState.ReceiveData) = false := by rw [hr]; rfl
    simp only [unackEof, recvState_emit, condition_emit, hr', hb, Bool.false_eq_true, if_false,
      recvState_cancelInner, condition_cancelInner, and_self]

/-- a cancelled receiver ends: on the ACK of its Finished PDU, or by Abandon at the positive-ACK limit -/
theorem C10_recv_cancel_ends (s : State) (now : Nat) (hc : s.recvState = .Cancelled) :
    ((s.timer.ack.limitReached now).2 = true → (handleAckTimer s now true).state = .Terminated) ∧
    (∀ p a, p.payload = .ack a → a.directive = .Finished → a.sub = .Finished → s.cfg.mode = .Acknowledged →
      (processPdu s p now).1.state = .Terminated) := by
  refine ⟨?_, ?_⟩
  · intro hl
    simp only [handleAckTimer, hl, if_true, abandon, shutdown, emit]
  · intro p a hp hd hs hm
    have hm' : (pduArrived s now).cfg.mode = .Acknowledged := hm
    have hc' : (pduArrived s now).recvState = .Cancelled := hc
    simp only [processPdu, processPduBody, hm', hp, hc', hd, hs, shutdown]
    rfl

end Cfdp.Recv

namespace Cfdp.Send
open Cfdp.Codec Cfdp.Gen Cfdp.Timer

/-- **C10 (sender cancel).** Cancelled phase, and an EOF carrying the cancel condition and the
sender's entity id as fault location is queued for (re)transmission until acknowledged. -/
theorem C10_send_cancel (s : State) (now : Nat) :
    (cancel s now).sendState = .Cancelled ∧ (cancel s now).condition = .CancelReceived ∧
    ∃ e, (cancel s now).eof = some (e, true) ∧ e.cond = .CancelReceived ∧ e.fault = some s.cfg.src := by
  have h1 : ∀ t : State, (getChecksum t).1.condition = t.condition ∧ (getChecksum t).1.sendState = t.sendState := by
    intro t
    simp only [getChecksum, openHandle]
    repeat' split
    all_goals exact ⟨rfl, rfl⟩
  refine ⟨?_, ?_, ?_⟩
  · simp only [cancel, cancelInner, prepareEof, (h1 _).2]
  · simp only [cancel, cancelInner, prepareEof, (h1 _).1]
  · simp only [cancel, cancelInner, prepareEof, (h1 _).1]
    exact ⟨_, rfl, rfl, rfl⟩

/-- the cancelled sender transmits that EOF when it gets the link, ends by Abandon at the
positive-ACK or inactivity limit, and acknowledges the receiver's Finished PDU and ends -/
theorem C10_send_cancel_ends (s : State) (now : Nat) (hc : s.sendState = .Cancelled) (hp : s.prompt = none) :
    (∀ e, s.eof = some (e, true) → ∃ h, (sendPdu s now).sent = some { header := h, payload := .eof e }) ∧
    (((s.timer.ack.timeoutOccurred now).2 = true ∧
      ((s.timer.ack.timeoutOccurred now).1.limitReached now).2 = true) →
        (handleAckTimer s now true).state = .Terminated) ∧
    ((s.timer.inactivity.limitReached now).2 = true → (handleInactivity s now true).state = .Terminated) := by
  refine ⟨?_, ?_, ?_⟩
  · intro e he
    simp only [sendPdu, hp, Option.isSome_none, Bool.false_eq_true, if_false, hc, sendEof, he, setEofFlag,
      sendPayload, getHeader]
    repeat' split
    all_goals first
      | exact ⟨_, rfl⟩
      | simp_all
  · intro ⟨h1, h2⟩
    simp only [handleAckTimer, h1, h2, if_true, abandon, shutdown, emit]
  · intro h1
    simp only [handleInactivity, h1, if_true, abandon, shutdown, emit]

end Cfdp.Send

#print axioms Cfdp.Loop.C10_no_partial
#print axioms Cfdp.Loop.C10_cancel_freezes
#print axioms Cfdp.Recv.C10_recv_cancel
#print axioms Cfdp.Recv.C10_recv_peer_cancel
#print axioms Cfdp.Recv.C10_recv_cancel_ends
#print axioms Cfdp.Send.C10_send_cancel
#print axioms Cfdp.Send.C10_send_cancel_ends
