import Cfdp.Props.C02f
set_option linter.unusedSimpArgs false

/-! # C10: from the Cancel.request into the retransmission loop

`C10_cancel_eof_repeated` / `C10_lost_cancel_eofs_round` (Props/C02z.lean) start from a cancelled sender that has transmitted
its EOF(cancel).  This file shows that the user's Cancel.request and the transmission that follows put any live
acknowledged sender there (`cancel_enters_wait`), so: Cancel.request, the EOF(cancel) lost again and again below the
limits, and whichever retransmission arrives cancels the receiver (`C10_cancel_then_lost_eofs`). -/
namespace Cfdp.Loop
open Cfdp.Codec Cfdp.Gen Cfdp.Timer Cfdp.Recv Cfdp.Send

/-- **the Cancel.request enters the loop.**  A live sender (acknowledged mode, no Prompt pending) is cancelled by its user at
`t` and transmits: the PDU is an EOF carrying CancelReceived, the sender is in the Cancelled phase waiting for the ACK
of it with that EOF kept for retransmission, the positive-ACK counter runs since `t` from zero, and the inactivity
counter is stopped with what it had counted. -/
theorem cancel_enters_wait {m Ta Ti : Nat} (s : Send.State) (t a hi : Nat) (ha : s.state = .Active)
    (hm : s.cfg.mode = .Acknowledged) (hp : s.prompt = none) (hq : QT m Ta Ti s.timer)
    (ib : IB Ti a hi s.timer.inactivity) (hle : hi ≤ t) :
    ∃ e, e.cond = .CancelReceived ∧
      (∃ hd, (sendStep (sendStep s t .cancel) t .send).sent = some ⟨hd, .eof e⟩) ∧
      Waits e (sendStep (sendStep s t .cancel) t .send) ∧
      (sendStep (sendStep s t .cancel) t .send).sendState = .Cancelled ∧
      QT m Ta Ti (sendStep (sendStep s t .cancel) t .send).timer ∧
      AB t 0 (sendStep (sendStep s t .cancel) t .send).timer.ack ∧
      IB Ti a t (sendStep (sendStep s t .cancel) t .send).timer.inactivity := by
  have hnt : ((clrS s).state == TransactionState.Terminated) = false := by
    show (s.state == TransactionState.Terminated) = false; rw [ha]; rfl
  have e1 : sendStep s t .cancel = Send.cancel (clrS s) t := by
    rw [sendStep_eq]; simp only [hnt, Bool.false_eq_true, if_false]
  obtain ⟨c1, _, e, c3, c4, _⟩ := Send.C10_send_cancel (clrS s) t
  have hq2 := qt_sendStep (qt_sendStep hq t .cancel) t .send
  rw [e1] at hq2 ⊢
  -- the state the Cancel.request leaves
  have ctimer : (Send.cancel (clrS s) t).timer =
      { inactivity := s.timer.inactivity.pause t, ack := (s.timer.ack.reset t).pause t, nak := s.timer.nak } := by
    simp only [Send.cancel, Send.cancelInner, timer_prepareEof]; rfl
  have cst : (Send.cancel (clrS s) t).st = s.st := by
    simp only [Send.cancel, Send.cancelInner, Send.st_prepareEof]; rfl
  have cstate : (Send.cancel (clrS s) t).state = .Active := by
    simp only [Send.cancel, Send.cancelInner, Send.state_prepareEof]; exact ha
  have cprompt : (Send.cancel (clrS s) t).prompt = none := by
    simp only [Send.cancel, Send.cancelInner, Send.prompt_prepareEof]; exact hp
  generalize hc : Send.cancel (clrS s) t = c at c1 c3 ctimer cst cstate cprompt hq2
  have hnt2 : ((clrS c).state == TransactionState.Terminated) = false := by
    show (c.state == TransactionState.Terminated) = false; rw [cstate]; rfl
  have hns2 : ((clrS c).state == TransactionState.Suspended) = false := by
    show (c.state == TransactionState.Suspended) = false; rw [cstate]; rfl
  have j1 : (clrS c).sendState = .Cancelled := c1
  have j2 : (clrS c).prompt = none := cprompt
  have j4 : (clrS c).eof = some (e, true) := c3
  have hhas : Send.hasPduToSend (clrS c) = true := by
    simp only [Send.hasPduToSend, hns2, Bool.false_eq_true, if_false, j2, j1, Send.eofFlag, j4, Option.isSome_none,
      Bool.false_or]
  have e3 : sendStep c t .send = Send.sendEof (clrS c) t := by
    rw [sendStep_eq]
    simp only [hnt2, Bool.false_eq_true, if_false, hhas, if_true, Send.sendPdu, j2, Option.isSome_none, j1]
  obtain ⟨p1, p7, p8, p9⟩ := Send.sendEof_due (clrS c) t e j4
  rw [e3] at hq2 ⊢
  have hTi : s.timer.inactivity.timeout = Ti := hq.inactivity.2.2.2
  have hTip : 0 < Ti := by rw [← hTi]; exact hq.inactivity.2.1
  have hTa := hq.ack.2.1
  refine ⟨e, c4, p1, ⟨?_, ?_, ?_, p7, Or.inr ?_⟩, ?_, hq2, ⟨?_, ?_, ?_⟩, ?_⟩
  · rw [Send.state_sendEof]; exact cstate
  · show (Send.sendEof (clrS c) t).st.cfg.mode = _; rw [Send.st_sendEof]; show c.st.cfg.mode = _; rw [cst]; exact hm
  · rw [Send.prompt_sendEof]; exact cprompt
  · rw [Send.sendState_sendEof]; exact c1
  · rw [Send.sendState_sendEof]; exact c1
  · rw [p8]; rfl
  · rw [p8]; rfl
  · rw [p8]
    show (c.timer.ack.restart t).count ≤ 0
    rw [ctimer]
    show ((((s.timer.ack.reset t).pause t)).update t).count ≤ 0
    have hz : ((s.timer.ack.reset t).pause t).count = 0 := by
      show ((s.timer.ack.reset t).update t).count = 0
      rw [update_reset _ _ hTa]; rfl
    have hpz : ((s.timer.ack.reset t).pause t).paused = true := rfl
    have : ((s.timer.ack.reset t).pause t).update t = (s.timer.ack.reset t).pause t := by
      simp only [Counter.update, hpz, if_true]
    rw [this, hz]; exact Nat.le_refl _
  · rw [p9]
    show IB Ti a t c.timer.inactivity
    rw [ctimer]
    show IB Ti a t (s.timer.inactivity.pause t)
    have ibu := ib_update ib t hTi hTip hq.inactivity.1 hle
    exact ⟨ibu.cnt, ibu.lo, ibu.hi⟩

/-- **C10 (Cancel.request, then the EOF(cancel) lost again and again).**  The user cancels a live acknowledged sender at `t`;
the EOF(cancel) goes out and is lost, and so are its retransmissions - as long as the expiries of the positive-ACK
timer stay below the limit (`FairT` counted from `t`), each is followed by a retransmission of that same EOF, and
whichever of them reaches the receiver (acknowledged mode, any phase) cancels it with CancelReceived: it tells its
user, leaves the filestore as it is, and has the ACK and a Finished PDU carrying that condition to transmit. -/
theorem C10_cancel_then_lost_eofs {m Ta Ti : Nat} (s : Send.State) (r : Recv.State) (t a hi t' : Nat) (ts : List Nat)
    (ha : s.state = .Active) (hm : s.cfg.mode = .Acknowledged) (hp : s.prompt = none) (hq : QT m Ta Ti s.timer)
    (ib : IB Ti a hi s.timer.inactivity) (hle : hi ≤ t) (hf : FairT m Ta Ti t 0 a ts)
    (hra : r.state = .Active) (hrm : r.cfg.mode = .Acknowledged) :
    (eofRounds (sendStep (sendStep s t .cancel) t .send) ts).2.length = ts.length ∧
    ∀ pdu ∈ (eofRounds (sendStep (sendStep s t .cancel) t .send) ts).2,
      (recvStep r t' (.pdu pdu)).recvState = .Cancelled ∧ (recvStep r t' (.pdu pdu)).condition = .CancelReceived ∧
      (recvStep r t' (.pdu pdu)).fs = r.fs ∧
      (∃ f, (recvStep r t' (.pdu pdu)).finished = some (f, true) ∧ f.cond = .CancelReceived) := by
  obtain ⟨e, he, _, w, hss, hq2, ab, ib2⟩ := cancel_enters_wait s t a hi ha hm hp hq ib hle
  have ib3 : IB Ti a (max a t) (sendStep (sendStep s t .cancel) t .send).timer.inactivity :=
    ⟨ib2.cnt, ib2.lo, Nat.le_trans ib2.hi (Nat.le_max_right _ _)⟩
  obtain ⟨c1, c2⟩ := C10_lost_cancel_eofs_round _ r ts t 0 a t' e w.act w.mode hss w.pr w.eof (by rw [he]; decide) hq2 ab ib3 hf
    hra hrm
  refine ⟨c1, fun pdu hpdu => ?_⟩
  obtain ⟨q1, q2, q3, q4⟩ := c2 pdu hpdu
  exact ⟨q1, by rw [q2, he], q3, by obtain ⟨f, f1, f2⟩ := q4; exact ⟨f, f1, by rw [f2, he]⟩⟩

/-! ### the premises are satisfiable -/

example : (eofRounds (sendStep (sendStep exS4 5 .cancel) 5 .send) [1000000005, 2000000100]).2.length = 2 ∧
    ∀ pdu ∈ (eofRounds (sendStep (sendStep exS4 5 .cancel) 5 .send) [1000000005, 2000000100]).2,
      (recvStep exR4 2000000200 (.pdu pdu)).recvState = .Cancelled ∧
      (recvStep exR4 2000000200 (.pdu pdu)).condition = .CancelReceived := by
  have hqt : QT 4 1000000000 3000000000 exS4.timer := by
    refine qt_run _ ⟨?_, ?_, rfl⟩ _
    · exact cq_new _ _ _ (by decide)
    · exact cq_new _ _ _ (by decide)
  obtain ⟨c1, c2⟩ := C10_cancel_then_lost_eofs (m := 4) (Ta := 1000000000) (Ti := 3000000000) exS4 exR4 5 0 0 2000000200
    [1000000005, 2000000100] (by decide) (by decide) (by decide) hqt ⟨by decide, by decide, by decide⟩ (by decide)
    ⟨by decide, by decide, by decide, by decide, by decide, by decide, by decide, by decide, by decide, by decide, trivial⟩
    (by decide) (by decide)
  exact ⟨c1, fun pdu hp => ⟨(c2 pdu hp).1, (c2 pdu hp).2.1⟩⟩

end Cfdp.Loop

#print axioms Cfdp.Loop.cancel_enters_wait
#print axioms Cfdp.Loop.C10_cancel_then_lost_eofs
#print axioms Cfdp.Loop.C10_no_partial
#print axioms Cfdp.Loop.C10_cancel_freezes
#print axioms Cfdp.Recv.C10_recv_cancel
#print axioms Cfdp.Recv.C10_recv_peer_cancel
#print axioms Cfdp.Recv.C10_recv_cancel_ends
#print axioms Cfdp.Send.C10_send_cancel
#print axioms Cfdp.Send.C10_send_cancel_ends
#print axioms Cfdp.Net.C10_two_party_sender_cancel
#print axioms Cfdp.Net.C10_two_party_receiver_cancel
#print axioms Cfdp.Loop.C10_lost_cancel_eof_round
#print axioms Cfdp.Loop.C10_lost_cancel_finished_round
#print axioms Cfdp.Loop.C10_cancel_eof_repeated
#print axioms Cfdp.Loop.C10_lost_cancel_eofs_round
#print axioms Cfdp.Loop.C10_lost_cancel_finisheds_round
