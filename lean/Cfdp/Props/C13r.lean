import Cfdp.Props.C13

/-! # C13: rename, create directory, remove directory — the whole post-state -/
namespace Cfdp.Fs
open Cfdp.Codec Cfdp.Gen

theorem isPrefix_refl (p : RelPath) : isPrefix p p = true := by
  induction p with
  | nil => rfl
  | cons a as ih => simp [isPrefix, ih]

/-- removing a directory removes exactly the directory and everything below it -/
theorem get_removeDirAll (fs : FS) (p q : RelPath) :
    FS.get (fs.filter (fun e => !isPrefix p e.1)) q = if isPrefix p q then none else fs.get q := by
  simp only [FS.get]
  split
  · rename_i h
    have : (fs.filter (fun e => !isPrefix p e.1)).find? (fun e => e.1 == q) = none := by
      rw [List.find?_eq_none]
      intro x hx hxq
      have h1 := (List.mem_filter.mp hx).2
      simp only [beq_iff_eq] at hxq
      rw [hxq, h] at h1
      cases h1
    rw [this]; rfl
  · rename_i h
    congr 1
    induction fs with
    | nil => rfl
    | cons x rest ih =>
      simp only [List.filter_cons]
      by_cases hx : isPrefix p x.1 = true
      · have h2 : (x.1 == q) = false := by
          simp only [beq_eq_false_iff_ne, ne_eq]
          intro hh; rw [hh] at hx; exact h hx
        simp only [hx, Bool.not_true, Bool.false_eq_true, if_false, List.find?_cons, h2]
        exact ih
      · have hx' : isPrefix p x.1 = false := by simpa using hx
        simp only [hx', Bool.not_false, if_true, List.find?_cons]
        split
        · rfl
        · exact ih

/-- **C13 (remove directory).**  The request succeeds iff the name is a directory; afterwards the
directory and every path below it are gone, every other path is unchanged. -/
theorem C13_remove_directory (fs : FS) (q : FsRequest) (ha : q.action = .RemoveDirectory) :
    let p := relOf q.name1
    ((processRequest fs q).1 = 0 ↔ fs.isDir p = true) ∧
    ((processRequest fs q).1 = 0 →
      ∀ p', (processRequest fs q).2.get p' = if isPrefix p p' then none else fs.get p') := by
  intro p
  simp only [p, processRequest, ha, FS.removeDirAll]
  cases h1 : fs.isDir (relOf q.name1)
  · simp [RemoveDirectoryStatus.toNat]
  · simp only [if_true, RemoveDirectoryStatus.toNat, true_iff, true_and]
    intro _ p'
    exact get_removeDirAll fs _ p'

/-- **C13 (create directory).**  The request succeeds iff the name does not exist and its parent is
a directory; afterwards the name is an (empty) directory and every other path is unchanged. -/
theorem C13_create_directory (fs : FS) (q : FsRequest) (ha : q.action = .CreateDirectory) :
    let p := relOf q.name1
    ((processRequest fs q).1 = 0 →
      (processRequest fs q).2.get p = some .dir ∧ ∀ p', p' ≠ p → (processRequest fs q).2.get p' = fs.get p') := by
  intro p
  simp only [p, processRequest, ha, FS.createDir]
  cases h0 : fs.isDir (relOf q.name1)
  · cases h1 : fs.exist (relOf q.name1) <;> cases h2 : fs.parentIsDir (relOf q.name1)
    all_goals simp only [CreateDirectoryStatus.toNat, Bool.false_eq_true, if_false, if_true, Bool.not_false,
      Bool.not_true]
    all_goals first
      | (intro hh; exact absurd hh (by decide))
      | skip
    · intro _
      have hnone : fs.find? (fun e => e.1 == relOf q.name1) = none := by
        simp only [FS.exist, FS.get, Option.isSome_map] at h1
        cases hf : fs.find? (fun e => e.1 == relOf q.name1) with
        | none => rfl
        | some x => rw [hf] at h1; cases h1
      refine ⟨?_, ?_⟩
      · simp [FS.get, List.find?_append, hnone]
      · intro p' hp'
        simp only [FS.get, List.find?_append]
        have : [(relOf q.name1, Node.dir)].find? (fun e => e.1 == p') = none := by
          simp only [List.find?_cons, List.find?_nil]
          have : (relOf q.name1 == p') = false := by simp; exact fun hh => hp' hh.symm
          simp [this]
        rw [this, Option.or_none]
  · simp [CreateDirectoryStatus.toNat]

/-- re-keying every entry `src` to `dst` (what `rename` does to a plain file) -/
def rekey (src dst : RelPath) (n : Node) (fs : FS) : FS :=
  fs.map (fun e => if e.1 == src then (dst, n) else e)

theorem get_rekey_other (fs : FS) (src dst q : RelPath) (n : Node) (h1 : q ≠ src) (h2 : q ≠ dst) :
    FS.get (rekey src dst n fs) q = fs.get q := by
  simp only [FS.get, rekey]
  congr 1
  induction fs with
  | nil => rfl
  | cons x rest ih =>
    simp only [List.map_cons, List.find?_cons]
    by_cases hx : x.1 = src
    · have a1 : (x.1 == src) = true := by simp [hx]
      have a2 : (dst == q) = false := by simp; exact fun hh => h2 hh.symm
      have a3 : (x.1 == q) = false := by simp [hx]; exact fun hh => h1 hh.symm
      simp only [a1, if_true, a2, a3]
      exact ih
    · have a1 : (x.1 == src) = false := by simp [hx]
      simp only [a1, Bool.false_eq_true, if_false]
      split
      · rfl
      · exact ih

theorem get_rekey_src (fs : FS) (src dst : RelPath) (n : Node) (h : dst ≠ src) :
    FS.get (rekey src dst n fs) src = none := by
  simp only [FS.get, rekey]
  have : (fs.map (fun e => if e.1 == src then (dst, n) else e)).find? (fun e => e.1 == src) = none := by
    rw [List.find?_eq_none]
    intro x hx
    obtain ⟨e, _, he⟩ := List.mem_map.mp hx
    by_cases hs : e.1 = src
    · have : (e.1 == src) = true := by simp [hs]
      simp only [this, if_true] at he
      subst he
      simp; exact h
    · have : (e.1 == src) = false := by simp [hs]
      simp only [this, Bool.false_eq_true, if_false] at he
      subst he
      simp [hs]
  rw [this]; rfl

theorem get_rekey_dst (fs : FS) (src dst : RelPath) (n : Node) (hget : fs.get src = some n)
    (hnd : fs.get dst = none) : FS.get (rekey src dst n fs) dst = some n := by
  simp only [FS.get, rekey] at *
  induction fs with
  | nil => simp at hget
  | cons x rest ih =>
    simp only [List.map_cons, List.find?_cons] at hget hnd ⊢
    by_cases hx : x.1 = src
    · have a1 : (x.1 == src) = true := by simp [hx]
      simp [a1]
    · have a1 : (x.1 == src) = false := by simp [hx]
      simp only [a1, Bool.false_eq_true, if_false] at hget ⊢
      by_cases hd : x.1 = dst
      · have a2 : (x.1 == dst) = true := by simp [hd]
        simp [a2] at hnd
      · have a2 : (x.1 == dst) = false := by simp [hd]
        simp only [a2] at hnd ⊢
        exact ih hget hnd

/-- **C13 (rename file).**  For a plain file (nothing in the filestore lies below its name) a
successful rename moves exactly that file: afterwards the new name holds what the old name held,
the old name is gone and every other path is unchanged. -/
theorem C13_rename_file (fs : FS) (q : FsRequest) (ha : q.action = .RenameFile)
    (hleaf : ∀ e ∈ fs, isPrefix (relOf q.name1) e.1 = true → e.1 = relOf q.name1) :
    let p1 := relOf q.name1
    let p2 := relOf q.name2
    (processRequest fs q).1 = 0 →
      (processRequest fs q).2.get p2 = fs.get p1 ∧ (processRequest fs q).2.get p1 = none ∧
      ∀ p', p' ≠ p1 → p' ≠ p2 → (processRequest fs q).2.get p' = fs.get p' := by
  intro p1 p2
  simp only [p1, p2, processRequest, ha, FS.renameFile]
  cases h1 : fs.isFile (relOf q.name1)
  · simp [RenameStatus.toNat]
  · simp only [if_true]
    cases h2 : fs.isFile (relOf q.name2)
    · simp only [Bool.false_eq_true, if_false]
      cases h3 : fs.exist (relOf q.name2)
      · simp only [Bool.false_eq_true, if_false]
        cases hg : fs.get (relOf q.name1) with
        | none => simp [RenameStatus.toNat]
        | some n =>
          dsimp only
          cases h4 : fs.parentIsDir (relOf q.name2)
          · simp [RenameStatus.toNat]
          · cases h5 : isPrefix (relOf q.name1) (relOf q.name2)
            · simp only [Bool.not_true, Bool.false_eq_true, if_false, RenameStatus.toNat, true_imp_iff]
              have hmap : (fs.map (fun e => if e.1 == relOf q.name1 then (relOf q.name2, n)
                  else if isPrefix (relOf q.name1) e.1 then (relOf q.name2 ++ e.1.drop (relOf q.name1).length, e.2) else e))
                  = rekey (relOf q.name1) (relOf q.name2) n fs := by
                simp only [rekey]
                apply List.map_congr_left
                intro e he
                by_cases hs : e.1 = relOf q.name1
                · simp [hs]
                · have a1 : (e.1 == relOf q.name1) = false := by simp [hs]
                  have a2 : isPrefix (relOf q.name1) e.1 = false := by
                    cases hp : isPrefix (relOf q.name1) e.1 with
                    | false => rfl
                    | true => exact absurd (hleaf e he hp) hs
                  simp [a1, a2]
              rw [hmap]
              have hne : relOf q.name2 ≠ relOf q.name1 := by
                intro hh; rw [hh, isPrefix_refl] at h5; cases h5
              have hnd : fs.get (relOf q.name2) = none := by
                simp only [FS.exist] at h3
                cases hx : fs.get (relOf q.name2) with
                | none => rfl
                | some v => rw [hx] at h3; cases h3
              exact ⟨get_rekey_dst fs _ _ n hg hnd, get_rekey_src fs _ _ n hne,
                fun p' a b => get_rekey_other fs _ _ p' n a b⟩
            · simp [RenameStatus.toNat]
      · simp [RenameStatus.toNat]
    · simp [RenameStatus.toNat]

end Cfdp.Fs

#print axioms Cfdp.Fs.C13_rename_file
#print axioms Cfdp.Fs.C13_remove_directory
#print axioms Cfdp.Fs.C13_create_directory

/-- non-vacuity: renaming the plain file `old` to `new` in a two-entry filestore -/
example :
    let fs : Cfdp.Fs.FS := [([], .dir), (["old".toList], .file [79, 76, 68])]
    let q : Cfdp.Codec.FsRequest := { action := .RenameFile, name1 := [111, 108, 100], name2 := [110, 101, 119] }
    (Cfdp.Fs.processRequest fs q).1 = 0 ∧ (Cfdp.Fs.processRequest fs q).2.get ["new".toList] = some (.file [79, 76, 68]) := by
  decide

#print axioms Cfdp.Fs.C13_failed_changes_nothing
#print axioms Cfdp.Fs.C13_create_file
#print axioms Cfdp.Fs.C13_delete_file
#print axioms Cfdp.Fs.C13_append_file
#print axioms Cfdp.Fs.C13_replace_file
#print axioms Cfdp.Fs.C13_preconditions
#print axioms Cfdp.Fs.C13_run_requests
#print axioms Cfdp.Recv.C13_recv_runs_requests
#print axioms Cfdp.Recv.C13_finished_pdu_responses
#print axioms Cfdp.Send.C13_send_user_responses
