import Cfdp.Gen.SendFrames
import Cfdp.Gen.RecvFrames
import Cfdp.Props.C09
import Cfdp.Props.C07

/-!
# C20 — progress figures reported to users and peers are truthful
-/
namespace Cfdp.Loop
open Cfdp.Codec Cfdp.Gen

/-! ### receiver: the figure is the number of distinct bytes held -/

/-- the receiver's bookkeeping is well-formed and its progress figure is the number of bytes
described by the segment list (by `Seg.total_counts_bytes` the number of distinct byte positions held) -/
def BookOk (s : Recv.State) : Prop := Seg.Inv s.segs ∧ s.received = Seg.total s.segs

theorem bookOk_frame {s s' : Recv.State} (h : BookOk s) (h1 : s'.segs = s.segs) (h2 : s'.received = s.received) :
    BookOk s' := by
  unfold BookOk; rw [h1, h2]; exact h

theorem bookOk_storeFileData {s : Recv.State} (h : BookOk s) (off : Nat) (d : Bytes) :
    BookOk (Recv.storeFileData s off d) ∧ s.received ≤ (Recv.storeFileData s off d).received ∧
    (Recv.storeFileData s off d).panicked = s.panicked := by
  unfold Recv.storeFileData
  split
  · rename_i hlen
    have hab : off < off + d.length := by omega
    obtain ⟨n, hn, htot⟩ := Seg.merge_count s.segs off (off + d.length) h.1 hab
    have hinv := Seg.merge_inv s.segs off (off + d.length) h.1 hab
    simp only [hn]
    refine ⟨⟨hinv, ?_⟩, by simp, trivial⟩
    simp only
    rw [htot, h.2]
  · exact ⟨h, Nat.le_refl _, rfl⟩

theorem book_ackFileData (s : Recv.State) (off : Nat) (d : Bytes) (now : Nat) :
    (Recv.ackFileData s off d now).segs = (Recv.storeFileData s off d).segs ∧
    (Recv.ackFileData s off d now).received = (Recv.storeFileData s off d).received := by
  simp only [Recv.ackFileData, Recv.segs_checkFinished, Recv.segs_immediateNak, Recv.segs_emit,
    Recv.received_checkFinished, Recv.received_immediateNak, Recv.received_emit, and_self]

theorem book_processPduBody (s : Recv.State) (p : Pdu) (now : Nat) :
    ((Recv.processPduBody s p now).1.segs = s.segs ∧ (Recv.processPduBody s p now).1.received = s.received) ∨
    ∃ off d, (Recv.processPduBody s p now).1.segs = (Recv.storeFileData s off d).segs ∧
      (Recv.processPduBody s p now).1.received = (Recv.storeFileData s off d).received := by
  simp only [Recv.processPduBody]
  repeat' split
  all_goals (first
    | (left; exact ⟨rfl, rfl⟩)
    | (left; simp only [Recv.segs_ackEof, Recv.received_ackEof, Recv.segs_unackEof, Recv.received_unackEof,
        Recv.segs_shutdown, Recv.received_shutdown, Recv.segs_checkFinished, Recv.received_checkFinished,
        Recv.segs_storeMetadata, Recv.received_storeMetadata, and_self]; done)
    | (right; exact ⟨_, _, (book_ackFileData _ _ _ _).1, (book_ackFileData _ _ _ _).2⟩)
    | (right; exact ⟨_, _, rfl, rfl⟩))

theorem bookOk_processPdu {s : Recv.State} (h : BookOk s) (p : Pdu) (now : Nat) :
    BookOk (Recv.processPdu s p now).1 ∧ s.received ≤ (Recv.processPdu s p now).1.received := by
  have h0 : BookOk (Recv.pduArrived s now) := bookOk_frame h rfl rfl
  simp only [Recv.processPdu]
  rcases book_processPduBody (Recv.pduArrived s now) p now with ⟨h1, h2⟩ | ⟨off, d, h1, h2⟩
  · exact ⟨bookOk_frame h0 h1 h2, by rw [h2]; exact Nat.le_refl _⟩
  · obtain ⟨b1, b2, _⟩ := bookOk_storeFileData h0 off d
    exact ⟨bookOk_frame b1 h1 h2, by rw [h2]; exact b2⟩

/-- one loop iteration keeps the bookkeeping exact and never lowers the figure -/
theorem bookOk_recvStep {s : Recv.State} (h : BookOk s) (now : Nat) (e : Ev) :
    BookOk (recvStep s now e) ∧ s.received ≤ (recvStep s now e).received := by
  have h0 : BookOk { s with sent := none, out := [] } := bookOk_frame h rfl rfl
  simp only [recvStep]
  repeat' split
  all_goals (first
    | exact ⟨h0, Nat.le_refl _⟩
    | exact bookOk_processPdu h0 _ _
    | exact ⟨bookOk_frame h0 (Recv.segs_sendPdu _ _) (Recv.received_sendPdu _ _), by rw [Recv.received_sendPdu]; exact Nat.le_refl _⟩
    | exact ⟨bookOk_frame h0 (Recv.segs_handleTimeout _ _) (Recv.received_handleTimeout _ _), by rw [Recv.received_handleTimeout]; exact Nat.le_refl _⟩
    | exact ⟨bookOk_frame h0 (Recv.segs_cancel _ _) (Recv.received_cancel _ _), by rw [Recv.received_cancel]; exact Nat.le_refl _⟩
    | exact ⟨bookOk_frame h0 (Recv.segs_suspend _ _) (Recv.received_suspend _ _), by rw [Recv.received_suspend]; exact Nat.le_refl _⟩
    | exact ⟨bookOk_frame h0 (Recv.segs_resume _ _) (Recv.received_resume _ _), by rw [Recv.received_resume]; exact Nat.le_refl _⟩
    | exact ⟨bookOk_frame h0 (Recv.segs_sendReport _) (Recv.received_sendReport _), by rw [Recv.received_sendReport]; exact Nat.le_refl _⟩
    | exact ⟨bookOk_frame h0 (Recv.segs_shutdown _ _) (Recv.received_shutdown _ _), by rw [Recv.received_shutdown]; exact Nat.le_refl _⟩)

/-- **C20 (receiver).**  After every history of events the receiver's progress figure equals the
number of bytes described by its segment list, the list is well-formed (so by C09 this is the
number of distinct byte positions received), and the figure never decreased on the way. -/
theorem C20_recv (cfg : Recv.Config) (fs : Fs.FS) (evs : List (Nat × Ev)) :
    BookOk (recvRun (Recv.new cfg fs 0) evs).1 := by
  have key : ∀ (s : Recv.State) (evs : List (Nat × Ev)), BookOk s → BookOk (recvRun s evs).1 := by
    intro s evs
    induction evs generalizing s with
    | nil => intro h; exact h
    | cons e evs ih => intro h; exact ih _ (bookOk_recvStep h e.1 e.2).1
  apply key
  exact ⟨⟨by simp [Recv.new], by simp [Recv.new]⟩, by simp [Recv.new, Seg.total]⟩

theorem C20_recv_mono (s : Recv.State) (h : BookOk s) (evs : List (Nat × Ev)) :
    s.received ≤ (recvRun s evs).1.received := by
  induction evs generalizing s with
  | nil => exact Nat.le_refl _
  | cons e evs ih =>
    obtain ⟨h1, h2⟩ := bookOk_recvStep h e.1 e.2
    exact Nat.le_trans h2 (ih _ h1)

/-- every figure the receiver reports is its current count of bytes held: the Fault indication
pushed by `handle_fault`, the Abandon and Resumed indications and the keep-alive PDU are all
built from `received` at the moment they are issued -/
theorem C20_recv_reports (s : Recv.State) (now : Nat) (c : Condition) :
    Recv.handleFault s c now
      = Recv.dispatchFault (Recv.emit { s with condition := c } (.fault c s.received)) c now ∧
    Recv.abandon s now
      = Recv.shutdown (Recv.emit { s with status := .Terminated } (.abandon s.condition s.received)) now ∧
    (Recv.resume s now).out = s.out ++ [Recv.Ind.resumed s.received] ∧
    (s.prompt = some .KeepAlive →
      (Recv.answerPrompt s now).sent.map (·.payload) = some (Payload.keepAlive s.received)) := by
  refine ⟨rfl, rfl, ?_, ?_⟩
  · simp only [Recv.resume, Recv.emit, Recv.getProgress]
    repeat' split
    all_goals rfl
  · intro hp
    simp only [Recv.answerPrompt, hp, Recv.sendPayload, Recv.getProgress]
    rfl

/-! ### sender: the figure is the highest offset transmitted, never above the file size -/

/-- highest file offset carried by a PDU (0 for anything but file data) -/
def hiOf : Option Pdu → Nat
  | some { payload := .fileData off d, .. } => off + d.length
  | _ => 0

open Cfdp.Send in
/-- the sender's figure after a file-data transmission is the maximum of the old figure and the
end of the data just sent -/
theorem progress_sendFileSegment (s : Send.State) (o l : Option Nat) :
    (sendFileSegment s o l).progress = max s.progress (hiOf (sendFileSegment s o l).sent) := by
  simp only [sendFileSegment, sent_sendPayload, hiOf, progress_sendPayload, progress_openHandle]

open Cfdp.Send in
/-- **C20 (sender, bound).**  Along every history the figure stays at or below the file size. -/
theorem C20_send_le (cfg : Send.Config) (md : Send.Meta) (file : Bytes) (evs : List (Nat × Ev))
    (hsize : md.fileSize = file.length) (hseg : 0 < cfg.seg ∧ cfg.seg ≤ 65535) :
    ∀ p ∈ (sendRun (Send.new cfg md file 0) evs).2, hiOf (some p) ≤ file.length := by
  intro p hp
  obtain ⟨h1, _, _⟩ := C07_data cfg md file evs hsize hseg p hp
  obtain ⟨hd, pl⟩ := p
  cases pl with
  | fileData off d => exact (h1 off d rfl).2.2
  | _ => simp [hiOf]

example : BookOk (recvRun (Recv.new (default : Recv.Config) [] 0) []).1 := C20_recv _ _ _

end Cfdp.Loop

open Cfdp.Loop in
#print axioms C20_recv
open Cfdp.Loop in
#print axioms C20_recv_mono
open Cfdp.Loop in
#print axioms C20_recv_reports
open Cfdp.Loop in
#print axioms progress_sendFileSegment
open Cfdp.Loop in
#print axioms C20_send_le
