import Cfdp.Tactic.Peel
import Cfdp.Props.C02s
import Cfdp.Props.C04n

/-! # C02 / C04: no spurious file-integrity fault, along every history -/
namespace Cfdp.Recv
open Cfdp.Codec Cfdp.Gen

/-- **C02 (no spurious file-size fault).**  While the staging data agrees with the source (C01's
invariant), an EOF announcing the source's true size passes `check_file_size`: no FilesizeError is
declared, whatever was lost, duplicated or reordered before. -/
theorem C02_size_check_passes (src : Bytes) (s : State) (now : Nat) (hd : DataOk src s) :
    checkFileSize s src.length now = s := by
  apply checkFileSize_ok
  simp only [Seg.endOr0, Seg.endOf]
  cases hl : s.segs.getLast? with
  | none => simp
  | some sg =>
    have hm : sg ∈ s.segs := List.mem_of_getLast? hl
    simpa using hd.bound sg hm

end Cfdp.Recv

namespace Cfdp.Recv
open Cfdp.Codec Cfdp.Gen

/-- a file-integrity fault indication -/
def isIF : Ind → Bool
  | .fault .FileChecksumFailure _ => true
  | .fault .FilesizeError _ => true
  | _ => false

/-- what the receiver has learnt from the sender's PDUs agrees with the sender's static data, the
segment list stays inside the file, and no integrity fault was declared in this iteration -/
structure Link (st : Send.Static) (s : State) : Prop where
  ck : ∀ v, s.checksum = some v → v = Send.trueChecksum st
  md : ∀ m, s.md = some m → m.cksumType = st.md.cksumType ∧ m.srcName = st.md.srcName
  inv : Seg.Inv s.segs
  segB : ∀ sg ∈ s.segs, sg.2 ≤ st.file.length
  quiet : ∀ i ∈ s.out, isIF i = false
  both : s.fileSize.isSome = true → s.checksum.isSome = true

variable {st : Send.Static} {s : State} {now : Nat}

theorem link_frame {s s' : State} (h : Link st s) (h1 : s'.checksum = s.checksum) (h2 : s'.md = s.md)
    (h3 : s'.segs = s.segs) (h4 : s'.out = s.out) (h5 : s'.fileSize = s.fileSize) : Link st s' := by
  refine ⟨?_, ?_, ?_, ?_, ?_, ?_⟩
  · rw [h1]; exact h.ck
  · rw [h2]; exact h.md
  · rw [h3]; exact h.inv
  · rw [h3]; exact h.segB
  · rw [h4]; exact h.quiet
  · rw [h1, h5]; exact h.both

theorem link_emit (h : Link st s) (i : Ind) (hi : isIF i = false) : Link st (emit s i) := by
  refine ⟨h.ck, h.md, h.inv, h.segB, ?_, h.both⟩
  intro j hj
  simp only [emit, List.mem_append, List.mem_singleton] at hj
  rcases hj with hj | hj
  · exact h.quiet j hj
  · subst hj; exact hi

syntax "lk_go" "[" term,* "]" : tactic
macro_rules
  | `(tactic| lk_go [$ls,*]) => `(tactic|
      (((try dsimp only) <;> repeat' (first
        | assumption
        $[| with_reducible apply $ls]*
        | (refine link_emit ?_ _ rfl)
        | rfl
        | peel link_frame 5)) <;> done))

theorem link_shutdown (h : Link st s) : Link st (shutdown s now) := by
  simp only [shutdown]; lk_go []
theorem link_abandon (h : Link st s) : Link st (abandon s now) := by
  simp only [abandon]; lk_go [link_shutdown]
theorem link_suspend (h : Link st s) : Link st (suspend s now) := by
  simp only [suspend]; lk_go []
theorem link_resume (h : Link st s) : Link st (resume s now) := by
  simp only [resume]
  repeat' split
  all_goals lk_go []
theorem link_cancelInner (h : Link st s) : Link st (cancelInner s now) := by
  simp only [cancelInner, prepareFinished]
  repeat' split
  all_goals lk_go [link_shutdown]

/-- a fault that is not an integrity fault -/
def okCond (c : Condition) : Bool :=
  match c with
  | .FileChecksumFailure | .FilesizeError => false
  | _ => true

theorem link_handleFault (h : Link st s) (c : Condition) (hc : okCond c = true) : Link st (handleFault s c now).1 := by
  have h0 : Link st { s with condition := c } := link_frame h rfl rfl rfl rfl rfl
  have h1 : Link st (emit { s with condition := c } (.fault c (getProgress s))) := by
    refine link_emit h0 _ ?_
    cases c <;> first | rfl | (cases hc)
  simp only [handleFault, dispatchFault]
  repeat' split
  all_goals lk_go [link_cancelInner, link_suspend, link_abandon]

theorem link_sendPayload (h : Link st s) (p : Payload) : Link st (sendPayload s p) := by
  lk_go []
theorem link_sendNaks (h : Link st s) : Link st (sendNaks s now) := by
  simp only [sendNaks, sendNaksTimer]
  repeat' split
  all_goals lk_go [link_handleFault]
theorem link_sendPdu (h : Link st s) : Link st (sendPdu s now) := by
  simp only [sendPdu, answerPrompt, sendAckEof, sendFinished, setFinishedFlag]
  repeat' split
  all_goals lk_go [link_sendNaks]
theorem link_handleInactivity (h : Link st s) : Link st (handleInactivity s now).1 := by
  simp only [handleInactivity]
  repeat' split
  all_goals lk_go [link_abandon, link_handleFault]
theorem link_handleAckTimer (h : Link st s) (c : Bool) : Link st (handleAckTimer s now c) := by
  simp only [handleAckTimer, setFinishedFlag]
  repeat' split
  all_goals lk_go [link_abandon, link_handleFault]
theorem link_handleTimeoutMain (h : Link st s) : Link st (handleTimeoutMain s now) := by
  have h1 : Link st (handleInactivity (handleDelayed s now) now).1 :=
    link_handleInactivity (link_frame h (by simp) (by simp) (by simp) (by simp) (by simp))
  simp only [handleTimeoutMain]
  generalize handleInactivity (handleDelayed s now) now = r at h1
  repeat' split
  all_goals lk_go [link_handleAckTimer]
theorem link_handleTimeout (h : Link st s) : Link st (handleTimeout s now) := by
  simp only [handleTimeout, unackFinishedLimit]
  repeat' split
  all_goals lk_go [link_shutdown, link_handleTimeoutMain]

theorem link_storeFileData (h : Link st s) (off : Nat) (d : Bytes) (ht : Truthful st.file off d) :
    Link st (storeFileData s off d) := by
  simp only [storeFileData]
  split
  · rename_i hlen
    have hab : off < off + d.length := by omega
    have hinv := Seg.merge_inv s.segs off (off + d.length) h.inv hab
    have hbd := Seg.merge_bounded s.segs off (off + d.length) st.file.length h.inv hab h.segB ht.1
    split
    · exact link_frame h rfl rfl rfl rfl rfl
    · exact ⟨h.ck, h.md, hinv, hbd, h.quiet, h.both⟩
  · exact h

theorem link_storeMetadata (h : Link st s) (m : Metadata)
    (hm : m.cksumType = st.md.cksumType ∧ m.srcName = st.md.srcName) : Link st (storeMetadata s m) := by
  simp only [storeMetadata]
  refine ⟨h.ck, ?_, h.inv, h.segB, ?_, h.both⟩
  · intro m' hm'
    simp only [Option.some.injEq] at hm'
    subst hm'
    exact hm
  · intro i hi
    simp only [emit, List.mem_append, List.mem_singleton] at hi
    rcases hi with hi | hi
    · exact h.quiet i hi
    · subst hi; rfl

/-- the checksum a receiver linked to the sender computes over the complete source equals the checksum it was sent -/
theorem verify_passes (h : Link st s) (m : Meta) (hmd : s.md = some m) (hft : m.srcName.isEmpty = false)
    (v : Nat) (hv : s.checksum = some v) : fileChecksum m.cksumType st.file = v := by
  obtain ⟨h1, h2⟩ := h.md m hmd
  rw [h.ck v hv, fileChecksum_true, h1]
  have : st.md.srcName.isEmpty = false := by rw [← h2]; exact hft
  simp only [Send.trueChecksum, this, Bool.false_eq_true, if_false]
  cases st.md.cksumType <;> rfl

/-- with the whole source in the staging file, `verify_checksum` succeeds: no fault -/
theorem link_verifyStage (h : Link st s) (hd : DataOk st.file s) (hn : s.fileSize = some st.file.length)
    (hft : isFileTransfer s = true) (hc : Seg.isComplete s.segs st.file.length = true) :
    Link st (verifyStage s now).1 ∧ (verifyStage s now).2 = true := by
  have hsrc : s.tempFile.getD [] = st.file := dataOk_complete hd hc
  obtain ⟨m, hm⟩ : ∃ m, s.md = some m := by
    cases hmd : s.md with
    | none => simp [isFileTransfer, hmd] at hft
    | some m => exact ⟨m, rfl⟩
  have hne : m.srcName.isEmpty = false := by simpa [isFileTransfer, hm] using hft
  obtain ⟨v, hv⟩ := Option.isSome_iff_exists.mp (h.both (by rw [hn]; rfl))
  have hpass := verify_passes h m hm hne v hv
  simp only [verifyStage, hm, hv, hsrc, Option.getD_some, hpass, beq_self_eq_true, Bool.not_true, Bool.false_eq_true,
    if_false, and_true]
  exact link_frame h (by simp [hv]) (by simp [hm]) rfl rfl rfl

theorem link_finRest (h : Link st s) (hd : DataOk st.file s) (hn : s.fileSize = some st.file.length)
    (hc : isFileTransfer s = true → Seg.isComplete s.segs st.file.length = true) : Link st (finRest s now).1 := by
  have hpart : Link st (finalizeFilePart s now).1 := by
    simp only [finalizeFilePart]
    split
    · rename_i hft
      obtain ⟨l1, l2⟩ := link_verifyStage (now := now) h hd hn hft (hc hft)
      simp only [l2, Bool.not_true, Bool.false_eq_true, if_false, copyStage]
      split
      all_goals lk_go []
    · lk_go []
  simp only [finRest]
  generalize finalizeFilePart s now = a at hpart
  repeat' split
  all_goals lk_go [link_handleFault]

theorem link_checkFinished (h : Link st s) (hs : s.recvState = .ReceiveData → Src st.file s) :
    Link st (checkFinished s now) := by
  simp only [checkFinished]
  split
  · rename_i hg
    simp only [Bool.and_eq_true, Bool.not_eq_true', beq_iff_eq, eofReceived] at hg
    obtain ⟨⟨⟨hr, _⟩, he⟩, hnn⟩ := hg
    have hsrc := hs hr
    obtain ⟨n, hn⟩ := Option.isSome_iff_exists.mp he
    have hn' : s.fileSize = some st.file.length := by rw [hn, hsrc.size n hn]
    have hfin : Link st (finalizeReceive s now).1 := by
      rw [finalizeReceive_eq]
      refine link_finRest (link_frame h rfl rfl rfl rfl rfl) (dataOk_frame hsrc.data rfl rfl) hn' ?_
      intro hft
      have hft' : isFileTransfer s = true := hft
      simp only [hft', Bool.true_and] at hnn
      simp only [hasNaks, hn', Bool.or_eq_false_iff] at hnn
      simpa using hnn.2
    simp only [prepareFinished]
    lk_go []
  · exact h

/-- what the link delivers while `st` is being sent: the sender's data, its EOFs (true size and
checksum, C07_eof) and its Metadata (C07_data) -/
def TruthfulPdu2 (st : Send.Static) (p : Pdu) : Prop :=
  match p.payload with
  | .fileData off d | .fileDataSeg _ _ off d => Truthful st.file off d
  | .eof e => e.fileSize = st.file.length ∧ e.checksum = Send.trueChecksum st
  | .metadata m => m.cksumType = st.md.cksumType ∧ m.srcName = st.md.srcName
  | _ => True

theorem link_endOr0_le (h : Link st s) : Seg.endOr0 s.segs ≤ st.file.length := by
  simp only [Seg.endOr0, Seg.endOf]
  cases hl : s.segs.getLast? with
  | none => simp
  | some sg => simpa using h.segB sg (List.mem_of_getLast? hl)

theorem link_ackFileData (h : Link st s) (hs : s.recvState = .ReceiveData → Src st.file s) (off : Nat) (d : Bytes)
    (ht : Truthful st.file off d) : Link st (ackFileData s off d now) := by
  simp only [ackFileData]
  apply link_checkFinished
  · have := link_storeFileData h off d ht
    lk_go []
  · intro hr
    have hr0 : s.recvState = .ReceiveData := by simpa using hr
    have := src_storeFileData (hs hr0) off d ht
    inv_auto src_frame 4 []

theorem link_ackEof (h : Link st s) (hs : s.recvState = .ReceiveData → Src st.file s) (e : Eof)
    (he : e.fileSize = st.file.length ∧ e.checksum = Send.trueChecksum st) : Link st (ackEof s e now) := by
  have h1 : Link st (emit { prepareAckEof { s with condition := e.cond } with checksum := some e.checksum } .eofRecv) := by
    refine link_emit ?_ _ rfl
    refine ⟨?_, h.md, h.inv, h.segB, h.quiet, fun _ => rfl⟩
    intro v hv
    cases hv
    exact he.2
  simp only [ackEof]
  split
  · have hcs : checkFileSize (emit { prepareAckEof { s with condition := e.cond } with checksum := some e.checksum } .eofRecv)
        e.fileSize now = emit { prepareAckEof { s with condition := e.cond } with checksum := some e.checksum } .eofRecv := by
      apply checkFileSize_ok
      rw [he.1]
      exact link_endOr0_le h1
    dsimp only at hcs
    rw [hcs]
    have h2 : Link st { emit { prepareAckEof { s with condition := e.cond } with checksum := some e.checksum } .eofRecv
        with fileSize := some e.fileSize } :=
      ⟨h1.ck, h1.md, h1.inv, h1.segB, h1.quiet, fun _ => rfl⟩
    have h3 := link_checkFinished (now := now) h2 (by
      intro hr
      have hr0 : s.recvState = .ReceiveData := hr
      apply src_setFileSize _ _ he.1
      have := hs hr0
      inv_auto src_frame 4 [])
    exact link_frame h3 (by simp) (by simp) (by simp) (by simp) (by simp)
  · exact link_cancelInner h1

theorem link_processPdu (h : Link st s) (hm : s.cfg.mode = .Acknowledged)
    (hs : s.recvState = .ReceiveData → Src st.file s) (p : Pdu) (ht : TruthfulPdu2 st p) :
    Link st (processPdu s p now).1 := by
  have h0 : Link st (pduArrived s now) := link_frame h (by simp) (by simp) (by simp) (by simp) (by simp)
  have hs0 : (pduArrived s now).recvState = .ReceiveData → Src st.file (pduArrived s now) := by
    intro hr
    exact src_frame (hs (by simpa using hr)) rfl rfl rfl rfl
  have hm0 : (pduArrived s now).cfg.mode = .Acknowledged := by simpa using hm
  simp only [processPdu]
  generalize pduArrived s now = t at h0 hs0 hm0
  simp only [processPduBody, hm0]
  cases hpl : p.payload <;> simp only [TruthfulPdu2, hpl] at ht <;> dsimp only
  all_goals (repeat' split)
  all_goals first
    | exact h0
    | exact link_ackFileData h0 hs0 _ _ ht
    | exact link_ackEof h0 hs0 _ ht
    | (apply link_checkFinished
       · exact link_storeMetadata h0 _ ht
       · intro hr
         have hr0 : t.recvState = .ReceiveData := by simpa [storeMetadata] using hr
         have := hs0 hr0
         simp only [storeMetadata]
         inv_auto src_frame 4 [])
    | lk_go [link_shutdown]

end Cfdp.Recv

namespace Cfdp.Loop
open Cfdp.Recv Cfdp.Codec Cfdp.Gen

def TruthfulEv2 (st : Send.Static) (e : Ev) : Prop :=
  match e with
  | .pdu p => TruthfulPdu2 st p
  | _ => True

theorem truthfulEv_of2 {st : Send.Static} {e : Ev} (h : TruthfulEv2 st e) : TruthfulEv st.file e := by
  cases e with
  | pdu p =>
    simp only [TruthfulEv2, TruthfulPdu2] at h
    simp only [TruthfulEv, TruthfulPdu]
    cases hp : p.payload <;> simp only [hp] at h ⊢
    all_goals first
      | exact h
      | (intro _; exact h.1)
      | trivial
  | _ => trivial

/-- between iterations: the link facts without this iteration's indications -/
def Link0 (st : Send.Static) (s : Recv.State) : Prop := Link st { s with out := [] }

theorem link_recvStep {st : Send.Static} {s : Recv.State} (hm : s.cfg.mode = .Acknowledged)
    (hg : Good st.file s) (h : Link0 st s) (now : Nat) (e : Ev) (he : TruthfulEv2 st e) :
    Link st (recvStep s now e) := by
  have h0 : Link st { s with sent := none, out := [] } := link_frame h rfl rfl rfl rfl rfl
  simp only [recvStep]
  split
  · exact h0
  · rename_i hterm
    have hs0 : ({ s with sent := none, out := [] } : Recv.State).recvState = .ReceiveData →
        Src st.file { s with sent := none, out := [] } := by
      intro hr
      rcases hg.1 with h1 | h1 | h1
      · exact absurd hr h1
      · rw [h1] at hterm; exact absurd rfl hterm
      · exact src_frame h1 rfl rfl rfl rfl
    cases e with
    | pdu p => exact link_processPdu h0 hm hs0 p he
    | send =>
      dsimp only
      split
      · exact link_sendPdu h0
      · exact h0
    | timeout =>
      dsimp only
      split
      · exact link_handleTimeout h0
      · exact h0
    | cancel => exact link_cancelInner (link_frame h0 rfl rfl rfl rfl rfl)
    | suspend => exact link_suspend h0
    | resume => exact link_resume h0
    | report => exact link_emit h0 _ rfl
    | abandon => exact link_shutdown h0
    | prompt k => exact h0

theorem link0_of_link {st : Send.Static} {s : Recv.State} (h : Link st s) : Link0 st s :=
  ⟨h.ck, h.md, h.inv, h.segB, fun i hi => (by cases hi), h.both⟩

/-- **C02 / C04 (no spurious file-integrity fault).**  An acknowledged receiver fed — in any order,
with any losses, duplications and delays, interleaved with timer expiries, transmissions and user
requests — only PDUs of a sender transferring `st.file` (its data, its EOFs with the true size and
checksum, its Metadata) never declares FileChecksumFailure or FilesizeError: the file-size check
always passes, and the checksum is only ever verified over the complete, correct file. -/
theorem C02_no_integrity_fault (st : Send.Static) (cfg : Recv.Config) (fs : Fs.FS) (t0 : Nat)
    (evs : List (Nat × Ev)) (hm : cfg.mode = .Acknowledged) (hev : ∀ x ∈ evs, TruthfulEv2 st x.2) :
    ∀ i ∈ recvInds (Recv.new cfg fs t0) evs, isIF i = false := by
  have key : ∀ (evs : List (Nat × Ev)) (s : Recv.State), s.cfg.mode = .Acknowledged → Good st.file s → Link0 st s →
      (∀ x ∈ evs, TruthfulEv2 st x.2) → ∀ i ∈ recvInds s evs, isIF i = false := by
    intro evs
    induction evs with
    | nil => intro s _ _ _ _ i hi; cases hi
    | cons x rest ih =>
      intro s hm hg hl hx i hi
      obtain ⟨now, e⟩ := x
      have he := hx (now, e) (List.mem_cons_self ..)
      have l1 := link_recvStep hm hg hl now e he
      have g1 := good_recvStep hg now e (truthfulEv_of2 he)
      simp only [recvInds, List.mem_append] at hi
      rcases hi with hi | hi
      · exact l1.quiet i hi
      · exact ih _ (by rw [cfg_recvStep]; exact hm) g1 (link0_of_link l1)
          (fun y hy => hx y (List.mem_cons_of_mem _ hy)) i hi
  refine key evs _ hm (C01_init_good st.file cfg fs t0) ?_ hev
  refine ⟨?_, ?_, ⟨?_, List.Pairwise.nil⟩, ?_, ?_, ?_⟩
  · intro v hv; cases hv
  · intro m hmm; cases hmm
  · intro sg hsg; cases hsg
  · intro sg hsg; cases hsg
  · intro i hi; cases hi
  · intro hh; cases hh

end Cfdp.Loop

namespace Cfdp.Net
open Cfdp.Loop Cfdp.Codec Cfdp.Gen Cfdp.Recv

/-- what the sender transmits is what `TruthfulPdu2` asks of the link -/
theorem truthful2_bridge (st : Send.Static) (p : Pdu) (hsize : st.md.fileSize = st.file.length)
    (h : Send.Truthful st p)
    (he : ∀ e, p.payload = .eof e → e.fileSize = st.md.fileSize ∧ e.checksum = Send.trueChecksum st) :
    TruthfulPdu2 st p := by
  have h1 := truthful_bridge st p hsize h (fun e hp => (he e hp).1)
  obtain ⟨_, _, hmd⟩ := h
  unfold TruthfulPdu2
  unfold Recv.TruthfulPdu at h1
  cases hp : p.payload with
  | fileData off d => simpa [hp] using h1
  | fileDataSeg r m off d => simpa [hp] using h1
  | eof e => exact ⟨by rw [(he e hp).1, hsize], (he e hp).2⟩
  | metadata m => have := hmd m hp; subst this; exact ⟨rfl, rfl⟩
  | _ => trivial

/-- the invariant of the composition for C02_no_integrity_fault -/
structure Inv2 (st : Send.Static) (w : World) : Prop where
  base : Inv st w
  link2 : ∀ p ∈ w.toR, TruthfulPdu2 st p
  rlink : Link0 st w.rcv
  mode : w.rcv.cfg.mode = .Acknowledged
  quiet : ∀ i ∈ w.indR, isIF i = false

theorem inv2_step {st : Send.Static} {w : World} (h : Inv2 st w) (a : Act) : Inv2 st (step w a) := by
  have hb := inv_step h.base a
  have rstep : ∀ now e, TruthfulEv2 st e → Inv st (rcvStep w now e) → Inv2 st (rcvStep w now e) := by
    intro now e he hb'
    have l1 := link_recvStep h.mode h.base.rgood h.rlink now e he
    refine ⟨hb', h.link2, link0_of_link l1, by simp only [rcvStep]; rw [cfg_recvStep]; exact h.mode, ?_⟩
    intro i hi
    simp only [rcvStep, List.mem_append] at hi
    rcases hi with hi | hi
    · exact h.quiet i hi
    · exact l1.quiet i hi
  have sstep : ∀ now e, Inv st (sndStep w now e) → Inv2 st (sndStep w now e) := by
    intro now e hb'
    refine ⟨hb', ?_, h.rlink, h.mode, h.quiet⟩
    intro p hp
    simp only [sndStep, List.mem_append, Option.mem_toList] at hp
    rcases hp with hp | hp
    · exact h.link2 p hp
    · obtain ⟨g1, g2⟩ := Send.good_sendStep h.base.sgood now e
      obtain ⟨e1, e2⟩ := eofOk_sendStep h.base.seof now e
      have hst : (sendStep w.snd now e).st = st := by rw [e2, h.base.same]
      have ht := g2 p hp
      rw [hst] at ht
      refine truthful2_bridge st p ?_ ht ?_
      · have := g1.size; simpa [Send.State.md, Send.State.file, hst] using this
      · intro e' he'
        have := e1.sent p e' hp he'
        rw [hst] at this
        exact this
  cases a with
  | sender now e =>
    simp only [step] at hb ⊢
    split
    · rename_i hl; simp only [hl, if_true] at hb; exact sstep now e hb
    · exact h
  | receiver now e =>
    simp only [step] at hb ⊢
    split
    · rename_i hl
      simp only [hl, if_true] at hb
      refine rstep now e ?_ hb
      cases e <;> first | trivial | (cases hl)
    · exact h
  | deliverR now i =>
    simp only [step] at hb ⊢
    split
    · rename_i p hp
      simp only [hp] at hb
      exact rstep now (.pdu p) (h.link2 p (List.mem_of_getElem? hp)) hb
    · exact h
  | deliverS now i =>
    simp only [step] at hb ⊢
    split
    · rename_i p hp
      simp only [hp] at hb
      exact sstep now (.pdu p) hb
    · exact h

/-- **C02 / C04, two parties.**  A sending entity transferring `file`, an acknowledged receiving
entity and a link that may lose, duplicate, reorder and delay PDUs without bound: under every
interleaving the receiving user is never given a FileChecksumFailure or FilesizeError fault
indication. -/
theorem C02_two_party_no_integrity_fault (cfgS : Send.Config) (md : Send.Meta) (file : Bytes) (cfgR : Recv.Config)
    (fs : Fs.FS) (t0 : Nat) (acts : List Act) (hmode : cfgR.mode = .Acknowledged)
    (hsize : md.fileSize = file.length) (hseg : 0 < cfgS.seg ∧ cfgS.seg ≤ 65535) :
    ∀ i ∈ (run (init cfgS md file cfgR fs t0) acts).indR, isIF i = false := by
  have key : ∀ (acts : List Act) (w : World), Inv2 { cfg := cfgS, md, file } w → Inv2 { cfg := cfgS, md, file } (run w acts) := by
    intro acts
    induction acts with
    | nil => intro w h; exact h
    | cons a rest ih => intro w h; exact ih _ (inv2_step h a)
  have hb : Inv { cfg := cfgS, md, file } (init cfgS md file cfgR fs t0) := by
    refine ⟨rfl, Send.good_new cfgS md file t0 hsize hseg, ?_, ?_, ?_⟩
    · exact ⟨fun v hv => (by cases hv), fun e f hf => (by cases hf), fun p e hp _ => (by cases hp)⟩
    · intro p hp; cases hp
    · exact C01_init_good file cfgR fs t0
  have h0 : Inv2 { cfg := cfgS, md, file } (init cfgS md file cfgR fs t0) := by
    refine ⟨hb, ?_, ?_, hmode, ?_⟩
    · intro p hp; cases hp
    · refine ⟨?_, ?_, ⟨?_, List.Pairwise.nil⟩, ?_, ?_, ?_⟩
      · intro v hv; cases hv
      · intro m hmm; cases hmm
      · intro sg hsg; cases hsg
      · intro sg hsg; cases hsg
      · intro i hi; cases hi
      · intro hh; cases hh
    · intro i hi; cases hi
  exact (key acts _ h0).quiet

/-- the premises are satisfiable: the example run of `Props/Net.lean` (EOF first, a duplicate, the
first segment last) is one of the histories covered -/
example : ∀ i ∈ exWorld.indR, isIF i = false :=
  C02_two_party_no_integrity_fault Send.exCfg Send.exMd Send.exFile c04Cfg [([], .dir)] 0 _ rfl rfl (by decide)

end Cfdp.Net

#print axioms Cfdp.Net.C02_two_party_no_integrity_fault
#print axioms Cfdp.Loop.C02_no_integrity_fault
#print axioms Cfdp.Recv.C02_size_check_passes
#print axioms Cfdp.Seg.C02_round_completes
#print axioms Cfdp.Seg.C02_gaps_answered
#print axioms Cfdp.Recv.C02_finishes_when_complete
#print axioms Cfdp.Recv.C02_never_waits_complete
#print axioms Cfdp.Recv.C02_complete_is_success
