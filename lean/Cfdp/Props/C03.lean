import Cfdp.Props.C17
import Cfdp.Props.C10
import Cfdp.Tactic.Peel

/-!
# C03 — every transaction ends in bounded time, whatever the peer and the link do
-/
namespace Cfdp.Timer

theorem paused_update (c : Counter) (now : Nat) : (c.update now).paused = c.paused := by
  simp only [Counter.update]
  split
  · rfl
  · exact (updateLoop_fields _ _ _).2.2.2
@[simp] theorem paused_restart (c : Counter) (now : Nat) : (c.restart now).paused = false := rfl
@[simp] theorem paused_reset (c : Counter) (now : Nat) : (c.reset now).paused = false := rfl
@[simp] theorem paused_pause (c : Counter) (now : Nat) : (c.pause now).paused = true := rfl
@[simp] theorem paused_limitReached (c : Counter) (now : Nat) : (c.limitReached now).1.paused = c.paused := paused_update c now
@[simp] theorem paused_timeoutOccurred (c : Counter) (now : Nat) : (c.timeoutOccurred now).1.paused = c.paused :=
  paused_update c now

/-- a running timer gives a finite sleep -/
theorem untilTimeout_some_of_inactivity (t : Timer) (now : Nat) (h : t.inactivity.paused = false) :
    ∃ d, t.untilTimeout now = some d := by
  simp only [Timer.untilTimeout, h, Bool.not_false, if_true]
  cases hm : (if (!t.nak.paused) = true then
      optMin (if (!t.ack.paused) = true then optMin none (t.ack.untilTimeout now) else none) (t.nak.untilTimeout now)
    else if (!t.ack.paused) = true then optMin none (t.ack.untilTimeout now) else none) with
  | none => exact ⟨_, rfl⟩
  | some x => exact ⟨_, rfl⟩

end Cfdp.Timer

namespace Cfdp.Recv
open Cfdp.Codec Cfdp.Gen Cfdp.Timer

/-- an active receive transaction always has its inactivity timer running -/
def Act (s : State) : Prop := s.state = .Active → s.timer.inactivity.paused = false

theorem act_frame {s s' : State} (h : Act s) (h1 : s'.state = s.state) (h2 : s'.timer = s.timer) : Act s' := by
  unfold Act; rw [h1, h2]; exact h

/-- close `Act r` for a record `r` built from `s` (hypothesis `h : Act s`) -/
syntax "act_leaf" : tactic
macro_rules
  | `(tactic| act_leaf) => `(tactic|
      (intro hst; dsimp only at hst ⊢;
       first
         | rfl
         | contradiction
         | (simp only [paused_restart, paused_reset, paused_limitReached, paused_timeoutOccurred]; done)
         | ((try simp only [paused_restart, paused_reset, paused_limitReached, paused_timeoutOccurred]);
            first
              | (apply_assumption; assumption)
              | assumption
              | refine (show Act _ from ?_) hst)))

syntax "act_go" "[" term,* "]" : tactic
macro_rules
  | `(tactic| act_go [$ls,*]) => `(tactic|
      (((try dsimp only) <;> repeat' (first
        | assumption
        $[| with_reducible apply $ls]*
        | peel act_frame 2
        | act_leaf)) <;> done))

variable {s : State} {now : Nat}

theorem act_shutdown (h : Act s) : Act (shutdown s now) := by
  simp only [shutdown]; act_go []
theorem act_suspend (h : Act s) : Act (suspend s now) := by
  simp only [suspend]; act_go []
theorem act_abandon (h : Act s) : Act (abandon s now) := by
  simp only [abandon]; act_go [act_shutdown]
theorem act_cancelInner (h : Act s) : Act (cancelInner s now) := by
  simp only [cancelInner]
  repeat' split
  all_goals act_go [act_shutdown]
theorem act_resume (h : Act s) : Act (resume s now) := by
  simp only [resume]
  repeat' split
  all_goals act_go []
theorem act_handleFault (h : Act s) (c : Condition) : Act (handleFault s c now).1 := by
  simp only [handleFault, dispatchFault]
  repeat' split
  all_goals act_go [act_cancelInner, act_suspend, act_abandon]

theorem act_checkFileSize (h : Act s) (n : Nat) : Act (checkFileSize s n now) := by
  simp only [checkFileSize]
  repeat' split
  all_goals act_go [act_handleFault]
theorem act_sendNaks (h : Act s) : Act (sendNaks s now) := by
  simp only [sendNaks, sendNaksTimer]
  repeat' split
  all_goals act_go [act_handleFault]
theorem act_sendPdu (h : Act s) : Act (sendPdu s now) := by
  simp only [sendPdu, answerPrompt, sendFinished]
  repeat' split
  all_goals act_go [act_sendNaks]
theorem act_verifyStage (h : Act s) : Act (verifyStage s now).1 := by
  simp only [verifyStage]
  repeat' split
  all_goals act_go [act_handleFault]
theorem act_finalizeFilePart (h : Act s) : Act (finalizeFilePart s now).1 := by
  simp only [finalizeFilePart, copyStage]
  repeat' split
  all_goals act_go [act_verifyStage]
theorem act_finalizeReceive (h : Act s) : Act (finalizeReceive s now).1 := by
  simp only [finalizeReceive]
  repeat' split
  all_goals act_go [act_handleFault, act_finalizeFilePart]
theorem act_checkFinished (h : Act s) : Act (checkFinished s now) := by
  simp only [checkFinished]
  repeat' split
  all_goals act_go [act_finalizeReceive]
theorem act_immediateNak (h : Act s) (a b : Nat) : Act (immediateNak s a b now) := by
  simp only [immediateNak]
  repeat' split
  all_goals act_go []
theorem act_ackFileData (h : Act s) (off : Nat) (d : Bytes) : Act (ackFileData s off d now) := by
  simp only [ackFileData]
  act_go [act_checkFinished, act_immediateNak]
theorem act_ackEof (h : Act s) (e : Eof) : Act (ackEof s e now) := by
  simp only [ackEof]
  repeat' split
  all_goals act_go [act_checkFinished, act_checkFileSize, act_cancelInner]
theorem act_unackEof (h : Act s) (e : Eof) : Act (unackEof s e now) := by
  simp only [unackEof, unackEofNoError, unackComplete, unackCheckMissing, unackFinish]
  repeat' split
  all_goals act_go [act_finalizeReceive, act_handleFault, act_checkFileSize, act_cancelInner, act_shutdown]
theorem act_processPdu (h : Act s) (p : Pdu) : Act (processPdu s p now).1 := by
  have h0 : Act (pduArrived s now) := by simp only [pduArrived]; act_go []
  simp only [processPdu]
  generalize pduArrived s now = t at h0
  simp only [processPduBody]
  cases hpl : p.payload <;> cases hm : t.cfg.mode <;> dsimp only
  all_goals (repeat' split)
  all_goals act_go [act_ackFileData, act_ackEof, act_unackEof, act_checkFinished, act_shutdown]
theorem act_handleInactivity (h : Act s) : Act (handleInactivity s now).1 := by
  simp only [handleInactivity]
  repeat' split
  all_goals act_go [act_abandon, act_handleFault]
theorem act_handleAckTimer (h : Act s) (b : Bool) : Act (handleAckTimer s now b) := by
  simp only [handleAckTimer]
  repeat' split
  all_goals act_go [act_abandon, act_handleFault, act_shutdown]
theorem act_handleTimeoutMain (h : Act s) : Act (handleTimeoutMain s now) := by
  have h1 : Act (handleInactivity (handleDelayed s now) now).1 :=
    act_handleInactivity (act_frame h (state_handleDelayed _ _) (timer_handleDelayed _ _))
  simp only [handleTimeoutMain]
  generalize (handleInactivity (handleDelayed s now) now) = r at h1
  repeat' split
  all_goals first
    | exact h
    | exact h1
    | (apply act_handleAckTimer; act_go [])
    | act_go []


theorem act_handleTimeout (h : Act s) : Act (handleTimeout s now) := by
  simp only [handleTimeout, unackFinishedLimit]
  repeat' split
  all_goals act_go [act_shutdown, act_handleTimeoutMain]

end Cfdp.Recv

namespace Cfdp.Loop
open Cfdp.Codec Cfdp.Gen Cfdp.Timer Cfdp.Recv

theorem act_recvStep {s : Recv.State} (h : Act s) (now : Nat) (e : Ev) : Act (recvStep s now e) := by
  have h0 : Act { s with sent := none, out := [] } := act_frame h rfl rfl
  simp only [recvStep]
  repeat' split
  all_goals first
    | exact h0
    | exact act_processPdu h0 _
    | exact act_sendPdu h0
    | exact act_handleTimeout h0
    | (simp only [Recv.cancel]; apply act_cancelInner; exact act_frame h0 rfl rfl)
    | exact act_suspend h0
    | exact act_resume h0
    | exact act_shutdown h0
    | exact act_frame h0 (Recv.state_sendReport _) (Recv.timer_sendReport _)

/-- **C03 (the receiver never sleeps forever).** After every history of loop events, a receive
transaction that is neither terminated nor suspended has its inactivity timer running, so the
sleep the task loop computes (`until_timeout`) is finite: whatever the peer and the link do —
including nothing at all, for good — the loop wakes up again and `handle_timeout` runs. -/
theorem C03_recv_never_stuck (cfg : Recv.Config) (fs : Fs.FS) (t0 : Nat) (evs : List (Nat × Ev)) (now : Nat)
    (ha : (recvRun (Recv.new cfg fs t0) evs).1.state = .Active) :
    ∃ d, Recv.untilTimeout (recvRun (Recv.new cfg fs t0) evs).1 now = some d := by
  have key : ∀ (evs : List (Nat × Ev)) (s : Recv.State), Act s → Act (recvRun s evs).1 := by
    intro evs
    induction evs with
    | nil => intro s h; exact h
    | cons x rest ih => intro s h; obtain ⟨t, e⟩ := x; exact ih _ (act_recvStep h t e)
  have hact := key evs (Recv.new cfg fs t0) (by intro _; rfl)
  generalize (recvRun (Recv.new cfg fs t0) evs).1 = r at ha hact
  obtain ⟨d, hd⟩ := untilTimeout_some_of_inactivity r.timer now (hact ha)
  have hs : (r.state == TransactionState.Suspended) = false := by rw [ha]; rfl
  simp only [Recv.untilTimeout, hs, Bool.false_eq_true, if_false, hd]
  cases r.delayed.head? with
  | none => exact ⟨_, rfl⟩
  | some x => exact ⟨_, rfl⟩

end Cfdp.Loop

/-! ### limits end the transaction -/
namespace Cfdp.Recv
open Cfdp.Codec Cfdp.Gen Cfdp.Timer

/-- the inactivity limit: a transaction that is still receiving or waiting for the ACK of its
Finished PDU is cancelled (default handler) — the Cancelled phase — and a cancelled one is abandoned:
Terminated. So with the default handlers two inactivity limits end any receive transaction. -/
theorem C03_recv_inactivity_limit (s : State) (now : Nat) (hl : (s.timer.inactivity.limitReached now).2 = true) :
    (s.recvState = .Cancelled → (handleInactivity s now).1.state = .Terminated ∧ (handleInactivity s now).2 = false) ∧
    (s.recvState ≠ .Cancelled → handlerFor s .InactivityDetected = .Cancel →
      (handleInactivity s now).1.recvState = .Cancelled ∧ (handleInactivity s now).2 = false) ∧
    (s.recvState ≠ .Cancelled → handlerFor s .InactivityDetected = .Abandon →
      (handleInactivity s now).1.state = .Terminated) := by
  refine ⟨?_, ?_, ?_⟩
  · intro hc
    have : (s.recvState == RecvState.Cancelled) = true := by rw [hc]; rfl
    simp only [handleInactivity, hl, if_true, this, abandon, shutdown, emit, and_self]
  · intro hc hh
    have : (s.recvState == RecvState.Cancelled) = false := by cases hr : s.recvState <;> simp_all
    have hf := (C17_recv_handler { s with timer := { s.timer with inactivity := (s.timer.inactivity.limitReached now).1 } }
      .InactivityDetected now).2.1 hh
    simp only [handleInactivity, hl, if_true, this, Bool.false_eq_true, if_false]
    dsimp only at hf
    rw [hf]
    exact ⟨recvState_cancelInner _ _, rfl⟩
  · intro hc hh
    have : (s.recvState == RecvState.Cancelled) = false := by cases hr : s.recvState <;> simp_all
    have hf := (C17_recv_handler { s with timer := { s.timer with inactivity := (s.timer.inactivity.limitReached now).1 } }
      .InactivityDetected now).2.2.2 hh
    simp only [handleInactivity, hl, if_true, this, Bool.false_eq_true, if_false]
    dsimp only at hf
    rw [hf]
    exact (C17_recv_abandon _ _).1

end Cfdp.Recv

#print axioms Cfdp.Loop.C03_recv_never_stuck
#print axioms Cfdp.Recv.C03_recv_inactivity_limit
