import Cfdp.Model.Net
import Cfdp.Props.C01
import Cfdp.Props.C07e
import Cfdp.Props.C04

/-! # two-party theorems: the sender model, the receiver model and a lossy link composed -/
namespace Cfdp.Net
open Cfdp.Loop Cfdp.Codec Cfdp.Gen

/-- C07's per-PDU truthfulness (sender side) is what C01 asks of the link (receiver side) -/
theorem truthful_bridge (st : Send.Static) (p : Pdu) (hsize : st.md.fileSize = st.file.length)
    (h : Send.Truthful st p)
    (he : ∀ e, p.payload = .eof e → e.fileSize = st.md.fileSize) : Recv.TruthfulPdu st.file p := by
  obtain ⟨hd, hseg, _⟩ := h
  unfold Recv.TruthfulPdu
  cases hp : p.payload with
  | fileData off d =>
    obtain ⟨h1, _, h3⟩ := hd off d hp
    refine ⟨h3, ?_⟩
    intro i hi
    rw [h1]
    simp only [List.getElem?_take, List.getElem?_drop]
    split
    · rfl
    · omega
  | fileDataSeg r m off d => exact absurd hp (hseg r m off d)
  | eof e =>
    intro _
    rw [he e hp, hsize]
  | _ => trivial

/-- the invariant of the composition -/
structure Inv (st : Send.Static) (w : World) : Prop where
  same : w.snd.st = st
  sgood : Send.Good w.snd
  seof : Send.EofOk w.snd
  link : ∀ p ∈ w.toR, Recv.TruthfulPdu st.file p
  rgood : Loop.Good st.file w.rcv

theorem inv_sndStep {st : Send.Static} {w : World} (h : Inv st w) (now : Nat) (e : Ev) : Inv st (sndStep w now e) := by
  obtain ⟨g1, g2⟩ := Send.good_sendStep h.sgood now e
  obtain ⟨e1, e2⟩ := eofOk_sendStep h.seof now e
  have hst : (sendStep w.snd now e).st = st := by rw [e2, h.same]
  refine ⟨hst, g1, e1, ?_, h.rgood⟩
  intro p hp
  simp only [sndStep, List.mem_append, Option.mem_toList] at hp
  rcases hp with hp | hp
  · exact h.link p hp
  · have ht := g2 p hp
    rw [hst] at ht
    refine truthful_bridge st p ?_ ht ?_
    · have := g1.size; simpa [Send.State.md, Send.State.file, hst] using this
    · intro e' he'
      have := (e1.sent p e' hp he').1
      rw [hst] at this
      exact this

theorem inv_rcvStep {st : Send.Static} {w : World} (h : Inv st w) (now : Nat) (e : Ev)
    (he : Loop.TruthfulEv st.file e) : Inv st (rcvStep w now e) :=
  ⟨h.same, h.sgood, h.seof, h.link, good_recvStep h.rgood now e he⟩

theorem inv_step {st : Send.Static} {w : World} (h : Inv st w) (a : Act) : Inv st (step w a) := by
  cases a with
  | sender now e =>
    simp only [step]; split
    · exact inv_sndStep h now e
    · exact h
  | receiver now e =>
    simp only [step]; split
    · refine inv_rcvStep h now e ?_
      cases e <;> first | trivial | (rename_i hl; cases hl)
    · exact h
  | deliverR now i =>
    simp only [step]; split
    · rename_i p hp
      exact inv_rcvStep h now (.pdu p) (h.link p (List.mem_of_getElem? hp))
    · exact h
  | deliverS now i =>
    simp only [step]; split
    · exact inv_sndStep h now _
    · exact h

theorem inv_run {st : Send.Static} (acts : List Act) (w : World) (h : Inv st w) : Inv st (run w acts) := by
  induction acts generalizing w with
  | nil => exact h
  | cons a rest ih => exact ih _ (inv_step h a)

/-- **C01, two parties.**  A sending entity transferring `file`, a receiving entity and a link that
may lose, duplicate, reorder and delay PDUs in both directions without bound: after every
interleaving of loop iterations at either side (transmissions, timer expiries, user cancels,
suspends, resumes, prompts) and deliveries by the link, if the receiver's record says file status
Retained and delivery code Complete — what its Finished indication and its Finished PDU report —
then the file under the destination name is exactly the sender's source file.  -/
theorem C01_two_party (cfgS : Send.Config) (md : Send.Meta) (file : Bytes) (cfgR : Recv.Config) (fs : Fs.FS)
    (t0 : Nat) (acts : List Act)
    (hsize : md.fileSize = file.length) (hseg : 0 < cfgS.seg ∧ cfgS.seg ≤ 65535) :
    Recv.Claim file (run (init cfgS md file cfgR fs t0) acts).rcv := by
  have h0 : Inv { cfg := cfgS, md, file } (init cfgS md file cfgR fs t0) := by
    refine ⟨rfl, Send.good_new cfgS md file t0 hsize hseg, ?_, ?_, ?_⟩
    · exact ⟨fun v hv => (by cases hv), fun e f hf => (by cases hf), fun p e hp _ => (by cases hp)⟩
    · intro p hp; cases hp
    · exact C01_init_good file cfgR fs t0
  exact (inv_run acts _ h0).rgood.2

/-- non-vacuity: EOF delivered first, the second segment twice, then metadata and the first segment;
the receiver's ACK(EOF) and Finished reach the sender, which acknowledges and ends.  The receiver's
record says Retained / Complete and the destination holds the sender's six bytes. -/
def exWorld : World :=
  run (init Send.exCfg Send.exMd Send.exFile c04Cfg [([], .dir)] 0)
    [.sender 0 .send, .sender 0 .send, .sender 0 .send, .sender 0 .send, .deliverR 0 3, .deliverR 0 1,
     .deliverR 0 1, .deliverR 0 0, .deliverR 0 2, .receiver 0 .send, .receiver 0 .send, .deliverS 0 0,
     .deliverS 0 1, .sender 0 .send]

example : exWorld.rcv.fileStatus = .Retained ∧ exWorld.rcv.delivery = .Complete ∧
    exWorld.rcv.fs.get (Fs.relOf [100]) = some (.file Send.exFile) ∧ exWorld.snd.state = .Terminated := by decide

end Cfdp.Net

#print axioms Cfdp.Net.C01_two_party
#print axioms Cfdp.Loop.C01_delivered_is_source
#print axioms Cfdp.Loop.good_recvStep
#print axioms Cfdp.Recv.fin_core
#print axioms Cfdp.Recv.dataOk_complete
#print axioms Cfdp.Recv.writeAt_get
