import Cfdp.Props.C02i
import Cfdp.Props.C02w

/-! # C02: once everything has been delivered, the receiver has completed -/
namespace Cfdp.Recv
open Cfdp.Codec Cfdp.Gen Cfdp.Timer

/-- a counter that has counted nothing, read at the clock reading `t0` at which it was last started -/
def CZ (t0 : Nat) (c : Counter) : Prop := c.count = 0 ∧ 0 < c.max ∧ 0 < c.timeout ∧ c.start = t0

theorem cz_update {t0 : Nat} {c : Counter} (h : CZ t0 c) : c.update t0 = c := by
  obtain ⟨_, _, h3, h4⟩ := h
  simp only [Counter.update]
  split
  · rfl
  · rw [h4, Nat.sub_self, Nat.zero_add]
    simp only [updateLoop]
    rw [if_neg (by rw [h4]; omega)]

theorem cz_restart {t0 : Nat} {c : Counter} (h : CZ t0 c) : CZ t0 (c.restart t0) := by
  simp only [Counter.restart, cz_update h]
  exact ⟨h.1, h.2.1, h.2.2.1, rfl⟩
theorem cz_reset {t0 : Nat} {c : Counter} (h : CZ t0 c) : CZ t0 (c.reset t0) := ⟨rfl, h.2.1, h.2.2.1, rfl⟩
theorem cz_pause {t0 : Nat} {c : Counter} (h : CZ t0 c) : CZ t0 (c.pause t0) := by
  simp only [Counter.pause, cz_update h]
  exact h
theorem cz_limitReached {t0 : Nat} {c : Counter} (h : CZ t0 c) : c.limitReached t0 = (c, false) := by
  simp only [Counter.limitReached, cz_update h]
  have : (c.count == c.max) = false := by
    have := h.1; have := h.2.1
    simp only [beq_eq_false_iff_ne]; omega
  rw [this]
theorem cz_timeoutOccurred {t0 : Nat} {c : Counter} (h : CZ t0 c) : (c.timeoutOccurred t0).1 = c := by
  simp only [Counter.timeoutOccurred, cz_update h]

/-- what the link delivers while `st` is being sent by a sender that was not cancelled -/
def FromSender (st : Send.Static) (p : Pdu) : Prop :=
  match p.payload with
  | .fileData off d => Truthful st.file off d
  | .fileDataSeg _ _ _ _ => False
  | .eof e => e.cond = .NoError ∧ e.fileSize = st.file.length ∧ e.checksum = Send.trueChecksum st
  | .metadata m => m.cksumType = st.md.cksumType ∧ m.srcName = st.md.srcName ∧ m.dstName = st.md.dstName
  | _ => True

theorem fromSender_truthful2 {st : Send.Static} {p : Pdu} (h : FromSender st p) : TruthfulPdu2 st p := by
  unfold FromSender at h
  unfold TruthfulPdu2
  cases hp : p.payload <;> simp only [hp] at h ⊢
  all_goals first
    | exact h
    | exact ⟨h.2.1, h.2.2⟩
    | exact ⟨h.1, h.2.1⟩
    | trivial

/-- the receiver's progress: with no timer expiry and no user request the transaction is either
still collecting - and then holds everything delivered so far - or has finished successfully -/
structure Prog (st : Send.Static) (fs0 : Fs.FS) (t0 : Nat) (D : List Pdu) (s : State) : Prop where
  mode : s.cfg.mode = .Acknowledged
  nak : CZ t0 s.timer.nak
  nc : s.recvState ≠ .Cancelled
  act : s.recvState = .ReceiveData → s.state ≠ .Terminated ∧ s.condition = .NoError ∧ s.fs = fs0
  data : s.recvState = .ReceiveData → ∀ p ∈ D, ∀ off d, p.payload = .fileData off d →
    ∀ x, off ≤ x → x < off + d.length → Seg.cov s.segs x
  mdat : s.recvState = .ReceiveData → (∃ p ∈ D, ∃ m, p.payload = .metadata m) → s.md.isSome = true
  eof : s.recvState = .ReceiveData → (∃ p ∈ D, ∃ e, p.payload = .eof e) → s.fileSize = some st.file.length
  dst : ∀ m, s.md = some m → m.dstName = st.md.dstName
  fin : s.recvState = .Finished → s.condition = .NoError ∧ s.delivery = .Complete ∧ s.fileStatus = .Retained

variable {st : Send.Static} {fs0 : Fs.FS} {t0 : Nat} {D : List Pdu} {s : State}

theorem prog_frame {s s' : State} (h : Prog st fs0 t0 D s) (h1 : s'.cfg = s.cfg) (h2 : s'.timer.nak = s.timer.nak)
    (h3 : s'.recvState = s.recvState) (h4 : s'.state = s.state) (h5 : s'.condition = s.condition) (h6 : s'.fs = s.fs)
    (h7 : s'.segs = s.segs) (h8 : s'.md = s.md) (h9 : s'.fileSize = s.fileSize) (h10 : s'.delivery = s.delivery)
    (h11 : s'.fileStatus = s.fileStatus) : Prog st fs0 t0 D s' := by
  refine ⟨?_, ?_, ?_, ?_, ?_, ?_, ?_, ?_, ?_⟩
  · rw [h1]; exact h.mode
  · rw [h2]; exact h.nak
  · rw [h3]; exact h.nc
  · rw [h3, h4, h5, h6]; exact h.act
  · rw [h3, h7]; exact h.data
  · rw [h3, h8]; exact h.mdat
  · rw [h3, h9]; exact h.eof
  · rw [h8]; exact h.dst
  · rw [h3, h5, h10, h11]; exact h.fin

/-! ### the NAK counter stays in that condition through everything that can run without a timer expiry -/

theorem cz_to {t0 : Nat} {c : Counter} (h : CZ t0 c) : CZ t0 (c.timeoutOccurred t0).1 := by rw [cz_timeoutOccurred h]; exact h
theorem cz_lr {t0 : Nat} {c : Counter} (h : CZ t0 c) : CZ t0 (c.limitReached t0).1 := by rw [cz_limitReached h]; exact h

syntax "nz_go" "[" term,* "]" : tactic
macro_rules
  | `(tactic| nz_go [$ls,*]) => `(tactic|
      (repeat' (first
        | assumption
        | dsimp only
        | rframes_timer
        $[| apply $ls]*
        | apply cz_restart
        | apply cz_pause
        | apply cz_reset
        | apply cz_to
        | apply cz_lr)) <;> done)

section nz
variable {s : State} {t0 : Nat}

theorem nz_shutdown (h : CZ t0 s.timer.nak) : CZ t0 (shutdown s t0).timer.nak := by
  simp only [shutdown]; nz_go []
theorem nz_abandon (h : CZ t0 s.timer.nak) : CZ t0 (abandon s t0).timer.nak := by
  simp only [abandon]; nz_go [nz_shutdown]
theorem nz_cancelInner (h : CZ t0 s.timer.nak) : CZ t0 (cancelInner s t0).timer.nak := by
  simp only [cancelInner]
  repeat' split
  all_goals nz_go [nz_shutdown]
theorem nz_suspend (h : CZ t0 s.timer.nak) : CZ t0 (suspend s t0).timer.nak := by
  simp only [suspend]; nz_go []
theorem nz_handleFault (h : CZ t0 s.timer.nak) (c : Condition) : CZ t0 (handleFault s c t0).1.timer.nak := by
  simp only [handleFault, dispatchFault]
  repeat' split
  all_goals nz_go [nz_cancelInner, nz_suspend, nz_abandon]
theorem nz_checkFileSize (h : CZ t0 s.timer.nak) (n : Nat) : CZ t0 (checkFileSize s n t0).timer.nak := by
  simp only [checkFileSize]
  repeat' split
  all_goals nz_go [nz_handleFault]
theorem nz_finalizeFilePart (h : CZ t0 s.timer.nak) : CZ t0 (finalizeFilePart s t0).1.timer.nak := by
  simp only [finalizeFilePart, verifyStage, copyStage]
  repeat' split
  all_goals nz_go [nz_handleFault]
theorem nz_finalizeReceive (h : CZ t0 s.timer.nak) : CZ t0 (finalizeReceive s t0).1.timer.nak := by
  simp only [finalizeReceive]
  repeat' split
  all_goals nz_go [nz_handleFault, nz_finalizeFilePart]
theorem nz_checkFinished (h : CZ t0 s.timer.nak) : CZ t0 (checkFinished s t0).timer.nak := by
  simp only [checkFinished]
  repeat' split
  all_goals nz_go [nz_finalizeReceive]
theorem nz_immediateNak (h : CZ t0 s.timer.nak) (a b : Nat) : CZ t0 (immediateNak s a b t0).timer.nak := by
  simp only [immediateNak]
  repeat' split
  all_goals nz_go []
theorem nz_ackFileData (h : CZ t0 s.timer.nak) (off : Nat) (d : Bytes) : CZ t0 (ackFileData s off d t0).timer.nak := by
  simp only [ackFileData]
  nz_go [nz_checkFinished, nz_immediateNak]
theorem nz_ackEof (h : CZ t0 s.timer.nak) (e : Eof) : CZ t0 (ackEof s e t0).timer.nak := by
  simp only [ackEof]
  repeat' split
  all_goals nz_go [nz_checkFinished, nz_checkFileSize, nz_cancelInner]

end nz

syntax "prog_go" "[" term,* "]" : tactic
macro_rules
  | `(tactic| prog_go [$ls,*]) => `(tactic|
      (((try dsimp only) <;> repeat' (first
        | assumption
        $[| with_reducible apply $ls]*
        | peel prog_frame 11)) <;> done))

/-- replacing the NAK counter by another one in the same condition -/
theorem prog_setNak (h : Prog st fs0 t0 D s) (k : Counter) (hk : CZ t0 k) :
    Prog st fs0 t0 D { s with timer := { s.timer with nak := k } } :=
  ⟨h.mode, hk, h.nc, h.act, h.data, h.mdat, h.eof, h.dst, h.fin⟩

theorem prog_sendNaksTimer (h : Prog st fs0 t0 D s) :
    Prog st fs0 t0 D (sendNaksTimer s t0).1 ∧ (sendNaksTimer s t0).2 = false := by
  simp only [sendNaksTimer, cz_limitReached h.nak]
  split
  · simp only [Bool.false_eq_true, if_false]
    refine ⟨?_, trivial⟩
    exact prog_setNak (prog_setNak h _ h.nak) _ (cz_restart h.nak)
  · refine ⟨?_, rfl⟩
    have := prog_setNak h _ (cz_reset h.nak)
    exact prog_frame this rfl rfl rfl rfl rfl rfl rfl rfl rfl rfl rfl

theorem prog_sendNaks (h : Prog st fs0 t0 D s) : Prog st fs0 t0 D (sendNaks s t0) := by
  obtain ⟨h1, h2⟩ := prog_sendNaksTimer h
  simp only [sendNaks, h2, Bool.false_eq_true, if_false, maxNakNum]
  prog_go []

theorem prog_sendPdu (h : Prog st fs0 t0 D s) : Prog st fs0 t0 D (sendPdu s t0) := by
  simp only [sendPdu, answerPrompt, sendAckEof, sendFinished, setFinishedFlag]
  repeat' split
  all_goals first
    | exact h
    | (apply prog_sendNaks; prog_go [])
    | prog_go []

/-- what the success of the finalisation needs of the surroundings: it is a file transfer and the
filestore accepts the file under the destination name -/
structure Env (st : Send.Static) (fs0 : Fs.FS) : Prop where
  ft : st.md.srcName.isEmpty = false
  fs : (fs0.writeFile (Fs.relOf st.md.dstName) st.file).isSome = true

/-- `check_finished` either changes nothing or finishes successfully -/
theorem prog_checkFinished (h : Prog st fs0 t0 D s) (hl : Link st s) (hsrc : s.recvState = .ReceiveData → Src st.file s)
    (env : Env st fs0) : Prog st fs0 t0 D (checkFinished s t0) := by
  by_cases hg : (s.recvState == RecvState.ReceiveData && s.md.isSome && eofReceived s &&
      !(isFileTransfer s && hasNaks s)) = true
  · -- everything in hand
    simp only [Bool.and_eq_true, beq_iff_eq, eofReceived] at hg
    obtain ⟨⟨⟨hr, hmd⟩, hfsz⟩, hnn⟩ := hg
    obtain ⟨m, hm⟩ := Option.isSome_iff_exists.mp hmd
    obtain ⟨n, hn⟩ := Option.isSome_iff_exists.mp hfsz
    have hS := hsrc hr
    have hn' : n = st.file.length := hS.size n hn
    subst hn'
    obtain ⟨l1, l2⟩ := hl.md m hm
    have hft : m.srcName.isEmpty = false := by rw [l2]; exact env.ft
    have hift : isFileTransfer s = true := by simp [isFileTransfer, hm, hft]
    have hnk : hasNaks s = false := by simpa [hift] using hnn
    have hc : Seg.isComplete s.segs st.file.length = true := by
      simpa [hasNaks, hm, hn] using hnk
    obtain ⟨v, hv⟩ := Option.isSome_iff_exists.mp (hl.both (by rw [hn]; rfl))
    have hck : s.checksum = some (fileChecksum m.cksumType st.file) := by
      rw [hv, verify_passes hl m hm hft v hv]
    obtain ⟨a1, a2, a3⟩ := h.act hr
    have hfs : (s.fs.writeFile (Fs.relOf m.dstName) st.file).isSome = true := by
      rw [a3, h.dst m hm]; exact env.fs
    obtain ⟨c1, c2, c3, c4, _, _, _⟩ := C02_complete_is_success st.file s t0 m hr a2 hm hft hn hck hS.data hc hfs
    refine ⟨by rw [cfg_checkFinished]; exact h.mode, nz_checkFinished h.nak, by rw [c1]; decide, ?_, ?_, ?_, ?_, ?_, ?_⟩
    · intro hh; rw [c1] at hh; cases hh
    · intro hh; rw [c1] at hh; cases hh
    · intro hh; rw [c1] at hh; cases hh
    · intro hh; rw [c1] at hh; cases hh
    · rw [md_checkFinished]; exact h.dst
    · intro _; exact ⟨c2, c3, c4⟩
  · have : checkFinished s t0 = s := by
      simp only [checkFinished]
      rw [if_neg hg]
    rw [this]; exact h

theorem cov_storeFileData (hinv : Seg.Inv s.segs) (off : Nat) (d : Bytes) (x : Nat) :
    (Seg.cov s.segs x → Seg.cov (storeFileData s off d).segs x) ∧
    (off ≤ x → x < off + d.length → Seg.cov (storeFileData s off d).segs x) := by
  simp only [storeFileData]
  split
  · rename_i hlen
    have hab : off < off + d.length := by omega
    have hc := Seg.merge_cov s.segs off (off + d.length) hinv hab x
    obtain ⟨n, hn, _⟩ := Seg.merge_count s.segs off (off + d.length) hinv hab
    simp only [hn]
    exact ⟨fun h => hc.mpr (Or.inl h), fun h1 h2 => hc.mpr (Or.inr ⟨h1, h2⟩)⟩
  · rename_i hlen
    exact ⟨fun h => h, fun h1 h2 => by omega⟩

/-- a file-data PDU of the sender -/
theorem prog_ackFileData (h : Prog st fs0 t0 D s) (hl : Link st s) (hsrc : s.recvState = .ReceiveData → Src st.file s)
    (env : Env st fs0) (p : Pdu) (off : Nat) (d : Bytes) (hp : p.payload = .fileData off d) (ht : Truthful st.file off d) :
    Prog st fs0 t0 (D ++ [p]) (ackFileData s off d t0) := by
  simp only [ackFileData]
  apply prog_checkFinished
  · -- the state before `check_finished`
    refine ⟨by simp; exact h.mode, ?_, by simp; exact h.nc, ?_, ?_, ?_, ?_, by simp; exact h.dst, ?_⟩
    · apply nz_immediateNak
      simp; exact h.nak
    · intro hr
      have hr0 : s.recvState = .ReceiveData := by simpa using hr
      simpa using h.act hr0
    · intro hr q hq o' d' hq' x hx1 hx2
      have hr0 : s.recvState = .ReceiveData := by simpa using hr
      simp only [segs_immediateNak, segs_emit]
      obtain ⟨c1, c2⟩ := cov_storeFileData (s := s) hl.inv off d x
      simp only [List.mem_append, List.mem_singleton] at hq
      rcases hq with hq | hq
      · exact c1 (h.data hr0 q hq o' d' hq' x hx1 hx2)
      · subst hq
        rw [hp] at hq'
        cases hq'
        exact c2 hx1 hx2
    · intro hr hex
      have hr0 : s.recvState = .ReceiveData := by simpa using hr
      simp only [md_immediateNak, md_emit, md_storeFileData]
      apply h.mdat hr0
      obtain ⟨q, hq, m, hm⟩ := hex
      simp only [List.mem_append, List.mem_singleton] at hq
      rcases hq with hq | hq
      · exact ⟨q, hq, m, hm⟩
      · subst hq; rw [hp] at hm; cases hm
    · intro hr hex
      have hr0 : s.recvState = .ReceiveData := by simpa using hr
      simp only [fileSize_immediateNak, fileSize_emit, fileSize_storeFileData]
      apply h.eof hr0
      obtain ⟨q, hq, e, he⟩ := hex
      simp only [List.mem_append, List.mem_singleton] at hq
      rcases hq with hq | hq
      · exact ⟨q, hq, e, he⟩
      · subst hq; rw [hp] at he; cases he
    · intro hr
      have hr0 : s.recvState = .Finished := by simpa using hr
      simpa using h.fin hr0
  · have := link_storeFileData hl off d ht
    lk_go []
  · intro hr
    have hr0 : s.recvState = .ReceiveData := by simpa using hr
    have := src_storeFileData (hsrc hr0) off d ht
    inv_auto src_frame 4 []
  · exact env

theorem prog_scheduleNaks (h : Prog st fs0 t0 D s) (n : Nat) : Prog st fs0 t0 D (scheduleNaks s n t0) := by
  simp only [scheduleNaks]
  repeat' split
  all_goals prog_go []

/-- an EOF of the sender -/
theorem prog_ackEof (h : Prog st fs0 t0 D s) (hl : Link st s) (hsrc : s.recvState = .ReceiveData → Src st.file s)
    (env : Env st fs0) (p : Pdu) (e : Eof) (hp : p.payload = .eof e)
    (he : e.cond = .NoError ∧ e.fileSize = st.file.length ∧ e.checksum = Send.trueChecksum st) :
    Prog st fs0 t0 (D ++ [p]) (ackEof s e t0) := by
  have h1 : Link st (emit { prepareAckEof { s with condition := e.cond } with checksum := some e.checksum } .eofRecv) := by
    refine link_emit ?_ _ rfl
    refine ⟨?_, hl.md, hl.inv, hl.segB, hl.quiet, fun _ => rfl⟩
    intro v hv
    cases hv
    exact he.2.2
  have hcs : checkFileSize (emit { prepareAckEof { s with condition := e.cond } with checksum := some e.checksum } .eofRecv)
      e.fileSize t0 = emit { prepareAckEof { s with condition := e.cond } with checksum := some e.checksum } .eofRecv := by
    apply checkFileSize_ok
    rw [he.2.1]
    exact link_endOr0_le h1
  have hne : ((emit { prepareAckEof { s with condition := e.cond } with checksum := some e.checksum } .eofRecv).condition
      == Condition.NoError) = true := by
    show (e.cond == Condition.NoError) = true
    rw [he.1]; rfl
  simp only [ackEof]
  rw [if_pos hne]
  dsimp only at hcs
  rw [hcs]
  apply prog_scheduleNaks
  apply prog_checkFinished
  · refine ⟨h.mode, h.nak, h.nc, ?_, ?_, ?_, ?_, h.dst, ?_⟩
    · intro hr
      have hr0 : s.recvState = .ReceiveData := hr
      obtain ⟨a1, _, a3⟩ := h.act hr0
      exact ⟨a1, he.1, a3⟩
    · intro hr q hq o' d' hq' x hx1 hx2
      have hr0 : s.recvState = .ReceiveData := hr
      simp only [List.mem_append, List.mem_singleton] at hq
      rcases hq with hq | hq
      · exact h.data hr0 q hq o' d' hq' x hx1 hx2
      · subst hq; rw [hp] at hq'; cases hq'
    · intro hr hex
      have hr0 : s.recvState = .ReceiveData := hr
      apply h.mdat hr0
      obtain ⟨q, hq, m, hm⟩ := hex
      simp only [List.mem_append, List.mem_singleton] at hq
      rcases hq with hq | hq
      · exact ⟨q, hq, m, hm⟩
      · subst hq; rw [hp] at hm; cases hm
    · intro _ _
      show some e.fileSize = some st.file.length
      rw [he.2.1]
    · intro hr
      have hr0 : s.recvState = .Finished := hr
      obtain ⟨_, f2, f3⟩ := h.fin hr0
      exact ⟨he.1, f2, f3⟩
  · exact ⟨h1.ck, h1.md, h1.inv, h1.segB, h1.quiet, fun _ => rfl⟩
  · intro hr
    have hr0 : s.recvState = .ReceiveData := hr
    apply src_setFileSize _ _ he.2.1
    have := hsrc hr0
    inv_auto src_frame 4 []
  · exact env

/-- the Metadata PDU of the sender -/
theorem prog_metadata (h : Prog st fs0 t0 D s) (hl : Link st s) (hsrc : s.recvState = .ReceiveData → Src st.file s)
    (env : Env st fs0) (p : Pdu) (m : Metadata) (hp : p.payload = .metadata m)
    (hm : m.cksumType = st.md.cksumType ∧ m.srcName = st.md.srcName ∧ m.dstName = st.md.dstName) :
    Prog st fs0 t0 (D ++ [p]) (checkFinished (storeMetadata s m) t0) := by
  apply prog_checkFinished
  · simp only [storeMetadata]
    refine ⟨h.mode, h.nak, h.nc, h.act, ?_, ?_, ?_, ?_, h.fin⟩
    · intro hr q hq o' d' hq' x hx1 hx2
      simp only [List.mem_append, List.mem_singleton] at hq
      rcases hq with hq | hq
      · exact h.data hr q hq o' d' hq' x hx1 hx2
      · subst hq; rw [hp] at hq'; cases hq'
    · intro _ _; rfl
    · intro hr hex
      apply h.eof hr
      obtain ⟨q, hq, e, he⟩ := hex
      simp only [List.mem_append, List.mem_singleton] at hq
      rcases hq with hq | hq
      · exact ⟨q, hq, e, he⟩
      · subst hq; rw [hp] at he; cases he
    · intro m' hm'
      simp only [Option.some.injEq] at hm'
      subst hm'
      exact hm.2.2
  · exact link_storeMetadata hl m ⟨hm.1, hm.2.1⟩
  · intro hr
    have := hsrc (by simpa [storeMetadata] using hr)
    simp only [storeMetadata]
    inv_auto src_frame 4 []
  · exact env

/-- a PDU that brings nothing new -/
theorem prog_snoc (h : Prog st fs0 t0 D s) (p : Pdu) (h1 : ∀ off d, p.payload ≠ .fileData off d)
    (h2 : (∃ m, p.payload = .metadata m) → s.recvState = .ReceiveData → s.md.isSome = true)
    (h3 : ∀ e, p.payload ≠ .eof e) : Prog st fs0 t0 (D ++ [p]) s := by
  refine ⟨h.mode, h.nak, h.nc, h.act, ?_, ?_, ?_, h.dst, h.fin⟩
  · intro hr q hq o' d' hq' x hx1 hx2
    simp only [List.mem_append, List.mem_singleton] at hq
    rcases hq with hq | hq
    · exact h.data hr q hq o' d' hq' x hx1 hx2
    · subst hq; exact absurd hq' (h1 o' d')
  · intro hr hex
    obtain ⟨q, hq, m, hm⟩ := hex
    simp only [List.mem_append, List.mem_singleton] at hq
    rcases hq with hq | hq
    · exact h.mdat hr ⟨q, hq, m, hm⟩
    · subst hq; exact h2 ⟨m, hm⟩ hr
  · intro hr hex
    obtain ⟨q, hq, e, he⟩ := hex
    simp only [List.mem_append, List.mem_singleton] at hq
    rcases hq with hq | hq
    · exact h.eof hr ⟨q, hq, e, he⟩
    · subst hq; exact absurd he (h3 e)

/-- **a PDU of the sender reaches the receiver** -/
theorem prog_processPdu (h : Prog st fs0 t0 D s) (hl : Link st s) (hsrc : s.recvState = .ReceiveData → Src st.file s)
    (env : Env st fs0) (p : Pdu) (hf : FromSender st p) : Prog st fs0 t0 (D ++ [p]) (processPdu s p t0).1 := by
  have h0 : Prog st fs0 t0 D (pduArrived s t0) := by simp only [pduArrived]; prog_go []
  have hl0 : Link st (pduArrived s t0) := link_frame hl (by simp) (by simp) (by simp) (by simp) (by simp)
  have hs0 : (pduArrived s t0).recvState = .ReceiveData → Src st.file (pduArrived s t0) := by
    intro hr
    exact src_frame (hsrc (by simpa using hr)) rfl rfl rfl rfl
  have hm0 := h0.mode
  simp only [processPdu]
  generalize pduArrived s t0 = t at h0 hl0 hs0 hm0
  simp only [processPduBody, hm0]
  unfold FromSender at hf
  cases hpl : p.payload <;> simp only [hpl] at hf <;> dsimp only
  · -- EOF
    exact prog_ackEof h0 hl0 hs0 env p _ hpl hf
  · -- Finished (not for a receiver)
    exact prog_snoc h0 p (by intro o d; rw [hpl]; intro hh; cases hh) (by intro ⟨m, hm⟩; rw [hpl] at hm; cases hm)
      (by intro e; rw [hpl]; intro hh; cases hh)
  · -- ACK
    split
    · rename_i hc
      have hnr : t.recvState ≠ .ReceiveData := by
        intro hr; rw [hr] at hc; simp at hc
      have hpg : Prog st fs0 t0 D (shutdown { t with timer := { t.timer with ack := t.timer.ack.pause t0 } } t0) := by
        refine ⟨h0.mode, nz_shutdown (s := { t with timer := { t.timer with ack := t.timer.ack.pause t0 } }) h0.nak,
          h0.nc, ?_, ?_, ?_, ?_, h0.dst, h0.fin⟩
        all_goals (intro hr; exact absurd hr hnr)
      exact prog_snoc hpg p (by intro o d; rw [hpl]; intro hh; cases hh) (by intro ⟨m, hm⟩; rw [hpl] at hm; cases hm)
        (by intro e; rw [hpl]; intro hh; cases hh)
    · exact prog_snoc h0 p (by intro o d; rw [hpl]; intro hh; cases hh) (by intro ⟨m, hm⟩; rw [hpl] at hm; cases hm)
        (by intro e; rw [hpl]; intro hh; cases hh)
  · -- Metadata
    split
    · exact prog_metadata h0 hl0 hs0 env p _ hpl hf
    · rename_i hn
      refine prog_snoc h0 p (by intro o d; rw [hpl]; intro hh; cases hh) ?_ (by intro e; rw [hpl]; intro hh; cases hh)
      intro _ _
      cases hmd : t.md with
      | none => rw [hmd] at hn; exact absurd rfl hn
      | some _ => rfl
  · -- NAK
    exact prog_snoc h0 p (by intro o d; rw [hpl]; intro hh; cases hh) (by intro ⟨m, hm⟩; rw [hpl] at hm; cases hm)
      (by intro e; rw [hpl]; intro hh; cases hh)
  · -- Prompt
    have : Prog st fs0 t0 D { t with prompt := some ‹_› } := by prog_go []
    exact prog_snoc this p (by intro o d; rw [hpl]; intro hh; cases hh) (by intro ⟨m, hm⟩; rw [hpl] at hm; cases hm)
      (by intro e; rw [hpl]; intro hh; cases hh)
  · -- Keep Alive
    exact prog_snoc h0 p (by intro o d; rw [hpl]; intro hh; cases hh) (by intro ⟨m, hm⟩; rw [hpl] at hm; cases hm)
      (by intro e; rw [hpl]; intro hh; cases hh)
  · -- file data
    exact prog_ackFileData h0 hl0 hs0 env p _ _ hpl hf

end Cfdp.Recv

namespace Cfdp.Recv
open Cfdp.Codec Cfdp.Gen Cfdp.Timer

theorem nz_resume {s : State} {t0 : Nat} (h : CZ t0 s.timer.nak) : CZ t0 (resume s t0).timer.nak := by
  simp only [resume]
  repeat' split
  all_goals nz_go []

/-- a suspend request: the timers stop, nothing that was received is touched -/
theorem prog_suspend {st : Send.Static} {fs0 : Fs.FS} {t0 : Nat} {D : List Pdu} {s : State}
    (h : Prog st fs0 t0 D s) : Prog st fs0 t0 D (suspend s t0) := by
  refine ⟨h.mode, cz_pause h.nak, h.nc, ?_, h.data, h.mdat, h.eof, h.dst, h.fin⟩
  intro hr
  obtain ⟨_, a2, a3⟩ := h.act hr
  exact ⟨(by intro hh; cases hh), a2, a3⟩

/-- a resume request: Active again, nothing that was received is touched -/
theorem prog_resume {st : Send.Static} {fs0 : Fs.FS} {t0 : Nat} {D : List Pdu} {s : State}
    (h : Prog st fs0 t0 D s) : Prog st fs0 t0 D (resume s t0) := by
  refine ⟨by rw [cfg_resume]; exact h.mode, nz_resume h.nak, by rw [recvState_resume]; exact h.nc, ?_, ?_, ?_, ?_,
    by rw [md_resume]; exact h.dst, ?_⟩
  · intro hr
    rw [recvState_resume] at hr
    obtain ⟨_, a2, a3⟩ := h.act hr
    refine ⟨?_, by rw [condition_resume]; exact a2, by rw [fs_resume]; exact a3⟩
    have : (resume s t0).state = .Active := by simp only [resume, emit]
    rw [this]; intro hh; cases hh
  · intro hr
    rw [recvState_resume] at hr
    rw [segs_resume]; exact h.data hr
  · intro hr
    rw [recvState_resume] at hr
    rw [md_resume]; exact h.mdat hr
  · intro hr
    rw [recvState_resume] at hr
    rw [fileSize_resume]; exact h.eof hr
  · intro hr
    rw [recvState_resume] at hr
    rw [condition_resume, delivery_resume, fileStatus_resume]; exact h.fin hr

end Cfdp.Recv

namespace Cfdp.Loop
open Cfdp.Recv Cfdp.Codec Cfdp.Gen Cfdp.Timer

/-- loop events without timer expiries and without user requests that end the transfer: PDUs of the
sender, transmission opportunities, report requests, prompts - and suspend / resume requests -/
def CalmEv (st : Send.Static) : Ev → Prop
  | .pdu p => FromSender st p
  | .send => True
  | .report => True
  | .prompt _ => True
  | .suspend => True
  | .resume => True
  | _ => False

/-- the PDUs a history delivers, in order -/
def pdusOf : List (Nat × Ev) → List Pdu
  | [] => []
  | (_, .pdu p) :: rest => p :: pdusOf rest
  | _ :: rest => pdusOf rest

theorem prog_anyD {st : Send.Static} {fs0 : Fs.FS} {t0 : Nat} {D D' : List Pdu} {s : Recv.State}
    (h : Prog st fs0 t0 D s) (hnr : s.recvState ≠ .ReceiveData) : Prog st fs0 t0 D' s :=
  ⟨h.mode, h.nak, h.nc, h.act, fun hr => absurd hr hnr, fun hr => absurd hr hnr, fun hr => absurd hr hnr, h.dst, h.fin⟩

/-- the three invariants carried along a calm history -/
structure Calm (st : Send.Static) (fs0 : Fs.FS) (t0 : Nat) (D : List Pdu) (s : Recv.State) : Prop where
  prog : Prog st fs0 t0 D s
  good : Good st.file s
  link : Link0 st s

theorem calm_recvStep {st : Send.Static} {fs0 : Fs.FS} {t0 : Nat} {D : List Pdu} {s : Recv.State}
    (h : Calm st fs0 t0 D s) (env : Env st fs0) (e : Ev) (he : CalmEv st e) :
    Calm st fs0 t0 (D ++ pdusOf [(t0, e)]) (recvStep s t0 e) := by
  have het : TruthfulEv2 st e := by
    cases e <;> first | exact fromSender_truthful2 he | trivial
  refine ⟨?_, good_recvStep h.good t0 e (truthfulEv_of2 het),
    link0_of_link (link_recvStep h.prog.mode h.good h.link t0 e het)⟩
  have p0 : Prog st fs0 t0 D { s with sent := none, out := [] } :=
    prog_frame h.prog rfl rfl rfl rfl rfl rfl rfl rfl rfl rfl rfl
  have l0 : Link st { s with sent := none, out := [] } := link_frame h.link rfl rfl rfl rfl rfl
  simp only [recvStep]
  split
  · -- terminated: nothing happens any more
    rename_i hterm
    have hnr : ({ s with sent := none, out := [] } : Recv.State).recvState ≠ .ReceiveData := by
      intro hr
      have := (p0.act hr).1
      apply this
      simpa using hterm
    exact prog_anyD p0 hnr
  · rename_i hterm
    have hs0 : ({ s with sent := none, out := [] } : Recv.State).recvState = .ReceiveData →
        Src st.file { s with sent := none, out := [] } := by
      intro hr
      rcases h.good.1 with h1 | h1 | h1
      · exact absurd hr h1
      · rw [h1] at hterm; exact absurd rfl hterm
      · exact src_frame h1 rfl rfl rfl rfl
    cases e with
    | pdu p => exact prog_processPdu p0 l0 hs0 env p he
    | send =>
      simp only [pdusOf, List.append_nil]
      split
      · exact prog_sendPdu p0
      · exact p0
    | report =>
      simp only [pdusOf, List.append_nil, Recv.sendReport]
      prog_go []
    | prompt k =>
      simp only [pdusOf, List.append_nil]
      exact p0
    | timeout => exact absurd he id
    | cancel => exact absurd he id
    | suspend =>
      simp only [pdusOf, List.append_nil]
      exact Recv.prog_suspend p0
    | resume =>
      simp only [pdusOf, List.append_nil]
      exact Recv.prog_resume p0
    | abandon => exact absurd he id

theorem pdusOf_cons (x : Nat × Ev) (rest : List (Nat × Ev)) : pdusOf (x :: rest) = pdusOf [x] ++ pdusOf rest := by
  obtain ⟨t, e⟩ := x
  cases e <;> simp [pdusOf]

theorem calm_run {st : Send.Static} {fs0 : Fs.FS} {t0 : Nat} (env : Env st fs0) (evs : List (Nat × Ev)) :
    ∀ (D : List Pdu) (s : Recv.State), Calm st fs0 t0 D s → (∀ x ∈ evs, x.1 = t0 ∧ CalmEv st x.2) →
      Calm st fs0 t0 (D ++ pdusOf evs) (recvRun s evs).1 := by
  induction evs with
  | nil => intro D s h _; simpa [pdusOf, recvRun] using h
  | cons x rest ih =>
    intro D s h hx
    obtain ⟨now, e⟩ := x
    obtain ⟨hnow, hce⟩ := hx (now, e) (List.mem_cons_self ..)
    have hnow' : now = t0 := hnow
    subst hnow'
    have h1 := calm_recvStep h env e hce
    have := ih _ _ h1 (fun y hy => hx y (List.mem_cons_of_mem _ hy))
    rw [pdusOf_cons, ← List.append_assoc]
    exact this

theorem mem_pdusOf {evs : List (Nat × Ev)} {p : Pdu} (h : ∃ x ∈ evs, x.2 = .pdu p) : p ∈ pdusOf evs := by
  induction evs with
  | nil => obtain ⟨x, hx, _⟩ := h; cases hx
  | cons y rest ih =>
    rw [pdusOf_cons]
    obtain ⟨x, hx, hp⟩ := h
    simp only [List.mem_cons] at hx
    rcases hx with hx | hx
    · subst hx
      obtain ⟨t, e⟩ := x
      simp only at hp
      subst hp
      simp [pdusOf]
    · exact List.mem_append_right _ (ih ⟨x, hx, hp⟩)

/-- the closing argument: a receiver that holds the Metadata, an EOF and every byte is not collecting -/
theorem calm_done {st : Send.Static} {fs0 : Fs.FS} {t0 : Nat} {D : List Pdu} {r : Recv.State}
    (hc : Calm st fs0 t0 D r) (hw : Recv.Waiting r)
    (hmeta : ∃ p ∈ D, ∃ m, p.payload = .metadata m) (heof : ∃ p ∈ D, ∃ e, p.payload = .eof e)
    (hcov : ∀ y, y < st.file.length → ∃ p ∈ D, ∃ off d, p.payload = .fileData off d ∧ off ≤ y ∧ y < off + d.length) :
    r.recvState = .Finished ∧ r.condition = .NoError ∧ r.delivery = .Complete ∧ r.fileStatus = .Retained := by
  have hnr : r.recvState ≠ .ReceiveData := by
    intro hr
    have hmd := hc.prog.mdat hr hmeta
    have hfs := hc.prog.eof hr heof
    have hcomp : Seg.isComplete r.segs st.file.length = true := by
      rw [Seg.isComplete_iff _ _ hc.link.inv]
      intro y hy
      obtain ⟨p, hp, off, d, q2, q3, q4⟩ := hcov y hy
      exact hc.prog.data hr p hp off d q2 y q3 q4
    have := hw (by rw [hc.prog.mode]) hr hmd (by simp [Recv.eofReceived, hfs])
    obtain ⟨m, hmm⟩ := Option.isSome_iff_exists.mp hmd
    simp [Recv.hasNaks, hmm, hfs, hcomp] at this
  have hfin : r.recvState = .Finished := by
    cases hrs : r.recvState with
    | ReceiveData => exact absurd hrs hnr
    | Cancelled => exact absurd hrs hc.prog.nc
    | Finished => rfl
  exact ⟨hfin, hc.prog.fin hfin⟩

theorem calm_new (st : Send.Static) (cfg : Recv.Config) (fs : Fs.FS) (t0 : Nat) (hm : cfg.mode = .Acknowledged)
    (hmax : 0 < cfg.max) (htn : 0 < cfg.tn) : Calm st fs t0 [] (Recv.new cfg fs t0) := by
  refine ⟨⟨hm, ⟨rfl, hmax, ?_, rfl⟩, (by intro hh; cases hh), fun _ => ⟨(by intro hh; cases hh), rfl, rfl⟩, ?_, ?_, ?_, ?_, ?_⟩,
    C01_init_good st.file cfg fs t0, ?_⟩
  · show 0 < cfg.tn * 1000000000
    omega
  · intro _ p hp; cases hp
  · intro _ ⟨p, hp, _⟩; cases hp
  · intro _ ⟨p, hp, _⟩; cases hp
  · intro m hmm; cases hmm
  · intro hr; cases hr
  · refine ⟨?_, ?_, ⟨?_, List.Pairwise.nil⟩, ?_, ?_, ?_⟩
    · intro v hv; cases hv
    · intro m hmm; cases hmm
    · intro sg hsg; cases hsg
    · intro sg hsg; cases hsg
    · intro i hi; cases hi
    · intro hh; cases hh

/-- **C02 (everything delivered means done).**  An acknowledged receiver and a sender transferring
`st.file` that was not cancelled.  Take any history - any order, any duplicates, any interleaving
with transmission opportunities, prompts and report requests - in which no timer expires and the
receiving user does not interfere (all at one clock reading).  If by its end the Metadata PDU, an EOF
and file-data PDUs covering every byte of the file have been delivered at least once, the receiver
has left the collecting phase successfully: it is in the Finished phase with condition NoError,
delivery code Complete and file status Retained (and by C04_two_party / C01 it told its user so and
the destination file is the source file).  So recovery needs nothing but delivery: whatever was lost
before, once retransmissions have filled the gaps the transfer completes. -/
theorem C02_recv_completes (st : Send.Static) (cfg : Recv.Config) (fs : Fs.FS) (t0 : Nat) (evs : List (Nat × Ev))
    (hm : cfg.mode = .Acknowledged) (env : Env st fs) (hmax : 0 < cfg.max) (htn : 0 < cfg.tn)
    (hev : ∀ x ∈ evs, x.1 = t0 ∧ CalmEv st x.2)
    (hmeta : ∃ x ∈ evs, ∃ p m, x.2 = .pdu p ∧ p.payload = .metadata m)
    (heof : ∃ x ∈ evs, ∃ p e, x.2 = .pdu p ∧ p.payload = .eof e)
    (hcov : ∀ y, y < st.file.length → ∃ x ∈ evs, ∃ p off d, x.2 = .pdu p ∧ p.payload = .fileData off d ∧
      off ≤ y ∧ y < off + d.length) :
    (recvRun (Recv.new cfg fs t0) evs).1.recvState = .Finished ∧
    (recvRun (Recv.new cfg fs t0) evs).1.condition = .NoError ∧
    (recvRun (Recv.new cfg fs t0) evs).1.delivery = .Complete ∧
    (recvRun (Recv.new cfg fs t0) evs).1.fileStatus = .Retained := by
  have hc := calm_run env evs [] _ (calm_new st cfg fs t0 hm hmax htn) hev
  rw [List.nil_append] at hc
  have hw := Recv.C02_never_waits_complete cfg fs t0 evs
  refine calm_done hc hw ?_ ?_ ?_
  · obtain ⟨x1, hx1, p1, m1, e1, e2⟩ := hmeta
    exact ⟨p1, mem_pdusOf ⟨x1, hx1, e1⟩, m1, e2⟩
  · obtain ⟨x2, hx2, p2, ee, e3, e4⟩ := heof
    exact ⟨p2, mem_pdusOf ⟨x2, hx2, e3⟩, ee, e4⟩
  · intro y hy
    obtain ⟨x, hx, p, off, d, q1, q2, q3, q4⟩ := hcov y hy
    exact ⟨p, mem_pdusOf ⟨x, hx, q1⟩, off, d, q2, q3, q4⟩

end Cfdp.Loop

#print axioms Cfdp.Loop.C02_recv_completes

namespace Cfdp.Loop
open Cfdp.Send Cfdp.Codec Cfdp.Gen

/-- **C02 (the sender learns of it).**  When the receiver's Finished PDU saying NoError / Complete /
Retained reaches an acknowledged send transaction that is still alive, in whatever phase, the sender
records that outcome, tells its user so and queues the ACK(Finished); its next transmission (no
Prompt pending) is that ACK, and with it the transaction ends. -/
theorem C02_send_completes (s : Send.State) (now now' : Nat) (hd : Header) (f : Finished)
    (hm : s.cfg.mode = .Acknowledged) (hs : s.state ≠ .Terminated)
    (hf : f.cond = .NoError ∧ f.delivery = .Complete ∧ f.fileStatus = .Retained) (hp : s.prompt = none) :
    let s1 := sendStep s now (.pdu (Pdu.mk hd (.finished f)))
    s1.sendState = .Finished ∧ s1.condition = .NoError ∧ s1.delivery = .Complete ∧ s1.fileStatus = .Retained ∧
    Send.Ind.finished .NoError .Complete .Retained s.state s.status f.responses ∈ s1.out ∧
    (s.state = .Active →
      let s2 := sendStep s1 now' .send
      s2.state = .Terminated ∧ s2.condition = .NoError ∧ s2.delivery = .Complete ∧
      ∃ h a, s2.sent = some (Pdu.mk h (.ack a)) ∧ a.directive = .Finished ∧ a.sub = .Finished) := by
  have hnt : (({ s with sent := none, out := [] } : Send.State).state == TransactionState.Terminated) = false := by
    show (s.state == TransactionState.Terminated) = false
    cases hst : s.state <;> simp_all
  have hm1 : (Send.pduArrived { s with sent := none, out := [] } now).cfg.mode = .Acknowledged := by
    simp only [Send.pduArrived]; split <;> exact hm
  intro s1
  have e1 : s1 = (Send.processPdu { s with sent := none, out := [] } (Pdu.mk hd (.finished f)) now).1 := by
    simp only [s1, sendStep, hnt, Bool.false_eq_true, if_false]
  have hst : (Send.pduArrived { s with sent := none, out := [] } now).state = s.state := by
    simp only [Send.pduArrived]; split <;> rfl
  have hss : (Send.pduArrived { s with sent := none, out := [] } now).status = s.status := by
    simp only [Send.pduArrived]; split <;> rfl
  have hout : (Send.pduArrived { s with sent := none, out := [] } now).out = [] := by
    simp only [Send.pduArrived]; split <;> rfl
  have hpr : (Send.pduArrived { s with sent := none, out := [] } now).prompt = none := by
    simp only [Send.pduArrived]; split <;> exact hp
  simp only [Send.processPdu, Send.processPduBody, hm1] at e1
  refine ⟨by rw [e1]; rfl, by rw [e1]; exact hf.1, by rw [e1]; exact hf.2.1, by rw [e1]; exact hf.2.2, ?_, ?_⟩
  · rw [e1]
    simp only [Send.emit, hout, List.nil_append, List.mem_singleton, hf.1, hf.2.1, hf.2.2, hst, hss]
  · intro ha s2
    have hnt1 : (({ s1 with sent := none, out := [] } : Send.State).state == TransactionState.Terminated) = false := by
      show (s1.state == TransactionState.Terminated) = false
      rw [e1]
      show ((Send.pduArrived { s with sent := none, out := [] } now).state == TransactionState.Terminated) = false
      rw [hst, ha]; rfl
    have hhas : Send.hasPduToSend ({ s1 with sent := none, out := [] } : Send.State) = true := by
      rw [e1]
      simp only [Send.hasPduToSend, Send.emit]
      rw [hst, ha]
      simp
    have e2 : s2 = Send.sendPdu { s1 with sent := none, out := [] } now' := by
      simp only [s2, sendStep, hnt1, Bool.false_eq_true, if_false, hhas, if_true]
    rw [e2, e1]
    simp only [Send.sendPdu, Send.emit, hpr, Option.isSome_none, Bool.false_eq_true, if_false, Send.sendAck,
      Send.shutdown, Send.sendPayload, Send.getHeader]
    refine ⟨?_, ?_, ?_, ?_⟩
    · first | rfl | trivial | (split <;> rfl)
    · first | exact hf.1 | (split <;> exact hf.1)
    · first | exact hf.2.1 | (split <;> exact hf.2.1)
    · first | exact ⟨_, _, rfl, rfl, rfl⟩ | (split <;> exact ⟨_, _, rfl, rfl, rfl⟩)

end Cfdp.Loop

namespace Cfdp.Loop
open Cfdp.Recv Cfdp.Codec Cfdp.Gen

/-- the premises of `C02_recv_completes` are satisfiable: EOF first, then the data, a transmission
opportunity (the ACK of the EOF goes out), the Metadata last -/
example : (recvRun (Recv.new c04Cfg [([], .dir)] 0)
    [(0, .pdu c04Eof), (0, .pdu c04Data), (0, .send), (0, .pdu c04Md)]).1.recvState = .Finished := by
  refine (C02_recv_completes { cfg := Send.exCfg, md := { Send.exMd with fileSize := 3 }, file := [1, 2, 3] }
    c04Cfg [([], .dir)] 0 _ rfl ⟨rfl, by decide⟩ (by decide) (by decide) ?_ ?_ ?_ ?_).1
  · intro x hx
    simp only [List.mem_cons, List.mem_nil_iff, or_false] at hx
    rcases hx with rfl | rfl | rfl | rfl
    · exact ⟨rfl, rfl, rfl, rfl⟩
    · refine ⟨rfl, by decide, ?_⟩
      intro i hi
      have : i = 0 ∨ i = 1 ∨ i = 2 := by simp only [List.length] at hi; omega
      rcases this with rfl | rfl | rfl <;> rfl
    · exact ⟨rfl, trivial⟩
    · exact ⟨rfl, rfl, rfl, rfl⟩
  · exact ⟨_, List.mem_cons_of_mem _ (List.mem_cons_of_mem _ (List.mem_cons_of_mem _ (List.mem_cons_self ..))), c04Md, c04Meta, rfl, rfl⟩
  · exact ⟨_, List.mem_cons_self .., c04Eof, _, rfl, rfl⟩
  · intro y hy
    refine ⟨_, List.mem_cons_of_mem _ (List.mem_cons_self ..), c04Data, 0, [1, 2, 3], rfl, rfl, Nat.zero_le _, ?_⟩
    simpa using hy

end Cfdp.Loop

#print axioms Cfdp.Loop.C02_send_completes
