import Cfdp.Props.C19
import Cfdp.Props.C02n

/-! # C19: suspensions do not prevent completion -/
namespace Cfdp.Net
open Cfdp.Loop Cfdp.Codec Cfdp.Gen Cfdp.Recv

/-- **C19 (resume picks up and completes).**  In the two-party model, suspend and resume requests at
either entity - any number of them, at any point of the exchange, interleaved with everything else -
are among the actions `CalmAct` allows.  So whatever suspensions happened, once the link has handed
the receiver the sender's Metadata, an EOF and file data covering every byte (a suspended receiver
still stores what arrives; a resumed sender transmits what it had not yet transmitted), the receiver
has finished with NoError / Complete / Retained: a suspension delays the transfer, it does not
change its outcome.  This is `C02_two_party_completes` read for histories with suspensions. -/
theorem C19_completes_despite_suspensions (cfgS : Send.Config) (md : Send.Meta) (file : Bytes) (cfgR : Recv.Config)
    (fs : Fs.FS) (t0 : Nat) (acts : List Act)
    (hmS : cfgS.mode = .Acknowledged) (hmR : cfgR.mode = .Acknowledged)
    (hsize : md.fileSize = file.length) (hseg : 0 < cfgS.seg ∧ cfgS.seg ≤ 65535)
    (env : Env { cfg := cfgS, md, file } fs) (hmax : 0 < cfgR.max) (htn : 0 < cfgR.tn)
    (hcalm : ∀ a ∈ acts, CalmAct t0 a)
    (hmeta : ∃ p ∈ deliveredR (init cfgS md file cfgR fs t0) acts, ∃ m, p.payload = .metadata m)
    (heof : ∃ p ∈ deliveredR (init cfgS md file cfgR fs t0) acts, ∃ e, p.payload = .eof e)
    (hcov : ∀ y, y < file.length → ∃ p ∈ deliveredR (init cfgS md file cfgR fs t0) acts, ∃ off d,
      p.payload = .fileData off d ∧ off ≤ y ∧ y < off + d.length) :
    (run (init cfgS md file cfgR fs t0) acts).rcv.recvState = .Finished ∧
    (run (init cfgS md file cfgR fs t0) acts).rcv.condition = .NoError ∧
    (run (init cfgS md file cfgR fs t0) acts).rcv.delivery = .Complete ∧
    (run (init cfgS md file cfgR fs t0) acts).rcv.fileStatus = .Retained :=
  C02_two_party_completes cfgS md file cfgR fs t0 acts hmS hmR hsize hseg env hmax htn hcalm hmeta heof hcov

/-- a history with suspensions: the sender is suspended after the Metadata and resumed, the receiver
is suspended while the data arrives and resumed before the last PDU -/
def exSuspActs : List Act :=
  [.sender 0 .send, .sender 0 .suspend, .sender 0 .send, .sender 0 .resume, .sender 0 .send, .sender 0 .send,
   .sender 0 .send, .receiver 0 .suspend, .deliverR 0 3, .deliverR 0 2, .deliverR 0 0, .receiver 0 .resume, .deliverR 0 1]

example : (run (init Send.exCfg Send.exMd Send.exFile c04Cfg [([], .dir)] 0) exSuspActs).rcv.recvState = .Finished := by
  refine (C19_completes_despite_suspensions Send.exCfg Send.exMd Send.exFile c04Cfg [([], .dir)] 0 exSuspActs rfl rfl rfl
    (by decide) ⟨rfl, by decide⟩ (by decide) (by decide) ?_ ?_ ?_ ?_).1
  · intro a ha
    simp only [exSuspActs, List.mem_cons, List.mem_nil_iff, or_false] at ha
    rcases ha with rfl | rfl | rfl | rfl | rfl | rfl | rfl | rfl | rfl | rfl | rfl | rfl | rfl <;>
      first | exact ⟨rfl, trivial⟩ | rfl
  · exact ⟨(deliveredR (init Send.exCfg Send.exMd Send.exFile c04Cfg [([], .dir)] 0) exSuspActs)[2]'(by decide),
      List.getElem_mem _, _, rfl⟩
  · exact ⟨(deliveredR (init Send.exCfg Send.exMd Send.exFile c04Cfg [([], .dir)] 0) exSuspActs)[0]'(by decide),
      List.getElem_mem _, _, rfl⟩
  · intro y hy
    have hy' : y < 6 := hy
    by_cases h4 : y < 4
    · exact ⟨(deliveredR (init Send.exCfg Send.exMd Send.exFile c04Cfg [([], .dir)] 0) exSuspActs)[3]'(by decide),
        List.getElem_mem _, 0, [1, 2, 3, 4], rfl, Nat.zero_le _, by simpa using h4⟩
    · exact ⟨(deliveredR (init Send.exCfg Send.exMd Send.exFile c04Cfg [([], .dir)] 0) exSuspActs)[1]'(by decide),
        List.getElem_mem _, 4, [5, 6], rfl, by omega, by simp; omega⟩

end Cfdp.Net

#print axioms Cfdp.Net.C19_completes_despite_suspensions
open Cfdp.Loop in
#print axioms C19_send_quiet
open Cfdp.Loop in
#print axioms C19_send_no_timer_fault
open Cfdp.Loop in
#print axioms C19_send_permit_ignored
open Cfdp.Loop in
#print axioms C19_send_resume
open Cfdp.Loop in
#print axioms C19_recv_quiet
open Cfdp.Loop in
#print axioms C19_recv_no_timer_fault
open Cfdp.Loop in
#print axioms C19_recv_suspend
open Cfdp.Loop in
#print axioms C19_recv_resume
open Cfdp.Loop in
#print axioms C19_send_run_quiet
