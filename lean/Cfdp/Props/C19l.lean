import Cfdp.Props.C02z
import Cfdp.Props.C19r
set_option linter.unusedSimpArgs false

/-! # C19: a resumed receiver picks the recovery up - under further losses

`C19_resume_round` (Props/C19r.lean) completes the delivery when nothing is lost after the Resume.request.  With the NAK
loop of Props/C02x.lean the same holds under loss: the Resume.request rebuilds the request queue and starts the NAK and
inactivity counters afresh, the queue goes out, and from there on the receiver is in the loop's starting state
(`resume_enters_loop`), so any fair lossy schedule of rounds in which every missing byte gets through at least once
ends with the delivery reported (`C19_resume_lossy_rounds`). -/
namespace Cfdp.Loop
open Cfdp.Codec Cfdp.Gen Cfdp.Timer Cfdp.Recv Cfdp.Send

/-- the receiver's part of a resume: the Resume.request and the transmission of the rebuilt queue -/
def resumeFlush (r : Recv.State) (t : Nat) : Recv.State × List Pdu :=
  recvN (recvStep r t .resume).naks.length (recvStep r t .resume) t

/-- **a resume enters the NAK loop**: a receiver suspended in mid-recovery (something missing, nothing to transmit) that
is resumed at `t` and has transmitted its rebuilt queue is in the loop's starting state - data untouched, nothing
to transmit, the NAK counter at zero and running since `t`, the inactivity counter at zero since `t` -/
theorem resume_enters_loop {m Ta Ti Tn : Nat} (r : Recv.State) (t : Nat) (src : Bytes) (md : Recv.Meta) (fs0 : Fs.FS)
    (hmode : r.cfg.mode = .Acknowledged) (hsus : r.state = .Suspended) (hrd : r.recvState = .ReceiveData)
    (hmd : r.md = some md) (hsize : r.fileSize = some src.length) (hck : r.checksum = some (fileChecksum md.cksumType src))
    (hcond : r.condition = .NoError) (hdata : DataOk src r) (hfs : r.fs = fs0)
    (hpr : r.prompt = none) (hack : r.ack = none) (hdel : r.delayed = []) (hrt : RT m Ta Ti Tn r.timer) (hmax : 0 < m)
    (hinc : ∃ x, x < src.length ∧ ¬ Seg.cov r.segs x) :
    RG src md fs0 (resumeFlush r t).1 ∧ WN m Ta Ti Tn (resumeFlush r t).1 ∧ (resumeFlush r t).1.segs = r.segs ∧
    NB t 0 (resumeFlush r t).1 ∧ IB Ti t (max t t) (resumeFlush r t).1.timer.inactivity := by
  have hmx : 0 < r.timer.nak.max := by rw [hrt.nak.2.2.1]; exact hmax
  obtain ⟨w1, w2, w3, w4⟩ := resume_rebuilds r t src md fs0 hmode hsus hrd hmd hsize hck hcond hdata hfs hpr hack hrt hmx
  have hnt : ((clrR r).state == TransactionState.Terminated) = false := by
    show (r.state == TransactionState.Terminated) = false; rw [hsus]; rfl
  have e1 : recvStep r t .resume = Recv.resume (clrR r) t := by
    rw [recvStep_eq]; simp only [hnt, Bool.false_eq_true, if_false]
  obtain ⟨tm, _⟩ := resume_naks_timer (clrR r) t hrd hmode (by show r.fileSize.isSome = true; rw [hsize]; rfl)
  have htm : (recvStep r t .resume).timer =
      { inactivity := r.timer.inactivity.reset t, ack := r.timer.ack, nak := r.timer.nak.reset t } := by rw [e1, tm]; rfl
  generalize hr0 : recvStep r t .resume = r0 at w1 w2 w3 w4 htm
  have hwf : resumeFlush r t = recvN r0.naks.length r0 t := by unfold resumeFlush; rw [hr0]
  rw [hwf]
  obtain ⟨f1, f2, f3, _, _⟩ := recv_flushes_naks r0.naks.length r0 t w2 (Nat.le_refl _)
  have hd0 : r0.delayed = [] := by rw [← hr0, e1, delayed_resume]; exact hdel
  -- the queue is not empty
  have hne : r0.naks ≠ [] := by
    rw [w4]
    obtain ⟨c1, c2, _⟩ := C08_exact r0 src.length w1.data.inv w1.size
    obtain ⟨x, hx, hnx⟩ := hinc
    obtain ⟨q, hq, _⟩ := (c2 x).mpr ⟨hx, by rw [w3]; exact hnx⟩
    rw [c1]
    intro hnil
    have : q ∈ ([] : List (Nat × Nat)) := by rw [← hnil]; exact List.mem_append_right _ hq
    cases this
  have hnc : NC t 0 (recvN r0.naks.length r0 t).1 ∧ (recvN r0.naks.length r0 t).1.received = r0.received := by
    cases hl : r0.naks.length with
    | zero => exact absurd (List.eq_nil_of_length_eq_zero hl) hne
    | succ k =>
      simp only [recvN]
      obtain ⟨n1, n2⟩ := nc_first r0 t w2 hne
      have hz : (if (r0.nakReceived == r0.received) then (r0.timer.nak.update t).count else 0) = 0 := by
        split
        · rw [htm]
          show ((r.timer.nak.reset t).update t).count = 0
          rw [update_reset _ _ hrt.nak.2.1]; rfl
        · rfl
      rw [hz] at n1
      obtain ⟨b1, b2⟩ := nc_recvN k _ t _ (recv_sends_nak _ t w2 hne).1 n1
      exact ⟨b1, b2.trans n2⟩
  have hin : (recvN r0.naks.length r0 t).1.timer.inactivity = r0.timer.inactivity := inact_recvN _ _ t w2
  refine ⟨rg_of_same w1 f3, ⟨f2.pr, f2.ack, f2.rt, by rw [delayed_recvN]; exact hd0, f1⟩,
    f3.2.2.2.2.2.2.2.1.trans w3, ⟨hnc.1.start, hnc.1.run, by rw [hnc.1.count]; exact Nat.le_refl _, by rw [hnc.1.seen]; exact Nat.le_refl _⟩, ?_⟩
  rw [hin, htm]
  exact ⟨by show 0 * Ti ≤ t - t; omega, Nat.le_refl _, Nat.le_max_left _ _⟩

/-- **C19 (resume picks the recovery up, under further losses).**  A receiver suspended in mid-recovery is resumed at clock
reading `t` and goes through rounds of its NAK loop over a link that loses whatever it likes, under the fairness
condition of `Fair` counted from the resume (rounds paced by the NAK timer, fewer than `limit - 1` fruitless rounds in
a row, no round `limit` inactivity periods after the last delivery).  Once every missing byte has got through in some
round the delivery has succeeded, as in a transfer that was never suspended: Finished / NoError / Complete / Retained. -/
theorem C19_resume_lossy_rounds {m Ta Ti Tn : Nat} (r : Recv.State) (t : Nat) (src : Bytes) (md : Recv.Meta) (fs0 : Fs.FS)
    (rounds : List (Nat × List (Nat × Pdu)))
    (hmode : r.cfg.mode = .Acknowledged) (hsus : r.state = .Suspended) (hrd : r.recvState = .ReceiveData)
    (hmd : r.md = some md) (hsize : r.fileSize = some src.length) (hck : r.checksum = some (fileChecksum md.cksumType src))
    (hcond : r.condition = .NoError) (hdata : DataOk src r) (hfs0 : r.fs = fs0)
    (hpr : r.prompt = none) (hack : r.ack = none) (hdel : r.delayed = []) (hrt : RT m Ta Ti Tn r.timer) (hmax : 0 < m)
    (hft : md.srcName.isEmpty = false) (hfs : (fs0.writeFile (Fs.relOf md.dstName) src).isSome = true)
    (hinc : ∃ x, x < src.length ∧ ¬ Seg.cov r.segs x)
    (hf : Fair src m Ti Tn t 0 t (resumeFlush r t).1 rounds)
    (hcov : ∀ x, x < src.length → ¬ Seg.cov r.segs x → ∃ rd ∈ rounds, carries (rd.2.map (·.2)) x) :
    FG (nakRounds (resumeFlush r t).1 rounds) := by
  obtain ⟨a1, a2, a3, a4, a5⟩ := resume_enters_loop r t src md fs0 hmode hsus hrd hmd hsize hck hcond hdata hfs0 hpr hack hdel
    hrt hmax hinc
  exact C02_lossy_rounds_fair rounds _ t 0 t a1 a2 hmax a4 a5 hft hfs (by rw [a3]; exact hinc) hf
    (fun x hx hnx => hcov x hx (by rw [← a3]; exact hnx))

/-! ### the premises are satisfiable -/

/-- the receiver of `exRL` (second segment missing, first NAK out), suspended at clock reading 500 -/
def exRLs : Recv.State := recvStep exRL 500 .suspend

example : FG (nakRounds (resumeFlush exRLs 7000000000).1
    [(8000000000, []), (9000000000, [(9000000003, ⟨default, .fileData 4 [5, 6]⟩)])]) := by
  have hmd : exRLs.md = some { srcName := [115], dstName := [100], fileSize := 6, closure := false, cksumType := .Null, requests := [] } := by
    rfl
  have hsegs : exRLs.segs = [(0, 4)] := by decide
  have htmp : exRLs.tempFile = some [1, 2, 3, 4] := by decide
  have hri : RI cfgL.max (cfgL.ta * 1000000000) (cfgL.ti * 1000000000) (cfgL.tn * 1000000000) exRLs :=
    ri_recvStep (ri_run _ _ (ri_new cfgL [([], .dir)] 0 (by decide) (by decide) (by decide) ⟨by decide, by decide, by decide⟩)) 500 .suspend
  have t1 : Truthful Send.exFile 4 [5, 6] := ⟨by decide, fun i hi => by
    have : i = 0 ∨ i = 1 := by simp only [List.length_cons, List.length_nil] at hi; omega
    rcases this with rfl | rfl <;> rfl⟩
  have hdata : DataOk Send.exFile exRLs := by
    refine ⟨?_, ?_, ?_, ?_⟩
    · rw [hsegs]; exact ⟨fun sg hsg => by simp at hsg; subst hsg; decide, by simp⟩
    · rw [hsegs]; intro sg hsg; simp at hsg; subst hsg; decide
    · rw [htmp]; decide
    · rw [hsegs, htmp]
      intro x hx
      obtain ⟨sg, hsg, h1, h2⟩ := hx
      simp at hsg; subst hsg
      have : x = 0 ∨ x = 1 ∨ x = 2 ∨ x = 3 := by simp only at h1 h2; omega
      rcases this with rfl | rfl | rfl | rfl <;> rfl
  refine C19_resume_lossy_rounds (m := 4) (Ta := 1000000000) (Ti := 3000000000) (Tn := 1000000000) exRLs 7000000000
    Send.exFile _ exRLs.fs _ (by decide) (by decide) (by decide) hmd (by decide) (by decide) (by decide) hdata rfl
    (by decide) (by decide) (by decide) hri.inv.rt (by decide) (by decide) (by decide) ?_ ?_ ?_
  · rw [hsegs]
    refine ⟨4, by decide, ?_⟩
    rintro ⟨sg, hsg, h1, h2⟩
    simp at hsg; subst hsg
    simp only at h1 h2; omega
  · simp only [Fair]
    refine Or.inr ⟨by decide, by decide, by decide, by decide, by decide, (fun x hx => by cases hx), ?_⟩
    refine Or.inr ⟨by decide, by decide, by decide, by decide, by decide, ?_, trivial⟩
    intro x hx
    simp only [List.mem_singleton] at hx
    subst hx
    exact Or.inl ⟨4, [5, 6], rfl, t1⟩
  · intro x hx hnx
    rw [hsegs] at hnx
    have hx' : x < 6 := hx
    have : x = 4 ∨ x = 5 := by
      have : ¬ (0 ≤ x ∧ x < 4) := fun hc => hnx ⟨(0, 4), by simp, hc.1, hc.2⟩
      omega
    refine ⟨_, List.mem_cons_of_mem _ (List.mem_cons_self ..), ⟨_, List.mem_cons_self .., 4, [5, 6], rfl, ?_, ?_⟩⟩
    · rcases this with rfl | rfl <;> decide
    · rcases this with rfl | rfl <;> decide

end Cfdp.Loop

#print axioms Cfdp.Loop.C19_resume_lossy_rounds
#print axioms Cfdp.Loop.C19_resume_round

open Cfdp.Loop in
#print axioms C19_send_quiet
open Cfdp.Loop in
#print axioms C19_send_no_timer_fault
open Cfdp.Loop in
#print axioms C19_send_permit_ignored
open Cfdp.Loop in
#print axioms C19_send_resume
open Cfdp.Loop in
#print axioms C19_recv_quiet
open Cfdp.Loop in
#print axioms C19_recv_no_timer_fault
open Cfdp.Loop in
#print axioms C19_recv_suspend
open Cfdp.Loop in
#print axioms C19_recv_resume
open Cfdp.Loop in
#print axioms C19_send_run_quiet
#print axioms Cfdp.Net.C19_completes_despite_suspensions
