import Cfdp.Props.C02x
set_option linter.unusedSimpArgs false

/-! # C02: the two-party NAK loop under fair loss

`Props/C02x.lean` lets the link deliver any truthful file data to the receiver.  Here the other end of the link is the
sender model: in every round the NAK PDUs that get through are handed to the sender (`senderRound`), which stays able
to answer (`sq_round`: invariant `SQ`) and whose transmissions are what the link may deliver to the receiver; a round in
which nothing is lost carries every missing byte (`clean_round_carries`).  `C02_two_party_nak_loop`: any number of
lossy rounds within the fairness condition, one clean round among them - the delivery has succeeded. -/

namespace Cfdp.Loop
open Cfdp.Codec Cfdp.Gen Cfdp.Timer Cfdp.Recv Cfdp.Send

/-- the sender's half of a round keeps it able to answer: a sender that has sent its EOF transmits until its queue is
empty and is as it was (`SQ`), and everything it transmitted is file data of its own file (or its Metadata) -/
theorem sq_flush (st : Send.Static) (q : List (Nat × Nat)) (s : Send.State) (t : Nat) (h : SQ st s) (hn : s.naks = q) :
    SQ st (sendN q.length s t).1 ∧ (sendN q.length s t).1.naks = [] ∧
    ∀ pdu ∈ (sendN q.length s t).2, RPdu st.file pdu := by
  induction q generalizing s with
  | nil => exact ⟨h, hn, fun pdu hp => by cases hp⟩
  | cons x rest ih =>
    obtain ⟨a, b⟩ := x
    obtain ⟨g1, a1, p1, s1, n1, st1, _, kind1⟩ := send_answers_head s t a b rest h.good h.act h.pr h.eofSent hn
    have hmode : (sendStep s t .send).cfg.mode = .Acknowledged := by
      show (sendStep s t .send).st.cfg.mode = _; rw [st1]; exact h.mode
    have h' : SQ st (sendStep s t .send) := ⟨g1, a1, hmode, p1, s1, by rw [st1]; exact h.st⟩
    obtain ⟨i1, i2, i3⟩ := ih (sendStep s t .send) h' n1
    simp only [List.length_cons, sendN]
    refine ⟨i1, i2, ?_⟩
    intro pdu hpdu
    rcases List.mem_append.mp hpdu with hpdu | hpdu
    · cases hse : (sendStep s t .send).sent with
      | none => rw [hse] at hpdu; cases hpdu
      | some y =>
        rw [hse] at hpdu
        have : pdu = y := by simpa using hpdu
        subst this
        have hf : s.file = st.file := by show s.st.file = _; rw [h.st]
        rw [← hf]
        exact kind1 pdu hse
    · exact i3 pdu hpdu

/-- the sender's half of a round: the NAK PDUs the link lets through are handed to it, then it transmits until its
queue is empty -/
def senderRound (s : Send.State) (tS : Nat) (nk : List Pdu) : Send.State × List Pdu :=
  sendN (deliverS s tS nk).naks.length (deliverS s tS nk) tS

theorem sq_round (st : Send.Static) (s : Send.State) (tS : Nat) (nk : List Pdu) (h : SQ st s)
    (hk : ∀ p ∈ nk, ∃ n, p.payload = .nak n) :
    SQ st (senderRound s tS nk).1 ∧ ∀ pdu ∈ (senderRound s tS nk).2, RPdu st.file pdu := by
  obtain ⟨q1, _, _⟩ := naks_arrive st nk s tS h hk
  obtain ⟨f1, _, f3⟩ := sq_flush st _ _ tS q1 rfl
  exact ⟨f1, f3⟩

/-- **a round in which nothing is lost carries everything that is missing**: the NAK timer runs out below the limits,
all NAK PDUs of the rebuilt queue reach the sender, and among what the sender then transmits there is, for every
missing byte, a file-data PDU covering it -/
theorem clean_round_carries {m Ta Ti Tn : Nat} (s : Send.State) (r : Recv.State) (t tS : Nat) (md : Recv.Meta) (fs0 : Fs.FS)
    (hs : SQ s.st s) (h : RG s.file md fs0 r) (w : WN m Ta Ti Tn r)
    (hdue : r.timer.nak.paused = false ∧ r.timer.nak.timeout ≤ t - r.timer.nak.start ∧ r.timer.nak.start ≤ t)
    (hroom : (r.nakReceived == r.received) = false ∨ (r.timer.nak.update t).count ≠ r.timer.nak.max)
    (hmax : 0 < r.timer.nak.max)
    (hil : (r.timer.inactivity.update t).count ≠ r.timer.inactivity.max)
    (hinc : ∃ x, x < s.file.length ∧ ¬ Seg.cov r.segs x)
    (nk : List Pdu) (hk : ∀ p ∈ nk, ∃ n, p.payload = .nak n) (hsup : ∀ p ∈ (wakeFlush r t).2, p ∈ nk) :
    ∀ x, x < s.file.length → ¬ Seg.cov r.segs x → carries (senderRound s tS nk).2 x := by
  obtain ⟨w1, w2, w3, _, _, _, _⟩ := wake_rebuilds_room r t s.file md fs0 h w.pr w.ack w.rt w.del hdue hroom hmax hil hinc
  generalize hr1 : recvStep r t .timeout = r1 at w1 w2 w3
  have hwf : wakeFlush r t = recvN r1.naks.length r1 t := by unfold wakeFlush; rw [hr1]
  have hrg1 : RG s.file md fs0 r1 := rg_of_same h w1
  have hsegs1 : r1.segs = r.segs := w1.2.2.2.2.2.2.2.1
  obtain ⟨_, _, _, f3, _⟩ := recv_flushes_naks r1.naks.length r1 t w2 (Nat.le_refl _)
  rw [hwf] at hsup
  unfold senderRound
  obtain ⟨k1, _, k3⟩ := naks_arrive s.st nk s tS hs hk
  generalize hs1 : deliverS s tS nk = s1 at k1 k3
  have hfile1 : s1.file = s.file := by simp only [Send.State.file, k1.st]
  obtain ⟨_, _, _, g4, _⟩ := send_flushes_queue s1.naks s1 tS k1.good k1.act k1.pr k1.eofSent rfl
  rw [hfile1] at g4
  intro x hx hnx
  rw [← hsegs1] at hnx
  obtain ⟨e1, e2, e3⟩ := C08_exact r1 s.file.length hrg1.data.inv hrg1.size
  obtain ⟨q, hq1, hq3, hq4⟩ := (e2 x).mpr ⟨hx, hnx⟩
  have hq2 := (e3 q hq1).1
  have hqn : q ∈ r1.naks := by rw [w3, e1]; exact List.mem_append_right _ hq1
  obtain ⟨pdu, hpdu, nk', hnk, hmem⟩ := f3 q hqn
  have hsz : s.md.fileSize = s.file.length := hs.good.size
  obtain ⟨pc, hpc, hpc1, hpc2⟩ := splitRequest_cover s.cfg.seg s.md.fileSize hs.good.seg.1 q hq2 x hq3 (by rw [hsz]; omega)
  have hin : pc ∈ s1.naks := k3 pdu (hsup pdu hpdu) nk' hnk q hmem pc hpc
  have hok := k1.good.naks pc hin
  obtain ⟨ans, hans, hd, hh⟩ := g4 pc hin (by omega)
  have hpc3 : pc.2 ≤ s.file.length := by
    rcases hok with ⟨c1, c2⟩ | ⟨_, c2, _⟩
    · omega
    · rw [hfile1] at c2; exact c2
  refine ⟨ans, hans, pc.1, (s.file.drop pc.1).take (pc.2 - pc.1), by rw [hh], hpc1, ?_⟩
  simp only [List.length_take, List.length_drop]; omega

/-- one round of the two-party NAK loop: the receiver's wake-up at `t`, the sender's clock reading `tS`, the NAK PDUs
the link lets through, what it lets through of the sender's transmissions (with the clock readings of the
deliveries), and whether the round is declared clean -/
structure Round2 where
  t : Nat
  tS : Nat
  nk : List Pdu
  ds : List (Nat × Pdu)
  clean : Bool

/-- the NAK loop of both transactions over a lossy link -/
def twoRounds : Send.State → Recv.State → List Round2 → Send.State × Recv.State
  | s, r, [] => (s, r)
  | s, r, rd :: rest =>
    if r.recvState = .Finished then (s, r)
    else twoRounds (senderRound s rd.tS rd.nk).1 (deliverAll (wakeFlush r rd.t).1 rd.ds) rest

/-- a fair lossy schedule of the two-party loop: the clock conditions of `Fair`; the NAKs delivered are NAKs the receiver
transmitted in that round, the PDUs delivered to the receiver are PDUs the sender transmitted in that round; in a round
declared clean nothing is lost -/
def Fair2 (m Ti Tn : Nat) : Nat → Nat → Nat → Send.State → Recv.State → List Round2 → Prop
  | _, _, _, _, _, [] => True
  | tp, j, a, s, r, rd :: rest =>
    r.recvState = .Finished ∨
    (tp + Tn ≤ rd.t ∧ rd.t < tp + 2 * Tn ∧ ((r.nakReceived == r.received) = true → j + 1 < m) ∧
     a ≤ rd.t ∧ rd.t < a + m * Ti ∧
     (∀ p ∈ rd.nk, p ∈ (wakeFlush r rd.t).2) ∧
     (∀ x ∈ rd.ds, x.2 ∈ (senderRound s rd.tS rd.nk).2) ∧
     (rd.clean = true → (∀ p ∈ (wakeFlush r rd.t).2, p ∈ rd.nk) ∧
        (∀ q ∈ (senderRound s rd.tS rd.nk).2, q ∈ rd.ds.map (·.2))) ∧
     Fair2 m Ti Tn rd.t (if (r.nakReceived == r.received) then j + 1 else 0) (lastTime rd.ds a)
       (senderRound s rd.tS rd.nk).1 (deliverAll (wakeFlush r rd.t).1 rd.ds) rest)

theorem twoRounds_fg (s : Send.State) (r : Recv.State) (h : FG r) (rounds : List Round2) : (twoRounds s r rounds).2 = r := by
  cases rounds with
  | nil => rfl
  | cons a rest => simp only [twoRounds, h.1, if_true]

/-- **C02 (the two-party NAK loop under fair loss).**  The sender has sent its EOF and is able to answer (`SQ`); the
receiver is in mid-recovery with respect to the sender's file, with nothing to transmit.  They go through rounds of the
NAK loop over a link that, in each round, lets through any part of the receiver's NAK PDUs and any part - in any
order, with any duplicates - of what the sender transmits in answer, under the fairness condition of `Fair` (rounds
paced by the NAK timer, fewer than `limit - 1` fruitless rounds in a row, no round `limit` inactivity periods after
the last delivery).  If in some round nothing is lost, the delivery has succeeded at the end: Finished / NoError /
Complete / Retained.  (The sender's own timers are not part of this run: its inactivity limit while it waits for
NAKs is C03 / C17.) -/
theorem C02_two_party_nak_loop {m Ta Ti Tn : Nat} {md : Recv.Meta} {fs0 : Fs.FS}
    (rounds : List Round2) (s : Send.State) (r : Recv.State) (tp j a : Nat)
    (hs : SQ s.st s) (h : RG s.file md fs0 r) (w : WN m Ta Ti Tn r) (hmax : 0 < m) (nb : NB tp j r)
    (ib : IB Ti a (max a tp) r.timer.inactivity)
    (hft : md.srcName.isEmpty = false) (hfs : (fs0.writeFile (Fs.relOf md.dstName) s.file).isSome = true)
    (hinc : ∃ x, x < s.file.length ∧ ¬ Seg.cov r.segs x) (hf : Fair2 m Ti Tn tp j a s r rounds)
    (hclean : ∃ rd ∈ rounds, rd.clean = true) :
    FG (twoRounds s r rounds).2 := by
  induction rounds generalizing s r tp j a with
  | nil => obtain ⟨rd, hrd, _⟩ := hclean; cases hrd
  | cons rd rest ih =>
    have hnf : ¬ r.recvState = .Finished := by rw [h.rd]; intro hc; cases hc
    simp only [twoRounds, hnf, if_false]
    simp only [Fair2] at hf
    rcases hf with hf | ⟨h1, h2, h3, h4, h5, hnk, hds, hcl, hf⟩
    · exact absurd hf hnf
    obtain ⟨⟨hdue, hroom, hil⟩, a1, a2, a3, a4, _, a6, a7⟩ := fair_wake r rd.t tp j a h w hmax nb ib hinc h1 h2 h3 h4 h5
    -- the sender's half
    obtain ⟨q1, q2⟩ := sq_round s.st s rd.tS rd.nk hs (fun p hp => a7 p (hnk p hp))
    have hst : (senderRound s rd.tS rd.nk).1.st = s.st := q1.st
    have hfile : (senderRound s rd.tS rd.nk).1.file = s.file := by simp only [Send.State.file, hst]
    have hd : ∀ x ∈ rd.ds, RPdu s.file x.2 := fun x hx => q2 x.2 (hds x hx)
    have hmx : 0 < r.timer.nak.max := by rw [w.rt.nak.2.2.1]; exact hmax
    rcases wn_deliverAll rd.ds (wakeFlush r rd.t).1 a1 a2 hd hft hfs a3 with hfg | ⟨b1, _, ⟨x, hx, hnx⟩, _, _, _, b6, b7, _⟩
    · rw [twoRounds_fg _ _ hfg]; exact hfg
    · by_cases hc : rd.clean = true
      · -- a clean round leaves nothing missing
        exfalso
        obtain ⟨c1, c2⟩ := hcl hc
        have hsegs : (wakeFlush r rd.t).1.segs = r.segs :=
          (wake_flush r rd.t s.file md fs0 h w hdue hroom hmx hil hinc).2.2.1
        by_cases hcv : Seg.cov r.segs x
        · exact hnx (b6 x (by rw [hsegs]; exact hcv))
        · have hcar := clean_round_carries s r rd.t rd.tS md fs0 hs h w hdue hroom hmx hil hinc rd.nk
            (fun p hp => a7 p (hnk p hp)) c1 x hx hcv
          obtain ⟨p, hp, off, d, e1, e2, e3⟩ := hcar
          exact hnx (b7 x ⟨p, c2 p hp, off, d, e1, e2, e3⟩)
      · -- a lossy round: go on
        rcases fair_deliver _ rd.t _ a rd.ds a1 a2 a4 a6 a3 hd hft hfs with hfg | ⟨d1, d2, d0, d3, d4⟩
        · rw [twoRounds_fg _ _ hfg]; exact hfg
        · have hs' : SQ (senderRound s rd.tS rd.nk).1.st (senderRound s rd.tS rd.nk).1 := by rw [hst]; exact q1
          refine ih _ _ rd.t _ (lastTime rd.ds a) hs' (by rw [hfile]; exact d1) d2 d3 d4 (by rw [hfile]; exact hfs)
            (by rw [hfile]; exact d0) hf ?_
          obtain ⟨rd', hrd', hc'⟩ := hclean
          rcases List.mem_cons.mp hrd' with e | e
          · subst e; exact absurd hc' hc
          · exact ⟨rd', e, hc'⟩

/-! ### the premises are satisfiable -/

/-- the receiver of `exRL` after a first round in which all of its NAK PDUs are lost -/
def exRL1 : Recv.State := deliverAll (wakeFlush exRL 1000000001).1 []
/-- the sender of `exS` after that round (nothing reached it) -/
def exS1 : Send.State := (senderRound exS 1000000002 []).1
/-- two rounds: the receiver's NAKs are lost; nothing is lost -/
def exRounds2 : List Round2 :=
  [⟨1000000001, 1000000002, [], [], false⟩,
   ⟨2000000001, 2000000002, (wakeFlush exRL1 2000000001).2,
     (senderRound exS1 2000000002 (wakeFlush exRL1 2000000001).2).2.map (fun q => (2000000003, q)), true⟩]

example : FG (twoRounds exS exRL exRounds2).2 := by
  have hmd : exRL.md = some { srcName := [115], dstName := [100], fileSize := 6, closure := false, cksumType := .Null, requests := [] } := by
    rfl
  have hsegs : exRL.segs = [(0, 4)] := by decide
  have htmp : exRL.tempFile = some [1, 2, 3, 4] := by decide
  have hri : RI cfgL.max (cfgL.ta * 1000000000) (cfgL.ti * 1000000000) (cfgL.tn * 1000000000) exRL :=
    ri_run _ _ (ri_new cfgL [([], .dir)] 0 (by decide) (by decide) (by decide) ⟨by decide, by decide, by decide⟩)
  refine C02_two_party_nak_loop (m := 4) (Ta := 1000000000) (Ti := 3000000000) (Tn := 1000000000)
    (fs0 := exRL.fs) exRounds2 exS exRL 1 0 0
    ⟨good_run _ (Send.good_new Send.exCfg Send.exMd Send.exFile 0 rfl (by decide)) _, by decide, by decide, by decide,
      by decide, rfl⟩
    ⟨by decide, by decide, by decide, hmd, by decide, by decide, by decide, ?_, rfl⟩
    ⟨by decide, by decide, hri.inv.rt, by decide, by decide⟩ (by decide)
    ⟨by decide, by decide, by decide, by decide⟩ ⟨by decide, by decide, by decide⟩ (by decide) (by decide) ?_ ?_
    ⟨_, List.mem_cons_of_mem _ (List.mem_cons_self ..), rfl⟩
  · refine ⟨?_, ?_, ?_, ?_⟩
    · rw [hsegs]; exact ⟨fun sg hsg => by simp at hsg; subst hsg; decide, by simp⟩
    · rw [hsegs]; intro sg hsg; simp at hsg; subst hsg; decide
    · rw [htmp]; decide
    · rw [hsegs, htmp]
      intro x hx
      obtain ⟨sg, hsg, h1, h2⟩ := hx
      simp at hsg; subst hsg
      have : x = 0 ∨ x = 1 ∨ x = 2 ∨ x = 3 := by simp only at h1 h2; omega
      rcases this with rfl | rfl | rfl | rfl <;> rfl
  · rw [hsegs]
    refine ⟨4, by decide, ?_⟩
    rintro ⟨sg, hsg, h1, h2⟩
    simp at hsg; subst hsg
    simp only at h1 h2; omega
  · -- the schedule is fair
    simp only [exRounds2, Fair2]
    refine Or.inr ⟨by decide, by decide, by decide, by decide, by decide, (fun p hp => by cases hp), (fun x hx => by cases hx),
      (fun hc => by cases hc), ?_⟩
    refine Or.inr ⟨by decide, by decide, by decide, by decide, by decide, (fun p hp => hp), ?_, (fun _ => ⟨fun p hp => hp, ?_⟩), trivial⟩
    · intro x hx
      obtain ⟨q, hq, rfl⟩ := List.mem_map.mp hx
      exact hq
    · intro q hq
      simp only [List.map_map]
      exact List.mem_map.mpr ⟨q, hq, rfl⟩

end Cfdp.Loop

#print axioms Cfdp.Loop.C02_two_party_nak_loop
#print axioms Cfdp.Loop.C02_lossy_rounds
#print axioms Cfdp.Loop.C02_lossy_rounds_fair
#print axioms Cfdp.Loop.C02_lost_eof_round
#print axioms Cfdp.Loop.C02_lost_finished_round
#print axioms Cfdp.Loop.C02_lost_metadata_round
#print axioms Cfdp.Loop.C02_timer_round
#print axioms Cfdp.Loop.C02_full_round
#print axioms Cfdp.Loop.C02_full_round_after_wake
#print axioms Cfdp.Loop.C02_sender_answers_nak
#print axioms Cfdp.Loop.C02_receiver_recovers
#print axioms Cfdp.Loop.C02_recovery_round
#print axioms Cfdp.Net.C02_two_party_completes
#print axioms Cfdp.Loop.C02_recv_completes
#print axioms Cfdp.Loop.C02_send_completes
#print axioms Cfdp.Net.C02_two_party_no_integrity_fault
#print axioms Cfdp.Loop.C02_no_integrity_fault
#print axioms Cfdp.Recv.C02_size_check_passes
#print axioms Cfdp.Seg.C02_round_completes
#print axioms Cfdp.Seg.C02_gaps_answered
#print axioms Cfdp.Recv.C02_finishes_when_complete
#print axioms Cfdp.Recv.C02_never_waits_complete
#print axioms Cfdp.Recv.C02_complete_is_success
