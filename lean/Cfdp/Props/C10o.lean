import Cfdp.Props.C10n
import Cfdp.Props.C07

/-! # C10, two parties: the cancel handshake over a link that loses nothing (composition of the step lemmas of `Props/C10n.lean`) -/

namespace Cfdp.Net
open Cfdp.Loop Cfdp.Codec Cfdp.Gen

/-- the cancel handshake started by the sending user at clock reading `t` over a link that loses
nothing from then on; `n` / `m` = the PDUs the link has carried so far towards the receiver / the
sender: Cancel.request; the sender transmits (the EOF with the cancel condition); it is delivered; the
receiver transmits twice (ACK of the EOF, Finished); the Finished PDU is delivered; the sender
transmits (ACK of Finished); it is delivered -/
def senderCancelActs (t n m : Nat) : List Act :=
  [.sender t .cancel, .sender t .send, .deliverR t n, .receiver t .send, .receiver t .send,
   .deliverS t (m + 1), .sender t .send, .deliverR t (n + 1)]

theorem getElem?_two_last {α : Type} (l : List α) (a b : α) : (l ++ [a] ++ [b])[l.length + 1]? = some b := by
  have : l.length + 1 = (l ++ [a]).length := by simp
  rw [this]; exact List.getElem?_concat_length

/-- **C10 (two parties, the sending user cancels).**  In acknowledged mode, from ANY pair of live
states - whatever history of the transfer led to them - the cancel handshake over a link that loses
nothing ends both transactions, both with the cancel condition: the sender's Finished indication and
the receiver's carry CancelReceived, and the receiver's filestore is as it was when the cancel
took effect (with `C10_no_partial`: no partial file under the destination name). -/
theorem C10_two_party_sender_cancel (w : World) (t : Nat)
    (hs : w.snd.state = .Active) (hsm : w.snd.cfg.mode = .Acknowledged) (hsp : w.snd.prompt = none)
    (hr : w.rcv.state = .Active) (hrm : w.rcv.cfg.mode = .Acknowledged) (hrp : w.rcv.prompt = none) :
    (run w (senderCancelActs t w.toR.length w.toS.length)).snd.state = .Terminated ∧
    (run w (senderCancelActs t w.toR.length w.toS.length)).rcv.state = .Terminated ∧
    (run w (senderCancelActs t w.toR.length w.toS.length)).snd.condition = .CancelReceived ∧
    (run w (senderCancelActs t w.toR.length w.toS.length)).rcv.condition = .CancelReceived ∧
    (run w (senderCancelActs t w.toR.length w.toS.length)).rcv.fs = w.rcv.fs ∧
    (∃ d f st stt rs, Send.Ind.finished .CancelReceived d f st stt rs ∈
      (run w (senderCancelActs t w.toR.length w.toS.length)).indS) ∧
    (∃ d f st stt, Recv.Ind.finished .CancelReceived d f st stt [] ∈
      (run w (senderCancelActs t w.toR.length w.toS.length)).indR) := by
  -- sender: cancel, transmit
  obtain ⟨a1, a2, a3, a4, a5, hE, e, a6, a7⟩ := cancel_then_send w.snd t hs hsp
  have a0 := cancel_sent_none w.snd t hs
  generalize hs1 : sendStep w.snd t .cancel = s1 at a0 a1 a2 a3 a4 a5 a6
  generalize hs2 : sendStep s1 t .send = s2 at a1 a2 a3 a4 a5 a6
  have hmode2 : s2.cfg.mode = .Acknowledged := by show s2.st.cfg.mode = _; rw [a5]; exact hsm
  -- receiver: the EOF arrives
  obtain ⟨b1, b2, b3, b4, b5, b6, ⟨ak, b7⟩, ⟨f, b8, b9⟩, b10, b11⟩ :=
    recv_gets_cancel_eof w.rcv t ⟨hE, .eof e⟩ e hr hrm rfl (by rw [a7]; decide)
  generalize hr3 : recvStep w.rcv t (.pdu ⟨hE, .eof e⟩) = r3 at b1 b2 b3 b4 b5 b6 b7 b8 b10 b11
  -- receiver transmits twice
  obtain ⟨⟨hA, c1⟩, ⟨hF, c2⟩, c3, c4, c5, c6, c7⟩ :=
    recv_sends_ack_then_finished r3 t ak f b1 b2 (by rw [b4]; exact hrp) b7 b8
  generalize hr4 : recvStep r3 t .send = r4 at c1 c2 c3 c4 c5 c6 c7
  generalize hr5 : recvStep r4 t .send = r5 at c2 c3 c4 c5 c6 c7
  -- sender: the Finished PDU arrives, then the ACK goes out
  obtain ⟨d1, d2, d3, d4, d5, ⟨af, d6, d7, d8⟩, d9, d10⟩ :=
    send_gets_finished s2 t ⟨hF, .finished f⟩ f a1 hmode2 a2 rfl
  generalize hs6 : sendStep s2 t (.pdu ⟨hF, .finished f⟩) = s6 at d1 d2 d3 d4 d5 d6 d9 d10
  obtain ⟨⟨hK, g1⟩, g2, g3⟩ := send_acks_finished s6 t af d1 d2 (by rw [d4]; exact a4) d6
  generalize hs7 : sendStep s6 t .send = s7 at g1 g2 g3
  -- receiver: the ACK of Finished arrives
  have hm5 : r5.cfg.mode = .Acknowledged := by rw [c6, b5]; exact hrm
  obtain ⟨k1, k2, k3⟩ := recv_gets_ack_finished r5 t ⟨hK, .ack af⟩ af c3 hm5 c4 rfl d7 d8
  generalize hr8 : recvStep r5 t (.pdu ⟨hK, .ack af⟩) = r8 at k1 k2 k3
  -- the run, world by world
  have e1 : step w (.sender t .cancel) = (World.mk s1 w.rcv (w.toR) (w.toS) (w.indS ++ s1.out) (w.indR)) := by
    simp only [step, isLocal, if_true, sndStep, hs1, a0, Option.toList, List.append_nil]
  have e2 : step (World.mk s1 w.rcv (w.toR) (w.toS) (w.indS ++ s1.out) (w.indR)) (.sender t .send) = (World.mk s2 w.rcv (w.toR ++ [⟨hE, .eof e⟩]) (w.toS) (w.indS ++ s1.out ++ s2.out) (w.indR)) := by
    simp only [step, isLocal, if_true, sndStep, hs2, a6, Option.toList]
  have e3 : step (World.mk s2 w.rcv (w.toR ++ [⟨hE, .eof e⟩]) (w.toS) (w.indS ++ s1.out ++ s2.out) (w.indR)) (.deliverR t w.toR.length) = (World.mk s2 r3 (w.toR ++ [⟨hE, .eof e⟩]) (w.toS) (w.indS ++ s1.out ++ s2.out) (w.indR ++ r3.out)) := by
    simp only [step, List.getElem?_concat_length, rcvStep, hr3, b11, Option.toList, List.append_nil]
  have e4 : step (World.mk s2 r3 (w.toR ++ [⟨hE, .eof e⟩]) (w.toS) (w.indS ++ s1.out ++ s2.out) (w.indR ++ r3.out)) (.receiver t .send) = (World.mk s2 r4 (w.toR ++ [⟨hE, .eof e⟩]) (w.toS ++ [⟨hA, .ack ak⟩]) (w.indS ++ s1.out ++ s2.out) (w.indR ++ r3.out ++ r4.out)) := by
    simp only [step, isLocal, if_true, rcvStep, hr4, c1, Option.toList]
  have e5 : step (World.mk s2 r4 (w.toR ++ [⟨hE, .eof e⟩]) (w.toS ++ [⟨hA, .ack ak⟩]) (w.indS ++ s1.out ++ s2.out) (w.indR ++ r3.out ++ r4.out)) (.receiver t .send) = (World.mk s2 r5 (w.toR ++ [⟨hE, .eof e⟩]) (w.toS ++ [⟨hA, .ack ak⟩] ++ [⟨hF, .finished f⟩]) (w.indS ++ s1.out ++ s2.out) (w.indR ++ r3.out ++ r4.out ++ r5.out)) := by
    simp only [step, isLocal, if_true, rcvStep, hr5, c2, Option.toList]
  have e6 : step (World.mk s2 r5 (w.toR ++ [⟨hE, .eof e⟩]) (w.toS ++ [⟨hA, .ack ak⟩] ++ [⟨hF, .finished f⟩]) (w.indS ++ s1.out ++ s2.out) (w.indR ++ r3.out ++ r4.out ++ r5.out)) (.deliverS t (w.toS.length + 1)) = (World.mk s6 r5 (w.toR ++ [⟨hE, .eof e⟩]) (w.toS ++ [⟨hA, .ack ak⟩] ++ [⟨hF, .finished f⟩]) (w.indS ++ s1.out ++ s2.out ++ s6.out) (w.indR ++ r3.out ++ r4.out ++ r5.out)) := by
    simp only [step, getElem?_two_last, sndStep, hs6, d10, Option.toList, List.append_nil]
  have e7 : step (World.mk s6 r5 (w.toR ++ [⟨hE, .eof e⟩]) (w.toS ++ [⟨hA, .ack ak⟩] ++ [⟨hF, .finished f⟩]) (w.indS ++ s1.out ++ s2.out ++ s6.out) (w.indR ++ r3.out ++ r4.out ++ r5.out)) (.sender t .send) = (World.mk s7 r5 (w.toR ++ [⟨hE, .eof e⟩] ++ [⟨hK, .ack af⟩]) (w.toS ++ [⟨hA, .ack ak⟩] ++ [⟨hF, .finished f⟩]) (w.indS ++ s1.out ++ s2.out ++ s6.out ++ s7.out) (w.indR ++ r3.out ++ r4.out ++ r5.out)) := by
    simp only [step, isLocal, if_true, sndStep, hs7, g1, Option.toList]
  have e8 : step (World.mk s7 r5 (w.toR ++ [⟨hE, .eof e⟩] ++ [⟨hK, .ack af⟩]) (w.toS ++ [⟨hA, .ack ak⟩] ++ [⟨hF, .finished f⟩]) (w.indS ++ s1.out ++ s2.out ++ s6.out ++ s7.out) (w.indR ++ r3.out ++ r4.out ++ r5.out)) (.deliverR t (w.toR.length + 1)) = (World.mk s7 r8 (w.toR ++ [⟨hE, .eof e⟩] ++ [⟨hK, .ack af⟩]) (w.toS ++ [⟨hA, .ack ak⟩] ++ [⟨hF, .finished f⟩]) (w.indS ++ s1.out ++ s2.out ++ s6.out ++ s7.out) (w.indR ++ r3.out ++ r4.out ++ r5.out ++ r8.out)) := by
    have hsent : r8.sent = none := by
      rw [← hr8, recvStep_eq]
      have hnt : ((clrR r5).state == TransactionState.Terminated) = false := by
        show (r5.state == TransactionState.Terminated) = false; rw [c3]; rfl
      simp only [hnt, Bool.false_eq_true, if_false, Recv.sent_processPdu]
      rfl
    simp only [step, getElem?_two_last, rcvStep, hr8, hsent, Option.toList, List.append_nil]
  have hrun : run w (senderCancelActs t w.toR.length w.toS.length) = (World.mk s7 r8 (w.toR ++ [⟨hE, .eof e⟩] ++ [⟨hK, .ack af⟩]) (w.toS ++ [⟨hA, .ack ak⟩] ++ [⟨hF, .finished f⟩]) (w.indS ++ s1.out ++ s2.out ++ s6.out ++ s7.out) (w.indR ++ r3.out ++ r4.out ++ r5.out ++ r8.out)) := by
    simp only [run, senderCancelActs, List.foldl, e1, e2, e3, e4, e5, e6, e7, e8]
  rw [hrun]
  refine ⟨g2, k1, by rw [g3, d3, b9, a7], by rw [k2, c5, b3, a7], by rw [k3, c7, b6], ?_, ?_⟩
  · obtain ⟨d, fs', st, stt, rs, hmem⟩ := d9
    rw [b9, a7] at hmem
    exact ⟨d, fs', st, stt, rs, List.mem_append_left _ (List.mem_append_right _ hmem)⟩
  · obtain ⟨d, fs', st, stt, hmem⟩ := b10
    rw [a7] at hmem
    refine ⟨d, fs', st, stt, ?_⟩
    simp only [List.mem_append]
    exact Or.inl (Or.inl (Or.inl (Or.inr hmem)))

end Cfdp.Net

#print axioms Cfdp.Net.C10_two_party_sender_cancel

namespace Cfdp.Net
open Cfdp.Loop Cfdp.Codec Cfdp.Gen

/-- the receiving user's Cancel.request (acknowledged mode) -/
theorem recv_cancel_step (r : Recv.State) (t : Nat) (ha : r.state = .Active) (hm : r.cfg.mode = .Acknowledged) :
    (recvStep r t .cancel).state = .Active ∧ (recvStep r t .cancel).recvState = .Cancelled ∧
    (recvStep r t .cancel).condition = .CancelReceived ∧ (recvStep r t .cancel).prompt = r.prompt ∧
    (recvStep r t .cancel).ack = r.ack ∧ (recvStep r t .cancel).cfg = r.cfg ∧ (recvStep r t .cancel).fs = r.fs ∧
    (recvStep r t .cancel).sent = none ∧
    (∃ f, (recvStep r t .cancel).finished = some (f, true) ∧ f.cond = .CancelReceived) ∧
    (∃ d fsn st stt, Recv.Ind.finished .CancelReceived d fsn st stt [] ∈ (recvStep r t .cancel).out) := by
  have hnt : ((clrR r).state == TransactionState.Terminated) = false := by
    show (r.state == TransactionState.Terminated) = false; rw [ha]; rfl
  have e1 : recvStep r t .cancel = Recv.cancelInner { clrR r with condition := .CancelReceived } t := by
    rw [recvStep_eq]; simp only [hnt, Bool.false_eq_true, if_false, Recv.cancel]
  rw [e1]
  have hqm : ({ clrR r with condition := .CancelReceived } : Recv.State).cfg.mode = .Acknowledged := hm
  obtain ⟨c1, c2, c3⟩ := (Recv.cancelInner_cases { clrR r with condition := .CancelReceived } t).1 hqm
  refine ⟨by rw [c2]; exact ha, Recv.recvState_cancelInner _ t, by rw [Recv.condition_cancelInner],
    by rw [Recv.prompt_cancelInner]; rfl, by rw [Recv.ack_cancelInner]; rfl, by rw [Recv.cfg_cancelInner]; rfl,
    by rw [Recv.fs_cancelInner]; rfl, by rw [Recv.sent_cancelInner]; rfl, ⟨_, c1, rfl⟩, ?_⟩
  rw [c3]
  exact ⟨_, _, _, _, List.mem_append_right _ (List.mem_singleton.mpr rfl)⟩

/-- receiver in the Cancelled phase with no ACK to send: its next transmission is the Finished PDU -/
theorem recv_sends_finished (r : Recv.State) (t : Nat) (f : Finished) (ha : r.state = .Active)
    (hc : r.recvState = .Cancelled) (hp : r.prompt = none) (hack : r.ack = none) (hf : r.finished = some (f, true)) :
    (∃ h, (recvStep r t .send).sent = some ⟨h, .finished f⟩) ∧
    (recvStep r t .send).state = .Active ∧ (recvStep r t .send).recvState = .Cancelled ∧
    (recvStep r t .send).condition = r.condition ∧ (recvStep r t .send).cfg = r.cfg ∧ (recvStep r t .send).fs = r.fs := by
  have hnt : ((clrR r).state == TransactionState.Terminated) = false := by
    show (r.state == TransactionState.Terminated) = false; rw [ha]; rfl
  have hns : ((clrR r).state == TransactionState.Suspended) = false := by
    show (r.state == TransactionState.Suspended) = false; rw [ha]; rfl
  have j1 : (clrR r).recvState = .Cancelled := hc
  have j2 : (clrR r).prompt = none := hp
  have j3 : (clrR r).ack = none := hack
  have j4 : (clrR r).finished = some (f, true) := hf
  have hhas : Recv.hasPduToSend (clrR r) = true := by
    simp only [Recv.hasPduToSend, hns, Bool.false_eq_true, if_false, j1, j4]
  have e2 : recvStep r t .send = Recv.sendFinished (clrR r) t := by
    rw [recvStep_eq]
    simp only [hnt, Bool.false_eq_true, if_false, hhas, if_true, Recv.sendPdu, j2, Option.isSome_none, j1, j3, j4]
  rw [e2]
  refine ⟨?_, ?_, ?_, ?_, ?_, ?_⟩
  · have : (Recv.sendFinished (clrR r) t) = Recv.setFinishedFlag (Recv.sendPayload
        { clrR r with timer := { (clrR r).timer with ack := (clrR r).timer.ack.restart t } } (.finished f)) false := by
      simp only [Recv.sendFinished, j4]
    rw [this]
    simp only [Recv.setFinishedFlag, Recv.finished_sendPayload, j4]
    exact ⟨_, rfl⟩
  · rw [Recv.state_sendFinished]; exact ha
  · rw [Recv.recvState_sendFinished]; exact hc
  · rw [Recv.condition_sendFinished]; rfl
  · rw [Recv.cfg_sendFinished]; rfl
  · rw [Recv.fs_sendFinished]; rfl

/-- sender (acknowledged mode, any phase): a Finished PDU arrives -/
theorem send_gets_finished_any (s : Send.State) (t : Nat) (p : Pdu) (f : Finished) (ha : s.state = .Active)
    (hm : s.cfg.mode = .Acknowledged) (hp : p.payload = .finished f) :
    (sendStep s t (.pdu p)).state = .Active ∧ (sendStep s t (.pdu p)).sendState = .Finished ∧
    (sendStep s t (.pdu p)).condition = f.cond ∧ (sendStep s t (.pdu p)).prompt = s.prompt ∧
    (sendStep s t (.pdu p)).st = s.st ∧
    (∃ a, (sendStep s t (.pdu p)).ack = some a ∧ a.directive = .Finished ∧ a.sub = .Finished) ∧
    (∃ d fsn st stt rs, Send.Ind.finished f.cond d fsn st stt rs ∈ (sendStep s t (.pdu p)).out) ∧
    (sendStep s t (.pdu p)).sent = none := by
  have hnt : ((clrS s).state == TransactionState.Terminated) = false := by
    show (s.state == TransactionState.Terminated) = false; rw [ha]; rfl
  generalize hq : Send.pduArrived (clrS s) t = q
  have q1 : q.state = s.state := by rw [← hq, Send.state_pduArrived]; rfl
  have q2 : q.prompt = s.prompt := by rw [← hq, Send.prompt_pduArrived]; rfl
  have q3 : q.st = s.st := by rw [← hq, Send.st_pduArrived]; rfl
  have q4 : q.sent = none := by rw [← hq, Send.sent_pduArrived]; rfl
  have q5 : q.out = [] := by rw [← hq, Send.out_pduArrived]; rfl
  have hm' : q.cfg.mode = .Acknowledged := by show q.st.cfg.mode = _; rw [q3]; exact hm
  rw [sendStep_eq]
  simp only [hnt, Bool.false_eq_true, if_false, Send.processPdu, hq, Send.processPduBody, hm', hp, Send.emit]
  refine ⟨?_, ?_, ?_, ?_, ?_, ?_, ?_, ?_⟩
  all_goals first
    | trivial
    | (rw [q1]; exact ha)
    | exact q2
    | exact q3
    | exact q4
    | rfl
    | exact ⟨_, rfl, rfl, rfl⟩
    | exact ⟨_, _, _, _, _, List.mem_append_right _ (List.mem_singleton.mpr rfl)⟩
    | (simp; done)

/-- the cancel handshake started by the receiving user over a link that loses nothing from then on:
Cancel.request; the receiver transmits (the Finished PDU with the cancel condition); it is delivered;
the sender transmits (ACK of Finished); it is delivered -/
def receiverCancelActs (t n m : Nat) : List Act :=
  [.receiver t .cancel, .receiver t .send, .deliverS t m, .sender t .send, .deliverR t n]

/-- **C10 (two parties, the receiving user cancels).**  In acknowledged mode, from any pair of live
states (the receiver with no ACK of an EOF waiting to go out), the handshake over a link that loses
nothing ends both transactions with the cancel condition, the receiver's filestore untouched. -/
theorem C10_two_party_receiver_cancel (w : World) (t : Nat)
    (hs : w.snd.state = .Active) (hsm : w.snd.cfg.mode = .Acknowledged) (hsp : w.snd.prompt = none)
    (hr : w.rcv.state = .Active) (hrm : w.rcv.cfg.mode = .Acknowledged) (hrp : w.rcv.prompt = none)
    (hra : w.rcv.ack = none) :
    (run w (receiverCancelActs t w.toR.length w.toS.length)).snd.state = .Terminated ∧
    (run w (receiverCancelActs t w.toR.length w.toS.length)).rcv.state = .Terminated ∧
    (run w (receiverCancelActs t w.toR.length w.toS.length)).snd.condition = .CancelReceived ∧
    (run w (receiverCancelActs t w.toR.length w.toS.length)).rcv.condition = .CancelReceived ∧
    (run w (receiverCancelActs t w.toR.length w.toS.length)).rcv.fs = w.rcv.fs ∧
    (∃ d f st stt rs, Send.Ind.finished .CancelReceived d f st stt rs ∈
      (run w (receiverCancelActs t w.toR.length w.toS.length)).indS) ∧
    (∃ d f st stt, Recv.Ind.finished .CancelReceived d f st stt [] ∈
      (run w (receiverCancelActs t w.toR.length w.toS.length)).indR) := by
  obtain ⟨b1, b2, b3, b4, b5, b6, b7, b8, ⟨f, b9, b10⟩, b11⟩ := recv_cancel_step w.rcv t hr hrm
  generalize hr1 : recvStep w.rcv t .cancel = r1 at b1 b2 b3 b4 b5 b6 b7 b8 b9 b11
  obtain ⟨⟨hF, c1⟩, c2, c3, c4, c5, c6⟩ :=
    recv_sends_finished r1 t f b1 b2 (by rw [b4]; exact hrp) (by rw [b5]; exact hra) b9
  generalize hr2 : recvStep r1 t .send = r2 at c1 c2 c3 c4 c5 c6
  obtain ⟨d1, d2, d3, d4, d5, ⟨af, d6, d7, d8⟩, d9, d10⟩ :=
    send_gets_finished_any w.snd t ⟨hF, .finished f⟩ f hs hsm rfl
  generalize hs3 : sendStep w.snd t (.pdu ⟨hF, .finished f⟩) = s3 at d1 d2 d3 d4 d5 d6 d9 d10
  obtain ⟨⟨hK, g1⟩, g2, g3⟩ := send_acks_finished s3 t af d1 d2 (by rw [d4]; exact hsp) d6
  generalize hs4 : sendStep s3 t .send = s4 at g1 g2 g3
  have hm2 : r2.cfg.mode = .Acknowledged := by rw [c5, b6]; exact hrm
  obtain ⟨k1, k2, k3⟩ := recv_gets_ack_finished r2 t ⟨hK, .ack af⟩ af c2 hm2 c3 rfl d7 d8
  generalize hr5 : recvStep r2 t (.pdu ⟨hK, .ack af⟩) = r5 at k1 k2 k3
  have e1 : step w (.receiver t .cancel) = (World.mk w.snd r1 (w.toR) (w.toS) (w.indS) (w.indR ++ r1.out)) := by
    simp only [step, isLocal, if_true, rcvStep, hr1, b8, Option.toList, List.append_nil]
  have e2 : step (World.mk w.snd r1 (w.toR) (w.toS) (w.indS) (w.indR ++ r1.out)) (.receiver t .send) = (World.mk w.snd r2 (w.toR) (w.toS ++ [⟨hF, .finished f⟩]) (w.indS) (w.indR ++ r1.out ++ r2.out)) := by
    simp only [step, isLocal, if_true, rcvStep, hr2, c1, Option.toList]
  have e3 : step (World.mk w.snd r2 (w.toR) (w.toS ++ [⟨hF, .finished f⟩]) (w.indS) (w.indR ++ r1.out ++ r2.out)) (.deliverS t w.toS.length) = (World.mk s3 r2 (w.toR) (w.toS ++ [⟨hF, .finished f⟩]) (w.indS ++ s3.out) (w.indR ++ r1.out ++ r2.out)) := by
    simp only [step, List.getElem?_concat_length, sndStep, hs3, d10, Option.toList, List.append_nil]
  have e4 : step (World.mk s3 r2 (w.toR) (w.toS ++ [⟨hF, .finished f⟩]) (w.indS ++ s3.out) (w.indR ++ r1.out ++ r2.out)) (.sender t .send) = (World.mk s4 r2 (w.toR ++ [⟨hK, .ack af⟩]) (w.toS ++ [⟨hF, .finished f⟩]) (w.indS ++ s3.out ++ s4.out) (w.indR ++ r1.out ++ r2.out)) := by
    simp only [step, isLocal, if_true, sndStep, hs4, g1, Option.toList]
  have e5 : step (World.mk s4 r2 (w.toR ++ [⟨hK, .ack af⟩]) (w.toS ++ [⟨hF, .finished f⟩]) (w.indS ++ s3.out ++ s4.out) (w.indR ++ r1.out ++ r2.out)) (.deliverR t w.toR.length) = (World.mk s4 r5 (w.toR ++ [⟨hK, .ack af⟩]) (w.toS ++ [⟨hF, .finished f⟩]) (w.indS ++ s3.out ++ s4.out) (w.indR ++ r1.out ++ r2.out ++ r5.out)) := by
    have hsent : r5.sent = none := by
      rw [← hr5, recvStep_eq]
      have hnt : ((clrR r2).state == TransactionState.Terminated) = false := by
        show (r2.state == TransactionState.Terminated) = false; rw [c2]; rfl
      simp only [hnt, Bool.false_eq_true, if_false, Recv.sent_processPdu]
      rfl
    simp only [step, List.getElem?_concat_length, rcvStep, hr5, hsent, Option.toList, List.append_nil]
  have hrun : run w (receiverCancelActs t w.toR.length w.toS.length) = (World.mk s4 r5 (w.toR ++ [⟨hK, .ack af⟩]) (w.toS ++ [⟨hF, .finished f⟩]) (w.indS ++ s3.out ++ s4.out) (w.indR ++ r1.out ++ r2.out ++ r5.out)) := by
    simp only [run, receiverCancelActs, List.foldl, e1, e2, e3, e4, e5]
  rw [hrun]
  refine ⟨g2, k1, by rw [g3, d3, b10], by rw [k2, c4, b3], by rw [k3, c6, b7], ?_, ?_⟩
  · obtain ⟨d, fs', st, stt, rs, hmem⟩ := d9
    rw [b10] at hmem
    exact ⟨d, fs', st, stt, rs, List.mem_append_left _ (List.mem_append_right _ hmem)⟩
  · obtain ⟨d, fs', st, stt, hmem⟩ := b11
    refine ⟨d, fs', st, stt, ?_⟩
    simp only [List.mem_append]
    exact Or.inl (Or.inl (Or.inr hmem))

end Cfdp.Net

#print axioms Cfdp.Net.C10_two_party_receiver_cancel

namespace Cfdp.Net
open Cfdp.Loop Cfdp.Codec Cfdp.Gen

/-- the premises are satisfiable - a cancel in mid-transfer: the sender has transmitted Metadata and one
segment, the receiver has them; then either user cancels -/
example :
    let w := run (init Send.exCfg Send.exMd Send.exFile c04Cfg [([], .dir)] 0)
      [.sender 0 .send, .sender 0 .send, .deliverR 0 0, .deliverR 0 1]
    (run w (senderCancelActs 5 w.toR.length w.toS.length)).rcv.state = .Terminated ∧
    (run w (receiverCancelActs 5 w.toR.length w.toS.length)).snd.condition = .CancelReceived := by
  intro w
  exact ⟨(C10_two_party_sender_cancel w 5 rfl rfl rfl rfl rfl rfl).2.1,
    (C10_two_party_receiver_cancel w 5 rfl rfl rfl rfl rfl rfl rfl).2.2.1⟩

end Cfdp.Net

#print axioms Cfdp.Loop.C10_no_partial
#print axioms Cfdp.Loop.C10_cancel_freezes
#print axioms Cfdp.Recv.C10_recv_cancel
#print axioms Cfdp.Recv.C10_recv_peer_cancel
#print axioms Cfdp.Recv.C10_recv_cancel_ends
#print axioms Cfdp.Send.C10_send_cancel
#print axioms Cfdp.Send.C10_send_cancel_ends
