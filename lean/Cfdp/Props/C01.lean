import Cfdp.Props.C13
import Cfdp.Props.C04
import Cfdp.Props.C18
import Cfdp.Props.C20
import Cfdp.Tactic.Peel

/-!
# C01 — a file reported as delivered is byte-identical to the source file
-/
namespace Cfdp.Recv
open Cfdp.Codec Cfdp.Gen

/-! ### the staging file -/

theorem writeAt_length (f : Bytes) (off : Nat) (d : Bytes) :
    (writeAt f off d).length = max f.length (off + d.length) := by
  simp only [writeAt]
  split <;> simp only [List.length_append, List.length_take, List.length_drop, List.length_replicate] <;> omega

/-- reading back what `seek(off); write_all(d)` left: the new bytes inside the written range, the
old ones outside (holes created by seeking past the end read as zero) -/
theorem writeAt_get (f : Bytes) (off : Nat) (d : Bytes) (x : Nat) :
    (writeAt f off d)[x]? =
      if x < off then (if x < f.length then f[x]? else some 0)
      else if x < off + d.length then d[x - off]? else f[x]? := by
  simp only [writeAt]
  by_cases hlt : f.length < off
  · simp only [hlt, if_true]
    by_cases h1 : x < off
    · simp only [h1, if_true]
      rw [List.getElem?_append_left (by simp; omega), List.getElem?_append_left (by simp; omega)]
      rw [List.getElem?_take_of_lt h1]
      by_cases h2 : x < f.length
      · simp only [h2, if_true]; rw [List.getElem?_append_left h2]
      · simp only [h2, if_false]
        rw [List.getElem?_append_right (by omega), List.getElem?_replicate]
        simp; omega
    · simp only [h1, if_false]
      by_cases h3 : x < off + d.length
      · simp only [h3, if_true]
        rw [List.getElem?_append_left (by simp; omega), List.getElem?_append_right (by simp; omega)]
        simp only [List.length_take, List.length_append, List.length_replicate]
        congr 1; omega
      · simp only [h3, if_false]
        rw [List.getElem?_append_right (by simp; omega)]
        rw [List.getElem?_eq_none (by simp; omega), List.getElem?_eq_none (by omega)]
  · simp only [hlt, if_false]
    by_cases h1 : x < off
    · simp only [h1, if_true]
      have : x < f.length := by omega
      simp only [this, if_true]
      rw [List.getElem?_append_left (by simp; omega), List.getElem?_append_left (by simp; omega)]
      rw [List.getElem?_take_of_lt h1]
    · simp only [h1, if_false]
      by_cases h3 : x < off + d.length
      · simp only [h3, if_true]
        rw [List.getElem?_append_left (by simp; omega), List.getElem?_append_right (by simp; omega)]
        simp only [List.length_take]
        congr 1; omega
      · simp only [h3, if_false]
        rw [List.getElem?_append_right (by simp; omega)]
        simp only [List.length_append, List.length_take, List.getElem?_drop]
        congr 1; omega

/-- the staging file agrees with the source file `src` wherever the segment list says data is held,
and neither extends beyond the source -/
structure DataOk (src : Bytes) (s : State) : Prop where
  inv : Seg.Inv s.segs
  bound : ∀ sg ∈ s.segs, sg.2 ≤ src.length
  len : (s.tempFile.getD []).length ≤ src.length
  agree : ∀ x, Seg.cov s.segs x → (s.tempFile.getD [])[x]? = src[x]?

theorem dataOk_frame {src : Bytes} {s s' : State} (h : DataOk src s) (h1 : s'.segs = s.segs)
    (h2 : s'.tempFile = s.tempFile) : DataOk src s' := by
  refine ⟨?_, ?_, ?_, ?_⟩
  · rw [h1]; exact h.inv
  · rw [h1]; exact h.bound
  · rw [h2]; exact h.len
  · rw [h1, h2]; exact h.agree

/-- a file-data PDU that carries the bytes of `src` it claims to carry -/
def Truthful (src : Bytes) (off : Nat) (d : Bytes) : Prop :=
  off + d.length ≤ src.length ∧ ∀ i, i < d.length → d[i]? = src[off + i]?

theorem dataOk_storeFileData {src : Bytes} {s : State} (h : DataOk src s) (off : Nat) (d : Bytes)
    (ht : Truthful src off d) : DataOk src (storeFileData s off d) := by
  simp only [storeFileData]
  split
  · rename_i hlen
    have hab : off < off + d.length := by omega
    have hinv := Seg.merge_inv s.segs off (off + d.length) h.inv hab
    have hbd := Seg.merge_bounded s.segs off (off + d.length) src.length h.inv hab h.bound ht.1
    have hcov := Seg.merge_cov s.segs off (off + d.length) h.inv hab
    split
    · exact dataOk_frame h rfl rfl
    · refine ⟨hinv, hbd, ?_, ?_⟩
      · simp only [Option.getD_some, writeAt_length]
        have := h.len; have := ht.1; omega
      · intro x hx
        simp only [Option.getD_some, writeAt_get]
        rcases (hcov x).mp hx with hold | hnew
        · have ha := h.agree x hold
          by_cases h1 : x < off
          · simp only [h1, if_true]
            by_cases h2 : x < (s.tempFile.getD []).length
            · simp only [h2, if_true]; exact ha
            · -- covered bytes are inside the staging file
              exfalso
              have hb : x < src.length := by
                obtain ⟨sg, hsg, _, hx2⟩ := hold
                have := h.bound sg hsg; omega
              rw [List.getElem?_eq_none (by omega)] at ha
              have : src[x]? ≠ none := by rw [ne_eq, List.getElem?_eq_none_iff]; omega
              exact this ha.symm
          · simp only [h1, if_false]
            by_cases h3 : x < off + d.length
            · simp only [h3, if_true]
              have := ht.2 (x - off) (by omega)
              rw [this]; congr 1; omega
            · simp only [h3, if_false]; exact ha
        · have h1 : ¬ x < off := by omega
          simp only [h1, if_false, hnew.2, if_true]
          have := ht.2 (x - off) (by omega)
          rw [this]; congr 1; omega
  · exact h

/-- with everything below `src.length` covered, the staging file IS the source file -/
theorem dataOk_complete {src : Bytes} {s : State} (h : DataOk src s)
    (hc : Seg.isComplete s.segs src.length = true) : s.tempFile.getD [] = src := by
  have hall := (Seg.isComplete_iff s.segs src.length h.inv).mp hc
  apply List.ext_getElem?
  intro x
  by_cases hx : x < src.length
  · exact h.agree x (hall x hx)
  · rw [List.getElem?_eq_none (by have := h.len; omega), List.getElem?_eq_none (by omega)]

/-! ### the copy to the destination name -/

theorem verifyStage_keeps (s : State) (now : Nat) :
    (verifyStage s now).1.md = s.md ∧ (verifyStage s now).1.fs = s.fs ∧
    (verifyStage s now).1.fileStatus = s.fileStatus ∧
    (verifyStage s now).1.tempFile = some (s.tempFile.getD []) ∧
    (verifyStage s now).1.segs = s.segs ∧ (verifyStage s now).1.fileSize = s.fileSize := by
  refine ⟨md_verifyStage _ _, fs_verifyStage _ _, fileStatus_verifyStage _ _, ?_, segs_verifyStage _ _,
    fileSize_verifyStage _ _⟩
  simp only [verifyStage]
  repeat' split
  all_goals first
    | rw [tempFile_handleFault]
    | rfl

/-- `Retained` is only recorded after the whole staging file has been written under the destination name -/
theorem copyStage_retained (s : State) (m : Meta) (hmd : s.md = some m)
    (hret : (copyStage s).1.fileStatus = .Retained) :
    (copyStage s).1.fs.get (Fs.relOf m.dstName) = some (.file (s.tempFile.getD [])) := by
  simp only [copyStage] at hret ⊢
  split at hret
  · rename_i hw
    simp only [hw, if_true]
    simp only [finalizeFile, hmd] at hw ⊢
    split at hw
    · cases hw
    · rename_i fs' hwr
      simp only [hwr]
      simp only [Fs.FS.writeFile] at hwr
      split at hwr
      · cases hwr
      · split at hwr
        · cases hwr
        · split at hwr
          · cases hwr
          · cases hwr
            exact Fs.get_set_self _ _ _
  · cases hret

theorem retained_means_written (s : State) (now : Nat) (m : Meta) (hmd : s.md = some m)
    (hnot : s.fileStatus ≠ .Retained) (hret : (finalizeFilePart s now).1.fileStatus = .Retained) :
    (finalizeFilePart s now).1.fs.get (Fs.relOf m.dstName) = some (.file (s.tempFile.getD [])) ∧
    (finalizeFilePart s now).2 = true := by
  obtain ⟨k1, k2, k3, k4, _, _⟩ := verifyStage_keeps s now
  simp only [finalizeFilePart] at hret ⊢
  split at hret
  · rename_i hft
    simp only [hft, if_true]
    split at hret
    · rw [k3] at hret; exact absurd hret hnot
    · rename_i hgo
      simp only [hgo, Bool.false_eq_true, if_false]
      have := copyStage_retained (verifyStage s now).1 m (by rw [k1]; exact hmd) hret
      rw [k4] at this
      refine ⟨this, ?_⟩
      simp only [copyStage]
      split <;> rfl
  · cases hret

theorem fileStatus_finalizeReceive (s : State) (now : Nat) :
    (finalizeReceive s now).1.fileStatus = (fileStage s now).1.fileStatus := by
  simp only [finalizeReceive, fileStage]
  repeat' split
  all_goals simp only [fileStatus_emit, fileStatus_handleFault]

/-- the heart of C01: when `finalize_receive` ends with file status Retained and delivery code
Complete, the destination name holds exactly the source file -/
theorem fin_core (src : Bytes) (s : State) (now : Nat) (hd : DataOk src s) (hn : s.fileSize = some src.length)
    (hnr : s.fileStatus ≠ .Retained) (hret : (finalizeReceive s now).1.fileStatus = .Retained)
    (hc : (finalizeReceive s now).1.delivery = .Complete) :
    ∃ m, s.md = some m ∧
      (fileStage s now).1.fs.get (Fs.relOf m.dstName) = some (.file src) ∧
      (m.requests = [] → (finalizeReceive s now).1.fs.get (Fs.relOf m.dstName) = some (.file src)) := by
  rw [delivery_finalizeReceive] at hc
  split at hc
  · cases hc
  · rename_i hcond
    simp only [Bool.or_eq_true, Bool.and_eq_true, not_or, not_and, Bool.not_eq_true] at hcond
    obtain ⟨c1, c2⟩ := hcond
    obtain ⟨m, hm⟩ : ∃ m, s.md = some m := by
      cases hmd : s.md with
      | none => simp [hmd] at c1
      | some m => exact ⟨m, rfl⟩
    rw [fileStatus_finalizeReceive] at hret
    have hw := retained_means_written
      { s with delivery := if s.md.isNone || (isFileTransfer s && hasNaks s) then .Incomplete else .Complete } now m hm hnr
      (by simpa only [fileStage] using hret)
    -- a file transfer with nothing missing
    have hft : isFileTransfer s = true := by
      cases hf : isFileTransfer s with
      | true => rfl
      | false =>
        exfalso
        have hf' : isFileTransfer { s with delivery := if s.md.isNone || (isFileTransfer s && hasNaks s) then DeliveryCode.Incomplete else DeliveryCode.Complete } = false := hf
        simp only [fileStage, finalizeFilePart, hf', Bool.false_eq_true, if_false] at hret
        cases hret
    have hnn := c2 hft
    simp only [hasNaks, hn, Bool.or_eq_false_iff] at hnn
    have hcomp : Seg.isComplete s.segs src.length = true := by simpa using hnn.2
    have hsrc := dataOk_complete hd hcomp
    refine ⟨m, hm, ?_, ?_⟩
    · simp only [fileStage]
      rw [hw.1]
      show some (Fs.Node.file (s.tempFile.getD [])) = _
      rw [hsrc]
    · intro hreq
      have hb : ((fileStage s now).1.fileStatus == FileStatusCode.FileStoreRejection) = false := by
        rw [hret]; rfl
      have h2 : (fileStage s now).2 = true := by simpa only [fileStage] using hw.2
      have hmd' : (fileStage s now).1.md = some m := by
        simp only [fileStage, md_finalizeFilePart]; exact hm
      simp only [fileStage] at hb h2 hmd'
      simp only [finalizeReceive, h2, Bool.not_true, Bool.false_eq_true, if_false, hb, hmd', hreq, Fs.runRequests, emit]
      rw [hw.1]
      show some (Fs.Node.file (s.tempFile.getD [])) = _
      rw [hsrc]

/-! ### the invariant over a whole history -/

/-- before finalisation: the staging file agrees with the source, an announced size is the source's, nothing copied yet -/
structure Src (src : Bytes) (s : State) : Prop where
  data : DataOk src s
  size : ∀ n, s.fileSize = some n → n = src.length
  notyet : s.fileStatus ≠ .Retained

/-- the destination name holds the source file (stated for transactions without filestore requests,
which may legitimately change the file afterwards) -/
def Delivered (src : Bytes) (s : State) : Prop :=
  ∃ m, s.md = some m ∧ (m.requests = [] → s.fs.get (Fs.relOf m.dstName) = some (.file src))

/-- **the claim of C01 on a state**: file status Retained and delivery code Complete imply the
destination file is the source file -/
def Claim (src : Bytes) (s : State) : Prop :=
  s.fileStatus = .Retained → s.delivery = .Complete → Delivered src s

theorem src_frame {src : Bytes} {s s' : State} (h : Src src s) (h1 : s'.segs = s.segs) (h2 : s'.tempFile = s.tempFile)
    (h3 : s'.fileSize = s.fileSize) (h4 : s'.fileStatus = s.fileStatus) : Src src s' :=
  ⟨dataOk_frame h.data h1 h2, by rw [h3]; exact h.size, by rw [h4]; exact h.notyet⟩

theorem claim_of_not {src : Bytes} {s : State} (h : s.fileStatus ≠ .Retained) : Claim src s :=
  fun hr => absurd hr h

theorem claim_frame {src : Bytes} {s s' : State} (h : Claim src s) (h1 : s'.fileStatus = s.fileStatus)
    (h2 : s'.delivery = s.delivery) (h3 : s'.md = s.md) (h4 : s'.fs = s.fs) : Claim src s' := by
  intro hr hc
  rw [h1] at hr; rw [h2] at hc
  obtain ⟨m, hm, hf⟩ := h hr hc
  exact ⟨m, by rw [h3]; exact hm, by rw [h4]; exact hf⟩

/-- after `finalize_receive`: the claim holds -/
theorem claim_finalizeReceive {src : Bytes} {s : State} (h : Src src s) (now : Nat) (n : Nat) (hn : s.fileSize = some n) :
    Claim src (finalizeReceive s now).1 := by
  intro hr hc
  have hn' : s.fileSize = some src.length := by rw [hn, h.size n hn]
  obtain ⟨m, hm, _, hf⟩ := fin_core src s now h.data hn' h.notyet hr hc
  exact ⟨m, by rw [md_finalizeReceive]; exact hm, hf⟩

theorem good_checkFinished {src : Bytes} {s : State} (h : Src src s) (now : Nat) :
    (NR (checkFinished s now) ∨ Src src (checkFinished s now)) ∧ Claim src (checkFinished s now) := by
  simp only [checkFinished]
  split
  · rename_i hg
    simp only [Bool.and_eq_true, eofReceived] at hg
    obtain ⟨n, hn⟩ := Option.isSome_iff_exists.mp hg.1.2
    refine ⟨Or.inl (by unfold NR; intro hh; cases hh), ?_⟩
    exact claim_frame (claim_finalizeReceive h now n hn) rfl rfl rfl rfl
  · exact ⟨Or.inr h, claim_of_not h.notyet⟩

theorem good_unackFinish {src : Bytes} {s : State} (h : Src src s) (now : Nat) (n : Nat) (hn : s.fileSize = some n) :
    (NR (unackFinish s now) ∨ (unackFinish s now).state = .Terminated) ∧ Claim src (unackFinish s now) := by
  have hc := claim_finalizeReceive h now n hn
  simp only [unackFinish]
  split
  · exact ⟨Or.inl (by unfold NR; intro hh; cases hh), claim_frame hc rfl rfl rfl rfl⟩
  · exact ⟨Or.inr rfl, claim_frame hc rfl rfl rfl rfl⟩

/-- what a loop iteration leaves: a transaction that has left ReceiveData or ended, or one still
satisfying `Src`; and in every case the claim -/
def Outcome (src : Bytes) (r : State) : Prop :=
  (NR r ∨ r.state = .Terminated ∨ Src src r) ∧ Claim src r

theorem res_of_src {src : Bytes} {r : State} (h : Src src r) : Outcome src r :=
  ⟨Or.inr (Or.inr h), claim_of_not h.notyet⟩

theorem res_of_check {src : Bytes} {r : State} (h : (NR r ∨ Src src r) ∧ Claim src r) : Outcome src r :=
  ⟨h.1.elim Or.inl (fun x => Or.inr (Or.inr x)), h.2⟩

/-- a PDU from a sender that is transferring `src`: data PDUs carry the bytes of `src` they claim to
carry, a NoError EOF announces its length -/
def TruthfulPdu (src : Bytes) (p : Pdu) : Prop :=
  match p.payload with
  | .fileData off d | .fileDataSeg _ _ off d => Truthful src off d
  | .eof e => e.cond = .NoError → e.fileSize = src.length
  | _ => True

theorem src_storeFileData {src : Bytes} {s : State} (h : Src src s) (off : Nat) (d : Bytes) (ht : Truthful src off d) :
    Src src (storeFileData s off d) :=
  ⟨dataOk_storeFileData h.data off d ht, by rw [fileSize_storeFileData]; exact h.size,
    by rw [fileStatus_storeFileData]; exact h.notyet⟩

theorem src_setFileSize {src : Bytes} {s : State} (h : Src src s) (n : Nat) (hn : n = src.length) :
    Src src { s with fileSize := some n } :=
  ⟨dataOk_frame h.data rfl rfl, fun m hm => by cases hm; exact hn, h.notyet⟩

theorem res_ackFileData {src : Bytes} {s : State} (h : Src src s) (off : Nat) (d : Bytes) (now : Nat)
    (ht : Truthful src off d) : Outcome src (ackFileData s off d now) := by
  simp only [ackFileData]
  apply res_of_check
  apply good_checkFinished
  have := src_storeFileData h off d ht
  inv_auto src_frame 4 []

theorem res_ackEof {src : Bytes} {s : State} (h : Src src s) (e : Eof) (now : Nat)
    (ht : e.cond = .NoError → e.fileSize = src.length) : Outcome src (ackEof s e now) := by
  simp only [ackEof]
  split
  · rename_i hc
    have hc' : e.cond = .NoError := by simpa using hc
    have hY : Src src { checkFileSize (emit { prepareAckEof { s with condition := e.cond } with checksum := some e.checksum } .eofRecv)
        e.fileSize now with fileSize := some e.fileSize } := by
      apply src_setFileSize _ _ (ht hc')
      inv_auto src_frame 4 []
    dsimp only at hY
    obtain ⟨h1, h2⟩ := good_checkFinished hY now
    refine ⟨?_, claim_frame h2 (fileStatus_scheduleNaks _ _ _) (delivery_scheduleNaks _ _ _) (md_scheduleNaks _ _ _)
      (fs_scheduleNaks _ _ _)⟩
    rcases h1 with h1 | h1
    · left; unfold NR at *; simpa only [recvState_scheduleNaks] using h1
    · right; right
      exact src_frame h1 (segs_scheduleNaks _ _ _) (tempFile_scheduleNaks _ _ _) (fileSize_scheduleNaks _ _ _)
        (fileStatus_scheduleNaks _ _ _)
  · refine ⟨Or.inl (nr_cancelInner _ _), claim_of_not ?_⟩
    simp only [fileStatus_cancelInner, fileStatus_emit, fileStatus_prepareAckEof]
    exact h.notyet

theorem outcome_of_finish {src : Bytes} {r : State} (h : (NR r ∨ r.state = .Terminated) ∧ Claim src r) :
    Outcome src r :=
  ⟨h.1.elim Or.inl (fun x => Or.inr (Or.inl x)), h.2⟩

theorem res_unackComplete {src : Bytes} {s : State} (h : Src src s) (n : Nat) (hn : s.fileSize = some n) (now : Nat) :
    Outcome src (unackComplete s now) := by
  have hf : Src src (handleFault s .CheckLimitReached now).1 := by inv_auto src_frame 4 []
  have hfn : (handleFault s .CheckLimitReached now).1.fileSize = some n := by rw [fileSize_handleFault]; exact hn
  simp only [unackComplete, unackCheckMissing]
  split
  · split
    · exact res_of_src hf
    · exact outcome_of_finish (good_unackFinish hf now n hfn)
  · simp only [Bool.not_true, Bool.false_eq_true, if_false]
    exact outcome_of_finish (good_unackFinish h now n hn)

theorem res_unackEof {src : Bytes} {s : State} (h : Src src s) (e : Eof) (now : Nat)
    (ht : e.cond = .NoError → e.fileSize = src.length) : Outcome src (unackEof s e now) := by
  simp only [unackEof]
  split
  · apply res_of_src; inv_auto src_frame 4 []
  · split
    · rename_i hc
      have hc' : e.cond = .NoError := by simpa using hc
      simp only [unackEofNoError]
      apply res_unackComplete _ e.fileSize rfl
      apply src_setFileSize _ _ (ht hc')
      inv_auto src_frame 4 []
    · refine ⟨Or.inl (nr_cancelInner _ _), claim_of_not ?_⟩
      simp only [fileStatus_cancelInner, fileStatus_emit]
      exact h.notyet

theorem res_processPdu {src : Bytes} {s : State} (h : Src src s) (p : Pdu) (now : Nat) (ht : TruthfulPdu src p) :
    Outcome src (processPdu s p now).1 := by
  have h0 : Src src (pduArrived s now) := src_frame h rfl rfl rfl rfl
  simp only [processPdu]
  generalize pduArrived s now = t at h0
  simp only [processPduBody]
  cases hpl : p.payload <;> simp only [TruthfulPdu, hpl] at ht <;> cases hm : t.cfg.mode <;> dsimp only
  all_goals first
    | exact res_ackFileData h0 _ _ _ ht
    | exact res_ackEof h0 _ _ ht
    | exact res_unackEof h0 _ _ ht
    | exact res_of_src h0
    | (apply res_of_src; peel src_frame 4; exact src_storeFileData h0 _ _ ht)
    | skip
  all_goals (repeat' split)
  all_goals first
    | exact res_of_src h0
    | (apply res_of_check; apply good_checkFinished; inv_auto src_frame 4 [])
    | (apply res_of_src; inv_auto src_frame 4 [])

/-! ### once the transaction has left ReceiveData the outcome on record is frozen -/

theorem ackEof_nr_fields {s : State} (h : NR s) (e : Eof) (now : Nat) :
    (ackEof s e now).fileStatus = s.fileStatus ∧ (ackEof s e now).delivery = s.delivery ∧ (ackEof s e now).md = s.md := by
  have h1 : NR (checkFileSize (emit { prepareAckEof { s with condition := e.cond } with checksum := some e.checksum } .eofRecv)
      e.fileSize now) := nr_checkFileSize (by unfold NR at *; simpa only [recvState_emit, recvState_prepareAckEof] using h) _ _
  simp only [ackEof]
  split
  · rw [checkFinished_nr (by unfold NR at *; exact h1)]
    simp only [fileStatus_scheduleNaks, fileStatus_checkFileSize, fileStatus_emit, fileStatus_prepareAckEof,
      delivery_scheduleNaks, delivery_checkFileSize, delivery_emit, delivery_prepareAckEof, md_scheduleNaks,
      md_checkFileSize, md_emit, md_prepareAckEof, and_self]
  · simp only [fileStatus_cancelInner, fileStatus_emit, fileStatus_prepareAckEof, delivery_cancelInner,
      delivery_emit, delivery_prepareAckEof, md_cancelInner, md_emit, md_prepareAckEof, and_self]

theorem nr_fields_processPdu {s : State} (h : NR s) (p : Pdu) (now : Nat) :
    (processPdu s p now).1.fileStatus = s.fileStatus ∧ (processPdu s p now).1.delivery = s.delivery ∧
    (s.md.isSome = true → (processPdu s p now).1.md = s.md) := by
  have h0 : NR (pduArrived s now) := h
  have e1 : (pduArrived s now).fileStatus = s.fileStatus := rfl
  have e2 : (pduArrived s now).delivery = s.delivery := rfl
  have e3 : (pduArrived s now).md = s.md := rfl
  simp only [processPdu]
  rw [← e1, ← e2, ← e3]
  generalize pduArrived s now = t at h0
  have hb : (t.recvState != RecvState.ReceiveData) = true := by
    unfold NR at h0; cases hr : t.recvState <;> simp_all
  simp only [processPduBody]
  cases hpl : p.payload <;> cases hm : t.cfg.mode <;> dsimp only
  all_goals first
    | exact ⟨rfl, rfl, fun _ => rfl⟩
    | (rw [ackFileData_nr h0]
       simp only [fileStatus_immediateNak, fileStatus_emit, fileStatus_storeFileData, delivery_immediateNak,
         delivery_emit, delivery_storeFileData, md_immediateNak, md_emit, md_storeFileData]
       exact ⟨trivial, trivial, fun _ => trivial⟩)
    | (simp only [fileStatus_emit, fileStatus_storeFileData, delivery_emit, delivery_storeFileData, md_emit,
         md_storeFileData]
       exact ⟨trivial, trivial, fun _ => trivial⟩)
    | exact ⟨(ackEof_nr_fields h0 _ _).1, (ackEof_nr_fields h0 _ _).2.1, fun _ => (ackEof_nr_fields h0 _ _).2.2⟩
    | (-- unacknowledged EOF
       simp only [unackEof, recvState_emit, hb, if_true, fileStatus_setFinishedFlag, fileStatus_emit,
         delivery_setFinishedFlag, delivery_emit, md_setFinishedFlag, md_emit]
       exact ⟨trivial, trivial, fun _ => trivial⟩)
    | ((repeat' split) <;> first
        | exact ⟨rfl, rfl, fun _ => rfl⟩
        | (rename_i hn; exact ⟨by rw [checkFinished_nr (by unfold NR at *; simpa only [recvState_storeMetadata] using h0)]; rfl,
            by rw [checkFinished_nr (by unfold NR at *; simpa only [recvState_storeMetadata] using h0)]; rfl,
            fun hs => by rw [Option.isNone_iff_eq_none] at hn; rw [hn] at hs; cases hs⟩)
        | (rename_i hn; exact ⟨rfl, rfl, fun hs => by rw [Option.isNone_iff_eq_none] at hn; rw [hn] at hs; cases hs⟩))

end Cfdp.Recv

namespace Cfdp.Loop
open Cfdp.Codec Cfdp.Gen Cfdp.Recv

/-- what the link may deliver while `src` is being transferred -/
def TruthfulEv (src : Bytes) (e : Ev) : Prop :=
  match e with
  | .pdu p => TruthfulPdu src p
  | _ => True

/-- the invariant of C01 -/
def Good (src : Bytes) (s : Recv.State) : Prop := Outcome src s

theorem good_recvStep {src : Bytes} {s : Recv.State} (h : Good src s) (now : Nat) (e : Ev) (he : TruthfulEv src e) :
    Good src (recvStep s now e) := by
  have hclaim0 : Claim src { s with sent := none, out := [] } := claim_frame h.2 rfl rfl rfl rfl
  by_cases hterm : s.state = .Terminated
  · -- nothing happens any more
    have hb : (s.state == TransactionState.Terminated) = true := by rw [hterm]; rfl
    simp only [recvStep, hb, if_true]
    refine ⟨Or.inr (Or.inl hterm), hclaim0⟩
  have hb : (s.state == TransactionState.Terminated) = false := by
    cases hst : s.state <;> simp_all
  by_cases hnr : NR s
  · -- the outcome on record is frozen
    have hnr0 : NR { s with sent := none, out := [] } := hnr
    obtain ⟨f1, _, f3⟩ := final_recvStep hnr now e
    refine ⟨Or.inl f3, ?_⟩
    have hfields : (recvStep s now e).fileStatus = s.fileStatus ∧ (recvStep s now e).delivery = s.delivery ∧
        (s.md.isSome = true → (recvStep s now e).md = s.md) := by
      simp only [recvStep, hb, Bool.false_eq_true, if_false]
      split
      · exact nr_fields_processPdu hnr0 _ _
      all_goals first
        | (split <;> simp only [Recv.fileStatus_sendPdu, Recv.delivery_sendPdu, Recv.md_sendPdu,
             Recv.fileStatus_handleTimeout, Recv.delivery_handleTimeout, Recv.md_handleTimeout] <;>
             exact ⟨trivial, trivial, fun _ => trivial⟩)
        | (simp only [Recv.fileStatus_cancel, Recv.delivery_cancel, Recv.md_cancel, Recv.fileStatus_suspend,
             Recv.delivery_suspend, Recv.md_suspend, Recv.fileStatus_resume, Recv.delivery_resume, Recv.md_resume,
             Recv.fileStatus_sendReport, Recv.delivery_sendReport, Recv.md_sendReport, Recv.fileStatus_shutdown,
             Recv.delivery_shutdown, Recv.md_shutdown]
           exact ⟨trivial, trivial, fun _ => trivial⟩)
        | exact ⟨rfl, rfl, fun _ => rfl⟩
    intro hr hc
    rw [hfields.1] at hr; rw [hfields.2.1] at hc
    obtain ⟨m, hm, hf⟩ := h.2 hr hc
    refine ⟨m, ?_, ?_⟩
    · rw [hfields.2.2 (by rw [hm]; rfl)]; exact hm
    · rw [f1]; exact hf
  · -- still receiving: `Src` holds
    have hsrc : Src src s := by
      rcases h.1 with h1 | h1 | h1
      · exact absurd h1 hnr
      · exact absurd h1 hterm
      · exact h1
    have hsrc0 : Src src { s with sent := none, out := [] } := src_frame hsrc rfl rfl rfl rfl
    simp only [recvStep, hb, Bool.false_eq_true, if_false]
    split
    · exact res_processPdu hsrc0 _ _ he
    all_goals first
      | (split <;> (apply res_of_src; inv_auto src_frame 4 []))
      | (apply res_of_src; inv_auto src_frame 4 [])

theorem C01_init_good (src : Bytes) (cfg : Recv.Config) (fs : Fs.FS) (t0 : Nat) : Good src (Recv.new cfg fs t0) := by
  apply res_of_src
  have hd : DataOk src (Recv.new cfg fs t0) := by
    refine ⟨⟨?_, List.Pairwise.nil⟩, ?_, Nat.zero_le _, ?_⟩
    · intro sg hsg; cases hsg
    · intro sg hsg; cases hsg
    · intro x hx; obtain ⟨sg, hsg, _⟩ := hx; cases hsg
  refine ⟨hd, ?_, ?_⟩
  · intro n hn; cases hn
  · intro hh; cases hh

/-- **C01 (receiver, all histories).** Let the link deliver, in any order and with any losses and
duplications, interleaved with timer expirations, transmissions and user requests at any times,
only PDUs of a transfer of the file `src`: data PDUs carrying the bytes of `src` at the offsets they
claim, NoError EOFs announcing its length (any metadata, any other PDUs). Then whenever the
receiver's record says file status Retained and delivery code Complete — the values its Finished
indication and Finished PDU report — the file under the destination name is exactly `src` (for a
transaction without filestore requests; with requests the same holds for the filestore as the copy
left it, before the requests ran: `fin_core`). -/
theorem C01_delivered_is_source (src : Bytes) (cfg : Recv.Config) (fs : Fs.FS) (t0 : Nat) (evs : List (Nat × Ev))
    (hev : ∀ x ∈ evs, TruthfulEv src x.2) :
    Claim src (recvRun (Recv.new cfg fs t0) evs).1 := by
  have key : ∀ (evs : List (Nat × Ev)) (s : Recv.State), Good src s → (∀ x ∈ evs, TruthfulEv src x.2) →
      Good src (recvRun s evs).1 := by
    intro evs
    induction evs with
    | nil => intro s h _; exact h
    | cons x rest ih =>
      intro s h hx
      obtain ⟨now, e⟩ := x
      exact ih _ (good_recvStep h now e (hx (now, e) (List.mem_cons_self ..))) (fun y hy => hx y (List.mem_cons_of_mem _ hy))
  exact (key evs _ (C01_init_good src cfg fs t0) hev).2

end Cfdp.Loop

/-! ### non-vacuity -/
namespace Cfdp.Loop
open Cfdp.Codec Cfdp.Gen

/-- the history of the C04 example (metadata, data, EOF) is truthful for the file `[1, 2, 3]`, ends
with Retained / Complete, and the destination file is that file -/
example : ∀ x ∈ [(0, Ev.pdu c04Md), (0, .pdu c04Data), (0, .pdu c04Eof)], TruthfulEv [1, 2, 3] x.2 := by
  intro x hx
  simp only [List.mem_cons, List.mem_nil_iff, or_false] at hx
  rcases hx with rfl | rfl | rfl
  · trivial
  · refine ⟨by decide, ?_⟩
    intro i hi
    have : i = 0 ∨ i = 1 ∨ i = 2 := by simp at hi; omega
    rcases this with rfl | rfl | rfl <;> rfl
  · intro _; rfl
example : c04Done.fileStatus = .Retained ∧ c04Done.delivery = .Complete ∧
    c04Done.fs.get (Fs.relOf [100]) = some (.file [1, 2, 3]) := by decide

end Cfdp.Loop

#print axioms Cfdp.Recv.writeAt_get
#print axioms Cfdp.Recv.dataOk_complete
#print axioms Cfdp.Recv.fin_core
#print axioms Cfdp.Loop.good_recvStep
#print axioms Cfdp.Loop.C01_delivered_is_source
