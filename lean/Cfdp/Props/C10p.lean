import Cfdp.Props.C02v

/-! # C10: single losses of the cancel handshake PDUs - the timers repeat them and the handshake goes on

A lost EOF(cancel) is repeated by the cancelled sender's positive-ACK timer (`cancel_eof_timer_resends`) and cancels the
receiver when it arrives (`C10_lost_cancel_eof_round`); a lost Finished PDU of a cancelled receiver, or a lost ACK of it, is
repeated by the receiver's positive-ACK timer (`cancelled_timer_resends`), ends the sender and, through its ACK, the
receiver (`C10_lost_cancel_finished_round`). -/
namespace Cfdp.Loop
open Cfdp.Codec Cfdp.Gen Cfdp.Timer Cfdp.Recv Cfdp.Send

/-- **the positive-ACK timer repeats the EOF of a cancelled sender.**  A cancelled sender that has sent its EOF(cancel) and
waits, whose ACK timer runs out at `t` below its limit (the inactivity limit not reached either - that counter is
paused in this phase): the expiry makes the EOF due again and the next transmission is that same EOF. -/
theorem cancel_eof_timer_resends (s : Send.State) (t : Nat) (e : Eof) (ha : s.state = .Active)
    (hm : s.cfg.mode = .Acknowledged) (hss : s.sendState = .Cancelled) (hp : s.prompt = none)
    (heof : s.eof = some (e, false))
    (hdue : s.timer.ack.paused = false ∧ s.timer.ack.timeout ≤ t - s.timer.ack.start ∧ s.timer.ack.start ≤ t)
    (hal : ((s.timer.ack.update t).update t).count ≠ s.timer.ack.max)
    (hil : (s.timer.inactivity.update t).count ≠ s.timer.inactivity.max) :
    ∃ h, (sendStep (sendStep s t .timeout) t .send).sent = some ⟨h, .eof e⟩ := by
  have hnt : ((clrS s).state == TransactionState.Terminated) = false := by
    show (s.state == TransactionState.Terminated) = false; rw [ha]; rfl
  have hns : ((clrS s).state == TransactionState.Suspended) = false := by
    show (s.state == TransactionState.Suspended) = false; rw [ha]; rfl
  have k1 : (clrS s).sendState = .Cancelled := hss
  -- the expiry
  have hu : Send.untilTimeout (clrS s) t = some 0 := by
    simp only [Send.untilTimeout, hns, Bool.false_eq_true, if_false, k1]
    exact untilTimeout_ack_due s.timer t hdue.1 hdue.2.1 hdue.2.2
  have hib : ((clrS s).timer.inactivity.limitReached t).2 = false := by
    show ((s.timer.inactivity.update t).count == (s.timer.inactivity.update t).max) = false
    rw [max_update]; simpa using hil
  have hocc : (s.timer.ack.update t).occurred = true := (update_due s.timer.ack t hdue.1 hdue.2.1).1
  have hab : (((s.timer.ack.update t).update t).count == ((s.timer.ack.update t).update t).max) = false := by
    rw [max_update, max_update]; simpa using hal
  have e1 : sendStep s t .timeout =
      Send.setEofFlag (setA (setI (clrS s) ((clrS s).timer.inactivity.limitReached t).1) ((s.timer.ack.update t).update t)) true := by
    rw [sendStep_eq]
    simp only [hnt, Bool.false_eq_true, if_false, hu, beq_self_eq_true, if_true, Send.handleTimeout, hns, k1]
    rw [Send.handleInactivity_eq, hib]
    simp only [Bool.false_eq_true, if_false]
    rw [Send.handleAckTimer_eq]
    have : (setI (clrS s) ((clrS s).timer.inactivity.limitReached t).1).timer.ack = s.timer.ack := rfl
    rw [this]
    simp only [ackBody, hocc, if_true, hab, Bool.false_eq_true, if_false]
  -- the state after the expiry
  generalize hx : setA (setI (clrS s) ((clrS s).timer.inactivity.limitReached t).1) ((s.timer.ack.update t).update t) = x at e1
  have x1 : x.state = .Active := by rw [← hx]; exact ha
  have x2 : x.sendState = .Cancelled := by rw [← hx]; exact hss
  have x3 : x.prompt = none := by rw [← hx]; exact hp
  have x5 : x.eof = some (e, false) := by rw [← hx]; exact heof
  have x6 : x.cfg.mode = .Acknowledged := by rw [← hx]; exact hm
  have e2 : Send.setEofFlag x true = { x with eof := some (e, true) } := by simp only [Send.setEofFlag, x5]
  rw [e1, e2]
  generalize hy : ({ x with eof := some (e, true) } : Send.State) = y
  have y1 : y.state = .Active := by rw [← hy]; exact x1
  have y2 : y.sendState = .Cancelled := by rw [← hy]; exact x2
  have y3 : y.prompt = none := by rw [← hy]; exact x3
  have y5 : y.eof = some (e, true) := by rw [← hy]
  have y6 : y.cfg.mode = .Acknowledged := by rw [← hy]; exact x6
  have hnt2 : ((clrS y).state == TransactionState.Terminated) = false := by
    show (y.state == TransactionState.Terminated) = false; rw [y1]; rfl
  have hns2 : ((clrS y).state == TransactionState.Suspended) = false := by
    show (y.state == TransactionState.Suspended) = false; rw [y1]; rfl
  have j1 : (clrS y).sendState = .Cancelled := y2
  have j2 : (clrS y).prompt = none := y3
  have j4 : (clrS y).eof = some (e, true) := y5
  have hhas : Send.hasPduToSend (clrS y) = true := by
    simp only [Send.hasPduToSend, hns2, Bool.false_eq_true, if_false, j2, j1, Send.eofFlag, j4, Option.isSome_none,
      Bool.false_or]
  have e3 : sendStep y t .send = Send.sendEof (clrS y) t := by
    rw [sendStep_eq]
    simp only [hnt2, Bool.false_eq_true, if_false, hhas, if_true, Send.sendPdu, j2, Option.isSome_none, j1]
  rw [e3]
  simp only [Send.sendEof, j4, Send.setEofFlag, Send.eof_sendPayload]
  exact ⟨_, rfl⟩

/-- **the positive-ACK timer repeats the Finished PDU of a cancelled receiver.**  A receiver in the Cancelled phase (acknowledged mode) that has
sent its Finished PDU and waits for the ACK, whose ACK timer runs out at `t` below its limit (the inactivity limit
not reached either): the expiry makes the Finished PDU due again and the next transmission is that same PDU;
the outcome recorded stays as it is. -/
theorem cancelled_timer_resends {m Ta Ti Tn : Nat} (r : Recv.State) (t : Nat) (f : Finished) (ha : r.state = .Active)
    (hm : r.cfg.mode = .Acknowledged) (hfin : r.recvState = .Cancelled) (hp : r.prompt = none) (hack : r.ack = none)
    (hf : r.finished = some (f, false)) (hdel : r.delayed = []) (hrt : RT m Ta Ti Tn r.timer)
    (hdue : r.timer.ack.paused = false ∧ r.timer.ack.timeout ≤ t - r.timer.ack.start ∧ r.timer.ack.start ≤ t)
    (hal : (r.timer.ack.update t).count ≠ r.timer.ack.max)
    (hil : (r.timer.inactivity.update t).count ≠ r.timer.inactivity.max) :
    (∃ h, (recvStep (recvStep r t .timeout) t .send).sent = some ⟨h, .finished f⟩) ∧
    (recvStep (recvStep r t .timeout) t .send).state = .Active ∧
    (recvStep (recvStep r t .timeout) t .send).recvState = .Cancelled ∧
    (recvStep (recvStep r t .timeout) t .send).cfg = r.cfg ∧
    (recvStep (recvStep r t .timeout) t .send).condition = r.condition := by
  have hnt : ((clrR r).state == TransactionState.Terminated) = false := by
    show (r.state == TransactionState.Terminated) = false; rw [ha]; rfl
  have hns : ((clrR r).state == TransactionState.Suspended) = false := by
    show (r.state == TransactionState.Suspended) = false; rw [ha]; rfl
  have hu : Recv.untilTimeout (clrR r) t = some 0 := by
    have hd0 : (clrR r).delayed = [] := hdel
    simp only [Recv.untilTimeout, hns, Bool.false_eq_true, if_false, hd0, List.head?_nil]
    exact untilTimeout_ack_due r.timer t hdue.1 hdue.2.1 hdue.2.2
  have hmode : ((clrR r).cfg.mode == TransmissionMode.Unacknowledged) = false := by
    show (r.cfg.mode == TransmissionMode.Unacknowledged) = false; rw [hm]; rfl
  have e1 : recvStep r t .timeout = handleTimeoutMain (clrR r) t := by
    rw [recvStep_eq]
    simp only [hnt, Bool.false_eq_true, if_false, hu, beq_self_eq_true, if_true, Recv.handleTimeout, hns, hmode,
      Bool.false_and]
  have hd : handleDelayed (clrR r) t = clrR r := by
    have hd0 : (clrR r).delayed = [] := hdel
    rw [naks_handleDelayed_nil _ _ (by rw [hd0]; rfl), hd0]
    show ({ clrR r with delayed := [] } : Recv.State) = clrR r
    have : (clrR r) = { clrR r with delayed := (clrR r).delayed } := rfl
    rw [this, hd0]
  have hib : (((clrR r).timer.inactivity.limitReached t).2) = false := by
    show ((r.timer.inactivity.update t).count == (r.timer.inactivity.update t).max) = false
    rw [max_update]; simpa using hil
  obtain ⟨k, hk⟩ : ∃ k, handleInactivity (clrR r) t = (setIR (clrR r) k, true) := by
    rw [Recv.handleInactivity_eq]
    simp only [hib, Bool.false_eq_true, if_false]
    split
    · exact ⟨_, rfl⟩
    · exact ⟨_, rfl⟩
  -- the positive-ACK part
  have hlb : ((r.timer.ack.limitReached t).2) = false := by
    show ((r.timer.ack.update t).count == (r.timer.ack.update t).max) = false
    rw [max_update]; simpa using hal
  have hocc : ((r.timer.ack.limitReached t).1.timeoutOccurred t).2 = true := by
    show ((r.timer.ack.update t).update t).occurred = true
    rw [update_idem _ _ hrt.ack.2.1 hrt.ack.1]
    exact (update_due r.timer.ack t hdue.1 hdue.2.1).1
  -- the state `handle_timeout` leaves behind, named piece by piece
  generalize hy : setAR (setNR (setIR (clrR r) k) ((setIR (clrR r) k).timer.nak.pause t))
      ((r.timer.ack.limitReached t).1.timeoutOccurred t).1 = y
  have y1 : y.state = .Active := by rw [← hy]; exact ha
  have y2 : y.recvState = .Cancelled := by rw [← hy]; exact hfin
  have y3 : y.prompt = none := by rw [← hy]; exact hp
  have y4 : y.ack = none := by rw [← hy]; exact hack
  have y5 : y.finished = some (f, false) := by rw [← hy]; exact hf
  have y6 : y.cfg = r.cfg := by rw [← hy]; rfl
  have y7 : y.condition = r.condition := by rw [← hy]; rfl
  have hsf : setFinishedFlag y true = { y with finished := some (f, true) } := by simp only [setFinishedFlag, y5]
  have e2 : handleTimeoutMain (clrR r) t =
      setAR ({ y with finished := some (f, true) } : Recv.State) (((r.timer.ack.limitReached t).1.timeoutOccurred t).1.restart t) := by
    rw [Recv.handleTimeoutMain_eq]
    simp only [hns, Bool.false_eq_true, if_false, hd, hk, Bool.not_true]
    have hrs : (setIR (clrR r) k).recvState = .Cancelled := hfin
    simp only [hrs]
    rw [Recv.handleAckTimer_eq]
    have hak : (setNR (setIR (clrR r) k) ((setIR (clrR r) k).timer.nak.pause t)).timer.ack = r.timer.ack := rfl
    rw [hak]
    simp only [hlb, Bool.false_eq_true, if_false, hocc, if_true]
    rw [hy, hsf]
  generalize hx : setAR ({ y with finished := some (f, true) } : Recv.State) (((r.timer.ack.limitReached t).1.timeoutOccurred t).1.restart t) = x at e2
  have x1 : x.state = .Active := by rw [← hx]; exact y1
  have x2 : x.recvState = .Cancelled := by rw [← hx]; exact y2
  have x3 : x.prompt = none := by rw [← hx]; exact y3
  have x4 : x.ack = none := by rw [← hx]; exact y4
  have x5 : x.finished = some (f, true) := by rw [← hx]; rfl
  have x6 : x.cfg = r.cfg := by rw [← hx]; exact y6
  have x7 : x.condition = r.condition := by rw [← hx]; exact y7
  rw [e1, e2]
  -- the transmission
  have hnt2 : ((clrR x).state == TransactionState.Terminated) = false := by
    show (x.state == TransactionState.Terminated) = false; rw [x1]; rfl
  have hns2 : ((clrR x).state == TransactionState.Suspended) = false := by
    show (x.state == TransactionState.Suspended) = false; rw [x1]; rfl
  have j1 : (clrR x).recvState = .Cancelled := x2
  have j2 : (clrR x).prompt = none := x3
  have j3 : (clrR x).ack = none := x4
  have j4 : (clrR x).finished = some (f, true) := x5
  have hhas : Recv.hasPduToSend (clrR x) = true := by
    simp only [Recv.hasPduToSend, hns2, Bool.false_eq_true, if_false, j1, j4]
  have e2 : recvStep x t .send = Recv.sendFinished (clrR x) t := by
    rw [recvStep_eq]
    simp only [hnt2, Bool.false_eq_true, if_false, hhas, if_true, Recv.sendPdu, j2, Option.isSome_none, j1, j3, j4]
  rw [e2]
  refine ⟨?_, ?_, ?_, ?_, ?_⟩
  · have : (Recv.sendFinished (clrR x) t) = Recv.setFinishedFlag (Recv.sendPayload
        { clrR x with timer := { (clrR x).timer with ack := (clrR x).timer.ack.restart t } } (.finished f)) false := by
      simp only [Recv.sendFinished, j4]
    rw [this]
    simp only [Recv.setFinishedFlag, Recv.finished_sendPayload, j4]
    exact ⟨_, rfl⟩
  · rw [Recv.state_sendFinished]; exact x1
  · rw [Recv.recvState_sendFinished]; exact x2
  · rw [Recv.cfg_sendFinished]; exact x6
  · rw [Recv.condition_sendFinished]; exact x7


/-- **C10 (a lost EOF(cancel)).**  The sender was cancelled and its EOF(cancel) went out but was lost; its positive-ACK
timer runs out at `t` below its limit; the EOF it repeats reaches the receiver (acknowledged mode, any phase): the
receiver is cancelled with the sender's condition, tells its user, and has the ACK and a Finished PDU carrying that
condition to transmit. -/
theorem C10_lost_cancel_eof_round (s : Send.State) (r : Recv.State) (t t' : Nat) (e : Eof) (ha : s.state = .Active)
    (hm : s.cfg.mode = .Acknowledged) (hss : s.sendState = .Cancelled) (hp : s.prompt = none)
    (heof : s.eof = some (e, false)) (hcond : e.cond ≠ .NoError)
    (hdue : s.timer.ack.paused = false ∧ s.timer.ack.timeout ≤ t - s.timer.ack.start ∧ s.timer.ack.start ≤ t)
    (hal : ((s.timer.ack.update t).update t).count ≠ s.timer.ack.max)
    (hil : (s.timer.inactivity.update t).count ≠ s.timer.inactivity.max)
    (hra : r.state = .Active) (hrm : r.cfg.mode = .Acknowledged) :
    ∃ pdu, (sendStep (sendStep s t .timeout) t .send).sent = some pdu ∧
      (recvStep r t' (.pdu pdu)).recvState = .Cancelled ∧ (recvStep r t' (.pdu pdu)).condition = e.cond ∧
      (recvStep r t' (.pdu pdu)).fs = r.fs ∧
      (∃ f, (recvStep r t' (.pdu pdu)).finished = some (f, true) ∧ f.cond = e.cond) := by
  obtain ⟨h, hsent⟩ := cancel_eof_timer_resends s t e ha hm hss hp heof hdue hal hil
  obtain ⟨_, b2, b3, _, _, b6, _, b8, _, _⟩ := Cfdp.Net.recv_gets_cancel_eof r t' ⟨h, .eof e⟩ e hra hrm rfl hcond
  exact ⟨_, hsent, b2, b3, b6, b8⟩

/-- **C10 (a lost Finished PDU of a cancelled receiver, or a lost ACK of it).**  The receiver's positive-ACK timer runs
out at `t` below its limit; from then on nothing is lost: the repeated Finished PDU reaches the sender (any phase),
which records the receiver's condition, acknowledges and ends; the ACK ends the receiver. -/
theorem C10_lost_cancel_finished_round {m Ta Ti Tn : Nat} (s : Send.State) (r : Recv.State) (t t1 t2 : Nat) (f : Finished)
    (hsa : s.state = .Active) (hsm : s.cfg.mode = .Acknowledged) (hsp : s.prompt = none)
    (ha : r.state = .Active) (hm : r.cfg.mode = .Acknowledged) (hfin : r.recvState = .Cancelled) (hp : r.prompt = none)
    (hack : r.ack = none) (hf : r.finished = some (f, false)) (hdel : r.delayed = []) (hrt : RT m Ta Ti Tn r.timer)
    (hdue : r.timer.ack.paused = false ∧ r.timer.ack.timeout ≤ t - r.timer.ack.start ∧ r.timer.ack.start ≤ t)
    (hal : (r.timer.ack.update t).count ≠ r.timer.ack.max)
    (hil : (r.timer.inactivity.update t).count ≠ r.timer.inactivity.max) :
    ∃ pf pa,
      (recvStep (recvStep r t .timeout) t .send).sent = some pf ∧
      (sendStep (sendStep s t1 (.pdu pf)) t1 .send).sent = some pa ∧
      (sendStep (sendStep s t1 (.pdu pf)) t1 .send).state = .Terminated ∧
      (sendStep (sendStep s t1 (.pdu pf)) t1 .send).condition = f.cond ∧
      (recvStep (recvStep (recvStep r t .timeout) t .send) t2 (.pdu pa)).state = .Terminated ∧
      (recvStep (recvStep (recvStep r t .timeout) t .send) t2 (.pdu pa)).condition = r.condition := by
  obtain ⟨⟨hF, w1⟩, w2, w3, w4, w5⟩ := cancelled_timer_resends r t f ha hm hfin hp hack hf hdel hrt hdue hal hil
  obtain ⟨d1, d2, d3, d4, d5, ⟨af, d6, d7, d8⟩, _, _⟩ := Cfdp.Net.send_gets_finished_any s t1 ⟨hF, .finished f⟩ f hsa hsm rfl
  obtain ⟨⟨hK, g1⟩, g2, g3⟩ := Cfdp.Net.send_acks_finished (sendStep s t1 (.pdu ⟨hF, .finished f⟩)) t1 af d1 d2
    (by rw [d4]; exact hsp) d6
  obtain ⟨k1, k2, _⟩ := Cfdp.Net.recv_gets_ack_finished (recvStep (recvStep r t .timeout) t .send) t2 ⟨hK, .ack af⟩ af w2
    (by rw [w4]; exact hm) w3 rfl d7 d8
  exact ⟨_, _, w1, g1, g2, by rw [g3, d3], k1, by rw [k2, w5]⟩

end Cfdp.Loop

#print axioms Cfdp.Loop.C10_lost_cancel_eof_round
#print axioms Cfdp.Loop.C10_lost_cancel_finished_round

#print axioms Cfdp.Net.C10_two_party_sender_cancel
#print axioms Cfdp.Net.C10_two_party_receiver_cancel
#print axioms Cfdp.Loop.C10_no_partial
#print axioms Cfdp.Loop.C10_cancel_freezes
#print axioms Cfdp.Recv.C10_recv_cancel
#print axioms Cfdp.Recv.C10_recv_peer_cancel
#print axioms Cfdp.Recv.C10_recv_cancel_ends
#print axioms Cfdp.Send.C10_send_cancel
#print axioms Cfdp.Send.C10_send_cancel_ends
