import Cfdp.Props.C17
import Cfdp.Props.C03

/-! # C17, never late: a running counter observed once the remaining expirations have elapsed is at its limit,
and the transaction raises the limit fault at that very call of `handle_timeout` -/
namespace Cfdp.Timer

/-- **C17 (never late), counter level.**  A running counter with `r = max - count` expirations to go, observed at
or after `start + r · timeout`, answers `limit_reached` with true: every elapsed period is counted, however
late the observation comes. -/
theorem C17_limit_not_late (c : Counter) (now : Nat) (hp : c.paused = false) (hT : 0 < c.timeout) (hc : c.count ≤ c.max)
    (hd : c.start + (c.max - c.count) * c.timeout ≤ now) : (c.limitReached now).2 = true := by
  have hu : c.update now = updateLoop (now - c.start + 1) now c := by
    simp only [Counter.update, hp, Bool.false_eq_true, if_false]
  obtain ⟨h1, _, _⟩ := updateLoop_closed (now - c.start + 1) now c hT hc (Nat.lt_succ_of_le (Nat.div_le_self _ _))
  have hm : (updateLoop (now - c.start + 1) now c).max = c.max := (updateLoop_fields _ _ _).2.1
  have hq : c.max - c.count ≤ (now - c.start) / c.timeout := by
    rw [Nat.le_div_iff_mul_le hT]; omega
  simp only [Counter.limitReached, hu, h1, hm, beq_iff_eq]
  omega

end Cfdp.Timer

namespace Cfdp.Recv
open Cfdp.Codec Cfdp.Gen Cfdp.Timer

/-- **C17 (receiver, inactivity limit, never late).**  When `handle_timeout` looks at a running inactivity
counter at or after `start + (max - count) · timeout`, the limit is declared in that call: a transaction
that is not cancelled raises the InactivityDetected fault (and its handler runs, `C17_recv_handler`), a
cancelled one is abandoned. -/
theorem C17_recv_inactivity_not_late (s : State) (now : Nat) (hp : s.timer.inactivity.paused = false)
    (hT : 0 < s.timer.inactivity.timeout) (hc : s.timer.inactivity.count ≤ s.timer.inactivity.max)
    (hd : s.timer.inactivity.start + (s.timer.inactivity.max - s.timer.inactivity.count) * s.timer.inactivity.timeout ≤ now) :
    (s.recvState ≠ .Cancelled →
      (handleInactivity s now).1 =
        (handleFault { s with timer := { s.timer with inactivity := (s.timer.inactivity.limitReached now).1 } }
          .InactivityDetected now).1) ∧
    (s.recvState = .Cancelled → (handleInactivity s now).1.state = .Terminated) := by
  have hl := C17_limit_not_late s.timer.inactivity now hp hT hc hd
  refine ⟨?_, ?_⟩
  · intro hn
    have : (s.recvState == RecvState.Cancelled) = false := by cases hr : s.recvState <;> simp_all
    simp only [handleInactivity, hl, if_true, this, Bool.false_eq_true, if_false]
  · intro hcn
    exact ((C03_recv_inactivity_limit s now hl).1 hcn).1

/-- **C17 (receiver, positive-ACK limit, never late).** -/
theorem C17_recv_ack_not_late (s : State) (now : Nat) (b : Bool) (hp : s.timer.ack.paused = false)
    (hT : 0 < s.timer.ack.timeout) (hc : s.timer.ack.count ≤ s.timer.ack.max)
    (hd : s.timer.ack.start + (s.timer.ack.max - s.timer.ack.count) * s.timer.ack.timeout ≤ now) :
    handleAckTimer s now b =
      (if b then abandon { s with timer := { s.timer with ack := (s.timer.ack.limitReached now).1 } } now
       else (handleFault { s with timer := { s.timer with ack := (s.timer.ack.limitReached now).1 } }
          .PositiveLimitReached now).1) := by
  have hl := C17_limit_not_late s.timer.ack now hp hT hc hd
  simp only [handleAckTimer, hl, if_true]

/-- **C17 (receiver, NAK limit, never late).**  With no new data since the previous NAK, a NAK that is due when the
running NAK counter is at or past `start + (max - count) · timeout` is not sent: the NakLimitReached fault is raised. -/
theorem C17_recv_nak_not_late (s : State) (now : Nat) (hnr : (s.nakReceived == s.received) = true)
    (hp : s.timer.nak.paused = false) (hT : 0 < s.timer.nak.timeout) (hc : s.timer.nak.count ≤ s.timer.nak.max)
    (hd : s.timer.nak.start + (s.timer.nak.max - s.timer.nak.count) * s.timer.nak.timeout ≤ now) :
    ∃ f, f = handleFault { s with timer := { s.timer with nak := (s.timer.nak.limitReached now).1 } } .NakLimitReached now ∧
      (sendNaksTimer s now).1.out = (if !f.2 then f.1 else f.1).out ∧
      (f.2 = false → sendNaks s now = f.1) := by
  have hl := C17_limit_not_late s.timer.nak now hp hT hc hd
  refine ⟨_, rfl, ?_, ?_⟩
  · simp only [sendNaksTimer, hnr, if_true, hl]
    split <;> rfl
  · intro hf
    simp only [sendNaks, sendNaksTimer, hnr, if_true, hl, hf, Bool.not_false]

end Cfdp.Recv

namespace Cfdp.Send
open Cfdp.Codec Cfdp.Gen Cfdp.Timer

/-- **C17 (sender, inactivity limit, never late).** -/
theorem C17_send_inactivity_not_late (s : State) (now : Nat) (b : Bool) (hp : s.timer.inactivity.paused = false)
    (hT : 0 < s.timer.inactivity.timeout) (hc : s.timer.inactivity.count ≤ s.timer.inactivity.max)
    (hd : s.timer.inactivity.start + (s.timer.inactivity.max - s.timer.inactivity.count) * s.timer.inactivity.timeout ≤ now) :
    handleInactivity s now b =
      (if b then abandon { s with timer := { s.timer with inactivity := (s.timer.inactivity.limitReached now).1 } } now
       else handleFault { s with timer := { s.timer with inactivity := (s.timer.inactivity.limitReached now).1 } }
          .InactivityDetected now) := by
  have hl := C17_limit_not_late s.timer.inactivity now hp hT hc hd
  simp only [handleInactivity, hl, if_true]

/-- **C17 (sender, positive-ACK limit, never late).**  With at least one expiration still to go, a look at the
running positive-ACK counter at or after `start + (max - count) · timeout` finds an expiry and the limit:
the fault is raised (a cancelled transaction is abandoned) in that call. -/
theorem C17_send_ack_not_late (s : State) (now : Nat) (b : Bool) (hp : s.timer.ack.paused = false)
    (hT : 0 < s.timer.ack.timeout) (hc : s.timer.ack.count < s.timer.ack.max)
    (hd : s.timer.ack.start + (s.timer.ack.max - s.timer.ack.count) * s.timer.ack.timeout ≤ now) :
    handleAckTimer s now b =
      (if b then abandon { s with timer := { s.timer with ack := ((s.timer.ack.timeoutOccurred now).1.limitReached now).1 } } now
       else handleFault { s with timer := { s.timer with ack := ((s.timer.ack.timeoutOccurred now).1.limitReached now).1 } }
          .PositiveLimitReached now) := by
  have hl := C17_limit_not_late s.timer.ack now hp hT (Nat.le_of_lt hc) hd
  -- an expiry has been seen
  have hocc : (s.timer.ack.timeoutOccurred now).2 = true := by
    have hge : s.timer.ack.timeout ≤ now - s.timer.ack.start := by
      have : 1 ≤ s.timer.ack.max - s.timer.ack.count := by omega
      have := Nat.mul_le_mul_right s.timer.ack.timeout this
      omega
    have hu : s.timer.ack.update now = updateLoop (now - s.timer.ack.start + 1) now s.timer.ack := by
      simp only [Counter.update, hp, Bool.false_eq_true, if_false]
    obtain ⟨_, _, h3⟩ := updateLoop_closed (now - s.timer.ack.start + 1) now s.timer.ack hT (Nat.le_of_lt hc)
      (Nat.lt_succ_of_le (Nat.div_le_self _ _))
    have hpos : 0 < (now - s.timer.ack.start) / s.timer.ack.timeout := Nat.div_pos hge hT
    simp only [Counter.timeoutOccurred, hu, h3, hpos, decide_true, Bool.or_true]
  -- and looking again at the same instant still finds the limit
  have hl2 : ((s.timer.ack.timeoutOccurred now).1.limitReached now).2 = true := by
    have hcnt : (s.timer.ack.update now).count = (s.timer.ack.update now).max := by
      simpa [Counter.limitReached] using hl
    have hpu : (s.timer.ack.update now).paused = false := by rw [Cfdp.Timer.paused_update]; exact hp
    have hTu : 0 < (s.timer.ack.update now).timeout := by
      have := (updateLoop_fields (now - s.timer.ack.start + 1) now s.timer.ack).1
      simp only [Counter.update, hp, Bool.false_eq_true, if_false, this]; exact hT
    have := C17_limit_not_late (s.timer.ack.update now) now hpu hTu (Nat.le_of_eq hcnt) (by
      rw [hcnt, Nat.sub_self, Nat.zero_mul, Nat.add_zero]
      have hu : s.timer.ack.update now = updateLoop (now - s.timer.ack.start + 1) now s.timer.ack := by
        simp only [Counter.update, hp, Bool.false_eq_true, if_false]
      obtain ⟨_, h2, _⟩ := updateLoop_closed (now - s.timer.ack.start + 1) now s.timer.ack hT (Nat.le_of_lt hc)
        (Nat.lt_succ_of_le (Nat.div_le_self _ _))
      rw [hu, h2]
      have := Nat.div_mul_le_self (now - s.timer.ack.start) s.timer.ack.timeout
      omega)
    simpa [Counter.timeoutOccurred] using this
  simp only [handleAckTimer, hocc, if_true, hl2]

end Cfdp.Send

namespace Cfdp.Timer

/-- the computed sleep never goes past the expiry of a running counter -/
theorem untilTimeout_le_running (tm : Timer) (now x : Nat) (h : tm.untilTimeout now = some x) :
    (tm.ack.paused = false → x ≤ tm.ack.untilTimeout now) ∧ (tm.nak.paused = false → x ≤ tm.nak.untilTimeout now) ∧
    (tm.inactivity.paused = false → x ≤ tm.inactivity.untilTimeout now) := by
  simp only [Timer.untilTimeout] at h
  generalize tm.ack.untilTimeout now = a at h ⊢
  generalize tm.nak.untilTimeout now = b at h ⊢
  generalize tm.inactivity.untilTimeout now = c at h ⊢
  cases hpa : tm.ack.paused <;> cases hpn : tm.nak.paused <;> cases hpi : tm.inactivity.paused <;>
    simp only [hpa, hpn, hpi, Bool.not_true, Bool.not_false, Bool.false_eq_true, if_false, if_true, optMin,
      Option.some.injEq, reduceCtorEq] at h
  all_goals (refine ⟨fun hh => ?_, fun hh => ?_, fun hh => ?_⟩ <;> first | omega | (cases hh))

end Cfdp.Timer

namespace Cfdp.Loop
open Cfdp.Codec Cfdp.Gen Cfdp.Timer

/-- **C17 (the loop looks in time).**  The sleep a receive transaction's task computes never goes past the expiry
of any of its running counters: `handle_timeout` runs at the expiry, not later (on the model's clock; what the
runtime adds is outside the model).  With `C17_limit_not_late` and `C03_recv_never_stuck`: the limit fault is
declared at the wake-up of the `max`-th expiry. -/
theorem C17_recv_wakes_by_expiry (s : Recv.State) (now d : Nat) (h : Recv.untilTimeout s now = some d) :
    (s.timer.ack.paused = false → d ≤ s.timer.ack.untilTimeout now) ∧
    (s.timer.nak.paused = false → d ≤ s.timer.nak.untilTimeout now) ∧
    (s.timer.inactivity.paused = false → d ≤ s.timer.inactivity.untilTimeout now) := by
  simp only [Recv.untilTimeout] at h
  split at h
  · cases h
  · cases hh : s.delayed.head? with
    | none =>
      simp only [hh] at h
      exact untilTimeout_le_running s.timer now d h
    | some x =>
      obtain ⟨c, a, b⟩ := x
      simp only [hh, Option.some.injEq] at h
      cases ht : s.timer.untilTimeout now with
      | none =>
        simp only [Timer.untilTimeout] at ht
        refine ⟨fun hp => ?_, fun hp => ?_, fun hp => ?_⟩ <;>
          (cases hpa : s.timer.ack.paused <;> cases hpn : s.timer.nak.paused <;> cases hpi : s.timer.inactivity.paused <;>
            simp_all [optMin])
      | some y =>
        simp only [ht] at h
        obtain ⟨k1, k2, k3⟩ := untilTimeout_le_running s.timer now y ht
        exact ⟨fun hp => by have := k1 hp; omega, fun hp => by have := k2 hp; omega, fun hp => by have := k3 hp; omega⟩

/-- the same for a send transaction (its NAK counter never runs) -/
theorem C17_send_wakes_by_expiry (s : Send.State) (now d : Nat) (h : Send.untilTimeout s now = some d) :
    (s.timer.ack.paused = false → d ≤ s.timer.ack.untilTimeout now) ∧
    (s.timer.inactivity.paused = false → d ≤ s.timer.inactivity.untilTimeout now) := by
  simp only [Send.untilTimeout] at h
  split at h
  · cases h
  · split at h
    · obtain ⟨k1, _, k3⟩ := untilTimeout_le_running s.timer now d h; exact ⟨k1, k3⟩
    · obtain ⟨k1, _, k3⟩ := untilTimeout_le_running s.timer now d h; exact ⟨k1, k3⟩
    · cases h

end Cfdp.Loop

#print axioms Cfdp.Loop.C17_recv_wakes_by_expiry
#print axioms Cfdp.Loop.C17_send_wakes_by_expiry
#print axioms Cfdp.Send.C17_send_ack_not_late
#print axioms Cfdp.Timer.C17_limit_not_late
#print axioms Cfdp.Recv.C17_recv_inactivity_not_late
#print axioms Cfdp.Recv.C17_recv_ack_not_late
#print axioms Cfdp.Recv.C17_recv_nak_not_late
#print axioms Cfdp.Send.C17_send_inactivity_not_late

#print axioms Cfdp.Timer.updateLoop_closed
#print axioms Cfdp.Timer.C17_limit_not_early
#print axioms Cfdp.Timer.C17_counter_history
#print axioms Cfdp.Recv.C17_recv_handler
#print axioms Cfdp.Recv.C17_recv_default_cancel
#print axioms Cfdp.Recv.C17_recv_abandon
#print axioms Cfdp.Recv.C17_recv_progress_resets
#print axioms Cfdp.Recv.C17_recv_nak_progress
#print axioms Cfdp.Recv.C17_recv_ack_expiry
#print axioms Cfdp.Send.C17_send_handler
#print axioms Cfdp.Send.C17_send_default_cancel
#print axioms Cfdp.Send.C17_send_abandon
#print axioms Cfdp.Send.C17_send_ack_expiry
#print axioms Cfdp.Send.C17_send_eof_rearms
#print axioms Cfdp.Send.C17_send_progress_resets
#print axioms Cfdp.Send.C17_send_ack_not_early
#print axioms Cfdp.Send.C17_send_inactivity_not_early
#print axioms Cfdp.Recv.C17_recv_ack_not_early
#print axioms Cfdp.Recv.C17_recv_inactivity_not_early
#print axioms Cfdp.Recv.C17_recv_nak_not_early
#print axioms Cfdp.Loop.C17_send_timers
#print axioms Cfdp.Loop.C17_recv_timers
