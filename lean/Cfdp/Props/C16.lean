import Cfdp.Model.Udp

/-!
# C16 — a datagram is decoded from its own bytes only
-/
namespace Cfdp.Udp
open Cfdp.Codec

theorem recvFrom_length (buf dg : Bytes) : (recvFrom buf dg).1.length = buf.length := by
  simp [recvFrom]; omega

theorem bufferAfter_length (hist : List Bytes) : (bufferAfter hist).length = Cfdp.Gen.udpBufferSize := by
  unfold bufferAfter
  suffices h : ∀ b : Bytes, b.length = Cfdp.Gen.udpBufferSize →
      (hist.foldl (fun b d => (receive b d).1) b).length = Cfdp.Gen.udpBufferSize by
    exact h initBuffer (by simp [initBuffer])
  induction hist with
  | nil => intro b hb; exact hb
  | cons d ds ih =>
    intro b hb
    simp only [List.foldl_cons]
    apply ih
    simp [receive, recvFrom_length, hb]

/-- whatever the buffer holds, the bytes handed to the decoder are the datagram's own -/
theorem receive_window (buf dg : Bytes) (h : dg.length ≤ buf.length) :
    (receive buf dg).2 = Pdu.decode dg := by
  simp only [receive, recvFrom]
  have : dg.take buf.length = dg := List.take_of_length_le h
  rw [this]
  simp

/-- **C16.**  After any history of datagrams — in particular earlier, longer ones — the PDU
returned for a datagram is the decoding of that datagram's bytes alone: stale buffer contents
never become part of it, so a truncated datagram is rejected exactly when its own bytes are. -/
theorem C16 (hist : List Bytes) (dg : Bytes) (h : dg.length ≤ Cfdp.Gen.udpBufferSize) :
    (receive (bufferAfter hist) dg).2 = Pdu.decode dg :=
  receive_window _ dg (by rw [bufferAfter_length]; exact h)

/-- non-vacuity: a history with a longer datagram followed by a truncation -/
example : (receive (bufferAfter [[0x89, 0, 2, 0x80, 0, 0, 1, 9, 0x80]]) [0x89, 0, 2]).2
    = Pdu.decode [0x89, 0, 2] := C16 _ _ (by decide)

end Cfdp.Udp

open Cfdp.Udp in
#print axioms C16
open Cfdp.Udp in
#print axioms receive_window
open Cfdp.Udp in
#print axioms bufferAfter_length
