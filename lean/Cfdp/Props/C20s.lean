import Cfdp.Props.C20

/-! # C20, sender: the progress figure is the highest offset transmitted so far -/
namespace Cfdp.Loop
open Cfdp.Codec Cfdp.Gen Cfdp.Send

/-- one call advances the figure to the maximum of the old figure and the end of the data it transmitted -/
def Adv (s s' : Send.State) : Prop := s'.progress = max s.progress (hiOf s'.sent)

theorem hiOf_directive (h : Header) (p : Payload) (hp : ∀ off d, p ≠ .fileData off d) :
    hiOf (some { header := h, payload := p }) = 0 := by
  cases p <;> first | rfl | (rename_i off d; exact absurd rfl (hp off d))

theorem adv_same {s s' : Send.State} (hs : s.sent = none) (h1 : s'.progress = s.progress) (h2 : s'.sent = s.sent) :
    Adv s s' := by
  unfold Adv; rw [h1, h2, hs]; simp [hiOf]

theorem adv_sendPayload (s : Send.State) (p : Payload) (hp : ∀ off d, p ≠ .fileData off d) :
    Adv s (sendPayload s p) := by
  unfold Adv
  rw [progress_sendPayload]
  simp only [sendPayload, hiOf_directive _ p hp, Nat.max_zero]

theorem adv_frame {s s' s'' : Send.State} (h : Adv s s') (h1 : s''.progress = s'.progress) (h2 : s''.sent = s'.sent) :
    Adv s s'' := by
  unfold Adv at *; rw [h1, h2]; exact h

theorem adv_base {s0 s s' : Send.State} (h : Adv s s') (h1 : s.progress = s0.progress) : Adv s0 s' := by
  unfold Adv at *; rw [← h1]; exact h

theorem adv_sendFileSegment (s : Send.State) (o l : Option Nat) : Adv s (sendFileSegment s o l) :=
  progress_sendFileSegment s o l

theorem adv_answerNak (s : Send.State) (hs : s.sent = none) (a b : Nat) : Adv s (answerNak s a b) := by
  simp only [answerNak]
  repeat' split
  · exact adv_same hs rfl rfl
  · exact adv_sendPayload _ _ (by intro off d h; cases h)
  · exact adv_frame (adv_base (adv_sendFileSegment (openHandle s) _ _) (by simp)) rfl rfl

theorem adv_sendMissingData (s : Send.State) (hs : s.sent = none) (now : Nat) : Adv s (sendMissingData s now) := by
  simp only [sendMissingData]
  split
  · exact adv_same hs rfl rfl
  · exact adv_base (adv_answerNak (popNak s now) (by simp [hs]) _ _) (by simp)

theorem adv_sendEof (s : Send.State) (hs : s.sent = none) (now : Nat) : Adv s (sendEof s now) := by
  simp only [sendEof]
  split
  · rename_i e he
    have h1 : Adv s (sendPayload { s with timer := { s.timer with ack := s.timer.ack.restart now } } (.eof e)) :=
      adv_base (adv_sendPayload _ _ (by intro off d h; cases h)) rfl
    exact adv_frame h1 (by simp) (by simp [setEofFlag]; split <;> rfl)
  · exact adv_same hs rfl rfl

theorem adv_sendPduEof (s : Send.State) (hs : s.sent = none) (now : Nat) : Adv s (sendPduEof s now) := by
  have h1 := adv_sendEof s hs now
  simp only [sendPduEof]
  repeat' split
  all_goals first
    | exact h1
    | exact adv_frame h1 (by simp) (by simp)
    | exact adv_frame h1 rfl rfl

theorem adv_sendPdu (s : Send.State) (hs : s.sent = none) (now : Nat) : Adv s (sendPdu s now) := by
  simp only [sendPdu]
  repeat' split
  · -- prompt
    simp only [sendPrompt]
    split
    · exact adv_base (adv_sendPayload _ _ (by intro off d h; cases h)) rfl
    · exact adv_same hs rfl rfl
  · -- metadata
    have h1 : Adv s (sendMetadata s) := adv_sendPayload _ _ (by intro off d h; cases h)
    simp only [sendPduMetadata]
    split
    · exact adv_frame h1 rfl rfl
    · exact adv_frame h1 (by simp) (by simp)
  · -- data
    simp only [sendPduData]
    split
    · exact adv_frame (adv_sendMissingData s hs now) (by simp) (by simp)
    · exact adv_frame (adv_sendFileSegment s none none) (by simp) (by simp)
  · exact adv_sendMissingData s hs now
  · exact adv_sendPduEof s hs now
  · exact adv_sendEof s hs now
  · simp only [sendAck]
    split
    · rename_i a ha
      have h1 : Adv s (sendPayload { s with ack := none } (.ack a)) :=
        adv_base (adv_sendPayload _ _ (by intro off d h; cases h)) rfl
      exact adv_frame h1 (by simp) (by simp)
    · exact adv_same hs rfl rfl

theorem adv_sendStep (s : Send.State) (now : Nat) (e : Ev) : Adv s (sendStep s now e) := by
  have hs0 : ({ s with sent := none, out := [] } : Send.State).sent = none := rfl
  have base : ∀ s', Adv { s with sent := none, out := [] } s' → Adv s s' := fun s' h => adv_base h rfl
  simp only [sendStep]
  split
  · exact base _ (adv_same hs0 rfl rfl)
  · apply base
    cases e with
    | pdu p => exact adv_same hs0 (by simp) (by simp)
    | send =>
      dsimp only
      split
      · exact adv_sendPdu _ hs0 now
      · exact adv_same hs0 rfl rfl
    | timeout =>
      dsimp only
      split
      · exact adv_same hs0 (by simp) (by simp)
      · exact adv_same hs0 rfl rfl
    | cancel => exact adv_same hs0 (by simp) (by simp)
    | suspend => exact adv_same hs0 (by simp) (by simp)
    | resume => exact adv_same hs0 (by simp) (by simp)
    | report => exact adv_same hs0 (by simp) (by simp)
    | abandon => exact adv_same hs0 (by simp) (by simp)
    | prompt k => exact adv_same hs0 (by simp) (by simp)

/-- the highest file offset carried by any PDU of a list -/
def maxHi : List Pdu → Nat
  | [] => 0
  | p :: rest => max (hiOf (some p)) (maxHi rest)

theorem maxHi_append (a b : List Pdu) : maxHi (a ++ b) = max (maxHi a) (maxHi b) := by
  induction a with
  | nil => simp [maxHi]
  | cons p rest ih => simp only [List.cons_append, maxHi, ih]; omega

theorem run_progress (s : Send.State) (evs : List (Nat × Ev)) :
    (sendRun s evs).1.progress = max s.progress (maxHi (sendRun s evs).2) := by
  induction evs generalizing s with
  | nil => simp [sendRun, maxHi]
  | cons x rest ih =>
    obtain ⟨now, e⟩ := x
    have h1 : (sendStep s now e).progress = max s.progress (hiOf (sendStep s now e).sent) := adv_sendStep s now e
    simp only [sendRun, maxHi_append]
    rw [ih, h1]
    cases hsent : (sendStep s now e).sent with
    | none => simp [hiOf, maxHi]
    | some p => simp only [Option.toList, maxHi]; omega

/-- **C20 (sender).**  After every history of events the sender's progress figure — what it
reports in Fault, Abandon and Resumed indications — is exactly the highest file offset it has
transmitted so far (0 if it has transmitted no file data); by C20_send_le it never exceeds the
file size. -/
theorem C20_send_history (cfg : Send.Config) (md : Send.Meta) (file : Bytes) (t0 : Nat) (evs : List (Nat × Ev)) :
    (sendRun (Send.new cfg md file t0) evs).1.progress = maxHi (sendRun (Send.new cfg md file t0) evs).2 := by
  rw [run_progress]
  have : (Send.new cfg md file t0).progress = 0 := rfl
  rw [this]; omega

end Cfdp.Loop

#print axioms Cfdp.Loop.C20_send_history
#print axioms Cfdp.Loop.C20_recv
#print axioms Cfdp.Loop.C20_recv_mono
#print axioms Cfdp.Loop.C20_recv_reports
#print axioms Cfdp.Loop.progress_sendFileSegment
#print axioms Cfdp.Loop.C20_send_le
