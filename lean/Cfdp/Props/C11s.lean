import Cfdp.Model.System
import Cfdp.Props.C11

/-! # C11, whole daemon: what an operation does to the transactions it does not concern -/
namespace Cfdp.System
open Cfdp.Daemon Cfdp.Loop Cfdp.Codec

theorem upd_ne (f : Tid → Option Txn) (k k' : Tid) (v : Option Txn) (h : k' ≠ k) : upd f k v k' = f k' := by
  simp only [upd, if_neg h]

theorem txns_runTask (sys : Sys) (k k' : Tid) (now : Nat) (e : Ev) (h : k' ≠ k) :
    (runTask sys k now e).txns k' = sys.txns k' := by
  simp only [runTask]
  split
  · rfl
  · exact upd_ne _ _ _ _ h

/-- the transaction a routed PDU reaches is the one its header names -/
theorem route_id (d : DState) (h : Hdr) :
    (∀ k, (route d h).1 = .forward k → k = key h) ∧ (∀ k, (route d h).1 = .spawnRecv k → k = key h) := by
  simp only [route]
  repeat' split
  all_goals (constructor <;> intro k hk <;> first | (cases hk; rfl) | cases hk)

/-- **C11 (isolation, one operation).**  An operation of the daemon - a PDU arriving (for a live
transaction, starting a new one, or stray), a loop iteration of some transaction task, a Put
request, the periodic clean-up - leaves the state of every transaction it does not concern exactly
as it was: no PDU, timer, user command or new transaction of one transfer can change another. -/
theorem C11_isolated_step (su : Setup) (sys : Sys) (o : Op) (k : Tid) (h : addr sys o ≠ some k) :
    (step su sys o).txns k = sys.txns k := by
  cases o with
  | pdu hd p now =>
    have hk : k ≠ key hd := fun e => h (by simp [addr, e])
    simp only [step]
    obtain ⟨r1, r2⟩ := route_id sys.d hd
    split
    · rename_i k' d' hr
      have : k' = key hd := r1 k' (by rw [hr])
      rw [txns_runTask _ _ _ _ _ (by rw [this]; exact hk)]
    · rename_i k' d' hr
      have : k' = key hd := r2 k' (by rw [hr])
      rw [txns_runTask _ _ _ _ _ (by rw [this]; exact hk)]
      exact upd_ne _ _ _ _ (by rw [this]; exact hk)
    · rfl
  | ev k' now e =>
    have hk : k ≠ k' := fun e => h (by simp [addr, e])
    simp only [step]
    split
    · exact txns_runTask _ _ _ _ _ hk
    · rfl
  | put dest cfg md file now =>
    have hk : k ≠ (sys.d.entity, sys.d.nextSeq) := fun e => h (by simp [addr, e])
    simp only [step, Daemon.put]
    split
    · rename_i id d' hp
      split at hp
      · cases hp; exact upd_ne _ _ _ _ hk
      · cases hp
    · rfl
  | cleanup => rfl

/-- no operation of the history concerns transaction `k` -/
def NoTouch (su : Setup) (k : Tid) : Sys → List Op → Prop
  | _, [] => True
  | sys, o :: rest => addr sys o ≠ some k ∧ NoTouch su k (step su sys o) rest

/-- **C11 (isolation, histories).**  Over any interleaving of operations of other transactions -
their PDUs, strays and replays with other identifiers, their timers and user commands, new Put
requests, clean-ups - the state of transaction `k` does not change. -/
theorem C11_isolated_run (su : Setup) (k : Tid) (sys : Sys) (ops : List Op) (h : NoTouch su k sys ops) :
    (run su sys ops).txns k = sys.txns k := by
  induction ops generalizing sys with
  | nil => rfl
  | cons o rest ih =>
    simp only [run, List.foldl_cons]
    have := ih (step su sys o) h.2
    simp only [run] at this
    rw [this]
    exact C11_isolated_step su sys o k h.1

theorem taskEnded_other (d : DState) (id k : Tid) (h : k ≠ id) :
    (k ∈ (taskEnded d id).entries ↔ k ∈ d.entries) ∧ (k ∈ (taskEnded d id).dead ↔ k ∈ d.dead) := by
  simp only [taskEnded]
  split
  · simp [h]
  · exact ⟨Iff.rfl, Iff.rfl⟩

theorem d_runTask (sys : Sys) (k' k : Tid) (now : Nat) (e : Ev) (h : k ≠ k') :
    (k ∈ (runTask sys k' now e).d.entries ↔ k ∈ sys.d.entries) ∧ (k ∈ (runTask sys k' now e).d.dead ↔ k ∈ sys.d.dead) := by
  simp only [runTask]
  split
  · exact ⟨Iff.rfl, Iff.rfl⟩
  · dsimp only
    split
    · exact taskEnded_other _ _ _ h
    · exact ⟨Iff.rfl, Iff.rfl⟩

/-- **C11 (isolation, the table).**  Nor does such an operation touch the table entry of a
transaction it does not concern: the entry and its liveness stay (the clean-up removes exactly the
entries of ended tasks, `Daemon.cleanup`). -/
theorem C11_table_step (su : Setup) (sys : Sys) (o : Op) (k : Tid) (h : addr sys o ≠ some k) (hc : addr sys o ≠ none) :
    (k ∈ (step su sys o).d.entries ↔ k ∈ sys.d.entries) ∧ (k ∈ (step su sys o).d.dead ↔ k ∈ sys.d.dead) := by
  cases o with
  | pdu hd p now =>
    have hk : k ≠ key hd := fun e => h (by simp [addr, e])
    obtain ⟨c1, c2, _, _⟩ := C11_route_isolated sys.d hd k hk
    obtain ⟨r1, r2⟩ := route_id sys.d hd
    simp only [step]
    split
    · rename_i k' d' hr
      have hk' : k' = key hd := r1 k' (by rw [hr])
      have hd' : d' = (route sys.d hd).2 := by rw [hr]
      obtain ⟨a1, a2⟩ := d_runTask { sys with d := d' } k' k now (.pdu p) (by rw [hk']; exact hk)
      rw [← hd'] at c1 c2
      exact ⟨a1.trans c1, a2.trans c2⟩
    · rename_i k' d' hr
      have hk' : k' = key hd := r2 k' (by rw [hr])
      have hd' : d' = (route sys.d hd).2 := by rw [hr]
      obtain ⟨a1, a2⟩ := d_runTask { d := d', txns := upd sys.txns k' (some (.recv (Recv.new (su.recvCfg hd) su.fs now))) }
        k' k now (.pdu p) (by rw [hk']; exact hk)
      rw [← hd'] at c1 c2
      exact ⟨a1.trans c1, a2.trans c2⟩
    · rename_i dec d' _ _ hr
      have hd' : d' = (route sys.d hd).2 := by rw [hr]
      rw [hd']
      exact ⟨c1, c2⟩
  | ev k' now e =>
    have hk : k ≠ k' := fun e => h (by simp [addr, e])
    simp only [step]
    split
    · exact d_runTask _ _ _ _ _ hk
    · exact ⟨Iff.rfl, Iff.rfl⟩
  | put dest cfg md file now =>
    have hk : k ≠ (sys.d.entity, sys.d.nextSeq) := fun e => h (by simp [addr, e])
    simp only [step, Daemon.put]
    split
    · rename_i id d' hp
      split at hp
      · cases hp; simp [hk]
      · cases hp
    · rename_i d' hp
      split at hp
      · cases hp
      · cases hp; exact ⟨Iff.rfl, Iff.rfl⟩
  | cleanup => exact absurd rfl hc

/-! ### order independence -/

/-- two daemons agree on what concerns transaction `k` -/
structure Agree (k : Tid) (a b : Sys) : Prop where
  txn : a.txns k = b.txns k
  entries : k ∈ a.d.entries ↔ k ∈ b.d.entries
  dead : k ∈ a.d.dead ↔ k ∈ b.d.dead
  peers : a.d.peers = b.d.peers

theorem contains_congr {l l' : List Tid} {k : Tid} (h : k ∈ l ↔ k ∈ l') : l.contains k = l'.contains k := by
  cases h1 : l.contains k <;> cases h2 : l'.contains k <;> simp_all

/-- the routing decision for a PDU only reads the entry of its own transaction and the list of
entities with a transport -/
theorem route_congr (a b : DState) (h : Hdr) (he : key h ∈ a.entries ↔ key h ∈ b.entries)
    (hd : key h ∈ a.dead ↔ key h ∈ b.dead) (hp : a.peers = b.peers) : (route a h).1 = (route b h).1 := by
  simp only [route, contains_congr he, contains_congr hd, hp]
  repeat' split
  all_goals rfl

theorem txns_runTask_self (sys : Sys) (k : Tid) (now : Nat) (e : Ev) :
    (runTask sys k now e).txns k = (sys.txns k).map (fun t => t.step now e) := by
  simp only [runTask]
  split
  · rename_i h; rw [h]; rfl
  · rename_i t h; rw [h]; simp [upd]

theorem step_pdu_eq (su : Setup) (sys : Sys) (h : Hdr) (p : Pdu) (now : Nat) :
    step su sys (.pdu h p now) =
      (match (route sys.d h).1 with
       | .forward k => runTask { sys with d := (route sys.d h).2 } k now (.pdu p)
       | .spawnRecv k =>
         runTask { d := (route sys.d h).2, txns := upd sys.txns k (some (.recv (Recv.new (su.recvCfg h) su.fs now))) } k now (.pdu p)
       | _ => { sys with d := (route sys.d h).2 }) := by
  simp only [step]
  rcases hr : route sys.d h with ⟨dec, d'⟩
  cases dec <;> rfl

/-- what an operation does to the transaction it concerns only depends on that transaction's own
state, its own table entry and the list of entities with a transport -/
theorem own_congr (su : Setup) (a b : Sys) (o : Op) (k : Tid) (hag : Agree k a b)
    (ho : (∃ h p now, o = .pdu h p now ∧ key h = k) ∨ (∃ now e, o = .ev k now e)) :
    (step su a o).txns k = (step su b o).txns k := by
  rcases ho with ⟨h, p, now, rfl, hk⟩ | ⟨now, e, rfl⟩
  · subst hk
    have hr := route_congr a.d b.d h hag.entries hag.dead hag.peers
    obtain ⟨r1, r2⟩ := route_id a.d h
    rw [step_pdu_eq, step_pdu_eq, ← hr]
    cases hda : (route a.d h).1 with
    | forward k' =>
      have hk' : k' = key h := r1 k' hda
      subst hk'
      dsimp only
      rw [txns_runTask_self, txns_runTask_self]
      show (a.txns (key h)).map _ = (b.txns (key h)).map _
      rw [hag.txn]
    | spawnRecv k' =>
      have hk' : k' = key h := r2 k' hda
      subst hk'
      dsimp only
      rw [txns_runTask_self, txns_runTask_self]
      simp [upd]
    | unableToResume k' => exact hag.txn
    | noTransport => exact hag.txn
  · simp only [step, contains_congr hag.entries, contains_congr hag.dead]
    split
    · rw [txns_runTask_self, txns_runTask_self, hag.txn]
    · exact hag.txn

/-- an operation that concerns `k1` leaves a daemon that agrees with the old one on every other `k2` -/
theorem agree_step (su : Setup) (sys : Sys) (o : Op) (k2 : Tid) (h : addr sys o ≠ some k2) (hc : addr sys o ≠ none) :
    Agree k2 (step su sys o) sys := by
  obtain ⟨t1, t2⟩ := C11_table_step su sys o k2 h hc
  refine ⟨C11_isolated_step su sys o k2 h, t1, t2, ?_⟩
  cases o with
  | pdu hd p now =>
    rw [step_pdu_eq]
    have hp : (route sys.d hd).2.peers = sys.d.peers := by
      simp only [route]; repeat' split
      all_goals rfl
    cases (route sys.d hd).1 <;> dsimp only
    · simp only [runTask]; split
      · exact hp
      · dsimp only; split
        · simp only [taskEnded]; split <;> exact hp
        · exact hp
    · simp only [runTask]; split
      · exact hp
      · dsimp only; split
        · simp only [taskEnded]; split <;> exact hp
        · exact hp
    · exact hp
    · exact hp
  | ev k' now e =>
    simp only [step]
    split
    · simp only [runTask]; split
      · rfl
      · dsimp only; split
        · simp only [taskEnded]; split <;> rfl
        · rfl
    · rfl
  | put dest cfg md file now =>
    simp only [step, Daemon.put]
    split
    · rename_i id d' hp
      split at hp
      · cases hp; rfl
      · cases hp
    · rename_i d' hp
      split at hp
      · cases hp
      · cases hp; rfl
  | cleanup => exact absurd rfl hc

/-- **C11 (interleaving does not matter).**  Two operations that concern different transactions
(PDUs for them - also strays and PDUs that start a transaction - and loop iterations of their
tasks) can be performed in either order: every transaction ends up in the same state. -/
theorem C11_commute (su : Setup) (sys : Sys) (o1 o2 : Op) (k1 k2 : Tid) (hne : k1 ≠ k2)
    (h1 : (∃ h p now, o1 = .pdu h p now ∧ key h = k1) ∨ (∃ now e, o1 = .ev k1 now e))
    (h2 : (∃ h p now, o2 = .pdu h p now ∧ key h = k2) ∨ (∃ now e, o2 = .ev k2 now e)) :
    (step su (step su sys o1) o2).txns = (step su (step su sys o2) o1).txns := by
  have a1 : ∀ s : Sys, addr s o1 = some k1 := by
    intro s; rcases h1 with ⟨h, p, now, rfl, hk⟩ | ⟨now, e, rfl⟩ <;> simp [addr, *]
  have a2 : ∀ s : Sys, addr s o2 = some k2 := by
    intro s; rcases h2 with ⟨h, p, now, rfl, hk⟩ | ⟨now, e, rfl⟩ <;> simp [addr, *]
  have n12 : ∀ s : Sys, addr s o1 ≠ some k2 := by intro s; rw [a1]; intro h; cases h; exact hne rfl
  have n21 : ∀ s : Sys, addr s o2 ≠ some k1 := by intro s; rw [a2]; intro h; cases h; exact hne rfl
  have c1 : ∀ s : Sys, addr s o1 ≠ none := by intro s; rw [a1]; intro h; cases h
  have c2 : ∀ s : Sys, addr s o2 ≠ none := by intro s; rw [a2]; intro h; cases h
  funext k
  by_cases e1 : k = k1
  · subst e1
    rw [C11_isolated_step su (step su sys o1) o2 k (n21 _)]
    exact (own_congr su (step su sys o2) sys o1 k (agree_step su sys o2 k (n21 _) (c2 _)) h1).symm
  · by_cases e2 : k = k2
    · subst e2
      rw [C11_isolated_step su (step su sys o2) o1 k (n12 _)]
      exact own_congr su (step su sys o1) sys o2 k (agree_step su sys o1 k (n12 _) (c1 _)) h2
    · have x1 : ∀ s : Sys, addr s o1 ≠ some k := by intro s; rw [a1]; intro h; cases h; exact e1 rfl
      have x2 : ∀ s : Sys, addr s o2 ≠ some k := by intro s; rw [a2]; intro h; cases h; exact e2 rfl
      rw [C11_isolated_step su _ o2 k (x2 _), C11_isolated_step su _ o1 k (x1 _),
        C11_isolated_step su _ o1 k (x1 _), C11_isolated_step su _ o2 k (x2 _)]

/-- the premises are satisfiable: a timer wake-up of transaction (2, 5) does not concern (1, 1) -/
example (su : Setup) (sys : Sys) : NoTouch su (1, 1) sys [.ev (2, 5) 0 .timeout, .cleanup] := by
  refine ⟨?_, ?_, trivial⟩ <;> simp [addr]

end Cfdp.System

#print axioms Cfdp.System.C11_isolated_step
#print axioms Cfdp.System.C11_isolated_run
#print axioms Cfdp.System.C11_table_step
#print axioms Cfdp.System.C11_commute
#print axioms Cfdp.Daemon.C11_route_isolated
#print axioms Cfdp.Daemon.C11_stray_discarded
#print axioms Cfdp.Daemon.C11_spawn
#print axioms Cfdp.Daemon.C11_ids_distinct
