import Cfdp.Props.C06
import Cfdp.Props.C05

/-! # C06, second half: what the decoder accepts is canonical -/
namespace Cfdp.Codec
open Cfdp.Gen

theorem bind_ok {α β : Type} (x : Except Err α) (f : α → Except Err β) (v : β) :
    (bind x f) = Except.ok v ↔ ∃ a, x = .ok a ∧ f a = .ok v := by
  cases x <;> simp [bind, Except.bind]

theorem elim_ok {α : Type} (o : Option α) (e : Err) (a : α) :
    (o.elim (Except.error e) Except.ok : Except Err α) = .ok a ↔ o = some a := by
  cases o <;> simp

theorem pure_ok {α : Type} (a b : α) : (pure a : Except Err α) = .ok b ↔ a = b := by
  simp [pure, Except.pure]

theorem readU8_spec {bs r : Bytes} {b : UInt8} (h : readU8 bs = .ok (b, r)) : bs = b :: r := by
  cases bs with
  | nil => cases h
  | cons x xs => simp only [readU8, Except.ok.injEq, Prod.mk.injEq] at h; rw [h.1, h.2]

theorem readBE_spec {n : Nat} {bs r : Bytes} {x : Nat} (h : readBE n bs = .ok (x, r)) :
    x < 256 ^ n ∧ bs.length = n + r.length := by
  refine ⟨readBE_lt h, ?_⟩
  unfold readBE at h
  split at h
  · cases h
  · rename_i v r' hv
    cases h
    obtain ⟨h1, h2⟩ := readN_length hv
    rw [h2, List.length_append, h1]

theorem readLV_spec {bs v r : Bytes} (h : readLV bs = .ok (v, r)) :
    v.length ≤ 255 ∧ bs.length = 1 + v.length + r.length := by
  unfold readLV at h
  split at h
  · cases h
  · rename_i n r' hn
    have h0 := readU8_spec hn
    obtain ⟨h1, h2⟩ := readN_length h
    have := n.toNat_lt
    rw [h0, h2]
    simp only [List.length_cons, List.length_append]
    omega

theorem readName_spec {bs v r : Bytes} (h : readName bs = .ok (v, r)) :
    nameOk v ∧ bs.length = 1 + v.length + r.length := by
  unfold readName at h
  split at h
  · cases h
  · rename_i v' r' hv
    split at h
    · rename_i hu
      cases h
      obtain ⟨h1, h2⟩ := readLV_spec hv
      exact ⟨⟨h1, hu⟩, h2⟩
    · cases h

theorem idOfBytes_spec {v : Bytes} {i : VarId} (h : idOfBytes v = .ok i) : i.WF ∧ i.width = v.length := by
  unfold idOfBytes at h
  split at h
  · rename_i hl
    cases h
    exact ⟨⟨hl, beVal_lt v⟩, rfl⟩
  · cases h

theorem VarId.decode_spec {bs r : Bytes} {i : VarId} (h : VarId.decode bs = .ok (i, r)) :
    i.WF ∧ bs.length = 1 + i.width + r.length := by
  simp only [VarId.decode, bind_ok, pure_ok, Prod.exists, Prod.mk.injEq] at h
  obtain ⟨b, r1, h1, v, r2, h2, id, h3, h4, h5⟩ := h
  subst h4 h5
  obtain ⟨w, hw⟩ := idOfBytes_spec h3
  obtain ⟨l1, l2⟩ := readN_length h2
  have := readU8_spec h1
  rw [this, l2]
  simp only [List.length_cons, List.length_append]
  exact ⟨w, by omega⟩


theorem guard_ok (c : Bool) (e : Err) (a : PUnit) :
    ((if c = true then throw e else pure PUnit.unit) : Except Err PUnit) = .ok a ↔ c = false := by
  cases c <;> simp [throw, throwThe, MonadExceptOf.throw, pure, Except.pure]

theorem FsRequest.decode_spec {bs r : Bytes} {q : FsRequest} (h : FsRequest.decode bs = .ok (q, r)) :
    q.WF ∧ bs.length = q.len + r.length := by
  simp only [FsRequest.decode, bind_ok, elim_ok, pure_ok, Prod.exists, Prod.mk.injEq] at h
  obtain ⟨b, r1, h1, action, ha, n1, r2, h2, n2, r3, h3, h4, h5⟩ := h
  subst h4 h5
  obtain ⟨w1, l1⟩ := readName_spec h2
  obtain ⟨w2, l2⟩ := readName_spec h3
  have := readU8_spec h1
  rw [this]
  simp only [List.length_cons, FsRequest.len]
  exact ⟨⟨w1, w2⟩, by omega⟩

theorem FsResponse.decode_spec {bs r : Bytes} {p : FsResponse} (h : FsResponse.decode bs = .ok (p, r)) :
    p.WF ∧ bs.length = p.len + r.length := by
  simp only [FsResponse.decode, bind_ok, elim_ok, Prod.exists] at h
  obtain ⟨b, r1, h1, action, ha, h⟩ := h
  cases hv : statusValid action (b.toNat % 16) with
  | false =>
    simp only [hv, Bool.not_false, if_true, bind_ok, throw, throwThe, MonadExceptOf.throw, reduceCtorEq, false_and, exists_false] at h
  | true =>
  simp only [hv, Bool.not_true, Bool.false_eq_true, if_false, bind_ok, pure_ok, Prod.exists, Prod.mk.injEq] at h
  obtain ⟨n1, r2, h2, n2, r3, h3, m, r4, h4, h5, h6⟩ := h
  subst h5 h6
  obtain ⟨w1, l1⟩ := readName_spec h2
  obtain ⟨w2, l2⟩ := readName_spec h3
  obtain ⟨w3, l3⟩ := readLV_spec h4
  have := readU8_spec h1
  rw [this]
  simp only [List.length_cons, FsResponse.len]
  exact ⟨⟨w1, w2, w3, Nat.mod_lt _ (by decide), hv⟩, by omega⟩


theorem Tlv.decode_spec {bs r : Bytes} {t : Tlv} (h : Tlv.decode bs = .ok (t, r)) :
    t.WF ∧ bs.length = t.len + r.length := by
  simp only [Tlv.decode, bind_ok, elim_ok, Prod.exists] at h
  obtain ⟨b, r1, h1, code, hc, h⟩ := h
  have h0 := readU8_spec h1
  rw [h0]
  simp only [List.length_cons]
  cases code <;> simp only [bind_ok, elim_ok, pure_ok, Prod.exists, Prod.mk.injEq] at h
  · obtain ⟨q, r2, h2, h3, h4⟩ := h
    subst h3 h4
    obtain ⟨w, l⟩ := FsRequest.decode_spec h2
    exact ⟨w, by simp only [Tlv.len]; omega⟩
  · obtain ⟨q, r2, h2, h3, h4⟩ := h
    subst h3 h4
    obtain ⟨w, l⟩ := FsResponse.decode_spec h2
    exact ⟨w, by simp only [Tlv.len]; omega⟩
  · obtain ⟨m, r2, h2, h3, h4⟩ := h
    subst h3 h4
    obtain ⟨w, l⟩ := readLV_spec h2
    exact ⟨w, by simp only [Tlv.len]; omega⟩
  · obtain ⟨c, r2, h2, k, hk, h3, h4⟩ := h
    subst h3 h4
    have := readU8_spec h2
    rw [this]
    exact ⟨trivial, by simp only [Tlv.len, List.length_cons]; omega⟩
  · obtain ⟨m, r2, h2, h3, h4⟩ := h
    subst h3 h4
    obtain ⟨w, l⟩ := readLV_spec h2
    exact ⟨w, by simp only [Tlv.len]; omega⟩
  · obtain ⟨i, r2, h2, h3, h4⟩ := h
    subst h3 h4
    obtain ⟨w, l⟩ := VarId.decode_spec h2
    exact ⟨w, by simp only [Tlv.len]; omega⟩

theorem Eof.decode_spec {fss : FileSizeFlag} {bs r : Bytes} {e : Eof} (h : Eof.decode fss bs = .ok (e, r)) :
    e.WF fss ∧ bs.length = 1 + e.len fss + r.length - 1 := by
  simp only [Eof.decode, bind_ok, elim_ok, Prod.exists] at h
  obtain ⟨b, r1, h1, cond, hc, ck, r2, h2, fsz, r3, h3, h⟩ := h
  have h0 := readU8_spec h1
  obtain ⟨w2, l2⟩ := readBE_spec h2
  obtain ⟨w3, l3⟩ := readBE_spec h3
  rw [h0]
  simp only [List.length_cons]
  by_cases hne : cond = .NoError
  · subst hne
    simp only [pure_ok, Prod.mk.injEq] at h
    obtain ⟨h4, h5⟩ := h
    subst h4 h5
    exact ⟨⟨w2, w3, trivial, by simp⟩, by simp only [Eof.len, faultLen]; omega⟩
  · have hh : (do
          let (t, r) ← readU8 r3
          let code ← (MetadataTLVFieldCode.ofNat? t.toNat).elim (Except.error Err.MessageType) Except.ok
          match code with
          | .EntityID => do
            let (i, r) ← VarId.decode r
            pure (({ cond := cond, checksum := ck, fileSize := fsz, fault := some i } : Eof), r)
          | _ => Except.error Err.UnexpectedMessage) = Except.ok (e, r) := by
      cases cond <;> first | exact absurd rfl hne | exact h
    simp only [bind_ok, elim_ok, Prod.exists] at hh
    obtain ⟨t, r4, h4, code, hcd, hh⟩ := hh
    have l4 := readU8_spec h4
    cases code <;> simp only [bind_ok, pure_ok, Prod.exists, Prod.mk.injEq, reduceCtorEq] at hh
    obtain ⟨i, r5, h5, h6, h7⟩ := hh
    subst h6 h7
    obtain ⟨w5, l5⟩ := VarId.decode_spec h5
    rw [l4] at l3
    simp only [List.length_cons] at l3
    refine ⟨⟨w2, w3, w5, by simp [hne]⟩, by simp only [Eof.len, faultLen]; omega⟩

theorem Ack.decode_spec {bs r : Bytes} {a : Ack} (h : Ack.decode bs = .ok (a, r)) :
    a.WF ∧ bs.length = 2 + r.length := by
  simp only [Ack.decode, bind_ok, elim_ok, Prod.exists] at h
  obtain ⟨b, r1, h1, major, hmj, minor, hmn, h⟩ := h
  have l1 := readU8_spec h1
  cases major <;> cases minor <;>
    simp only [bind_ok, elim_ok, pure_ok, Prod.exists, Prod.mk.injEq, Except.ok.injEq, reduceCtorEq, false_and, exists_false] at h
  all_goals
    obtain ⟨d, sb, ⟨e1, e2⟩, c, r2, h2, cond, hc, status, hs, h3, h4⟩ := h
    subst e1 e2 h3 h4
    have l2 := readU8_spec h2
    rw [l1, l2]
  · exact ⟨Or.inl ⟨rfl, rfl⟩, by simp only [List.length_cons]; omega⟩
  · exact ⟨Or.inr ⟨rfl, rfl⟩, by simp only [List.length_cons]; omega⟩


theorem decTlvs_spec (fuel : Nat) (bs : Bytes) (ts : List Tlv) (h : decTlvs fuel bs = .ok ts) :
    (∀ t ∈ ts, t.WF) ∧ bs.length = (ts.map Tlv.len).sum := by
  induction fuel generalizing bs ts with
  | zero => simp [decTlvs] at h
  | succ f ih =>
    cases bs with
    | nil =>
      simp only [decTlvs, Except.ok.injEq] at h
      subst h
      exact ⟨fun t ht => (by cases ht), rfl⟩
    | cons b rest =>
      simp only [decTlvs, bind_ok, pure_ok, Prod.exists] at h
      obtain ⟨t, r, h1, ts', h2, h3⟩ := h
      subst h3
      obtain ⟨w1, l1⟩ := Tlv.decode_spec h1
      obtain ⟨w2, l2⟩ := ih r ts' h2
      refine ⟨?_, ?_⟩
      · intro x hx
        rcases List.mem_cons.mp hx with hx | hx
        · rw [hx]; exact w1
        · exact w2 x hx
      · simp only [List.map_cons, List.sum_cons]; omega

theorem Metadata.decode_spec {fss : FileSizeFlag} {bs r : Bytes} {m : Metadata} (h : Metadata.decode fss bs = .ok (m, r)) :
    m.WF fss ∧ bs.length = m.len fss ∧ r = [] := by
  simp only [Metadata.decode, bind_ok, elim_ok, pure_ok, Prod.exists, Prod.mk.injEq] at h
  obtain ⟨b, r1, h1, ck, hck, fsz, r2, h2, sn, r3, h3, dn, r4, h4, opts, h5, h6, h7⟩ := h
  subst h6 h7
  have l1 := readU8_spec h1
  obtain ⟨w2, l2⟩ := readBE_spec h2
  obtain ⟨w3, l3⟩ := readName_spec h3
  obtain ⟨w4, l4⟩ := readName_spec h4
  obtain ⟨w5, l5⟩ := decTlvs_spec _ _ _ h5
  rw [l1]
  simp only [List.length_cons, Metadata.len]
  exact ⟨⟨w2, w3, w4, w5⟩, (by omega), (by first | rfl | trivial)⟩

theorem decRequests_spec (w fuel : Nat) (bs : Bytes) (rs : List (Nat × Nat)) (h : decRequests w fuel bs = .ok rs) :
    (∀ q ∈ rs, q.1 < 256 ^ w ∧ q.2 < 256 ^ w) ∧ bs.length = rs.length * (2 * w) := by
  induction fuel generalizing bs rs with
  | zero => simp [decRequests] at h
  | succ f ih =>
    cases bs with
    | nil =>
      simp only [decRequests, Except.ok.injEq] at h
      subst h
      exact ⟨fun t ht => (by cases ht), (by simp)⟩
    | cons b rest =>
      simp only [decRequests, bind_ok, pure_ok, Prod.exists] at h
      obtain ⟨a, r1, h1, c, r2, h2, rs', h3, h4⟩ := h
      subst h4
      obtain ⟨w1, l1⟩ := readBE_spec h1
      obtain ⟨w2, l2⟩ := readBE_spec h2
      obtain ⟨w3, l3⟩ := ih r2 rs' h3
      refine ⟨?_, ?_⟩
      · intro x hx
        rcases List.mem_cons.mp hx with hx | hx
        · rw [hx]; exact ⟨w1, w2⟩
        · exact w3 x hx
      · rw [l1, l2, l3]; simp only [List.length_cons, Nat.add_mul]; omega

theorem Nak.decode_spec {fss : FileSizeFlag} {bs r : Bytes} {n : Nak} (h : Nak.decode fss bs = .ok (n, r)) :
    n.WF fss ∧ bs.length = n.len fss ∧ r = [] := by
  simp only [Nak.decode, bind_ok, pure_ok, Prod.exists, Prod.mk.injEq] at h
  obtain ⟨s, r1, h1, e, r2, h2, rs, h3, h4, h5⟩ := h
  subst h4 h5
  obtain ⟨w1, l1⟩ := readBE_spec h1
  obtain ⟨w2, l2⟩ := readBE_spec h2
  obtain ⟨w3, l3⟩ := decRequests_spec _ _ _ _ h3
  exact ⟨⟨w1, w2, w3⟩, (by simp only [Nak.len]; omega), (by first | rfl | trivial)⟩


theorem sum_reverse_nat (l : List Nat) : l.reverse.sum = l.sum := by
  induction l with
  | nil => rfl
  | cons x xs ih => simp only [List.reverse_cons, List.sum_append, List.sum_cons, List.sum_nil, ih]; omega

theorem finishedLoop_dec (cond : Condition) (fuel : Nat) (bs : Bytes) (acc res : List FsResponse) (fault fo : Option VarId)
    (h : finishedLoop cond fuel bs acc fault = .ok (res, fo))
    (hacc : ∀ p ∈ acc, p.WF ∧ p.encode.length ≤ 255) (hf : faultWF fault) (hfn : cond = .NoError → fault = none) :
    (∀ p ∈ res, p.WF ∧ p.encode.length ≤ 255) ∧ faultWF fo ∧ (cond = .NoError → fo = none) ∧
    (res.map (fun p => 1 + 1 + p.len)).sum + faultLen fo ≤
      (acc.map (fun p => 1 + 1 + p.len)).sum + faultLen fault + bs.length := by
  induction fuel generalizing bs acc fault with
  | zero => simp [finishedLoop] at h
  | succ f ih =>
    cases bs with
    | nil =>
      simp only [finishedLoop, Except.ok.injEq, Prod.mk.injEq] at h
      obtain ⟨h1, h2⟩ := h
      subst h1 h2
      refine ⟨fun p hp => hacc p (List.mem_reverse.mp hp), hf, hfn, ?_⟩
      rw [List.map_reverse, sum_reverse_nat]
      exact Nat.le_add_right _ _
    | cons t r =>
      simp only [finishedLoop, bind_ok, elim_ok] at h
      obtain ⟨code, hc, h⟩ := h
      cases code <;> simp only [bind_ok, Prod.exists, reduceCtorEq] at h
      · -- FileStoreResponse
        obtain ⟨v, r1, h1, p, r2, h2, h3⟩ := h
        obtain ⟨w1, l1⟩ := readLV_spec h1
        obtain ⟨w2, l2⟩ := FsResponse.decode_spec h2
        have hlen := FsResponse.encode_length p
        have hacc' : ∀ q ∈ p :: acc, q.WF ∧ q.encode.length ≤ 255 := by
          intro q hq
          rcases List.mem_cons.mp hq with hq | hq
          · rw [hq]; exact ⟨w2, by omega⟩
          · exact hacc q hq
        obtain ⟨a1, a2, a3, a4⟩ := ih r1 (p :: acc) fault h3 hacc' hf hfn
        refine ⟨a1, a2, a3, ?_⟩
        simp only [List.map_cons, List.sum_cons, List.length_cons] at a4 ⊢
        omega
      · -- EntityID
        by_cases hne : cond = .NoError
        · simp only [hne, if_true, reduceCtorEq] at h
        · simp only [hne, if_false] at h
          cases hv : VarId.decode r with
          | error e => simp only [hv, reduceCtorEq] at h
          | ok x =>
            obtain ⟨i, r1⟩ := x
            simp only [hv] at h
            obtain ⟨w1, l1⟩ := VarId.decode_spec hv
            obtain ⟨a1, a2, a3, a4⟩ := ih r1 acc (some i) h hacc w1 (fun hh => absurd hh hne)
            refine ⟨a1, a2, a3, ?_⟩
            simp only [List.length_cons, faultLen] at a4 ⊢
            omega

theorem Finished.decode_spec {bs r : Bytes} {f : Finished} (h : Finished.decode bs = .ok (f, r)) :
    f.WF ∧ 1 + f.len ≤ 1 + bs.length ∧ r = [] := by
  simp only [Finished.decode, bind_ok, elim_ok, pure_ok, Prod.exists, Prod.mk.injEq] at h
  obtain ⟨b, r1, h1, cond, hc, dc, hd, fsc, hfs, resps, fo, h2, h3, h4⟩ := h
  subst h3 h4
  have l1 := readU8_spec h1
  obtain ⟨a1, a2, a3, a4⟩ := finishedLoop_dec cond _ r1 [] resps none fo h2 (fun p hp => by cases hp) trivial (fun _ => rfl)
  rw [l1]
  have e0 : faultLen (none : Option VarId) = 0 := rfl
  simp only [List.map_nil, List.sum_nil, e0, Nat.zero_add] at a4
  simp only [List.length_cons, Finished.len]
  exact ⟨⟨a1, a2, a3⟩, (by omega), (by first | rfl | trivial)⟩


theorem decodeDirective_spec {fss : FileSizeFlag} {bs r : Bytes} {p : Payload} (seg : SegmentedData)
    (h : decodeDirective fss bs = .ok (p, r)) :
    p.WF fss ∧ p.compat .FileDirective seg ∧ p.len fss ≤ bs.length := by
  simp only [decodeDirective, bind_ok, elim_ok, Prod.exists] at h
  obtain ⟨b, r1, h1, d, hd, h⟩ := h
  have l1 := readU8_spec h1
  rw [l1]
  simp only [List.length_cons]
  cases d <;> simp only [bind_ok, elim_ok, pure_ok, Prod.exists, Prod.mk.injEq] at h
  · obtain ⟨e, r2, h2, h3, h4⟩ := h
    subst h3 h4
    obtain ⟨w, l⟩ := Eof.decode_spec h2
    exact ⟨w, rfl, by simp only [Payload.len]; omega⟩
  · obtain ⟨f, r2, h2, h3, h4⟩ := h
    subst h3 h4
    obtain ⟨w, l, _⟩ := Finished.decode_spec h2
    exact ⟨w, rfl, by simp only [Payload.len]; omega⟩
  · obtain ⟨a, r2, h2, h3, h4⟩ := h
    subst h3 h4
    obtain ⟨w, l⟩ := Ack.decode_spec h2
    exact ⟨w, rfl, by simp only [Payload.len]; omega⟩
  · obtain ⟨m, r2, h2, h3, h4⟩ := h
    subst h3 h4
    obtain ⟨w, l, _⟩ := Metadata.decode_spec h2
    exact ⟨w, rfl, by simp only [Payload.len]; omega⟩
  · obtain ⟨n, r2, h2, h3, h4⟩ := h
    subst h3 h4
    obtain ⟨w, l, _⟩ := Nak.decode_spec h2
    exact ⟨w, rfl, by simp only [Payload.len]; omega⟩
  · obtain ⟨k, r2, h2, v, hv, h3, h4⟩ := h
    subst h3 h4
    have l2 := readU8_spec h2
    rw [l2]
    exact ⟨trivial, rfl, by simp only [Payload.len, List.length_cons]; omega⟩
  · obtain ⟨g, r2, h2, h3, h4⟩ := h
    subst h3 h4
    obtain ⟨w, l⟩ := readBE_spec h2
    exact ⟨w, rfl, by simp only [Payload.len]; omega⟩

theorem decodeFileData_spec {seg : SegmentedData} {fss : FileSizeFlag} {bs r : Bytes} {p : Payload}
    (h : decodeFileData seg fss bs = .ok (p, r)) :
    p.WF fss ∧ p.compat .FileData seg ∧ p.len fss ≤ bs.length := by
  cases seg <;> simp only [decodeFileData, bind_ok, elim_ok, pure_ok, Prod.exists, Prod.mk.injEq] at h
  · obtain ⟨off, r1, h1, h2, h3⟩ := h
    subst h2 h3
    obtain ⟨w, l⟩ := readBE_spec h1
    exact ⟨w, ⟨rfl, rfl⟩, by simp only [Payload.len]; omega⟩
  · obtain ⟨b, r1, h1, rcs, hr, m, r2, h2, off, r3, h3, h4, h5⟩ := h
    subst h4 h5
    have l1 := readU8_spec h1
    obtain ⟨m1, m2⟩ := readN_length h2
    obtain ⟨w, l⟩ := readBE_spec h3
    have hm : m.length ≤ 63 := by rw [m1]; have := Nat.mod_lt b.toNat (show 0 < 64 by decide); omega
    refine ⟨⟨hm, w⟩, ⟨rfl, rfl⟩, ?_⟩
    rw [l1, m2]
    simp only [Payload.len, List.length_cons, List.length_append]
    omega

theorem decodePayload_spec {t : PDUType} {fss : FileSizeFlag} {seg : SegmentedData} {bs r : Bytes} {p : Payload}
    (h : decodePayload t fss seg bs = .ok (p, r)) :
    p.WF fss ∧ p.compat t seg ∧ p.len fss ≤ bs.length := by
  cases t
  · exact decodeDirective_spec seg h
  · exact decodeFileData_spec h

theorem Header.decode_spec {bs r : Bytes} {h : Header} (hd : Header.decode bs = .ok (h, r)) :
    h.src.WF ∧ h.seq.WF ∧ h.dst.WF ∧ h.src.width = h.dst.width ∧
    (match h.crc with | .NotPresent => h.dataLen < 65536 | .Present => h.dataLen + 2 < 65536) := by
  simp only [Header.decode, bind_ok, elim_ok, Prod.exists] at hd
  obtain ⟨b0, r1, h1, version, hv, pduType, hp, direction, hdi, mode, hm, crc, hc, large, hl, rawLen, r2, h2, hd⟩ := hd
  obtain ⟨wl, _⟩ := readBE_spec h2
  have wl' : rawLen < 65536 := by simpa using wl
  cases crc with
  | NotPresent =>
    simp only [bind_ok, elim_ok, pure_ok, Prod.exists, Prod.mk.injEq, Except.ok.injEq, exists_eq_left'] at hd
    obtain ⟨b3, r3, h3, segCtrl, hsc, segMeta, hsm, sb, r4, h4, src, hsrc, qb, r5, h5, seq, hseq, db, r6, h6, dst, hdst, e1, e2⟩ := hd
    subst e1 e2
    obtain ⟨w1, k1⟩ := idOfBytes_spec hsrc
    obtain ⟨w2, k2⟩ := idOfBytes_spec hseq
    obtain ⟨w3, k3⟩ := idOfBytes_spec hdst
    have l4 := (readN_length h4).1
    have l6 := (readN_length h6).1
    refine ⟨w1, w2, w3, ?_, ?_⟩
    · show src.width = dst.width; omega
    · show rawLen < 65536; exact wl'
  | Present =>
    by_cases h2' : rawLen < 2
    · simp only [h2', if_true, bind_ok, reduceCtorEq, false_and, exists_false] at hd
    · simp only [h2', if_false, bind_ok, elim_ok, pure_ok, Prod.exists, Prod.mk.injEq, Except.ok.injEq, exists_eq_left'] at hd
      obtain ⟨b3, r3, h3, segCtrl, hsc, segMeta, hsm, sb, r4, h4, src, hsrc, qb, r5, h5, seq, hseq, db, r6, h6, dst, hdst, e1, e2⟩ := hd
      subst e1 e2
      obtain ⟨w1, k1⟩ := idOfBytes_spec hsrc
      obtain ⟨w2, k2⟩ := idOfBytes_spec hseq
      obtain ⟨w3, k3⟩ := idOfBytes_spec hdst
      have l4 := (readN_length h4).1
      have l6 := (readN_length h6).1
      refine ⟨w1, w2, w3, ?_, ?_⟩
      · show src.width = dst.width; omega
      · show rawLen - 2 + 2 < 65536; omega

/-- the accepted PDU with its length field recomputed -/
def relen (p : Pdu) : Pdu := { p with header := { p.header with dataLen := p.payload.len p.header.large } }

/-- whatever `PDU::decode` accepts is, once its length field is recomputed, well-formed in the sense of C05 -/
theorem relen_wf (bs : Bytes) (p : Pdu) (h : Pdu.decode bs = .ok p) : (relen p).WF := by
  simp only [Pdu.decode, bind_ok, Prod.exists] at h
  obtain ⟨hd, r1, h1, msg, r2, h2, h⟩ := h
  obtain ⟨w1, w2, w3, w4, w5⟩ := Header.decode_spec h1
  obtain ⟨l2, _⟩ := readN_length h2
  have key : ∀ payload r3, decodePayload hd.pduType hd.large hd.segMeta msg = .ok (payload, r3) →
      (relen { header := hd, payload := payload }).WF := by
    intro payload r3 h3
    obtain ⟨v1, v2, v3⟩ := decodePayload_spec h3
    refine ⟨⟨w1, w2, w3, w4, ?_⟩, v1, v2, rfl⟩
    show (match hd.crc with | .NotPresent => payload.len hd.large < 65536 | .Present => payload.len hd.large + 2 < 65536)
    cases hc : hd.crc <;> simp only [hc] at w5 ⊢ <;> omega
  cases hc : hd.crc with
  | NotPresent =>
    simp only [hc, bind_ok, pure_ok, Prod.exists] at h
    obtain ⟨payload, r3, h3, h4⟩ := h
    subst h4
    exact key payload r3 h3
  | Present =>
    simp only [hc, bind_ok, Prod.exists] at h
    obtain ⟨c, r3, h3, h⟩ := h
    by_cases hcrc : crc16 (hd.encode ++ msg) = c
    · simp only [hcrc, if_true, bind_ok, pure_ok, Prod.exists] at h
      obtain ⟨payload, r4, h4, h5⟩ := h
      subst h5
      exact key payload r4 h4
    · simp only [hcrc, if_false, bind_ok, reduceCtorEq, false_and, exists_false] at h

/-- **C06 (canonical acceptance).**  Whatever `PDU::decode` accepts, for every byte string:
re-encoding the accepted PDU with its length field recomputed and decoding again gives the same PDU. -/
theorem C06_canon (bs : Bytes) (p : Pdu) (h : Pdu.decode bs = .ok p) :
    Pdu.decode (relen p).encode = .ok (relen p) :=
  C05_pdu (relen p) (relen_wf bs p h)

/-- the hypothesis is satisfiable by bytes that are not a canonical encoding: an ACK(EOF) PDU whose
length field announces two spare octets (they are dropped by the re-encoding) -/
example :
    let bs : Bytes := [32, 0, 5, 17, 0, 12, 0, 3, 0, 15, 6, 64, 1, 0xAA, 0xBB]
    (match Pdu.decode bs with | .ok p => decide ((relen p).encode.length = 13 ∧ p.header.dataLen = 5 ∧ (relen p).header.dataLen = 3) | .error _ => false) = true := by
  decide

end Cfdp.Codec

open Cfdp.Codec in
#print axioms C06_canon
