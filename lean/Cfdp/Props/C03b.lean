import Cfdp.Props.C03s
import Cfdp.Props.C17
import Cfdp.Props.C07t

/-! # C03, sender: a bound on the loop iterations of a send transaction left alone -/
namespace Cfdp.Timer

/-- expirations a counter can still count before its limit -/
def Counter.room (c : Counter) : Nat := c.max - c.count

theorem updateLoop_room (fuel now : Nat) (c : Counter) : (updateLoop fuel now c).max - (updateLoop fuel now c).count ≤ c.max - c.count := by
  induction fuel generalizing c with
  | zero => exact Nat.le_refl _
  | succ f ih =>
    simp only [updateLoop]
    split
    · refine Nat.le_trans (ih _) ?_
      dsimp only
      omega
    · exact Nat.le_refl _

theorem updateLoop_count_le (fuel now : Nat) (c : Counter) (h : c.count ≤ c.max) :
    (updateLoop fuel now c).count ≤ (updateLoop fuel now c).max := by
  induction fuel generalizing c with
  | zero => exact h
  | succ f ih =>
    simp only [updateLoop]
    split
    · exact ih _ (Nat.min_le_right _ _)
    · exact h

@[simp] theorem max_update (c : Counter) (now : Nat) : (c.update now).max = c.max := by
  simp only [Counter.update]; split
  · rfl
  · exact (updateLoop_fields _ _ _).2.1
@[simp] theorem timeout_update (c : Counter) (now : Nat) : (c.update now).timeout = c.timeout := by
  simp only [Counter.update]; split
  · rfl
  · exact (updateLoop_fields _ _ _).1

theorem room_update (c : Counter) (now : Nat) : (c.update now).room ≤ c.room := by
  simp only [Counter.room, Counter.update]; split
  · exact Nat.le_refl _
  · exact updateLoop_room _ _ _

theorem count_update_le (c : Counter) (now : Nat) (h : c.count ≤ c.max) : (c.update now).count ≤ c.max := by
  have := max_update c now
  simp only [Counter.update] at this ⊢; split
  · exact h
  · rename_i hp
    rw [if_neg hp] at this
    rw [← this]; exact updateLoop_count_le _ _ _ h

/-- a running counter whose period is over counts at least one expiration -/
theorem update_due (c : Counter) (now : Nat) (hp : c.paused = false) (hd : c.timeout ≤ now - c.start) :
    (c.update now).occurred = true ∧ (0 < c.room → (c.update now).room < c.room) := by
  simp only [Counter.update, hp, Bool.false_eq_true, if_false, Counter.room]
  have hf : now - c.start + 1 = (now - c.start) + 1 := rfl
  rw [hf]
  simp only [updateLoop]
  rw [if_pos (by omega)]
  constructor
  · -- occurred stays true
    have : ∀ (fuel : Nat) (d : Counter), d.occurred = true → (updateLoop fuel now d).occurred = true := by
      intro fuel
      induction fuel with
      | zero => intro d h; exact h
      | succ f ih =>
        intro d h
        simp only [updateLoop]; split
        · exact ih _ rfl
        · exact h
    exact this _ _ rfl
  · intro h0
    refine Nat.lt_of_le_of_lt (updateLoop_room _ _ _) ?_
    dsimp only
    omega

@[simp] theorem max_restart (c : Counter) (now : Nat) : (c.restart now).max = c.max := max_update c now
@[simp] theorem max_reset (c : Counter) (now : Nat) : (c.reset now).max = c.max := rfl
@[simp] theorem max_pause (c : Counter) (now : Nat) : (c.pause now).max = c.max := max_update c now
@[simp] theorem max_limitReached (c : Counter) (now : Nat) : (c.limitReached now).1.max = c.max := max_update c now
@[simp] theorem max_timeoutOccurred (c : Counter) (now : Nat) : (c.timeoutOccurred now).1.max = c.max := max_update c now
@[simp] theorem timeout_restart (c : Counter) (now : Nat) : (c.restart now).timeout = c.timeout := timeout_update c now
@[simp] theorem timeout_reset (c : Counter) (now : Nat) : (c.reset now).timeout = c.timeout := rfl
@[simp] theorem timeout_pause (c : Counter) (now : Nat) : (c.pause now).timeout = c.timeout := timeout_update c now
@[simp] theorem timeout_limitReached (c : Counter) (now : Nat) : (c.limitReached now).1.timeout = c.timeout := timeout_update c now
@[simp] theorem timeout_timeoutOccurred (c : Counter) (now : Nat) : (c.timeoutOccurred now).1.timeout = c.timeout := timeout_update c now

theorem room_restart (c : Counter) (now : Nat) : (c.restart now).room ≤ c.room := room_update c now
theorem room_pause (c : Counter) (now : Nat) : (c.pause now).room ≤ c.room := room_update c now
theorem room_limitReached (c : Counter) (now : Nat) : (c.limitReached now).1.room ≤ c.room := room_update c now
theorem room_timeoutOccurred (c : Counter) (now : Nat) : (c.timeoutOccurred now).1.room ≤ c.room := room_update c now
theorem room_le_max (c : Counter) : c.room ≤ c.max := Nat.sub_le _ _

/-- counts stay at or below the limit -/
def Counter.Ok (c : Counter) : Prop := c.count ≤ c.max
theorem ok_update {c : Counter} (h : c.Ok) (now : Nat) : (c.update now).Ok := by
  unfold Counter.Ok; rw [max_update]; exact count_update_le c now h
theorem ok_restart {c : Counter} (h : c.Ok) (now : Nat) : (c.restart now).Ok := ok_update h now
theorem ok_pause {c : Counter} (h : c.Ok) (now : Nat) : (c.pause now).Ok := ok_update h now
theorem ok_reset (c : Counter) (now : Nat) : (c.reset now).Ok := Nat.zero_le _
theorem ok_limitReached {c : Counter} (h : c.Ok) (now : Nat) : (c.limitReached now).1.Ok := ok_update h now
theorem ok_timeoutOccurred {c : Counter} (h : c.Ok) (now : Nat) : (c.timeoutOccurred now).1.Ok := ok_update h now

theorem limitReached_iff {c : Counter} (h : c.Ok) (now : Nat) :
    (c.limitReached now).2 = true ↔ (c.limitReached now).1.room = 0 := by
  have := ok_update h now
  simp only [Counter.limitReached, Counter.room, Counter.Ok, beq_iff_eq] at *
  omega

theorem untilTimeout_zero (c : Counter) (now : Nat) : c.untilTimeout now = 0 ↔ c.start + c.timeout ≤ now := by
  simp only [Counter.untilTimeout]; split <;> omega

/-- the computed sleep is zero only if a running counter's period is over -/
theorem timer_due (t : Timer) (now : Nat) (h : t.untilTimeout now = some 0) :
    (t.ack.paused = false ∧ t.ack.start + t.ack.timeout ≤ now) ∨
    (t.nak.paused = false ∧ t.nak.start + t.nak.timeout ≤ now) ∨
    (t.inactivity.paused = false ∧ t.inactivity.start + t.inactivity.timeout ≤ now) := by
  simp only [Timer.untilTimeout] at h
  cases ha : t.ack.paused <;> cases hn : t.nak.paused <;> cases hi : t.inactivity.paused <;>
    simp only [ha, hn, hi, Bool.not_true, Bool.not_false, Bool.false_eq_true, if_false, if_true, optMin,
      Option.some.injEq, reduceCtorEq] at h
  all_goals (simp only [← untilTimeout_zero, true_and, false_and, or_false, false_or, reduceCtorEq]; omega)

theorem updateLoop_occurred_mono (fuel now : Nat) (d : Counter) (h : d.occurred = true) :
    (updateLoop fuel now d).occurred = true := by
  induction fuel generalizing d with
  | zero => exact h
  | succ f ih =>
    simp only [updateLoop]; split
    · exact ih _ rfl
    · exact h

theorem update_occurred_mono (c : Counter) (now : Nat) (h : c.occurred = true) : (c.update now).occurred = true := by
  simp only [Counter.update]; split
  · exact h
  · exact updateLoop_occurred_mono _ _ _ h

/-- an expiry is only recorded for a running counter whose period is over -/
theorem update_occurred_new (c : Counter) (now : Nat) (h : c.occurred = false) (h' : (c.update now).occurred = true) :
    c.paused = false ∧ c.timeout ≤ now - c.start := by
  simp only [Counter.update] at h'
  split at h'
  · rw [h] at h'; cases h'
  · rename_i hp
    refine ⟨by simpa using hp, ?_⟩
    have hf : now - c.start + 1 = (now - c.start) + 1 := rfl
    rw [hf] at h'
    simp only [updateLoop] at h'
    split at h'
    · omega
    · rw [h] at h'; cases h'

theorem cu_advance (c : Counter) (now d : Nat) : c.untilTimeout (now + d) = c.untilTimeout now - d := by
  simp only [Counter.untilTimeout]; split <;> split <;> omega

/-- sleeping for the computed time makes a timer due -/
theorem untilTimeout_advance (t : Timer) (now d : Nat) (h : t.untilTimeout now = some d) :
    t.untilTimeout (now + d) = some 0 := by
  simp only [Timer.untilTimeout, cu_advance] at h ⊢
  generalize t.ack.untilTimeout now = a at h ⊢
  generalize t.nak.untilTimeout now = b at h ⊢
  generalize t.inactivity.untilTimeout now = c at h ⊢
  cases ha : t.ack.paused <;> cases hn : t.nak.paused <;> cases hi : t.inactivity.paused <;>
    simp only [ha, hn, hi, Bool.not_true, Bool.not_false, Bool.false_eq_true, if_false, if_true, optMin, Option.some.injEq, reduceCtorEq] at h ⊢
  all_goals omega

end Cfdp.Timer

namespace Cfdp.Send
open Cfdp.Codec Cfdp.Gen Cfdp.Timer

def flagE : Option (Eof × Bool) → Nat
  | some (_, true) => 1
  | _ => 0
/-- the EOF is queued for (re)transmission, or an expiry of the positive-ACK timer is recorded that
will queue it -/
def flagP (e : Option (Eof × Bool)) (occ : Bool) : Nat := if occ then 1 else flagE e
def flagN (s : State) : Nat := flagP s.eof s.timer.ack.occurred
theorem flagE_le (e : Option (Eof × Bool)) : flagE e ≤ 1 := by
  unfold flagE; split <;> omega
theorem flagP_le (e : Option (Eof × Bool)) (o : Bool) : flagP e o ≤ 1 := by
  unfold flagP; split
  · omega
  · exact flagE_le e
def promptN (s : State) : Nat := if s.prompt.isSome then 1 else 0
/-- what a transaction waiting for its peer can still do on its own: one EOF transmission per
positive-ACK expiry, until one of the two limits is reached -/
def waitV (s : State) : Nat := flagN s + 2 * (s.timer.ack.room + s.timer.inactivity.room)
def waitW (s : State) : Nat := 1 + 2 * (s.timer.ack.max + s.timer.inactivity.max)

theorem waitV_le (s : State) : waitV s ≤ waitW s := by
  have h1 := room_le_max s.timer.ack
  have h2 := room_le_max s.timer.inactivity
  have h3 := flagP_le s.eof s.timer.ack.occurred
  simp only [waitV, waitW, flagN]
  omega

/-- the termination measure: an upper bound on the loop iterations (transmissions and timer
wake-ups) a send transaction can still perform without hearing from its peer or its user -/
def mu (s : State) : Nat :=
  if s.state == .Active then
    promptN s + (match s.sendState with
      | .Finished => 1
      | .Cancelled => 2 + waitV s
      | .SendEof => 3 + waitW s + s.naks.length + waitV s
      | .SendData => 4 + 2 * waitW s + s.naks.length + (s.file.length - s.cursor.getD 0)
      | .SendMetadata => 5 + 2 * waitW s + s.naks.length + s.file.length)
  else 0

def muK (act p : Bool) (ss : SendState) (n cur len fl ra ri ma mi : Nat) : Nat :=
  if act then
    (if p then 1 else 0) + (match ss with
      | .Finished => 1
      | .Cancelled => 2 + (fl + 2 * (ra + ri))
      | .SendEof => 3 + (1 + 2 * (ma + mi)) + n + (fl + 2 * (ra + ri))
      | .SendData => 4 + 2 * (1 + 2 * (ma + mi)) + n + (len - cur)
      | .SendMetadata => 5 + 2 * (1 + 2 * (ma + mi)) + n + len)
  else 0

theorem mu_eq (s : State) : mu s = muK (s.state == .Active) s.prompt.isSome s.sendState s.naks.length
    (s.cursor.getD 0) s.st.file.length (flagP s.eof s.timer.ack.occurred) s.timer.ack.room s.timer.inactivity.room
    s.timer.ack.max s.timer.inactivity.max := rfl

theorem mu_pos {s : State} (h : s.state = .Active) : 0 < mu s := by
  simp only [mu, h, beq_self_eq_true, if_true]
  split <;> omega

theorem mu_inactive {s : State} (h : s.state ≠ .Active) : mu s = 0 := by
  simp only [mu]
  rw [if_neg]
  simpa using h

@[simp] theorem getD_openHandle (s : State) : (openHandle s).cursor.getD 0 = s.cursor.getD 0 := by
  simp only [openHandle]; split
  · rfl
  · rename_i h; simp [h]

theorem getD_answerNak (s : State) (a b : Nat) : (answerNak s a b).cursor.getD 0 = s.cursor.getD 0 := by
  simp only [answerNak]
  repeat' split
  all_goals simp

theorem timer_prepareEof (s : State) (f : Option VarId) (now : Nat) :
    (prepareEof s f now).timer = { s.timer with ack := (s.timer.ack.reset now).pause now } := by
  simp only [prepareEof, getChecksum]
  repeat' split
  all_goals simp

theorem flag_prepareEof (s : State) (f : Option VarId) (now : Nat) (o : Bool) : flagP (prepareEof s f now).eof o = 1 := by
  simp only [prepareEof, flagP, flagE]
  split <;> rfl

theorem room_ack_prepareEof (s : State) (f : Option VarId) (now : Nat) :
    (prepareEof s f now).timer.ack.room ≤ s.timer.ack.max ∧ (prepareEof s f now).timer.ack.max = s.timer.ack.max ∧
    (prepareEof s f now).timer.inactivity = s.timer.inactivity := by
  rw [timer_prepareEof]
  refine ⟨?_, by simp, rfl⟩
  have := room_le_max ((s.timer.ack.reset now).pause now)
  simpa using this

/-- answering one queued retransmission request -/
theorem mu_answer (s : State) (now a b : Nat) (tl : List (Nat × Nat)) (hn : s.naks = (a, b) :: tl) (h : s.state = .Active)
    (hss : s.sendState = .SendEof ∨ s.sendState = .SendData) :
    mu (answerNak (popNak s now) a b) + 1 ≤ mu s ∧ (answerNak (popNak s now) a b).sendState = s.sendState ∧
    (answerNak (popNak s now) a b).state = s.state ∧
    (answerNak (popNak s now) a b).cursor.getD 0 = s.cursor.getD 0 := by
  have f1 : (answerNak (popNak s now) a b).state = s.state := by simp [popNak]; split <;> rfl
  have f2 : (answerNak (popNak s now) a b).prompt = s.prompt := by simp [popNak]; split <;> rfl
  have f3 : (answerNak (popNak s now) a b).sendState = s.sendState := by simp [popNak]; split <;> rfl
  have f4 : (answerNak (popNak s now) a b).naks = tl := by simp [popNak, hn]; split <;> rfl
  have f5 : (answerNak (popNak s now) a b).cursor.getD 0 = s.cursor.getD 0 := by
    rw [getD_answerNak]; simp [popNak]; split <;> rfl
  have f6 : (answerNak (popNak s now) a b).st = s.st := by simp
  have f7 : (answerNak (popNak s now) a b).eof = s.eof := by simp [popNak]; split <;> rfl
  have f8 : (answerNak (popNak s now) a b).timer.ack = s.timer.ack := by simp [popNak]; split <;> rfl
  have f9 : (answerNak (popNak s now) a b).timer.inactivity.room ≤ s.timer.inactivity.room ∧
      (answerNak (popNak s now) a b).timer.inactivity.max = s.timer.inactivity.max := by
    simp [popNak]; split
    · exact ⟨room_restart _ _, max_restart _ _⟩
    · exact ⟨Nat.le_refl _, rfl⟩
  refine ⟨?_, f3, f1, f5⟩
  rw [mu_eq, mu_eq, f1, f2, f3, f4, f5, f6, f7, f8, f9.2, hn, h]
  have := f9.1
  simp only [muK, beq_self_eq_true, if_true, List.length_cons]
  rcases hss with hss | hss <;> rw [hss] <;> dsimp only <;> omega

/-- the end-of-first-pass test after a file-data PDU -/
theorem mu_afterData (s : State) (now : Nat) (h : s.state = .Active) (hss : s.sendState = .SendData) :
    mu (afterData s now) ≤ mu s ∧ (s.cursor.getD 0 = s.file.length → mu (afterData s now) + 1 ≤ mu s) := by
  simp only [afterData]
  split
  · rename_i hc
    have hc' : s.cursor.getD 0 = s.file.length := by simpa [State.file] using hc
    obtain ⟨r1, r2, r3⟩ := room_ack_prepareEof (openHandle s) none now
    have r0 := room_le_max s.timer.inactivity
    have key : mu { prepareEof (openHandle s) none now with sendState := .SendEof } + 1 ≤ mu s := by
      rw [mu_eq, mu_eq]
      simp only [state_prepareEof, state_openHandle, prompt_prepareEof, prompt_openHandle, naks_prepareEof, naks_openHandle,
        st_prepareEof, st_openHandle, flag_prepareEof, r2, r3, timer_openHandle, h, hss] at r1 ⊢
      simp only [muK, beq_self_eq_true, if_true]
      omega
    exact ⟨Nat.le_of_succ_le key, fun _ => key⟩
  · rename_i hc
    have hc' : ¬ s.cursor.getD 0 = s.file.length := by simpa [State.file] using hc
    have e : mu (openHandle s) = mu s := by
      rw [mu_eq, mu_eq]; simp
    exact ⟨Nat.le_of_eq e, fun hh => absurd hh hc'⟩

/-- one first-pass file-data PDU -/
theorem mu_segment (s : State) (now : Nat) (h : s.state = .Active) (hss : s.sendState = .SendData)
    (hseg : 0 < s.cfg.seg) (hle : s.cursor.getD 0 ≤ s.file.length) :
    mu (afterData (sendFileSegment s none none) now) + 1 ≤ mu s := by
  have f1 : (sendFileSegment s none none).state = s.state := by simp
  have f3 : (sendFileSegment s none none).sendState = s.sendState := by simp
  have f5 : (sendFileSegment s none none).cursor.getD 0 =
      s.cursor.getD 0 + min s.cfg.seg (s.file.length - s.cursor.getD 0) := by
    simp [sendFileSegment, State.file, State.cfg]
  have fm : mu (sendFileSegment s none none) ≤ mu s ∧
      (s.cursor.getD 0 < s.file.length → mu (sendFileSegment s none none) + 1 ≤ mu s) := by
    rw [mu_eq, mu_eq, f5]
    simp only [state_sendFileSegment, prompt_sendFileSegment, sendState_sendFileSegment, naks_sendFileSegment,
      st_sendFileSegment, eof_sendFileSegment, timer_sendFileSegment, h, hss]
    simp only [muK, beq_self_eq_true, if_true]
    simp only [State.file] at hle ⊢
    constructor
    · omega
    · intro hlt
      have : 0 < min s.cfg.seg (s.st.file.length - s.cursor.getD 0) := by
        rw [Nat.lt_min]; omega
      omega
  obtain ⟨a1, a2⟩ := mu_afterData (sendFileSegment s none none) now (by rw [f1]; exact h) (by rw [f3]; exact hss)
  by_cases hlt : s.cursor.getD 0 < s.file.length
  · exact Nat.le_trans (Nat.succ_le_succ a1) (fm.2 hlt)
  · have he : s.cursor.getD 0 = s.file.length := by omega
    have : (sendFileSegment s none none).cursor.getD 0 = (sendFileSegment s none none).file.length := by
      rw [f5]; simp only [State.file, st_sendFileSegment] at he ⊢; omega
    exact Nat.le_trans (a2 this) fm.1

/-- transmitting the Metadata PDU -/
theorem mu_sendPduMetadata (s : State) (now : Nat) (h : s.state = .Active) (hss : s.sendState = .SendMetadata) :
    mu (sendPduMetadata s now) + 1 ≤ mu s := by
  simp only [sendPduMetadata]
  split
  · rw [mu_eq, mu_eq]
    simp only [state_sendMetadata, prompt_sendMetadata, naks_sendMetadata, st_sendMetadata, eof_sendMetadata,
      timer_sendMetadata, h, hss]
    simp only [muK, beq_self_eq_true, if_true]
    omega
  · obtain ⟨r1, r2, r3⟩ := room_ack_prepareEof (sendMetadata s) none now
    have r0 := room_le_max s.timer.inactivity
    rw [mu_eq, mu_eq]
    simp only [state_prepareEof, state_sendMetadata, prompt_prepareEof, prompt_sendMetadata, naks_prepareEof,
      naks_sendMetadata, st_prepareEof, st_sendMetadata, flag_prepareEof, r2, r3, timer_sendMetadata, h, hss] at r1 ⊢
    simp only [muK, beq_self_eq_true, if_true]
    omega

/-- transmitting the queued EOF -/
theorem mu_sendEof (s : State) (now : Nat) (h : s.state = .Active) (hf : eofFlag s = true)
    (hss : s.sendState = .SendEof ∨ s.sendState = .Cancelled) :
    mu (sendEof s now) + 1 ≤ mu s ∧ (sendEof s now).state = s.state ∧ (sendEof s now).st = s.st := by
  simp only [sendEof]
  split
  · rename_i e he
    refine ⟨?_, by simp [setEofFlag]; split <;> simp, by simp⟩
    have hr := room_restart s.timer.ack now
    have g1 : (setEofFlag (sendPayload { s with timer := { s.timer with ack := s.timer.ack.restart now } } (.eof e)) false).eof
        = some (e, false) := by
      simp [setEofFlag, he]
    have g2 : ∀ x : State, (setEofFlag x false).state = x.state ∧ (setEofFlag x false).prompt = x.prompt ∧
        (setEofFlag x false).sendState = x.sendState ∧ (setEofFlag x false).naks = x.naks ∧
        (setEofFlag x false).cursor = x.cursor := by
      intro x; simp only [setEofFlag]; split <;> exact ⟨rfl, rfl, rfl, rfl, rfl⟩
    rw [mu_eq, mu_eq, g1]
    simp only [(g2 _).1, (g2 _).2.1, (g2 _).2.2.1, (g2 _).2.2.2.1, (g2 _).2.2.2.2, st_setEofFlag, timer_setEofFlag,
      state_sendPayload, prompt_sendPayload, sendState_sendPayload, naks_sendPayload, cursor_sendPayload, st_sendPayload,
      timer_sendPayload, he, h, max_restart]
    have k1 : flagP (some (e, false)) (s.timer.ack.restart now).occurred = 0 := by
      simp [flagP, flagE, Counter.restart]
    have k2 : flagP (some (e, true)) s.timer.ack.occurred = 1 := by
      simp only [flagP, flagE]; split <;> rfl
    simp only [muK, beq_self_eq_true, if_true, k1, k2]
    rcases hss with hss | hss <;> rw [hss] <;> dsimp only <;> omega
  · rename_i hne
    exfalso
    simp only [eofFlag] at hf
    split at hf
    · rename_i e f he
      subst hf
      exact hne e he
    · cases hf

theorem mu_shutdown (s : State) (now : Nat) : mu (shutdown s now) = 0 := mu_inactive (by simp [shutdown])

theorem mu_emit (s : State) (i : Ind) : mu (emit s i) = mu s := by rw [mu_eq, mu_eq]; simp

/-- **every transmission uses up the measure.** -/
theorem mu_sendPdu (s : State) (now : Nat) (h : s.state = .Active) (hp : hasPduToSend s = true)
    (hseg : 0 < s.cfg.seg) (hcur : s.sendState = .SendData → s.cursor.getD 0 ≤ s.file.length) :
    mu (sendPdu s now) + 1 ≤ mu s := by
  have hns : (s.state == TransactionState.Suspended) = false := by rw [h]; rfl
  simp only [hasPduToSend, hns, Bool.false_eq_true, if_false] at hp
  simp only [sendPdu]
  split
  · rename_i hpr
    simp only [sendPrompt]
    split
    · rename_i k hk
      rw [mu_eq, mu_eq]
      simp only [state_sendPayload, prompt_sendPayload, sendState_sendPayload, naks_sendPayload, cursor_sendPayload,
        st_sendPayload, eof_sendPayload, timer_sendPayload, h, hk]
      simp only [muK, beq_self_eq_true, if_true, Option.isSome_none, Option.isSome_some, Bool.false_eq_true, if_false]
      split <;> omega
    · rename_i hk; rw [hk] at hpr; cases hpr
  · rename_i hpr
    have hpr' : s.prompt.isSome = false := by simpa using hpr
    simp only [hpr', Bool.false_or] at hp
    split
    · rename_i hss; exact mu_sendPduMetadata s now h hss
    · rename_i hss
      simp only [sendPduData]
      split
      · simp only [sendMissingData]
        split
        · rename_i hne _ hnil; rw [hnil] at hne; cases hne
        · rename_i a b tl hn
          obtain ⟨m1, m2, m3, _⟩ := mu_answer s now a b tl hn h (Or.inr hss)
          have := (mu_afterData (answerNak (popNak s now) a b) now (by rw [m3]; exact h) (by rw [m2]; exact hss)).1
          omega
      · exact mu_segment s now h hss hseg (hcur hss)
    · rename_i hss
      simp only [hss] at hp
      split
      · simp only [sendMissingData]
        split
        · rename_i hne _ hnil; rw [hnil] at hne; cases hne
        · rename_i a b tl hn
          exact (mu_answer s now a b tl hn h (Or.inl hss)).1
      · rename_i hne
        have hf : eofFlag s = true := by
          have : s.naks.isEmpty = true := by simpa using hne
          simpa [this] using hp
        obtain ⟨m1, m2, m3⟩ := mu_sendEof s now h hf (Or.inl hss)
        simp only [sendPduEof]
        have e1 : mu (if (sendEof s now).eofInd = true then { emit (sendEof s now) Ind.eofSent with eofInd := false }
            else sendEof s now) = mu (sendEof s now) := by
          split
          · rw [mu_eq, mu_eq]; simp
          · rfl
        repeat' split
        all_goals first
          | (rw [mu_shutdown]; have := mu_pos h; omega)
          | (rw [e1]; exact m1)
          | (simp only [mu_emit]; exact m1)
          | exact m1
    · rename_i hss
      simp only [hss] at hp
      exact (mu_sendEof s now h hp (Or.inr hss)).1
    · rename_i hss
      simp only [hss] at hp
      simp only [sendAck]
      split
      · rw [mu_shutdown]; have := mu_pos h; omega
      · rename_i hk; rw [hk] at hp; cases hp

/-! ### timer well-formedness along every history -/

/-- a counter whose count is within its limit `m` and whose period is the positive constant `T` -/
def CQ (m T : Nat) (c : Counter) : Prop := c.Ok ∧ 0 < c.timeout ∧ c.max = m ∧ c.timeout = T
theorem cq_update {m T : Nat} {c : Counter} (h : CQ m T c) (now : Nat) : CQ m T (c.update now) :=
  ⟨ok_update h.1 now, by rw [timeout_update]; exact h.2.1, by rw [max_update]; exact h.2.2.1, by rw [timeout_update]; exact h.2.2.2⟩
theorem cq_restart {m T : Nat} {c : Counter} (h : CQ m T c) (now : Nat) : CQ m T (c.restart now) := cq_update h now
theorem cq_pause {m T : Nat} {c : Counter} (h : CQ m T c) (now : Nat) : CQ m T (c.pause now) := cq_update h now
theorem cq_reset {m T : Nat} {c : Counter} (h : CQ m T c) (now : Nat) : CQ m T (c.reset now) := ⟨ok_reset c now, h.2.1, h.2.2.1, h.2.2.2⟩
theorem cq_limitReached {m T : Nat} {c : Counter} (h : CQ m T c) (now : Nat) : CQ m T (c.limitReached now).1 := cq_update h now
theorem cq_timeoutOccurred {m T : Nat} {c : Counter} (h : CQ m T c) (now : Nat) : CQ m T (c.timeoutOccurred now).1 := cq_update h now

/-- the sender's timers: the NAK timer is never started, the other two are well-formed with the
configured limit and periods -/
structure QT (m Ta Ti : Nat) (t : Timer) : Prop where
  ack : CQ m Ta t.ack
  inactivity : CQ m Ti t.inactivity
  nak : t.nak.paused = true

syntax "qt_go" "[" term,* "]" : tactic
macro_rules
  | `(tactic| qt_go [$ls,*]) => `(tactic|
      (repeat' (first
        | assumption
        | dsimp only
        | sframes_timer
        $[| apply $ls]*
        | (refine ⟨?_, ?_, ?_⟩ <;> dsimp only)
        | apply cq_restart
        | apply cq_pause
        | apply cq_reset
        | apply cq_update
        | apply cq_limitReached
        | apply cq_timeoutOccurred
        | apply QT.ack
        | apply QT.inactivity
        | apply QT.nak)) <;> done)

variable {s : State} {now : Nat} {m Ta Ti : Nat}

theorem qt_prepareEof (h : QT m Ta Ti s.timer) (f : Option VarId) : QT m Ta Ti (prepareEof s f now).timer := by
  rw [timer_prepareEof]
  qt_go []
theorem qt_sendEof (h : QT m Ta Ti s.timer) : QT m Ta Ti (sendEof s now).timer := by
  simp only [sendEof]
  repeat' split
  all_goals qt_go []
theorem qt_shutdown (h : QT m Ta Ti s.timer) : QT m Ta Ti (shutdown s now).timer := by
  simp only [shutdown]
  qt_go []
theorem qt_popNak (h : QT m Ta Ti s.timer) : QT m Ta Ti (popNak s now).timer := by
  simp only [popNak]
  repeat' split
  all_goals qt_go []
theorem qt_abandon (h : QT m Ta Ti s.timer) : QT m Ta Ti (abandon s now).timer := by
  simp only [abandon]
  qt_go [qt_shutdown]
theorem qt_cancelInner (h : QT m Ta Ti s.timer) (c : Condition) : QT m Ta Ti (cancelInner s c now).timer := by
  simp only [cancelInner]
  qt_go [qt_prepareEof]
theorem qt_suspend (h : QT m Ta Ti s.timer) : QT m Ta Ti (suspend s now).timer := by
  simp only [suspend]
  qt_go []
theorem qt_resume (h : QT m Ta Ti s.timer) : QT m Ta Ti (resume s now).timer := by
  simp only [resume]
  repeat' split
  all_goals qt_go []
theorem qt_handleFault (h : QT m Ta Ti s.timer) (c : Condition) : QT m Ta Ti (handleFault s c now).timer := by
  simp only [handleFault]
  repeat' split
  all_goals qt_go [qt_cancelInner, qt_suspend, qt_abandon]
theorem qt_sendMissingData (h : QT m Ta Ti s.timer) : QT m Ta Ti (sendMissingData s now).timer := by
  simp only [sendMissingData]
  repeat' split
  all_goals qt_go [qt_popNak]
theorem qt_sendPdu (h : QT m Ta Ti s.timer) : QT m Ta Ti (sendPdu s now).timer := by
  simp only [sendPdu, sendPduMetadata, sendPduData, afterData, sendPduEof, sendAck]
  repeat' split
  all_goals qt_go [qt_prepareEof, qt_sendMissingData, qt_sendEof, qt_shutdown]
theorem qt_handleInactivity (h : QT m Ta Ti s.timer) (b : Bool) : QT m Ta Ti (handleInactivity s now b).timer := by
  simp only [handleInactivity]
  repeat' split
  all_goals qt_go [qt_abandon, qt_handleFault]
theorem qt_handleAckTimer (h : QT m Ta Ti s.timer) (b : Bool) : QT m Ta Ti (handleAckTimer s now b).timer := by
  simp only [handleAckTimer]
  repeat' split
  all_goals qt_go [qt_abandon, qt_handleFault]
theorem qt_handleTimeout (h : QT m Ta Ti s.timer) : QT m Ta Ti (handleTimeout s now).timer := by
  simp only [handleTimeout]
  repeat' split
  all_goals qt_go [qt_handleAckTimer, qt_handleInactivity]
theorem qt_processPdu (h : QT m Ta Ti s.timer) (p : Pdu) : QT m Ta Ti (processPdu s p now).1.timer := by
  simp only [processPdu, processPduBody, pduArrived]
  repeat' split
  all_goals qt_go [qt_shutdown]

/-! ### timer wake-ups -/

theorem mu_abandon (s : State) (now : Nat) : mu (abandon s now) = 0 := mu_inactive (by simp [abandon, shutdown])
theorem mu_suspend (s : State) (now : Nat) : mu (suspend s now) = 0 := mu_inactive (by simp [suspend])

/-- a fault in the SendEof phase (handler not Ignore) moves on: Cancelled, suspended or terminated -/
def lowEof (s : State) : Nat := promptN s + 3 + waitW s + s.naks.length

theorem lowEof_le (s : State) (h : s.state = .Active) (hss : s.sendState = .SendEof) : lowEof s ≤ mu s := by
  rw [mu_eq]
  simp only [lowEof, promptN, waitW, muK, h, hss, beq_self_eq_true, if_true]
  omega

theorem mu_cancelInner (s : State) (c : Condition) (now : Nat) (h : s.state = .Active)
    (hq : QT m Ta Ti s.timer) :
    mu (cancelInner s c now) + 1 ≤ lowEof s ∧ (cancelInner s c now).sendState = .Cancelled ∧
    (cancelInner s c now).timer.ack.paused = true ∧ (cancelInner s c now).timer.ack.occurred = false := by
  have ht : (cancelInner s c now).timer =
      { s.timer with inactivity := s.timer.inactivity.pause now,
                     ack := ((s.timer.ack.reset now).pause now) } := by
    simp only [cancelInner, timer_prepareEof]
  have hpz : (s.timer.ack.reset now).pause now = { s.timer.ack.reset now with paused := true } := by
    simp only [Counter.pause, update_reset _ _ hq.ack.2.1]
  refine ⟨?_, by simp [cancelInner], by rw [ht, hpz], by rw [ht, hpz]; rfl⟩
  have r1 := room_pause s.timer.inactivity now
  have r2 := room_le_max s.timer.inactivity
  have r3 := room_le_max ((s.timer.ack.reset now).pause now)
  have r4 := room_le_max s.timer.ack
  have r5 := flagP_le s.eof s.timer.ack.occurred
  rw [mu_eq, ht]
  simp only [cancelInner, state_prepareEof, prompt_prepareEof, sendState_prepareEof, naks_prepareEof, st_prepareEof,
    flag_prepareEof, h, max_pause, max_reset] at r3 ⊢
  simp only [muK, lowEof, promptN, waitW, beq_self_eq_true, if_true]
  omega

theorem mu_handleFault (s : State) (c : Condition) (now : Nat) (h : s.state = .Active)
    (hq : QT m Ta Ti s.timer) (hig : handlerFor s c ≠ .Ignore) :
    mu (handleFault s c now) + 1 ≤ lowEof s ∧
    ((handleFault s c now).state = .Active → (handleFault s c now).sendState = .Cancelled ∧
      (handleFault s c now).timer.ack.paused = true ∧ (handleFault s c now).timer.ack.occurred = false) := by
  have e0 : lowEof (emit { s with condition := c } (.fault c (getProgress { s with condition := c }))) = lowEof s := rfl
  have l3 : 3 ≤ lowEof s := by simp only [lowEof]; omega
  have hc : handlerFor (emit { s with condition := c } (.fault c (getProgress { s with condition := c }))) c = handlerFor s c := rfl
  simp only [handleFault]
  rw [hc]
  cases hh : handlerFor s c with
  | Ignore => exact absurd hh hig
  | Cancel =>
    dsimp only
    obtain ⟨m1, m2, m3, m4⟩ := mu_cancelInner (emit { s with condition := c } (.fault c (getProgress { s with condition := c }))) c now
      (by simp; exact h) (by simp; exact hq)
    exact ⟨by rw [e0] at m1; exact m1, fun _ => ⟨m2, m3, m4⟩⟩
  | Suspend =>
    dsimp only
    refine ⟨by rw [mu_suspend]; omega, fun ha => ?_⟩
    simp [suspend] at ha
  | Abandon =>
    dsimp only
    refine ⟨by rw [mu_abandon]; omega, fun ha => ?_⟩
    simp [abandon, shutdown] at ha

/-- the phase and the `cancelled` argument `handle_timeout` passes along agree -/
def PhaseArg (s : State) (c : Bool) : Prop :=
  (s.sendState = .SendEof ∧ c = false) ∨ (s.sendState = .Cancelled ∧ c = true)

def setI (s : State) (k : Counter) : State :=
  { s with timer := { inactivity := k, ack := s.timer.ack, nak := s.timer.nak } }
def setA (s : State) (k : Counter) : State :=
  { s with timer := { inactivity := s.timer.inactivity, ack := k, nak := s.timer.nak } }

theorem handleInactivity_eq (s : State) (now : Nat) (c : Bool) :
    handleInactivity s now c =
      if (s.timer.inactivity.limitReached now).2 then
        (if c then abandon (setI s (s.timer.inactivity.limitReached now).1) now
         else handleFault (setI s (s.timer.inactivity.limitReached now).1) .InactivityDetected now)
      else setI s (s.timer.inactivity.limitReached now).1 := rfl

theorem mu_setI (s : State) (k : Counter) (hr : k.room ≤ s.timer.inactivity.room) (hm : k.max = s.timer.inactivity.max) :
    mu (setI s k) ≤ mu s ∧
    (s.state = .Active → (s.sendState = .SendEof ∨ s.sendState = .Cancelled) → k.room < s.timer.inactivity.room →
      mu (setI s k) + 1 ≤ mu s) := by
  rw [mu_eq, mu_eq]
  simp only [setI]
  rw [hm]
  simp only [muK]
  constructor
  · split
    · cases s.sendState <;> dsimp only <;> omega
    · omega
  · intro h hss hlt
    simp only [h, beq_self_eq_true, if_true]
    rcases hss with hss | hss <;> rw [hss] <;> dsimp only <;> omega

/-- the inactivity part of `handle_timeout` -/
theorem mu_handleInactivity (s : State) (now : Nat) (c : Bool) (h : s.state = .Active) (hpa : PhaseArg s c)
    (hq : QT m Ta Ti s.timer) (hig : handlerFor s .InactivityDetected ≠ .Ignore) :
    mu (handleInactivity s now c) ≤ mu s ∧
    (s.timer.inactivity.paused = false → s.timer.inactivity.timeout ≤ now - s.timer.inactivity.start →
      mu (handleInactivity s now c) + 1 ≤ mu s) ∧
    ((handleInactivity s now c).state = .Active →
      ((handleInactivity s now c).timer.ack = s.timer.ack ∧ (handleInactivity s now c).sendState = s.sendState ∧
        (handleInactivity s now c).st = s.st ∧ QT m Ta Ti (handleInactivity s now c).timer) ∨
      (mu (handleInactivity s now c) + 1 ≤ mu s ∧ (handleInactivity s now c).timer.ack.paused = true ∧
        (handleInactivity s now c).timer.ack.occurred = false)) := by
  have hss : s.sendState = .SendEof ∨ s.sendState = .Cancelled := hpa.elim (fun x => Or.inl x.1) (fun x => Or.inr x.1)
  have hroom := room_limitReached s.timer.inactivity now
  have hmax := max_limitReached s.timer.inactivity now
  obtain ⟨m1, m2⟩ := mu_setI s (s.timer.inactivity.limitReached now).1 hroom hmax
  have hq1 : QT m Ta Ti (setI s (s.timer.inactivity.limitReached now).1).timer :=
    ⟨hq.ack, cq_limitReached hq.inactivity now, hq.nak⟩
  rw [handleInactivity_eq]
  generalize hk : (s.timer.inactivity.limitReached now).1 = k at *
  split
  · rename_i hreached
    split
    · -- cancelled: abandon
      rename_i hc
      refine ⟨by rw [mu_abandon]; omega, fun _ _ => by rw [mu_abandon]; have := mu_pos h; omega, fun ha => ?_⟩
      simp [abandon, shutdown] at ha
    · rename_i hc
      have hse : s.sendState = .SendEof := by
        rcases hpa with x | x
        · exact x.1
        · exact absurd x.2 hc
      obtain ⟨f1, f2⟩ := mu_handleFault (setI s k) .InactivityDetected now h hq1 hig
      have l1 := lowEof_le (setI s k) h hse
      have key : mu (handleFault (setI s k) .InactivityDetected now) + 1 ≤ mu s := by omega
      exact ⟨by omega, fun _ _ => key, fun ha => Or.inr ⟨key, (f2 ha).2⟩⟩
  · rename_i hnot
    refine ⟨m1, fun hp hd => ?_, fun _ => Or.inl ⟨rfl, rfl, rfl, hq1⟩⟩
    apply m2 h hss
    obtain ⟨_, d2⟩ := update_due s.timer.inactivity now hp hd
    have hk' : k = s.timer.inactivity.update now := hk.symm
    by_cases h0 : 0 < s.timer.inactivity.room
    · rw [hk']; exact d2 h0
    · exfalso
      apply hnot
      rw [limitReached_iff hq.inactivity.1, hk]
      omega

def ackBody (s : State) (now : Nat) (c : Bool) (k1 k2 : Counter) : State :=
  if k1.occurred then
    (if k2.count == k2.max then
      (if c then abandon (setA s k2) now else handleFault (setA s k2) .PositiveLimitReached now)
     else setEofFlag (setA s k2) true)
  else setA s k1

theorem handleAckTimer_eq (s : State) (now : Nat) (c : Bool) :
    handleAckTimer s now c = ackBody s now c (s.timer.ack.update now) ((s.timer.ack.update now).update now) := rfl

theorem handleAckTimer_inactive (s : State) (now : Nat) (c : Bool) (h : s.state ≠ .Active) :
    (handleAckTimer s now c).state ≠ .Active := by
  simp only [handleAckTimer, handleFault]
  repeat' split
  all_goals first
    | (simp [abandon, shutdown]; done)
    | (simp [suspend]; done)
    | (simpa [setEofFlag] using h)
    | (simp only [state_cancelInner, state_emit]; exact h)
    | (simp only [setEofFlag]; split <;> exact h)
    | exact h

/-- with the positive-ACK timer stopped and no expiry recorded, the positive-ACK part does nothing -/
theorem mu_handleAckTimer_noop (s : State) (now : Nat) (c : Bool) (hp : s.timer.ack.paused = true)
    (ho : s.timer.ack.occurred = false) : mu (handleAckTimer s now c) = mu s := by
  have hu : s.timer.ack.update now = s.timer.ack := by simp only [Counter.update, hp, if_true]
  rw [handleAckTimer_eq]
  simp only [ackBody, hu, ho, Bool.false_eq_true, if_false]
  rfl

theorem mu_setA (s : State) (k : Counter) (hm : k.max = s.timer.ack.max) :
    mu (setA s k) = muK (s.state == .Active) s.prompt.isSome s.sendState s.naks.length
      (s.cursor.getD 0) s.st.file.length (flagP s.eof k.occurred) k.room s.timer.inactivity.room
      s.timer.ack.max s.timer.inactivity.max := by
  rw [mu_eq]; simp only [setA]; rw [hm]

theorem mu_setEofFlag_setA (s : State) (k : Counter) (hm : k.max = s.timer.ack.max) (ho : k.occurred = true) :
    mu (setEofFlag (setA s k) true) = muK (s.state == .Active) s.prompt.isSome s.sendState s.naks.length
      (s.cursor.getD 0) s.st.file.length 1 k.room s.timer.inactivity.room
      s.timer.ack.max s.timer.inactivity.max := by
  have e : ∀ x : State, mu (setEofFlag x true) = muK (x.state == .Active) x.prompt.isSome x.sendState x.naks.length
      (x.cursor.getD 0) x.st.file.length (flagP (setEofFlag x true).eof x.timer.ack.occurred) x.timer.ack.room
      x.timer.inactivity.room x.timer.ack.max x.timer.inactivity.max := by
    intro x; rw [mu_eq]; simp only [setEofFlag]; split <;> rfl
  rw [e]
  simp only [setA, ho, flagP, if_true]
  rw [hm]

/-- the positive-ACK part of `handle_timeout` -/
theorem mu_handleAckTimer (s : State) (now : Nat) (c : Bool) (h : s.state = .Active) (hpa : PhaseArg s c)
    (hq : QT m Ta Ti s.timer) (hig : handlerFor s .PositiveLimitReached ≠ .Ignore) :
    mu (handleAckTimer s now c) ≤ mu s ∧
    (s.timer.ack.paused = false → s.timer.ack.timeout ≤ now - s.timer.ack.start →
      mu (handleAckTimer s now c) + 1 ≤ mu s) := by
  have hss : s.sendState = .SendEof ∨ s.sendState = .Cancelled := hpa.elim (fun x => Or.inl x.1) (fun x => Or.inr x.1)
  have hpos := mu_pos h
  rw [handleAckTimer_eq]
  obtain ⟨k1, hk1⟩ : ∃ k, s.timer.ack.update now = k := ⟨_, rfl⟩
  obtain ⟨k2, hk2⟩ : ∃ k, k1.update now = k := ⟨_, rfl⟩
  rw [hk1, hk2]
  simp only [ackBody]
  have m1 : k1.max = s.timer.ack.max := by rw [← hk1]; exact max_update _ _
  have m2 : k2.max = s.timer.ack.max := by rw [← hk2, max_update]; exact m1
  have r1 : k1.room ≤ s.timer.ack.room := by rw [← hk1]; exact room_update _ _
  have r2 : k2.room ≤ k1.room := by rw [← hk2]; exact room_update _ _
  have q1 : CQ m Ta k1 := by rw [← hk1]; exact cq_update hq.ack now
  have q2 : CQ m Ta k2 := by rw [← hk2]; exact cq_update q1 now
  have hqa : QT m Ta Ti (setA s k2).timer := ⟨q2, hq.inactivity, hq.nak⟩
  split
  · rename_i hocc
    have hocc2 : k2.occurred = true := by rw [← hk2]; exact update_occurred_mono _ _ hocc
    split
    · rename_i hreached
      split
      · exact ⟨by rw [mu_abandon]; omega, fun _ _ => by rw [mu_abandon]; omega⟩
      · rename_i hc
        have hse : s.sendState = .SendEof := by
          rcases hpa with x | x
          · exact x.1
          · exact absurd x.2 hc
        obtain ⟨f1, _⟩ := mu_handleFault (setA s k2) .PositiveLimitReached now h hqa hig
        have l1 : lowEof (setA s k2) = lowEof s := by simp only [lowEof, promptN, waitW, setA]; rw [m2]; rfl
        have l2 := lowEof_le s h hse
        exact ⟨by omega, fun _ _ => by omega⟩
    · rename_i hnot
      have hroom2 : 0 < k2.room := by
        have : ¬ k2.room = 0 := by
          intro h0
          apply hnot
          have := (limitReached_iff q1.1 now).mpr (by simp only [Counter.limitReached]; rw [hk2]; exact h0)
          simpa [Counter.limitReached, hk2] using this
        omega
      rw [mu_setEofFlag_setA s k2 m2 hocc2, mu_eq]
      have hfl := flagP_le s.eof s.timer.ack.occurred
      simp only [muK, h, beq_self_eq_true, if_true]
      -- either an expiry was already recorded (the flag term is already 1), or this wake-up recorded it
      by_cases hold : s.timer.ack.occurred = true
      · have hf1 : flagP s.eof s.timer.ack.occurred = 1 := by simp [flagP, hold]
        constructor
        · rcases hss with hss | hss <;> rw [hss] <;> dsimp only <;> omega
        · intro hp hd
          have := (update_due s.timer.ack now hp hd).2 (by omega)
          rw [hk1] at this
          rcases hss with hss | hss <;> rw [hss] <;> dsimp only <;> omega
      · have hold' : s.timer.ack.occurred = false := by simpa using hold
        obtain ⟨hp, hd⟩ := update_occurred_new s.timer.ack now hold' (by rw [hk1]; exact hocc)
        have := (update_due s.timer.ack now hp hd).2 (by omega)
        rw [hk1] at this
        constructor
        · rcases hss with hss | hss <;> rw [hss] <;> dsimp only <;> omega
        · intro _ _
          rcases hss with hss | hss <;> rw [hss] <;> dsimp only <;> omega
  · rename_i hocc
    have hocc' : k1.occurred = false := by simpa using hocc
    have hold : s.timer.ack.occurred = false := by
      cases ho : s.timer.ack.occurred with
      | false => rfl
      | true =>
        have := update_occurred_mono s.timer.ack now ho
        rw [hk1, hocc'] at this; cases this
    rw [mu_setA s k1 m1, mu_eq, hocc', hold]
    simp only [muK, h, beq_self_eq_true, if_true]
    constructor
    · rcases hss with hss | hss <;> rw [hss] <;> dsimp only <;> omega
    · intro hp hd
      have := (update_due s.timer.ack now hp hd).1
      rw [hk1, hocc'] at this; cases this

/-- limit faults are not configured to be ignored (C03 exempts transactions whose limit faults the
user configured to be ignored) -/
def NoIgnore (s : State) : Prop :=
  handlerFor s .PositiveLimitReached ≠ .Ignore ∧ handlerFor s .InactivityDetected ≠ .Ignore

theorem handlerFor_st {s s' : State} (h : s'.st = s.st) (c : Condition) : handlerFor s' c = handlerFor s c := by
  simp only [handlerFor, State.cfg, h]

/-- **every timer wake-up uses up the measure.** -/
theorem mu_handleTimeout (s : State) (now : Nat) (h : s.state = .Active) (hq : QT m Ta Ti s.timer) (hig : NoIgnore s)
    (hu : untilTimeout s now = some 0) : mu (handleTimeout s now) + 1 ≤ mu s := by
  have hns : (s.state == TransactionState.Suspended) = false := by rw [h]; rfl
  have hpos := mu_pos h
  simp only [untilTimeout, hns, Bool.false_eq_true, if_false] at hu
  -- which timer is due
  have due : ∀ (hss : s.sendState = .SendEof ∨ s.sendState = .Cancelled),
      (s.timer.ack.paused = false ∧ s.timer.ack.timeout ≤ now - s.timer.ack.start) ∨
      (s.timer.inactivity.paused = false ∧ s.timer.inactivity.timeout ≤ now - s.timer.inactivity.start) := by
    intro hss
    have hu' : s.timer.untilTimeout now = some 0 := by
      rcases hss with hss | hss <;> simpa [hss] using hu
    rcases timer_due s.timer now hu' with d | d | d
    · exact Or.inl ⟨d.1, by omega⟩
    · rw [hq.nak] at d; cases d.1
    · exact Or.inr ⟨d.1, by omega⟩
  have main : ∀ (c : Bool), PhaseArg s c → mu (handleAckTimer (handleInactivity s now c) now c) + 1 ≤ mu s := by
    intro c hpa
    have hss : s.sendState = .SendEof ∨ s.sendState = .Cancelled := hpa.elim (fun x => Or.inl x.1) (fun x => Or.inr x.1)
    obtain ⟨a1, a2, a3⟩ := mu_handleInactivity s now c h hpa hq hig.2
    by_cases hr : (handleInactivity s now c).state = .Active
    · rcases a3 hr with ⟨e1, e2, e3, e4⟩ | ⟨e1, e2, e3⟩
      · have hpa' : PhaseArg (handleInactivity s now c) c := by unfold PhaseArg; rw [e2]; exact hpa
        have hig' : handlerFor (handleInactivity s now c) .PositiveLimitReached ≠ .Ignore := by
          rw [handlerFor_st e3]; exact hig.1
        obtain ⟨b1, b2⟩ := mu_handleAckTimer (handleInactivity s now c) now c hr hpa' e4 hig'
        rw [e1] at b2
        rcases due hss with d | d
        · have := b2 d.1 d.2; omega
        · have := a2 d.1 d.2; omega
      · rw [mu_handleAckTimer_noop _ now c e2 e3]; exact e1
    · rw [mu_inactive (handleAckTimer_inactive _ now c hr)]; omega
  simp only [handleTimeout, hns, Bool.false_eq_true, if_false]
  split
  · rename_i hss; exact main false (Or.inl ⟨hss, rfl⟩)
  · rename_i hss; exact main true (Or.inr ⟨hss, rfl⟩)
  · rename_i h1 h2
    exfalso
    cases hs : s.sendState <;> simp [hs] at hu h1 h2

end Cfdp.Send

/-! ### the time measure: timer wake-ups only -/
namespace Cfdp.Send
open Cfdp.Codec Cfdp.Gen Cfdp.Timer

def tauK (act : Bool) (ss : SendState) (ra ri ma mi : Nat) : Nat :=
  if act then
    (match ss with
      | .Finished => 0
      | .Cancelled => 1 + (ra + ri)
      | .SendEof => 2 + (ma + mi) + (ra + ri)
      | .SendData => 2 + 2 * (ma + mi)
      | .SendMetadata => 2 + 2 * (ma + mi))
  else 0

/-- an upper bound on the timer wake-ups (with an expired timer) a send transaction can still go
through without hearing from its peer or its user -/
def tau (s : State) : Nat :=
  tauK (s.state == .Active) s.sendState s.timer.ack.room s.timer.inactivity.room s.timer.ack.max s.timer.inactivity.max

theorem tau_inactive {s : State} (h : s.state ≠ .Active) : tau s = 0 := by
  simp only [tau, tauK]
  rw [if_neg]
  simpa using h

theorem tau_congr {s s' : State} (h1 : s'.state = s.state) (h2 : s'.sendState = s.sendState) (h3 : s'.timer = s.timer) :
    tau s' = tau s := by
  simp only [tau, h1, h2, h3]

/-- entering the SendEof phase from the first pass -/
theorem tau_toSendEof (s : State) (f : Option VarId) (now : Nat) (h : s.sendState = .SendMetadata ∨ s.sendState = .SendData) :
    tau { prepareEof s f now with sendState := .SendEof } ≤ tau s := by
  obtain ⟨r1, r2, r3⟩ := room_ack_prepareEof s f now
  have r0 := room_le_max s.timer.inactivity
  simp only [tau, state_prepareEof, r2, r3]
  simp only [tauK]
  split
  · rcases h with h | h <;> rw [h] <;> dsimp only <;> omega
  · omega

theorem tau_answer (s : State) (now a b : Nat) : tau (answerNak (popNak s now) a b) ≤ tau s := by
  have f1 : (answerNak (popNak s now) a b).state = s.state := by simp [popNak]; split <;> rfl
  have f3 : (answerNak (popNak s now) a b).sendState = s.sendState := by simp [popNak]; split <;> rfl
  have f8 : (answerNak (popNak s now) a b).timer.ack = s.timer.ack := by simp [popNak]; split <;> rfl
  have f9 : (answerNak (popNak s now) a b).timer.inactivity.room ≤ s.timer.inactivity.room ∧
      (answerNak (popNak s now) a b).timer.inactivity.max = s.timer.inactivity.max := by
    simp [popNak]; split
    · exact ⟨room_restart _ _, max_restart _ _⟩
    · exact ⟨Nat.le_refl _, rfl⟩
  have := f9.1
  simp only [tau, f1, f3, f8, f9.2, tauK]
  split
  · cases s.sendState <;> dsimp only <;> omega
  · omega

theorem tau_afterData (s : State) (now : Nat) (hss : s.sendState = .SendData) : tau (afterData s now) ≤ tau s := by
  simp only [afterData]
  split
  · exact Nat.le_trans (tau_toSendEof (openHandle s) none now (Or.inr (by simp [hss]))) (Nat.le_of_eq (tau_congr (by simp) (by simp) (by simp)))
  · exact Nat.le_of_eq (tau_congr (by simp) (by simp) (by simp))

theorem tau_sendEof (s : State) (now : Nat) : tau (sendEof s now) ≤ tau s := by
  simp only [sendEof]
  split
  · have hr := room_restart s.timer.ack now
    have g2 : ∀ x : State, (setEofFlag x false).state = x.state ∧ (setEofFlag x false).sendState = x.sendState := by
      intro x; simp only [setEofFlag]; split <;> exact ⟨rfl, rfl⟩
    simp only [tau, (g2 _).1, (g2 _).2, timer_setEofFlag, state_sendPayload, sendState_sendPayload, timer_sendPayload, max_restart]
    simp only [tauK]
    split
    · cases s.sendState <;> dsimp only <;> omega
    · omega
  · exact Nat.le_refl _

theorem tau_shutdown (s : State) (now : Nat) : tau (shutdown s now) = 0 := tau_inactive (by simp [shutdown])
theorem tau_abandon (s : State) (now : Nat) : tau (abandon s now) = 0 := tau_inactive (by simp [abandon, shutdown])
theorem tau_suspend (s : State) (now : Nat) : tau (suspend s now) = 0 := tau_inactive (by simp [suspend])

/-- transmissions never add timer wake-ups -/
theorem tau_sendPdu (s : State) (now : Nat) : tau (sendPdu s now) ≤ tau s := by
  simp only [sendPdu]
  split
  · simp only [sendPrompt]
    split
    · exact Nat.le_of_eq (tau_congr (by simp) (by simp) (by simp))
    · exact Nat.le_refl _
  · split
    · rename_i hss
      simp only [sendPduMetadata]
      split
      · simp only [tau, state_sendMetadata, timer_sendMetadata, hss, tauK]
        exact Nat.le_refl _
      · exact Nat.le_trans (tau_toSendEof (sendMetadata s) none now (Or.inl (by simp [hss])))
          (Nat.le_of_eq (tau_congr (by simp) (by simp) (by simp)))
    · rename_i hss
      simp only [sendPduData]
      split
      · simp only [sendMissingData]
        split
        · exact tau_afterData s now hss
        · rename_i a b tl hn
          have f3 : (answerNak (popNak s now) a b).sendState = s.sendState := by simp [popNak]; split <;> rfl
          exact Nat.le_trans (tau_afterData _ now (by rw [f3]; exact hss)) (tau_answer s now a b)
      · exact Nat.le_trans (tau_afterData _ now (by simp [hss])) (Nat.le_of_eq (tau_congr (by simp) (by simp) (by simp)))
    · split
      · simp only [sendMissingData]
        split
        · exact Nat.le_refl _
        · exact tau_answer s now _ _
      · have m1 := tau_sendEof s now
        simp only [sendPduEof]
        have e1 : tau (if (sendEof s now).eofInd = true then { emit (sendEof s now) Ind.eofSent with eofInd := false }
            else sendEof s now) = tau (sendEof s now) := by
          split
          · exact tau_congr (by simp) (by simp) (by simp)
          · rfl
        repeat' split
        all_goals first
          | (rw [tau_shutdown]; exact Nat.zero_le _)
          | (rw [e1]; exact m1)
          | exact m1
    · exact tau_sendEof s now
    · simp only [sendAck]
      split
      · rw [tau_shutdown]; exact Nat.zero_le _
      · exact Nat.le_refl _

end Cfdp.Send

namespace Cfdp.Send
open Cfdp.Codec Cfdp.Gen Cfdp.Timer

def lowT (s : State) : Nat := 2 + (s.timer.ack.max + s.timer.inactivity.max)

theorem lowT_le (s : State) (h : s.state = .Active) (hss : s.sendState = .SendEof) : lowT s ≤ tau s := by
  simp only [lowT, tau, tauK, h, hss, beq_self_eq_true, if_true]
  omega

theorem tau_cancelInner (s : State) (c : Condition) (now : Nat) : tau (cancelInner s c now) + 1 ≤ lowT s := by
  have ht : (cancelInner s c now).timer =
      { s.timer with inactivity := s.timer.inactivity.pause now,
                     ack := ((s.timer.ack.reset now).pause now) } := by
    simp only [cancelInner, timer_prepareEof]
  have r1 := room_le_max (s.timer.inactivity.pause now)
  have r3 := room_le_max ((s.timer.ack.reset now).pause now)
  simp only [tau, ht, lowT]
  simp only [cancelInner, state_prepareEof, sendState_prepareEof, max_pause, max_reset, tauK] at r1 r3 ⊢
  split <;> omega

theorem tau_handleFault (s : State) (c : Condition) (now : Nat) (hig : handlerFor s c ≠ .Ignore) :
    tau (handleFault s c now) + 1 ≤ lowT s := by
  have e0 : lowT (emit { s with condition := c } (.fault c (getProgress { s with condition := c }))) = lowT s := rfl
  have hc : handlerFor (emit { s with condition := c } (.fault c (getProgress { s with condition := c }))) c = handlerFor s c := rfl
  have l1 : 2 ≤ lowT s := by simp only [lowT]; omega
  simp only [handleFault]
  rw [hc]
  cases hh : handlerFor s c with
  | Ignore => exact absurd hh hig
  | Cancel =>
    dsimp only
    have := tau_cancelInner (emit { s with condition := c } (.fault c (getProgress { s with condition := c }))) c now
    rw [e0] at this; exact this
  | Suspend => dsimp only; rw [tau_suspend]; omega
  | Abandon => dsimp only; rw [tau_abandon]; omega

theorem tau_setI (s : State) (k : Counter) (hr : k.room ≤ s.timer.inactivity.room) (hm : k.max = s.timer.inactivity.max) :
    tau (setI s k) ≤ tau s ∧
    (s.state = .Active → (s.sendState = .SendEof ∨ s.sendState = .Cancelled) → k.room < s.timer.inactivity.room →
      tau (setI s k) + 1 ≤ tau s) := by
  simp only [tau, setI]
  rw [hm]
  simp only [tauK]
  constructor
  · split
    · cases s.sendState <;> dsimp only <;> omega
    · omega
  · intro h hss hlt
    simp only [h, beq_self_eq_true, if_true]
    rcases hss with hss | hss <;> rw [hss] <;> dsimp only <;> omega

theorem tau_handleInactivity (s : State) (now : Nat) (c : Bool) (h : s.state = .Active) (hpa : PhaseArg s c)
    (hq : QT m Ta Ti s.timer) (hig : handlerFor s .InactivityDetected ≠ .Ignore) :
    tau (handleInactivity s now c) ≤ tau s ∧
    (s.timer.inactivity.paused = false → s.timer.inactivity.timeout ≤ now - s.timer.inactivity.start →
      tau (handleInactivity s now c) + 1 ≤ tau s) ∧
    ((handleInactivity s now c).state = .Active →
      ((handleInactivity s now c).timer.ack = s.timer.ack ∧ (handleInactivity s now c).sendState = s.sendState ∧
        (handleInactivity s now c).st = s.st ∧ QT m Ta Ti (handleInactivity s now c).timer) ∨
      (tau (handleInactivity s now c) + 1 ≤ tau s ∧ (handleInactivity s now c).timer.ack.paused = true ∧
        (handleInactivity s now c).timer.ack.occurred = false)) := by
  have hss : s.sendState = .SendEof ∨ s.sendState = .Cancelled := hpa.elim (fun x => Or.inl x.1) (fun x => Or.inr x.1)
  have hroom := room_limitReached s.timer.inactivity now
  have hmax := max_limitReached s.timer.inactivity now
  obtain ⟨m1, m2⟩ := tau_setI s (s.timer.inactivity.limitReached now).1 hroom hmax
  have hq1 : QT m Ta Ti (setI s (s.timer.inactivity.limitReached now).1).timer :=
    ⟨hq.ack, cq_limitReached hq.inactivity now, hq.nak⟩
  rw [handleInactivity_eq]
  generalize hk : (s.timer.inactivity.limitReached now).1 = k at *
  split
  · rename_i hreached
    split
    · rename_i hc
      have hpos : 0 < tau s := by
        simp only [tau, tauK, h, beq_self_eq_true, if_true]
        rcases hss with x | x <;> rw [x] <;> dsimp only <;> omega
      refine ⟨by rw [tau_abandon]; omega, fun _ _ => by rw [tau_abandon]; omega, fun ha => ?_⟩
      simp [abandon, shutdown] at ha
    · rename_i hc
      have hse : s.sendState = .SendEof := by
        rcases hpa with x | x
        · exact x.1
        · exact absurd x.2 hc
      have f1 := tau_handleFault (setI s k) .InactivityDetected now hig
      obtain ⟨_, f2⟩ := mu_handleFault (setI s k) .InactivityDetected now h hq1 hig
      have l0 : lowT (setI s k) = lowT s := by simp only [lowT, setI]; rw [hmax]
      have l1 := lowT_le s h hse
      have key : tau (handleFault (setI s k) .InactivityDetected now) + 1 ≤ tau s := by omega
      exact ⟨by omega, fun _ _ => key, fun ha => Or.inr ⟨key, (f2 ha).2⟩⟩
  · rename_i hnot
    refine ⟨m1, fun hp hd => ?_, fun _ => Or.inl ⟨rfl, rfl, rfl, hq1⟩⟩
    apply m2 h hss
    obtain ⟨_, d2⟩ := update_due s.timer.inactivity now hp hd
    have hk' : k = s.timer.inactivity.update now := hk.symm
    by_cases h0 : 0 < s.timer.inactivity.room
    · rw [hk']; exact d2 h0
    · exfalso
      apply hnot
      rw [limitReached_iff hq.inactivity.1, hk]
      omega

end Cfdp.Send

namespace Cfdp.Send
open Cfdp.Codec Cfdp.Gen Cfdp.Timer

theorem tau_handleAckTimer_noop (s : State) (now : Nat) (c : Bool) (hp : s.timer.ack.paused = true)
    (ho : s.timer.ack.occurred = false) : tau (handleAckTimer s now c) = tau s := by
  have hu : s.timer.ack.update now = s.timer.ack := by simp only [Counter.update, hp, if_true]
  rw [handleAckTimer_eq]
  simp only [ackBody, hu, ho, Bool.false_eq_true, if_false]
  rfl

theorem tau_setA (s : State) (k : Counter) (hm : k.max = s.timer.ack.max) :
    tau (setA s k) = tauK (s.state == .Active) s.sendState k.room s.timer.inactivity.room
      s.timer.ack.max s.timer.inactivity.max := by
  simp only [tau, setA]; rw [hm]

theorem tau_setEofFlag (x : State) (f : Bool) : tau (setEofFlag x f) = tau x := by
  simp only [setEofFlag]; split <;> rfl

theorem tau_handleAckTimer (s : State) (now : Nat) (c : Bool) (h : s.state = .Active) (hpa : PhaseArg s c)
    (hq : QT m Ta Ti s.timer) (hig : handlerFor s .PositiveLimitReached ≠ .Ignore) :
    tau (handleAckTimer s now c) ≤ tau s ∧
    (s.timer.ack.paused = false → s.timer.ack.timeout ≤ now - s.timer.ack.start →
      tau (handleAckTimer s now c) + 1 ≤ tau s) := by
  have hss : s.sendState = .SendEof ∨ s.sendState = .Cancelled := hpa.elim (fun x => Or.inl x.1) (fun x => Or.inr x.1)
  have hpos : 0 < tau s := by
    simp only [tau, tauK, h, beq_self_eq_true, if_true]
    rcases hss with x | x <;> rw [x] <;> dsimp only <;> omega
  rw [handleAckTimer_eq]
  obtain ⟨k1, hk1⟩ : ∃ k, s.timer.ack.update now = k := ⟨_, rfl⟩
  obtain ⟨k2, hk2⟩ : ∃ k, k1.update now = k := ⟨_, rfl⟩
  rw [hk1, hk2]
  simp only [ackBody]
  have m1 : k1.max = s.timer.ack.max := by rw [← hk1]; exact max_update _ _
  have m2 : k2.max = s.timer.ack.max := by rw [← hk2, max_update]; exact m1
  have r1 : k1.room ≤ s.timer.ack.room := by rw [← hk1]; exact room_update _ _
  have r2 : k2.room ≤ k1.room := by rw [← hk2]; exact room_update _ _
  have q1 : CQ m Ta k1 := by rw [← hk1]; exact cq_update hq.ack now
  split
  · rename_i hocc
    split
    · rename_i hreached
      split
      · exact ⟨by rw [tau_abandon]; omega, fun _ _ => by rw [tau_abandon]; omega⟩
      · rename_i hc
        have hse : s.sendState = .SendEof := by
          rcases hpa with x | x
          · exact x.1
          · exact absurd x.2 hc
        have f1 := tau_handleFault (setA s k2) .PositiveLimitReached now hig
        have l1 : lowT (setA s k2) = lowT s := by simp only [lowT, setA]; rw [m2]
        have l2 := lowT_le s h hse
        exact ⟨by omega, fun _ _ => by omega⟩
    · rename_i hnot
      have hroom2 : 0 < k2.room := by
        have : ¬ k2.room = 0 := by
          intro h0
          apply hnot
          have := (limitReached_iff q1.1 now).mpr (by simp only [Counter.limitReached]; rw [hk2]; exact h0)
          simpa [Counter.limitReached, hk2] using this
        omega
      rw [tau_setEofFlag, tau_setA s k2 m2]
      simp only [tau, tauK, h, beq_self_eq_true, if_true]
      constructor
      · rcases hss with hss | hss <;> rw [hss] <;> dsimp only <;> omega
      · intro hp hd
        have := (update_due s.timer.ack now hp hd).2 (by omega)
        rw [hk1] at this
        rcases hss with hss | hss <;> rw [hss] <;> dsimp only <;> omega
  · rename_i hocc
    have hocc' : k1.occurred = false := by simpa using hocc
    rw [tau_setA s k1 m1]
    simp only [tau, tauK, h, beq_self_eq_true, if_true]
    constructor
    · rcases hss with hss | hss <;> rw [hss] <;> dsimp only <;> omega
    · intro hp hd
      have := (update_due s.timer.ack now hp hd).1
      rw [hk1, hocc'] at this; cases this

/-- **every timer wake-up with an expired timer uses up the time measure.** -/
theorem tau_handleTimeout (s : State) (now : Nat) (h : s.state = .Active) (hq : QT m Ta Ti s.timer) (hig : NoIgnore s)
    (hu : untilTimeout s now = some 0) : tau (handleTimeout s now) + 1 ≤ tau s := by
  have hns : (s.state == TransactionState.Suspended) = false := by rw [h]; rfl
  simp only [untilTimeout, hns, Bool.false_eq_true, if_false] at hu
  have due : ∀ (hss : s.sendState = .SendEof ∨ s.sendState = .Cancelled),
      (s.timer.ack.paused = false ∧ s.timer.ack.timeout ≤ now - s.timer.ack.start) ∨
      (s.timer.inactivity.paused = false ∧ s.timer.inactivity.timeout ≤ now - s.timer.inactivity.start) := by
    intro hss
    have hu' : s.timer.untilTimeout now = some 0 := by
      rcases hss with hss | hss <;> simpa [hss] using hu
    rcases timer_due s.timer now hu' with d | d | d
    · exact Or.inl ⟨d.1, by omega⟩
    · rw [hq.nak] at d; cases d.1
    · exact Or.inr ⟨d.1, by omega⟩
  have main : ∀ (c : Bool), PhaseArg s c → tau (handleAckTimer (handleInactivity s now c) now c) + 1 ≤ tau s := by
    intro c hpa
    have hss : s.sendState = .SendEof ∨ s.sendState = .Cancelled := hpa.elim (fun x => Or.inl x.1) (fun x => Or.inr x.1)
    have hpos : 0 < tau s := by
      simp only [tau, tauK, h, beq_self_eq_true, if_true]
      rcases hss with x | x <;> rw [x] <;> dsimp only <;> omega
    obtain ⟨a1, a2, a3⟩ := tau_handleInactivity s now c h hpa hq hig.2
    by_cases hr : (handleInactivity s now c).state = .Active
    · rcases a3 hr with ⟨e1, e2, e3, e4⟩ | ⟨e1, e2, e3⟩
      · have hpa' : PhaseArg (handleInactivity s now c) c := by unfold PhaseArg; rw [e2]; exact hpa
        have hig' : handlerFor (handleInactivity s now c) .PositiveLimitReached ≠ .Ignore := by
          rw [handlerFor_st e3]; exact hig.1
        obtain ⟨b1, b2⟩ := tau_handleAckTimer (handleInactivity s now c) now c hr hpa' e4 hig'
        rw [e1] at b2
        rcases due hss with d | d
        · have := b2 d.1 d.2; omega
        · have := a2 d.1 d.2; omega
      · rw [tau_handleAckTimer_noop _ now c e2 e3]; exact e1
    · rw [tau_inactive (handleAckTimer_inactive _ now c hr)]; omega
  simp only [handleTimeout, hns, Bool.false_eq_true, if_false]
  split
  · rename_i hss; exact main false (Or.inl ⟨hss, rfl⟩)
  · rename_i hss; exact main true (Or.inr ⟨hss, rfl⟩)
  · rename_i h1 h2
    exfalso
    cases hs : s.sendState <;> simp [hs] at hu h1 h2

end Cfdp.Send

namespace Cfdp.Loop
open Cfdp.Send Cfdp.Codec Cfdp.Gen Cfdp.Timer

theorem qt_sendStep {s : Send.State} (h : QT m Ta Ti s.timer) (now : Nat) (e : Ev) : QT m Ta Ti (sendStep s now e).timer := by
  have h0 : QT m Ta Ti ({ s with sent := none, out := [] } : Send.State).timer := h
  simp only [sendStep]
  repeat' split
  all_goals first
    | exact h0
    | exact Send.qt_processPdu h0 _
    | exact Send.qt_sendPdu h0
    | exact Send.qt_handleTimeout h0
    | exact Send.qt_cancelInner h0 _
    | exact Send.qt_suspend h0
    | exact Send.qt_resume h0
    | exact Send.qt_shutdown h0
    | (simp only [Send.timer_sendReport, Send.timer_preparePrompt]; exact h0)

theorem st_sendStep (s : Send.State) (now : Nat) (e : Ev) : (sendStep s now e).st = s.st := by
  simp only [sendStep]
  repeat' split
  all_goals (first | rfl | (simp; done))

/-- the loop iteration does something: the transaction is alive and the branch of `select!` that
fired was enabled -/
def effective (s : Send.State) (now : Nat) : Ev → Bool
  | .send => s.state != .Terminated && Send.hasPduToSend s
  | .timeout => s.state != .Terminated && Send.untilTimeout s now == some 0
  | _ => false

/-- only transmission opportunities and timer wake-ups: the peer is silent, the user does nothing -/
def Quiet (evs : List (Nat × Ev)) : Prop := ∀ x ∈ evs, x.2 = .send ∨ x.2 = .timeout

/-- number of loop iterations of a history that did something -/
def effCount : Send.State → List (Nat × Ev) → Nat
  | _, [] => 0
  | s, (now, e) :: rest => (if effective s now e then 1 else 0) + effCount (sendStep s now e) rest

/-- what the bound needs of a state; holds after every history (`sinv_run`) -/
structure SInv (s : Send.State) : Prop where
  good : Send.Good s
  track : ∃ c, Track s c
  qt : QT s.cfg.max (s.cfg.ta * 1000000000) (s.cfg.ti * 1000000000) s.timer
  noIgnore : NoIgnore s

theorem sinv_sendStep {s : Send.State} (h : SInv s) (now : Nat) (e : Ev) : SInv (sendStep s now e) := by
  obtain ⟨c, hc⟩ := h.track
  obtain ⟨c', hc', _⟩ := track_step h.good hc now e
  have := st_sendStep s now e
  have hcfg : (sendStep s now e).cfg = s.cfg := by simp only [Send.State.cfg, this]
  refine ⟨(Send.good_sendStep h.good now e).1, ⟨c', hc'⟩, by rw [hcfg]; exact qt_sendStep h.qt now e, ?_⟩
  exact ⟨by rw [handlerFor_st this]; exact h.noIgnore.1, by rw [handlerFor_st this]; exact h.noIgnore.2⟩

theorem mu_clear (s : Send.State) : mu ({ s with sent := none, out := [] } : Send.State) = mu s := rfl

/-- one quiet loop iteration: the measure never grows, and drops when the iteration did something -/
theorem mu_step {s : Send.State} (h : SInv s) (now : Nat) (e : Ev) (hq : e = .send ∨ e = .timeout) :
    mu (sendStep s now e) + (if effective s now e then 1 else 0) ≤ mu s := by
  have hcur : s.sendState = .SendData → s.cursor.getD 0 ≤ s.file.length := by
    intro hss
    obtain ⟨c, hc⟩ := h.track
    rw [hc.data hss]; exact hc.le
  by_cases ha : s.state = .Active
  · have hnt : (({ s with sent := none, out := [] } : Send.State).state == TransactionState.Terminated) = false := by
      show (s.state == TransactionState.Terminated) = false
      rw [ha]; rfl
    rcases hq with rfl | rfl
    · simp only [sendStep, hnt, Bool.false_eq_true, if_false, effective]
      have e1 : Send.hasPduToSend ({ s with sent := none, out := [] } : Send.State) = Send.hasPduToSend s := rfl
      rw [e1]
      by_cases hp : Send.hasPduToSend s = true
      · have := mu_sendPdu ({ s with sent := none, out := [] } : Send.State) now ha hp h.good.seg.1 hcur
        rw [mu_clear] at this
        rw [if_pos hp]
        simpa [ha, hp] using this
      · rw [if_neg hp]
        have : Send.hasPduToSend s = false := by simpa using hp
        simp [this, mu_clear]
    · simp only [sendStep, hnt, Bool.false_eq_true, if_false, effective]
      have e1 : Send.untilTimeout ({ s with sent := none, out := [] } : Send.State) now = Send.untilTimeout s now := rfl
      rw [e1]
      by_cases hu : Send.untilTimeout s now = some 0
      · have := mu_handleTimeout ({ s with sent := none, out := [] } : Send.State) now ha h.qt h.noIgnore hu
        rw [mu_clear] at this
        have hb : (Send.untilTimeout s now == some 0) = true := by simpa using hu
        rw [if_pos hb]
        simpa [ha, hb] using this
      · have hb : (Send.untilTimeout s now == some 0) = false := by simpa using hu
        simp only [hb, Bool.and_false, Bool.false_eq_true, if_false, mu_clear, Nat.add_zero, Nat.le_refl]
  · -- suspended or terminated: nothing is enabled
    have hne : effective s now e = false := by
      cases hs : s.state with
      | Active => exact absurd hs ha
      | Terminated => rcases hq with rfl | rfl <;> simp [effective, hs]
      | Suspended =>
        rcases hq with rfl | rfl
        · simp [effective, Send.hasPduToSend, hs]
        · simp [effective, Send.untilTimeout, hs]
    rw [hne]
    have hm : mu (sendStep s now e) = 0 := by
      apply mu_inactive
      cases hs : s.state with
      | Active => exact absurd hs ha
      | Terminated =>
        simp only [sendStep]
        have : (({ s with sent := none, out := [] } : Send.State).state == TransactionState.Terminated) = true := by
          show (s.state == TransactionState.Terminated) = true
          rw [hs]; rfl
        rw [if_pos this]
        show s.state ≠ .Active
        rw [hs]; decide
      | Suspended =>
        have hnt : (({ s with sent := none, out := [] } : Send.State).state == TransactionState.Terminated) = false := by
          show (s.state == TransactionState.Terminated) = false
          rw [hs]; rfl
        rcases hq with rfl | rfl
        · simp only [sendStep, hnt, Bool.false_eq_true, if_false]
          have : Send.hasPduToSend ({ s with sent := none, out := [] } : Send.State) = false := by
            simp [Send.hasPduToSend, hs]
          rw [this]
          show s.state ≠ .Active
          rw [hs]; decide
        · simp only [sendStep, hnt, Bool.false_eq_true, if_false]
          have : Send.untilTimeout ({ s with sent := none, out := [] } : Send.State) now = none := by
            simp [Send.untilTimeout, hs]
          rw [this]
          show s.state ≠ .Active
          rw [hs]; decide
    simp only [Bool.false_eq_true, if_false]
    omega

theorem effCount_le {s : Send.State} (h : SInv s) (evs : List (Nat × Ev)) (hq : Quiet evs) : effCount s evs ≤ mu s := by
  induction evs generalizing s with
  | nil => exact Nat.zero_le _
  | cons x rest ih =>
    obtain ⟨now, e⟩ := x
    have h1 := mu_step h now e (hq (now, e) (List.mem_cons_self ..))
    have h2 := ih (sinv_sendStep h now e) (fun y hy => hq y (List.mem_cons_of_mem _ hy))
    simp only [effCount]
    omega

theorem sinv_run {s : Send.State} (h : SInv s) (evs : List (Nat × Ev)) : SInv (sendRun s evs).1 := by
  induction evs generalizing s with
  | nil => exact h
  | cons x rest ih => obtain ⟨now, e⟩ := x; exact ih (sinv_sendStep h now e)

end Cfdp.Loop

namespace Cfdp.Send
open Cfdp.Codec Cfdp.Gen Cfdp.Timer

/-- the measure is bounded by the configured limit, the queued requests and the file length -/
theorem mu_le {m Ta Ti : Nat} (s : State) (h : QT m Ta Ti s.timer) : mu s ≤ 8 + 8 * m + s.naks.length + s.file.length := by
  have h1 := room_le_max s.timer.ack
  have h2 := room_le_max s.timer.inactivity
  have h3 := flagP_le s.eof s.timer.ack.occurred
  have h4 := h.ack.2.2.1
  have h5 := h.inactivity.2.2.1
  rw [mu_eq]
  simp only [muK, State.file]
  split
  · cases s.sendState <;> dsimp only <;> split <;> omega
  · omega

end Cfdp.Send

namespace Cfdp.Loop
open Cfdp.Send Cfdp.Codec Cfdp.Gen Cfdp.Timer

theorem sinv_new (cfg : Send.Config) (md : Send.Meta) (file : Bytes) (t0 : Nat)
    (hsize : md.fileSize = file.length) (hseg : 0 < cfg.seg ∧ cfg.seg ≤ 65535) (hti : 0 < cfg.ti) (hta : 0 < cfg.ta)
    (hno : NoIgnore (Send.new cfg md file t0)) : SInv (Send.new cfg md file t0) := by
  refine ⟨Send.good_new cfg md file t0 hsize hseg,
    ⟨0, ⟨Nat.zero_le _, fun _ => ⟨rfl, rfl⟩, fun h => (by cases h), fun h => (by cases h)⟩⟩, ?_, hno⟩
  refine ⟨⟨Nat.zero_le _, ?_, rfl, rfl⟩, ⟨Nat.zero_le _, ?_, rfl, rfl⟩, rfl⟩
  · show 0 < cfg.ta * 1000000000
    omega
  · show 0 < cfg.ti * 1000000000
    omega

/-- **C03 (sender, bounded work).**  Take a send transaction after any history whatever (PDUs from
the peer, user requests, timer wake-ups, at arbitrary times) and leave it alone: the peer is silent
for good and the user does nothing, so the only loop iterations are transmission opportunities and
timer wake-ups, in any order and at any times.  Then the number of iterations that do anything
(a PDU is transmitted, or `handle_timeout` runs with an expired timer) is at most `mu`, which is at
most `8 + 8·limit + queued requests + file length`: after that many the transaction is terminated
or suspended (`C03_send_drains`).  Hypotheses: positive timeouts (with a zero timeout the Rust
`Counter::update` loop does not terminate) and limit faults not configured to be ignored (C03's
exemption). -/
theorem C03_send_bounded_work (cfg : Send.Config) (md : Send.Meta) (file : Bytes) (t0 : Nat)
    (hsize : md.fileSize = file.length) (hseg : 0 < cfg.seg ∧ cfg.seg ≤ 65535) (hti : 0 < cfg.ti) (hta : 0 < cfg.ta)
    (hno : NoIgnore (Send.new cfg md file t0)) (evs0 evs : List (Nat × Ev)) (hq : Quiet evs) :
    effCount (sendRun (Send.new cfg md file t0) evs0).1 evs ≤ mu (sendRun (Send.new cfg md file t0) evs0).1 ∧
    mu (sendRun (Send.new cfg md file t0) evs0).1 ≤
      8 + 8 * cfg.max + (sendRun (Send.new cfg md file t0) evs0).1.naks.length + file.length := by
  have hi := sinv_run (sinv_new cfg md file t0 hsize hseg hti hta hno) evs0
  refine ⟨effCount_le hi evs hq, ?_⟩
  have hcfg : ∀ (evs : List (Nat × Ev)) (s : Send.State), (sendRun s evs).1.st = s.st := by
    intro evs
    induction evs with
    | nil => intro s; rfl
    | cons x rest ih => intro s; obtain ⟨now, e⟩ := x; exact (ih _).trans (st_sendStep s now e)
  have := mu_le _ hi.qt
  simp only [Send.State.cfg, Send.State.file, hcfg] at this
  exact this

/-- the premises are satisfiable: with no handler overrides the default action is Cancel -/
example : NoIgnore (Send.new default default [] 0) := by
  constructor <;> decide

end Cfdp.Loop

namespace Cfdp.Loop
open Cfdp.Send Cfdp.Codec Cfdp.Gen Cfdp.Timer

/-- the task loop of a transaction left alone, as the drain phase of the harness plays it: transmit
while there is something to transmit, otherwise sleep for `until_timeout` and handle the timeout -/
def drainStep (s : Send.State) (now : Nat) : Send.State × Nat :=
  if s.state != .Active then (s, now)
  else if Send.hasPduToSend s then (sendStep s now .send, now)
  else match Send.untilTimeout s now with
    | some d => (sendStep s (now + d) .timeout, now + d)
    | none => (s, now)

def drain : Nat → Send.State → Nat → Send.State × Nat
  | 0, s, now => (s, now)
  | n + 1, s, now => drain n (drainStep s now).1 (drainStep s now).2

theorem send_untilTimeout_advance (s : Send.State) (now d : Nat) (h : Send.untilTimeout s now = some d) :
    Send.untilTimeout s (now + d) = some 0 := by
  simp only [Send.untilTimeout] at h ⊢
  split
  · rename_i hs; rw [if_pos hs] at h; cases h
  · rename_i hs
    rw [if_neg hs] at h
    split
    · rename_i hss; rw [hss] at h; exact untilTimeout_advance _ _ _ h
    · rename_i hss; rw [hss] at h; exact untilTimeout_advance _ _ _ h
    · rename_i h1 h2
      cases hss : s.sendState <;> simp [hss] at h h1 h2

/-- an active transaction is never asleep for good (the content of `C03_send_never_stuck`) -/
theorem sa_awake {s : Send.State} (hsa : SA s) (ha : s.state = .Active) (now : Nat) :
    Send.hasPduToSend s = true ∨ ∃ d, Send.untilTimeout s now = some d := by
  have hs : (s.state == TransactionState.Suspended) = false := by rw [ha]; rfl
  unfold SA at hsa
  simp only [Send.hasPduToSend, Send.untilTimeout, hs, Bool.false_eq_true, if_false]
  cases hss : s.sendState with
  | SendMetadata => left; simp
  | SendData => left; simp
  | Finished =>
    left
    rcases hsa.1 hss with h | h
    · simp [h]
    · rw [ha] at h; cases h
  | SendEof =>
    rcases hsa.2 (Or.inl hss) with h | h | h | h
    · left; simp [h]
    · right; exact untilTimeout_some_of_ack _ _ h
    · right; exact untilTimeout_some_of_inactivity _ _ h
    · exact absurd ha h
  | Cancelled =>
    rcases hsa.2 (Or.inr hss) with h | h | h | h
    · left; simp [h]
    · right; exact untilTimeout_some_of_ack _ _ h
    · right; exact untilTimeout_some_of_inactivity _ _ h
    · exact absurd ha h

theorem drainStep_inv {s : Send.State} (h : SInv s) (hsa : SA s) (now : Nat) :
    SInv (drainStep s now).1 ∧ SA (drainStep s now).1 ∧ mu (drainStep s now).1 ≤ mu s - 1 := by
  simp only [drainStep]
  split
  · rename_i hna
    refine ⟨h, hsa, ?_⟩
    show mu s ≤ mu s - 1
    have : s.state ≠ .Active := by simpa using hna
    have := mu_inactive this; omega
  split
  · rename_i hp
    refine ⟨sinv_sendStep h now .send, sa_sendStep hsa now .send, ?_⟩
    show mu (sendStep s now .send) ≤ mu s - 1
    have := mu_step h now .send (Or.inl rfl)
    by_cases ha : s.state = .Active
    · have he : effective s now .send = true := by simp [effective, ha, hp]
      rw [he] at this
      simp only [if_true] at this
      omega
    · have := mu_inactive ha; omega
  · rename_i hp
    split
    · rename_i d hd
      refine ⟨sinv_sendStep h (now + d) .timeout, sa_sendStep hsa (now + d) .timeout, ?_⟩
      show mu (sendStep s (now + d) .timeout) ≤ mu s - 1
      have := mu_step h (now + d) .timeout (Or.inr rfl)
      by_cases ha : s.state = .Active
      · have he : effective s (now + d) .timeout = true := by
          simp [effective, ha, send_untilTimeout_advance s now d hd]
        rw [he] at this
        simp only [if_true] at this
        omega
      · have := mu_inactive ha; omega
    · rename_i hn
      refine ⟨h, hsa, ?_⟩
      show mu s ≤ mu s - 1
      by_cases ha : s.state = .Active
      · exfalso
        rcases sa_awake hsa ha now with x | ⟨d, x⟩
        · exact hp x
        · rw [hn] at x; cases x
      · have := mu_inactive ha; omega

theorem drain_mu {s : Send.State} (h : SInv s) (hsa : SA s) (n now : Nat) : mu (drain n s now).1 ≤ mu s - n := by
  induction n generalizing s now with
  | zero => exact Nat.le_refl _
  | succ k ih =>
    obtain ⟨i1, i2, i3⟩ := drainStep_inv h hsa now
    have := ih i1 i2 (drainStep s now).2
    simp only [drain]
    omega

/-- **C03 (sender, the loop ends).**  From the state after any history, the task loop left alone
(transmit while there is something to transmit, otherwise sleep until the next timer and handle the
timeout) leaves the Active state - terminated, or suspended by a fault handler - within `mu`
iterations. -/
theorem C03_send_drains (cfg : Send.Config) (md : Send.Meta) (file : Bytes) (t0 : Nat)
    (hsize : md.fileSize = file.length) (hseg : 0 < cfg.seg ∧ cfg.seg ≤ 65535) (hti : 0 < cfg.ti) (hta : 0 < cfg.ta)
    (hno : NoIgnore (Send.new cfg md file t0)) (evs0 : List (Nat × Ev)) (now n : Nat)
    (hn : mu (sendRun (Send.new cfg md file t0) evs0).1 ≤ n) :
    (drain n (sendRun (Send.new cfg md file t0) evs0).1 now).1.state ≠ .Active := by
  have hi := sinv_run (sinv_new cfg md file t0 hsize hseg hti hta hno) evs0
  have hsa : SA (sendRun (Send.new cfg md file t0) evs0).1 := by
    have key : ∀ (evs : List (Nat × Ev)) (s : Send.State), SA s → SA (sendRun s evs).1 := by
      intro evs
      induction evs with
      | nil => intro s h; exact h
      | cons x rest ih => intro s h; obtain ⟨t, e⟩ := x; exact ih _ (sa_sendStep h t e)
    apply key
    have hn : (Send.new cfg md file t0).sendState = .SendMetadata := rfl
    unfold SA; rw [hn]
    exact ⟨fun h => absurd h (by decide), fun h => h.elim (fun h => absurd h (by decide)) (fun h => absurd h (by decide))⟩
  have := drain_mu hi hsa n now
  intro ha
  have := mu_pos ha
  omega

end Cfdp.Loop

namespace Cfdp.Loop
open Cfdp.Send Cfdp.Codec Cfdp.Gen Cfdp.Timer

theorem tau_clear (s : Send.State) : tau ({ s with sent := none, out := [] } : Send.State) = tau s := rfl

theorem tau_step_send (s : Send.State) (now : Nat) : tau (sendStep s now .send) ≤ tau s := by
  simp only [sendStep]
  split
  · exact Nat.le_refl _
  · split
    · exact Nat.le_trans (tau_sendPdu _ now) (Nat.le_of_eq (tau_clear s))
    · exact Nat.le_refl _

theorem tau_step_timeout {s : Send.State} (h : SInv s) (now : Nat) (ha : s.state = .Active)
    (hu : Send.untilTimeout s now = some 0) : tau (sendStep s now .timeout) + 1 ≤ tau s := by
  have hnt : (({ s with sent := none, out := [] } : Send.State).state == TransactionState.Terminated) = false := by
    show (s.state == TransactionState.Terminated) = false
    rw [ha]; rfl
  have e1 : Send.untilTimeout ({ s with sent := none, out := [] } : Send.State) now = Send.untilTimeout s now := rfl
  have hb : (Send.untilTimeout s now == some 0) = true := by simpa using hu
  simp only [sendStep, hnt, Bool.false_eq_true, if_false, e1, hb, if_true]
  have := tau_handleTimeout ({ s with sent := none, out := [] } : Send.State) now ha h.qt h.noIgnore hu
  rw [tau_clear] at this
  exact this

/-- a sleep is never longer than the longer of the two configured periods -/
theorem sleep_le {m Ta Ti : Nat} (s : Send.State) (now d : Nat) (hq : QT m Ta Ti s.timer) (hti : TI s.timer now)
    (h : Send.untilTimeout s now = some d) : d ≤ max Ta Ti := by
  have ha : s.timer.ack.untilTimeout now ≤ Ta := by
    have := hti.ack.2; have := hq.ack.2.2.2
    simp only [Counter.untilTimeout]; split <;> omega
  have hi : s.timer.inactivity.untilTimeout now ≤ Ti := by
    have := hti.inactivity.2; have := hq.inactivity.2.2.2
    simp only [Counter.untilTimeout]; split <;> omega
  have key : ∀ d, s.timer.untilTimeout now = some d → d ≤ max Ta Ti := by
    intro d hd
    simp only [Timer.untilTimeout, hq.nak, Bool.not_true, Bool.false_eq_true, if_false] at hd
    generalize s.timer.ack.untilTimeout now = a at hd ha
    generalize s.timer.inactivity.untilTimeout now = b at hd hi
    cases hpa : s.timer.ack.paused <;> cases hpi : s.timer.inactivity.paused <;>
      simp only [hpa, hpi, Bool.not_true, Bool.not_false, Bool.false_eq_true, if_false, if_true, optMin,
        Option.some.injEq, reduceCtorEq] at hd
    all_goals omega
  simp only [Send.untilTimeout] at h
  split at h
  · cases h
  · split at h
    · exact key d h
    · exact key d h
    · cases h

/-- one iteration of the drain loop: the clock advances by at most one period per unit of `tau` used -/
theorem drainStep_time {s : Send.State} (h : SInv s) (now : Nat) (hti : TI s.timer now) :
    TI (drainStep s now).1.timer (drainStep s now).2 ∧ now ≤ (drainStep s now).2 ∧
    tau (drainStep s now).1 ≤ tau s ∧
    (drainStep s now).2 - now ≤ (tau s - tau (drainStep s now).1) * (max (s.cfg.ta * 1000000000) (s.cfg.ti * 1000000000)) := by
  simp only [drainStep]
  split
  · exact ⟨hti, Nat.le_refl _, Nat.le_refl _, by simp⟩
  · rename_i hact
    have ha : s.state = .Active := by simpa using hact
    split
    · refine ⟨ti_sendStep hti (Nat.le_refl _) .send, Nat.le_refl _, tau_step_send s now, by simp⟩
    · split
      · rename_i d hd
        have hu := send_untilTimeout_advance s now d hd
        have h1 := tau_step_timeout h (now + d) ha hu
        have h2 := sleep_le s now d h.qt hti hd
        refine ⟨ti_sendStep hti (Nat.le_add_right _ _) .timeout, Nat.le_add_right _ _, ?_, ?_⟩
        · show tau (sendStep s (now + d) .timeout) ≤ tau s
          omega
        show now + d - now ≤ (tau s - tau (sendStep s (now + d) .timeout)) * (max (s.cfg.ta * 1000000000) (s.cfg.ti * 1000000000))
        have h3 : 1 ≤ tau s - tau (sendStep s (now + d) .timeout) := by omega
        have h4 := Nat.mul_le_mul_right (max (s.cfg.ta * 1000000000) (s.cfg.ti * 1000000000)) h3
        omega
      · exact ⟨hti, Nat.le_refl _, Nat.le_refl _, by simp⟩

theorem cfg_drainStep (s : Send.State) (now : Nat) : (drainStep s now).1.cfg = s.cfg := by
  have hc : ∀ t e, (sendStep s t e).cfg = s.cfg := by
    intro t e; simp only [Send.State.cfg, st_sendStep]
  simp only [drainStep]
  repeat' split
  all_goals first | rfl | exact hc _ _

theorem drain_time {s : Send.State} (h : SInv s) (hsa : SA s) (n now : Nat) (hti : TI s.timer now) :
    (drain n s now).2 - now ≤ (tau s - tau (drain n s now).1) * (max (s.cfg.ta * 1000000000) (s.cfg.ti * 1000000000)) ∧
    tau (drain n s now).1 ≤ tau s ∧ now ≤ (drain n s now).2 := by
  induction n generalizing s now with
  | zero => exact ⟨by simp [drain], Nat.le_refl _, Nat.le_refl _⟩
  | succ k ih =>
    obtain ⟨i1, i2, _⟩ := drainStep_inv h hsa now
    obtain ⟨t1, t2, t3, t4⟩ := drainStep_time h now hti
    obtain ⟨j1, j2, j3⟩ := ih i1 i2 (drainStep s now).2 t1
    rw [cfg_drainStep] at j1
    simp only [drain]
    refine ⟨?_, by omega, by omega⟩
    generalize max (s.cfg.ta * 1000000000) (s.cfg.ti * 1000000000) = T at *
    have e : (tau s - tau (drain k (drainStep s now).1 (drainStep s now).2).1) * T =
        (tau s - tau (drainStep s now).1) * T + (tau (drainStep s now).1 - tau (drain k (drainStep s now).1 (drainStep s now).2).1) * T := by
      rw [← Nat.add_mul]; congr 1; omega
    omega

theorem tau_le {m Ta Ti : Nat} (s : Send.State) (h : QT m Ta Ti s.timer) : tau s ≤ 2 + 4 * m := by
  have h1 := room_le_max s.timer.ack
  have h2 := room_le_max s.timer.inactivity
  have h4 := h.ack.2.2.1
  have h5 := h.inactivity.2.2.1
  simp only [tau, tauK]
  split
  · cases s.sendState <;> dsimp only <;> omega
  · omega

/-- **C03 (sender, bounded time).**  From the state after any history at non-decreasing clock
readings, the task loop left alone from clock reading `now` on (peer silent for good, no user
requests) is over - transaction terminated, or suspended by a fault handler (`C03_send_drains`) - by
`now + tau · max(ack timeout, inactivity timeout)` with `tau ≤ 2 + 4·limit`: however many iterations
are played, the clock never passes that reading. -/
theorem C03_send_bounded_time (cfg : Send.Config) (md : Send.Meta) (file : Bytes) (t0 : Nat)
    (hsize : md.fileSize = file.length) (hseg : 0 < cfg.seg ∧ cfg.seg ≤ 65535) (hti : 0 < cfg.ti) (hta : 0 < cfg.ta)
    (hno : NoIgnore (Send.new cfg md file t0)) (evs0 : List (Nat × Ev)) (hm : MonoT t0 evs0)
    (now : Nat) (hnow : lastT t0 evs0 ≤ now) (n : Nat) :
    (drain n (sendRun (Send.new cfg md file t0) evs0).1 now).2 ≤
      now + (2 + 4 * cfg.max) * (max (cfg.ta * 1000000000) (cfg.ti * 1000000000)) := by
  have hi := sinv_run (sinv_new cfg md file t0 hsize hseg hti hta hno) evs0
  have hsa : SA (sendRun (Send.new cfg md file t0) evs0).1 := by
    have key : ∀ (evs : List (Nat × Ev)) (s : Send.State), SA s → SA (sendRun s evs).1 := by
      intro evs
      induction evs with
      | nil => intro s h; exact h
      | cons x rest ih => intro s h; obtain ⟨t, e⟩ := x; exact ih _ (sa_sendStep h t e)
    apply key
    have hn : (Send.new cfg md file t0).sendState = .SendMetadata := rfl
    unfold SA; rw [hn]
    exact ⟨fun h => absurd h (by decide), fun h => h.elim (fun h => absurd h (by decide)) (fun h => absurd h (by decide))⟩
  have hT := ti_mono (C17_send_timers cfg md file t0 evs0 hm) hnow
  have hcfg : (sendRun (Send.new cfg md file t0) evs0).1.cfg = cfg := by
    have : ∀ (evs : List (Nat × Ev)) (s : Send.State), (sendRun s evs).1.st = s.st := by
      intro evs
      induction evs with
      | nil => intro s; rfl
      | cons x rest ih => intro s; obtain ⟨now, e⟩ := x; exact (ih _).trans (st_sendStep s now e)
    simp only [Send.State.cfg, this]; rfl
  obtain ⟨d1, d2, d3⟩ := drain_time hi hsa n now hT
  have hq := hi.qt
  rw [hcfg] at d1 hq
  have hb := tau_le _ hq
  generalize max (cfg.ta * 1000000000) (cfg.ti * 1000000000) = T at *
  have h1 : (tau (sendRun (Send.new cfg md file t0) evs0).1 - tau (drain n (sendRun (Send.new cfg md file t0) evs0).1 now).1) * T
      ≤ (2 + 4 * cfg.max) * T := Nat.mul_le_mul_right T (by omega)
  omega

end Cfdp.Loop

#print axioms Cfdp.Loop.C03_send_bounded_work
#print axioms Cfdp.Loop.C03_send_drains
#print axioms Cfdp.Loop.C03_send_bounded_time
#print axioms Cfdp.Loop.C03_send_never_stuck
#print axioms Cfdp.Loop.C03_recv_never_stuck
#print axioms Cfdp.Recv.C03_recv_inactivity_limit
