import Cfdp.Props.C10r
set_option linter.unusedSimpArgs false

/-! # C02: the Metadata PDU lost again and again

`C02_lost_metadata_round` (Props/C02v.lean) is the round of one lost Metadata PDU.  Here the receiver - which holds the truthful
EOF and every byte of the file, but not the Metadata - goes through expiry after expiry of its NAK timer: each time the
request queue is rebuilt with the 0-0 marker and goes out in a NAK (`md_round`), as long as the clock keeps the
counters below their limits (`FairT` with the NAK period; limits derived as in Props/C02x.lean); the data is untouched
(`md_repeated`), and whichever of these NAKs reaches the sender makes it repeat the Metadata PDU, which completes the
delivery (`C02_lost_metadatas_round`). -/
namespace Cfdp.Loop
open Cfdp.Codec Cfdp.Gen Cfdp.Timer Cfdp.Recv Cfdp.Send

/-- `wake_rebuilds_room` for a receiver that has no Metadata yet: the rebuilt queue starts with the 0-0 marker, so it is
never empty -/
theorem wake_rebuilds_md {m Ta Ti Tn : Nat} (r : Recv.State) (t : Nat)
    (hmode : r.cfg.mode = .Acknowledged) (hact : r.state = .Active) (hrd : r.recvState = .ReceiveData) (hmdn : r.md = none) (hpr : r.prompt = none) (hack : r.ack = none) (hrt : RT m Ta Ti Tn r.timer)
    (hdel : r.delayed = [])
    (hdue : r.timer.nak.paused = false ∧ r.timer.nak.timeout ≤ t - r.timer.nak.start ∧ r.timer.nak.start ≤ t)
    (hroom : (r.nakReceived == r.received) = false ∨ (r.timer.nak.update t).count ≠ r.timer.nak.max) (hmax : 0 < r.timer.nak.max)
    (hil : (r.timer.inactivity.update t).count ≠ r.timer.inactivity.max)
    :
    SameData (recvStep r t .timeout) r ∧ NQ m Ta Ti Tn t (recvStep r t .timeout) ∧
    (recvStep r t .timeout).naks = getAllNaks (recvStep r t .timeout) ∧
    (recvStep r t .timeout).timer.nak = r.timer.nak.update t ∧ (recvStep r t .timeout).nakReceived = r.nakReceived ∧
    (recvStep r t .timeout).received = r.received ∧
    IK r.timer.inactivity t (recvStep r t .timeout).timer.inactivity := by
  have hnt : ((clrR r).state == TransactionState.Terminated) = false := by
    show (r.state == TransactionState.Terminated) = false; rw [hact]; rfl
  have hns : ((clrR r).state == TransactionState.Suspended) = false := by
    show (r.state == TransactionState.Suspended) = false; rw [hact]; rfl
  -- the computed sleep is over
  have hu : Recv.untilTimeout (clrR r) t = some 0 := by
    have hd0 : (clrR r).delayed = [] := hdel
    simp only [Recv.untilTimeout, hns, Bool.false_eq_true, if_false, hd0, List.head?_nil]
    exact untilTimeout_nak_due r.timer t hdue.1 hdue.2.1 hdue.2.2
  have hmode : ((clrR r).cfg.mode == TransmissionMode.Unacknowledged) = false := by
    show (r.cfg.mode == TransmissionMode.Unacknowledged) = false; rw [hmode]; rfl
  have e1 : recvStep r t .timeout = handleTimeoutMain (clrR r) t := by
    rw [recvStep_eq]
    simp only [hnt, Bool.false_eq_true, if_false, hu, beq_self_eq_true, if_true, Recv.handleTimeout, hns, hmode,
      Bool.false_and]
  -- the delayed checks: none
  have hd : handleDelayed (clrR r) t = clrR r := by
    have hd0 : (clrR r).delayed = [] := hdel
    rw [naks_handleDelayed_nil _ _ (by rw [hd0]; rfl), hd0]
    show ({ clrR r with delayed := [] } : Recv.State) = clrR r
    have : (clrR r) = { clrR r with delayed := (clrR r).delayed } := rfl
    rw [this, hd0]
  -- the inactivity part: no limit
  have hib : (((clrR r).timer.inactivity.limitReached t).2) = false := by
    show ((r.timer.inactivity.update t).count == (r.timer.inactivity.update t).max) = false
    rw [max_update]; simpa using hil
  have hTi := hrt.inactivity.2.1
  have hOi := hrt.inactivity.1
  have hid1 : (r.timer.inactivity.update t).update t = r.timer.inactivity.update t := update_idem _ _ hTi hOi
  obtain ⟨k, hk, hkq, hik⟩ : ∃ k, handleInactivity (clrR r) t = (setIR (clrR r) k, true) ∧ CQ m Ti k ∧
      IK r.timer.inactivity t k := by
    rw [Recv.handleInactivity_eq]
    simp only [hib, Bool.false_eq_true, if_false]
    split
    · refine ⟨_, rfl, cq_restart (cq_timeoutOccurred (cq_limitReached hrt.inactivity t) t) t, ?_, Or.inl rfl, ?_⟩
      · show ((((r.timer.inactivity.update t).update t).update t)).count = (r.timer.inactivity.update t).count
        rw [hid1, hid1]
      · intro hc; cases hc
    · refine ⟨_, rfl, cq_timeoutOccurred (cq_limitReached hrt.inactivity t) t, ?_, Or.inr ?_, ?_⟩
      · show ((r.timer.inactivity.update t).update t).count = (r.timer.inactivity.update t).count
        rw [hid1]
      · show ((r.timer.inactivity.update t).update t).start = (r.timer.inactivity.update t).start
        rw [hid1]
      · show ((r.timer.inactivity.update t).update t).paused = true → r.timer.inactivity.paused = true
        rw [hid1]
        intro hp
        simp only [Counter.update] at hp
        split at hp
        · assumption
        · rw [(updateLoop_fields _ _ _).2.2.2] at hp; exact hp
  -- the NAK part
  have hocc : ((setIR (clrR r) k).timer.nak.update t).occurred = true := (update_due r.timer.nak t hdue.1 hdue.2.1).1
  have hgaps : (getAllNaks (setNR (setIR (clrR r) k) (r.timer.nak.update t))).isEmpty = false := by
    have e := getAllNaks_congr (s := r) (s' := setNR (setIR (clrR r) k) (r.timer.nak.update t)) rfl rfl rfl
    rw [e]
    simp only [getAllNaks, hmdn, Option.isNone_none, if_true, List.cons_append, List.nil_append, List.isEmpty_cons]
  have e2 : handleTimeoutMain (clrR r) t =
      nbSet (setIR (clrR r) k) (r.timer.nak.update t) (r.timer.nak.update t) := by
    rw [Recv.handleTimeoutMain_eq]
    simp only [hns, Bool.false_eq_true, if_false, hd, hk, Bool.not_true]
    have hrd' : (setIR (clrR r) k).recvState = .ReceiveData := hrd
    simp only [hrd']
    rw [nakBranch_eq]
    have hnk : (setIR (clrR r) k).timer.nak = r.timer.nak := rfl
    rw [hnk] at hocc ⊢
    simp only [hocc, if_true, hgaps, Bool.false_eq_true, if_false]
  rw [e1, e2]
  refine ⟨⟨rfl, rfl, rfl, rfl, rfl, rfl, rfl, rfl, rfl, rfl⟩, ⟨hact, hrd, hpr, hack, ?_, ?_⟩, ?_, rfl, rfl, rfl, hik⟩
  · exact ⟨hrt.ack, hkq, cq_update hrt.nak t⟩
  · refine ⟨by show (r.timer.nak.update t).max > 0; rw [max_update]; exact hmax, ?_⟩
    rcases hroom with hnew | hnl
    · exact Or.inl hnew
    · right
      show ((r.timer.nak.update t).update t).count ≠ ((r.timer.nak.update t).update t).max
      rw [update_idem _ _ hrt.nak.2.1 hrt.nak.1, max_update]
      exact hnl
  · show getAllNaks (setNR (setIR (clrR r) k) (r.timer.nak.update t)) = getAllNaks _
    exact getAllNaks_congr rfl rfl rfl



/-- a receiver that holds the truthful EOF and every byte of the file `src` but not the Metadata (whose checksum type is
`ct`), with nothing to transmit -/
structure MW (src : Bytes) (ct : ChecksumType) (fs0 : Fs.FS) (r : Recv.State) : Prop where
  mode : r.cfg.mode = .Acknowledged
  act : r.state = .Active
  rd : r.recvState = .ReceiveData
  md : r.md = none
  size : r.fileSize = some src.length
  ck : r.checksum = some (fileChecksum ct src)
  cond : r.condition = .NoError
  data : DataOk src r
  comp : Seg.isComplete r.segs src.length = true
  fs : r.fs = fs0

theorem mw_of_same {src : Bytes} {ct : ChecksumType} {fs0 : Fs.FS} {r r' : Recv.State} (h : MW src ct fs0 r)
    (hs : SameData r' r) : MW src ct fs0 r' := by
  obtain ⟨c1, c2, c3, c4, c5, c6, c7, c8, c9, c10⟩ := hs
  exact ⟨by rw [c1]; exact h.mode, by rw [c2]; exact h.act, by rw [c3]; exact h.rd, by rw [c4]; exact h.md,
    by rw [c5]; exact h.size, by rw [c6]; exact h.ck, by rw [c7]; exact h.cond, dataOk_frame h.data c8 c9,
    by rw [c8]; exact h.comp, by rw [c10]; exact h.fs⟩

/-- one round: the NAK timer's expiry below the limits and the transmission of the rebuilt queue - a NAK asking for the
Metadata goes out, the receiver is as it was, the counters as the counting arguments say -/
theorem md_round {m Ta Ti Tn : Nat} {src : Bytes} {ct : ChecksumType} {fs0 : Fs.FS} (r : Recv.State) (t tp j a : Nat)
    (h : MW src ct fs0 r) (w : WN m Ta Ti Tn r) (hmax : 0 < m) (nb : NB tp j r) (ib : IB Ti a (max a tp) r.timer.inactivity)
    (h1 : tp + Tn ≤ t) (h2 : t < tp + 2 * Tn) (h3 : j + 1 < m) (h4 : a ≤ t) (h5 : t < a + m * Ti) :
    MW src ct fs0 (wakeFlush r t).1 ∧ WN m Ta Ti Tn (wakeFlush r t).1 ∧ NB t (j + 1) (wakeFlush r t).1 ∧
    IB Ti a (max a t) (wakeFlush r t).1.timer.inactivity ∧
    (∃ pdu ∈ (wakeFlush r t).2, ∃ nk, pdu.payload = .nak nk ∧ (0, 0) ∈ nk.requests) := by
  have hT : r.timer.nak.timeout = Tn := w.rt.nak.2.2.2
  have hM : r.timer.nak.max = m := w.rt.nak.2.2.1
  have hTp : 0 < r.timer.nak.timeout := w.rt.nak.2.1
  have hOk : r.timer.nak.count ≤ r.timer.nak.max := w.rt.nak.1
  have hdue : r.timer.nak.paused = false ∧ r.timer.nak.timeout ≤ t - r.timer.nak.start ∧ r.timer.nak.start ≤ t := by
    refine ⟨nb.run, ?_, ?_⟩ <;> rw [nb.start] <;> try rw [hT]
    all_goals omega
  have hcnt : (r.timer.nak.update t).count = min (r.timer.nak.count + 1) r.timer.nak.max :=
    count_update_window _ t nb.run hTp hOk (by rw [nb.start, hT]; exact h1) (by rw [nb.start, hT]; exact h2)
  have hne : (r.timer.nak.update t).count ≠ r.timer.nak.max := by
    rw [hcnt, hM]; have := nb.count; omega
  have hmx : 0 < r.timer.nak.max := by rw [hM]; exact hmax
  have hTi : r.timer.inactivity.timeout = Ti := w.rt.inactivity.2.2.2
  have hMi : r.timer.inactivity.max = m := w.rt.inactivity.2.2.1
  have hTip : 0 < Ti := by rw [← hTi]; exact w.rt.inactivity.2.1
  have ibu : IB Ti a t (r.timer.inactivity.update t) := ib_update ib t hTi hTip w.rt.inactivity.1 (by omega)
  have hil : (r.timer.inactivity.update t).count ≠ r.timer.inactivity.max := by
    have := ib_limit ibu h5
    rw [hMi]; omega
  obtain ⟨w1, w2, w3, w4, w5, w6, w7⟩ := wake_rebuilds_md r t h.mode h.act h.rd h.md w.pr w.ack w.rt w.del hdue (Or.inr hne) hmx hil
  generalize hr1 : recvStep r t .timeout = r1 at w1 w2 w3 w4 w5 w6 w7
  have hwf : wakeFlush r t = recvN r1.naks.length r1 t := by unfold wakeFlush; rw [hr1]
  rw [hwf]
  obtain ⟨f1, f2, f3, f4, _⟩ := recv_flushes_naks r1.naks.length r1 t w2 (Nat.le_refl _)
  have hs := sameData_trans f3 w1
  have hmark : (0, 0) ∈ r1.naks := by
    rw [w3]
    have : r1.md = none := by rw [w1.2.2.2.1]; exact h.md
    simp only [getAllNaks, this, Option.isNone_none, if_true, List.cons_append, List.nil_append, List.mem_cons, true_or]
  have hne1 : r1.naks ≠ [] := fun hc => by rw [hc] at hmark; cases hmark
  have hd1 : r1.delayed = [] := by rw [← hr1]; exact delayed_nil_recvStep_timeout r t w.del
  have hnc : NC t (if (r.nakReceived == r.received) then (r.timer.nak.update t).count else 0) (recvN r1.naks.length r1 t).1 := by
    cases hl : r1.naks.length with
    | zero => exact absurd (List.eq_nil_of_length_eq_zero hl) hne1
    | succ k =>
      simp only [recvN]
      obtain ⟨n1, _⟩ := nc_first r1 t w2 hne1
      rw [w4, w5, w6] at n1
      have hid : (r.timer.nak.update t).update t = r.timer.nak.update t := update_idem _ _ hTp hOk
      rw [hid] at n1
      exact (nc_recvN k _ t _ (recv_sends_nak _ t w2 hne1).1 n1).1
  have hin : (recvN r1.naks.length r1 t).1.timer.inactivity = r1.timer.inactivity := inact_recvN _ _ t w2
  refine ⟨mw_of_same h hs, ⟨f2.pr, f2.ack, f2.rt, by rw [delayed_recvN]; exact hd1, f1⟩,
    ⟨hnc.start, hnc.run, ?_, by rw [hnc.seen]; exact Nat.le_refl _⟩, ?_, ?_⟩
  · rw [hnc.count]
    split
    · rw [hcnt]; have := nb.count; omega
    · omega
  · rw [hin]
    obtain ⟨k1, k2, _⟩ := w7
    have u1 := ibu.cnt
    have u2 := ibu.lo
    have u3 := ibu.hi
    refine ⟨?_, ?_, ?_⟩
    · rw [k1]; rcases k2 with k2 | k2 <;> rw [k2] <;> omega
    · rcases k2 with k2 | k2 <;> rw [k2] <;> omega
    · rcases k2 with k2 | k2 <;> rw [k2] <;> omega
  · obtain ⟨pdu, hp, nk, e1, e2⟩ := f4 (0, 0) hmark
    exact ⟨pdu, hp, nk, e1, e2⟩

/-- expiry after expiry of the NAK timer with nothing arriving in between, each followed by the transmission of the queue -/
def mdRounds : Recv.State → List Nat → Recv.State × List Pdu
  | r, [] => (r, [])
  | r, t :: ts => ((mdRounds (wakeFlush r t).1 ts).1, (wakeFlush r t).2 ++ (mdRounds (wakeFlush r t).1 ts).2)

/-- **the NAK asking for the Metadata is repeated as long as the Metadata is lost, up to the limit** -/
theorem md_repeated {m Ta Ti Tn : Nat} {src : Bytes} {ct : ChecksumType} {fs0 : Fs.FS} (ts : List Nat) (r : Recv.State)
    (tp j a : Nat) (h : MW src ct fs0 r) (w : WN m Ta Ti Tn r) (hmax : 0 < m) (nb : NB tp j r)
    (ib : IB Ti a (max a tp) r.timer.inactivity) (hf : FairT m Tn Ti tp j a ts) :
    MW src ct fs0 (mdRounds r ts).1 ∧
    (ts ≠ [] → ∃ pdu ∈ (mdRounds r ts).2, ∃ nk, pdu.payload = .nak nk ∧ (0, 0) ∈ nk.requests) := by
  induction ts generalizing r tp j with
  | nil => exact ⟨h, fun hc => absurd rfl hc⟩
  | cons t ts ih =>
    simp only [FairT] at hf
    obtain ⟨h1, h2, h3, h4, h5, hf⟩ := hf
    obtain ⟨a1, a2, a3, a4, ⟨pdu, hp, nk, e1, e2⟩⟩ := md_round r t tp j a h w hmax nb ib h1 h2 h3 h4 h5
    obtain ⟨i1, _⟩ := ih _ t (j + 1) a1 a2 a3 a4 hf
    simp only [mdRounds]
    exact ⟨i1, fun _ => ⟨pdu, List.mem_append_left _ hp, nk, e1, e2⟩⟩

/-- **C02 (the Metadata PDU lost several times).**  The receiver holds the truthful EOF and every byte of the file but never
got the Metadata.  Its NAK timer runs out again and again: as long as the expiries stay below the NAK limit and within the
inactivity limit (`FairT`), each is followed by NAKs carrying the 0-0 marker and the receiver keeps what it has; when
one of those NAKs reaches the sender (which has sent its EOF), the sender empties its queue and the Metadata PDU it
transmits completes the delivery at the receiver: Finished / NoError / Complete / Retained. -/
theorem C02_lost_metadatas_round {m Ta Ti Tn : Nat} (s : Send.State) (r : Recv.State) (ts : List Nat) (tp j a t t' : Nat)
    (fs0 : Fs.FS) (hs : SQ s.st s) (hsn : s.md.srcName.isEmpty = false)
    (h : MW s.file s.md.cksumType fs0 r) (w : WN m Ta Ti Tn r) (hmax : 0 < m) (nb : NB tp j r)
    (ib : IB Ti a (max a tp) r.timer.inactivity) (hf : FairT m Tn Ti tp j a ts) (hne : ts ≠ [])
    (hfsw : (fs0.writeFile (Fs.relOf s.md.dstName) s.file).isSome = true) :
    ∃ p ∈ (mdRounds r ts).2, ∃ pdu ∈ (sendN (sendStep s t (.pdu p)).naks.length (sendStep s t (.pdu p)) t).2,
      FG (recvStep (mdRounds r ts).1 t' (.pdu pdu)) := by
  obtain ⟨c1, c2⟩ := md_repeated ts r tp j a h w hmax nb ib hf
  obtain ⟨p, hp, nk, e1, e2⟩ := c2 hne
  obtain ⟨pdu, hpdu, hfg⟩ := C02_lost_metadata_round s (mdRounds r ts).1 t t' p nk fs0 hs e1 e2 hsn c1.mode c1.act c1.rd c1.md
    c1.size c1.ck c1.cond c1.data c1.comp c1.fs hfsw
  exact ⟨p, hp, pdu, hpdu, hfg⟩

end Cfdp.Loop

#print axioms Cfdp.Loop.C02_lost_metadatas_round
#print axioms Cfdp.Seg.C02_round_completes
#print axioms Cfdp.Seg.C02_gaps_answered
#print axioms Cfdp.Recv.C02_finishes_when_complete
#print axioms Cfdp.Recv.C02_never_waits_complete
#print axioms Cfdp.Recv.C02_complete_is_success
#print axioms Cfdp.Recv.C02_size_check_passes
#print axioms Cfdp.Loop.C02_no_integrity_fault
#print axioms Cfdp.Net.C02_two_party_no_integrity_fault
#print axioms Cfdp.Loop.C02_recv_completes
#print axioms Cfdp.Loop.C02_send_completes
#print axioms Cfdp.Net.C02_two_party_completes
#print axioms Cfdp.Loop.C02_sender_answers_nak
#print axioms Cfdp.Loop.C02_receiver_recovers
#print axioms Cfdp.Loop.C02_recovery_round
#print axioms Cfdp.Loop.C02_full_round
#print axioms Cfdp.Loop.C02_full_round_after_wake
#print axioms Cfdp.Loop.C02_timer_round
#print axioms Cfdp.Loop.C02_lost_eof_round
#print axioms Cfdp.Loop.C02_lost_finished_round
#print axioms Cfdp.Loop.C02_lost_metadata_round
#print axioms Cfdp.Loop.C02_lossy_rounds
#print axioms Cfdp.Loop.C02_lossy_rounds_fair
#print axioms Cfdp.Loop.C02_two_party_nak_loop
#print axioms Cfdp.Loop.C02_eof_repeated
#print axioms Cfdp.Loop.C02_lost_eofs_round
#print axioms Cfdp.Loop.C02_lost_finisheds_round
#print axioms Cfdp.Loop.C02_from_eof_lossy_rounds
#print axioms Cfdp.Loop.C02_completion_then_lost_finisheds
