import Cfdp.Lemmas.Send
import Cfdp.Model.Loop

/-!
# C07 — the sender transmits exactly the source file

Invariants of the sender model over **arbitrary** event histories of the task loop (any NAK
lists a conforming or non-conforming receiver can send, NAKs during the first pass, prompts,
suspend/resume, timeouts at any time).
-/
namespace Cfdp.Send
open Cfdp.Codec Cfdp.Gen Cfdp.Loop

/-- every queued retransmission request is the metadata marker or a non-empty piece inside the
file, at most one segment long -/
def NakOk (s : State) : Prop :=
  ∀ r ∈ s.naks, (r.1 = 0 ∧ r.2 = 0) ∨ (r.1 < r.2 ∧ r.2 ≤ s.file.length ∧ r.2 - r.1 ≤ s.cfg.seg)

structure Good (s : State) : Prop where
  size : s.md.fileSize = s.file.length
  seg : 0 < s.cfg.seg ∧ s.cfg.seg ≤ 65535
  cur : CurOk s
  naks : NakOk s

/-- a file-data PDU carries exactly the source file's bytes at its offset, at most one segment,
nothing beyond the end of the file -/
def Truthful (st : Static) (p : Pdu) : Prop :=
  (∀ off d, p.payload = .fileData off d →
    d = (st.file.drop off).take d.length ∧ d.length ≤ st.cfg.seg ∧ off + d.length ≤ st.file.length) ∧
  (∀ r m off d, p.payload ≠ .fileDataSeg r m off d) ∧
  (∀ m, p.payload = .metadata m →
    m = { closure := st.md.closure, cksumType := st.md.cksumType, fileSize := st.md.fileSize,
          srcName := st.md.srcName, dstName := st.md.dstName,
          options := st.md.requests.map Tlv.fsReq ++ st.md.messages.map Tlv.msg })

def SentOk (s : State) : Prop := ∀ p, s.sent = some p → Truthful s.st p

theorem good_frame {s s' : State} (h : Good s) (h1 : s'.st = s.st) (h2 : s'.cursor = s.cursor)
    (h3 : s'.naks = s.naks) : Good s' := by
  refine ⟨?_, ?_, curOk_of_eq h.cur h2 h1, ?_⟩
  · simpa [State.md, State.file, h1] using h.size
  · simpa [State.cfg, h1] using h.seg
  · intro r hr; rw [h3] at hr; simpa [State.file, State.cfg, h1] using h.naks r hr

theorem good_frame' {s s' : State} (h : Good s) (h1 : s'.st = s.st) (h2 : CurOk s')
    (h3 : s'.naks = s.naks) : Good s' := by
  refine ⟨?_, ?_, h2, ?_⟩
  · simpa [State.md, State.file, h1] using h.size
  · simpa [State.cfg, h1] using h.seg
  · intro r hr; rw [h3] at hr; simpa [State.file, State.cfg, h1] using h.naks r hr

theorem sentOk_frame {s s' : State} (h : SentOk s) (h1 : s'.st = s.st) (h2 : s'.sent = s.sent) : SentOk s' := by
  intro p hp; rw [h2] at hp; rw [h1]; exact h p hp

theorem sentOk_none {s : State} (h : s.sent = none) : SentOk s := by
  intro p hp; rw [h] at hp; cases hp

theorem truthful_directive (st : Static) (h : Header) (p : Payload)
    (hp : ∀ off d, p ≠ .fileData off d) (hq : ∀ r m off d, p ≠ .fileDataSeg r m off d)
    (hm : ∀ m, p ≠ .metadata m) :
    Truthful st { header := h, payload := p } :=
  ⟨fun off d e => absurd e (hp off d), hq, fun m e => absurd e (hm m)⟩

/-- what `send_file_segment` transmits, for an offset inside the file and a length of at most a segment -/
theorem sendFileSegment_spec (s : State) (o l : Option Nat)
    (hoff : o.getD ((openHandle s).cursor.getD 0) ≤ s.file.length)
    (hlen : l.getD s.cfg.seg ≤ s.cfg.seg) :
    SentOk (sendFileSegment s o l) ∧
    (sendFileSegment s o l).cursor = some (o.getD ((openHandle s).cursor.getD 0) +
      ((s.file.drop (o.getD ((openHandle s).cursor.getD 0))).take (l.getD s.cfg.seg)).length) := by
  constructor
  · intro p hp
    simp only [sendFileSegment, sent_sendPayload, Option.some.injEq] at hp
    subst hp
    rw [st_sendFileSegment]
    refine ⟨?_, fun r m off d h => by simp at h, fun m h => by simp at h⟩
    intro off d hd
    simp only [Payload.fileData.injEq] at hd
    obtain ⟨rfl, rfl⟩ := hd
    have hfile : (openHandle s).file = s.file := by simp [State.file]
    have hcfg : (openHandle s).cfg = s.cfg := by simp [State.cfg]
    simp only [hfile, hcfg] at *
    refine ⟨?_, ?_, ?_⟩
    · simp [State.file]
    · simp only [List.length_take, List.length_drop]; simp only [State.cfg] at hlen ⊢; omega
    · simp only [List.length_take, List.length_drop, State.file] at hoff ⊢; omega
  · simp only [sendFileSegment, cursor_sendPayload]
    have hfile : (openHandle s).file = s.file := by simp [State.file]
    have hcfg : (openHandle s).cfg = s.cfg := by simp [State.cfg]
    simp only [hfile, hcfg]


theorem curOk_openHandle_getD {s : State} (h : CurOk s) : (openHandle s).cursor.getD 0 ≤ s.file.length := by
  have := curOk_openHandle h
  cases hc : (openHandle s).cursor with
  | none => simp
  | some c => have := this c hc; simpa [State.file] using this

/-- first-pass transmission -/
theorem good_firstPass {s : State} (h : Good s) :
    Good (sendFileSegment s none none) ∧ SentOk (sendFileSegment s none none) := by
  have hoff : (none : Option Nat).getD ((openHandle s).cursor.getD 0) ≤ s.file.length := by
    simpa using curOk_openHandle_getD h.cur
  obtain ⟨h1, h2⟩ := sendFileSegment_spec s none none hoff (by simp)
  refine ⟨good_frame' h (st_sendFileSegment _ _ _) ?_ (naks_sendFileSegment _ _ _), h1⟩
  intro c hc
  rw [h2] at hc
  simp only [Option.some.injEq] at hc
  subst hc
  simp only [Option.getD_none, List.length_take, List.length_drop, State.file, st_sendFileSegment] at hoff ⊢
  omega

theorem sentOk_sendPayload_directive (s : State) (p : Payload)
    (hp : ∀ off d, p ≠ .fileData off d) (hq : ∀ r m off d, p ≠ .fileDataSeg r m off d)
    (hm : ∀ m, p ≠ .metadata m) :
    SentOk (sendPayload s p) := by
  intro q hq'
  rw [sent_sendPayload] at hq'
  simp only [Option.some.injEq] at hq'
  subst hq'
  exact truthful_directive _ _ _ hp hq hm

theorem sentOk_sendMetadata (s : State) : SentOk (sendMetadata s) := by
  intro q hq'
  simp only [sendMetadata, sent_sendPayload, Option.some.injEq] at hq'
  subst hq'
  rw [st_sendMetadata]
  refine ⟨fun o d h => by simp at h, fun r m o d h => by simp at h, ?_⟩
  intro m hm
  simp only [Payload.metadata.injEq] at hm
  subst hm
  rfl

/-- answering a well-formed request -/
theorem good_answerNak {s : State} (g : Good s) (hs : s.sent = none) (a b : Nat)
    (hr : (a = 0 ∧ b = 0) ∨ (a < b ∧ b ≤ s.file.length ∧ b - a ≤ s.cfg.seg)) :
    Good (answerNak s a b) ∧ SentOk (answerNak s a b) ∧ (answerNak s a b).panicked = s.panicked := by
  simp only [answerNak]
  rcases hr with ⟨rfl, rfl⟩ | ⟨h1, h2, h3⟩
  · simp only [Nat.sub_self, gt_iff_lt, if_false, beq_self_eq_true, Bool.and_self, if_true,
      show ¬ (0 : Nat) > 65535 by omega]
    refine ⟨good_frame g (st_sendMetadata _) (cursor_sendMetadata _) (naks_sendMetadata _), ?_, ?_⟩
    · exact sentOk_sendMetadata _
    · simp only [sendMetadata, sendPayload, getHeader]; split <;> rfl
  · have hsz := g.seg
    have hnot : ¬ (b - a > 65535) := by omega
    have hne : (a == 0 && b - a == 0) = false := by
      simp only [Bool.and_eq_false_iff, beq_eq_false_iff_ne, ne_eq]; right; omega
    simp only [hnot, if_false, hne, Bool.false_eq_true]
    have hoff : (some a : Option Nat).getD ((openHandle (openHandle s)).cursor.getD 0) ≤ (openHandle s).file.length := by
      simp only [Option.getD_some, State.file, st_openHandle]; simp only [State.file] at h2; omega
    have hlen : (some (b - a) : Option Nat).getD (openHandle s).cfg.seg ≤ (openHandle s).cfg.seg := by
      simp only [Option.getD_some, State.cfg, st_openHandle]; simpa [State.cfg] using h3
    obtain ⟨k1, _⟩ := sendFileSegment_spec (openHandle s) (some a) (some (b - a)) hoff hlen
    refine ⟨?_, ?_, ?_⟩
    · refine good_frame' g (by simp only [st_sendFileSegment, st_openHandle]) ?_
        (by simp only [naks_sendFileSegment, naks_openHandle])
      exact curOk_of_eq (curOk_openHandle g.cur) rfl (by simp only [st_sendFileSegment, st_openHandle])
    · exact sentOk_frame k1 rfl rfl
    · simp only [sendFileSegment, sendPayload, getHeader, openHandle]
      repeat' split
      all_goals rfl

theorem good_popNak {s : State} (g : Good s) (now : Nat) : Good (popNak s now) := by
  have hn : (popNak s now).naks = s.naks.tail := by simp only [popNak]; fr []
  have hc : (popNak s now).cursor = s.cursor := by simp only [popNak]; fr []
  refine ⟨by simpa [State.md, State.file] using g.size, by simpa [State.cfg] using g.seg,
    curOk_of_eq g.cur hc (st_popNak _ _), ?_⟩
  intro r hr
  rw [hn] at hr
  simpa [State.file, State.cfg] using g.naks r (List.mem_of_mem_tail hr)

/-- answering the head of the NAK queue -/
theorem good_sendMissingData {s : State} (h : Good s) (hs : s.sent = none) (now : Nat) :
    Good (sendMissingData s now) ∧ SentOk (sendMissingData s now) ∧
    (sendMissingData s now).panicked = s.panicked := by
  cases hn : s.naks with
  | nil => simp only [sendMissingData, hn]; exact ⟨h, sentOk_none hs, trivial⟩
  | cons r rest =>
    obtain ⟨a, b⟩ := r
    have hr := h.naks (a, b) (by rw [hn]; exact List.mem_cons_self ..)
    simp only [sendMissingData, hn]
    have hsent : (popNak s now).sent = none := by
      have : (popNak s now).sent = s.sent := by simp only [popNak]; fr []
      rw [this, hs]
    have hpan : (popNak s now).panicked = s.panicked := by simp only [popNak]; fr []
    have := good_answerNak (good_popNak h now) hsent a b (by simpa [State.file, State.cfg] using hr)
    rw [hpan] at this
    exact this


theorem good_prepareEof {s : State} (g : Good s) (f : Option VarId) (now : Nat) : Good (prepareEof s f now) :=
  good_frame' g (st_prepareEof _ _ _) (curOk_prepareEof g.cur _ _) (naks_prepareEof _ _ _)

theorem sentOk_prepareEof {s : State} (h : SentOk s) (f : Option VarId) (now : Nat) : SentOk (prepareEof s f now) :=
  sentOk_frame h (st_prepareEof _ _ _) (sent_prepareEof _ _ _)

theorem good_sendPayload {s : State} (g : Good s) (p : Payload) : Good (sendPayload s p) :=
  good_frame g (st_sendPayload _ _) (cursor_sendPayload _ _) (naks_sendPayload _ _)

theorem good_sendEof {s : State} (g : Good s) (now : Nat) : Good (sendEof s now) :=
  good_frame g (st_sendEof _ _) (cursor_sendEof _ _) (naks_sendEof _ _)

theorem sentOk_sendEof {s : State} (hs : s.sent = none) (now : Nat) : SentOk (sendEof s now) := by
  simp only [sendEof]
  split
  · exact sentOk_frame (sentOk_sendPayload_directive _ _ (by intro o d h; cases h) (by intro r m o d h; cases h) (by intro m h; cases h))
      (st_setEofFlag _ _) (sent_setEofFlag _ _)
  · exact sentOk_none hs

theorem good_sendPduMetadata {s : State} (g : Good s) (now : Nat) :
    Good (sendPduMetadata s now) ∧ SentOk (sendPduMetadata s now) := by
  have g1 : Good (sendMetadata s) := good_frame g (st_sendMetadata _) (cursor_sendMetadata _) (naks_sendMetadata _)
  have s1 : SentOk (sendMetadata s) :=
    sentOk_sendMetadata s
  simp only [sendPduMetadata]
  split
  · exact ⟨good_frame g1 rfl rfl rfl, sentOk_frame s1 rfl rfl⟩
  · exact ⟨good_frame (good_prepareEof g1 none now) rfl rfl rfl, sentOk_frame (sentOk_prepareEof s1 none now) rfl rfl⟩

theorem good_afterData {s : State} (g : Good s) (hs : SentOk s) (now : Nat) :
    Good (afterData s now) ∧ SentOk (afterData s now) := by
  have g1 : Good (openHandle s) := good_frame' g (st_openHandle _) (curOk_openHandle g.cur) (naks_openHandle _)
  have s1 : SentOk (openHandle s) := sentOk_frame hs (st_openHandle _) (sent_openHandle _)
  simp only [afterData]
  split
  · exact ⟨good_frame (good_prepareEof g1 none now) rfl rfl rfl, sentOk_frame (sentOk_prepareEof s1 none now) rfl rfl⟩
  · exact ⟨g1, s1⟩

theorem good_sendPduData {s : State} (g : Good s) (hs : s.sent = none) (now : Nat) :
    Good (sendPduData s now) ∧ SentOk (sendPduData s now) := by
  simp only [sendPduData]
  split
  · obtain ⟨a, b, _⟩ := good_sendMissingData g hs now
    exact good_afterData a b now
  · obtain ⟨a, b⟩ := good_firstPass g
    exact good_afterData a b now

theorem good_sendPduEof {s : State} (g : Good s) (hs : s.sent = none) (now : Nat) :
    Good (sendPduEof s now) ∧ SentOk (sendPduEof s now) := by
  have g1 := good_sendEof g now
  have s1 := sentOk_sendEof hs now
  simp only [sendPduEof]
  repeat' split
  all_goals (first
    | exact ⟨good_frame g1 rfl rfl rfl, sentOk_frame s1 rfl rfl⟩
    | exact ⟨g1, s1⟩)

theorem good_sendPdu {s : State} (g : Good s) (hs : s.sent = none) (now : Nat) :
    Good (sendPdu s now) ∧ SentOk (sendPdu s now) := by
  simp only [sendPdu]
  split
  · refine ⟨good_frame g (st_sendPrompt _) (cursor_sendPrompt _) (naks_sendPrompt _), ?_⟩
    simp only [sendPrompt]
    split
    · exact sentOk_sendPayload_directive _ _ (by intro o d h; cases h) (by intro r m o d h; cases h) (by intro m h; cases h)
    · exact sentOk_none hs
  · split
    · exact good_sendPduMetadata g now
    · exact good_sendPduData g hs now
    · split
      · obtain ⟨a, b, _⟩ := good_sendMissingData g hs now; exact ⟨a, b⟩
      · exact good_sendPduEof g hs now
    · exact ⟨good_sendEof g now, sentOk_sendEof hs now⟩
    · refine ⟨good_frame g (st_sendAck _ _) (cursor_sendAck _ _) (naks_sendAck _ _), ?_⟩
      simp only [sendAck]
      split
      · exact sentOk_frame (sentOk_sendPayload_directive _ _ (by intro o d h; cases h) (by intro r m o d h; cases h) (by intro m h; cases h))
          (st_shutdown _ _) (sent_shutdown _ _)
      · exact sentOk_none hs


/-! ### NAK processing keeps the queue well-formed -/

theorem splitPieces_ok (seg fs start endv : Nat) (hseg : 0 < seg) (fuel num : Nat) :
    ∀ r ∈ splitPieces seg fs start endv fuel num, r.1 < r.2 ∧ r.2 ≤ fs ∧ r.2 - r.1 ≤ seg := by
  induction fuel generalizing num with
  | zero => intro r hr; simp [splitPieces] at hr
  | succ f ih =>
    intro r hr
    simp only [splitPieces] at hr
    split at hr
    · rename_i hlt
      rcases List.mem_cons.mp hr with rfl | hr
      · split
        · rename_i h2
          simp only
          refine ⟨by omega, ?_, by omega⟩
          have := Nat.min_le_right endv fs; omega
        · rename_i h2
          simp only
          refine ⟨hlt, Nat.min_le_right _ _, by omega⟩
      · exact ih _ r hr
    · simp at hr

theorem dedup_subset (seen l : List (Nat × Nat)) : ∀ x ∈ dedup seen l, x ∈ l := by
  induction l generalizing seen with
  | nil => intro x hx; simp [dedup] at hx
  | cons a l ih =>
    intro x hx
    simp only [dedup] at hx
    split at hx
    · exact List.mem_cons_of_mem _ (ih _ x hx)
    · rcases List.mem_cons.mp hx with rfl | hx
      · exact List.mem_cons_self ..
      · exact List.mem_cons_of_mem _ (ih _ x hx)

theorem naks_processPduBody (s : State) (p : Pdu) (now : Nat) :
    (processPduBody s p now).1.naks = s.naks ∨
    ∃ n : Nak, 0 < s.cfg.seg ∧ (processPduBody s p now).1.naks
      = dedup [] (s.naks ++ n.requests.flatMap (splitRequest s.cfg.seg s.md.fileSize)) := by
  simp only [processPduBody]
  repeat' split
  all_goals (first
    | (left; rfl)
    | (right; refine ⟨_, ?_, rfl⟩; rename_i h; simp only [beq_iff_eq] at h; omega))

theorem naks_processPdu (s : State) (p : Pdu) (now : Nat) :
    (processPdu s p now).1.naks = s.naks ∨
    ∃ n : Nak, 0 < s.cfg.seg ∧ (processPdu s p now).1.naks
      = dedup [] (s.naks ++ n.requests.flatMap (splitRequest s.cfg.seg s.md.fileSize)) := by
  have hn : (pduArrived s now).naks = s.naks := by simp only [pduArrived]; fr []
  have := naks_processPduBody (pduArrived s now) p now
  simpa only [processPdu, hn, State.cfg, State.md, st_pduArrived] using this

theorem good_processPdu {s : State} (g : Good s) (p : Pdu) (now : Nat) : Good (processPdu s p now).1 := by
  rcases naks_processPdu s p now with h | ⟨n, hseg, h⟩
  · exact good_frame g (st_processPdu _ _ _) (cursor_processPdu _ _ _) h
  · refine ⟨by simpa [State.md, State.file] using g.size, by simpa [State.cfg] using g.seg,
      curOk_of_eq g.cur (cursor_processPdu _ _ _) (st_processPdu _ _ _), ?_⟩
    intro r hr
    rw [h] at hr
    have hr := dedup_subset _ _ r hr
    simp only [State.file, State.cfg, st_processPdu]
    rcases List.mem_append.mp hr with hr | hr
    · simpa [State.file, State.cfg] using g.naks r hr
    · obtain ⟨q, _, hq⟩ := List.mem_flatMap.mp hr
      simp only [splitRequest] at hq
      split at hq
      · rename_i h0
        simp only [List.mem_singleton] at hq
        subst hq
        simp only [Bool.and_eq_true, beq_iff_eq] at h0
        exact Or.inl h0
      · have := splitPieces_ok _ _ _ _ hseg _ _ r hq
        rw [g.size] at this
        exact Or.inr (by simpa [State.file, State.cfg] using this)

/-! ### one iteration of the task loop, whole histories -/

theorem good_sendStep {s : State} (g : Good s) (now : Nat) (e : Ev) :
    Good (sendStep s now e) ∧ SentOk (sendStep s now e) := by
  have g0 : Good { s with sent := none, out := [] } := good_frame g rfl rfl rfl
  have hs0 : ({ s with sent := none, out := [] } : State).sent = none := rfl
  simp only [sendStep]
  split
  · exact ⟨g0, sentOk_none rfl⟩
  · split
    · exact ⟨good_processPdu g0 _ _, sentOk_none (by rw [sent_processPdu])⟩
    · split
      · exact good_sendPdu g0 hs0 now
      · exact ⟨g0, sentOk_none rfl⟩
    · split
      · exact ⟨good_frame' g0 (st_handleTimeout _ _) (curOk_handleTimeout g0.cur _) (naks_handleTimeout _ _),
          sentOk_none (by rw [sent_handleTimeout])⟩
      · exact ⟨g0, sentOk_none rfl⟩
    · exact ⟨by unfold cancel; exact good_frame' g0 (st_cancelInner _ _ _) (curOk_cancelInner g0.cur _ _) (naks_cancelInner _ _ _),
        sentOk_none (by unfold cancel; rw [sent_cancelInner])⟩
    · exact ⟨good_frame g0 rfl rfl rfl, sentOk_none rfl⟩
    · exact ⟨good_frame g0 (st_resume _ _) (cursor_resume _ _) (naks_resume _ _), sentOk_none (by rw [sent_resume])⟩
    · exact ⟨good_frame g0 rfl rfl rfl, sentOk_none rfl⟩
    · exact ⟨good_frame g0 rfl rfl rfl, sentOk_none rfl⟩
    · exact ⟨good_frame g0 rfl rfl rfl, sentOk_none rfl⟩


theorem good_new (cfg : Config) (md : Meta) (file : Bytes) (now : Nat)
    (hsize : md.fileSize = file.length) (hseg : 0 < cfg.seg ∧ cfg.seg ≤ 65535) :
    Good (new cfg md file now) := by
  refine ⟨hsize, hseg, ?_, ?_⟩
  · intro c hc; simp [new, emit] at hc
  · intro r hr; simp [new, emit] at hr

theorem run_truthful (s : State) (g : Good s) (evs : List (Nat × Ev)) :
    ∀ p ∈ (sendRun s evs).2, Truthful s.st p := by
  induction evs generalizing s with
  | nil => intro p hp; simp [sendRun] at hp
  | cons e evs ih =>
    obtain ⟨now, ev⟩ := e
    intro p hp
    simp only [sendRun, List.mem_append, Option.mem_toList] at hp
    obtain ⟨g', s'⟩ := good_sendStep g now ev
    have hst : (sendStep s now ev).st = s.st := by
      simp only [sendStep]
      repeat' split
      all_goals (first | rfl | simp only [st_processPdu, st_sendPdu, st_handleTimeout, st_cancel, st_suspend,
        st_resume, st_sendReport, st_shutdown, st_preparePrompt])
    rcases hp with hp | hp
    · rw [← hst]; exact s' p hp
    · rw [← hst]; exact ih _ g' p hp

/-- **C07 (file data, metadata).**  For every file content and size, every segment size, and
every history of events a send transaction task can see — NAK lists of any shape (overlapping,
unsorted, empty, beyond the end of the file, longer than a segment) at any time including during
the first pass, prompts, suspend/resume, timeouts, cancels — every file-data PDU transmitted
carries exactly the source file's bytes at its offset, at most one segment of them and nothing
beyond the end of the file; no segmented file data is ever sent; and every Metadata PDU states
the true names, size, closure flag, checksum type and options. -/
theorem C07_data (cfg : Config) (md : Meta) (file : Bytes) (evs : List (Nat × Ev))
    (hsize : md.fileSize = file.length) (hseg : 0 < cfg.seg ∧ cfg.seg ≤ 65535) :
    ∀ p ∈ (sendRun (new cfg md file 0) evs).2,
      (∀ off d, p.payload = .fileData off d →
        d = (file.drop off).take d.length ∧ d.length ≤ cfg.seg ∧ off + d.length ≤ file.length) ∧
      (∀ r m off d, p.payload ≠ .fileDataSeg r m off d) ∧
      (∀ m, p.payload = .metadata m →
        m.fileSize = md.fileSize ∧ m.srcName = md.srcName ∧ m.dstName = md.dstName ∧
        m.closure = md.closure ∧ m.cksumType = md.cksumType ∧
        m.options = md.requests.map Tlv.fsReq ++ md.messages.map Tlv.msg) := by
  intro p hp
  have := run_truthful _ (good_new cfg md file 0 hsize hseg) evs p hp
  obtain ⟨h1, h2, h3⟩ := this
  refine ⟨h1, h2, ?_⟩
  intro m hm
  have := h3 m hm
  subst this
  exact ⟨rfl, rfl, rfl, rfl, rfl, rfl⟩

/-- the NAK queue never holds anything but the metadata marker or non-empty pieces inside the
file of at most one segment — whatever NAKs arrive (so no request can make the sender read
beyond the file or queue an unbounded number of pieces per byte of file) -/
theorem C07_nak_queue (cfg : Config) (md : Meta) (file : Bytes) (evs : List (Nat × Ev))
    (hsize : md.fileSize = file.length) (hseg : 0 < cfg.seg ∧ cfg.seg ≤ 65535) :
    ∀ r ∈ (sendRun (new cfg md file 0) evs).1.naks,
      (r.1 = 0 ∧ r.2 = 0) ∨ (r.1 < r.2 ∧ r.2 ≤ file.length ∧ r.2 - r.1 ≤ cfg.seg) := by
  have key : ∀ (s : State) (evs : List (Nat × Ev)), Good s → Good (sendRun s evs).1 := by
    intro s evs
    induction evs generalizing s with
    | nil => intro g; exact g
    | cons e evs ih => intro g; exact ih _ (good_sendStep g e.1 e.2).1
  have g := key _ evs (good_new cfg md file 0 hsize hseg)
  have hst : ∀ (s : State) (evs : List (Nat × Ev)), (sendRun s evs).1.st = s.st := by
    intro s evs
    induction evs generalizing s with
    | nil => rfl
    | cons e evs ih =>
      simp only [sendRun]
      rw [ih]
      simp only [sendStep]
      repeat' split
      all_goals (first | rfl | simp only [st_processPdu, st_sendPdu, st_handleTimeout, st_cancel, st_suspend,
        st_resume, st_sendReport, st_shutdown, st_preparePrompt])
  intro r hr
  have := g.naks r hr
  simpa [State.file, State.cfg, hst, new, emit] using this

/-! ### non-vacuity -/

def exCfg : Config :=
  { mode := .Acknowledged, fss := .Small, seg := 4, crc := .NotPresent, max := 2, ti := 1, ta := 1, tn := 1,
    fho := [], src := ⟨2, 1⟩, dst := ⟨2, 2⟩, seq := ⟨2, 7⟩ }
def exMd : Meta :=
  { srcName := [115], dstName := [100], fileSize := 6, requests := [], messages := [], closure := false,
    cksumType := .Null }
def exFile : Bytes := [1, 2, 3, 4, 5, 6]
def exNak : Pdu :=
  { header := { (default : Header) with pduType := .FileDirective, direction := .ToSender },
    payload := .nak { scopeStart := 0, scopeEnd := 99, requests := [(2, 99), (5, 5), (0, 0)] } }

/-- a history with a NAK reaching beyond the file during the first pass: three data PDUs go out
(first segment, the clamped retransmission 2..6, second segment) -/
example : ((sendRun (new exCfg exMd exFile 0)
    [(0, .send), (0, .send), (0, .pdu exNak), (0, .send), (0, .send), (0, .send)]).2.filterMap
      (fun p => match p.payload with | .fileData o d => some (o, d) | _ => none))
    = [(0, [1, 2, 3, 4]), (2, [3, 4, 5, 6]), (4, [5, 6])] := by decide

end Cfdp.Send

open Cfdp.Send in
#print axioms C07_data
open Cfdp.Send in
#print axioms C07_nak_queue
