import Cfdp.Props.C02y
set_option linter.unusedSimpArgs false

/-! # C02 / C10: handshake PDUs lost again and again - the retransmission loops

The single-loss rounds of Props/C02v.lean and Props/C10p.lean start from one expiry of a positive-ACK timer.  Here the
expiry is iterated: the whole state after "expiry, then transmission" is characterised (`eof_round_state`,
`cancel_round_state`, `fin_round_state`, `cancelled_round_state`), so the rounds concatenate as long as the schedule
keeps the counters below their limits - which is derived from a condition on the clock alone (`FairT`: every expiry
serviced within the following period, fewer than `limit` of them in all, less than `limit` inactivity periods since the
last PDU from the peer) by the counting arguments of Props/C02x.lean.  `waits_repeated` (sender, regular or cancelling
EOF), `recv_finished_repeated` (receiver, after a delivery or after a cancel); whichever retransmission gets through
has the effect of the single-loss round: `C02_lost_eofs_round`, `C02_lost_finisheds_round`, `C10_lost_cancel_eofs_round`,
`C10_lost_cancel_finisheds_round`. -/

namespace Cfdp.Send
open Cfdp.Codec Cfdp.Gen Cfdp.Timer

/-- `send_pdu` of a sender whose EOF is due, acknowledged mode: the EOF goes out, the positive-ACK period starts again
(the count stands), nothing else moves -/
theorem sendPduEof_ack (z : State) (t : Nat) (e : Eof) (hm : z.cfg.mode = .Acknowledged) (he : z.eof = some (e, true)) :
    (∃ h, (sendPduEof z t).sent = some ⟨h, .eof e⟩) ∧ (sendPduEof z t).state = z.state ∧ (sendPduEof z t).st = z.st ∧
    (sendPduEof z t).sendState = z.sendState ∧ (sendPduEof z t).prompt = z.prompt ∧ (sendPduEof z t).naks = z.naks ∧
    (sendPduEof z t).eof = some (e, false) ∧ (sendPduEof z t).timer.ack = z.timer.ack.restart t ∧
    (sendPduEof z t).timer.inactivity = z.timer.inactivity := by
  have hmode : ((sendEof z t).cfg.mode == TransmissionMode.Unacknowledged) = false := by
    have : (sendEof z t).cfg = z.cfg := by simp only [State.cfg, st_sendEof]
    rw [this, hm]; rfl
  have e1 : sendPduEof z t = if (sendEof z t).eofInd then { emit (sendEof z t) .eofSent with eofInd := false } else sendEof z t := by
    simp only [sendPduEof]
    split
    · have hm2 : ((({ emit (sendEof z t) .eofSent with eofInd := false } : State)).cfg.mode
          == TransmissionMode.Unacknowledged) = false := hmode
      simp only [hm2, Bool.false_eq_true, if_false]
    · simp only [hmode, Bool.false_eq_true, if_false]
  have e2 : sendEof z t = setEofFlag (sendPayload { z with timer := { z.timer with ack := z.timer.ack.restart t } } (.eof e)) false := by
    simp only [sendEof, he]
  have e3 : (sendEof z t).eof = some (e, false) := by
    rw [e2]; simp only [setEofFlag, eof_sendPayload, he]
  have e4 : (sendEof z t).timer = { z.timer with ack := z.timer.ack.restart t } := by
    rw [e2]; simp only [setEofFlag, eof_sendPayload, he, timer_sendPayload]
  have e5 : ∃ h, (sendEof z t).sent = some ⟨h, .eof e⟩ := by
    rw [e2]; simp only [setEofFlag, eof_sendPayload, he]; exact ⟨_, rfl⟩
  rw [e1]
  split
  · refine ⟨e5, ?_, ?_, ?_, ?_, ?_, e3, by show (sendEof z t).timer.ack = _; rw [e4], by show (sendEof z t).timer.inactivity = _; rw [e4]⟩
    · show (sendEof z t).state = _; rw [state_sendEof]
    · show (sendEof z t).st = _; rw [st_sendEof]
    · show (sendEof z t).sendState = _; rw [sendState_sendEof]
    · show (sendEof z t).prompt = _; rw [prompt_sendEof]
    · show (sendEof z t).naks = _; rw [naks_sendEof]
  · exact ⟨e5, state_sendEof _ _, st_sendEof _ _, sendState_sendEof _ _, prompt_sendEof _ _, naks_sendEof _ _, e3,
      by rw [e4], by rw [e4]⟩

/-- `send_eof` with the EOF due: it goes out, the positive-ACK period starts again (the count stands) -/
theorem sendEof_due (z : State) (t : Nat) (e : Eof) (he : z.eof = some (e, true)) :
    (∃ h, (sendEof z t).sent = some ⟨h, .eof e⟩) ∧ (sendEof z t).eof = some (e, false) ∧
    (sendEof z t).timer.ack = z.timer.ack.restart t ∧ (sendEof z t).timer.inactivity = z.timer.inactivity := by
  have e2 : sendEof z t = setEofFlag (sendPayload { z with timer := { z.timer with ack := z.timer.ack.restart t } } (.eof e)) false := by
    simp only [sendEof, he]
  have e4 : (sendEof z t).timer = { z.timer with ack := z.timer.ack.restart t } := by
    rw [e2]; simp only [setEofFlag, eof_sendPayload, he, timer_sendPayload]
  refine ⟨?_, ?_, by rw [e4], by rw [e4]⟩
  · rw [e2]; simp only [setEofFlag, eof_sendPayload, he]; exact ⟨_, rfl⟩
  · rw [e2]; simp only [setEofFlag, eof_sendPayload, he]

end Cfdp.Send

namespace Cfdp.Loop
open Cfdp.Codec Cfdp.Gen Cfdp.Timer Cfdp.Recv Cfdp.Send

/-- `eof_timer_resends` with the whole state after the expiry and the transmission -/
theorem eof_round_state (s : Send.State) (t : Nat) (e : Eof) (ha : s.state = .Active)
    (hm : s.cfg.mode = .Acknowledged) (hss : s.sendState = .SendEof) (hp : s.prompt = none) (hn : s.naks = [])
    (heof : s.eof = some (e, false))
    (hdue : s.timer.ack.paused = false ∧ s.timer.ack.timeout ≤ t - s.timer.ack.start ∧ s.timer.ack.start ≤ t)
    (hal : ((s.timer.ack.update t).update t).count ≠ s.timer.ack.max)
    (hil : (s.timer.inactivity.update t).count ≠ s.timer.inactivity.max) :
    (∃ h, (sendStep (sendStep s t .timeout) t .send).sent = some ⟨h, .eof e⟩) ∧
    (sendStep (sendStep s t .timeout) t .send).state = .Active ∧ (sendStep (sendStep s t .timeout) t .send).st = s.st ∧
    (sendStep (sendStep s t .timeout) t .send).sendState = .SendEof ∧
    (sendStep (sendStep s t .timeout) t .send).prompt = none ∧ (sendStep (sendStep s t .timeout) t .send).naks = [] ∧
    (sendStep (sendStep s t .timeout) t .send).eof = some (e, false) ∧
    (sendStep (sendStep s t .timeout) t .send).timer.ack = ((s.timer.ack.update t).update t).restart t ∧
    (sendStep (sendStep s t .timeout) t .send).timer.inactivity = s.timer.inactivity.update t := by
  have hnt : ((clrS s).state == TransactionState.Terminated) = false := by
    show (s.state == TransactionState.Terminated) = false; rw [ha]; rfl
  have hns : ((clrS s).state == TransactionState.Suspended) = false := by
    show (s.state == TransactionState.Suspended) = false; rw [ha]; rfl
  have k1 : (clrS s).sendState = .SendEof := hss
  -- the expiry
  have hu : Send.untilTimeout (clrS s) t = some 0 := by
    simp only [Send.untilTimeout, hns, Bool.false_eq_true, if_false, k1]
    exact untilTimeout_ack_due s.timer t hdue.1 hdue.2.1 hdue.2.2
  have hib : ((clrS s).timer.inactivity.limitReached t).2 = false := by
    show ((s.timer.inactivity.update t).count == (s.timer.inactivity.update t).max) = false
    rw [max_update]; simpa using hil
  have hocc : (s.timer.ack.update t).occurred = true := (update_due s.timer.ack t hdue.1 hdue.2.1).1
  have hab : (((s.timer.ack.update t).update t).count == ((s.timer.ack.update t).update t).max) = false := by
    rw [max_update, max_update]; simpa using hal
  have e1 : sendStep s t .timeout =
      Send.setEofFlag (setA (setI (clrS s) ((clrS s).timer.inactivity.limitReached t).1) ((s.timer.ack.update t).update t)) true := by
    rw [sendStep_eq]
    simp only [hnt, Bool.false_eq_true, if_false, hu, beq_self_eq_true, if_true, Send.handleTimeout, hns, k1]
    rw [Send.handleInactivity_eq, hib]
    simp only [Bool.false_eq_true, if_false]
    rw [Send.handleAckTimer_eq]
    have : (setI (clrS s) ((clrS s).timer.inactivity.limitReached t).1).timer.ack = s.timer.ack := rfl
    rw [this]
    simp only [ackBody, hocc, if_true, hab, Bool.false_eq_true, if_false]
  -- the state after the expiry
  generalize hx : setA (setI (clrS s) ((clrS s).timer.inactivity.limitReached t).1) ((s.timer.ack.update t).update t) = x at e1
  have x1 : x.state = .Active := by rw [← hx]; exact ha
  have x2 : x.sendState = .SendEof := by rw [← hx]; exact hss
  have x3 : x.prompt = none := by rw [← hx]; exact hp
  have x4 : x.naks = [] := by rw [← hx]; exact hn
  have x5 : x.eof = some (e, false) := by rw [← hx]; exact heof
  have x6 : x.cfg.mode = .Acknowledged := by rw [← hx]; exact hm
  have e2 : Send.setEofFlag x true = { x with eof := some (e, true) } := by simp only [Send.setEofFlag, x5]
  rw [e1, e2]
  generalize hy : ({ x with eof := some (e, true) } : Send.State) = y
  have y1 : y.state = .Active := by rw [← hy]; exact x1
  have y2 : y.sendState = .SendEof := by rw [← hy]; exact x2
  have y3 : y.prompt = none := by rw [← hy]; exact x3
  have y4 : y.naks = [] := by rw [← hy]; exact x4
  have y5 : y.eof = some (e, true) := by rw [← hy]
  have y6 : y.cfg.mode = .Acknowledged := by rw [← hy]; exact x6
  have hnt2 : ((clrS y).state == TransactionState.Terminated) = false := by
    show (y.state == TransactionState.Terminated) = false; rw [y1]; rfl
  have hns2 : ((clrS y).state == TransactionState.Suspended) = false := by
    show (y.state == TransactionState.Suspended) = false; rw [y1]; rfl
  have j1 : (clrS y).sendState = .SendEof := y2
  have j2 : (clrS y).prompt = none := y3
  have j3 : (clrS y).naks = [] := y4
  have j4 : (clrS y).eof = some (e, true) := y5
  have hhas : Send.hasPduToSend (clrS y) = true := by
    simp only [Send.hasPduToSend, hns2, Bool.false_eq_true, if_false, j2, j1, j3, Send.eofFlag, j4, Option.isSome_none,
      Bool.false_or, List.isEmpty_nil, Bool.not_true]
  have e3 : sendStep y t .send = Send.sendPduEof (clrS y) t := by
    rw [sendStep_eq]
    simp only [hnt2, Bool.false_eq_true, if_false, hhas, if_true, Send.sendPdu, j2, Option.isSome_none, j1, j3,
      List.isEmpty_nil, Bool.not_true]
  rw [e3]
  obtain ⟨p1, p2, p3, p4, p5, p6, p7, p8, p9⟩ := Send.sendPduEof_ack (clrS y) t e y6 j4
  refine ⟨p1, p2.trans y1, ?_, p4.trans y2, p5.trans y3, p6.trans y4, p7, ?_, ?_⟩
  · rw [p3, ← hy, ← hx]; rfl
  · rw [p8, ← hy, ← hx]; rfl
  · rw [p9, ← hy, ← hx]; rfl

/-- `cancel_eof_timer_resends` with the whole state after the expiry and the transmission -/
theorem cancel_round_state (s : Send.State) (t : Nat) (e : Eof) (ha : s.state = .Active)
    (hm : s.cfg.mode = .Acknowledged) (hss : s.sendState = .Cancelled) (hp : s.prompt = none)
    (heof : s.eof = some (e, false))
    (hdue : s.timer.ack.paused = false ∧ s.timer.ack.timeout ≤ t - s.timer.ack.start ∧ s.timer.ack.start ≤ t)
    (hal : ((s.timer.ack.update t).update t).count ≠ s.timer.ack.max)
    (hil : (s.timer.inactivity.update t).count ≠ s.timer.inactivity.max) :
    (∃ h, (sendStep (sendStep s t .timeout) t .send).sent = some ⟨h, .eof e⟩) ∧
    (sendStep (sendStep s t .timeout) t .send).state = .Active ∧ (sendStep (sendStep s t .timeout) t .send).st = s.st ∧
    (sendStep (sendStep s t .timeout) t .send).sendState = .Cancelled ∧
    (sendStep (sendStep s t .timeout) t .send).prompt = none ∧
    (sendStep (sendStep s t .timeout) t .send).eof = some (e, false) ∧
    (sendStep (sendStep s t .timeout) t .send).timer.ack = ((s.timer.ack.update t).update t).restart t ∧
    (sendStep (sendStep s t .timeout) t .send).timer.inactivity = s.timer.inactivity.update t := by
  have hnt : ((clrS s).state == TransactionState.Terminated) = false := by
    show (s.state == TransactionState.Terminated) = false; rw [ha]; rfl
  have hns : ((clrS s).state == TransactionState.Suspended) = false := by
    show (s.state == TransactionState.Suspended) = false; rw [ha]; rfl
  have k1 : (clrS s).sendState = .Cancelled := hss
  -- the expiry
  have hu : Send.untilTimeout (clrS s) t = some 0 := by
    simp only [Send.untilTimeout, hns, Bool.false_eq_true, if_false, k1]
    exact untilTimeout_ack_due s.timer t hdue.1 hdue.2.1 hdue.2.2
  have hib : ((clrS s).timer.inactivity.limitReached t).2 = false := by
    show ((s.timer.inactivity.update t).count == (s.timer.inactivity.update t).max) = false
    rw [max_update]; simpa using hil
  have hocc : (s.timer.ack.update t).occurred = true := (update_due s.timer.ack t hdue.1 hdue.2.1).1
  have hab : (((s.timer.ack.update t).update t).count == ((s.timer.ack.update t).update t).max) = false := by
    rw [max_update, max_update]; simpa using hal
  have e1 : sendStep s t .timeout =
      Send.setEofFlag (setA (setI (clrS s) ((clrS s).timer.inactivity.limitReached t).1) ((s.timer.ack.update t).update t)) true := by
    rw [sendStep_eq]
    simp only [hnt, Bool.false_eq_true, if_false, hu, beq_self_eq_true, if_true, Send.handleTimeout, hns, k1]
    rw [Send.handleInactivity_eq, hib]
    simp only [Bool.false_eq_true, if_false]
    rw [Send.handleAckTimer_eq]
    have : (setI (clrS s) ((clrS s).timer.inactivity.limitReached t).1).timer.ack = s.timer.ack := rfl
    rw [this]
    simp only [ackBody, hocc, if_true, hab, Bool.false_eq_true, if_false]
  -- the state after the expiry
  generalize hx : setA (setI (clrS s) ((clrS s).timer.inactivity.limitReached t).1) ((s.timer.ack.update t).update t) = x at e1
  have x1 : x.state = .Active := by rw [← hx]; exact ha
  have x2 : x.sendState = .Cancelled := by rw [← hx]; exact hss
  have x3 : x.prompt = none := by rw [← hx]; exact hp
  have x5 : x.eof = some (e, false) := by rw [← hx]; exact heof
  have x6 : x.cfg.mode = .Acknowledged := by rw [← hx]; exact hm
  have e2 : Send.setEofFlag x true = { x with eof := some (e, true) } := by simp only [Send.setEofFlag, x5]
  rw [e1, e2]
  generalize hy : ({ x with eof := some (e, true) } : Send.State) = y
  have y1 : y.state = .Active := by rw [← hy]; exact x1
  have y2 : y.sendState = .Cancelled := by rw [← hy]; exact x2
  have y3 : y.prompt = none := by rw [← hy]; exact x3
  have y5 : y.eof = some (e, true) := by rw [← hy]
  have y6 : y.cfg.mode = .Acknowledged := by rw [← hy]; exact x6
  have hnt2 : ((clrS y).state == TransactionState.Terminated) = false := by
    show (y.state == TransactionState.Terminated) = false; rw [y1]; rfl
  have hns2 : ((clrS y).state == TransactionState.Suspended) = false := by
    show (y.state == TransactionState.Suspended) = false; rw [y1]; rfl
  have j1 : (clrS y).sendState = .Cancelled := y2
  have j2 : (clrS y).prompt = none := y3
  have j4 : (clrS y).eof = some (e, true) := y5
  have hhas : Send.hasPduToSend (clrS y) = true := by
    simp only [Send.hasPduToSend, hns2, Bool.false_eq_true, if_false, j2, j1, Send.eofFlag, j4, Option.isSome_none,
      Bool.false_or]
  have e3 : sendStep y t .send = Send.sendEof (clrS y) t := by
    rw [sendStep_eq]
    simp only [hnt2, Bool.false_eq_true, if_false, hhas, if_true, Send.sendPdu, j2, Option.isSome_none, j1]
  rw [e3]
  obtain ⟨p1, p7, p8, p9⟩ := Send.sendEof_due (clrS y) t e j4
  refine ⟨p1, ?_, ?_, ?_, ?_, p7, ?_, ?_⟩
  · rw [Send.state_sendEof]; exact y1
  · rw [Send.st_sendEof, ← hy, ← hx]; rfl
  · rw [Send.sendState_sendEof]; exact y2
  · rw [Send.prompt_sendEof]; exact y3
  · rw [p8, ← hy, ← hx]; rfl
  · rw [p9, ← hy, ← hx]; rfl

/-- `finished_timer_resends` with the whole state after the expiry and the transmission -/
theorem fin_round_state {m Ta Ti Tn : Nat} (r : Recv.State) (t : Nat) (f : Finished) (ha : r.state = .Active)
    (hm : r.cfg.mode = .Acknowledged) (hfin : r.recvState = .Finished) (hp : r.prompt = none) (hack : r.ack = none)
    (hf : r.finished = some (f, false)) (hdel : r.delayed = []) (hrt : RT m Ta Ti Tn r.timer)
    (hdue : r.timer.ack.paused = false ∧ r.timer.ack.timeout ≤ t - r.timer.ack.start ∧ r.timer.ack.start ≤ t)
    (hal : (r.timer.ack.update t).count ≠ r.timer.ack.max)
    (hil : (r.timer.inactivity.update t).count ≠ r.timer.inactivity.max) :
    (∃ h, (recvStep (recvStep r t .timeout) t .send).sent = some ⟨h, .finished f⟩) ∧
    (recvStep (recvStep r t .timeout) t .send).state = .Active ∧ (recvStep (recvStep r t .timeout) t .send).recvState = .Finished ∧ (recvStep (recvStep r t .timeout) t .send).cfg = r.cfg ∧ (recvStep (recvStep r t .timeout) t .send).condition = r.condition ∧
    (recvStep (recvStep r t .timeout) t .send).prompt = none ∧ (recvStep (recvStep r t .timeout) t .send).ack = none ∧ (recvStep (recvStep r t .timeout) t .send).finished = some (f, false) ∧ (recvStep (recvStep r t .timeout) t .send).delayed = [] ∧
    (recvStep (recvStep r t .timeout) t .send).timer.ack.start = t ∧ (recvStep (recvStep r t .timeout) t .send).timer.ack.paused = false ∧
    (recvStep (recvStep r t .timeout) t .send).timer.ack.count = (r.timer.ack.update t).count ∧
    IK r.timer.inactivity t (recvStep (recvStep r t .timeout) t .send).timer.inactivity := by
  have hnt : ((clrR r).state == TransactionState.Terminated) = false := by
    show (r.state == TransactionState.Terminated) = false; rw [ha]; rfl
  have hns : ((clrR r).state == TransactionState.Suspended) = false := by
    show (r.state == TransactionState.Suspended) = false; rw [ha]; rfl
  have hu : Recv.untilTimeout (clrR r) t = some 0 := by
    have hd0 : (clrR r).delayed = [] := hdel
    simp only [Recv.untilTimeout, hns, Bool.false_eq_true, if_false, hd0, List.head?_nil]
    exact untilTimeout_ack_due r.timer t hdue.1 hdue.2.1 hdue.2.2
  have hmode : ((clrR r).cfg.mode == TransmissionMode.Unacknowledged) = false := by
    show (r.cfg.mode == TransmissionMode.Unacknowledged) = false; rw [hm]; rfl
  have e1 : recvStep r t .timeout = handleTimeoutMain (clrR r) t := by
    rw [recvStep_eq]
    simp only [hnt, Bool.false_eq_true, if_false, hu, beq_self_eq_true, if_true, Recv.handleTimeout, hns, hmode,
      Bool.false_and]
  have hd : handleDelayed (clrR r) t = clrR r := by
    have hd0 : (clrR r).delayed = [] := hdel
    rw [naks_handleDelayed_nil _ _ (by rw [hd0]; rfl), hd0]
    show ({ clrR r with delayed := [] } : Recv.State) = clrR r
    have : (clrR r) = { clrR r with delayed := (clrR r).delayed } := rfl
    rw [this, hd0]
  have hib : (((clrR r).timer.inactivity.limitReached t).2) = false := by
    show ((r.timer.inactivity.update t).count == (r.timer.inactivity.update t).max) = false
    rw [max_update]; simpa using hil
  have hTi := hrt.inactivity.2.1
  have hOi := hrt.inactivity.1
  have hid1 : (r.timer.inactivity.update t).update t = r.timer.inactivity.update t := update_idem _ _ hTi hOi
  obtain ⟨k, hk, hik⟩ : ∃ k, handleInactivity (clrR r) t = (setIR (clrR r) k, true) ∧ IK r.timer.inactivity t k := by
    rw [Recv.handleInactivity_eq]
    simp only [hib, Bool.false_eq_true, if_false]
    split
    · refine ⟨_, rfl, ?_, Or.inl rfl, ?_⟩
      · show ((((r.timer.inactivity.update t).update t).update t)).count = (r.timer.inactivity.update t).count
        rw [hid1, hid1]
      · intro hc; cases hc
    · refine ⟨_, rfl, ?_, Or.inr ?_, ?_⟩
      · show ((r.timer.inactivity.update t).update t).count = (r.timer.inactivity.update t).count
        rw [hid1]
      · show ((r.timer.inactivity.update t).update t).start = (r.timer.inactivity.update t).start
        rw [hid1]
      · show ((r.timer.inactivity.update t).update t).paused = true → r.timer.inactivity.paused = true
        rw [hid1]
        intro hp
        simp only [Counter.update] at hp
        split at hp
        · assumption
        · rw [(updateLoop_fields _ _ _).2.2.2] at hp; exact hp
  -- the positive-ACK part
  have hlb : ((r.timer.ack.limitReached t).2) = false := by
    show ((r.timer.ack.update t).count == (r.timer.ack.update t).max) = false
    rw [max_update]; simpa using hal
  have hocc : ((r.timer.ack.limitReached t).1.timeoutOccurred t).2 = true := by
    show ((r.timer.ack.update t).update t).occurred = true
    rw [update_idem _ _ hrt.ack.2.1 hrt.ack.1]
    exact (update_due r.timer.ack t hdue.1 hdue.2.1).1
  -- the state `handle_timeout` leaves behind, named piece by piece
  generalize hy : setAR (setNR (setIR (clrR r) k) ((setIR (clrR r) k).timer.nak.pause t))
      ((r.timer.ack.limitReached t).1.timeoutOccurred t).1 = y
  have y1 : y.state = .Active := by rw [← hy]; exact ha
  have y2 : y.recvState = .Finished := by rw [← hy]; exact hfin
  have y3 : y.prompt = none := by rw [← hy]; exact hp
  have y4 : y.ack = none := by rw [← hy]; exact hack
  have y5 : y.finished = some (f, false) := by rw [← hy]; exact hf
  have y6 : y.cfg = r.cfg := by rw [← hy]; rfl
  have y7 : y.condition = r.condition := by rw [← hy]; rfl
  have y8 : y.delayed = [] := by rw [← hy]; exact hdel
  have y9 : y.timer.inactivity = k := by rw [← hy]; rfl
  have hsf : setFinishedFlag y true = { y with finished := some (f, true) } := by simp only [setFinishedFlag, y5]
  have e2 : handleTimeoutMain (clrR r) t =
      setAR ({ y with finished := some (f, true) } : Recv.State) (((r.timer.ack.limitReached t).1.timeoutOccurred t).1.restart t) := by
    rw [Recv.handleTimeoutMain_eq]
    simp only [hns, Bool.false_eq_true, if_false, hd, hk, Bool.not_true]
    have hrs : (setIR (clrR r) k).recvState = .Finished := hfin
    simp only [hrs]
    rw [Recv.handleAckTimer_eq]
    have hak : (setNR (setIR (clrR r) k) ((setIR (clrR r) k).timer.nak.pause t)).timer.ack = r.timer.ack := rfl
    rw [hak]
    simp only [hlb, Bool.false_eq_true, if_false, hocc, if_true]
    rw [hy, hsf]
  generalize hx : setAR ({ y with finished := some (f, true) } : Recv.State) (((r.timer.ack.limitReached t).1.timeoutOccurred t).1.restart t) = x at e2
  have x1 : x.state = .Active := by rw [← hx]; exact y1
  have x2 : x.recvState = .Finished := by rw [← hx]; exact y2
  have x3 : x.prompt = none := by rw [← hx]; exact y3
  have x4 : x.ack = none := by rw [← hx]; exact y4
  have x5 : x.finished = some (f, true) := by rw [← hx]; rfl
  have x6 : x.cfg = r.cfg := by rw [← hx]; exact y6
  have x7 : x.condition = r.condition := by rw [← hx]; exact y7
  have x8 : x.delayed = [] := by rw [← hx]; exact y8
  have x9 : x.timer.inactivity = k := by rw [← hx]; exact y9
  have x10 : x.timer.ack = ((r.timer.ack.limitReached t).1.timeoutOccurred t).1.restart t := by rw [← hx]; rfl
  rw [e1, e2]
  -- the transmission
  have hnt2 : ((clrR x).state == TransactionState.Terminated) = false := by
    show (x.state == TransactionState.Terminated) = false; rw [x1]; rfl
  have hns2 : ((clrR x).state == TransactionState.Suspended) = false := by
    show (x.state == TransactionState.Suspended) = false; rw [x1]; rfl
  have j1 : (clrR x).recvState = .Finished := x2
  have j2 : (clrR x).prompt = none := x3
  have j3 : (clrR x).ack = none := x4
  have j4 : (clrR x).finished = some (f, true) := x5
  have hhas : Recv.hasPduToSend (clrR x) = true := by
    simp only [Recv.hasPduToSend, hns2, Bool.false_eq_true, if_false, j1, j4]
  have e2 : recvStep x t .send = Recv.sendFinished (clrR x) t := by
    rw [recvStep_eq]
    simp only [hnt2, Bool.false_eq_true, if_false, hhas, if_true, Recv.sendPdu, j2, Option.isSome_none, j1, j3, j4]
  rw [e2]
  have hsend : (Recv.sendFinished (clrR x) t) = Recv.setFinishedFlag (Recv.sendPayload
      { clrR x with timer := { (clrR x).timer with ack := (clrR x).timer.ack.restart t } } (.finished f)) false := by
    simp only [Recv.sendFinished, j4]
  have hfl : (Recv.sendFinished (clrR x) t).finished = some (f, false) := by
    rw [hsend]; simp only [Recv.setFinishedFlag, Recv.finished_sendPayload, j4]
  have htm : (Recv.sendFinished (clrR x) t).timer = { (clrR x).timer with ack := (clrR x).timer.ack.restart t } := by
    rw [hsend]; simp only [Recv.setFinishedFlag, Recv.finished_sendPayload, j4, Recv.timer_sendPayload]
  have hTa := hrt.ack.2.1
  have hOa := hrt.ack.1
  have hida : (r.timer.ack.update t).update t = r.timer.ack.update t := update_idem _ _ hTa hOa
  -- the positive-ACK counter: restarted by the expiry and again by the transmission, the count as the expiry left it
  have hA1 : x.timer.ack = ((r.timer.ack.update t).update t).restart t := x10
  have hA1s : (((r.timer.ack.update t).update t).restart t).start = t := rfl
  have hA1t : 0 < (((r.timer.ack.update t).update t).restart t).timeout := by
    rw [timeout_restart, timeout_update, timeout_update]; exact hTa
  have hA1u : (((r.timer.ack.update t).update t).restart t).update t = ((r.timer.ack.update t).update t).restart t :=
    update_at_start _ _ hA1s hA1t
  refine ⟨?_, ?_, ?_, ?_, ?_, ?_, ?_, hfl, ?_, ?_, ?_, ?_, ?_⟩
  · rw [hsend]
    simp only [Recv.setFinishedFlag, Recv.finished_sendPayload, j4]
    exact ⟨_, rfl⟩
  · rw [Recv.state_sendFinished]; exact x1
  · rw [Recv.recvState_sendFinished]; exact x2
  · rw [Recv.cfg_sendFinished]; exact x6
  · rw [Recv.condition_sendFinished]; exact x7
  · rw [Recv.prompt_sendFinished]; exact x3
  · rw [Recv.ack_sendFinished]; exact x4
  · rw [Recv.delayed_sendFinished]; exact x8
  · rw [htm]; rfl
  · rw [htm]; rfl
  · rw [htm]
    show (x.timer.ack.restart t).count = _
    rw [hA1]
    show ((((r.timer.ack.update t).update t).restart t).update t).count = _
    rw [hA1u]
    show (((r.timer.ack.update t).update t).update t).count = _
    rw [hida, hida]
  · rw [htm]
    show IK r.timer.inactivity t x.timer.inactivity
    rw [x9]; exact hik

/-- ... and for a cancelled receiver -/
theorem cancelled_round_state {m Ta Ti Tn : Nat} (r : Recv.State) (t : Nat) (f : Finished) (ha : r.state = .Active)
    (hm : r.cfg.mode = .Acknowledged) (hfin : r.recvState = .Cancelled) (hp : r.prompt = none) (hack : r.ack = none)
    (hf : r.finished = some (f, false)) (hdel : r.delayed = []) (hrt : RT m Ta Ti Tn r.timer)
    (hdue : r.timer.ack.paused = false ∧ r.timer.ack.timeout ≤ t - r.timer.ack.start ∧ r.timer.ack.start ≤ t)
    (hal : (r.timer.ack.update t).count ≠ r.timer.ack.max)
    (hil : (r.timer.inactivity.update t).count ≠ r.timer.inactivity.max) :
    (∃ h, (recvStep (recvStep r t .timeout) t .send).sent = some ⟨h, .finished f⟩) ∧
    (recvStep (recvStep r t .timeout) t .send).state = .Active ∧ (recvStep (recvStep r t .timeout) t .send).recvState = .Cancelled ∧ (recvStep (recvStep r t .timeout) t .send).cfg = r.cfg ∧ (recvStep (recvStep r t .timeout) t .send).condition = r.condition ∧
    (recvStep (recvStep r t .timeout) t .send).prompt = none ∧ (recvStep (recvStep r t .timeout) t .send).ack = none ∧ (recvStep (recvStep r t .timeout) t .send).finished = some (f, false) ∧ (recvStep (recvStep r t .timeout) t .send).delayed = [] ∧
    (recvStep (recvStep r t .timeout) t .send).timer.ack.start = t ∧ (recvStep (recvStep r t .timeout) t .send).timer.ack.paused = false ∧
    (recvStep (recvStep r t .timeout) t .send).timer.ack.count = (r.timer.ack.update t).count ∧
    IK r.timer.inactivity t (recvStep (recvStep r t .timeout) t .send).timer.inactivity := by
  have hnt : ((clrR r).state == TransactionState.Terminated) = false := by
    show (r.state == TransactionState.Terminated) = false; rw [ha]; rfl
  have hns : ((clrR r).state == TransactionState.Suspended) = false := by
    show (r.state == TransactionState.Suspended) = false; rw [ha]; rfl
  have hu : Recv.untilTimeout (clrR r) t = some 0 := by
    have hd0 : (clrR r).delayed = [] := hdel
    simp only [Recv.untilTimeout, hns, Bool.false_eq_true, if_false, hd0, List.head?_nil]
    exact untilTimeout_ack_due r.timer t hdue.1 hdue.2.1 hdue.2.2
  have hmode : ((clrR r).cfg.mode == TransmissionMode.Unacknowledged) = false := by
    show (r.cfg.mode == TransmissionMode.Unacknowledged) = false; rw [hm]; rfl
  have e1 : recvStep r t .timeout = handleTimeoutMain (clrR r) t := by
    rw [recvStep_eq]
    simp only [hnt, Bool.false_eq_true, if_false, hu, beq_self_eq_true, if_true, Recv.handleTimeout, hns, hmode,
      Bool.false_and]
  have hd : handleDelayed (clrR r) t = clrR r := by
    have hd0 : (clrR r).delayed = [] := hdel
    rw [naks_handleDelayed_nil _ _ (by rw [hd0]; rfl), hd0]
    show ({ clrR r with delayed := [] } : Recv.State) = clrR r
    have : (clrR r) = { clrR r with delayed := (clrR r).delayed } := rfl
    rw [this, hd0]
  have hib : (((clrR r).timer.inactivity.limitReached t).2) = false := by
    show ((r.timer.inactivity.update t).count == (r.timer.inactivity.update t).max) = false
    rw [max_update]; simpa using hil
  have hTi := hrt.inactivity.2.1
  have hOi := hrt.inactivity.1
  have hid1 : (r.timer.inactivity.update t).update t = r.timer.inactivity.update t := update_idem _ _ hTi hOi
  obtain ⟨k, hk, hik⟩ : ∃ k, handleInactivity (clrR r) t = (setIR (clrR r) k, true) ∧ IK r.timer.inactivity t k := by
    rw [Recv.handleInactivity_eq]
    simp only [hib, Bool.false_eq_true, if_false]
    split
    · refine ⟨_, rfl, ?_, Or.inl rfl, ?_⟩
      · show ((((r.timer.inactivity.update t).update t).update t)).count = (r.timer.inactivity.update t).count
        rw [hid1, hid1]
      · intro hc; cases hc
    · refine ⟨_, rfl, ?_, Or.inr ?_, ?_⟩
      · show ((r.timer.inactivity.update t).update t).count = (r.timer.inactivity.update t).count
        rw [hid1]
      · show ((r.timer.inactivity.update t).update t).start = (r.timer.inactivity.update t).start
        rw [hid1]
      · show ((r.timer.inactivity.update t).update t).paused = true → r.timer.inactivity.paused = true
        rw [hid1]
        intro hp
        simp only [Counter.update] at hp
        split at hp
        · assumption
        · rw [(updateLoop_fields _ _ _).2.2.2] at hp; exact hp
  -- the positive-ACK part
  have hlb : ((r.timer.ack.limitReached t).2) = false := by
    show ((r.timer.ack.update t).count == (r.timer.ack.update t).max) = false
    rw [max_update]; simpa using hal
  have hocc : ((r.timer.ack.limitReached t).1.timeoutOccurred t).2 = true := by
    show ((r.timer.ack.update t).update t).occurred = true
    rw [update_idem _ _ hrt.ack.2.1 hrt.ack.1]
    exact (update_due r.timer.ack t hdue.1 hdue.2.1).1
  -- the state `handle_timeout` leaves behind, named piece by piece
  generalize hy : setAR (setNR (setIR (clrR r) k) ((setIR (clrR r) k).timer.nak.pause t))
      ((r.timer.ack.limitReached t).1.timeoutOccurred t).1 = y
  have y1 : y.state = .Active := by rw [← hy]; exact ha
  have y2 : y.recvState = .Cancelled := by rw [← hy]; exact hfin
  have y3 : y.prompt = none := by rw [← hy]; exact hp
  have y4 : y.ack = none := by rw [← hy]; exact hack
  have y5 : y.finished = some (f, false) := by rw [← hy]; exact hf
  have y6 : y.cfg = r.cfg := by rw [← hy]; rfl
  have y7 : y.condition = r.condition := by rw [← hy]; rfl
  have y8 : y.delayed = [] := by rw [← hy]; exact hdel
  have y9 : y.timer.inactivity = k := by rw [← hy]; rfl
  have hsf : setFinishedFlag y true = { y with finished := some (f, true) } := by simp only [setFinishedFlag, y5]
  have e2 : handleTimeoutMain (clrR r) t =
      setAR ({ y with finished := some (f, true) } : Recv.State) (((r.timer.ack.limitReached t).1.timeoutOccurred t).1.restart t) := by
    rw [Recv.handleTimeoutMain_eq]
    simp only [hns, Bool.false_eq_true, if_false, hd, hk, Bool.not_true]
    have hrs : (setIR (clrR r) k).recvState = .Cancelled := hfin
    simp only [hrs]
    rw [Recv.handleAckTimer_eq]
    have hak : (setNR (setIR (clrR r) k) ((setIR (clrR r) k).timer.nak.pause t)).timer.ack = r.timer.ack := rfl
    rw [hak]
    simp only [hlb, Bool.false_eq_true, if_false, hocc, if_true]
    rw [hy, hsf]
  generalize hx : setAR ({ y with finished := some (f, true) } : Recv.State) (((r.timer.ack.limitReached t).1.timeoutOccurred t).1.restart t) = x at e2
  have x1 : x.state = .Active := by rw [← hx]; exact y1
  have x2 : x.recvState = .Cancelled := by rw [← hx]; exact y2
  have x3 : x.prompt = none := by rw [← hx]; exact y3
  have x4 : x.ack = none := by rw [← hx]; exact y4
  have x5 : x.finished = some (f, true) := by rw [← hx]; rfl
  have x6 : x.cfg = r.cfg := by rw [← hx]; exact y6
  have x7 : x.condition = r.condition := by rw [← hx]; exact y7
  have x8 : x.delayed = [] := by rw [← hx]; exact y8
  have x9 : x.timer.inactivity = k := by rw [← hx]; exact y9
  have x10 : x.timer.ack = ((r.timer.ack.limitReached t).1.timeoutOccurred t).1.restart t := by rw [← hx]; rfl
  rw [e1, e2]
  -- the transmission
  have hnt2 : ((clrR x).state == TransactionState.Terminated) = false := by
    show (x.state == TransactionState.Terminated) = false; rw [x1]; rfl
  have hns2 : ((clrR x).state == TransactionState.Suspended) = false := by
    show (x.state == TransactionState.Suspended) = false; rw [x1]; rfl
  have j1 : (clrR x).recvState = .Cancelled := x2
  have j2 : (clrR x).prompt = none := x3
  have j3 : (clrR x).ack = none := x4
  have j4 : (clrR x).finished = some (f, true) := x5
  have hhas : Recv.hasPduToSend (clrR x) = true := by
    simp only [Recv.hasPduToSend, hns2, Bool.false_eq_true, if_false, j1, j4]
  have e2 : recvStep x t .send = Recv.sendFinished (clrR x) t := by
    rw [recvStep_eq]
    simp only [hnt2, Bool.false_eq_true, if_false, hhas, if_true, Recv.sendPdu, j2, Option.isSome_none, j1, j3, j4]
  rw [e2]
  have hsend : (Recv.sendFinished (clrR x) t) = Recv.setFinishedFlag (Recv.sendPayload
      { clrR x with timer := { (clrR x).timer with ack := (clrR x).timer.ack.restart t } } (.finished f)) false := by
    simp only [Recv.sendFinished, j4]
  have hfl : (Recv.sendFinished (clrR x) t).finished = some (f, false) := by
    rw [hsend]; simp only [Recv.setFinishedFlag, Recv.finished_sendPayload, j4]
  have htm : (Recv.sendFinished (clrR x) t).timer = { (clrR x).timer with ack := (clrR x).timer.ack.restart t } := by
    rw [hsend]; simp only [Recv.setFinishedFlag, Recv.finished_sendPayload, j4, Recv.timer_sendPayload]
  have hTa := hrt.ack.2.1
  have hOa := hrt.ack.1
  have hida : (r.timer.ack.update t).update t = r.timer.ack.update t := update_idem _ _ hTa hOa
  -- the positive-ACK counter: restarted by the expiry and again by the transmission, the count as the expiry left it
  have hA1 : x.timer.ack = ((r.timer.ack.update t).update t).restart t := x10
  have hA1s : (((r.timer.ack.update t).update t).restart t).start = t := rfl
  have hA1t : 0 < (((r.timer.ack.update t).update t).restart t).timeout := by
    rw [timeout_restart, timeout_update, timeout_update]; exact hTa
  have hA1u : (((r.timer.ack.update t).update t).restart t).update t = ((r.timer.ack.update t).update t).restart t :=
    update_at_start _ _ hA1s hA1t
  refine ⟨?_, ?_, ?_, ?_, ?_, ?_, ?_, hfl, ?_, ?_, ?_, ?_, ?_⟩
  · rw [hsend]
    simp only [Recv.setFinishedFlag, Recv.finished_sendPayload, j4]
    exact ⟨_, rfl⟩
  · rw [Recv.state_sendFinished]; exact x1
  · rw [Recv.recvState_sendFinished]; exact x2
  · rw [Recv.cfg_sendFinished]; exact x6
  · rw [Recv.condition_sendFinished]; exact x7
  · rw [Recv.prompt_sendFinished]; exact x3
  · rw [Recv.ack_sendFinished]; exact x4
  · rw [Recv.delayed_sendFinished]; exact x8
  · rw [htm]; rfl
  · rw [htm]; rfl
  · rw [htm]
    show (x.timer.ack.restart t).count = _
    rw [hA1]
    show ((((r.timer.ack.update t).update t).restart t).update t).count = _
    rw [hA1u]
    show (((r.timer.ack.update t).update t).update t).count = _
    rw [hida, hida]
  · rw [htm]
    show IK r.timer.inactivity t x.timer.inactivity
    rw [x9]; exact hik

/-- a sender that has sent its EOF and waits for the ACK of it: nothing queued, the EOF kept for retransmission -/
structure SE (e : Eof) (s : Send.State) : Prop where
  act : s.state = .Active
  mode : s.cfg.mode = .Acknowledged
  ss : s.sendState = .SendEof
  pr : s.prompt = none
  nq : s.naks = []
  eof : s.eof = some (e, false)

/-- a running counter whose period started at `tp` and that has counted at most `j` expiries -/
structure AB (tp j : Nat) (c : Counter) : Prop where
  start : c.start = tp
  run : c.paused = false
  count : c.count ≤ j

/-- expiry after expiry of the positive-ACK timer with nothing arriving in between, each followed by a transmission:
the state afterwards and what was transmitted -/
def eofRounds : Send.State → List Nat → Send.State × List Pdu
  | s, [] => (s, [])
  | s, t :: ts =>
    ((eofRounds (sendStep (sendStep s t .timeout) t .send) ts).1,
     (sendStep (sendStep s t .timeout) t .send).sent.toList ++ (eofRounds (sendStep (sendStep s t .timeout) t .send) ts).2)

/-- the clock condition: every expiry is serviced during the second period of the positive-ACK timer after the one
before (`tp`), the expiries counted so far (`j`) and those to come stay below the limit `m`, and all of it happens less
than `m` inactivity periods after the last PDU from the receiver (`a`) -/
def FairT (m Ta Ti : Nat) : Nat → Nat → Nat → List Nat → Prop
  | _, _, _, [] => True
  | tp, j, a, t :: ts => tp + Ta ≤ t ∧ t < tp + 2 * Ta ∧ j + 1 < m ∧ a ≤ t ∧ t < a + m * Ti ∧ FairT m Ta Ti t (j + 1) a ts

/-- a sender waiting for the ACK of an EOF it has transmitted - the regular one (nothing queued) or the one that carries
a cancel -, the EOF kept for retransmission -/
structure Waits (e : Eof) (s : Send.State) : Prop where
  act : s.state = .Active
  mode : s.cfg.mode = .Acknowledged
  pr : s.prompt = none
  eof : s.eof = some (e, false)
  ss : (s.sendState = .SendEof ∧ s.naks = []) ∨ s.sendState = .Cancelled

/-- one expiry of the positive-ACK timer below the limits and the transmission that follows: the EOF goes out again and
the sender goes on waiting, its timers as the expiry left them -/
theorem waits_round_state (s : Send.State) (t : Nat) (e : Eof) (h : Waits e s)
    (hdue : s.timer.ack.paused = false ∧ s.timer.ack.timeout ≤ t - s.timer.ack.start ∧ s.timer.ack.start ≤ t)
    (hal : ((s.timer.ack.update t).update t).count ≠ s.timer.ack.max)
    (hil : (s.timer.inactivity.update t).count ≠ s.timer.inactivity.max) :
    (∃ hd, (sendStep (sendStep s t .timeout) t .send).sent = some ⟨hd, .eof e⟩) ∧
    Waits e (sendStep (sendStep s t .timeout) t .send) ∧
    (sendStep (sendStep s t .timeout) t .send).sendState = s.sendState ∧
    (sendStep (sendStep s t .timeout) t .send).st = s.st ∧
    (sendStep (sendStep s t .timeout) t .send).timer.ack = ((s.timer.ack.update t).update t).restart t ∧
    (sendStep (sendStep s t .timeout) t .send).timer.inactivity = s.timer.inactivity.update t := by
  rcases h.ss with ⟨hss, hn⟩ | hss
  · obtain ⟨p1, p2, p3, p4, p5, p6, p7, p8, p9⟩ := eof_round_state s t e h.act h.mode hss h.pr hn h.eof hdue hal hil
    have hm2 : (sendStep (sendStep s t .timeout) t .send).cfg.mode = .Acknowledged := by
      show (sendStep (sendStep s t .timeout) t .send).st.cfg.mode = _; rw [p3]; exact h.mode
    exact ⟨p1, ⟨p2, hm2, p5, p7, Or.inl ⟨p4, p6⟩⟩, p4.trans hss.symm, p3, p8, p9⟩
  · obtain ⟨p1, p2, p3, p4, p5, p7, p8, p9⟩ := cancel_round_state s t e h.act h.mode hss h.pr h.eof hdue hal hil
    have hm2 : (sendStep (sendStep s t .timeout) t .send).cfg.mode = .Acknowledged := by
      show (sendStep (sendStep s t .timeout) t .send).st.cfg.mode = _; rw [p3]; exact h.mode
    exact ⟨p1, ⟨p2, hm2, p5, p7, Or.inr p4⟩, p4.trans hss.symm, p3, p8, p9⟩

/-- **the EOF is repeated as long as it is lost, up to the limit** (regular or cancelling): as long as the expiries stay
below the limit (`j + number of rounds < limit`) and within the inactivity limit, every expiry is followed by the
transmission of that same EOF, and the sender goes on waiting -/
theorem waits_repeated {m Ta Ti : Nat} (e : Eof) (ts : List Nat) (s : Send.State) (tp j a : Nat)
    (h : Waits e s) (hq : QT m Ta Ti s.timer) (ab : AB tp j s.timer.ack) (ib : IB Ti a (max a tp) s.timer.inactivity)
    (hf : FairT m Ta Ti tp j a ts) :
    Waits e (eofRounds s ts).1 ∧ (eofRounds s ts).1.sendState = s.sendState ∧ (eofRounds s ts).2.length = ts.length ∧
    (∀ p ∈ (eofRounds s ts).2, ∃ hd, p = ⟨hd, .eof e⟩) ∧
    (eofRounds s ts).1.timer.ack.count ≤ j + ts.length := by
  induction ts generalizing s tp j with
  | nil => exact ⟨h, rfl, rfl, (fun p hp => by cases hp), (by show s.timer.ack.count ≤ j + 0; exact ab.count)⟩
  | cons t ts ih =>
    simp only [FairT] at hf
    obtain ⟨h1, h2, h3, h4, h5, hf⟩ := hf
    have hT : s.timer.ack.timeout = Ta := hq.ack.2.2.2
    have hM : s.timer.ack.max = m := hq.ack.2.2.1
    have hTp : 0 < s.timer.ack.timeout := hq.ack.2.1
    have hOk : s.timer.ack.count ≤ s.timer.ack.max := hq.ack.1
    have hdue : s.timer.ack.paused = false ∧ s.timer.ack.timeout ≤ t - s.timer.ack.start ∧ s.timer.ack.start ≤ t := by
      refine ⟨ab.run, ?_, ?_⟩ <;> rw [ab.start] <;> try rw [hT]
      all_goals omega
    have hcnt : (s.timer.ack.update t).count = min (s.timer.ack.count + 1) s.timer.ack.max :=
      count_update_window _ t ab.run hTp hOk (by rw [ab.start, hT]; exact h1) (by rw [ab.start, hT]; exact h2)
    have hid : (s.timer.ack.update t).update t = s.timer.ack.update t := update_idem _ _ hTp hOk
    have hal : ((s.timer.ack.update t).update t).count ≠ s.timer.ack.max := by
      rw [hid, hcnt, hM]
      have := ab.count
      omega
    have hTi : s.timer.inactivity.timeout = Ti := hq.inactivity.2.2.2
    have hMi : s.timer.inactivity.max = m := hq.inactivity.2.2.1
    have hTip : 0 < Ti := by rw [← hTi]; exact hq.inactivity.2.1
    have ibu : IB Ti a t (s.timer.inactivity.update t) := ib_update ib t hTi hTip hq.inactivity.1 (by omega)
    have hil : (s.timer.inactivity.update t).count ≠ s.timer.inactivity.max := by
      have := ib_limit ibu h5
      rw [hMi]; omega
    obtain ⟨p1, p2, p3, _, p8, p9⟩ := waits_round_state s t e h hdue hal hil
    generalize hs2 : sendStep (sendStep s t .timeout) t .send = s2 at p1 p2 p3 p8 p9
    have hq2 : QT m Ta Ti s2.timer := by rw [← hs2]; exact qt_sendStep (qt_sendStep hq t .timeout) t .send
    have ab2 : AB t (j + 1) s2.timer.ack := by
      refine ⟨by rw [p8]; rfl, by rw [p8]; rfl, ?_⟩
      rw [p8]
      show (((s.timer.ack.update t).update t).update t).count ≤ j + 1
      rw [hid, hid, hcnt]
      have := ab.count
      omega
    have ib2 : IB Ti a (max a t) s2.timer.inactivity := by
      rw [p9]; exact ⟨ibu.cnt, ibu.lo, Nat.le_trans ibu.hi (Nat.le_max_right _ _)⟩
    obtain ⟨i1, i0, i2, i3, i4⟩ := ih s2 t (j + 1) p2 hq2 ab2 ib2 hf
    simp only [eofRounds, hs2]
    obtain ⟨hd, hsent⟩ := p1
    rw [hsent]
    refine ⟨i1, i0.trans p3, by simp [i2], ?_, by simp only [List.length_cons]; omega⟩
    intro p hp
    simp only [Option.toList, List.cons_append, List.nil_append, List.mem_cons] at hp
    rcases hp with rfl | hp
    · exact ⟨hd, rfl⟩
    · exact i3 p hp

/-- **C02 (the EOF is repeated as long as it is lost, up to the limit).**  A sender that has sent its EOF and waits for
the ACK, its positive-ACK counter having counted at most `j` expiries: as long as the expiries stay below the
limit (`j + number of rounds < limit`) and within the inactivity limit, every expiry is followed by the transmission
of that same EOF, and the sender goes on waiting. -/
theorem C02_eof_repeated {m Ta Ti : Nat} (e : Eof) (ts : List Nat) (s : Send.State) (tp j a : Nat)
    (h : SE e s) (hq : QT m Ta Ti s.timer) (ab : AB tp j s.timer.ack) (ib : IB Ti a (max a tp) s.timer.inactivity)
    (hf : FairT m Ta Ti tp j a ts) :
    SE e (eofRounds s ts).1 ∧ (eofRounds s ts).2.length = ts.length ∧
    (∀ p ∈ (eofRounds s ts).2, ∃ hd, p = ⟨hd, .eof e⟩) ∧
    (eofRounds s ts).1.timer.ack.count ≤ j + ts.length := by
  obtain ⟨w1, w2, w3, w4, w5⟩ := waits_repeated e ts s tp j a ⟨h.act, h.mode, h.pr, h.eof, Or.inl ⟨h.ss, h.nq⟩⟩ hq ab ib hf
  refine ⟨⟨w1.act, w1.mode, w2.trans h.ss, w1.pr, ?_, w1.eof⟩, w3, w4, w5⟩
  rcases w1.ss with ⟨_, hn⟩ | hc
  · exact hn
  · rw [w2, h.ss] at hc; cases hc

/-- **C10 (the cancelling EOF is repeated as long as it is lost, up to the limit).**  A cancelled sender (acknowledged
mode) that has transmitted its EOF(cancel) and waits for the ACK: as long as the expiries of its positive-ACK timer
stay below the limit and within the inactivity limit, every expiry is followed by the transmission of that same
EOF, and the sender stays cancelled and waiting - so the cancel reaches a reachable receiver as soon as one of
these gets through (`recv_gets_cancel_eof`). -/
theorem C10_cancel_eof_repeated {m Ta Ti : Nat} (e : Eof) (ts : List Nat) (s : Send.State) (tp j a : Nat)
    (ha : s.state = .Active) (hm : s.cfg.mode = .Acknowledged) (hss : s.sendState = .Cancelled) (hp : s.prompt = none)
    (heof : s.eof = some (e, false))
    (hq : QT m Ta Ti s.timer) (ab : AB tp j s.timer.ack) (ib : IB Ti a (max a tp) s.timer.inactivity)
    (hf : FairT m Ta Ti tp j a ts) :
    (eofRounds s ts).1.state = .Active ∧ (eofRounds s ts).1.sendState = .Cancelled ∧
    (eofRounds s ts).1.eof = some (e, false) ∧ (eofRounds s ts).2.length = ts.length ∧
    (∀ p ∈ (eofRounds s ts).2, ∃ hd, p = ⟨hd, .eof e⟩) := by
  obtain ⟨w1, w2, w3, w4, _⟩ := waits_repeated e ts s tp j a ⟨ha, hm, hp, heof, Or.inr hss⟩ hq ab ib hf
  exact ⟨w1.act, w2.trans hss, w1.eof, w3, w4⟩

/-- a receiver (acknowledged mode) in its closing phase `ph` - Finished or Cancelled - that has transmitted its Finished PDU
and waits for the ACK of it, the PDU kept for retransmission -/
structure WF (ph : RecvState) (f : Finished) (r : Recv.State) : Prop where
  act : r.state = .Active
  mode : r.cfg.mode = .Acknowledged
  rs : r.recvState = ph
  ph : ph = .Finished ∨ ph = .Cancelled
  pr : r.prompt = none
  ack : r.ack = none
  fin : r.finished = some (f, false)
  del : r.delayed = []

/-- expiry after expiry of the receiver's positive-ACK timer with nothing arriving in between, each followed by a
transmission -/
def finRounds : Recv.State → List Nat → Recv.State × List Pdu
  | r, [] => (r, [])
  | r, t :: ts =>
    ((finRounds (recvStep (recvStep r t .timeout) t .send) ts).1,
     (recvStep (recvStep r t .timeout) t .send).sent.toList ++ (finRounds (recvStep (recvStep r t .timeout) t .send) ts).2)

/-- **the Finished PDU is repeated as long as it (or its ACK) is lost, up to the limit** - after a delivery (C02) or after
a cancel (C10): as long as the expiries of the receiver's positive-ACK timer stay below the limit and within the
inactivity limit (`FairT`), every expiry is followed by the transmission of that same Finished PDU, the outcome
recorded stays as it is, and the receiver goes on waiting -/
theorem recv_finished_repeated {m Ta Ti Tn : Nat} (ph : RecvState) (f : Finished) (ts : List Nat) (r : Recv.State)
    (tp j a : Nat) (h : WF ph f r) (hrt : RT m Ta Ti Tn r.timer) (ab : AB tp j r.timer.ack)
    (ib : IB Ti a (max a tp) r.timer.inactivity) (hf : FairT m Ta Ti tp j a ts) :
    WF ph f (finRounds r ts).1 ∧ (finRounds r ts).1.condition = r.condition ∧ (finRounds r ts).2.length = ts.length ∧
    (∀ p ∈ (finRounds r ts).2, ∃ hd, p = ⟨hd, .finished f⟩) := by
  induction ts generalizing r tp j with
  | nil => exact ⟨h, rfl, rfl, (fun p hp => by cases hp)⟩
  | cons t ts ih =>
    simp only [FairT] at hf
    obtain ⟨h1, h2, h3, h4, h5, hf⟩ := hf
    have hT : r.timer.ack.timeout = Ta := hrt.ack.2.2.2
    have hM : r.timer.ack.max = m := hrt.ack.2.2.1
    have hTp : 0 < r.timer.ack.timeout := hrt.ack.2.1
    have hOk : r.timer.ack.count ≤ r.timer.ack.max := hrt.ack.1
    have hdue : r.timer.ack.paused = false ∧ r.timer.ack.timeout ≤ t - r.timer.ack.start ∧ r.timer.ack.start ≤ t := by
      refine ⟨ab.run, ?_, ?_⟩ <;> rw [ab.start] <;> try rw [hT]
      all_goals omega
    have hcnt : (r.timer.ack.update t).count = min (r.timer.ack.count + 1) r.timer.ack.max :=
      count_update_window _ t ab.run hTp hOk (by rw [ab.start, hT]; exact h1) (by rw [ab.start, hT]; exact h2)
    have hal : (r.timer.ack.update t).count ≠ r.timer.ack.max := by
      rw [hcnt, hM]
      have := ab.count
      omega
    have hTi : r.timer.inactivity.timeout = Ti := hrt.inactivity.2.2.2
    have hMi : r.timer.inactivity.max = m := hrt.inactivity.2.2.1
    have hTip : 0 < Ti := by rw [← hTi]; exact hrt.inactivity.2.1
    have ibu : IB Ti a t (r.timer.inactivity.update t) := ib_update ib t hTi hTip hrt.inactivity.1 (by omega)
    have hil : (r.timer.inactivity.update t).count ≠ r.timer.inactivity.max := by
      have := ib_limit ibu h5
      rw [hMi]; omega
    have hround : (∃ hd, (recvStep (recvStep r t .timeout) t .send).sent = some ⟨hd, .finished f⟩) ∧
        WF ph f (recvStep (recvStep r t .timeout) t .send) ∧
        (recvStep (recvStep r t .timeout) t .send).condition = r.condition ∧
        (recvStep (recvStep r t .timeout) t .send).timer.ack.start = t ∧
        (recvStep (recvStep r t .timeout) t .send).timer.ack.paused = false ∧
        (recvStep (recvStep r t .timeout) t .send).timer.ack.count = (r.timer.ack.update t).count ∧
        IK r.timer.inactivity t (recvStep (recvStep r t .timeout) t .send).timer.inactivity := by
      rcases h.ph with hph | hph
      · obtain ⟨q1, q2, q3, q4, q5, q6, q7, q8, q9, q10, q11, q12, q13⟩ :=
          fin_round_state r t f h.act h.mode (by rw [h.rs, hph]) h.pr h.ack h.fin h.del hrt hdue hal hil
        exact ⟨q1, ⟨q2, by rw [q4]; exact h.mode, by rw [q3, hph], h.ph, q6, q7, q8, q9⟩, q5, q10, q11, q12, q13⟩
      · obtain ⟨q1, q2, q3, q4, q5, q6, q7, q8, q9, q10, q11, q12, q13⟩ :=
          cancelled_round_state r t f h.act h.mode (by rw [h.rs, hph]) h.pr h.ack h.fin h.del hrt hdue hal hil
        exact ⟨q1, ⟨q2, by rw [q4]; exact h.mode, by rw [q3, hph], h.ph, q6, q7, q8, q9⟩, q5, q10, q11, q12, q13⟩
    obtain ⟨p1, p2, p3, p4, p5, p6, p7⟩ := hround
    generalize hr2 : recvStep (recvStep r t .timeout) t .send = r2 at p1 p2 p3 p4 p5 p6 p7
    have hrt2 : RT m Ta Ti Tn r2.timer := by rw [← hr2]; exact rt_recvStep (rt_recvStep hrt t .timeout) t .send
    have ab2 : AB t (j + 1) r2.timer.ack := by
      refine ⟨p4, p5, ?_⟩
      rw [p6, hcnt]
      have := ab.count
      omega
    have ib2 : IB Ti a (max a t) r2.timer.inactivity := by
      obtain ⟨k1, k2, _⟩ := p7
      have u1 := ibu.cnt
      have u2 := ibu.lo
      have u3 := ibu.hi
      refine ⟨?_, ?_, ?_⟩
      · rw [k1]; rcases k2 with k2 | k2 <;> rw [k2] <;> omega
      · rcases k2 with k2 | k2 <;> rw [k2] <;> omega
      · rcases k2 with k2 | k2 <;> rw [k2] <;> omega
    obtain ⟨i1, i2, i3, i4⟩ := ih r2 t (j + 1) p2 hrt2 ab2 ib2 hf
    simp only [finRounds, hr2]
    obtain ⟨hd, hsent⟩ := p1
    rw [hsent]
    refine ⟨i1, i2.trans p3, by simp [i3], ?_⟩
    intro p hp
    simp only [Option.toList, List.cons_append, List.nil_append, List.mem_cons] at hp
    rcases hp with rfl | hp
    · exact ⟨hd, rfl⟩
    · exact i4 p hp

/-- **C02 (the EOF lost several times).**  The receiver (acknowledged mode) holds the Metadata and every byte of the
file but never got the EOF; the sender has sent its EOF and waits, its positive-ACK counter having counted at
most `j` expiries.  The EOF is lost again and again: as long as the expiries stay below the limit and within the
inactivity limit (`FairT`), each of them is followed by a retransmission, and whichever of these retransmissions
gets through to the receiver completes the delivery - Finished / NoError / Complete / Retained. -/
theorem C02_lost_eofs_round {mx Ta Ti : Nat} (s : Send.State) (r : Recv.State) (ts : List Nat) (tp j a t' : Nat) (e : Eof)
    (m : Recv.Meta) (fs0 : Fs.FS)
    (g : Send.Good s) (hok : Send.EofOk s) (h : SE e s) (hq : QT mx Ta Ti s.timer) (ab : AB tp j s.timer.ack)
    (ib : IB Ti a (max a tp) s.timer.inactivity) (hf : FairT mx Ta Ti tp j a ts)
    (hcond : e.cond = .NoError) (hsn : s.md.srcName.isEmpty = false)
    (hmode : r.cfg.mode = .Acknowledged) (hact : r.state = .Active) (hrd : r.recvState = .ReceiveData)
    (hmd : r.md = some m) (hft : m.srcName.isEmpty = false) (hmck : m.cksumType = s.md.cksumType)
    (hdata : DataOk s.file r) (hcomp : Seg.isComplete r.segs s.file.length = true) (hfs : r.fs = fs0)
    (hfsw : (fs0.writeFile (Fs.relOf m.dstName) s.file).isSome = true) :
    (eofRounds s ts).2.length = ts.length ∧ ∀ p ∈ (eofRounds s ts).2, FG (recvStep r t' (.pdu p)) := by
  obtain ⟨_, c2, c3, _⟩ := C02_eof_repeated e ts s tp j a h hq ab ib hf
  refine ⟨c2, ?_⟩
  intro p hp
  obtain ⟨hd, rfl⟩ := c3 p hp
  obtain ⟨k1, k2⟩ := hok.eof e false h.eof
  have he2 : e.fileSize = s.file.length := by rw [k1]; exact g.size
  have he3 : e.checksum = fileChecksum m.cksumType s.file := by
    rw [k2, fileChecksum_true, hmck]
    have hsn' : s.st.md.srcName.isEmpty = false := hsn
    simp only [Send.trueChecksum, hsn', Bool.false_eq_true, if_false]
    rfl
  exact eof_completes s.file m fs0 r t' ⟨hd, .eof e⟩ e hmode hact hrd hmd hft hdata hcomp hfs hfsw rfl hcond he2 he3

/-- **C02 / C10 (the Finished PDU, or its ACK, lost several times).**  The receiver - after a delivery (`ph` = Finished) or
after a cancel (`ph` = Cancelled) - has transmitted its Finished PDU and waits; the PDU, or the sender's ACK of it,
is lost again and again.  As long as the expiries of the receiver's positive-ACK timer stay below the limit and
within the inactivity limit (`FairT`), each is followed by a retransmission; whichever of these reaches the sender
(in whatever phase it waits), the sender records the receiver's outcome, acknowledges and ends, and that ACK ends
the receiver - both with the outcome the receiver decided. -/
theorem lost_finisheds_round {m Ta Ti Tn : Nat} (ph : RecvState) (s : Send.State) (r : Recv.State) (ts : List Nat)
    (tp j a t1 t2 : Nat) (f : Finished)
    (hsa : s.state = .Active) (hsm : s.cfg.mode = .Acknowledged) (hsp : s.prompt = none)
    (h : WF ph f r) (hrt : RT m Ta Ti Tn r.timer) (ab : AB tp j r.timer.ack)
    (ib : IB Ti a (max a tp) r.timer.inactivity) (hf : FairT m Ta Ti tp j a ts) :
    (finRounds r ts).2.length = ts.length ∧
    ∀ pf ∈ (finRounds r ts).2, ∃ pa,
      (sendStep (sendStep s t1 (.pdu pf)) t1 .send).sent = some pa ∧
      (sendStep (sendStep s t1 (.pdu pf)) t1 .send).state = .Terminated ∧
      (sendStep (sendStep s t1 (.pdu pf)) t1 .send).condition = f.cond ∧
      (recvStep (finRounds r ts).1 t2 (.pdu pa)).state = .Terminated ∧
      (recvStep (finRounds r ts).1 t2 (.pdu pa)).condition = r.condition := by
  obtain ⟨w, wc, wl, wp⟩ := recv_finished_repeated ph f ts r tp j a h hrt ab ib hf
  refine ⟨wl, ?_⟩
  intro pf hpf
  obtain ⟨hF, rfl⟩ := wp pf hpf
  obtain ⟨d1, d2, d3, d4, d5, ⟨af, d6, d7, d8⟩, _, _⟩ := Cfdp.Net.send_gets_finished_any s t1 ⟨hF, .finished f⟩ f hsa hsm rfl
  obtain ⟨⟨hK, g1⟩, g2, g3⟩ := Cfdp.Net.send_acks_finished (sendStep s t1 (.pdu ⟨hF, .finished f⟩)) t1 af d1 d2
    (by rw [d4]; exact hsp) d6
  refine ⟨_, g1, g2, by rw [g3, d3], ?_⟩
  rcases w.ph with hph | hph
  · obtain ⟨k1, k2⟩ := recv_finished_gets_ack (finRounds r ts).1 t2 ⟨hK, .ack af⟩ af w.act w.mode (by rw [w.rs, hph]) rfl d7 d8
    exact ⟨k1, by rw [k2, wc]⟩
  · obtain ⟨k1, k2, _⟩ := Cfdp.Net.recv_gets_ack_finished (finRounds r ts).1 t2 ⟨hK, .ack af⟩ af w.act w.mode
      (by rw [w.rs, hph]) rfl d7 d8
    exact ⟨k1, by rw [k2, wc]⟩

/-- **C10 (the cancelling EOF lost several times).**  The sender was cancelled, its EOF(cancel) went out and is lost again
and again: as long as the expiries stay below the limit and within the inactivity limit, each is followed by a
retransmission, and whichever of them reaches the receiver (acknowledged mode, any phase) cancels it with the sender's
condition: it tells its user, leaves the filestore as it is, and has the ACK and a Finished PDU carrying that
condition to transmit. -/
theorem C10_lost_cancel_eofs_round {m Ta Ti : Nat} (s : Send.State) (r : Recv.State) (ts : List Nat) (tp j a t' : Nat) (e : Eof)
    (ha : s.state = .Active) (hm : s.cfg.mode = .Acknowledged) (hss : s.sendState = .Cancelled) (hp : s.prompt = none)
    (heof : s.eof = some (e, false)) (hcond : e.cond ≠ .NoError)
    (hq : QT m Ta Ti s.timer) (ab : AB tp j s.timer.ack) (ib : IB Ti a (max a tp) s.timer.inactivity)
    (hf : FairT m Ta Ti tp j a ts) (hra : r.state = .Active) (hrm : r.cfg.mode = .Acknowledged) :
    (eofRounds s ts).2.length = ts.length ∧
    ∀ pdu ∈ (eofRounds s ts).2,
      (recvStep r t' (.pdu pdu)).recvState = .Cancelled ∧ (recvStep r t' (.pdu pdu)).condition = e.cond ∧
      (recvStep r t' (.pdu pdu)).fs = r.fs ∧
      (∃ f, (recvStep r t' (.pdu pdu)).finished = some (f, true) ∧ f.cond = e.cond) := by
  obtain ⟨_, _, _, c4, c5⟩ := C10_cancel_eof_repeated e ts s tp j a ha hm hss hp heof hq ab ib hf
  refine ⟨c4, ?_⟩
  intro pdu hpdu
  obtain ⟨hd, rfl⟩ := c5 pdu hpdu
  obtain ⟨_, b2, b3, _, _, b6, _, b8, _, _⟩ := Cfdp.Net.recv_gets_cancel_eof r t' ⟨hd, .eof e⟩ e hra hrm rfl hcond
  exact ⟨b2, b3, b6, b8⟩

/-- **C02 (the Finished PDU of a delivery, or its ACK, lost several times)** -/
theorem C02_lost_finisheds_round {m Ta Ti Tn : Nat} (s : Send.State) (r : Recv.State) (ts : List Nat)
    (tp j a t1 t2 : Nat) (f : Finished)
    (hsa : s.state = .Active) (hsm : s.cfg.mode = .Acknowledged) (hsp : s.prompt = none)
    (h : WF .Finished f r) (hrt : RT m Ta Ti Tn r.timer) (ab : AB tp j r.timer.ack)
    (ib : IB Ti a (max a tp) r.timer.inactivity) (hf : FairT m Ta Ti tp j a ts) :
    (finRounds r ts).2.length = ts.length ∧
    ∀ pf ∈ (finRounds r ts).2, ∃ pa,
      (sendStep (sendStep s t1 (.pdu pf)) t1 .send).sent = some pa ∧
      (sendStep (sendStep s t1 (.pdu pf)) t1 .send).state = .Terminated ∧
      (sendStep (sendStep s t1 (.pdu pf)) t1 .send).condition = f.cond ∧
      (recvStep (finRounds r ts).1 t2 (.pdu pa)).state = .Terminated ∧
      (recvStep (finRounds r ts).1 t2 (.pdu pa)).condition = r.condition :=
  lost_finisheds_round .Finished s r ts tp j a t1 t2 f hsa hsm hsp h hrt ab ib hf

/-- **C10 (the Finished PDU of a cancelled receiver, or its ACK, lost several times)** -/
theorem C10_lost_cancel_finisheds_round {m Ta Ti Tn : Nat} (s : Send.State) (r : Recv.State) (ts : List Nat)
    (tp j a t1 t2 : Nat) (f : Finished)
    (hsa : s.state = .Active) (hsm : s.cfg.mode = .Acknowledged) (hsp : s.prompt = none)
    (h : WF .Cancelled f r) (hrt : RT m Ta Ti Tn r.timer) (ab : AB tp j r.timer.ack)
    (ib : IB Ti a (max a tp) r.timer.inactivity) (hf : FairT m Ta Ti tp j a ts) :
    (finRounds r ts).2.length = ts.length ∧
    ∀ pf ∈ (finRounds r ts).2, ∃ pa,
      (sendStep (sendStep s t1 (.pdu pf)) t1 .send).sent = some pa ∧
      (sendStep (sendStep s t1 (.pdu pf)) t1 .send).state = .Terminated ∧
      (sendStep (sendStep s t1 (.pdu pf)) t1 .send).condition = f.cond ∧
      (recvStep (finRounds r ts).1 t2 (.pdu pa)).state = .Terminated ∧
      (recvStep (finRounds r ts).1 t2 (.pdu pa)).condition = r.condition :=
  lost_finisheds_round .Cancelled s r ts tp j a t1 t2 f hsa hsm hsp h hrt ab ib hf

/-! ### the premises are satisfiable -/

/-- limit 4, positive-ACK period 1 s, inactivity period 3 s -/
abbrev cfgS4 : Send.Config := { Send.exCfg with max := 4, ti := 3 }
/-- the sender after Metadata, two segments and the EOF -/
def exS4 : Send.State :=
  (sendRun (Send.new cfgS4 Send.exMd Send.exFile 0) [(0, .send), (0, .send), (0, .send), (0, .send)]).1
/-- the receiver after the Metadata and both segments; the EOF was lost -/
def exR4 : Recv.State :=
  (recvRun (Recv.new cfgL [([], .dir)] 0) [(0, .pdu exOut[0]!), (0, .pdu exOut[1]!), (0, .pdu exOut[2]!)]).1

theorem eofOk_run (s : Send.State) (h : Send.EofOk s) (evs : List (Nat × Ev)) : Send.EofOk (sendRun s evs).1 := by
  induction evs generalizing s with
  | nil => exact h
  | cons x rest ih => exact ih _ (eofOk_sendStep h x.1 x.2).1

theorem qt_run {m Ta Ti : Nat} (s : Send.State) (h : QT m Ta Ti s.timer) (evs : List (Nat × Ev)) :
    QT m Ta Ti (sendRun s evs).1.timer := by
  induction evs generalizing s with
  | nil => exact h
  | cons x rest ih => exact ih _ (qt_sendStep h x.1 x.2)

example : ∃ e, (eofRounds exS4 [1000000000, 2000000000]).2.length = 2 ∧
    ∀ p ∈ (eofRounds exS4 [1000000000, 2000000000]).2, p.payload = .eof e ∧ FG (recvStep exR4 2000000007 (.pdu p)) := by
  have he : ∃ e, exS4.eof = some (e, false) := ⟨_, rfl⟩
  obtain ⟨e, he⟩ := he
  have hcond : e.cond = .NoError := by
    have : exS4.eof.map (·.1.cond) = some .NoError := by decide
    rw [he] at this; simpa using this
  have hmd : exR4.md = some { srcName := [115], dstName := [100], fileSize := 6, closure := false, cksumType := .Null, requests := [] } := by
    rfl
  have hsegs : exR4.segs = [(0, 6)] := by decide
  have htmp : exR4.tempFile = some [1, 2, 3, 4, 5, 6] := by decide
  have hqt : QT 4 1000000000 3000000000 exS4.timer := by
    refine qt_run _ ⟨?_, ?_, rfl⟩ _
    · exact cq_new _ _ _ (by decide)
    · exact cq_new _ _ _ (by decide)
  have hgood : Send.Good exS4 := good_run _ (Send.good_new cfgS4 Send.exMd Send.exFile 0 rfl (by decide)) _
  have hok : Send.EofOk exS4 := eofOk_run _ ⟨(fun v hv => by cases hv), (fun e f hh => by cases hh), (fun p e hh => by cases hh)⟩ _
  have hdata : DataOk Send.exFile exR4 := by
    refine ⟨?_, ?_, ?_, ?_⟩
    · rw [hsegs]; exact ⟨fun sg hsg => by simp at hsg; subst hsg; decide, by simp⟩
    · rw [hsegs]; intro sg hsg; simp at hsg; subst hsg; decide
    · rw [htmp]; decide
    · rw [hsegs, htmp]
      intro x hx
      obtain ⟨sg, hsg, h1, h2⟩ := hx
      simp at hsg; subst hsg
      have : x = 0 ∨ x = 1 ∨ x = 2 ∨ x = 3 ∨ x = 4 ∨ x = 5 := by simp only at h1 h2; omega
      rcases this with rfl | rfl | rfl | rfl | rfl | rfl <;> rfl
  obtain ⟨c1, c2⟩ := C02_lost_eofs_round (mx := 4) (Ta := 1000000000) (Ti := 3000000000) exS4 exR4 [1000000000, 2000000000]
    0 0 0 2000000007 e _ exR4.fs hgood hok ⟨by decide, by decide, by decide, by decide, by decide, he⟩ hqt
    ⟨by decide, by decide, by decide⟩ ⟨by decide, by decide, by decide⟩
    ⟨by decide, by decide, by decide, by decide, by decide, by decide, by decide, by decide, by decide, by decide, trivial⟩
    hcond (by decide) (by decide) (by decide) (by decide) hmd (by decide) (by decide) hdata (by decide) rfl (by decide)
  refine ⟨e, c1, fun p hp => ⟨?_, c2 p hp⟩⟩
  obtain ⟨_, _, c3, _⟩ := C02_eof_repeated (m := 4) (Ta := 1000000000) (Ti := 3000000000) e [1000000000, 2000000000] exS4 0 0 0
    ⟨by decide, by decide, by decide, by decide, by decide, he⟩ hqt ⟨by decide, by decide, by decide⟩
    ⟨by decide, by decide, by decide⟩
    ⟨by decide, by decide, by decide, by decide, by decide, by decide, by decide, by decide, by decide, by decide, trivial⟩
  obtain ⟨hd, rfl⟩ := c3 p hp
  rfl

/-- the receiver after the whole file, having transmitted the ACK of the EOF and its Finished PDU -/
def exRF : Recv.State :=
  (recvRun (Recv.new cfgL [([], .dir)] 0) [(0, .pdu exOut[0]!), (0, .pdu exOut[1]!), (0, .pdu exOut[2]!),
    (0, .pdu exOut[3]!), (0, .send), (0, .send)]).1

example : (finRounds exRF [1000000000, 2000000000, 3000000000]).2.length = 3 ∧
    ∀ pf ∈ (finRounds exRF [1000000000, 2000000000, 3000000000]).2,
      (sendStep (sendStep exS4 3000000004 (.pdu pf)) 3000000004 .send).state = .Terminated := by
  have hf : ∃ f, exRF.finished = some (f, false) := ⟨_, rfl⟩
  obtain ⟨f, hf⟩ := hf
  have hri : RI cfgL.max (cfgL.ta * 1000000000) (cfgL.ti * 1000000000) (cfgL.tn * 1000000000) exRF :=
    ri_run _ _ (ri_new cfgL [([], .dir)] 0 (by decide) (by decide) (by decide) ⟨by decide, by decide, by decide⟩)
  obtain ⟨c1, c2⟩ := C02_lost_finisheds_round (m := 4) (Ta := 1000000000) (Ti := 3000000000) (Tn := 1000000000)
    exS4 exRF [1000000000, 2000000000, 3000000000] 0 0 0 3000000004 3000000009 f (by decide) (by decide) (by decide)
    ⟨by decide, by decide, by decide, Or.inl rfl, by decide, by decide, hf, by decide⟩ hri.inv.rt
    ⟨by decide, by decide, by decide⟩ ⟨by decide, by decide, by decide⟩
    ⟨by decide, by decide, by decide, by decide, by decide, by decide, by decide, by decide, by decide, by decide,
      by decide, by decide, by decide, by decide, by decide, trivial⟩
  refine ⟨c1, fun pf hpf => ?_⟩
  obtain ⟨pa, _, k, _⟩ := c2 pf hpf
  exact k

end Cfdp.Loop

#print axioms Cfdp.Loop.C02_eof_repeated
#print axioms Cfdp.Loop.lost_finisheds_round
#print axioms Cfdp.Loop.C02_lost_finisheds_round
#print axioms Cfdp.Loop.C10_lost_cancel_finisheds_round
#print axioms Cfdp.Loop.C10_lost_cancel_eofs_round
#print axioms Cfdp.Loop.recv_finished_repeated
#print axioms Cfdp.Loop.C10_cancel_eof_repeated
#print axioms Cfdp.Loop.C02_lost_eofs_round
#print axioms Cfdp.Loop.C02_two_party_nak_loop
#print axioms Cfdp.Loop.C02_lossy_rounds
#print axioms Cfdp.Loop.C02_lossy_rounds_fair
#print axioms Cfdp.Loop.C02_lost_eof_round
#print axioms Cfdp.Loop.C02_lost_finished_round
#print axioms Cfdp.Loop.C02_lost_metadata_round
#print axioms Cfdp.Loop.C02_timer_round
#print axioms Cfdp.Loop.C02_full_round
#print axioms Cfdp.Loop.C02_full_round_after_wake
#print axioms Cfdp.Loop.C02_sender_answers_nak
#print axioms Cfdp.Loop.C02_receiver_recovers
#print axioms Cfdp.Loop.C02_recovery_round
#print axioms Cfdp.Net.C02_two_party_completes
#print axioms Cfdp.Loop.C02_recv_completes
#print axioms Cfdp.Loop.C02_send_completes
#print axioms Cfdp.Net.C02_two_party_no_integrity_fault
#print axioms Cfdp.Loop.C02_no_integrity_fault
#print axioms Cfdp.Recv.C02_size_check_passes
#print axioms Cfdp.Seg.C02_round_completes
#print axioms Cfdp.Seg.C02_gaps_answered
#print axioms Cfdp.Recv.C02_finishes_when_complete
#print axioms Cfdp.Recv.C02_never_waits_complete
#print axioms Cfdp.Recv.C02_complete_is_success
#print axioms Cfdp.Loop.C10_lost_cancel_eof_round
#print axioms Cfdp.Loop.C10_lost_cancel_finished_round
#print axioms Cfdp.Net.C10_two_party_sender_cancel
#print axioms Cfdp.Net.C10_two_party_receiver_cancel
#print axioms Cfdp.Loop.C10_no_partial
#print axioms Cfdp.Loop.C10_cancel_freezes
#print axioms Cfdp.Recv.C10_recv_cancel
#print axioms Cfdp.Recv.C10_recv_peer_cancel
#print axioms Cfdp.Recv.C10_recv_cancel_ends
#print axioms Cfdp.Send.C10_send_cancel
#print axioms Cfdp.Send.C10_send_cancel_ends
