import Cfdp.Props.C02u
import Cfdp.Props.C10o

/-! # C02: the other single-loss recovery rounds

A lost EOF (`C02_lost_eof_round`: the sender's positive-ACK timer repeats it, `eof_timer_resends`; it completes the delivery,
`eof_completes`), a lost Finished PDU or a lost ACK of it (`C02_lost_finished_round`: the receiver's positive-ACK timer
repeats it, `finished_timer_resends`; sender and receiver end), a lost Metadata PDU (`C02_lost_metadata_round`: the 0-0 marker
of a NAK makes the sender repeat it, `send_flushes_marker`; it completes the delivery, `metadata_completes`).  Lost file data
is `C02_timer_round` (Props/C02u.lean). -/
namespace Cfdp.Loop
open Cfdp.Codec Cfdp.Gen Cfdp.Timer Cfdp.Recv Cfdp.Send

/-- **the EOF completes the delivery.**  A receiver (acknowledged mode) that holds the Metadata and every byte of the
source file, and no EOF yet, receives the truthful EOF: the delivery succeeds in that iteration. -/
theorem eof_completes (src : Bytes) (m : Recv.Meta) (fs0 : Fs.FS) (r : Recv.State) (t : Nat) (p : Pdu) (e : Eof)
    (hmode : r.cfg.mode = .Acknowledged) (hact : r.state = .Active) (hrd : r.recvState = .ReceiveData)
    (hmd : r.md = some m) (hft : m.srcName.isEmpty = false) (hdata : DataOk src r)
    (hcomp : Seg.isComplete r.segs src.length = true) (hfs : r.fs = fs0)
    (hfsw : (fs0.writeFile (Fs.relOf m.dstName) src).isSome = true)
    (hp : p.payload = .eof e) (he1 : e.cond = .NoError) (he2 : e.fileSize = src.length)
    (he3 : e.checksum = fileChecksum m.cksumType src) :
    FG (recvStep r t (.pdu p)) := by
  have hnt : ((clrR r).state == TransactionState.Terminated) = false := by
    show (r.state == TransactionState.Terminated) = false; rw [hact]; rfl
  generalize hq : pduArrived (clrR r) t = q
  have q1 : q.cfg = r.cfg := by rw [← hq, cfg_pduArrived]; rfl
  have q2 : q.segs = r.segs := by rw [← hq, segs_pduArrived]; rfl
  have q3 : q.tempFile = r.tempFile := by rw [← hq, tempFile_pduArrived]; rfl
  have hmq : q.cfg.mode = .Acknowledged := by rw [q1]; exact hmode
  -- the state that recorded the EOF
  generalize hy : emit { prepareAckEof { q with condition := e.cond } with checksum := some e.checksum } .eofRecv = y
  have y1 : y.recvState = .ReceiveData := by rw [← hy, ← hq]; exact hrd
  have y2 : y.md = some m := by rw [← hy, ← hq]; exact hmd
  have y4 : y.checksum = some (fileChecksum m.cksumType src) := by rw [← hy, ← he3]; rfl
  have y5 : y.condition = .NoError := by rw [← hy, ← he1]; rfl
  have y8 : y.fs = fs0 := by rw [← hy, ← hq]; exact hfs
  have y9 : DataOk src y := by rw [← hy]; exact dataOk_frame (dataOk_frame hdata q2 q3) rfl rfl
  have ysegs : y.segs = r.segs := by rw [← hy]; exact q2
  have hcb : (y.condition == Condition.NoError) = true := by rw [y5]; rfl
  have hcs : checkFileSize y e.fileSize t = y := by rw [he2]; exact C02_size_check_passes src y t y9
  have hack : ackEof q e t =
      (if y.condition == Condition.NoError then
        scheduleNaks (checkFinished { checkFileSize y e.fileSize t with fileSize := some e.fileSize } t) e.fileSize t
       else cancelInner y t) := by
    rw [← hy]; rfl
  have e0 : recvStep r t (.pdu p) = ackEof q e t := by
    rw [recvStep_eq]
    simp only [hnt, Bool.false_eq_true, if_false, Recv.processPdu, hq, Recv.processPduBody, hmq, hp]
  have e1 : recvStep r t (.pdu p) = scheduleNaks (checkFinished { y with fileSize := some e.fileSize } t) e.fileSize t := by
    rw [e0, hack, hcs]
    simp only [hcb, if_true]
  generalize hz : ({ y with fileSize := some e.fileSize } : Recv.State) = z at e1
  have z1 : z.recvState = .ReceiveData := by rw [← hz]; exact y1
  have z2 : z.md = some m := by rw [← hz]; exact y2
  have z3 : z.fileSize = some src.length := by rw [← hz, ← he2]
  have z4 : z.checksum = some (fileChecksum m.cksumType src) := by rw [← hz]; exact y4
  have z5 : z.condition = .NoError := by rw [← hz]; exact y5
  have z9 : DataOk src z := by rw [← hz]; exact dataOk_frame y9 rfl rfl
  have zc : Seg.isComplete z.segs src.length = true := by rw [← hz]; show Seg.isComplete y.segs _ = true; rw [ysegs]; exact hcomp
  have zfs : (z.fs.writeFile (Fs.relOf m.dstName) src).isSome = true := by rw [← hz]; show (y.fs.writeFile _ _).isSome = true; rw [y8]; exact hfsw
  obtain ⟨c1, c2, c3, c4, _⟩ := C02_complete_is_success src z t m z1 z5 z2 hft z3 z4 z9 zc zfs
  rw [e1]
  exact ⟨by rw [recvState_scheduleNaks]; exact c1, by rw [condition_scheduleNaks]; exact c2,
    by rw [delivery_scheduleNaks]; exact c3, by rw [fileStatus_scheduleNaks]; exact c4⟩


/-- a running positive-ACK counter whose period is over makes the computed sleep zero -/
theorem untilTimeout_ack_due (tm : Timer) (now : Nat) (hp : tm.ack.paused = false) (hd : tm.ack.timeout ≤ now - tm.ack.start)
    (hs : tm.ack.start ≤ now) : tm.untilTimeout now = some 0 := by
  have h0 : tm.ack.untilTimeout now = 0 := by
    simp only [Counter.untilTimeout]; split <;> omega
  simp only [Timer.untilTimeout, hp, Bool.not_false, if_true, h0]
  cases tm.nak.paused <;> cases tm.inactivity.paused <;>
    simp only [Bool.not_true, Bool.not_false, Bool.false_eq_true, if_false, if_true, optMin, Nat.min_zero, Nat.zero_min]

/-- **the positive-ACK timer repeats the EOF.**  A sender that has sent its EOF and waits (nothing queued), whose ACK
timer runs out at `t` below its limit (the inactivity limit not reached either): the expiry makes the EOF due
again and the next transmission is that same EOF. -/
theorem eof_timer_resends (s : Send.State) (t : Nat) (e : Eof) (ha : s.state = .Active)
    (hm : s.cfg.mode = .Acknowledged) (hss : s.sendState = .SendEof) (hp : s.prompt = none) (hn : s.naks = [])
    (heof : s.eof = some (e, false))
    (hdue : s.timer.ack.paused = false ∧ s.timer.ack.timeout ≤ t - s.timer.ack.start ∧ s.timer.ack.start ≤ t)
    (hal : ((s.timer.ack.update t).update t).count ≠ s.timer.ack.max)
    (hil : (s.timer.inactivity.update t).count ≠ s.timer.inactivity.max) :
    ∃ h, (sendStep (sendStep s t .timeout) t .send).sent = some ⟨h, .eof e⟩ := by
  have hnt : ((clrS s).state == TransactionState.Terminated) = false := by
    show (s.state == TransactionState.Terminated) = false; rw [ha]; rfl
  have hns : ((clrS s).state == TransactionState.Suspended) = false := by
    show (s.state == TransactionState.Suspended) = false; rw [ha]; rfl
  have k1 : (clrS s).sendState = .SendEof := hss
  -- the expiry
  have hu : Send.untilTimeout (clrS s) t = some 0 := by
    simp only [Send.untilTimeout, hns, Bool.false_eq_true, if_false, k1]
    exact untilTimeout_ack_due s.timer t hdue.1 hdue.2.1 hdue.2.2
  have hib : ((clrS s).timer.inactivity.limitReached t).2 = false := by
    show ((s.timer.inactivity.update t).count == (s.timer.inactivity.update t).max) = false
    rw [max_update]; simpa using hil
  have hocc : (s.timer.ack.update t).occurred = true := (update_due s.timer.ack t hdue.1 hdue.2.1).1
  have hab : (((s.timer.ack.update t).update t).count == ((s.timer.ack.update t).update t).max) = false := by
    rw [max_update, max_update]; simpa using hal
  have e1 : sendStep s t .timeout =
      Send.setEofFlag (setA (setI (clrS s) ((clrS s).timer.inactivity.limitReached t).1) ((s.timer.ack.update t).update t)) true := by
    rw [sendStep_eq]
    simp only [hnt, Bool.false_eq_true, if_false, hu, beq_self_eq_true, if_true, Send.handleTimeout, hns, k1]
    rw [Send.handleInactivity_eq, hib]
    simp only [Bool.false_eq_true, if_false]
    rw [Send.handleAckTimer_eq]
    have : (setI (clrS s) ((clrS s).timer.inactivity.limitReached t).1).timer.ack = s.timer.ack := rfl
    rw [this]
    simp only [ackBody, hocc, if_true, hab, Bool.false_eq_true, if_false]
  -- the state after the expiry
  generalize hx : setA (setI (clrS s) ((clrS s).timer.inactivity.limitReached t).1) ((s.timer.ack.update t).update t) = x at e1
  have x1 : x.state = .Active := by rw [← hx]; exact ha
  have x2 : x.sendState = .SendEof := by rw [← hx]; exact hss
  have x3 : x.prompt = none := by rw [← hx]; exact hp
  have x4 : x.naks = [] := by rw [← hx]; exact hn
  have x5 : x.eof = some (e, false) := by rw [← hx]; exact heof
  have x6 : x.cfg.mode = .Acknowledged := by rw [← hx]; exact hm
  have e2 : Send.setEofFlag x true = { x with eof := some (e, true) } := by simp only [Send.setEofFlag, x5]
  rw [e1, e2]
  generalize hy : ({ x with eof := some (e, true) } : Send.State) = y
  have y1 : y.state = .Active := by rw [← hy]; exact x1
  have y2 : y.sendState = .SendEof := by rw [← hy]; exact x2
  have y3 : y.prompt = none := by rw [← hy]; exact x3
  have y4 : y.naks = [] := by rw [← hy]; exact x4
  have y5 : y.eof = some (e, true) := by rw [← hy]
  have y6 : y.cfg.mode = .Acknowledged := by rw [← hy]; exact x6
  have hnt2 : ((clrS y).state == TransactionState.Terminated) = false := by
    show (y.state == TransactionState.Terminated) = false; rw [y1]; rfl
  have hns2 : ((clrS y).state == TransactionState.Suspended) = false := by
    show (y.state == TransactionState.Suspended) = false; rw [y1]; rfl
  have j1 : (clrS y).sendState = .SendEof := y2
  have j2 : (clrS y).prompt = none := y3
  have j3 : (clrS y).naks = [] := y4
  have j4 : (clrS y).eof = some (e, true) := y5
  have hhas : Send.hasPduToSend (clrS y) = true := by
    simp only [Send.hasPduToSend, hns2, Bool.false_eq_true, if_false, j2, j1, j3, Send.eofFlag, j4, Option.isSome_none,
      Bool.false_or, List.isEmpty_nil, Bool.not_true]
  have e3 : sendStep y t .send = Send.sendPduEof (clrS y) t := by
    rw [sendStep_eq]
    simp only [hnt2, Bool.false_eq_true, if_false, hhas, if_true, Send.sendPdu, j2, Option.isSome_none, j1, j3,
      List.isEmpty_nil, Bool.not_true]
  rw [e3]
  -- `send_eof` transmits the prepared EOF; the rest of `send_pdu` leaves the transmission alone in acknowledged mode
  have hse : ∃ h, (Send.sendEof (clrS y) t).sent = some ⟨h, .eof e⟩ := by
    simp only [Send.sendEof, j4, Send.setEofFlag, Send.eof_sendPayload]
    exact ⟨_, rfl⟩
  obtain ⟨h, hh⟩ := hse
  refine ⟨h, ?_⟩
  have hmode : ((Send.sendEof (clrS y) t).cfg.mode == TransmissionMode.Unacknowledged) = false := by
    have : (Send.sendEof (clrS y) t).cfg = y.cfg := by simp only [Send.State.cfg, Send.st_sendEof]; rfl
    rw [this, y6]; rfl
  simp only [Send.sendPduEof]
  split
  · have hm2 : ((({ Send.emit (Send.sendEof (clrS y) t) .eofSent with eofInd := false } : Send.State)).cfg.mode
        == TransmissionMode.Unacknowledged) = false := hmode
    simp only [hm2, Bool.false_eq_true, if_false]
    exact hh
  · simp only [hmode, Bool.false_eq_true, if_false]
    exact hh


/-- **C02 (the round of a lost EOF).**  The receiver (acknowledged mode) holds the Metadata and every byte of the file
but never got the EOF; the sender has sent its EOF and waits.  The sender's positive-ACK timer runs out at `t`
below its limit; the EOF it then repeats - the sender's invariants `Send.Good` / `Send.EofOk` make it state the
true size and checksum - reaches the receiver: the delivery succeeds, Finished / NoError / Complete / Retained. -/
theorem C02_lost_eof_round (s : Send.State) (r : Recv.State) (t t' : Nat) (e : Eof) (m : Recv.Meta) (fs0 : Fs.FS)
    (g : Send.Good s) (hok : Send.EofOk s) (ha : s.state = .Active) (hm : s.cfg.mode = .Acknowledged)
    (hss : s.sendState = .SendEof) (hp : s.prompt = none) (hn : s.naks = []) (heof : s.eof = some (e, false))
    (hcond : e.cond = .NoError) (hsn : s.md.srcName.isEmpty = false)
    (hdue : s.timer.ack.paused = false ∧ s.timer.ack.timeout ≤ t - s.timer.ack.start ∧ s.timer.ack.start ≤ t)
    (hal : ((s.timer.ack.update t).update t).count ≠ s.timer.ack.max)
    (hil : (s.timer.inactivity.update t).count ≠ s.timer.inactivity.max)
    (hmode : r.cfg.mode = .Acknowledged) (hact : r.state = .Active) (hrd : r.recvState = .ReceiveData)
    (hmd : r.md = some m) (hft : m.srcName.isEmpty = false) (hmck : m.cksumType = s.md.cksumType)
    (hdata : DataOk s.file r) (hcomp : Seg.isComplete r.segs s.file.length = true) (hfs : r.fs = fs0)
    (hfsw : (fs0.writeFile (Fs.relOf m.dstName) s.file).isSome = true) :
    ∃ pdu, (sendStep (sendStep s t .timeout) t .send).sent = some pdu ∧ FG (recvStep r t' (.pdu pdu)) := by
  obtain ⟨h, hsent⟩ := eof_timer_resends s t e ha hm hss hp hn heof hdue hal hil
  refine ⟨_, hsent, ?_⟩
  obtain ⟨k1, k2⟩ := hok.eof e false heof
  have he2 : e.fileSize = s.file.length := by rw [k1]; exact g.size
  have he3 : e.checksum = fileChecksum m.cksumType s.file := by
    rw [k2, fileChecksum_true, hmck]
    have hsn' : s.st.md.srcName.isEmpty = false := hsn
    simp only [Send.trueChecksum, hsn', Bool.false_eq_true, if_false]
    rfl
  exact eof_completes s.file m fs0 r t' ⟨h, .eof e⟩ e hmode hact hrd hmd hft hdata hcomp hfs hfsw rfl hcond he2 he3

end Cfdp.Loop

namespace Cfdp.Loop
open Cfdp.Codec Cfdp.Gen Cfdp.Timer Cfdp.Recv Cfdp.Send

/-- **the positive-ACK timer repeats the Finished PDU.**  A receiver in the Finished phase (acknowledged mode) that has
sent its Finished PDU and waits for the ACK, whose ACK timer runs out at `t` below its limit (the inactivity limit
not reached either): the expiry makes the Finished PDU due again and the next transmission is that same PDU;
the outcome recorded stays as it is. -/
theorem finished_timer_resends {m Ta Ti Tn : Nat} (r : Recv.State) (t : Nat) (f : Finished) (ha : r.state = .Active)
    (hm : r.cfg.mode = .Acknowledged) (hfin : r.recvState = .Finished) (hp : r.prompt = none) (hack : r.ack = none)
    (hf : r.finished = some (f, false)) (hdel : r.delayed = []) (hrt : RT m Ta Ti Tn r.timer)
    (hdue : r.timer.ack.paused = false ∧ r.timer.ack.timeout ≤ t - r.timer.ack.start ∧ r.timer.ack.start ≤ t)
    (hal : (r.timer.ack.update t).count ≠ r.timer.ack.max)
    (hil : (r.timer.inactivity.update t).count ≠ r.timer.inactivity.max) :
    (∃ h, (recvStep (recvStep r t .timeout) t .send).sent = some ⟨h, .finished f⟩) ∧
    (recvStep (recvStep r t .timeout) t .send).state = .Active ∧
    (recvStep (recvStep r t .timeout) t .send).recvState = .Finished ∧
    (recvStep (recvStep r t .timeout) t .send).cfg = r.cfg ∧
    (recvStep (recvStep r t .timeout) t .send).condition = r.condition := by
  have hnt : ((clrR r).state == TransactionState.Terminated) = false := by
    show (r.state == TransactionState.Terminated) = false; rw [ha]; rfl
  have hns : ((clrR r).state == TransactionState.Suspended) = false := by
    show (r.state == TransactionState.Suspended) = false; rw [ha]; rfl
  have hu : Recv.untilTimeout (clrR r) t = some 0 := by
    have hd0 : (clrR r).delayed = [] := hdel
    simp only [Recv.untilTimeout, hns, Bool.false_eq_true, if_false, hd0, List.head?_nil]
    exact untilTimeout_ack_due r.timer t hdue.1 hdue.2.1 hdue.2.2
  have hmode : ((clrR r).cfg.mode == TransmissionMode.Unacknowledged) = false := by
    show (r.cfg.mode == TransmissionMode.Unacknowledged) = false; rw [hm]; rfl
  have e1 : recvStep r t .timeout = handleTimeoutMain (clrR r) t := by
    rw [recvStep_eq]
    simp only [hnt, Bool.false_eq_true, if_false, hu, beq_self_eq_true, if_true, Recv.handleTimeout, hns, hmode,
      Bool.false_and]
  have hd : handleDelayed (clrR r) t = clrR r := by
    have hd0 : (clrR r).delayed = [] := hdel
    rw [naks_handleDelayed_nil _ _ (by rw [hd0]; rfl), hd0]
    show ({ clrR r with delayed := [] } : Recv.State) = clrR r
    have : (clrR r) = { clrR r with delayed := (clrR r).delayed } := rfl
    rw [this, hd0]
  have hib : (((clrR r).timer.inactivity.limitReached t).2) = false := by
    show ((r.timer.inactivity.update t).count == (r.timer.inactivity.update t).max) = false
    rw [max_update]; simpa using hil
  obtain ⟨k, hk⟩ : ∃ k, handleInactivity (clrR r) t = (setIR (clrR r) k, true) := by
    rw [Recv.handleInactivity_eq]
    simp only [hib, Bool.false_eq_true, if_false]
    split
    · exact ⟨_, rfl⟩
    · exact ⟨_, rfl⟩
  -- the positive-ACK part
  have hlb : ((r.timer.ack.limitReached t).2) = false := by
    show ((r.timer.ack.update t).count == (r.timer.ack.update t).max) = false
    rw [max_update]; simpa using hal
  have hocc : ((r.timer.ack.limitReached t).1.timeoutOccurred t).2 = true := by
    show ((r.timer.ack.update t).update t).occurred = true
    rw [update_idem _ _ hrt.ack.2.1 hrt.ack.1]
    exact (update_due r.timer.ack t hdue.1 hdue.2.1).1
  -- the state `handle_timeout` leaves behind, named piece by piece
  generalize hy : setAR (setNR (setIR (clrR r) k) ((setIR (clrR r) k).timer.nak.pause t))
      ((r.timer.ack.limitReached t).1.timeoutOccurred t).1 = y
  have y1 : y.state = .Active := by rw [← hy]; exact ha
  have y2 : y.recvState = .Finished := by rw [← hy]; exact hfin
  have y3 : y.prompt = none := by rw [← hy]; exact hp
  have y4 : y.ack = none := by rw [← hy]; exact hack
  have y5 : y.finished = some (f, false) := by rw [← hy]; exact hf
  have y6 : y.cfg = r.cfg := by rw [← hy]; rfl
  have y7 : y.condition = r.condition := by rw [← hy]; rfl
  have hsf : setFinishedFlag y true = { y with finished := some (f, true) } := by simp only [setFinishedFlag, y5]
  have e2 : handleTimeoutMain (clrR r) t =
      setAR ({ y with finished := some (f, true) } : Recv.State) (((r.timer.ack.limitReached t).1.timeoutOccurred t).1.restart t) := by
    rw [Recv.handleTimeoutMain_eq]
    simp only [hns, Bool.false_eq_true, if_false, hd, hk, Bool.not_true]
    have hrs : (setIR (clrR r) k).recvState = .Finished := hfin
    simp only [hrs]
    rw [Recv.handleAckTimer_eq]
    have hak : (setNR (setIR (clrR r) k) ((setIR (clrR r) k).timer.nak.pause t)).timer.ack = r.timer.ack := rfl
    rw [hak]
    simp only [hlb, Bool.false_eq_true, if_false, hocc, if_true]
    rw [hy, hsf]
  generalize hx : setAR ({ y with finished := some (f, true) } : Recv.State) (((r.timer.ack.limitReached t).1.timeoutOccurred t).1.restart t) = x at e2
  have x1 : x.state = .Active := by rw [← hx]; exact y1
  have x2 : x.recvState = .Finished := by rw [← hx]; exact y2
  have x3 : x.prompt = none := by rw [← hx]; exact y3
  have x4 : x.ack = none := by rw [← hx]; exact y4
  have x5 : x.finished = some (f, true) := by rw [← hx]; rfl
  have x6 : x.cfg = r.cfg := by rw [← hx]; exact y6
  have x7 : x.condition = r.condition := by rw [← hx]; exact y7
  rw [e1, e2]
  -- the transmission
  have hnt2 : ((clrR x).state == TransactionState.Terminated) = false := by
    show (x.state == TransactionState.Terminated) = false; rw [x1]; rfl
  have hns2 : ((clrR x).state == TransactionState.Suspended) = false := by
    show (x.state == TransactionState.Suspended) = false; rw [x1]; rfl
  have j1 : (clrR x).recvState = .Finished := x2
  have j2 : (clrR x).prompt = none := x3
  have j3 : (clrR x).ack = none := x4
  have j4 : (clrR x).finished = some (f, true) := x5
  have hhas : Recv.hasPduToSend (clrR x) = true := by
    simp only [Recv.hasPduToSend, hns2, Bool.false_eq_true, if_false, j1, j4]
  have e2 : recvStep x t .send = Recv.sendFinished (clrR x) t := by
    rw [recvStep_eq]
    simp only [hnt2, Bool.false_eq_true, if_false, hhas, if_true, Recv.sendPdu, j2, Option.isSome_none, j1, j3, j4]
  rw [e2]
  refine ⟨?_, ?_, ?_, ?_, ?_⟩
  · have : (Recv.sendFinished (clrR x) t) = Recv.setFinishedFlag (Recv.sendPayload
        { clrR x with timer := { (clrR x).timer with ack := (clrR x).timer.ack.restart t } } (.finished f)) false := by
      simp only [Recv.sendFinished, j4]
    rw [this]
    simp only [Recv.setFinishedFlag, Recv.finished_sendPayload, j4]
    exact ⟨_, rfl⟩
  · rw [Recv.state_sendFinished]; exact x1
  · rw [Recv.recvState_sendFinished]; exact x2
  · rw [Recv.cfg_sendFinished]; exact x6
  · rw [Recv.condition_sendFinished]; exact x7

/-- the ACK of the Finished PDU ends a receiver in the Finished phase (acknowledged mode) -/
theorem recv_finished_gets_ack (r : Recv.State) (t : Nat) (p : Pdu) (a : Ack) (ha : r.state = .Active)
    (hm : r.cfg.mode = .Acknowledged) (hc : r.recvState = .Finished) (hp : p.payload = .ack a)
    (h1 : a.directive = .Finished) (h2 : a.sub = .Finished) :
    (recvStep r t (.pdu p)).state = .Terminated ∧ (recvStep r t (.pdu p)).condition = r.condition := by
  have hnt : ((clrR r).state == TransactionState.Terminated) = false := by
    show (r.state == TransactionState.Terminated) = false; rw [ha]; rfl
  have hm' : (Recv.pduArrived (clrR r) t).cfg.mode = .Acknowledged := hm
  have hc' : (Recv.pduArrived (clrR r) t).recvState = .Finished := hc
  rw [recvStep_eq]
  simp only [hnt, Bool.false_eq_true, if_false, Recv.processPdu, Recv.processPduBody, hm', hp, hc', h1, h2]
  simp only [beq_self_eq_true, Bool.true_or, Bool.and_self, if_true, Recv.shutdown]
  refine ⟨?_, ?_⟩
  all_goals first | trivial | rfl | (simp; done)

/-- **C02 (the round of a lost Finished PDU or of its lost ACK).**  The receiver has delivered the file and sent its
Finished PDU, but the sender - still waiting in whatever phase - never got it (or its ACK was lost).  The
receiver's positive-ACK timer runs out at `t` below its limit; from then on nothing is lost: the repeated
Finished PDU reaches the sender, which records the receiver's outcome, acknowledges and ends; the ACK reaches the
receiver, which ends.  Both end with the outcome the receiver decided. -/
theorem C02_lost_finished_round {m Ta Ti Tn : Nat} (s : Send.State) (r : Recv.State) (t t1 t2 : Nat) (f : Finished)
    (hsa : s.state = .Active) (hsm : s.cfg.mode = .Acknowledged) (hsp : s.prompt = none)
    (ha : r.state = .Active) (hm : r.cfg.mode = .Acknowledged) (hfin : r.recvState = .Finished) (hp : r.prompt = none)
    (hack : r.ack = none) (hf : r.finished = some (f, false)) (hdel : r.delayed = []) (hrt : RT m Ta Ti Tn r.timer)
    (hdue : r.timer.ack.paused = false ∧ r.timer.ack.timeout ≤ t - r.timer.ack.start ∧ r.timer.ack.start ≤ t)
    (hal : (r.timer.ack.update t).count ≠ r.timer.ack.max)
    (hil : (r.timer.inactivity.update t).count ≠ r.timer.inactivity.max) :
    ∃ pf pa,
      (recvStep (recvStep r t .timeout) t .send).sent = some pf ∧
      (sendStep (sendStep s t1 (.pdu pf)) t1 .send).sent = some pa ∧
      (sendStep (sendStep s t1 (.pdu pf)) t1 .send).state = .Terminated ∧
      (sendStep (sendStep s t1 (.pdu pf)) t1 .send).condition = f.cond ∧
      (recvStep (recvStep (recvStep r t .timeout) t .send) t2 (.pdu pa)).state = .Terminated ∧
      (recvStep (recvStep (recvStep r t .timeout) t .send) t2 (.pdu pa)).condition = r.condition := by
  obtain ⟨⟨hF, w1⟩, w2, w3, w4, w5⟩ := finished_timer_resends r t f ha hm hfin hp hack hf hdel hrt hdue hal hil
  obtain ⟨d1, d2, d3, d4, d5, ⟨af, d6, d7, d8⟩, _, _⟩ := Cfdp.Net.send_gets_finished_any s t1 ⟨hF, .finished f⟩ f hsa hsm rfl
  obtain ⟨⟨hK, g1⟩, g2, g3⟩ := Cfdp.Net.send_acks_finished (sendStep s t1 (.pdu ⟨hF, .finished f⟩)) t1 af d1 d2
    (by rw [d4]; exact hsp) d6
  obtain ⟨k1, k2⟩ := recv_finished_gets_ack (recvStep (recvStep r t .timeout) t .send) t2 ⟨hK, .ack af⟩ af w2
    (by rw [w4]; exact hm) w3 rfl d7 d8
  exact ⟨_, _, w1, g1, g2, by rw [g3, d3], k1, by rw [k2, w5]⟩

end Cfdp.Loop

namespace Cfdp.Loop
open Cfdp.Codec Cfdp.Gen Cfdp.Timer Cfdp.Recv Cfdp.Send

/-- the Metadata PDU a sender transmits -/
def mdPduOf (st : Send.Static) : Metadata :=
  { closure := st.md.closure, cksumType := st.md.cksumType, fileSize := st.md.fileSize, srcName := st.md.srcName,
    dstName := st.md.dstName, options := st.md.requests.map Tlv.fsReq ++ st.md.messages.map Tlv.msg }

/-- **the Metadata completes the delivery.**  A receiver (acknowledged mode) that holds the truthful EOF and every byte
of the source file, and no Metadata yet, receives the Metadata: the delivery succeeds in that iteration. -/
theorem metadata_completes (src : Bytes) (fs0 : Fs.FS) (r : Recv.State) (t : Nat) (p : Pdu) (m : Metadata)
    (hmode : r.cfg.mode = .Acknowledged) (hact : r.state = .Active) (hrd : r.recvState = .ReceiveData)
    (hmd : r.md = none) (hsize : r.fileSize = some src.length) (hck : r.checksum = some (fileChecksum m.cksumType src))
    (hcond : r.condition = .NoError) (hft : m.srcName.isEmpty = false) (hdata : DataOk src r)
    (hcomp : Seg.isComplete r.segs src.length = true) (hfs : r.fs = fs0)
    (hfsw : (fs0.writeFile (Fs.relOf m.dstName) src).isSome = true) (hp : p.payload = .metadata m) :
    FG (recvStep r t (.pdu p)) := by
  have hnt : ((clrR r).state == TransactionState.Terminated) = false := by
    show (r.state == TransactionState.Terminated) = false; rw [hact]; rfl
  generalize hq : pduArrived (clrR r) t = q
  have q1 : q.cfg = r.cfg := by rw [← hq, cfg_pduArrived]; rfl
  have q2 : q.segs = r.segs := by rw [← hq, segs_pduArrived]; rfl
  have q3 : q.tempFile = r.tempFile := by rw [← hq, tempFile_pduArrived]; rfl
  have q4 : q.md = none := by rw [← hq, md_pduArrived]; exact hmd
  have hmq : q.cfg.mode = .Acknowledged := by rw [q1]; exact hmode
  have e0 : recvStep r t (.pdu p) = checkFinished (storeMetadata q m) t := by
    rw [recvStep_eq]
    simp only [hnt, Bool.false_eq_true, if_false, Recv.processPdu, hq, Recv.processPduBody, hmq, hp, q4,
      Option.isNone_none, if_true]
  generalize hy : storeMetadata q m = y at e0
  have y1 : y.recvState = .ReceiveData := by rw [← hy, recvState_storeMetadata, ← hq, recvState_pduArrived]; exact hrd
  have y2 : y.md = some (metaOf m) := by rw [← hy]; rfl
  have y3 : y.fileSize = some src.length := by rw [← hy, fileSize_storeMetadata, ← hq, fileSize_pduArrived]; exact hsize
  have y4 : y.checksum = some (fileChecksum (metaOf m).cksumType src) := by
    rw [← hy, checksum_storeMetadata, ← hq, Recv.checksum_pduArrived]; exact hck
  have y5 : y.condition = .NoError := by rw [← hy, condition_storeMetadata, ← hq, Recv.condition_pduArrived]; exact hcond
  have y8 : y.fs = fs0 := by rw [← hy, fs_storeMetadata, ← hq, fs_pduArrived]; exact hfs
  have y9 : DataOk src y := by
    rw [← hy]
    exact dataOk_frame (dataOk_frame hdata q2 q3) (segs_storeMetadata _ _) (tempFile_storeMetadata _ _)
  have yc : Seg.isComplete y.segs src.length = true := by
    rw [← hy, segs_storeMetadata, q2]; exact hcomp
  have yfs : (y.fs.writeFile (Fs.relOf (metaOf m).dstName) src).isSome = true := by rw [y8]; exact hfsw
  obtain ⟨c1, c2, c3, c4, _⟩ := C02_complete_is_success src y t (metaOf m) y1 y5 y2 hft y3 y4 y9 yc yfs
  rw [e0]
  exact ⟨c1, c2, c3, c4⟩

/-- one transmission of a sender whose queue starts with the 0-0 marker: the Metadata PDU goes out again -/
theorem send_answers_marker (s : Send.State) (t : Nat) (rest : List (Nat × Nat))
    (ha : s.state = .Active) (hp : s.prompt = none) (hss : s.sendState = .SendEof) (hn : s.naks = (0, 0) :: rest) :
    ∃ h, (sendStep s t .send).sent = some ⟨h, .metadata (mdPduOf s.st)⟩ := by
  have hnt : ((clrS s).state == TransactionState.Terminated) = false := by
    show (s.state == TransactionState.Terminated) = false; rw [ha]; rfl
  have hns : ((clrS s).state == TransactionState.Suspended) = false := by
    show (s.state == TransactionState.Suspended) = false; rw [ha]; rfl
  have k1 : (clrS s).sendState = .SendEof := hss
  have k2 : (clrS s).prompt = none := hp
  have k3 : (clrS s).naks = (0, 0) :: rest := hn
  have hhas : Send.hasPduToSend (clrS s) = true := by
    simp only [Send.hasPduToSend, hns, Bool.false_eq_true, if_false, k2, k1, k3, Option.isSome_none, Bool.false_or,
      List.isEmpty_cons, Bool.not_false, Bool.true_or]
  have e1 : sendStep s t .send = Send.answerNak (Send.popNak (clrS s) t) 0 0 := by
    rw [sendStep_eq]
    simp only [hnt, Bool.false_eq_true, if_false, hhas, if_true, Send.sendPdu, k2, Option.isSome_none, k1, k3,
      List.isEmpty_cons, Bool.not_false, Send.sendMissingData]
  have e2 : Send.answerNak (Send.popNak (clrS s) t) 0 0 = Send.sendMetadata (Send.popNak (clrS s) t) := by
    simp only [Send.answerNak, Nat.sub_self, gt_iff_lt, show ¬ (0 : Nat) > 65535 by omega, if_false, beq_self_eq_true,
      Bool.and_self, if_true]
  rw [e1, e2]
  have hst : (Send.popNak (clrS s) t).st = s.st := by rw [Send.st_popNak]; rfl
  simp only [Send.sendMetadata, Send.sent_sendPayload, Send.State.md, hst, mdPduOf]
  exact ⟨_, rfl⟩


/-- the queue is flushed: if the 0-0 marker is queued, the Metadata PDU is among what goes out -/
theorem send_flushes_marker (q : List (Nat × Nat)) (s : Send.State) (t : Nat) (g : Send.Good s)
    (ha : s.state = .Active) (hp : s.prompt = none) (hss : s.sendState = .SendEof) (hn : s.naks = q)
    (hmem : (0, 0) ∈ q) :
    ∃ pdu ∈ (sendN q.length s t).2, pdu.payload = .metadata (mdPduOf s.st) := by
  induction q generalizing s with
  | nil => cases hmem
  | cons x rest ih =>
    obtain ⟨a, b⟩ := x
    obtain ⟨g1, a1, p1, s1, n1, st1, _, _⟩ := send_answers_head s t a b rest g ha hp hss hn
    simp only [List.length_cons, sendN]
    rcases List.mem_cons.mp hmem with hx | hx
    · cases hx
      obtain ⟨h, hs⟩ := send_answers_marker s t rest ha hp hss hn
      exact ⟨_, List.mem_append_left _ (by rw [hs]; exact List.mem_singleton.mpr rfl), rfl⟩
    · obtain ⟨pdu, hpdu, hpl⟩ := ih (sendStep s t .send) g1 a1 p1 s1 n1 hx
      rw [st1] at hpl
      exact ⟨pdu, List.mem_append_right _ hpdu, hpl⟩

/-- **C02 (the round of a lost Metadata PDU).**  The receiver (acknowledged mode) holds the truthful EOF and every byte of
the file but never got the Metadata; a NAK of it carrying the 0-0 marker - which is how its NAKs ask for the
Metadata, `C08_exact` - reaches the sender (which has sent its EOF); the sender empties its queue; the Metadata PDU
it transmits reaches the receiver: the delivery succeeds, Finished / NoError / Complete / Retained. -/
theorem C02_lost_metadata_round (s : Send.State) (r : Recv.State) (t t' : Nat) (p : Pdu) (n : Nak) (fs0 : Fs.FS)
    (hs : SQ s.st s) (hpl : p.payload = .nak n) (hmark : (0, 0) ∈ n.requests) (hsn : s.md.srcName.isEmpty = false)
    (hmode : r.cfg.mode = .Acknowledged) (hact : r.state = .Active) (hrd : r.recvState = .ReceiveData)
    (hmd : r.md = none) (hsize : r.fileSize = some s.file.length)
    (hck : r.checksum = some (fileChecksum s.md.cksumType s.file)) (hcond : r.condition = .NoError)
    (hdata : DataOk s.file r) (hcomp : Seg.isComplete r.segs s.file.length = true) (hfs : r.fs = fs0)
    (hfsw : (fs0.writeFile (Fs.relOf s.md.dstName) s.file).isSome = true) :
    ∃ pdu ∈ (sendN (sendStep s t (.pdu p)).naks.length (sendStep s t (.pdu p)) t).2, FG (recvStep r t' (.pdu pdu)) := by
  obtain ⟨g1, a1, p1, s1, st1, n1⟩ := nak_arrives s t p n hs.good hs.act hs.mode hs.pr hs.eofSent hpl
  have hin : (0, 0) ∈ (sendStep s t (.pdu p)).naks := by
    rw [n1]
    apply mem_dedup _ _ _ _ (by simp)
    refine List.mem_append_right _ (List.mem_flatMap.mpr ⟨(0, 0), hmark, ?_⟩)
    simp [splitRequest]
  obtain ⟨pdu, hpdu, hpay⟩ := send_flushes_marker _ (sendStep s t (.pdu p)) t g1 a1 p1 s1 rfl hin
  rw [st1] at hpay
  refine ⟨pdu, hpdu, ?_⟩
  exact metadata_completes s.file fs0 r t' pdu (mdPduOf s.st) hmode hact hrd hmd hsize hck hcond hsn hdata hcomp hfs hfsw hpay

end Cfdp.Loop

#print axioms Cfdp.Loop.C02_lost_eof_round
#print axioms Cfdp.Loop.C02_lost_finished_round
#print axioms Cfdp.Loop.C02_lost_metadata_round
#print axioms Cfdp.Loop.C02_timer_round
#print axioms Cfdp.Loop.C02_full_round
#print axioms Cfdp.Loop.C02_full_round_after_wake
#print axioms Cfdp.Loop.C02_sender_answers_nak
#print axioms Cfdp.Loop.C02_receiver_recovers
#print axioms Cfdp.Loop.C02_recovery_round
#print axioms Cfdp.Net.C02_two_party_completes
#print axioms Cfdp.Loop.C02_recv_completes
#print axioms Cfdp.Loop.C02_send_completes
#print axioms Cfdp.Net.C02_two_party_no_integrity_fault
#print axioms Cfdp.Loop.C02_no_integrity_fault
#print axioms Cfdp.Recv.C02_size_check_passes
#print axioms Cfdp.Seg.C02_round_completes
#print axioms Cfdp.Seg.C02_gaps_answered
#print axioms Cfdp.Recv.C02_finishes_when_complete
#print axioms Cfdp.Recv.C02_never_waits_complete
#print axioms Cfdp.Recv.C02_complete_is_success
