import Cfdp.Gen.RecvFrames
import Cfdp.Gen.SendFrames
import Cfdp.Model.Loop

/-!
# C04 — a completed delivery is final

Once a receive transaction has left the `ReceiveData` sub-state — it reported a complete
delivery (`Finished`) or was cancelled — no event whatsoever touches the filestore again:
the delivered file and the results of the filestore requests are final, finalisation is never
re-run, and the sub-state never goes back.
-/
namespace Cfdp.Recv
open Cfdp.Codec Cfdp.Gen Cfdp.Loop

/-- the transaction has completed or was cancelled -/
def NR (s : State) : Prop := s.recvState ≠ .ReceiveData


/-- close a goal `X.recvState ≠ ReceiveData` from `h`: normalise with the generated frame lemmas,
then appeal to the hypothesis or to an earlier lemma of this family -/
syntax "nrt" "[" term,* "]" : tactic
macro_rules
  | `(tactic| nrt [$ls,*]) => `(tactic|
      ((repeat' split) <;> (try dsimp only) <;>
       (try simp only [recvState_emit, recvState_shutdown, recvState_abandon, recvState_prepareFinished,
          recvState_suspend, recvState_resume, recvState_prepareAckEof, recvState_sendPayload,
          recvState_sendAckEof, recvState_setFinishedFlag, recvState_sendFinished, recvState_storeFileData,
          recvState_pduArrived, recvState_immediateNak, recvState_scheduleNaks, recvState_storeMetadata,
          recvState_handleDelayed, recvState_sendReport]) <;>
       (first
         | assumption
         | (intro hh; cases hh; done)
         | (intro hh; simp at hh; done)
         | fail_if_success skip
         $[| (apply $ls <;> (try dsimp only) <;> assumption)]*)))

theorem nr_cancelInner (s : State) (now : Nat) : (cancelInner s now).recvState ≠ .ReceiveData := by
  simp only [cancelInner, recvState_emit]
  repeat' split
  all_goals simp [prepareFinished, shutdown]

theorem nr_dispatchFault {s : State} (h : NR s) (c : Condition) (now : Nat) :
    (dispatchFault s c now).1.recvState ≠ .ReceiveData := by
  unfold NR at h
  simp only [dispatchFault]
  split
  · exact h
  · exact nr_cancelInner _ _
  · simpa only [recvState_suspend] using h
  · simpa only [recvState_abandon] using h

theorem nr_handleFault {s : State} (h : NR s) (c : Condition) (now : Nat) :
    (handleFault s c now).1.recvState ≠ .ReceiveData := by
  simp only [handleFault]
  apply nr_dispatchFault; exact h

theorem nr_checkFileSize {s : State} (h : NR s) (n now : Nat) : NR (checkFileSize s n now) := by
  unfold NR
  simp only [checkFileSize]
  split
  · exact nr_handleFault h _ _
  · exact h

/-- `check_finished` does nothing once the transaction has left ReceiveData -/
theorem checkFinished_nr {s : State} (h : NR s) (now : Nat) : checkFinished s now = s := by
  simp only [checkFinished]
  have : (s.recvState == RecvState.ReceiveData) = false := by
    cases hr : s.recvState <;> simp_all [NR]
  simp [this]

theorem nr_sendNaksTimer {s : State} (h : NR s) (now : Nat) : NR (sendNaksTimer s now).1 := by
  unfold NR at *
  simp only [sendNaksTimer]
  nrt [nr_handleFault]

theorem nr_sendNaks {s : State} (h : NR s) (now : Nat) : NR (sendNaks s now) := by
  have h1 := nr_sendNaksTimer h now
  unfold NR at *
  simp only [sendNaks]
  nrt []

theorem nr_sendPdu {s : State} (h : NR s) (now : Nat) : NR (sendPdu s now) := by
  unfold NR at *
  simp only [sendPdu, answerPrompt]
  nrt [nr_sendNaks]

theorem nr_handleInactivity {s : State} (h : NR s) (now : Nat) : NR (handleInactivity s now).1 := by
  unfold NR at *
  simp only [handleInactivity]
  nrt [nr_handleFault]

theorem nr_handleAckTimer {s : State} (h : NR s) (now : Nat) (c : Bool) : NR (handleAckTimer s now c) := by
  unfold NR at *
  simp only [handleAckTimer]
  nrt [nr_handleFault]

theorem nr_handleTimeoutMain {s : State} (h : NR s) (now : Nat) : NR (handleTimeoutMain s now) := by
  have h1 : NR (handleInactivity (handleDelayed s now) now).1 :=
    nr_handleInactivity (by unfold NR at *; simpa only [recvState_handleDelayed] using h) now
  unfold NR at *
  simp only [handleTimeoutMain]
  nrt [nr_handleAckTimer]


theorem nr_handleTimeout {s : State} (h : NR s) (now : Nat) : NR (handleTimeout s now) := by
  simp only [handleTimeout, unackFinishedLimit]
  repeat' split
  all_goals first
    | exact h
    | (unfold NR at *; simpa only [recvState_shutdown] using h)
    | (apply nr_handleTimeoutMain; unfold NR at *; exact h)

/-! ### PDUs reaching a transaction that has left ReceiveData -/

theorem ackFileData_nr {s : State} (h : NR s) (off : Nat) (d : Bytes) (now : Nat) :
    ackFileData s off d now =
      immediateNak (emit (storeFileData s off d) (.fileSegmentRecv off d.length)) ((Seg.endOf s.segs).getD 0) off now := by
  simp only [ackFileData]
  apply checkFinished_nr
  unfold NR at *
  simpa only [recvState_immediateNak, recvState_emit, recvState_storeFileData] using h

theorem ackEof_nr {s : State} (h : NR s) (e : Eof) (now : Nat) :
    (ackEof s e now).fs = s.fs ∧ (ackEof s e now).responses = s.responses ∧ NR (ackEof s e now) := by
  have h1 : NR (checkFileSize (emit { prepareAckEof { s with condition := e.cond } with checksum := some e.checksum } .eofRecv)
      e.fileSize now) := nr_checkFileSize (by unfold NR at *; simpa only [recvState_emit, recvState_prepareAckEof] using h) _ _
  unfold NR at *
  simp only [ackEof]
  split
  · rw [checkFinished_nr (by unfold NR; exact h1)]
    simp only [fs_scheduleNaks, responses_scheduleNaks, recvState_scheduleNaks, fs_checkFileSize,
      responses_checkFileSize, fs_emit, responses_emit, fs_prepareAckEof, responses_prepareAckEof]
    exact ⟨trivial, trivial, h1⟩
  · simp only [fs_cancelInner, responses_cancelInner, fs_emit, responses_emit, fs_prepareAckEof, responses_prepareAckEof]
    exact ⟨trivial, trivial, nr_cancelInner _ _⟩

theorem unackEof_nr {s : State} (h : NR s) (e : Eof) (now : Nat) :
    (unackEof s e now).fs = s.fs ∧ (unackEof s e now).responses = s.responses ∧ NR (unackEof s e now) := by
  unfold NR at *
  have hb : (s.recvState != RecvState.ReceiveData) = true := by
    cases hr : s.recvState <;> simp_all
  simp only [unackEof, recvState_emit, hb, if_true, fs_setFinishedFlag, responses_setFinishedFlag,
    recvState_setFinishedFlag, fs_emit, responses_emit]
  exact ⟨trivial, trivial, h⟩

theorem processPduBody_nr {s : State} (h : NR s) (p : Pdu) (now : Nat) :
    (processPduBody s p now).1.fs = s.fs ∧ (processPduBody s p now).1.responses = s.responses ∧
    NR (processPduBody s p now).1 := by
  simp only [processPduBody]
  repeat' split
  all_goals (first
    | exact ⟨rfl, rfl, h⟩
    | (rw [ackFileData_nr h]; unfold NR at *
       simp only [fs_immediateNak, responses_immediateNak, recvState_immediateNak, fs_emit, responses_emit,
         recvState_emit, fs_storeFileData, responses_storeFileData, recvState_storeFileData]
       exact ⟨trivial, trivial, h⟩)
    | exact ackEof_nr h _ _
    | exact unackEof_nr h _ _
    | (unfold NR at *
       simp only [fs_shutdown, responses_shutdown, recvState_shutdown, fs_emit, responses_emit, recvState_emit,
         fs_storeFileData, responses_storeFileData, recvState_storeFileData, fs_storeMetadata,
         responses_storeMetadata, recvState_storeMetadata]
       exact ⟨trivial, trivial, h⟩)
    | (rw [checkFinished_nr (by unfold NR at *; simpa only [recvState_storeMetadata] using h)]; unfold NR at *
       simp only [fs_storeMetadata, responses_storeMetadata, recvState_storeMetadata]
       exact ⟨trivial, trivial, h⟩))

theorem processPdu_nr {s : State} (h : NR s) (p : Pdu) (now : Nat) :
    (processPdu s p now).1.fs = s.fs ∧ (processPdu s p now).1.responses = s.responses ∧
    NR (processPdu s p now).1 := by
  simp only [processPdu]
  exact processPduBody_nr (s := pduArrived s now) h p now

/-- indications that merely report the arrival of a PDU -/
def Ind.quiet : Ind → Bool
  | .eofRecv | .metadataRecv _ _ _ _ | .fileSegmentRecv _ _ => true
  | _ => false

/-- a late or duplicate PDU of the kinds a sender (re)transmits: file data, a NoError EOF whose
file size is not contradicted by the data held, metadata, a prompt -/
def Late (s : State) (p : Pdu) : Prop :=
  match p.payload with
  | .fileData _ _ | .fileDataSeg _ _ _ _ | .metadata _ | .prompt _ => True
  | .eof e => e.cond = .NoError ∧ Seg.endOr0 s.segs ≤ e.fileSize
  | _ => False

theorem checkFileSize_ok {s : State} {n : Nat} (h : Seg.endOr0 s.segs ≤ n) (now : Nat) : checkFileSize s n now = s := by
  simp only [checkFileSize]
  rw [if_neg (by omega)]

theorem finished_setFinishedFlag_map (s : State) (b : Bool) :
    (setFinishedFlag s b).finished.map (·.1) = s.finished.map (·.1) := by
  simp only [setFinishedFlag]
  split <;> simp_all

/-- `s'` differs from `s` only by `quiet` indications and by fields that carry no outcome -/
def LateOk (s s' : State) : Prop :=
  (∀ i ∈ s'.out, i ∈ s.out ∨ i.quiet = true) ∧ s'.delivery = s.delivery ∧ s'.fileStatus = s.fileStatus ∧
  s'.finished.map (·.1) = s.finished.map (·.1) ∧ s'.recvState = s.recvState

theorem lateOk_refl (s : State) : LateOk s s := ⟨fun _ hi => Or.inl hi, rfl, rfl, rfl, rfl⟩

theorem lateOk_trans {a b c : State} (h1 : LateOk a b) (h2 : LateOk b c) : LateOk a c := by
  obtain ⟨a1, a2, a3, a4, a5⟩ := h1
  obtain ⟨b1, b2, b3, b4, b5⟩ := h2
  refine ⟨?_, b2.trans a2, b3.trans a3, b4.trans a4, b5.trans a5⟩
  intro i hi
  rcases b1 i hi with h | h
  · exact a1 i h
  · exact Or.inr h

theorem lateOk_frame {s s' : State} (h1 : s'.out = s.out) (h2 : s'.delivery = s.delivery)
    (h3 : s'.fileStatus = s.fileStatus) (h4 : s'.finished = s.finished) (h5 : s'.recvState = s.recvState) :
    LateOk s s' := by
  refine ⟨?_, h2, h3, by rw [h4], h5⟩
  intro i hi; rw [h1] at hi; exact Or.inl hi

theorem lateOk_emit (s : State) (i : Ind) (hq : i.quiet = true) : LateOk s (emit s i) := by
  refine ⟨?_, rfl, rfl, rfl, rfl⟩
  intro j hj
  simp only [emit, List.mem_append, List.mem_singleton] at hj
  rcases hj with hj | hj
  · exact Or.inl hj
  · subst hj; exact Or.inr hq

/-- what a late PDU does to a transaction that has left ReceiveData: it is noted (`quiet`
indications only: no Finished indication, no fault of any kind), the outcome on record and the
Finished PDU content stay as they are -/
theorem late_pdu {s : State} (h : NR s) (p : Pdu) (hl : Late s p) (now : Nat) :
    LateOk s (processPdu s p now).1 := by
  have h0 : NR (pduArrived s now) := h
  have l0 : LateOk s (pduArrived s now) := lateOk_frame rfl rfl rfl rfl rfl
  have hb : ((pduArrived s now).recvState != RecvState.ReceiveData) = true := by
    unfold NR at h0; cases hr : (pduArrived s now).recvState <;> simp_all
  refine lateOk_trans l0 ?_
  have hl' : Late (pduArrived s now) p := hl
  clear hl l0
  simp only [processPdu]
  generalize pduArrived s now = t at *
  have hl := hl'
  clear hl'
  simp only [processPduBody]
  cases hp : p.payload <;> simp only [Late, hp] at hl <;> cases hm : t.cfg.mode <;> dsimp only
  -- file data, acknowledged
  case fileData.Acknowledged | fileDataSeg.Acknowledged =>
    rw [ackFileData_nr h0]
    exact lateOk_trans (lateOk_trans
      (lateOk_frame (out_storeFileData _ _ _) (delivery_storeFileData _ _ _) (fileStatus_storeFileData _ _ _)
        (finished_storeFileData _ _ _) (recvState_storeFileData _ _ _))
      (lateOk_emit _ _ rfl))
      (lateOk_frame (out_immediateNak _ _ _ _) (delivery_immediateNak _ _ _ _) (fileStatus_immediateNak _ _ _ _)
        (finished_immediateNak _ _ _ _) (recvState_immediateNak _ _ _ _))
  case fileData.Unacknowledged | fileDataSeg.Unacknowledged =>
    exact lateOk_trans
      (lateOk_frame (out_storeFileData _ _ _) (delivery_storeFileData _ _ _) (fileStatus_storeFileData _ _ _)
        (finished_storeFileData _ _ _) (recvState_storeFileData _ _ _))
      (lateOk_emit _ _ rfl)
  case eof.Acknowledged e =>
    obtain ⟨hc, hsz⟩ := hl
    simp only [ackEof, hc]
    have e1 : LateOk t (emit { prepareAckEof { t with condition := Condition.NoError } with checksum := some e.checksum } .eofRecv) :=
      lateOk_trans (lateOk_frame rfl rfl rfl rfl rfl) (lateOk_emit _ _ rfl)
    rw [checkFileSize_ok (by exact hsz)]
    rw [checkFinished_nr (by exact h0)]
    exact lateOk_trans e1 (lateOk_trans (lateOk_frame rfl rfl rfl rfl rfl)
      (lateOk_frame (out_scheduleNaks _ _ _) (delivery_scheduleNaks _ _ _) (fileStatus_scheduleNaks _ _ _)
        (finished_scheduleNaks _ _ _) (recvState_scheduleNaks _ _ _)))
  case eof.Unacknowledged e =>
    simp only [unackEof, recvState_emit, hb, if_true]
    have e1 : LateOk t (emit { t with condition := e.cond, checksum := some e.checksum } .eofRecv) :=
      lateOk_trans (b := { t with condition := e.cond, checksum := some e.checksum })
        (lateOk_frame rfl rfl rfl rfl rfl) (lateOk_emit _ _ rfl)
    refine lateOk_trans e1 ?_
    exact ⟨fun i hi => Or.inl (by rw [out_setFinishedFlag] at hi; exact hi), delivery_setFinishedFlag _ _,
      fileStatus_setFinishedFlag _ _, finished_setFinishedFlag_map _ _, recvState_setFinishedFlag _ _⟩
  case metadata.Acknowledged m =>
    split
    · rw [checkFinished_nr (by unfold NR at *; simpa only [recvState_storeMetadata] using h0)]
      simp only [storeMetadata]
      exact lateOk_trans (lateOk_emit _ _ rfl) (lateOk_frame rfl rfl rfl rfl rfl)
    · exact lateOk_refl _
  case metadata.Unacknowledged m =>
    split
    · simp only [storeMetadata]
      exact lateOk_trans (lateOk_emit _ _ rfl) (lateOk_frame rfl rfl rfl rfl rfl)
    · exact lateOk_refl _
  case prompt.Acknowledged k => exact lateOk_frame rfl rfl rfl rfl rfl
  case prompt.Unacknowledged k => exact lateOk_refl _

end Cfdp.Recv

namespace Cfdp.Loop
open Cfdp.Codec Cfdp.Gen Cfdp.Recv

/-- one loop iteration of a transaction that has left ReceiveData: the filestore and the
filestore responses are untouched, and the transaction stays out of ReceiveData -/
theorem final_recvStep {s : Recv.State} (h : NR s) (now : Nat) (e : Ev) :
    (recvStep s now e).fs = s.fs ∧ (recvStep s now e).responses = s.responses ∧ NR (recvStep s now e) := by
  have h0 : NR { s with sent := none, out := [] } := h
  simp only [recvStep]
  repeat' split
  all_goals (first
    | exact ⟨rfl, rfl, h0⟩
    | exact processPdu_nr h0 _ _
    | exact ⟨Recv.fs_sendPdu _ _, Recv.responses_sendPdu _ _, nr_sendPdu h0 _⟩
    | exact ⟨Recv.fs_handleTimeout _ _, Recv.responses_handleTimeout _ _, nr_handleTimeout h0 _⟩
    | exact ⟨Recv.fs_cancel _ _, Recv.responses_cancel _ _, nr_cancelInner _ _⟩
    | exact ⟨Recv.fs_suspend _ _, Recv.responses_suspend _ _, by unfold NR at *; simpa only [recvState_suspend] using h0⟩
    | exact ⟨Recv.fs_resume _ _, Recv.responses_resume _ _, by unfold NR at *; simpa only [recvState_resume] using h0⟩
    | exact ⟨Recv.fs_sendReport _, Recv.responses_sendReport _, by unfold NR at *; simpa only [recvState_sendReport] using h0⟩
    | exact ⟨Recv.fs_shutdown _ _, Recv.responses_shutdown _ _, by unfold NR at *; simpa only [recvState_shutdown] using h0⟩)

/-- **C04 (receiver, all histories).** Once the receiver has reported the delivery (or was
cancelled), no sequence of PDUs, timer expirations, transmissions and user requests — of any
length, at any times — changes the filestore (so the delivered file stays as it is and no
filestore request runs a second time) or the recorded filestore responses. -/
theorem C04_final (s : Recv.State) (h : NR s) (evs : List (Nat × Ev)) :
    (recvRun s evs).1.fs = s.fs ∧ (recvRun s evs).1.responses = s.responses ∧ NR (recvRun s evs).1 := by
  induction evs generalizing s with
  | nil => exact ⟨rfl, rfl, h⟩
  | cons x rest ih =>
    obtain ⟨now, e⟩ := x
    obtain ⟨h1, h2, h3⟩ := final_recvStep h now e
    obtain ⟨i1, i2, i3⟩ := ih (recvStep s now e) h3
    simp only [recvRun]
    exact ⟨i1.trans h1, i2.trans h2, i3⟩

/-- **C04 (late PDUs).** A duplicate or straggler — file data, a NoError EOF, metadata, a
prompt — reaching a receiver that has already reported the delivery produces no Finished
indication and no fault indication of any kind (in particular no file-checksum or file-size
failure), leaves the recorded outcome and the content of the Finished PDU as they were, and (by
`C04_final`) leaves the filestore untouched. -/
theorem C04_late (s : Recv.State) (h : s.recvState = .Finished) (p : Pdu) (hl : Late s p) (now : Nat) :
    (∀ i ∈ (recvStep s now (.pdu p)).out, i.quiet = true) ∧
    (recvStep s now (.pdu p)).delivery = s.delivery ∧
    (recvStep s now (.pdu p)).fileStatus = s.fileStatus ∧
    (recvStep s now (.pdu p)).finished.map (·.1) = s.finished.map (·.1) ∧
    (recvStep s now (.pdu p)).recvState = .Finished ∧
    (recvStep s now (.pdu p)).fs = s.fs ∧ (recvStep s now (.pdu p)).responses = s.responses := by
  have hn : NR s := by unfold NR; rw [h]; intro hh; cases hh
  obtain ⟨f1, f2, _⟩ := final_recvStep hn now (.pdu p)
  refine ⟨?_, ?_, ?_, ?_, ?_, f1, f2⟩
  all_goals simp only [recvStep]
  all_goals split
  all_goals first
    | (intro i hi; cases hi; done)
    | rfl
    | exact h
    | skip
  all_goals
    have l := late_pdu (s := { s with sent := none, out := [] }) hn p hl now
  · intro i hi
    rcases l.1 i hi with h1 | h1
    · cases h1
    · exact h1
  · exact l.2.1
  · exact l.2.2.1
  · exact l.2.2.2.1
  · rw [l.2.2.2.2]; exact h

end Cfdp.Loop

/-! ### sender: success is only ever reported on the receiver's word -/
namespace Cfdp.Send
open Cfdp.Codec Cfdp.Gen

/-- a Finished indication announcing a complete delivery -/
def Ind.isComplete : Ind → Bool
  | .finished _ .Complete _ _ _ _ => true
  | _ => false

/-- the sender has not been told of a complete delivery and has not announced one in this iteration -/
def NotTold (s : State) : Prop := s.delivery ≠ .Complete ∧ ∀ i ∈ s.out, i.isComplete = false

theorem notTold_frame {s s' : State} (h : NotTold s) (h1 : s'.delivery = s.delivery) (h2 : s'.out = s.out) :
    NotTold s' := by
  unfold NotTold; rw [h1, h2]; exact h

theorem notTold_emit {s : State} (h : NotTold s) (i : Ind) (hi : i.isComplete = false) : NotTold (emit s i) := by
  refine ⟨h.1, ?_⟩
  intro j hj
  simp only [emit, List.mem_append, List.mem_singleton] at hj
  rcases hj with hj | hj
  · exact h.2 j hj
  · subst hj; exact hi

theorem isComplete_finished_of_ne {d : DeliveryCode} (hd : d ≠ .Complete) (c : Condition) (f : FileStatusCode)
    (st : TransactionState) (stt : TransactionStatus) (r : List FsResponse) :
    (Ind.finished c d f st stt r).isComplete = false := by
  cases d
  · exact absurd rfl hd
  · rfl

theorem notTold_abandon {s : State} (h : NotTold s) (now : Nat) : NotTold (abandon s now) := by
  simp only [abandon]
  exact notTold_frame (notTold_emit h _ rfl) rfl rfl

theorem notTold_suspend {s : State} (h : NotTold s) (now : Nat) : NotTold (suspend s now) := by
  simp only [suspend]
  exact notTold_emit (notTold_frame h rfl rfl) _ rfl

theorem notTold_resume {s : State} (h : NotTold s) (now : Nat) : NotTold (resume s now) := by
  simp only [resume]
  repeat' split
  all_goals exact notTold_emit (notTold_frame h rfl rfl) _ rfl

theorem notTold_handleFault {s : State} (h : NotTold s) (c : Condition) (now : Nat) : NotTold (handleFault s c now) := by
  have h1 : NotTold (emit { s with condition := c } (.fault c (getProgress s))) :=
    notTold_emit (notTold_frame h rfl rfl) _ rfl
  simp only [handleFault]
  split
  · exact h1
  · exact notTold_frame h1 (delivery_cancelInner _ _ _) (out_cancelInner _ _ _)
  · exact notTold_suspend h1 _
  · exact notTold_abandon h1 _

theorem notTold_handleInactivity {s : State} (h : NotTold s) (now : Nat) (c : Bool) :
    NotTold (handleInactivity s now c) := by
  simp only [handleInactivity]
  repeat' split
  all_goals first
    | (apply notTold_abandon; exact notTold_frame h rfl rfl)
    | (apply notTold_handleFault; exact notTold_frame h rfl rfl)
    | exact notTold_frame h rfl rfl

theorem notTold_handleAckTimer {s : State} (h : NotTold s) (now : Nat) (c : Bool) :
    NotTold (handleAckTimer s now c) := by
  simp only [handleAckTimer]
  repeat' split
  all_goals first
    | (apply notTold_abandon; exact notTold_frame h rfl rfl)
    | (apply notTold_handleFault; exact notTold_frame h rfl rfl)
    | exact notTold_frame h (by simp only [delivery_setEofFlag]) (by simp only [out_setEofFlag])
    | exact notTold_frame h rfl rfl

theorem notTold_handleTimeout {s : State} (h : NotTold s) (now : Nat) : NotTold (handleTimeout s now) := by
  simp only [handleTimeout]
  repeat' split
  all_goals first
    | exact h
    | exact notTold_handleAckTimer (notTold_handleInactivity h _ _) _ _

theorem notTold_sendPduEof {s : State} (h : NotTold s) (now : Nat) : NotTold (sendPduEof s now) := by
  have h1 : NotTold (sendEof s now) := notTold_frame h (delivery_sendEof _ _) (out_sendEof _ _)
  have h2 : NotTold (if (sendEof s now).eofInd then { emit (sendEof s now) .eofSent with eofInd := false } else sendEof s now) := by
    split
    · exact notTold_frame (notTold_emit h1 _ rfl) rfl rfl
    · exact h1
  simp only [sendPduEof]
  generalize (if (sendEof s now).eofInd then { emit (sendEof s now) .eofSent with eofInd := false } else sendEof s now) = t at h2
  repeat' split
  all_goals first
    | exact h2
    | exact notTold_frame (notTold_emit h2 _ (isComplete_finished_of_ne h2.1 _ _ _ _ _)) rfl rfl

theorem notTold_sendPdu {s : State} (h : NotTold s) (now : Nat) : NotTold (sendPdu s now) := by
  simp only [sendPdu]
  repeat' split
  all_goals first
    | exact notTold_sendPduEof h _
    | exact notTold_frame h (by simp only [delivery_sendPrompt, delivery_sendPduMetadata, delivery_sendPduData,
        delivery_sendMissingData, delivery_sendEof, delivery_sendAck])
        (by simp only [out_sendPrompt, out_sendPduMetadata, out_sendPduData, out_sendMissingData, out_sendEof, out_sendAck])

/-- a Finished PDU announcing a complete delivery -/
def tellsComplete (e : Loop.Ev) : Bool :=
  match e with
  | .pdu p => (match p.payload with | .finished f => f.delivery == .Complete | _ => false)
  | _ => false

theorem notTold_processPdu {s : State} (h : NotTold s) (p : Pdu) (now : Nat)
    (hp : tellsComplete (.pdu p) = false) : NotTold (processPdu s p now).1 := by
  have h0 : NotTold (pduArrived s now) := notTold_frame h (delivery_pduArrived _ _) (out_pduArrived _ _)
  simp only [processPdu]
  generalize pduArrived s now = t at h0
  simp only [tellsComplete] at hp
  simp only [processPduBody]
  cases hpl : p.payload <;> simp only [hpl] at hp <;> cases hm : t.cfg.mode <;> dsimp only
  case finished.Acknowledged f =>
    have hd : f.delivery ≠ .Complete := by
      intro hh; rw [hh] at hp; exact absurd hp (by decide)
    refine ⟨hd, ?_⟩
    intro j hj
    simp only [emit, List.mem_append, List.mem_singleton] at hj
    rcases hj with hj | hj
    · exact h0.2 j hj
    · subst hj; exact isComplete_finished_of_ne hd _ _ _ _ _
  case finished.Unacknowledged f =>
    have hd : f.delivery ≠ .Complete := by
      intro hh; rw [hh] at hp; exact absurd hp (by decide)
    split
    · refine ⟨hd, ?_⟩
      intro j hj
      simp only [shutdown, emit, List.mem_append, List.mem_singleton] at hj
      rcases hj with hj | hj
      · exact h0.2 j hj
      · subst hj; exact isComplete_finished_of_ne hd _ _ _ _ _
    · exact h0
  all_goals (repeat' split)
  all_goals first
    | exact h0
    | exact notTold_frame h0 rfl rfl

/-- one loop iteration: unless a Finished PDU announcing a complete delivery arrives, the sender
neither records nor announces one -/
theorem notTold_sendStep {s : State} (h : s.delivery ≠ .Complete) (now : Nat) (e : Loop.Ev)
    (he : tellsComplete e = false) : NotTold (Loop.sendStep s now e) := by
  have h0 : NotTold { s with sent := none, out := [] } := ⟨h, fun i hi => by cases hi⟩
  simp only [Loop.sendStep]
  repeat' split
  all_goals first
    | exact h0
    | exact notTold_processPdu h0 _ _ he
    | exact notTold_sendPdu h0 _
    | exact notTold_handleTimeout h0 _
    | exact notTold_frame h0 (delivery_cancel _ _) (out_cancel _ _)
    | exact notTold_suspend h0 _
    | exact notTold_resume h0 _
    | exact notTold_emit h0 _ rfl
    | exact notTold_frame h0 rfl rfl

/-- **C04 (sender).** Over every history of PDUs, timer expirations, transmissions and user
requests: a sender that is never handed a Finished PDU announcing a complete delivery never
tells its user that the file was delivered completely — success is only ever reported on the
receiver's word. -/
theorem C04_sender (cfg : Config) (md : Meta) (file : Bytes) (t0 : Nat) (evs : List (Nat × Loop.Ev))
    (hev : ∀ x ∈ evs, tellsComplete x.2 = false) :
    ∀ i ∈ (new cfg md file t0).out ++ Loop.sendInds (new cfg md file t0) evs, i.isComplete = false := by
  have key : ∀ (evs : List (Nat × Loop.Ev)) (s : State), s.delivery ≠ .Complete →
      (∀ x ∈ evs, tellsComplete x.2 = false) → ∀ i ∈ Loop.sendInds s evs, i.isComplete = false := by
    intro evs
    induction evs with
    | nil => intro s _ _ i hi; cases hi
    | cons x rest ih =>
      intro s hs hx i hi
      obtain ⟨now, e⟩ := x
      have st := notTold_sendStep hs now e (hx (now, e) (List.mem_cons_self ..))
      simp only [Loop.sendInds, List.mem_append] at hi
      rcases hi with hi | hi
      · exact st.2 i hi
      · exact ih _ st.1 (fun y hy => hx y (List.mem_cons_of_mem _ hy)) i hi
  intro i hi
  simp only [List.mem_append] at hi
  rcases hi with hi | hi
  · simp only [new, emit, List.nil_append, List.mem_singleton] at hi
    subst hi; rfl
  · exact key evs _ (by simp [new, emit]) hev i hi

end Cfdp.Send

/-! ### non-vacuity -/
namespace Cfdp.Loop
open Cfdp.Codec Cfdp.Gen

abbrev c04Cfg : Recv.Config :=
  { mode := .Acknowledged, fss := .Small, seg := 64, crc := .NotPresent, max := 2, ti := 1, ta := 1, tn := 1,
    immediate := false, delay := 0, fho := [], src := ⟨2, 1⟩, dst := ⟨2, 2⟩, seq := ⟨2, 7⟩ }
abbrev c04Hdr : Header := { (default : Header) with pduType := .FileDirective, direction := .ToReceiver }
abbrev c04Meta : Metadata :=
  { closure := false, cksumType := .Null, fileSize := 3, srcName := [115], dstName := [100], options := [] }
abbrev c04Md : Pdu := { header := c04Hdr, payload := .metadata c04Meta }
abbrev c04Data : Pdu := { header := { c04Hdr with pduType := .FileData }, payload := .fileData 0 [1, 2, 3] }
abbrev c04Eof : Pdu := { header := c04Hdr, payload := .eof { cond := .NoError, checksum := 0, fileSize := 3, fault := none } }
/-- metadata, data, EOF: the receiver completes and reports the delivery -/
abbrev c04Done : Recv.State :=
  (recvRun (Recv.new c04Cfg [([], .dir)] 0) [(0, .pdu c04Md), (0, .pdu c04Data), (0, .pdu c04Eof)]).1

/-- the hypotheses of `C04_late` / `C04_final` are met by a reachable state, for each kind of late PDU -/
example : c04Done.recvState = .Finished ∧ c04Done.fs = [([], .dir), ([['d']], .file [1, 2, 3])] := by decide
example : Recv.Late c04Done c04Eof ∧ Recv.Late c04Done c04Data ∧ Recv.Late c04Done c04Md := by
  refine ⟨?_, ?_, ?_⟩ <;> simp only [Recv.Late, c04Eof, c04Data, c04Md] <;> decide
/-- …and the retransmitted EOF then only raises the EOF-received indication -/
example : (recvStep c04Done 5 (.pdu c04Eof)).out = [.eofRecv] := by rfl

end Cfdp.Loop

#print axioms Cfdp.Loop.C04_final
#print axioms Cfdp.Loop.C04_late
#print axioms Cfdp.Send.C04_sender
