import Cfdp.Props.C18l
set_option linter.unusedSimpArgs false

/-! # C02: from the EOF into the NAK loop

The loop theorems of Props/C02x.lean start from a receiver in mid-recovery with nothing to transmit.  This file shows how a
transfer gets there: the truthful EOF arrives at a receiver that holds the Metadata and part of the file
(`eof_enters_recovery`: the request queue is rebuilt, the ACK of the EOF is due), the ACK and the NAKs go out
(`eof_enters_loop`), and from then on `C02_lossy_rounds_fair` applies (`C02_from_eof_lossy_rounds`). -/
namespace Cfdp.Loop
open Cfdp.Codec Cfdp.Gen Cfdp.Timer Cfdp.Recv Cfdp.Send

/-- **the EOF opens the recovery.**  A receiver (acknowledged mode, deferred or immediate NAKs without delay) that holds the
Metadata and only bytes of the source file, something still missing, and no EOF yet, receives the truthful EOF: it
stays collecting, now in mid-recovery (`RG`), its request queue lists what is missing, the ACK of the EOF is due,
the inactivity counter starts again, the NAK counter and the data are untouched. -/
theorem eof_enters_recovery (src : Bytes) (m : Recv.Meta) (fs0 : Fs.FS) (r : Recv.State) (t : Nat) (p : Pdu) (e : Eof)
    (hmode : r.cfg.mode = .Acknowledged) (hact : r.state = .Active) (hrd : r.recvState = .ReceiveData)
    (hmd : r.md = some m) (hft : m.srcName.isEmpty = false) (hdata : DataOk src r)
    (hinc : ∃ x, x < src.length ∧ ¬ Seg.cov r.segs x) (hfs : r.fs = fs0) (hdl : r.cfg.delay = 0)
    (hp : p.payload = .eof e) (he1 : e.cond = .NoError) (he2 : e.fileSize = src.length)
    (he3 : e.checksum = fileChecksum m.cksumType src) :
    RG src m fs0 (recvStep r t (.pdu p)) ∧ (recvStep r t (.pdu p)).segs = r.segs ∧
    (recvStep r t (.pdu p)).naks = getAllNaks (recvStep r t (.pdu p)) ∧
    (∃ a, (recvStep r t (.pdu p)).ack = some a) ∧ (recvStep r t (.pdu p)).prompt = r.prompt ∧
    (recvStep r t (.pdu p)).delayed = r.delayed ∧
    (recvStep r t (.pdu p)).timer = { r.timer with inactivity := r.timer.inactivity.reset t } ∧
    (recvStep r t (.pdu p)).nakReceived = r.nakReceived ∧ (recvStep r t (.pdu p)).received = r.received := by
  have hnt : ((clrR r).state == TransactionState.Terminated) = false := by
    show (r.state == TransactionState.Terminated) = false; rw [hact]; rfl
  generalize hq : pduArrived (clrR r) t = q
  have q1 : q.cfg = r.cfg := by rw [← hq, cfg_pduArrived]; rfl
  have q2 : q.segs = r.segs := by rw [← hq, segs_pduArrived]; rfl
  have q3 : q.tempFile = r.tempFile := by rw [← hq, tempFile_pduArrived]; rfl
  have hmq : q.cfg.mode = .Acknowledged := by rw [q1]; exact hmode
  generalize hy : emit { prepareAckEof { q with condition := e.cond } with checksum := some e.checksum } .eofRecv = y
  have y1 : y.recvState = .ReceiveData := by rw [← hy, ← hq]; exact hrd
  have y2 : y.md = some m := by rw [← hy, ← hq]; exact hmd
  have y4 : y.checksum = some (fileChecksum m.cksumType src) := by rw [← hy, ← he3]; rfl
  have y5 : y.condition = .NoError := by rw [← hy, ← he1]; rfl
  have y6 : y.cfg = r.cfg := by rw [← hy]; exact q1
  have y7 : y.state = .Active := by rw [← hy, ← hq]; exact hact
  have y8 : y.fs = fs0 := by rw [← hy, ← hq]; exact hfs
  have y9 : DataOk src y := by rw [← hy]; exact dataOk_frame (dataOk_frame hdata q2 q3) rfl rfl
  have ysegs : y.segs = r.segs := by rw [← hy]; exact q2
  have hcb : (y.condition == Condition.NoError) = true := by rw [y5]; rfl
  have hcs : checkFileSize y e.fileSize t = y := by rw [he2]; exact C02_size_check_passes src y t y9
  have hack : ackEof q e t =
      (if y.condition == Condition.NoError then
        scheduleNaks (checkFinished { checkFileSize y e.fileSize t with fileSize := some e.fileSize } t) e.fileSize t
       else cancelInner y t) := by
    rw [← hy]; rfl
  have e0 : recvStep r t (.pdu p) = ackEof q e t := by
    rw [recvStep_eq]
    simp only [hnt, Bool.false_eq_true, if_false, Recv.processPdu, hq, Recv.processPduBody, hmq, hp]
  have e1 : recvStep r t (.pdu p) = scheduleNaks (checkFinished { y with fileSize := some e.fileSize } t) e.fileSize t := by
    rw [e0, hack, hcs]
    simp only [hcb, if_true]
  generalize hz : ({ y with fileSize := some e.fileSize } : Recv.State) = z at e1
  have z1 : z.recvState = .ReceiveData := by rw [← hz]; exact y1
  have z2 : z.md = some m := by rw [← hz]; exact y2
  have z3 : z.fileSize = some src.length := by rw [← hz, ← he2]
  have z4 : z.checksum = some (fileChecksum m.cksumType src) := by rw [← hz]; exact y4
  have z5 : z.condition = .NoError := by rw [← hz]; exact y5
  have z6 : z.cfg = r.cfg := by rw [← hz]; exact y6
  have z7 : z.state = .Active := by rw [← hz]; exact y7
  have z8 : z.fs = fs0 := by rw [← hz]; exact y8
  have z9 : DataOk src z := by rw [← hz]; exact dataOk_frame y9 rfl rfl
  have zsegs : z.segs = r.segs := by rw [← hz]; exact ysegs
  -- something is missing: nothing is finalised, the queue is rebuilt
  have hc' : Seg.isComplete z.segs src.length = false := by
    cases hc : Seg.isComplete z.segs src.length with
    | false => rfl
    | true =>
      exfalso
      obtain ⟨x, hx, hnx⟩ := hinc
      exact hnx (by rw [← zsegs]; exact (Seg.isComplete_iff z.segs src.length z9.inv).mp hc x hx)
  have hift : Recv.isFileTransfer z = true := by simp [Recv.isFileTransfer, z2, hft]
  have hnn : hasNaks z = true := by
    simp only [hasNaks, z2, z3, hc', Option.isNone_some, Bool.not_false, Bool.or_true]
  have hnoop : checkFinished z t = z := by
    simp only [checkFinished, hift, hnn, Bool.and_self, Bool.not_true, Bool.and_false, Bool.false_eq_true, if_false]
  have hdz : z.cfg.delay = 0 := by rw [z6]; exact hdl
  have e2 : recvStep r t (.pdu p) = { z with naks := getAllNaks z } := by
    rw [e1, hnoop]
    simp only [scheduleNaks, hnn, hdz, if_true, beq_self_eq_true]
  rw [e2]
  refine ⟨⟨by show z.cfg.mode = _; rw [z6]; exact hmode, z7, z1, z2, z3, z4, z5, dataOk_frame z9 rfl rfl, z8⟩, zsegs,
    (getAllNaks_congr (s := z) (s' := { z with naks := getAllNaks z }) rfl rfl rfl).symm, ?_, ?_, ?_, ?_, ?_, ?_⟩
  · rw [← hz, ← hy]; exact ⟨_, rfl⟩
  · show z.prompt = _; rw [← hz, ← hy, ← hq]; rfl
  · show z.delayed = _; rw [← hz, ← hy, ← hq]; rfl
  · show z.timer = _; rw [← hz, ← hy, ← hq]; rfl
  · show z.nakReceived = _; rw [← hz, ← hy, ← hq]; rfl
  · show z.received = _; rw [← hz, ← hy, ← hq]; rfl

/-- the ACK of the EOF goes out first -/
theorem recv_sends_ack_eof (r : Recv.State) (t : Nat) (a : Ack) (ha : r.state = .Active) (hrd : r.recvState = .ReceiveData)
    (hp : r.prompt = none) (hack : r.ack = some a) :
    recvStep r t .send = Recv.sendAckEof (clrR r) := by
  have hnt : ((clrR r).state == TransactionState.Terminated) = false := by
    show (r.state == TransactionState.Terminated) = false; rw [ha]; rfl
  have hns : ((clrR r).state == TransactionState.Suspended) = false := by
    show (r.state == TransactionState.Suspended) = false; rw [ha]; rfl
  have k1 : (clrR r).recvState = .ReceiveData := hrd
  have k2 : (clrR r).prompt = none := hp
  have k3 : (clrR r).ack = some a := hack
  have hhas : Recv.hasPduToSend (clrR r) = true := by
    simp only [Recv.hasPduToSend, hns, Bool.false_eq_true, if_false, k1, k3, Option.isSome_some, Bool.true_or]
  rw [recvStep_eq]
  simp only [hnt, Bool.false_eq_true, if_false, hhas, if_true, Recv.sendPdu, k2, Option.isSome_none, k1, k3, Option.isSome_some]

/-- the receiver's part of the EOF's arrival: the EOF is delivered at `t0`; at `t` the ACK and the rebuilt queue go out -/
def eofFlush (r : Recv.State) (t0 t : Nat) (p : Pdu) : Recv.State × List Pdu :=
  recvN ((recvStep r t0 (.pdu p)).naks.length + 1) (recvStep r t0 (.pdu p)) t

/-- **the EOF enters the NAK loop**: after the truthful EOF has arrived at a receiver that holds the Metadata and part of
the file, and the ACK of it and the NAKs have gone out, the receiver is in the loop's starting state - in
mid-recovery, nothing to transmit, the NAK counter running since `t` (counting at most `j`), the inactivity counter
at zero since the EOF's arrival -/
theorem eof_enters_loop {mx Ta Ti Tn : Nat} (src : Bytes) (m : Recv.Meta) (fs0 : Fs.FS) (r : Recv.State) (t0 t j : Nat)
    (p : Pdu) (e : Eof)
    (hmode : r.cfg.mode = .Acknowledged) (hact : r.state = .Active) (hrd : r.recvState = .ReceiveData)
    (hmd : r.md = some m) (hft : m.srcName.isEmpty = false) (hdata : DataOk src r)
    (hinc : ∃ x, x < src.length ∧ ¬ Seg.cov r.segs x) (hfs : r.fs = fs0) (hdl : r.cfg.delay = 0)
    (hpr : r.prompt = none) (hdel : r.delayed = []) (hrt : RT mx Ta Ti Tn r.timer) (hmax : 0 < mx)
    (hroom : (r.nakReceived == r.received) = false ∨ (r.timer.nak.update t).count ≠ r.timer.nak.max)
    (hj : (if (r.nakReceived == r.received) then (r.timer.nak.update t).count else 0) ≤ j)
    (hp : p.payload = .eof e) (he1 : e.cond = .NoError) (he2 : e.fileSize = src.length)
    (he3 : e.checksum = fileChecksum m.cksumType src) :
    RG src m fs0 (eofFlush r t0 t p).1 ∧ WN mx Ta Ti Tn (eofFlush r t0 t p).1 ∧ (eofFlush r t0 t p).1.segs = r.segs ∧
    NB t j (eofFlush r t0 t p).1 ∧ IB Ti t0 (max t0 t) (eofFlush r t0 t p).1.timer.inactivity := by
  obtain ⟨w1, w2, w3, ⟨a, w4⟩, w5, w6, w7, w8, w9⟩ :=
    eof_enters_recovery src m fs0 r t0 p e hmode hact hrd hmd hft hdata hinc hfs hdl hp he1 he2 he3
  generalize hr1 : recvStep r t0 (.pdu p) = r1 at w1 w2 w3 w4 w5 w6 w7 w8 w9
  have hwf : eofFlush r t0 t p = recvN (r1.naks.length + 1) r1 t := by unfold eofFlush; rw [hr1]
  rw [hwf]
  simp only [recvN]
  -- the ACK of the EOF
  have hs1 := recv_sends_ack_eof r1 t a w1.act w1.rd (by rw [w5]; exact hpr) w4
  generalize hr2 : recvStep r1 t .send = r2 at hs1
  have hk3 : (clrR r1).ack = some a := w4
  have e2 : r2 = Recv.sendPayload { clrR r1 with ack := none } (.ack a) := by
    rw [hs1]; simp only [Recv.sendAckEof, hk3]
  have r2naks : r2.naks = r1.naks := by rw [hs1, Recv.naks_sendAckEof]; rfl
  have r2timer : r2.timer = r1.timer := by rw [hs1, Recv.timer_sendAckEof]; rfl
  have r2same : SameData r2 r1 := by
    rw [hs1]
    exact ⟨by rw [cfg_sendAckEof]; rfl, by rw [state_sendAckEof]; rfl, by rw [recvState_sendAckEof]; rfl,
      by rw [md_sendAckEof]; rfl, by rw [fileSize_sendAckEof]; rfl, by rw [checksum_sendAckEof]; rfl,
      by rw [condition_sendAckEof]; rfl, by rw [segs_sendAckEof]; rfl, by rw [tempFile_sendAckEof]; rfl,
      by rw [fs_sendAckEof]; rfl⟩
  have r2rg : RG src m fs0 r2 := rg_of_same w1 r2same
  have hrt1 : RT mx Ta Ti Tn r1.timer := by rw [w7]; exact ⟨hrt.ack, cq_reset hrt.inactivity t0, hrt.nak⟩
  have r2nq : NQ mx Ta Ti Tn t r2 := by
    refine ⟨r2rg.act, r2rg.rd, ?_, ?_, by rw [r2timer]; exact hrt1, ?_⟩
    · rw [hs1, Recv.prompt_sendAckEof]; show r1.prompt = none; rw [w5]; exact hpr
    · rw [e2, Recv.ack_sendPayload]
    · unfold NakRoom
      have hnr : r2.nakReceived = r.nakReceived := by rw [hs1, nakReceived_sendAckEof]; show r1.nakReceived = _; exact w8
      have hrc : r2.received = r.received := by rw [hs1, received_sendAckEof]; show r1.received = _; exact w9
      have hnk : r2.timer.nak = r.timer.nak := by rw [r2timer, w7]
      rw [hnr, hrc, hnk]
      refine ⟨by rw [hrt.nak.2.2.1]; exact hmax, ?_⟩
      rcases hroom with h | h
      · exact Or.inl h
      · right; rw [max_update]; exact h
  have r2len : r1.naks.length = r2.naks.length := by rw [r2naks]
  rw [r2len]
  obtain ⟨f1, f2, f3, _, _⟩ := recv_flushes_naks r2.naks.length r2 t r2nq (Nat.le_refl _)
  have hd2 : r2.delayed = [] := by rw [hs1, delayed_sendAckEof]; show r1.delayed = []; rw [w6]; exact hdel
  -- the queue is not empty
  have hne : r2.naks ≠ [] := by
    rw [r2naks, w3]
    obtain ⟨c1, c2, _⟩ := C08_exact r1 src.length w1.data.inv w1.size
    obtain ⟨x, hx, hnx⟩ := hinc
    obtain ⟨q, hq, _⟩ := (c2 x).mpr ⟨hx, by rw [w2]; exact hnx⟩
    rw [c1]
    intro hnil
    have : q ∈ ([] : List (Nat × Nat)) := by rw [← hnil]; exact List.mem_append_right _ hq
    cases this
  have hnr2 : r2.nakReceived = r.nakReceived := by rw [hs1, nakReceived_sendAckEof]; show r1.nakReceived = _; exact w8
  have hrc2 : r2.received = r.received := by rw [hs1, received_sendAckEof]; show r1.received = _; exact w9
  have hnk2 : r2.timer.nak = r.timer.nak := by rw [r2timer, w7]
  have hnc : NC t (if (r.nakReceived == r.received) then (r.timer.nak.update t).count else 0) (recvN r2.naks.length r2 t).1 ∧
      (recvN r2.naks.length r2 t).1.received = r2.received := by
    cases hl : r2.naks.length with
    | zero => exact absurd (List.eq_nil_of_length_eq_zero hl) hne
    | succ k =>
      simp only [recvN]
      obtain ⟨n1, n2⟩ := nc_first r2 t r2nq hne
      rw [hnr2, hrc2, hnk2] at n1
      obtain ⟨b1, b2⟩ := nc_recvN k _ t _ (recv_sends_nak _ t r2nq hne).1 n1
      exact ⟨b1, b2.trans n2⟩
  have hin : (recvN r2.naks.length r2 t).1.timer.inactivity = r2.timer.inactivity := inact_recvN _ _ t r2nq
  refine ⟨rg_of_same r2rg f3, ⟨f2.pr, f2.ack, f2.rt, by rw [delayed_recvN]; exact hd2, f1⟩,
    (f3.2.2.2.2.2.2.2.1.trans r2same.2.2.2.2.2.2.2.1).trans w2,
    ⟨hnc.1.start, hnc.1.run, by rw [hnc.1.count]; exact hj, by rw [hnc.1.seen]; exact Nat.le_refl _⟩, ?_⟩
  rw [hin, r2timer, w7]
  exact ⟨by show 0 * Ti ≤ t0 - t0; omega, Nat.le_refl _, Nat.le_max_left _ _⟩

/-- **C02 (from the EOF to the delivery, under loss).**  A receiver that holds the Metadata and part of the file gets the
truthful EOF at `t0`, transmits the ACK and its NAKs at `t`, and then goes through rounds of its NAK loop over a link
that loses whatever it likes, under the fairness condition of `Fair` counted from there.  Once every missing byte has
got through in some round the delivery has succeeded: Finished / NoError / Complete / Retained. -/
theorem C02_from_eof_lossy_rounds {mx Ta Ti Tn : Nat} (src : Bytes) (m : Recv.Meta) (fs0 : Fs.FS) (r : Recv.State)
    (t0 t j : Nat) (p : Pdu) (e : Eof) (rounds : List (Nat × List (Nat × Pdu)))
    (hmode : r.cfg.mode = .Acknowledged) (hact : r.state = .Active) (hrd : r.recvState = .ReceiveData)
    (hmd : r.md = some m) (hft : m.srcName.isEmpty = false) (hdata : DataOk src r)
    (hinc : ∃ x, x < src.length ∧ ¬ Seg.cov r.segs x) (hfs0 : r.fs = fs0) (hdl : r.cfg.delay = 0)
    (hpr : r.prompt = none) (hdel : r.delayed = []) (hrt : RT mx Ta Ti Tn r.timer) (hmax : 0 < mx)
    (hroom : (r.nakReceived == r.received) = false ∨ (r.timer.nak.update t).count ≠ r.timer.nak.max)
    (hj : (if (r.nakReceived == r.received) then (r.timer.nak.update t).count else 0) ≤ j)
    (hp : p.payload = .eof e) (he1 : e.cond = .NoError) (he2 : e.fileSize = src.length)
    (he3 : e.checksum = fileChecksum m.cksumType src)
    (hfs : (fs0.writeFile (Fs.relOf m.dstName) src).isSome = true)
    (hf : Fair src mx Ti Tn t j t0 (eofFlush r t0 t p).1 rounds)
    (hcov : ∀ x, x < src.length → ¬ Seg.cov r.segs x → ∃ rd ∈ rounds, carries (rd.2.map (·.2)) x) :
    FG (nakRounds (eofFlush r t0 t p).1 rounds) := by
  obtain ⟨a1, a2, a3, a4, a5⟩ := eof_enters_loop src m fs0 r t0 t j p e hmode hact hrd hmd hft hdata hinc hfs0 hdl hpr hdel
    hrt hmax hroom hj hp he1 he2 he3
  exact C02_lossy_rounds_fair rounds _ t j t0 a1 a2 hmax a4 a5 hft hfs (by rw [a3]; exact hinc) hf
    (fun x hx hnx => hcov x hx (by rw [← a3]; exact hnx))

/-! ### the premises are satisfiable -/

/-- the receiver after the Metadata and the first segment; the second segment was lost and the EOF is still to come -/
def exRE : Recv.State :=
  (recvRun (Recv.new cfgL [([], .dir)] 0) [(0, .pdu exOut[0]!), (0, .pdu exOut[1]!)]).1

example : FG (nakRounds (eofFlush exRE 5 6 exOut[3]!).1
    [(1000000006, []), (2000000100, [(2000000105, ⟨default, .fileData 4 [5, 6]⟩)])]) := by
  have hmd : exRE.md = some { srcName := [115], dstName := [100], fileSize := 6, closure := false, cksumType := .Null, requests := [] } := by
    rfl
  have hsegs : exRE.segs = [(0, 4)] := by decide
  have htmp : exRE.tempFile = some [1, 2, 3, 4] := by decide
  have hri : RI cfgL.max (cfgL.ta * 1000000000) (cfgL.ti * 1000000000) (cfgL.tn * 1000000000) exRE :=
    ri_run _ _ (ri_new cfgL [([], .dir)] 0 (by decide) (by decide) (by decide) ⟨by decide, by decide, by decide⟩)
  have t1 : Truthful Send.exFile 4 [5, 6] := ⟨by decide, fun i hi => by
    have : i = 0 ∨ i = 1 := by simp only [List.length_cons, List.length_nil] at hi; omega
    rcases this with rfl | rfl <;> rfl⟩
  have hdata : DataOk Send.exFile exRE := by
    refine ⟨?_, ?_, ?_, ?_⟩
    · rw [hsegs]; exact ⟨fun sg hsg => by simp at hsg; subst hsg; decide, by simp⟩
    · rw [hsegs]; intro sg hsg; simp at hsg; subst hsg; decide
    · rw [htmp]; decide
    · rw [hsegs, htmp]
      intro x hx
      obtain ⟨sg, hsg, h1, h2⟩ := hx
      simp at hsg; subst hsg
      have : x = 0 ∨ x = 1 ∨ x = 2 ∨ x = 3 := by simp only at h1 h2; omega
      rcases this with rfl | rfl | rfl | rfl <;> rfl
  have hinc : ∃ x, x < Send.exFile.length ∧ ¬ Seg.cov exRE.segs x := by
    rw [hsegs]
    refine ⟨4, by decide, ?_⟩
    rintro ⟨sg, hsg, h1, h2⟩
    simp at hsg; subst hsg
    simp only at h1 h2; omega
  have he : ∃ e, (exOut[3]!).payload = .eof e ∧ e.cond = .NoError ∧ e.fileSize = 6 ∧ e.checksum = 0 := ⟨_, rfl, rfl, rfl, rfl⟩
  obtain ⟨e, hp, he1, he2, he3⟩ := he
  refine C02_from_eof_lossy_rounds (mx := 4) (Ta := 1000000000) (Ti := 3000000000) (Tn := 1000000000) Send.exFile _ exRE.fs exRE
    5 6 0 exOut[3]! e _ (by decide) (by decide) (by decide) hmd (by decide) hdata hinc rfl (by decide) (by decide) (by decide)
    hri.inv.rt (by decide) (Or.inl (by decide)) (by decide) hp he1 he2 (by rw [he3]; rfl) (by decide) ?_ ?_
  · simp only [Fair]
    refine Or.inr ⟨by decide, by decide, by decide, by decide, by decide, (fun x hx => by cases hx), ?_⟩
    refine Or.inr ⟨by decide, by decide, by decide, by decide, by decide, ?_, trivial⟩
    intro x hx
    simp only [List.mem_singleton] at hx
    subst hx
    exact Or.inl ⟨4, [5, 6], rfl, t1⟩
  · intro x hx hnx
    rw [hsegs] at hnx
    have hx' : x < 6 := hx
    have : x = 4 ∨ x = 5 := by
      have : ¬ (0 ≤ x ∧ x < 4) := fun hc => hnx ⟨(0, 4), by simp, hc.1, hc.2⟩
      omega
    refine ⟨_, List.mem_cons_of_mem _ (List.mem_cons_self ..), ⟨_, List.mem_cons_self .., 4, [5, 6], rfl, ?_, ?_⟩⟩
    · rcases this with rfl | rfl <;> decide
    · rcases this with rfl | rfl <;> decide

end Cfdp.Loop

#print axioms Cfdp.Loop.C02_from_eof_lossy_rounds
#print axioms Cfdp.Loop.C02_eof_repeated
#print axioms Cfdp.Loop.lost_finisheds_round
#print axioms Cfdp.Loop.C02_lost_finisheds_round
#print axioms Cfdp.Loop.recv_finished_repeated
#print axioms Cfdp.Loop.C02_lost_eofs_round
#print axioms Cfdp.Loop.C02_two_party_nak_loop
#print axioms Cfdp.Loop.C02_lossy_rounds
#print axioms Cfdp.Loop.C02_lossy_rounds_fair
#print axioms Cfdp.Loop.C02_lost_eof_round
#print axioms Cfdp.Loop.C02_lost_finished_round
#print axioms Cfdp.Loop.C02_lost_metadata_round
#print axioms Cfdp.Loop.C02_timer_round
#print axioms Cfdp.Loop.C02_full_round
#print axioms Cfdp.Loop.C02_full_round_after_wake
#print axioms Cfdp.Loop.C02_sender_answers_nak
#print axioms Cfdp.Loop.C02_receiver_recovers
#print axioms Cfdp.Loop.C02_recovery_round
#print axioms Cfdp.Net.C02_two_party_completes
#print axioms Cfdp.Loop.C02_recv_completes
#print axioms Cfdp.Loop.C02_send_completes
#print axioms Cfdp.Net.C02_two_party_no_integrity_fault
#print axioms Cfdp.Loop.C02_no_integrity_fault
#print axioms Cfdp.Recv.C02_size_check_passes
#print axioms Cfdp.Seg.C02_round_completes
#print axioms Cfdp.Seg.C02_gaps_answered
#print axioms Cfdp.Recv.C02_finishes_when_complete
#print axioms Cfdp.Recv.C02_never_waits_complete
#print axioms Cfdp.Recv.C02_complete_is_success
