import Cfdp.Props.C02e
set_option linter.unusedSimpArgs false

/-! # C02: from the completion into the closing handshake

The NAK loop ends when the last missing byte arrives (`FG`).  This file shows what state that leaves - still active, the
Finished PDU due, the timers as they were (`complete_state`, `completion_state`) - and that the next transmission
puts the receiver in the starting state of the Finished retransmission loop of Props/C02z.lean
(`completion_enters_wait`): so a delivery that completes is followed, under repeated loss of the Finished PDU or its
ACK, by `C02_lost_finisheds_round`. -/
namespace Cfdp.Recv
open Cfdp.Codec Cfdp.Gen Cfdp.Timer

/-- `C02_complete_is_success`, the rest of the state: the transaction stays active, only the NAK timer is touched -/
theorem complete_state (src : Bytes) (s : State) (now : Nat) (m : Meta)
    (hr : s.recvState = .ReceiveData) (hmd : s.md = some m)
    (hft : m.srcName.isEmpty = false) (hn : s.fileSize = some src.length)
    (hck : s.checksum = some (fileChecksum m.cksumType src)) (hd : DataOk src s)
    (hc : Seg.isComplete s.segs src.length = true)
    (hfs : (s.fs.writeFile (Fs.relOf m.dstName) src).isSome = true) :
    (checkFinished s now).state = s.state ∧ (checkFinished s now).timer.ack = s.timer.ack ∧
    (checkFinished s now).timer.inactivity = s.timer.inactivity := by
  have hsrc : s.tempFile.getD [] = src := dataOk_complete hd hc
  have hnn : hasNaks s = false := by
    simp only [hasNaks, hmd, hn, hc, Option.isNone_some, Bool.not_true, Bool.or_self]
  have hift : isFileTransfer s = true := by simp [isFileTransfer, hmd, hft]
  have hg : (s.recvState == RecvState.ReceiveData && s.md.isSome && eofReceived s &&
      !(isFileTransfer s && hasNaks s)) = true := by
    simp [hr, hmd, eofReceived, hn, hnn]
  obtain ⟨fs', hfs'⟩ := Option.isSome_iff_exists.mp hfs
  have hA : isFileTransfer { s with delivery := DeliveryCode.Complete } = true := hift
  have hv : verifyStage { s with delivery := DeliveryCode.Complete } now
      = ({ s with delivery := DeliveryCode.Complete, tempFile := some src }, true) := by
    simp only [verifyStage, hck, hmd, hsrc, Option.getD_some, beq_self_eq_true, Bool.not_true, Bool.false_eq_true, if_false]
  have hcp : copyStage { s with delivery := DeliveryCode.Complete, tempFile := some src }
      = ({ s with delivery := DeliveryCode.Complete, tempFile := none, fs := fs', fileStatus := .Retained }, true) := by
    simp only [copyStage, finalizeFile, hmd, Option.getD_some, hfs', if_true]
  have hfp : finalizeFilePart { s with delivery := DeliveryCode.Complete } now
      = ({ s with delivery := DeliveryCode.Complete, tempFile := none, fs := fs', fileStatus := .Retained }, true) := by
    simp only [finalizeFilePart, hA, if_true, hv, Bool.not_true, Bool.false_eq_true, if_false, hcp]
  have hdc : (if s.md.isNone || (isFileTransfer s && hasNaks s) then DeliveryCode.Incomplete else DeliveryCode.Complete)
      = DeliveryCode.Complete := by simp [hmd, hnn]
  have hne : (FileStatusCode.Retained == FileStatusCode.FileStoreRejection) = false := by decide
  simp only [checkFinished, hg, if_true, finalizeReceive, hdc, hfp, Bool.not_true, Bool.false_eq_true, if_false, hne,
    prepareFinished, emit]
  refine ⟨?_, ?_, ?_⟩ <;> first | rfl | trivial | (simp only [hmd]; first | rfl | trivial)

end Cfdp.Recv

namespace Cfdp.Loop
open Cfdp.Codec Cfdp.Gen Cfdp.Timer Cfdp.Recv Cfdp.Send

/-- **the state a completing delivery leaves.**  The file-data PDU that completes the file arrives at a receiver in
mid-recovery with nothing to transmit: the receiver is still active, in the Finished phase with the outcome
NoError / Complete, the Finished PDU saying so is due, nothing else is pending, the positive-ACK counter is as it was
and the inactivity counter starts again. -/
theorem completion_state {mx Ta Ti Tn : Nat} {src : Bytes} {m : Recv.Meta} {fs0 : Fs.FS} {r : Recv.State}
    (h : RG src m fs0 r) (w : WN mx Ta Ti Tn r) (t : Nat) (p : Pdu) (off : Nat) (d : Bytes)
    (hp : p.payload = .fileData off d) (ht : Truthful src off d)
    (hft : m.srcName.isEmpty = false) (hfs : (fs0.writeFile (Fs.relOf m.dstName) src).isSome = true)
    (hfg : FG (recvStep r t (.pdu p))) :
    (recvStep r t (.pdu p)).state = .Active ∧ (recvStep r t (.pdu p)).cfg = r.cfg ∧
    (recvStep r t (.pdu p)).prompt = none ∧ (recvStep r t (.pdu p)).ack = none ∧ (recvStep r t (.pdu p)).delayed = [] ∧
    (∃ f, (recvStep r t (.pdu p)).finished = some (f, true) ∧ f.cond = .NoError ∧ f.delivery = .Complete) ∧
    RT mx Ta Ti Tn (recvStep r t (.pdu p)).timer ∧ (recvStep r t (.pdu p)).timer.ack = r.timer.ack ∧
    (recvStep r t (.pdu p)).timer.inactivity = r.timer.inactivity.reset t := by
  have hrt := rt_recvStep w.rt t (.pdu p)
  have e1 := rg_step_eq h t p off d hp
  generalize hq : pduArrived (clrR r) t = q at e1
  have q1 : q.cfg = r.cfg := by rw [← hq, cfg_pduArrived]; rfl
  have q2 : q.segs = r.segs := by rw [← hq, segs_pduArrived]; rfl
  have q3 : q.tempFile = r.tempFile := by rw [← hq, tempFile_pduArrived]; rfl
  generalize hy : emit (storeFileData q off d) (.fileSegmentRecv off d.length) = y at e1
  have y1 : y.recvState = .ReceiveData := by
    rw [← hy, recvState_emit, recvState_storeFileData, ← hq, recvState_pduArrived]; exact h.rd
  have y2 : y.md = some m := by rw [← hy, md_emit, md_storeFileData, ← hq, md_pduArrived]; exact h.md
  have y3 : y.fileSize = some src.length := by
    rw [← hy, fileSize_emit, fileSize_storeFileData, ← hq, fileSize_pduArrived]; exact h.size
  have y4 : y.checksum = some (fileChecksum m.cksumType src) := by
    rw [← hy, Recv.checksum_emit, checksum_storeFileData, ← hq, Recv.checksum_pduArrived]; exact h.ck
  have y5 : y.condition = .NoError := by
    rw [← hy, Recv.condition_emit, condition_storeFileData, ← hq, Recv.condition_pduArrived]; exact h.cond
  have y6 : y.cfg = r.cfg := by rw [← hy, cfg_emit, cfg_storeFileData, q1]
  have y7 : y.state = .Active := by
    rw [← hy, Recv.state_emit, state_storeFileData, ← hq, Recv.state_pduArrived]; exact h.act
  have y8 : y.fs = fs0 := by rw [← hy, fs_emit, fs_storeFileData, ← hq, fs_pduArrived]; exact h.fs
  have dq : DataOk src q := dataOk_frame h.data q2 q3
  have y9 : DataOk src y := by
    rw [← hy]
    exact dataOk_frame (dataOk_storeFileData dq off d ht) (segs_emit _ _) (tempFile_emit _ _)
  have f1 : y.prompt = none := by
    rw [← hy, Recv.prompt_emit, prompt_storeFileData, ← hq, Recv.prompt_pduArrived]; exact w.pr
  have f2 : y.ack = none := by
    rw [← hy, Recv.ack_emit, ack_storeFileData, ← hq, Recv.ack_pduArrived]; exact w.ack
  have f3 : y.delayed = [] := by
    rw [← hy, delayed_emit, delayed_storeFileData, ← hq, delayed_pduArrived]; exact w.del
  have f5 : y.timer = { r.timer with inactivity := r.timer.inactivity.reset t } := by
    rw [← hy, Recv.timer_emit, timer_storeFileData, ← hq]; rfl
  -- the file is complete: otherwise the receiver would still be collecting
  have hc : Seg.isComplete y.segs src.length = true := by
    cases hcc : Seg.isComplete y.segs src.length with
    | true => rfl
    | false =>
      exfalso
      have hnoop : checkFinished y t = y := by
        have hift : Recv.isFileTransfer y = true := by simp [Recv.isFileTransfer, y2, hft]
        have hnn : hasNaks y = true := by
          simp only [hasNaks, y2, y3, hcc, Option.isNone_some, Bool.not_false, Bool.or_true]
        simp only [checkFinished, hift, hnn, Bool.and_self, Bool.not_true, Bool.and_false, Bool.false_eq_true, if_false]
      have := hfg.1
      rw [e1, hnoop, y1] at this
      cases this
  have hfs' : (y.fs.writeFile (Fs.relOf m.dstName) src).isSome = true := by rw [y8]; exact hfs
  obtain ⟨_, _, _, _, _, ⟨f, c6, c7, c8, _⟩, _⟩ := C02_complete_is_success src y t m y1 y5 y2 hft y3 y4 y9 hc hfs'
  obtain ⟨s1, s2, s3⟩ := Recv.complete_state src y t m y1 y2 hft y3 y4 y9 hc hfs'
  rw [e1] at hrt ⊢
  refine ⟨s1.trans y7, by rw [cfg_checkFinished]; exact y6, by rw [Recv.prompt_checkFinished]; exact f1,
    by rw [Recv.ack_checkFinished]; exact f2, by rw [delayed_checkFinished]; exact f3, ⟨f, c6, c7, c8⟩, hrt, ?_, ?_⟩
  · rw [s2, f5]
  · rw [s3, f5]

/-- **the completion enters the closing handshake**: after the transmission that follows, the receiver waits for the ACK
of its Finished PDU in the starting state of the retransmission loop (`WF`): that PDU - carrying NoError / Complete -
has gone out, the positive-ACK counter runs since `t'` and the inactivity counter counts from the completing PDU -/
theorem completion_enters_wait {mx Ta Ti Tn : Nat} {src : Bytes} {m : Recv.Meta} {fs0 : Fs.FS} {r : Recv.State}
    (h : RG src m fs0 r) (w : WN mx Ta Ti Tn r) (t t' j : Nat) (p : Pdu) (off : Nat) (d : Bytes)
    (hp : p.payload = .fileData off d) (ht : Truthful src off d)
    (hft : m.srcName.isEmpty = false) (hfs : (fs0.writeFile (Fs.relOf m.dstName) src).isSome = true)
    (hfg : FG (recvStep r t (.pdu p))) (hj : (r.timer.ack.update t').count ≤ j) :
    ∃ f, f.cond = .NoError ∧ f.delivery = .Complete ∧
      (∃ hd, (recvStep (recvStep r t (.pdu p)) t' .send).sent = some ⟨hd, .finished f⟩) ∧
      WF .Finished f (recvStep (recvStep r t (.pdu p)) t' .send) ∧
      RT mx Ta Ti Tn (recvStep (recvStep r t (.pdu p)) t' .send).timer ∧
      AB t' j (recvStep (recvStep r t (.pdu p)) t' .send).timer.ack ∧
      IB Ti t (max t t') (recvStep (recvStep r t (.pdu p)) t' .send).timer.inactivity ∧
      (recvStep (recvStep r t (.pdu p)) t' .send).condition = .NoError := by
  obtain ⟨c1, c2, c3, c4, c5, ⟨f, c6, c7, c8⟩, c9, c10, c11⟩ := completion_state h w t p off d hp ht hft hfs hfg
  generalize hx : recvStep r t (.pdu p) = x at c1 c2 c3 c4 c5 c6 c9 c10 c11 hfg
  have hnt : ((clrR x).state == TransactionState.Terminated) = false := by
    show (x.state == TransactionState.Terminated) = false; rw [c1]; rfl
  have hns : ((clrR x).state == TransactionState.Suspended) = false := by
    show (x.state == TransactionState.Suspended) = false; rw [c1]; rfl
  have j1 : (clrR x).recvState = .Finished := hfg.1
  have j2 : (clrR x).prompt = none := c3
  have j3 : (clrR x).ack = none := c4
  have j4 : (clrR x).finished = some (f, true) := c6
  have hhas : Recv.hasPduToSend (clrR x) = true := by
    simp only [Recv.hasPduToSend, hns, Bool.false_eq_true, if_false, j1, j4]
  have e2 : recvStep x t' .send = Recv.sendFinished (clrR x) t' := by
    rw [recvStep_eq]
    simp only [hnt, Bool.false_eq_true, if_false, hhas, if_true, Recv.sendPdu, j2, Option.isSome_none, j1, j3, j4]
  have hsend : (Recv.sendFinished (clrR x) t') = Recv.setFinishedFlag (Recv.sendPayload
      { clrR x with timer := { (clrR x).timer with ack := (clrR x).timer.ack.restart t' } } (.finished f)) false := by
    simp only [Recv.sendFinished, j4]
  have hfl : (Recv.sendFinished (clrR x) t').finished = some (f, false) := by
    rw [hsend]; simp only [Recv.setFinishedFlag, Recv.finished_sendPayload, j4]
  have htm : (Recv.sendFinished (clrR x) t').timer = { (clrR x).timer with ack := (clrR x).timer.ack.restart t' } := by
    rw [hsend]; simp only [Recv.setFinishedFlag, Recv.finished_sendPayload, j4, Recv.timer_sendPayload]
  have hrt2 := rt_recvStep c9 t' .send
  rw [e2] at hrt2 ⊢
  refine ⟨f, c7, c8, ?_, ⟨?_, ?_, ?_, Or.inl rfl, ?_, ?_, hfl, ?_⟩, hrt2, ⟨?_, ?_, ?_⟩, ?_, ?_⟩
  · rw [hsend]; simp only [Recv.setFinishedFlag, Recv.finished_sendPayload, j4]; exact ⟨_, rfl⟩
  · rw [Recv.state_sendFinished]; exact c1
  · rw [Recv.cfg_sendFinished]; show x.cfg.mode = _; rw [c2]; exact h.mode
  · rw [Recv.recvState_sendFinished]; exact hfg.1
  · rw [Recv.prompt_sendFinished]; exact c3
  · rw [Recv.ack_sendFinished]; exact c4
  · rw [Recv.delayed_sendFinished]; exact c5
  · rw [htm]; rfl
  · rw [htm]; rfl
  · rw [htm]
    show (x.timer.ack.restart t').count ≤ j
    rw [c10]; exact hj
  · rw [htm]
    show IB Ti t (max t t') x.timer.inactivity
    rw [c11]
    exact ⟨by show 0 * Ti ≤ t - t; omega, Nat.le_refl _, Nat.le_max_left _ _⟩
  · rw [Recv.condition_sendFinished]; exact hfg.2.1

/-- **C02 (from the completion to the end of both transactions, the Finished PDU lost again and again).**  The file-data PDU
that completes the file arrives at `t`; the Finished PDU goes out at `t'` and is lost, and so are its retransmissions
(or the sender's ACKs) - as long as the expiries of the receiver's positive-ACK timer stay below the limit and within
the inactivity limit (`FairT`, counted from `t'`), each is followed by a retransmission, and whichever of them reaches
the sender (in whatever phase it waits) ends it with NoError, and its ACK ends the receiver - with the outcome
the receiver reported. -/
theorem C02_completion_then_lost_finisheds {mx Ta Ti Tn : Nat} {src : Bytes} {m : Recv.Meta} {fs0 : Fs.FS} {r : Recv.State}
    (s : Send.State) (h : RG src m fs0 r) (w : WN mx Ta Ti Tn r) (t t' j t1 t2 : Nat) (p : Pdu) (off : Nat) (d : Bytes)
    (ts : List Nat)
    (hsa : s.state = .Active) (hsm : s.cfg.mode = .Acknowledged) (hsp : s.prompt = none)
    (hp : p.payload = .fileData off d) (ht : Truthful src off d)
    (hft : m.srcName.isEmpty = false) (hfs : (fs0.writeFile (Fs.relOf m.dstName) src).isSome = true)
    (hfg : FG (recvStep r t (.pdu p))) (hj : (r.timer.ack.update t').count ≤ j)
    (hf : FairT mx Ta Ti t' j t ts) :
    (finRounds (recvStep (recvStep r t (.pdu p)) t' .send) ts).2.length = ts.length ∧
    ∀ pf ∈ (finRounds (recvStep (recvStep r t (.pdu p)) t' .send) ts).2, ∃ pa,
      (sendStep (sendStep s t1 (.pdu pf)) t1 .send).sent = some pa ∧
      (sendStep (sendStep s t1 (.pdu pf)) t1 .send).state = .Terminated ∧
      (sendStep (sendStep s t1 (.pdu pf)) t1 .send).condition = .NoError ∧
      (recvStep (finRounds (recvStep (recvStep r t (.pdu p)) t' .send) ts).1 t2 (.pdu pa)).state = .Terminated ∧
      (recvStep (finRounds (recvStep (recvStep r t (.pdu p)) t' .send) ts).1 t2 (.pdu pa)).condition = .NoError := by
  obtain ⟨f, f1, _, _, k1, k2, k3, k4, hcond⟩ := completion_enters_wait h w t t' j p off d hp ht hft hfs hfg hj
  obtain ⟨c1, c2⟩ := C02_lost_finisheds_round s _ ts t' j t t1 t2 f hsa hsm hsp k1 k2 k3 k4 hf
  refine ⟨c1, ?_⟩
  intro pf hpf
  obtain ⟨pa, q1, q2, q3, q4, q5⟩ := c2 pf hpf
  exact ⟨pa, q1, q2, by rw [q3, f1], q4, by rw [q5, hcond]⟩

/-! ### the premises are satisfiable -/

/-- the file-data PDU carrying what `exRL` is missing -/
abbrev exLast : Pdu := ⟨default, .fileData 4 [5, 6]⟩

example : (finRounds (recvStep (recvStep exRL 10 (.pdu exLast)) 11 .send) [1000000011, 2000000100]).2.length = 2 ∧
    ∀ pf ∈ (finRounds (recvStep (recvStep exRL 10 (.pdu exLast)) 11 .send) [1000000011, 2000000100]).2,
      ∃ pa, (sendStep (sendStep exS4 2000000200 (.pdu pf)) 2000000200 .send).sent = some pa ∧
        (sendStep (sendStep exS4 2000000200 (.pdu pf)) 2000000200 .send).condition = .NoError := by
  have hmd : exRL.md = some { srcName := [115], dstName := [100], fileSize := 6, closure := false, cksumType := .Null, requests := [] } := by
    rfl
  have hsegs : exRL.segs = [(0, 4)] := by decide
  have htmp : exRL.tempFile = some [1, 2, 3, 4] := by decide
  have hri : RI cfgL.max (cfgL.ta * 1000000000) (cfgL.ti * 1000000000) (cfgL.tn * 1000000000) exRL :=
    ri_run _ _ (ri_new cfgL [([], .dir)] 0 (by decide) (by decide) (by decide) ⟨by decide, by decide, by decide⟩)
  have t1 : Truthful Send.exFile 4 [5, 6] := ⟨by decide, fun i hi => by
    have : i = 0 ∨ i = 1 := by simp only [List.length_cons, List.length_nil] at hi; omega
    rcases this with rfl | rfl <;> rfl⟩
  have hdata : DataOk Send.exFile exRL := by
    refine ⟨?_, ?_, ?_, ?_⟩
    · rw [hsegs]; exact ⟨fun sg hsg => by simp at hsg; subst hsg; decide, by simp⟩
    · rw [hsegs]; intro sg hsg; simp at hsg; subst hsg; decide
    · rw [htmp]; decide
    · rw [hsegs, htmp]
      intro x hx
      obtain ⟨sg, hsg, h1, h2⟩ := hx
      simp at hsg; subst hsg
      have : x = 0 ∨ x = 1 ∨ x = 2 ∨ x = 3 := by simp only at h1 h2; omega
      rcases this with rfl | rfl | rfl | rfl <;> rfl
  have hfg : FG (recvStep exRL 10 (.pdu exLast)) := ⟨by decide, by decide, by decide, by decide⟩
  obtain ⟨c1, c2⟩ := C02_completion_then_lost_finisheds (mx := 4) (Ta := 1000000000) (Ti := 3000000000) (Tn := 1000000000)
    (src := Send.exFile) (fs0 := exRL.fs) exS4
    ⟨by decide, by decide, by decide, hmd, by decide, by decide, by decide, hdata, rfl⟩
    ⟨by decide, by decide, hri.inv.rt, by decide, by decide⟩ 10 11 0 2000000200 2000000300 exLast 4 [5, 6]
    [1000000011, 2000000100] (by decide) (by decide) (by decide) rfl t1 (by decide) (by decide) hfg (by decide)
    ⟨by decide, by decide, by decide, by decide, by decide, by decide, by decide, by decide, by decide, by decide, trivial⟩
  refine ⟨c1, fun pf hpf => ?_⟩
  obtain ⟨pa, q1, _, q3, _⟩ := c2 pf hpf
  exact ⟨pa, q1, q3⟩

end Cfdp.Loop

#print axioms Cfdp.Loop.completion_enters_wait
#print axioms Cfdp.Loop.C02_completion_then_lost_finisheds
#print axioms Cfdp.Loop.C02_from_eof_lossy_rounds
#print axioms Cfdp.Loop.C02_eof_repeated
#print axioms Cfdp.Loop.lost_finisheds_round
#print axioms Cfdp.Loop.C02_lost_finisheds_round
#print axioms Cfdp.Loop.recv_finished_repeated
#print axioms Cfdp.Loop.C02_lost_eofs_round
#print axioms Cfdp.Loop.C02_two_party_nak_loop
#print axioms Cfdp.Loop.C02_lossy_rounds
#print axioms Cfdp.Loop.C02_lossy_rounds_fair
#print axioms Cfdp.Loop.C02_lost_eof_round
#print axioms Cfdp.Loop.C02_lost_finished_round
#print axioms Cfdp.Loop.C02_lost_metadata_round
#print axioms Cfdp.Loop.C02_timer_round
#print axioms Cfdp.Loop.C02_full_round
#print axioms Cfdp.Loop.C02_full_round_after_wake
#print axioms Cfdp.Loop.C02_sender_answers_nak
#print axioms Cfdp.Loop.C02_receiver_recovers
#print axioms Cfdp.Loop.C02_recovery_round
#print axioms Cfdp.Net.C02_two_party_completes
#print axioms Cfdp.Loop.C02_recv_completes
#print axioms Cfdp.Loop.C02_send_completes
#print axioms Cfdp.Net.C02_two_party_no_integrity_fault
#print axioms Cfdp.Loop.C02_no_integrity_fault
#print axioms Cfdp.Recv.C02_size_check_passes
#print axioms Cfdp.Seg.C02_round_completes
#print axioms Cfdp.Seg.C02_gaps_answered
#print axioms Cfdp.Recv.C02_finishes_when_complete
#print axioms Cfdp.Recv.C02_never_waits_complete
#print axioms Cfdp.Recv.C02_complete_is_success
