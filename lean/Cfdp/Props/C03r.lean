import Cfdp.Props.C03b

/-! # C03, receiver: a bound on the loop iterations and on the time of a receive transaction left alone -/
namespace Cfdp.Timer

/-- the receiver's three counters: counts within the configured limit, constant positive periods -/
structure RT (m Ta Ti Tn : Nat) (t : Timer) : Prop where
  ack : Send.CQ m Ta t.ack
  inactivity : Send.CQ m Ti t.inactivity
  nak : Send.CQ m Tn t.nak

end Cfdp.Timer

namespace Cfdp.Recv
open Cfdp.Codec Cfdp.Gen Cfdp.Timer Cfdp.Send

syntax "rt_go" "[" term,* "]" : tactic
set_option hygiene false in
macro_rules
  | `(tactic| rt_go [$ls,*]) => `(tactic|
      (repeat' (first
        | assumption
        | apply cq_reset
        | dsimp only
        | rframes_timer
        $[| apply $ls]*
        | (refine ⟨?_, ?_, ?_⟩ <;> dsimp only)
        | apply cq_restart
        | apply cq_pause
        | apply cq_update
        | apply cq_limitReached
        | apply cq_timeoutOccurred
        | refine RT.ack (Ta := Ta) (Ti := Ti) (Tn := Tn) ?_
        | refine RT.inactivity (Ta := Ta) (Ti := Ti) (Tn := Tn) ?_
        | refine RT.nak (Ta := Ta) (Ti := Ti) (Tn := Tn) ?_)) <;> done)

variable {s : State} {now : Nat} {m Ta Ti Tn : Nat}

theorem rt_shutdown (h : RT m Ta Ti Tn s.timer) : RT m Ta Ti Tn (shutdown s now).timer := by
  simp only [shutdown]; rt_go []
theorem rt_abandon (h : RT m Ta Ti Tn s.timer) : RT m Ta Ti Tn (abandon s now).timer := by
  simp only [abandon]; rt_go [rt_shutdown]
theorem rt_cancelInner (h : RT m Ta Ti Tn s.timer) : RT m Ta Ti Tn (cancelInner s now).timer := by
  simp only [cancelInner]
  repeat' split
  all_goals rt_go [rt_shutdown]
theorem rt_suspend (h : RT m Ta Ti Tn s.timer) : RT m Ta Ti Tn (suspend s now).timer := by
  simp only [suspend]; rt_go []
theorem rt_resume (h : RT m Ta Ti Tn s.timer) : RT m Ta Ti Tn (resume s now).timer := by
  simp only [resume]
  repeat' split
  all_goals rt_go []
theorem rt_handleFault (h : RT m Ta Ti Tn s.timer) (c : Condition) : RT m Ta Ti Tn (handleFault s c now).1.timer := by
  simp only [handleFault, dispatchFault]
  repeat' split
  all_goals rt_go [rt_cancelInner, rt_suspend, rt_abandon]
theorem rt_checkFileSize (h : RT m Ta Ti Tn s.timer) (n : Nat) : RT m Ta Ti Tn (checkFileSize s n now).timer := by
  simp only [checkFileSize]
  repeat' split
  all_goals rt_go [rt_handleFault]
theorem rt_sendFinished (h : RT m Ta Ti Tn s.timer) : RT m Ta Ti Tn (sendFinished s now).timer := by
  simp only [sendFinished]
  repeat' split
  all_goals rt_go []
theorem rt_sendNaksTimer (h : RT m Ta Ti Tn s.timer) : RT m Ta Ti Tn (sendNaksTimer s now).1.timer := by
  simp only [sendNaksTimer]
  repeat' split
  all_goals rt_go [rt_handleFault]
theorem rt_sendNaks (h : RT m Ta Ti Tn s.timer) : RT m Ta Ti Tn (sendNaks s now).timer := by
  simp only [sendNaks]
  repeat' split
  all_goals rt_go [rt_sendNaksTimer]
theorem rt_sendPdu (h : RT m Ta Ti Tn s.timer) : RT m Ta Ti Tn (sendPdu s now).timer := by
  simp only [sendPdu, answerPrompt]
  repeat' split
  all_goals rt_go [rt_sendNaks, rt_sendFinished]
theorem rt_finalizeFilePart (h : RT m Ta Ti Tn s.timer) : RT m Ta Ti Tn (finalizeFilePart s now).1.timer := by
  simp only [finalizeFilePart, verifyStage, copyStage]
  repeat' split
  all_goals rt_go [rt_handleFault]
theorem rt_finalizeReceive (h : RT m Ta Ti Tn s.timer) : RT m Ta Ti Tn (finalizeReceive s now).1.timer := by
  simp only [finalizeReceive]
  repeat' split
  all_goals rt_go [rt_handleFault, rt_finalizeFilePart]
theorem rt_checkFinished (h : RT m Ta Ti Tn s.timer) : RT m Ta Ti Tn (checkFinished s now).timer := by
  simp only [checkFinished]
  repeat' split
  all_goals rt_go [rt_finalizeReceive]
theorem rt_immediateNak (h : RT m Ta Ti Tn s.timer) (a b : Nat) : RT m Ta Ti Tn (immediateNak s a b now).timer := by
  simp only [immediateNak]
  repeat' split
  all_goals rt_go []
theorem rt_ackFileData (h : RT m Ta Ti Tn s.timer) (off : Nat) (d : Bytes) : RT m Ta Ti Tn (ackFileData s off d now).timer := by
  simp only [ackFileData]
  rt_go [rt_checkFinished, rt_immediateNak]
theorem rt_ackEof (h : RT m Ta Ti Tn s.timer) (e : Eof) : RT m Ta Ti Tn (ackEof s e now).timer := by
  simp only [ackEof]
  repeat' split
  all_goals rt_go [rt_checkFinished, rt_checkFileSize, rt_cancelInner]
theorem rt_unackFinish (h : RT m Ta Ti Tn s.timer) : RT m Ta Ti Tn (unackFinish s now).timer := by
  simp only [unackFinish]
  repeat' split
  all_goals rt_go [rt_finalizeReceive, rt_shutdown]
theorem rt_unackEof (h : RT m Ta Ti Tn s.timer) (e : Eof) : RT m Ta Ti Tn (unackEof s e now).timer := by
  simp only [unackEof, unackEofNoError, unackComplete, unackCheckMissing]
  repeat' split
  all_goals rt_go [rt_unackFinish, rt_handleFault, rt_checkFileSize, rt_cancelInner]
theorem rt_pduArrived (h : RT m Ta Ti Tn s.timer) : RT m Ta Ti Tn (pduArrived s now).timer := by
  simp only [pduArrived]; rt_go []
theorem rt_processPdu (h : RT m Ta Ti Tn s.timer) (p : Pdu) : RT m Ta Ti Tn (processPdu s p now).1.timer := by
  have h0 := rt_pduArrived (now := now) h
  simp only [processPdu]
  generalize pduArrived s now = t at h0
  simp only [processPduBody]
  cases hpl : p.payload <;> cases hm : t.cfg.mode <;> dsimp only
  all_goals (repeat' split)
  all_goals rt_go [rt_ackFileData, rt_ackEof, rt_unackEof, rt_checkFinished, rt_shutdown]
theorem rt_handleInactivity (h : RT m Ta Ti Tn s.timer) : RT m Ta Ti Tn (handleInactivity s now).1.timer := by
  simp only [handleInactivity]
  repeat' split
  all_goals rt_go [rt_abandon, rt_handleFault]
theorem rt_handleAckTimer (h : RT m Ta Ti Tn s.timer) (b : Bool) : RT m Ta Ti Tn (handleAckTimer s now b).timer := by
  simp only [handleAckTimer]
  repeat' split
  all_goals rt_go [rt_abandon, rt_handleFault, rt_shutdown]
theorem rt_handleTimeoutMain (h : RT m Ta Ti Tn s.timer) : RT m Ta Ti Tn (handleTimeoutMain s now).timer := by
  have h1 : RT m Ta Ti Tn (handleInactivity (handleDelayed s now) now).1.timer :=
    rt_handleInactivity (by rw [timer_handleDelayed]; exact h)
  simp only [handleTimeoutMain]
  generalize (handleInactivity (handleDelayed s now) now) = r at h1
  repeat' split
  all_goals first
    | exact h
    | exact h1
    | (apply rt_handleAckTimer; rt_go [])
    | rt_go []


theorem rt_handleTimeout (h : RT m Ta Ti Tn s.timer) : RT m Ta Ti Tn (handleTimeout s now).timer := by
  simp only [handleTimeout, unackFinishedLimit]
  repeat' split
  all_goals rt_go [rt_shutdown, rt_handleTimeoutMain]

end Cfdp.Recv

namespace Cfdp.Recv
open Cfdp.Codec Cfdp.Gen Cfdp.Timer Cfdp.Send

/-! ### the wake-up potential -/

/-- a NAK-timer wake-up that changes nothing but the request queue is still to come: the timer runs,
nothing is queued, and either the next NAK will reset the count or the count is at its limit -/
def nakE (s : State) : Nat :=
  if !s.timer.nak.paused && s.naks.isEmpty && (s.nakReceived != s.received || s.timer.nak.room == 0) then 1 else 0

/-- NAK-timer wake-ups still possible while collecting -/
def nakP (s : State) : Nat :=
  (if s.nakReceived != s.received then 2 * s.timer.nak.max + 4 else 2 * s.timer.nak.room) + nakE s

/-- the NAK timer runs although the transaction has left the collecting phase (the next wake-up stops it) -/
def nakU (s : State) : Nat := if s.timer.nak.paused then 0 else 1

/-- a Prompt still to be answered (answering a Prompt(NAK) after the collecting phase starts the NAK
timer once more) -/
def promptN (s : State) : Nat := if s.prompt.isSome then 1 else 0

/-- an upper bound on the timer wake-ups (with something expired) a receive transaction can still go
through without hearing from its peer or its user -/
def phi (s : State) : Nat :=
  if s.state == .Active then
    (match s.recvState with
     | .ReceiveData => 5 + 2 * (s.timer.ack.max + s.timer.inactivity.max) + 2 * s.timer.inactivity.room + s.delayed.length + nakP s
     | .Finished => 4 + 2 * (s.timer.ack.max + s.timer.inactivity.max) + 2 * s.timer.ack.room + 2 * s.timer.inactivity.room
         + s.delayed.length + nakU s + promptN s
     | .Cancelled => 1 + 2 * s.timer.ack.room + 2 * s.timer.inactivity.room + s.delayed.length + nakU s + promptN s)
  else 0

theorem phi_inactive {s : State} (h : s.state ≠ .Active) : phi s = 0 := by
  simp only [phi]; rw [if_neg]; simpa using h

theorem phi_pos {s : State} (h : s.state = .Active) : 0 < phi s := by
  simp only [phi, h, beq_self_eq_true, if_true]
  split <;> omega

theorem nakE_le (s : State) : nakE s ≤ 1 := by unfold nakE; split <;> omega
theorem nakU_le (s : State) : nakU s ≤ 1 := by unfold nakU; split <;> omega
theorem promptN_le (s : State) : promptN s ≤ 1 := by unfold promptN; split <;> omega

/-- the lowest value the potential of a collecting / finished transaction can have, given its
limits and its pending delayed checks: more than any cancelled transaction with the same -/
def lowC (s : State) : Nat := 3 + 2 * (s.timer.ack.max + s.timer.inactivity.max) + s.delayed.length

theorem lowC_le (s : State) (h : s.state = .Active) (hr : s.recvState ≠ .Cancelled) : lowC s + 1 ≤ phi s := by
  simp only [phi, lowC, h, beq_self_eq_true, if_true]
  cases hrs : s.recvState with
  | ReceiveData => dsimp only; omega
  | Finished => dsimp only; omega
  | Cancelled => exact absurd hrs hr

end Cfdp.Recv

namespace Cfdp.Recv
open Cfdp.Codec Cfdp.Gen Cfdp.Timer Cfdp.Send

/-! ### faults -/

theorem phi_shutdown (s : State) (now : Nat) : phi (shutdown s now) = 0 := phi_inactive (by simp [shutdown])
theorem phi_abandon (s : State) (now : Nat) : phi (abandon s now) = 0 := phi_inactive (by simp [abandon, shutdown, emit])
theorem phi_suspend (s : State) (now : Nat) : phi (suspend s now) = 0 := phi_inactive (by simp [suspend, emit])

theorem phi_cancelInner (s : State) (now : Nat) : phi (cancelInner s now) + 1 ≤ lowC s := by
  have l2 : 2 ≤ lowC s := by simp only [lowC]; omega
  have hr1 := room_le_max s.timer.ack
  have hr2 := room_le_max s.timer.inactivity
  simp only [cancelInner]
  repeat' split
  all_goals first
    | (have : phi (emit (shutdown { s with recvState := .Cancelled, timer := { s.timer with nak := s.timer.nak.pause now } } now)
          (.finished s.condition s.delivery s.fileStatus .Terminated s.status [])) = 0 := phi_inactive (by simp [shutdown, emit])
       simp only [shutdown, emit] at this ⊢
       omega)
    | (simp only [phi, lowC, emit, prepareFinished, nakU, promptN, Counter.pause]
       split
       · simp only [if_true]
         by_cases hp : s.prompt.isSome = true
         · simp only [hp, if_true]; omega
         · simp only [hp, Bool.false_eq_true, if_false]; omega
       · omega)

/-- limit faults are not configured to be ignored (C03's exemption) -/
def NoIgnore (s : State) : Prop :=
  handlerFor s .PositiveLimitReached ≠ .Ignore ∧ handlerFor s .InactivityDetected ≠ .Ignore ∧
  handlerFor s .NakLimitReached ≠ .Ignore

theorem handlerFor_cfg {s s' : State} (h : s'.cfg = s.cfg) (c : Condition) : handlerFor s' c = handlerFor s c := by
  simp only [handlerFor, h]

/-- a limit fault whose handler is not Ignore moves the transaction on: Cancelled, suspended or ended -/
theorem phi_handleFault (s : State) (c : Condition) (now : Nat) (hig : handlerFor s c ≠ .Ignore) :
    phi (handleFault s c now).1 + 1 ≤ lowC s ∧ (handleFault s c now).2 = false := by
  have l2 : 3 ≤ lowC s := by simp only [lowC]; omega
  have hc : handlerFor (emit { s with condition := c } (.fault c (getProgress s))) c = handlerFor s c := rfl
  have e0 : lowC (emit { s with condition := c } (.fault c (getProgress s))) = lowC s := rfl
  simp only [handleFault, dispatchFault]
  rw [hc]
  cases hh : handlerFor s c with
  | Ignore => exact absurd hh hig
  | Cancel =>
    dsimp only
    have := phi_cancelInner (emit { s with condition := c } (.fault c (getProgress s))) now
    rw [e0] at this
    exact ⟨this, rfl⟩
  | Suspend => dsimp only; rw [phi_suspend]; exact ⟨by omega, rfl⟩
  | Abandon => dsimp only; rw [phi_abandon]; exact ⟨by omega, rfl⟩

/-! ### the delayed NAK checks -/

/-- a delayed check is a running counter with a positive period -/
def DelOk (s : State) : Prop := ∀ x ∈ s.delayed, x.1.paused = false

theorem expiredPrefix_length (now : Nat) (l : List (Counter × Nat × Nat)) :
    (expiredPrefix now l).1.length = l.length ∧ (expiredPrefix now l).2 ≤ l.length := by
  induction l with
  | nil => exact ⟨rfl, Nat.le_refl _⟩
  | cons x rest ih =>
    obtain ⟨c, a, b⟩ := x
    obtain ⟨i1, i2⟩ := ih
    cases ht : (c.timeoutOccurred now).2
    · simp only [expiredPrefix, ht, Bool.false_eq_true, if_false, List.length_cons]; exact ⟨trivial, Nat.zero_le _⟩
    · simp only [expiredPrefix, ht, if_true, List.length_cons]; omega

/-- the head of the list is due: at least one check fires -/
theorem expiredPrefix_due (now : Nat) (c : Counter) (a b : Nat) (rest : List (Counter × Nat × Nat))
    (hp : c.paused = false) (hd : c.timeout ≤ now - c.start) : 1 ≤ (expiredPrefix now ((c, a, b) :: rest)).2 := by
  have := (update_due c now hp hd).1
  simp only [expiredPrefix, Counter.timeoutOccurred, this, if_true]
  omega

theorem delayed_handleDelayed_length (s : State) (now : Nat) :
    (handleDelayed s now).delayed.length = s.delayed.length - (expiredPrefix now s.delayed).2 := by
  obtain ⟨h1, h2⟩ := expiredPrefix_length now s.delayed
  simp only [handleDelayed]
  split
  · split <;> simp [h1]
  · rename_i h0
    have : (expiredPrefix now s.delayed).2 = 0 := by omega
    simp [h1, this]

theorem naks_handleDelayed_nil (s : State) (now : Nat) (h : (expiredPrefix now s.delayed).2 = 0) :
    handleDelayed s now = { s with delayed := (expiredPrefix now s.delayed).1 } := by
  simp only [handleDelayed, h, Nat.lt_irrefl, if_false]

/-- the delayed-NAK part of `handle_timeout` never raises the potential and uses it up by the number
of checks that fired -/
theorem phi_handleDelayed (s : State) (now : Nat) :
    phi (handleDelayed s now) ≤ phi s ∧
    (s.state = .Active → phi (handleDelayed s now) + (expiredPrefix now s.delayed).2 ≤ phi s) := by
  have hl := delayed_handleDelayed_length s now
  obtain ⟨h1, h2⟩ := expiredPrefix_length now s.delayed
  have hE : nakE (handleDelayed s now) ≤ nakE s := by
    simp only [nakE, handleDelayed]
    repeat' split
    all_goals first
      | omega
      | (exfalso; simp_all)
  simp only [phi, nakP, nakU, promptN, state_handleDelayed, recvState_handleDelayed, timer_handleDelayed, nakReceived_handleDelayed,
    received_handleDelayed, prompt_handleDelayed, hl]
  constructor
  · split
    · cases s.recvState <;> dsimp only
      all_goals (repeat' split)
      all_goals omega
    · omega
  · intro ha
    simp only [ha, beq_self_eq_true, if_true]
    cases s.recvState <;> dsimp only
    all_goals (repeat' split)
    all_goals omega

end Cfdp.Recv

namespace Cfdp.Recv
open Cfdp.Codec Cfdp.Gen Cfdp.Timer Cfdp.Send

/-! ### the inactivity part -/

def setIR (s : State) (k : Counter) : State := { s with timer := { s.timer with inactivity := k } }
def setAR (s : State) (k : Counter) : State := { s with timer := { s.timer with ack := k } }
def setNR (s : State) (k : Counter) : State := { s with timer := { s.timer with nak := k } }

theorem handleInactivity_eq (s : State) (now : Nat) :
    handleInactivity s now =
      if (s.timer.inactivity.limitReached now).2 then
        (if s.recvState == .Cancelled then (abandon (setIR s (s.timer.inactivity.limitReached now).1) now, false)
         else handleFault (setIR s (s.timer.inactivity.limitReached now).1) .InactivityDetected now)
      else if ((s.timer.inactivity.limitReached now).1.timeoutOccurred now).2 then
        (setIR s (((s.timer.inactivity.limitReached now).1.timeoutOccurred now).1.restart now), true)
      else (setIR s ((s.timer.inactivity.limitReached now).1.timeoutOccurred now).1, true) := by
  simp only [handleInactivity, setIR]
  repeat' split
  all_goals rfl

theorem phi_setIR (s : State) (k : Counter) (hr : k.room ≤ s.timer.inactivity.room) (hm : k.max = s.timer.inactivity.max) :
    phi (setIR s k) ≤ phi s ∧ (s.state = .Active → k.room < s.timer.inactivity.room → phi (setIR s k) + 1 ≤ phi s) := by
  by_cases ha : s.state = .Active
  · have e1 : phi (setIR s k) = (match s.recvState with
        | .ReceiveData => 5 + 2 * (s.timer.ack.max + s.timer.inactivity.max) + 2 * k.room + s.delayed.length + nakP s
        | .Finished => 4 + 2 * (s.timer.ack.max + s.timer.inactivity.max) + 2 * s.timer.ack.room + 2 * k.room
            + s.delayed.length + nakU s + promptN s
        | .Cancelled => 1 + 2 * s.timer.ack.room + 2 * k.room + s.delayed.length + nakU s + promptN s) := by
      simp only [phi, setIR, ha, beq_self_eq_true, if_true, hm]
      rfl
    have e2 : phi s = (match s.recvState with
        | .ReceiveData => 5 + 2 * (s.timer.ack.max + s.timer.inactivity.max) + 2 * s.timer.inactivity.room + s.delayed.length + nakP s
        | .Finished => 4 + 2 * (s.timer.ack.max + s.timer.inactivity.max) + 2 * s.timer.ack.room + 2 * s.timer.inactivity.room
            + s.delayed.length + nakU s + promptN s
        | .Cancelled => 1 + 2 * s.timer.ack.room + 2 * s.timer.inactivity.room + s.delayed.length + nakU s + promptN s) := by
      simp only [phi, ha, beq_self_eq_true, if_true]
    rw [e1, e2]
    constructor
    · cases s.recvState <;> dsimp only <;> omega
    · intro _ hlt
      cases s.recvState <;> dsimp only <;> omega
  · have e1 : phi (setIR s k) = 0 := phi_inactive ha
    rw [e1]
    exact ⟨Nat.zero_le _, fun h => absurd h ha⟩

theorem lowC_setIR (s : State) (k : Counter) (hm : k.max = s.timer.inactivity.max) : lowC (setIR s k) = lowC s := by
  simp only [lowC, setIR]; rw [hm]

/-- the inactivity part of `handle_timeout` -/
theorem phi_handleInactivity {m Ta Ti Tn : Nat} (s : State) (now : Nat) (ha : s.state = .Active)
    (hq : RT m Ta Ti Tn s.timer) (hig : handlerFor s .InactivityDetected ≠ .Ignore) :
    phi (handleInactivity s now).1 ≤ phi s ∧
    (s.timer.inactivity.paused = false → s.timer.inactivity.timeout ≤ now - s.timer.inactivity.start →
      phi (handleInactivity s now).1 + 1 ≤ phi s) ∧
    ((handleInactivity s now).2 = false → phi (handleInactivity s now).1 + 1 ≤ phi s) ∧
    ((handleInactivity s now).2 = true → ∃ k, (handleInactivity s now).1 = setIR s k ∧ CQ m Ti k) := by
  have hpos := phi_pos ha
  obtain ⟨k1, hk1⟩ : ∃ k, s.timer.inactivity.update now = k := ⟨_, rfl⟩
  obtain ⟨k2, hk2⟩ : ∃ k, k1.update now = k := ⟨_, rfl⟩
  have m1 : k1.max = s.timer.inactivity.max := by rw [← hk1]; exact max_update _ _
  have m2 : k2.max = s.timer.inactivity.max := by rw [← hk2, max_update]; exact m1
  have r1 : k1.room ≤ s.timer.inactivity.room := by rw [← hk1]; exact room_update _ _
  have r2 : k2.room ≤ k1.room := by rw [← hk2]; exact room_update _ _
  have q1 : CQ m Ti k1 := by rw [← hk1]; exact cq_update hq.inactivity now
  have q2 : CQ m Ti k2 := by rw [← hk2]; exact cq_update q1 now
  have q3 : CQ m Ti (k2.restart now) := cq_restart q2 now
  have r3 : (k2.restart now).room ≤ k2.room := room_restart _ _
  have m3 : (k2.restart now).max = s.timer.inactivity.max := by rw [max_restart]; exact m2
  -- a due timer loses room, or was at its limit
  have hdue : s.timer.inactivity.paused = false → s.timer.inactivity.timeout ≤ now - s.timer.inactivity.start →
      k1.room < s.timer.inactivity.room ∨ k1.room = 0 := by
    intro hp hd
    by_cases h0 : 0 < s.timer.inactivity.room
    · left; have := (update_due s.timer.inactivity now hp hd).2 h0; rw [hk1] at this; exact this
    · right; omega
  rw [handleInactivity_eq]
  simp only [Counter.limitReached, Counter.timeoutOccurred, hk1, hk2]
  by_cases hreached : (k1.count == k1.max) = true
  · simp only [hreached, if_true]
    split
    · rw [phi_abandon]
      exact ⟨by omega, fun _ _ => by omega, fun _ => by omega, (fun hh => by cases hh)⟩
    · rename_i hnc
      have hnc' : s.recvState ≠ .Cancelled := by simpa using hnc
      have hig' : handlerFor (setIR s k1) .InactivityDetected ≠ .Ignore := hig
      obtain ⟨f1, f2⟩ := phi_handleFault (setIR s k1) .InactivityDetected now hig'
      rw [lowC_setIR s k1 m1] at f1
      have l1 := lowC_le s ha hnc'
      exact ⟨by omega, fun _ _ => by omega, fun _ => by omega, (fun hh => by rw [f2] at hh; cases hh)⟩
  · have hnr : (k1.count == k1.max) = false := by simpa using hreached
    have hroom1 : 0 < k1.room := by
      have := q1.1
      simp only [Counter.room, Counter.Ok] at *
      have : k1.count ≠ k1.max := by simpa using hnr
      omega
    simp only [hnr, Bool.false_eq_true, if_false]
    split
    · obtain ⟨a1, a2⟩ := phi_setIR s (k2.restart now) (by omega) m3
      refine ⟨a1, fun hp hd => ?_, (fun hh => by cases hh), fun _ => ⟨_, rfl, q3⟩⟩
      rcases hdue hp hd with h | h
      · exact a2 ha (by omega)
      · omega
    · obtain ⟨a1, a2⟩ := phi_setIR s k2 (by omega) m2
      refine ⟨a1, fun hp hd => ?_, (fun hh => by cases hh), fun _ => ⟨_, rfl, q2⟩⟩
      rcases hdue hp hd with h | h
      · exact a2 ha (by omega)
      · omega

end Cfdp.Recv

namespace Cfdp.Recv
open Cfdp.Codec Cfdp.Gen Cfdp.Timer Cfdp.Send

/-! ### the positive-ACK part (Finished / Cancelled phases) -/

theorem phi_congr {s s' : State} (h1 : s'.state = s.state) (h2 : s'.recvState = s.recvState) (h3 : s'.timer = s.timer)
    (h4 : s'.delayed.length = s.delayed.length) (h5 : s'.naks.isEmpty = s.naks.isEmpty)
    (h6 : s'.nakReceived = s.nakReceived) (h7 : s'.received = s.received) (h8 : s'.prompt = s.prompt) : phi s' = phi s := by
  simp only [phi, nakP, nakE, nakU, promptN, h1, h2, h3, h4, h5, h6, h7, h8]

theorem phi_setFinishedFlag (s : State) (b : Bool) : phi (setFinishedFlag s b) = phi s := by
  simp only [setFinishedFlag]; split <;> rfl

theorem handleAckTimer_eq (s : State) (now : Nat) (c : Bool) :
    handleAckTimer s now c =
      if (s.timer.ack.limitReached now).2 then
        (if c then abandon (setAR s (s.timer.ack.limitReached now).1) now
         else (handleFault (setAR s (s.timer.ack.limitReached now).1) .PositiveLimitReached now).1)
      else if ((s.timer.ack.limitReached now).1.timeoutOccurred now).2 then
        setAR (setFinishedFlag (setAR s ((s.timer.ack.limitReached now).1.timeoutOccurred now).1) true)
          (((s.timer.ack.limitReached now).1.timeoutOccurred now).1.restart now)
      else setAR s ((s.timer.ack.limitReached now).1.timeoutOccurred now).1 := by
  simp only [handleAckTimer, setAR, setFinishedFlag]
  repeat' split
  all_goals rfl

theorem phi_setAR (s : State) (k : Counter) (hr : k.room ≤ s.timer.ack.room) (hm : k.max = s.timer.ack.max)
    (hrs : s.recvState ≠ .ReceiveData) :
    phi (setAR s k) ≤ phi s ∧ (s.state = .Active → k.room < s.timer.ack.room → phi (setAR s k) + 1 ≤ phi s) := by
  by_cases ha : s.state = .Active
  · have e1 : phi (setAR s k) = (match s.recvState with
        | .ReceiveData => 5 + 2 * (s.timer.ack.max + s.timer.inactivity.max) + 2 * s.timer.inactivity.room + s.delayed.length + nakP s
        | .Finished => 4 + 2 * (s.timer.ack.max + s.timer.inactivity.max) + 2 * k.room + 2 * s.timer.inactivity.room
            + s.delayed.length + nakU s + promptN s
        | .Cancelled => 1 + 2 * k.room + 2 * s.timer.inactivity.room + s.delayed.length + nakU s + promptN s) := by
      simp only [phi, setAR, ha, beq_self_eq_true, if_true, hm]
      rfl
    have e2 : phi s = (match s.recvState with
        | .ReceiveData => 5 + 2 * (s.timer.ack.max + s.timer.inactivity.max) + 2 * s.timer.inactivity.room + s.delayed.length + nakP s
        | .Finished => 4 + 2 * (s.timer.ack.max + s.timer.inactivity.max) + 2 * s.timer.ack.room + 2 * s.timer.inactivity.room
            + s.delayed.length + nakU s + promptN s
        | .Cancelled => 1 + 2 * s.timer.ack.room + 2 * s.timer.inactivity.room + s.delayed.length + nakU s + promptN s) := by
      simp only [phi, ha, beq_self_eq_true, if_true]
    rw [e1, e2]
    constructor
    · cases hq : s.recvState <;> dsimp only <;> first | omega | exact absurd hq hrs
    · intro _ hlt
      cases hq : s.recvState <;> dsimp only <;> first | omega | exact absurd hq hrs
  · have e1 : phi (setAR s k) = 0 := phi_inactive ha
    rw [e1]
    exact ⟨Nat.zero_le _, fun h => absurd h ha⟩

theorem lowC_setAR (s : State) (k : Counter) (hm : k.max = s.timer.ack.max) : lowC (setAR s k) = lowC s := by
  simp only [lowC, setAR]; rw [hm]

/-- the positive-ACK part of `handle_timeout` -/
theorem phi_handleAckTimer {m Ta Ti Tn : Nat} (s : State) (now : Nat) (c : Bool) (ha : s.state = .Active)
    (hpa : (s.recvState = .Finished ∧ c = false) ∨ (s.recvState = .Cancelled ∧ c = true))
    (hq : RT m Ta Ti Tn s.timer) (hig : handlerFor s .PositiveLimitReached ≠ .Ignore) :
    phi (handleAckTimer s now c) ≤ phi s ∧
    (s.timer.ack.paused = false → s.timer.ack.timeout ≤ now - s.timer.ack.start →
      phi (handleAckTimer s now c) + 1 ≤ phi s) := by
  have hpos := phi_pos ha
  have hrs : s.recvState ≠ .ReceiveData := by
    rcases hpa with x | x <;> rw [x.1] <;> decide
  obtain ⟨k1, hk1⟩ : ∃ k, s.timer.ack.update now = k := ⟨_, rfl⟩
  obtain ⟨k2, hk2⟩ : ∃ k, k1.update now = k := ⟨_, rfl⟩
  have m1 : k1.max = s.timer.ack.max := by rw [← hk1]; exact max_update _ _
  have m2 : k2.max = s.timer.ack.max := by rw [← hk2, max_update]; exact m1
  have r1 : k1.room ≤ s.timer.ack.room := by rw [← hk1]; exact room_update _ _
  have r2 : k2.room ≤ k1.room := by rw [← hk2]; exact room_update _ _
  have q1 : CQ m Ta k1 := by rw [← hk1]; exact cq_update hq.ack now
  have r3 : (k2.restart now).room ≤ k2.room := room_restart _ _
  have m3 : (k2.restart now).max = s.timer.ack.max := by rw [max_restart]; exact m2
  have hdue : s.timer.ack.paused = false → s.timer.ack.timeout ≤ now - s.timer.ack.start →
      k1.room < s.timer.ack.room ∨ k1.room = 0 := by
    intro hp hd
    by_cases h0 : 0 < s.timer.ack.room
    · left; have := (update_due s.timer.ack now hp hd).2 h0; rw [hk1] at this; exact this
    · right; omega
  rw [handleAckTimer_eq]
  simp only [Counter.limitReached, Counter.timeoutOccurred, hk1, hk2]
  by_cases hreached : (k1.count == k1.max) = true
  · simp only [hreached, if_true]
    split
    · rw [phi_abandon]; exact ⟨by omega, fun _ _ => by omega⟩
    · rename_i hc
      have hnc : s.recvState ≠ .Cancelled := by
        rcases hpa with x | x
        · rw [x.1]; decide
        · exact absurd x.2 hc
      have hig' : handlerFor (setAR s k1) .PositiveLimitReached ≠ .Ignore := hig
      obtain ⟨f1, _⟩ := phi_handleFault (setAR s k1) .PositiveLimitReached now hig'
      rw [lowC_setAR s k1 m1] at f1
      have l1 := lowC_le s ha hnc
      exact ⟨by omega, fun _ _ => by omega⟩
  · have hnr : (k1.count == k1.max) = false := by simpa using hreached
    have hroom1 : 0 < k1.room := by
      have := q1.1
      simp only [Counter.room, Counter.Ok] at *
      have : k1.count ≠ k1.max := by simpa using hnr
      omega
    simp only [hnr, Bool.false_eq_true, if_false]
    split
    · have e : phi (setAR (setFinishedFlag (setAR s k2) true) (k2.restart now)) = phi (setAR s (k2.restart now)) := by
        apply phi_congr <;> simp only [setAR, setFinishedFlag] <;> (try split) <;> rfl
      rw [e]
      obtain ⟨a1, a2⟩ := phi_setAR s (k2.restart now) (by omega) m3 hrs
      refine ⟨a1, fun hp hd => ?_⟩
      rcases hdue hp hd with h | h
      · exact a2 ha (by omega)
      · omega
    · obtain ⟨a1, a2⟩ := phi_setAR s k2 (by omega) m2 hrs
      refine ⟨a1, fun hp hd => ?_⟩
      rcases hdue hp hd with h | h
      · exact a2 ha (by omega)
      · omega

end Cfdp.Recv

namespace Cfdp.Timer
/-- an update that records no expiry changes nothing -/
theorem update_noop (c : Counter) (now : Nat) (h : (c.update now).occurred = false) : c.update now = c := by
  simp only [Counter.update] at h ⊢
  split
  · rfl
  · rename_i hp
    rw [if_neg hp] at h
    have hf : now - c.start + 1 = (now - c.start) + 1 := rfl
    rw [hf] at h ⊢
    simp only [updateLoop] at h ⊢
    split
    · rename_i hge
      rw [if_pos hge] at h
      have := updateLoop_occurred_mono (now - c.start) now
        { c with count := min (c.count + 1) c.max, start := c.start + c.timeout, occurred := true } rfl
      rw [this] at h; cases h
    · rfl
end Cfdp.Timer

namespace Cfdp.Recv
open Cfdp.Codec Cfdp.Gen Cfdp.Timer Cfdp.Send

/-! ### the NAK-timer part (collecting phase) -/

/-- `nakP` as a function of what it reads -/
def nakPv (nr paused empty : Bool) (room max : Nat) : Nat :=
  (if nr then 2 * max + 4 else 2 * room) + (if !paused && empty && (nr || room == 0) then 1 else 0)

theorem nakP_eq (s : State) :
    nakP s = nakPv (s.nakReceived != s.received) s.timer.nak.paused s.naks.isEmpty s.timer.nak.room s.timer.nak.max := rfl

theorem nakPv_paused (nr p e e' : Bool) (room room' max : Nat) (h : room' ≤ room) :
    nakPv nr true e' room' max ≤ nakPv nr p e room max := by
  cases nr <;> simp [nakPv] <;> omega

theorem nakPv_nonempty (nr p e : Bool) (room room' max : Nat) (h : room' ≤ room) :
    nakPv nr p false room' max ≤ nakPv nr p e room max := by
  cases nr <;> simp [nakPv] <;> omega

theorem nakPv_paused_lt (nr e' : Bool) (room room' max : Nat) (h : room' ≤ room) (hs : room' < room ∨ room = 0) :
    nakPv nr true e' room' max + 1 ≤ nakPv nr false true room max := by
  cases nr
  · by_cases hz : room = 0
    · subst hz; simp [nakPv]; omega
    · have : (room == 0) = false := by simpa using hz
      simp [nakPv, this]; omega
  · simp [nakPv]

theorem nakPv_nonempty_lt (nr : Bool) (room room' max : Nat) (h : room' ≤ room) (hs : room' < room ∨ room = 0) :
    nakPv nr false false room' max + 1 ≤ nakPv nr false true room max := by
  cases nr
  · by_cases hz : room = 0
    · subst hz; simp [nakPv]; omega
    · have : (room == 0) = false := by simpa using hz
      simp [nakPv, this]; omega
  · simp [nakPv]

/-- the potential of a collecting, active transaction -/
theorem phi_rd (s : State) (ha : s.state = .Active) (hr : s.recvState = .ReceiveData) :
    phi s = 5 + 2 * (s.timer.ack.max + s.timer.inactivity.max) + 2 * s.timer.inactivity.room + s.delayed.length + nakP s := by
  simp only [phi, ha, hr, beq_self_eq_true, if_true]

/-- the ReceiveData arm of `handle_timeout` -/
def nakBranch (s : State) (now : Nat) : State :=
  let o := s.timer.nak.timeoutOccurred now
  let s := { s with timer := { s.timer with nak := o.1 } }
  if o.2 then
    let s := { s with naks := getAllNaks s }
    if s.naks.isEmpty then { s with timer := { s.timer with nak := s.timer.nak.pause now } } else s
  else s

/-- the state with the queue rebuilt and the NAK counter replaced -/
def nbSet (s : State) (k1 k : Counter) : State :=
  { s with naks := getAllNaks (setNR s k1), timer := { s.timer with nak := k } }

theorem nakBranch_eq (s : State) (now : Nat) :
    nakBranch s now =
      if (s.timer.nak.update now).occurred then
        (if (getAllNaks (setNR s (s.timer.nak.update now))).isEmpty then
          nbSet s (s.timer.nak.update now) ((s.timer.nak.update now).pause now)
         else nbSet s (s.timer.nak.update now) (s.timer.nak.update now))
      else setNR s (s.timer.nak.update now) := by
  unfold nakBranch nbSet setNR Counter.timeoutOccurred
  rfl

theorem phi_nbSet (s : State) (k1 k : Counter) (ha : s.state = .Active) (hr : s.recvState = .ReceiveData) :
    phi (nbSet s k1 k) = 5 + 2 * (s.timer.ack.max + s.timer.inactivity.max) + 2 * s.timer.inactivity.room + s.delayed.length +
      nakPv (s.nakReceived != s.received) k.paused (getAllNaks (setNR s k1)).isEmpty k.room k.max := by
  rw [phi_rd (nbSet s k1 k) ha hr, nakP_eq]
  rfl

theorem phi_nakBranch (s : State) (now : Nat) (ha : s.state = .Active) (hr : s.recvState = .ReceiveData) :
    phi (nakBranch s now) ≤ phi s ∧
    (s.timer.nak.paused = false → s.timer.nak.timeout ≤ now - s.timer.nak.start → s.naks = [] →
      phi (nakBranch s now) + 1 ≤ phi s) := by
  obtain ⟨k1, hk1⟩ : ∃ k, s.timer.nak.update now = k := ⟨_, rfl⟩
  have m1 : k1.max = s.timer.nak.max := by rw [← hk1]; exact max_update _ _
  have r1 : k1.room ≤ s.timer.nak.room := by rw [← hk1]; exact room_update _ _
  have p1 : k1.paused = s.timer.nak.paused := by rw [← hk1]; exact paused_update _ _
  rw [nakBranch_eq, hk1]
  cases hocc : k1.occurred with
  | false =>
    have : k1 = s.timer.nak := by rw [← hk1]; exact update_noop _ _ (by rw [hk1]; exact hocc)
    subst this
    simp only [Bool.false_eq_true, if_false]
    have e : phi (setNR s s.timer.nak) = phi s := rfl
    rw [e]
    refine ⟨Nat.le_refl _, fun hp hd _ => ?_⟩
    have := (update_due s.timer.nak now hp hd).1
    rw [hk1, hocc] at this; cases this
  | true =>
    simp only [if_true]
    have hstrict : s.timer.nak.paused = false → s.timer.nak.timeout ≤ now - s.timer.nak.start →
        k1.room < s.timer.nak.room ∨ s.timer.nak.room = 0 := by
      intro hp hd
      by_cases h0 : 0 < s.timer.nak.room
      · left; have := (update_due s.timer.nak now hp hd).2 h0; rw [hk1] at this; exact this
      · right; omega
    rw [phi_rd s ha hr, nakP_eq s]
    split
    · -- nothing to ask for: the timer is stopped
      obtain ⟨k3, hk3⟩ : ∃ k, k1.pause now = k := ⟨_, rfl⟩
      have p3 : k3.paused = true := by rw [← hk3]; rfl
      have m3 : k3.max = s.timer.nak.max := by rw [← hk3, max_pause]; exact m1
      have r3 : k3.room ≤ k1.room := by rw [← hk3]; exact room_pause _ _
      rw [hk3, phi_nbSet s k1 k3 ha hr, p3, m3]
      constructor
      · have := nakPv_paused (s.nakReceived != s.received) s.timer.nak.paused s.naks.isEmpty
          (getAllNaks (setNR s k1)).isEmpty s.timer.nak.room k3.room s.timer.nak.max (by omega)
        omega
      · intro hp hd hn
        rw [hp, hn]
        have := nakPv_paused_lt (s.nakReceived != s.received)
          (getAllNaks (setNR s k1)).isEmpty s.timer.nak.room k3.room s.timer.nak.max
          (by omega) (by rcases hstrict hp hd with h | h; exact Or.inl (by omega); exact Or.inr h)
        simp only [List.isEmpty_nil] at this ⊢
        omega
    · rename_i hne
      have hne' : (getAllNaks (setNR s k1)).isEmpty = false := by simpa using hne
      rw [phi_nbSet s k1 k1 ha hr, hne', m1, p1]
      constructor
      · have := nakPv_nonempty (s.nakReceived != s.received) s.timer.nak.paused s.naks.isEmpty
          s.timer.nak.room k1.room s.timer.nak.max r1
        omega
      · intro hp hd hn
        rw [hp, hn]
        have := nakPv_nonempty_lt (s.nakReceived != s.received) s.timer.nak.room k1.room s.timer.nak.max r1 (hstrict hp hd)
        simp only [List.isEmpty_nil] at this ⊢
        omega

end Cfdp.Recv

namespace Cfdp.Recv
open Cfdp.Codec Cfdp.Gen Cfdp.Timer Cfdp.Send

/-! ### `handle_timeout` as a whole -/

/-- what the potential proof needs of a state; holds after every history (`rinv_run`) -/
structure RInv (m Ta Ti Tn : Nat) (s : State) : Prop where
  rt : RT m Ta Ti Tn s.timer
  ackp : s.recvState = .ReceiveData → s.timer.ack.paused = true
  del : DelOk s
  noIgnore : NoIgnore s

/-- nothing to transmit: the state in which the task loop goes to sleep -/
def Quiescent (s : State) : Prop := hasPduToSend s = false

theorem quiescent_naks {s : State} (hq : Quiescent s) (ha : s.state = .Active) (hr : s.recvState = .ReceiveData) :
    s.naks = [] := by
  have hs : (s.state == TransactionState.Suspended) = false := by rw [ha]; rfl
  simp only [Quiescent, hasPduToSend, hs, Bool.false_eq_true, if_false, hr] at hq
  cases hn : s.naks with
  | nil => rfl
  | cons x xs => simp [hn] at hq

/-- which timer made the computed sleep zero -/
theorem recv_due (s : State) (now : Nat) (ha : s.state = .Active) (hu : untilTimeout s now = some 0) :
    (s.timer.ack.paused = false ∧ s.timer.ack.timeout ≤ now - s.timer.ack.start) ∨
    (s.timer.nak.paused = false ∧ s.timer.nak.timeout ≤ now - s.timer.nak.start) ∨
    (s.timer.inactivity.paused = false ∧ s.timer.inactivity.timeout ≤ now - s.timer.inactivity.start) ∨
    (∃ c a b rest, s.delayed = (c, a, b) :: rest ∧ c.timeout ≤ now - c.start) := by
  have hs : (s.state == TransactionState.Suspended) = false := by rw [ha]; rfl
  simp only [untilTimeout, hs, Bool.false_eq_true, if_false] at hu
  have tdue : s.timer.untilTimeout now = some 0 →
      (s.timer.ack.paused = false ∧ s.timer.ack.timeout ≤ now - s.timer.ack.start) ∨
      (s.timer.nak.paused = false ∧ s.timer.nak.timeout ≤ now - s.timer.nak.start) ∨
      (s.timer.inactivity.paused = false ∧ s.timer.inactivity.timeout ≤ now - s.timer.inactivity.start) := by
    intro h
    rcases timer_due s.timer now h with d | d | d
    · exact Or.inl ⟨d.1, by omega⟩
    · exact Or.inr (Or.inl ⟨d.1, by omega⟩)
    · exact Or.inr (Or.inr ⟨d.1, by omega⟩)
  cases hd : s.delayed with
  | nil =>
    simp only [hd, List.head?_nil] at hu
    rcases tdue hu with x | x | x
    · exact Or.inl x
    · exact Or.inr (Or.inl x)
    · exact Or.inr (Or.inr (Or.inl x))
  | cons x rest =>
    obtain ⟨c, a, b⟩ := x
    simp only [hd, List.head?_cons] at hu
    cases ht : s.timer.untilTimeout now with
    | none =>
      simp only [ht, Option.some.injEq] at hu
      exact Or.inr (Or.inr (Or.inr ⟨c, a, b, rest, rfl, by have := (untilTimeout_zero c now).mp hu; omega⟩))
    | some v =>
      simp only [ht, Option.some.injEq] at hu
      by_cases hv : v = 0
      · subst hv
        rcases tdue ht with x | x | x
        · exact Or.inl x
        · exact Or.inr (Or.inl x)
        · exact Or.inr (Or.inr (Or.inl x))
      · have : c.untilTimeout now = 0 := by omega
        exact Or.inr (Or.inr (Or.inr ⟨c, a, b, rest, rfl, by have := (untilTimeout_zero c now).mp this; omega⟩))

end Cfdp.Recv

namespace Cfdp.Recv
open Cfdp.Codec Cfdp.Gen Cfdp.Timer Cfdp.Send

theorem handleTimeoutMain_eq (s : State) (now : Nat) :
    handleTimeoutMain s now =
      if s.state == .Suspended then s else
      if !(handleInactivity (handleDelayed s now) now).2 then (handleInactivity (handleDelayed s now) now).1 else
      match (handleInactivity (handleDelayed s now) now).1.recvState with
      | .ReceiveData => nakBranch (handleInactivity (handleDelayed s now) now).1 now
      | .Finished => handleAckTimer (setNR (handleInactivity (handleDelayed s now) now).1
          ((handleInactivity (handleDelayed s now) now).1.timer.nak.pause now)) now false
      | .Cancelled => handleAckTimer (setNR (handleInactivity (handleDelayed s now) now).1
          ((handleInactivity (handleDelayed s now) now).1.timer.nak.pause now)) now true := by
  unfold handleTimeoutMain nakBranch setNR
  rfl

/-- outside the collecting phase `handle_timeout` stops the NAK timer -/
theorem phi_stopNak (s : State) (now : Nat) (hr : s.recvState ≠ .ReceiveData) :
    phi (setNR s (s.timer.nak.pause now)) ≤ phi s ∧
    (s.state = .Active → s.timer.nak.paused = false → phi (setNR s (s.timer.nak.pause now)) + 1 ≤ phi s) := by
  have hp : (s.timer.nak.pause now).paused = true := rfl
  by_cases ha : s.state = .Active
  · have e1 : phi (setNR s (s.timer.nak.pause now)) = (match s.recvState with
        | .ReceiveData => 5 + 2 * (s.timer.ack.max + s.timer.inactivity.max) + 2 * s.timer.inactivity.room + s.delayed.length
            + nakP (setNR s (s.timer.nak.pause now))
        | .Finished => 4 + 2 * (s.timer.ack.max + s.timer.inactivity.max) + 2 * s.timer.ack.room + 2 * s.timer.inactivity.room
            + s.delayed.length + 0 + promptN s
        | .Cancelled => 1 + 2 * s.timer.ack.room + 2 * s.timer.inactivity.room + s.delayed.length + 0 + promptN s) := by
      simp only [phi, setNR, ha, beq_self_eq_true, if_true, nakU, hp]
      first | rfl | skip
    have e2 : phi s = (match s.recvState with
        | .ReceiveData => 5 + 2 * (s.timer.ack.max + s.timer.inactivity.max) + 2 * s.timer.inactivity.room + s.delayed.length + nakP s
        | .Finished => 4 + 2 * (s.timer.ack.max + s.timer.inactivity.max) + 2 * s.timer.ack.room + 2 * s.timer.inactivity.room
            + s.delayed.length + nakU s + promptN s
        | .Cancelled => 1 + 2 * s.timer.ack.room + 2 * s.timer.inactivity.room + s.delayed.length + nakU s + promptN s) := by
      simp only [phi, ha, beq_self_eq_true, if_true]
    rw [e1, e2]
    constructor
    · cases hq : s.recvState <;> dsimp only <;> first | omega | exact absurd hq hr
    · intro _ hnp
      have : nakU s = 1 := by simp only [nakU, hnp, Bool.false_eq_true, if_false]
      cases hq : s.recvState <;> dsimp only <;> first | omega | exact absurd hq hr
  · have e1 : phi (setNR s (s.timer.nak.pause now)) = 0 := phi_inactive ha
    rw [e1]
    exact ⟨Nat.zero_le _, fun h => absurd h ha⟩

/-- some timer of the transaction has run out -/
def DueSome (s : State) (now : Nat) : Prop :=
  (s.timer.ack.paused = false ∧ s.timer.ack.timeout ≤ now - s.timer.ack.start) ∨
  (s.timer.nak.paused = false ∧ s.timer.nak.timeout ≤ now - s.timer.nak.start) ∨
  (s.timer.inactivity.paused = false ∧ s.timer.inactivity.timeout ≤ now - s.timer.inactivity.start) ∨
  (∃ c a b rest, s.delayed = (c, a, b) :: rest ∧ c.timeout ≤ now - c.start)

/-- **every timer wake-up of a receive transaction that finds something expired uses up the potential**
(from a state with nothing to transmit, as the task loop reaches it) -/
theorem phi_handleTimeoutMain {m Ta Ti Tn : Nat} (s : State) (now : Nat) (ha : s.state = .Active)
    (hinv : RInv m Ta Ti Tn s) (hq : s.recvState = .ReceiveData → s.naks = []) :
    phi (handleTimeoutMain s now) ≤ phi s ∧ (DueSome s now → phi (handleTimeoutMain s now) + 1 ≤ phi s) := by
  have hns : (s.state == TransactionState.Suspended) = false := by rw [ha]; rfl
  have hpos := phi_pos ha
  rw [handleTimeoutMain_eq]
  simp only [hns, Bool.false_eq_true, if_false]
  -- the delayed checks
  obtain ⟨d0, d1⟩ := phi_handleDelayed s now
  have d1' := d1 ha
  have ha0 : (handleDelayed s now).state = .Active := by rw [state_handleDelayed]; exact ha
  have hrt0 : RT m Ta Ti Tn (handleDelayed s now).timer := by rw [timer_handleDelayed]; exact hinv.rt
  have hig0 : handlerFor (handleDelayed s now) .InactivityDetected ≠ .Ignore := by
    rw [handlerFor_cfg (cfg_handleDelayed s now)]; exact hinv.noIgnore.2.1
  -- the inactivity part
  obtain ⟨i1, i2, i3, i4⟩ := phi_handleInactivity (handleDelayed s now) now ha0 hrt0 hig0
  rw [timer_handleDelayed] at i2
  cases hcont : (handleInactivity (handleDelayed s now) now).2 with
  | false =>
    simp only [Bool.not_false, if_true]
    have := i3 hcont
    exact ⟨by omega, fun _ => by omega⟩
  | true =>
    simp only [Bool.not_true, Bool.false_eq_true, if_false]
    obtain ⟨k, hk, hkq⟩ := i4 hcont
    rw [hk] at i1 i2 ⊢
    -- facts about `setIR (handleDelayed s now) k`
    have hs1 : (setIR (handleDelayed s now) k).state = .Active := ha0
    have hr1 : (setIR (handleDelayed s now) k).recvState = s.recvState := recvState_handleDelayed s now
    have hrt1 : RT m Ta Ti Tn (setIR (handleDelayed s now) k).timer :=
      ⟨by show CQ m Ta (handleDelayed s now).timer.ack; rw [timer_handleDelayed]; exact hinv.rt.ack, hkq,
        by show CQ m Tn (handleDelayed s now).timer.nak; rw [timer_handleDelayed]; exact hinv.rt.nak⟩
    have hnak1 : (setIR (handleDelayed s now) k).timer.nak = s.timer.nak := by
      show (handleDelayed s now).timer.nak = _; rw [timer_handleDelayed]
    have hack1 : (setIR (handleDelayed s now) k).timer.ack = s.timer.ack := by
      show (handleDelayed s now).timer.ack = _; rw [timer_handleDelayed]
    have hcfg1 : (setIR (handleDelayed s now) k).cfg = s.cfg := cfg_handleDelayed s now
    -- did a delayed check fire?
    have hpop : (∃ c a b rest, s.delayed = (c, a, b) :: rest ∧ c.timeout ≤ now - c.start) → 1 ≤ (expiredPrefix now s.delayed).2 := by
      rintro ⟨c, a, b, rest, hd, hdd⟩
      rw [hd]
      exact expiredPrefix_due now c a b rest (hinv.del (c, a, b) (by rw [hd]; exact List.mem_cons_self ..)) hdd
    cases hrs : s.recvState with
    | ReceiveData =>
      have hr1' : (setIR (handleDelayed s now) k).recvState = .ReceiveData := by rw [hr1, hrs]
      simp only [hr1']
      obtain ⟨n1, n2⟩ := phi_nakBranch (setIR (handleDelayed s now) k) now hs1 hr1'
      rw [hnak1] at n2
      refine ⟨by omega, fun hdue => ?_⟩
      rcases hdue with x | x | x | x
      · -- the positive-ACK timer does not run while collecting
        have := hinv.ackp hrs; rw [this] at x; cases x.1
      · by_cases hp0 : (expiredPrefix now s.delayed).2 = 0
        · have hn : (setIR (handleDelayed s now) k).naks = [] := by
            show (handleDelayed s now).naks = []
            rw [naks_handleDelayed_nil s now hp0]
            exact hq hrs
          have := n2 x.1 x.2 hn
          omega
        · omega
      · have := i2 x.1 x.2; omega
      · have := hpop x; omega
    | Finished =>
      have hr1' : (setIR (handleDelayed s now) k).recvState = .Finished := by rw [hr1, hrs]
      simp only [hr1']
      obtain ⟨p1, p2⟩ := phi_stopNak (setIR (handleDelayed s now) k) now (by rw [hr1']; decide)
      have hrt2 : RT m Ta Ti Tn (setNR (setIR (handleDelayed s now) k) ((setIR (handleDelayed s now) k).timer.nak.pause now)).timer :=
        ⟨hrt1.ack, hrt1.inactivity, cq_pause hrt1.nak now⟩
      obtain ⟨a1, a2⟩ := phi_handleAckTimer (setNR (setIR (handleDelayed s now) k) ((setIR (handleDelayed s now) k).timer.nak.pause now))
        now false hs1 (Or.inl ⟨hr1', rfl⟩) hrt2 (by
          have : handlerFor (setNR (setIR (handleDelayed s now) k) ((setIR (handleDelayed s now) k).timer.nak.pause now)) .PositiveLimitReached
              = handlerFor s .PositiveLimitReached := handlerFor_cfg (s := s) hcfg1 _
          rw [this]; exact hinv.noIgnore.1)
      have hack2 : (setNR (setIR (handleDelayed s now) k) ((setIR (handleDelayed s now) k).timer.nak.pause now)).timer.ack = s.timer.ack := hack1
      rw [hack2] at a2
      refine ⟨by omega, fun hdue => ?_⟩
      rcases hdue with x | x | x | x
      · have := a2 x.1 x.2; omega
      · have := p2 hs1 (by rw [hnak1]; exact x.1); omega
      · have := i2 x.1 x.2; omega
      · have := hpop x; omega
    | Cancelled =>
      have hr1' : (setIR (handleDelayed s now) k).recvState = .Cancelled := by rw [hr1, hrs]
      simp only [hr1']
      obtain ⟨p1, p2⟩ := phi_stopNak (setIR (handleDelayed s now) k) now (by rw [hr1']; decide)
      have hrt2 : RT m Ta Ti Tn (setNR (setIR (handleDelayed s now) k) ((setIR (handleDelayed s now) k).timer.nak.pause now)).timer :=
        ⟨hrt1.ack, hrt1.inactivity, cq_pause hrt1.nak now⟩
      obtain ⟨a1, a2⟩ := phi_handleAckTimer (setNR (setIR (handleDelayed s now) k) ((setIR (handleDelayed s now) k).timer.nak.pause now))
        now true hs1 (Or.inr ⟨hr1', rfl⟩) hrt2 (by
          have : handlerFor (setNR (setIR (handleDelayed s now) k) ((setIR (handleDelayed s now) k).timer.nak.pause now)) .PositiveLimitReached
              = handlerFor s .PositiveLimitReached := handlerFor_cfg (s := s) hcfg1 _
          rw [this]; exact hinv.noIgnore.1)
      have hack2 : (setNR (setIR (handleDelayed s now) k) ((setIR (handleDelayed s now) k).timer.nak.pause now)).timer.ack = s.timer.ack := hack1
      rw [hack2] at a2
      refine ⟨by omega, fun hdue => ?_⟩
      rcases hdue with x | x | x | x
      · have := a2 x.1 x.2; omega
      · have := p2 hs1 (by rw [hnak1]; exact x.1); omega
      · have := i2 x.1 x.2; omega
      · have := hpop x; omega

end Cfdp.Recv

namespace Cfdp.Recv
open Cfdp.Codec Cfdp.Gen Cfdp.Timer Cfdp.Send

theorem unackFinishedLimit_eq (s : State) (now : Nat) :
    unackFinishedLimit s now =
      if (s.timer.ack.limitReached now).2 then (setAR s (s.timer.ack.limitReached now).1, true)
      else (setIR (setAR s (s.timer.ack.limitReached now).1) (s.timer.inactivity.limitReached now).1,
            (s.timer.inactivity.limitReached now).2) := by
  unfold unackFinishedLimit setAR setIR
  rfl

/-- **every timer wake-up with something expired uses up the potential** (`handle_timeout`) -/
theorem phi_handleTimeout {m Ta Ti Tn : Nat} (s : State) (now : Nat) (ha : s.state = .Active)
    (hinv : RInv m Ta Ti Tn s) (hq : s.recvState = .ReceiveData → s.naks = []) (hdue : DueSome s now) :
    phi (handleTimeout s now) + 1 ≤ phi s := by
  have hns : (s.state == TransactionState.Suspended) = false := by rw [ha]; rfl
  have hpos := phi_pos ha
  simp only [handleTimeout, hns, Bool.false_eq_true, if_false]
  split
  · rename_i hun
    simp only [Bool.and_eq_true, beq_iff_eq] at hun
    obtain ⟨_, hfin⟩ := hun
    have hrs : s.recvState ≠ .ReceiveData := by rw [hfin]; decide
    rw [unackFinishedLimit_eq]
    obtain ⟨ka, hka⟩ : ∃ k, s.timer.ack.update now = k := ⟨_, rfl⟩
    obtain ⟨ki, hki⟩ : ∃ k, s.timer.inactivity.update now = k := ⟨_, rfl⟩
    simp only [Counter.limitReached, hka, hki]
    have ma : ka.max = s.timer.ack.max := by rw [← hka]; exact max_update _ _
    have mi : ki.max = s.timer.inactivity.max := by rw [← hki]; exact max_update _ _
    have ra : ka.room ≤ s.timer.ack.room := by rw [← hka]; exact room_update _ _
    have ri : ki.room ≤ s.timer.inactivity.room := by rw [← hki]; exact room_update _ _
    have qa : CQ m Ta ka := by rw [← hka]; exact cq_update hinv.rt.ack now
    have qi : CQ m Ti ki := by rw [← hki]; exact cq_update hinv.rt.inactivity now
    by_cases hra : (ka.count == ka.max) = true
    · simp only [hra, if_true]
      rw [phi_shutdown]; omega
    · have hra' : (ka.count == ka.max) = false := by simpa using hra
      simp only [hra', Bool.false_eq_true, if_false]
      by_cases hri : (ki.count == ki.max) = true
      · simp only [hri, if_true]
        rw [phi_shutdown]; omega
      · have hri' : (ki.count == ki.max) = false := by simpa using hri
        simp only [hri', Bool.false_eq_true, if_false]
        have hroomA : 0 < ka.room := by
          have := qa.1; simp only [Counter.room, Counter.Ok] at *
          have : ka.count ≠ ka.max := by simpa using hra'
          omega
        have hroomI : 0 < ki.room := by
          have := qi.1; simp only [Counter.room, Counter.Ok] at *
          have : ki.count ≠ ki.max := by simpa using hri'
          omega
        -- the state `handle_timeout` goes on with
        obtain ⟨a1, a2⟩ := phi_setAR s ka ra ma hrs
        have hrs2 : (setAR s ka).recvState ≠ .ReceiveData := hrs
        obtain ⟨b1, b2⟩ := phi_setIR (setAR s ka) ki ri mi
        have hinv2 : RInv m Ta Ti Tn (setIR (setAR s ka) ki) :=
          ⟨⟨qa, qi, hinv.rt.nak⟩, fun hh => absurd hh hrs, hinv.del, hinv.noIgnore⟩
        obtain ⟨c1, c2⟩ := phi_handleTimeoutMain (setIR (setAR s ka) ki) now ha hinv2 (fun hh => absurd hh hrs)
        rcases hdue with x | x | x | x
        · have := (update_due s.timer.ack now x.1 x.2).2 (by omega)
          rw [hka] at this
          have := a2 ha this
          omega
        · have := c2 (Or.inr (Or.inl x)); omega
        · have := (update_due s.timer.inactivity now x.1 x.2).2 (by omega)
          rw [hki] at this
          have := b2 ha this
          omega
        · have := c2 (Or.inr (Or.inr (Or.inr x))); omega
  · exact (phi_handleTimeoutMain s now ha hinv hq).2 hdue

end Cfdp.Recv

namespace Cfdp.Recv
open Cfdp.Codec Cfdp.Gen Cfdp.Timer Cfdp.Send

/-! ### transmissions -/

/-- a fault never raises the potential (whatever its handler) -/
theorem phi_cancelInner_le (s : State) (now : Nat) : phi (cancelInner s now) ≤ phi s := by
  by_cases ha : s.state = .Active
  · by_cases hc : s.recvState = .Cancelled
    · -- cancelled again: the phase stays, the NAK timer is stopped
      simp only [cancelInner]
      repeat' split
      all_goals first
        | (have : phi (emit (shutdown { s with recvState := .Cancelled, timer := { s.timer with nak := s.timer.nak.pause now } } now)
              (.finished s.condition s.delivery s.fileStatus .Terminated s.status [])) = 0 := phi_inactive (by simp [shutdown, emit])
           simp only [shutdown, emit] at this ⊢
           omega)
        | (simp only [phi, emit, prepareFinished, nakU, promptN, ha, hc, beq_self_eq_true, if_true]
           have hp : (s.timer.nak.pause now).paused = true := rfl
           simp only [hp, if_true]
           split <;> omega)
    · have := phi_cancelInner s now
      have := lowC_le s ha hc
      omega
  · have : phi (cancelInner s now) = 0 := by
      apply phi_inactive
      simp only [cancelInner]
      repeat' split
      all_goals (simp [emit, prepareFinished, shutdown]; try exact ha)
    omega

theorem phi_handleFault_le (s : State) (c : Condition) (now : Nat) : phi (handleFault s c now).1 ≤ phi s := by
  have e0 : phi (emit { s with condition := c } (.fault c (getProgress s))) = phi s := rfl
  simp only [handleFault, dispatchFault]
  split
  · exact Nat.le_of_eq e0
  · exact Nat.le_trans (phi_cancelInner_le _ now) (Nat.le_of_eq e0)
  · rw [phi_suspend]; exact Nat.zero_le _
  · rw [phi_abandon]; exact Nat.zero_le _

/-- the state with another request queue -/
def withNaks (s : State) (l : List (Nat × Nat)) : State := { s with naks := l }

theorem sendNaksTimer_eq (s : State) (now : Nat) :
    sendNaksTimer s now =
      if s.nakReceived == s.received then
        (if (s.timer.nak.limitReached now).2 then
          (if !(handleFault (setNR s (s.timer.nak.limitReached now).1) .NakLimitReached now).2 then
            ((handleFault (setNR s (s.timer.nak.limitReached now).1) .NakLimitReached now).1, true)
           else (setNR (handleFault (setNR s (s.timer.nak.limitReached now).1) .NakLimitReached now).1
              ((handleFault (setNR s (s.timer.nak.limitReached now).1) .NakLimitReached now).1.timer.nak.restart now), false))
         else (setNR s ((s.timer.nak.limitReached now).1.restart now), false))
      else ({ setNR s (s.timer.nak.reset now) with nakReceived := s.received }, false) := by
  unfold sendNaksTimer setNR
  rfl

/-- the potential of a collecting transaction whose NAK counter was just re-armed below its limit -/
theorem phi_rearmed (s : State) (k : Counter) (l : List (Nat × Nat)) (ha : s.state = .Active) (hr : s.recvState = .ReceiveData)
    (hnr : (s.nakReceived != s.received) = false) (hk : k.room ≤ s.timer.nak.room) (hk1 : 1 ≤ k.room)
    (hm : k.max = s.timer.nak.max) : phi (withNaks (setNR s k) l) ≤ phi s := by
  rw [phi_rd s ha hr, phi_rd (withNaks (setNR s k) l) ha hr, nakP_eq, nakP_eq]
  simp only [withNaks, setNR, hnr, hm]
  have hz : (k.room == 0) = false := by
    have : k.room ≠ 0 := by omega
    simpa using this
  simp only [nakPv, Bool.false_eq_true, if_false, hz, Bool.or_false, Bool.and_false, Nat.add_zero]
  omega

theorem phi_reset (s : State) (now : Nat) (l : List (Nat × Nat)) (ha : s.state = .Active) (hr : s.recvState = .ReceiveData)
    (hnr : (s.nakReceived != s.received) = true) :
    phi (withNaks { setNR s (s.timer.nak.reset now) with nakReceived := s.received } l) + 1 ≤ phi s := by
  rw [phi_rd s ha hr, phi_rd (withNaks { setNR s (s.timer.nak.reset now) with nakReceived := s.received } l) ha hr, nakP_eq, nakP_eq]
  have h1 : (s.timer.nak.reset now).max = s.timer.nak.max := rfl
  have h2 : (s.timer.nak.reset now).room = s.timer.nak.max := by simp [Counter.room, Counter.reset]
  simp only [withNaks, setNR, hnr, h1, h2, bne_self_eq_false]
  simp only [nakPv, Bool.false_eq_true, if_false, if_true, Bool.false_or]
  have a1 : (if (!(s.timer.nak.reset now).paused && l.isEmpty && s.timer.nak.max == 0) = true then 1 else 0) ≤ 1 := by
    split <;> omega
  omega

/-- outside the collecting phase only the flag "NAK timer running" can go up -/
theorem phi_setNR_other (s : State) (k : Counter) (l : List (Nat × Nat)) (nr : Nat) (hr : s.recvState ≠ .ReceiveData) :
    phi (withNaks { setNR s k with nakReceived := nr } l) ≤ phi s + 1 := by
  by_cases ha : s.state = .Active
  · have hu : nakU (withNaks { setNR s k with nakReceived := nr } l) ≤ 1 := nakU_le _
    have hp : promptN (withNaks { setNR s k with nakReceived := nr } l) = promptN s := rfl
    cases hq : s.recvState with
    | ReceiveData => exact absurd hq hr
    | Finished =>
      have e1 : phi (withNaks { setNR s k with nakReceived := nr } l) =
          4 + 2 * (s.timer.ack.max + s.timer.inactivity.max) + 2 * s.timer.ack.room + 2 * s.timer.inactivity.room
            + s.delayed.length + nakU (withNaks { setNR s k with nakReceived := nr } l) + promptN s := by
        rw [← hp]
        simp only [phi, withNaks, setNR, ha, hq, beq_self_eq_true, if_true]
      have e2 : phi s = 4 + 2 * (s.timer.ack.max + s.timer.inactivity.max) + 2 * s.timer.ack.room + 2 * s.timer.inactivity.room
            + s.delayed.length + nakU s + promptN s := by
        simp only [phi, ha, hq, beq_self_eq_true, if_true]
      omega
    | Cancelled =>
      have e1 : phi (withNaks { setNR s k with nakReceived := nr } l) =
          1 + 2 * s.timer.ack.room + 2 * s.timer.inactivity.room
            + s.delayed.length + nakU (withNaks { setNR s k with nakReceived := nr } l) + promptN s := by
        rw [← hp]
        simp only [phi, withNaks, setNR, ha, hq, beq_self_eq_true, if_true]
      have e2 : phi s = 1 + 2 * s.timer.ack.room + 2 * s.timer.inactivity.room
            + s.delayed.length + nakU s + promptN s := by
        simp only [phi, ha, hq, beq_self_eq_true, if_true]
      omega
  · have : phi (withNaks { setNR s k with nakReceived := nr } l) = 0 := phi_inactive ha
    omega

end Cfdp.Recv

namespace Cfdp.Timer
/-- updating twice at the same instant is updating once -/
theorem update_idem (c : Counter) (now : Nat) (hT : 0 < c.timeout) (hc : c.Ok) : (c.update now).update now = c.update now := by
  by_cases hp : c.paused = true
  · simp only [Counter.update, hp, if_true]
  · have hp' : c.paused = false := by simpa using hp
    obtain ⟨h1, h2, _⟩ := updateLoop_closed (now - c.start + 1) now c hT hc
      (Nat.lt_succ_of_le (Nat.div_le_self _ _))
    obtain ⟨f1, _, _, f4⟩ := updateLoop_fields (now - c.start + 1) now c
    have hu : c.update now = updateLoop (now - c.start + 1) now c := by
      simp only [Counter.update, hp', Bool.false_eq_true, if_false]
    rw [hu]
    generalize updateLoop (now - c.start + 1) now c = c' at h2 f1 f4
    have hlt : now - c'.start < c'.timeout := by
      rw [h2, f1]
      have hm := Nat.mod_lt (now - c.start) hT
      have hd := Nat.div_add_mod (now - c.start) c.timeout
      have hmul : c.timeout * ((now - c.start) / c.timeout) = (now - c.start) / c.timeout * c.timeout := Nat.mul_comm _ _
      omega
    have hp2 : c'.paused = false := by rw [f4]; exact hp'
    simp only [Counter.update, hp2, Bool.false_eq_true, if_false]
    have hf : now - c'.start + 1 = (now - c'.start) + 1 := rfl
    rw [hf]
    simp only [updateLoop]
    rw [if_neg (by omega)]
end Cfdp.Timer

namespace Cfdp.Recv
open Cfdp.Codec Cfdp.Gen Cfdp.Timer Cfdp.Send

/-- how many requests one NAK PDU takes off the queue -/
def nakTake (s : State) : Nat :=
  min s.naks.length (max 1 ((maxNakNum s.cfg.fss s.cfg.seg).getD 0))

theorem nakTake_pos (s : State) (h : s.naks ≠ []) : 1 ≤ nakTake s := by
  have : 1 ≤ s.naks.length := by
    cases hn : s.naks with
    | nil => exact absurd hn h
    | cons x xs => simp
  simp only [nakTake]
  omega

/-- the three ways `send_naks` can go: the NAK limit is declared; the timer is re-armed below its
limit; the count starts afresh because new data arrived since the previous NAK -/
theorem sendNaks_cases {m Ta Ti Tn : Nat} (s : State) (now : Nat) (hq : RT m Ta Ti Tn s.timer)
    (hig : handlerFor s .NakLimitReached ≠ .Ignore) :
    ((s.nakReceived != s.received) = false ∧
      ∃ k, k.max = s.timer.nak.max ∧ sendNaks s now = (handleFault (setNR s k) .NakLimitReached now).1) ∨
    ((s.nakReceived != s.received) = false ∧
      ∃ k pl, k.room ≤ s.timer.nak.room ∧ 1 ≤ k.room ∧ k.max = s.timer.nak.max ∧ CQ m Tn k ∧
        sendNaks s now = sendPayload (withNaks (setNR s k) (s.naks.drop (nakTake s))) pl) ∨
    ((s.nakReceived != s.received) = true ∧
      ∃ pl, sendNaks s now = sendPayload (withNaks { setNR s (s.timer.nak.reset now) with nakReceived := s.received }
        (s.naks.drop (nakTake s))) pl) := by
  simp only [sendNaks]
  rw [sendNaksTimer_eq]
  cases hnr : (s.nakReceived == s.received) with
  | true =>
    have hnr' : (s.nakReceived != s.received) = false := by simp [bne, hnr]
    simp only [if_true]
    obtain ⟨k1, hk1⟩ : ∃ k, s.timer.nak.update now = k := ⟨_, rfl⟩
    have m1 : k1.max = s.timer.nak.max := by rw [← hk1]; exact max_update _ _
    have r1 : k1.room ≤ s.timer.nak.room := by rw [← hk1]; exact room_update _ _
    have q1 : CQ m Tn k1 := by rw [← hk1]; exact cq_update hq.nak now
    simp only [Counter.limitReached, hk1]
    by_cases hreached : (k1.count == k1.max) = true
    · left
      have hig' : handlerFor (setNR s k1) .NakLimitReached ≠ .Ignore := hig
      have hf := (phi_handleFault (setNR s k1) .NakLimitReached now hig').2
      simp only [hreached, if_true, hf, Bool.not_false]
      exact ⟨hnr', k1, m1, rfl⟩
    · right; left
      have hnr2 : (k1.count == k1.max) = false := by simpa using hreached
      have hroom : 1 ≤ k1.room := by
        have := q1.1
        simp only [Counter.room, Counter.Ok] at *
        have : k1.count ≠ k1.max := by simpa using hnr2
        omega
      simp only [hnr2, Bool.false_eq_true, if_false, maxNakNum]
      refine ⟨hnr', k1.restart now, _, ?_, ?_, ?_, cq_restart q1 now, rfl⟩
      · exact Nat.le_trans (room_restart _ _) r1
      · -- restarting a counter that was just updated at the same instant changes no count
        have : (k1.restart now).room = (k1.update now).room := rfl
        rw [this]
        have hu : k1.update now = k1 ∨ True := Or.inr trivial
        -- room of an update of an updated counter: bounded below through Ok and "not reached"
        have q2 : CQ m Tn (k1.update now) := cq_update q1 now
        have hle : (k1.update now).room ≤ k1.room := room_update _ _
        -- the second update cannot reach the limit either: it is the same instant
        have hsame : k1.update now = k1 := by
          rw [← hk1]
          exact update_idem s.timer.nak now hq.nak.2.1 hq.nak.1
        rw [hsame]; exact hroom
      · rw [max_restart]; exact m1
  | false =>
    have hnr' : (s.nakReceived != s.received) = true := by simp [bne, hnr]
    right; right
    simp only [Bool.false_eq_true, if_false, maxNakNum]
    exact ⟨hnr', _, rfl⟩

end Cfdp.Recv
