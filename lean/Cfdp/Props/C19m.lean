import Cfdp.Props.C02m
set_option linter.unusedSimpArgs false

/-! # C19: a receiver resumed in its closing handshake picks it up - under further losses

`C19_resume_lossy_rounds` (Props/C19l.lean) is the resume in the data-recovery phase.  Here the receiver was suspended after
it had transmitted its Finished PDU (after a delivery, or after a cancel): the Resume.request starts the positive-ACK
and the inactivity counters afresh and leaves the receiver in the starting state of the Finished retransmission loop
(`resume_enters_wait`), so the Finished PDU or its ACK lost again and again below the limits - counted from the
resume - still ends both transactions with the outcome the receiver had decided (`C19_resume_then_lost_finisheds`). -/
namespace Cfdp.Loop
open Cfdp.Codec Cfdp.Gen Cfdp.Timer Cfdp.Recv Cfdp.Send

/-- **a resume in the closing handshake enters the retransmission loop** -/
theorem resume_enters_wait {mx Ta Ti Tn : Nat} (ph : RecvState) (r : Recv.State) (t : Nat) (f : Finished)
    (hmode : r.cfg.mode = .Acknowledged) (hsus : r.state = .Suspended) (hrs : r.recvState = ph)
    (hph : ph = .Finished ∨ ph = .Cancelled) (hpr : r.prompt = none) (hack : r.ack = none)
    (hfin : r.finished = some (f, false)) (hdel : r.delayed = []) (hrt : RT mx Ta Ti Tn r.timer) :
    WF ph f (recvStep r t .resume) ∧ (recvStep r t .resume).condition = r.condition ∧
    RT mx Ta Ti Tn (recvStep r t .resume).timer ∧ AB t 0 (recvStep r t .resume).timer.ack ∧
    IB Ti t (max t t) (recvStep r t .resume).timer.inactivity := by
  have hnt : ((clrR r).state == TransactionState.Terminated) = false := by
    show (r.state == TransactionState.Terminated) = false; rw [hsus]; rfl
  have e1 : recvStep r t .resume = Recv.resume (clrR r) t := by
    rw [recvStep_eq]; simp only [hnt, Bool.false_eq_true, if_false]
  have hrt2 := rt_recvStep hrt t .resume
  have hst := (C19_recv_resume (clrR r) t).1
  have k1 : (clrR r).finished = some (f, false) := hfin
  have htm : (Recv.resume (clrR r) t).timer =
      { inactivity := r.timer.inactivity.reset t, ack := r.timer.ack.reset t, nak := r.timer.nak } := by
    rcases hph with hp | hp
    · have k2 : (clrR r).recvState = .Finished := by rw [← hp]; exact hrs
      simp only [Recv.resume, Recv.emit, k2, k1]; rfl
    · have k2 : (clrR r).recvState = .Cancelled := by rw [← hp]; exact hrs
      simp only [Recv.resume, Recv.emit, k2, k1]; rfl
  rw [e1] at hrt2 ⊢
  refine ⟨⟨hst, by rw [Recv.cfg_resume]; exact hmode, by rw [Recv.recvState_resume]; exact hrs, hph,
    by rw [Recv.prompt_resume]; exact hpr, by rw [Recv.ack_resume]; exact hack, by rw [Recv.finished_resume]; exact hfin,
    by rw [Recv.delayed_resume]; exact hdel⟩, by rw [Recv.condition_resume]; rfl, hrt2, ?_, ?_⟩
  · rw [htm]; exact ⟨rfl, rfl, Nat.le_refl _⟩
  · rw [htm]; exact ⟨by show 0 * Ti ≤ t - t; omega, Nat.le_refl _, Nat.le_max_left _ _⟩

/-- **C19 (resume picks the closing handshake up, under further losses).**  A receiver suspended after it had transmitted its
Finished PDU - after a delivery or after a cancel - is resumed at `t`; the Finished PDU, or the sender's ACK of it, is
lost again and again: as long as the expiries of the receiver's positive-ACK timer, counted from the resume, stay below
the limit and within the inactivity limit (`FairT`), each is followed by a retransmission, and whichever of them
reaches the sender ends it with the receiver's outcome, and its ACK ends the receiver - as for a transfer that was
never suspended. -/
theorem C19_resume_then_lost_finisheds {mx Ta Ti Tn : Nat} (ph : RecvState) (s : Send.State) (r : Recv.State)
    (t t1 t2 : Nat) (f : Finished) (ts : List Nat)
    (hsa : s.state = .Active) (hsm : s.cfg.mode = .Acknowledged) (hsp : s.prompt = none)
    (hmode : r.cfg.mode = .Acknowledged) (hsus : r.state = .Suspended) (hrs : r.recvState = ph)
    (hph : ph = .Finished ∨ ph = .Cancelled) (hpr : r.prompt = none) (hack : r.ack = none)
    (hfin : r.finished = some (f, false)) (hdel : r.delayed = []) (hrt : RT mx Ta Ti Tn r.timer)
    (hf : FairT mx Ta Ti t 0 t ts) :
    (finRounds (recvStep r t .resume) ts).2.length = ts.length ∧
    ∀ pf ∈ (finRounds (recvStep r t .resume) ts).2, ∃ pa,
      (sendStep (sendStep s t1 (.pdu pf)) t1 .send).sent = some pa ∧
      (sendStep (sendStep s t1 (.pdu pf)) t1 .send).state = .Terminated ∧
      (sendStep (sendStep s t1 (.pdu pf)) t1 .send).condition = f.cond ∧
      (recvStep (finRounds (recvStep r t .resume) ts).1 t2 (.pdu pa)).state = .Terminated ∧
      (recvStep (finRounds (recvStep r t .resume) ts).1 t2 (.pdu pa)).condition = r.condition := by
  obtain ⟨w, wc, wrt, wab, wib⟩ := resume_enters_wait ph r t f hmode hsus hrs hph hpr hack hfin hdel hrt
  obtain ⟨c1, c2⟩ := lost_finisheds_round ph s _ ts t 0 t t1 t2 f hsa hsm hsp w wrt wab wib hf
  refine ⟨c1, fun pf hpf => ?_⟩
  obtain ⟨pa, q1, q2, q3, q4, q5⟩ := c2 pf hpf
  exact ⟨pa, q1, q2, q3, q4, by rw [q5, wc]⟩

/-! ### the premises are satisfiable -/

/-- the receiver of `exRF` (file delivered, Finished PDU out), suspended at clock reading 100 -/
def exRFs : Recv.State := recvStep exRF 100 .suspend

example : (finRounds (recvStep exRFs 7000000000 .resume) [8000000000, 9000000500]).2.length = 2 ∧
    ∀ pf ∈ (finRounds (recvStep exRFs 7000000000 .resume) [8000000000, 9000000500]).2,
      ∃ pa, (sendStep (sendStep exS4 9000000600 (.pdu pf)) 9000000600 .send).sent = some pa ∧
        (sendStep (sendStep exS4 9000000600 (.pdu pf)) 9000000600 .send).state = .Terminated := by
  have hf : ∃ f, exRFs.finished = some (f, false) := ⟨_, rfl⟩
  obtain ⟨f, hf⟩ := hf
  have hri : RI cfgL.max (cfgL.ta * 1000000000) (cfgL.ti * 1000000000) (cfgL.tn * 1000000000) exRFs :=
    ri_recvStep (ri_run _ _ (ri_new cfgL [([], .dir)] 0 (by decide) (by decide) (by decide) ⟨by decide, by decide, by decide⟩)) 100 .suspend
  obtain ⟨c1, c2⟩ := C19_resume_then_lost_finisheds (mx := 4) (Ta := 1000000000) (Ti := 3000000000) (Tn := 1000000000)
    .Finished exS4 exRFs 7000000000 9000000600 9000000700 f [8000000000, 9000000500] (by decide) (by decide) (by decide)
    (by decide) (by decide) (by decide) (Or.inl rfl) (by decide) (by decide) hf (by decide) hri.inv.rt
    ⟨by decide, by decide, by decide, by decide, by decide, by decide, by decide, by decide, by decide, by decide, trivial⟩
  refine ⟨c1, fun pf hpf => ?_⟩
  obtain ⟨pa, q1, q2, _⟩ := c2 pf hpf
  exact ⟨pa, q1, q2⟩

end Cfdp.Loop

#print axioms Cfdp.Loop.C19_resume_then_lost_finisheds
#print axioms Cfdp.Loop.C19_send_quiet
#print axioms Cfdp.Loop.C19_send_no_timer_fault
#print axioms Cfdp.Loop.C19_send_permit_ignored
#print axioms Cfdp.Loop.C19_send_resume
#print axioms Cfdp.Loop.C19_recv_quiet
#print axioms Cfdp.Loop.C19_recv_no_timer_fault
#print axioms Cfdp.Loop.C19_recv_suspend
#print axioms Cfdp.Loop.C19_recv_resume
#print axioms Cfdp.Loop.C19_send_run_quiet
#print axioms Cfdp.Net.C19_completes_despite_suspensions
#print axioms Cfdp.Loop.C19_resume_round
#print axioms Cfdp.Loop.C19_resume_lossy_rounds
