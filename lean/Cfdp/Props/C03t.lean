import Cfdp.Props.C03r

/-! # C03, receiver, part 2

The invariants the potential argument of `Props/C03r.lean` needs, over every loop event (`AckP`,
`DelOk`, `RT`, `Act`); the transmissions (`phi_sendPdu`: the lexicographic measure potential / Prompt
to answer / other things to transmit); the task loop left alone (`rdrain`) and the three theorems
`C03_recv_drains`, `C03_recv_bounded_wakeups`, `C03_recv_bounded_time`. -/
namespace Cfdp.Recv
open Cfdp.Codec Cfdp.Gen Cfdp.Timer Cfdp.Send

/-- while a receive transaction collects data its positive-ACK timer does not run (it is started by
the first Finished PDU) -/
def AckP (s : State) : Prop := s.recvState = .ReceiveData → s.timer.ack.paused = true

theorem ackp_frame {s s' : State} (h : AckP s) (h1 : s'.recvState = s.recvState) (h2 : s'.timer = s.timer) : AckP s' := by
  unfold AckP; rw [h1, h2]; exact h

theorem ackp_of_not {s : State} (h : s.recvState ≠ .ReceiveData) : AckP s := fun hh => absurd hh h

syntax "ackp_leaf" : tactic
macro_rules
  | `(tactic| ackp_leaf) => `(tactic|
      (intro hst; dsimp only at hst ⊢;
       first
         | rfl
         | contradiction
         | (simp only [paused_pause]; done)
         | ((try simp only [paused_limitReached, paused_timeoutOccurred, paused_update]);
            first
              | (apply_assumption; assumption)
              | assumption
              | (simp_all; done)
              | refine (show AckP _ from ?_) hst)))

syntax "ackp_go" "[" term,* "]" : tactic
macro_rules
  | `(tactic| ackp_go [$ls,*]) => `(tactic|
      (((try dsimp only) <;> repeat' (first
        | assumption
        $[| with_reducible apply $ls]*
        | peel ackp_frame 2
        | ackp_leaf)) <;> done))

variable {s : State} {now : Nat}

theorem ackp_shutdown (h : AckP s) : AckP (shutdown s now) := by
  simp only [shutdown]; ackp_go []
theorem ackp_suspend (h : AckP s) : AckP (suspend s now) := by
  simp only [suspend]; ackp_go []
theorem ackp_abandon (h : AckP s) : AckP (abandon s now) := by
  simp only [abandon]; ackp_go [ackp_shutdown]
theorem ackp_cancelInner (s : State) (now : Nat) : AckP (cancelInner s now) :=
  ackp_of_not (by rw [recvState_cancelInner]; decide)
theorem ackp_resume (h : AckP s) : AckP (resume s now) := by
  simp only [resume]
  repeat' split
  all_goals ackp_go []
theorem ackp_handleFault (h : AckP s) (c : Condition) : AckP (handleFault s c now).1 := by
  simp only [handleFault, dispatchFault]
  repeat' split
  all_goals ackp_go [ackp_cancelInner, ackp_suspend, ackp_abandon]
theorem ackp_checkFileSize (h : AckP s) (n : Nat) : AckP (checkFileSize s n now) := by
  simp only [checkFileSize]
  repeat' split
  all_goals ackp_go [ackp_handleFault]
theorem ackp_sendNaks (h : AckP s) : AckP (sendNaks s now) := by
  simp only [sendNaks, sendNaksTimer]
  repeat' split
  all_goals ackp_go [ackp_handleFault]
theorem ackp_sendFinished (s : State) (now : Nat) (h : s.recvState ≠ .ReceiveData) : AckP (sendFinished s now) :=
  ackp_of_not (by rw [recvState_sendFinished]; exact h)
theorem ackp_sendPdu (h : AckP s) : AckP (sendPdu s now) := by
  simp only [sendPdu, answerPrompt]
  repeat' split
  all_goals first
    | (apply ackp_sendFinished; simp_all; done)
    | ackp_go [ackp_sendNaks]
theorem ackp_verifyStage (h : AckP s) : AckP (verifyStage s now).1 := by
  simp only [verifyStage]
  repeat' split
  all_goals ackp_go [ackp_handleFault]
theorem ackp_finalizeFilePart (h : AckP s) : AckP (finalizeFilePart s now).1 := by
  simp only [finalizeFilePart, copyStage]
  repeat' split
  all_goals ackp_go [ackp_verifyStage]
theorem ackp_finalizeReceive (h : AckP s) : AckP (finalizeReceive s now).1 := by
  simp only [finalizeReceive]
  repeat' split
  all_goals ackp_go [ackp_handleFault, ackp_finalizeFilePart]
theorem ackp_checkFinished (h : AckP s) : AckP (checkFinished s now) := by
  simp only [checkFinished]
  repeat' split
  all_goals ackp_go [ackp_finalizeReceive]
theorem ackp_immediateNak (h : AckP s) (a b : Nat) : AckP (immediateNak s a b now) := by
  simp only [immediateNak]
  repeat' split
  all_goals ackp_go []
theorem ackp_ackFileData (h : AckP s) (off : Nat) (d : Bytes) : AckP (ackFileData s off d now) := by
  simp only [ackFileData]
  ackp_go [ackp_checkFinished, ackp_immediateNak]
theorem ackp_scheduleNaks (h : AckP s) (n : Nat) : AckP (scheduleNaks s n now) := by
  simp only [scheduleNaks]
  repeat' split
  all_goals ackp_go []
theorem ackp_ackEof (h : AckP s) (e : Eof) : AckP (ackEof s e now) := by
  simp only [ackEof]
  repeat' split
  all_goals ackp_go [ackp_scheduleNaks, ackp_checkFinished, ackp_checkFileSize, ackp_cancelInner]
theorem ackp_unackEof (h : AckP s) (e : Eof) : AckP (unackEof s e now) := by
  simp only [unackEof, unackEofNoError, unackComplete, unackCheckMissing, unackFinish]
  repeat' split
  all_goals ackp_go [ackp_finalizeReceive, ackp_handleFault, ackp_checkFileSize, ackp_cancelInner, ackp_shutdown]
theorem ackp_processPdu (h : AckP s) (p : Pdu) : AckP (processPdu s p now).1 := by
  have h0 : AckP (pduArrived s now) := by simp only [pduArrived]; ackp_go []
  simp only [processPdu]
  generalize pduArrived s now = t at h0
  simp only [processPduBody]
  cases hpl : p.payload <;> cases hm : t.cfg.mode <;> dsimp only
  all_goals (repeat' split)
  all_goals ackp_go [ackp_ackFileData, ackp_ackEof, ackp_unackEof, ackp_checkFinished, ackp_shutdown]
theorem ackp_handleInactivity (h : AckP s) : AckP (handleInactivity s now).1 := by
  simp only [handleInactivity]
  repeat' split
  all_goals ackp_go [ackp_abandon, ackp_handleFault]


theorem recvState_handleAckTimer_ne (s : State) (now : Nat) (b : Bool) (h : s.recvState ≠ .ReceiveData) :
    (handleAckTimer s now b).recvState ≠ .ReceiveData := by
  simp only [handleAckTimer]
  repeat' split
  all_goals first
    | (rw [recvState_abandon]; exact h)
    | (simp only [handleFault, dispatchFault]
       repeat' split
       all_goals first
         | (rw [recvState_cancelInner]; decide)
         | (rw [recvState_suspend]; exact h)
         | (rw [recvState_abandon]; exact h)
         | exact h)
    | (rw [recvState_setFinishedFlag]; exact h)
    | exact h

theorem ackp_handleTimeoutMain (h : AckP s) : AckP (handleTimeoutMain s now) := by
  have h1 : AckP (handleInactivity (handleDelayed s now) now).1 :=
    ackp_handleInactivity (ackp_frame h (recvState_handleDelayed _ _) (timer_handleDelayed _ _))
  simp only [handleTimeoutMain]
  generalize (handleInactivity (handleDelayed s now) now) = r at h1
  repeat' split
  all_goals first
    | exact h
    | exact h1
    | (apply ackp_of_not; apply recvState_handleAckTimer_ne; dsimp only; simp_all; done)
    | ackp_go []

theorem ackp_handleTimeout (h : AckP s) : AckP (handleTimeout s now) := by
  simp only [handleTimeout, unackFinishedLimit]
  repeat' split
  all_goals ackp_go [ackp_shutdown, ackp_handleTimeoutMain]

end Cfdp.Recv

namespace Cfdp.Loop
open Cfdp.Codec Cfdp.Gen Cfdp.Timer Cfdp.Recv

theorem ackp_recvStep {s : Recv.State} (h : AckP s) (now : Nat) (e : Ev) : AckP (recvStep s now e) := by
  have h0 : AckP { s with sent := none, out := [] } := ackp_frame h rfl rfl
  simp only [recvStep]
  repeat' split
  all_goals first
    | exact h0
    | exact ackp_processPdu h0 _
    | exact ackp_sendPdu h0
    | exact ackp_handleTimeout h0
    | exact ackp_cancelInner _ _
    | exact ackp_suspend h0
    | exact ackp_resume h0
    | exact ackp_shutdown h0
    | exact ackp_frame h0 (Recv.recvState_sendReport _) (Recv.timer_sendReport _)

end Cfdp.Loop

namespace Cfdp.Recv
open Cfdp.Codec Cfdp.Gen Cfdp.Timer Cfdp.Send

theorem delok_frame {s s' : State} (h : DelOk s) (h1 : s'.delayed = s.delayed) : DelOk s' := by
  unfold DelOk; rw [h1]; exact h

theorem delok_append {s : State} (h : DelOk s) (c : Counter) (a b : Nat) (hc : c.paused = false) (l : List (Nat × Nat))
    (t : Timer) : DelOk { s with delayed := s.delayed ++ [(c, a, b)], naks := l, timer := t } := by
  intro x hx
  dsimp only at hx
  rcases List.mem_append.mp hx with hx | hx
  · exact h x hx
  · have : x = (c, a, b) := by simpa using hx
    rw [this]; exact hc

theorem expiredPrefix_paused (now : Nat) (l : List (Counter × Nat × Nat)) (h : ∀ x ∈ l, x.1.paused = false) :
    ∀ x ∈ (expiredPrefix now l).1, x.1.paused = false := by
  induction l with
  | nil => intro x hx; cases hx
  | cons y rest ih =>
    obtain ⟨c, a, b⟩ := y
    have hc : c.paused = false := h (c, a, b) (List.mem_cons_self ..)
    have hr : ∀ x ∈ rest, x.1.paused = false := fun x hx => h x (List.mem_cons_of_mem _ hx)
    have hu : (c.timeoutOccurred now).1.paused = false := by rw [paused_timeoutOccurred]; exact hc
    intro x hx
    cases ht : (c.timeoutOccurred now).2
    · simp only [expiredPrefix, ht, Bool.false_eq_true, if_false] at hx
      rcases List.mem_cons.mp hx with hx | hx
      · rw [hx]; exact hu
      · exact hr x hx
    · simp only [expiredPrefix, ht, if_true] at hx
      rcases List.mem_cons.mp hx with hx | hx
      · rw [hx]; exact hu
      · exact ih hr x hx

theorem delok_handleDelayed {s : State} (h : DelOk s) (now : Nat) : DelOk (handleDelayed s now) := by
  have hp := expiredPrefix_paused now s.delayed h
  intro x hx
  simp only [handleDelayed] at hx
  split at hx
  · split at hx
    all_goals (dsimp only at hx; exact hp x (List.mem_of_mem_drop hx))
  · exact hp x hx

variable {s : State} {now : Nat}

theorem delok_immediateNak (h : DelOk s) (a b : Nat) : DelOk (immediateNak s a b now) := by
  simp only [immediateNak]
  repeat' split
  all_goals first
    | exact h
    | exact delok_frame h rfl
    | (exact delok_append (s := s) h _ _ _ rfl _ _)

theorem delok_scheduleNaks (h : DelOk s) (n : Nat) : DelOk (scheduleNaks s n now) := by
  simp only [scheduleNaks]
  repeat' split
  all_goals first
    | exact h
    | exact delok_frame h rfl
    | (exact delok_append (s := s) h _ _ _ rfl _ _)

theorem delok_ackFileData (h : DelOk s) (off : Nat) (d : Bytes) : DelOk (ackFileData s off d now) := by
  simp only [ackFileData]
  have h1 : DelOk (emit (storeFileData s off d) (.fileSegmentRecv off d.length)) := delok_frame h (by simp)
  exact delok_frame (delok_immediateNak (now := now) h1 ((Seg.endOf s.segs).getD 0) off) (by simp)

theorem delok_ackEof (h : DelOk s) (e : Eof) : DelOk (ackEof s e now) := by
  simp only [ackEof]
  repeat' split
  · apply delok_scheduleNaks
    apply delok_frame h
    simp [prepareAckEof]
  · apply delok_frame h
    simp [prepareAckEof]

theorem delok_processPdu (h : DelOk s) (p : Pdu) : DelOk (processPdu s p now).1 := by
  have h0 : DelOk (pduArrived s now) := delok_frame h (by simp)
  simp only [processPdu]
  generalize pduArrived s now = t at h0
  simp only [processPduBody]
  cases hpl : p.payload <;> cases hm : t.cfg.mode <;> dsimp only
  all_goals (repeat' split)
  all_goals first
    | exact h0
    | exact delok_ackFileData h0 _ _
    | exact delok_ackEof h0 _
    | (apply delok_frame h0; simp; done)

theorem delok_handleTimeoutMain (h : DelOk s) : DelOk (handleTimeoutMain s now) := by
  have h1 : DelOk (handleInactivity (handleDelayed s now) now).1 :=
    delok_frame (delok_handleDelayed h now) (by simp)
  simp only [handleTimeoutMain]
  generalize (handleInactivity (handleDelayed s now) now) = r at h1
  repeat' split
  all_goals first
    | exact h
    | exact h1
    | (apply delok_frame h1; simp; done)

theorem delok_handleTimeout (h : DelOk s) : DelOk (handleTimeout s now) := by
  simp only [handleTimeout]
  repeat' split
  all_goals first
    | exact h
    | exact delok_handleTimeoutMain h
    | (apply delok_frame h; simp; done)
    | (apply delok_handleTimeoutMain; apply delok_frame h; simp; done)

end Cfdp.Recv

namespace Cfdp.Loop
open Cfdp.Codec Cfdp.Gen Cfdp.Timer Cfdp.Recv

theorem delok_recvStep {s : Recv.State} (h : DelOk s) (now : Nat) (e : Ev) : DelOk (recvStep s now e) := by
  have h0 : DelOk { s with sent := none, out := [] } := delok_frame h rfl
  simp only [recvStep]
  repeat' split
  all_goals first
    | exact h0
    | exact delok_processPdu h0 _
    | exact delok_handleTimeout h0
    | (apply delok_frame h0; simp; done)

end Cfdp.Loop

namespace Cfdp.Recv
open Cfdp.Codec Cfdp.Gen Cfdp.Timer Cfdp.Send

theorem phi_sendPayload (s : State) (p : Payload) : phi (sendPayload s p) = phi s :=
  phi_congr (by simp) (by simp) (by simp) (by simp) (by simp) (by simp) (by simp) (by simp)

/-- while collecting, the potential with a non-empty request queue is the lowest -/
theorem phi_rd_mono_naks (s t : State) (ha : s.state = .Active) (hr : s.recvState = .ReceiveData)
    (hat : t.state = .Active) (hrt : t.recvState = .ReceiveData) (h3 : t.timer = s.timer)
    (h4 : t.delayed.length = s.delayed.length) (h6 : t.nakReceived = s.nakReceived) (h7 : t.received = s.received)
    (hne : t.naks.isEmpty = false) : phi t ≤ phi s := by
  rw [phi_rd s ha hr, phi_rd t hat hrt, nakP_eq, nakP_eq, h3, h4, h6, h7, hne]
  have := nakPv_nonempty (s.nakReceived != s.received) s.timer.nak.paused s.naks.isEmpty s.timer.nak.room s.timer.nak.room
    s.timer.nak.max (Nat.le_refl _)
  omega

theorem phi_sendNaks_rd {m Ta Ti Tn : Nat} (s : State) (now : Nat) (ha : s.state = .Active) (hr : s.recvState = .ReceiveData)
    (hq : RT m Ta Ti Tn s.timer) (hig : handlerFor s .NakLimitReached ≠ .Ignore) :
    phi (sendNaks s now) ≤ phi (withNaks s [(0, 0)]) ∧
    (phi (sendNaks s now) + 1 ≤ phi (withNaks s [(0, 0)]) ∨
      ((sendNaks s now).recvState = .ReceiveData ∧ (sendNaks s now).naks = s.naks.drop (nakTake s))) := by
  rcases sendNaks_cases s now hq hig with ⟨hnr, k, hm, he⟩ | ⟨hnr, k, pl, hk, hk1, hm, hcq, he⟩ | ⟨hnr, pl, he⟩
  · rw [he]
    have hig' : handlerFor (setNR s k) .NakLimitReached ≠ .Ignore := hig
    have h1 := (phi_handleFault (setNR s k) .NakLimitReached now hig').1
    have e1 : lowC (setNR s k) = lowC s := rfl
    have h2 := lowC_le (withNaks s [(0, 0)]) ha (by show s.recvState ≠ _; rw [hr]; decide)
    have e2 : lowC (withNaks s [(0, 0)]) = lowC s := rfl
    rw [e1] at h1; rw [e2] at h2
    exact ⟨by omega, Or.inl (by omega)⟩
  · rw [he, phi_sendPayload]
    have h1 : phi (withNaks (setNR s k) (s.naks.drop (nakTake s))) ≤ phi (withNaks s [(0, 0)]) :=
      phi_rearmed (withNaks s [(0, 0)]) k (s.naks.drop (nakTake s)) ha hr hnr hk hk1 hm
    refine ⟨h1, Or.inr ⟨?_, ?_⟩⟩
    · rw [recvState_sendPayload]; exact hr
    · rw [naks_sendPayload]; rfl
  · rw [he, phi_sendPayload]
    have h1 : phi (withNaks { setNR s (s.timer.nak.reset now) with nakReceived := s.received } (s.naks.drop (nakTake s))) + 1
        ≤ phi (withNaks s [(0, 0)]) :=
      phi_reset (withNaks s [(0, 0)]) now (s.naks.drop (nakTake s)) ha hr hnr
    exact ⟨by omega, Or.inl h1⟩

theorem phi_sendNaks_other {m Ta Ti Tn : Nat} (s : State) (now : Nat) (hr : s.recvState ≠ .ReceiveData)
    (hq : RT m Ta Ti Tn s.timer) (hig : handlerFor s .NakLimitReached ≠ .Ignore) :
    phi (sendNaks s now) ≤ phi s + 1 := by
  rcases sendNaks_cases s now hq hig with ⟨hnr, k, hm, he⟩ | ⟨hnr, k, pl, hk, hk1, hm, hcq, he⟩ | ⟨hnr, pl, he⟩
  · rw [he]
    have h1 := phi_handleFault_le (setNR s k) .NakLimitReached now
    have h2 : phi (setNR s k) ≤ phi s + 1 := phi_setNR_other s k s.naks s.nakReceived hr
    omega
  · rw [he, phi_sendPayload]
    exact phi_setNR_other s k _ s.nakReceived hr
  · rw [he, phi_sendPayload]
    exact phi_setNR_other s _ _ s.received hr

/-- the state with the Prompt taken -/
def noPrompt (s : State) : State := { s with prompt := none }

theorem answerPrompt_eq (s : State) (now : Nat) :
    answerPrompt s now = match s.prompt with
      | none => s
      | some .Nak => sendNaks (withNaks (noPrompt s) (getAllNaks (noPrompt s))) now
      | some .KeepAlive => sendPayload (noPrompt s) (.keepAlive (getProgress (noPrompt s))) := by
  unfold answerPrompt noPrompt withNaks
  split
  · rename_i h; rw [h]
  · rename_i k h; rw [h]; cases k <;> rfl

theorem phi_noPrompt (s : State) (l : List (Nat × Nat)) (ha : s.state = .Active) (hp : s.prompt.isSome = true) :
    (s.recvState ≠ .ReceiveData → phi (withNaks (noPrompt s) l) + 1 = phi s) ∧
    (s.recvState = .ReceiveData → phi (withNaks (withNaks (noPrompt s) l) [(0, 0)]) ≤ phi s) := by
  constructor
  · intro hr
    simp only [phi, withNaks, noPrompt, ha, beq_self_eq_true, if_true, promptN, hp, nakU]
    cases hq : s.recvState with
    | ReceiveData => exact absurd hq hr
    | Finished => simp
    | Cancelled => simp
  · intro hr
    exact phi_rd_mono_naks s _ ha hr ha hr rfl rfl rfl rfl rfl

/-- what is still to be transmitted apart from a Prompt answer -/
def sg (s : State) : Nat :=
  (if s.ack.isSome then 1 else 0) +
  (match s.recvState with
   | .ReceiveData => s.naks.length
   | _ => (match s.finished with | some (_, true) => 1 | _ => 0))


theorem step_ack (s : State) (a : Ack) (hsa : s.ack = some a) :
    phi (sendAckEof s) = phi s ∧ promptN (sendAckEof s) = promptN s ∧ sg (sendAckEof s) + 1 = sg s := by
  have e : sendAckEof s = sendPayload { s with ack := none } (.ack a) := by simp only [sendAckEof, hsa]
  rw [e]
  refine ⟨?_, ?_, ?_⟩
  · rw [phi_sendPayload]; rfl
  · simp only [promptN, prompt_sendPayload]
  · simp only [sg, ack_sendPayload, recvState_sendPayload, naks_sendPayload, finished_sendPayload, hsa]
    simp only [Option.isSome_none, Option.isSome_some, Bool.false_eq_true, if_false, if_true]
    omega

theorem sendFinished_eq (s : State) (now : Nat) (f : Finished) (h : s.finished = some (f, true)) :
    sendFinished s now = setFinishedFlag (sendPayload (setAR s (s.timer.ack.restart now)) (.finished f)) false := by
  simp only [sendFinished, setAR, h]

theorem step_finished (s : State) (now : Nat) (f : Finished) (h : s.finished = some (f, true)) (hack : s.ack.isSome = false)
    (hrs : s.recvState ≠ .ReceiveData) :
    phi (sendFinished s now) ≤ phi s ∧ promptN (sendFinished s now) = promptN s ∧ sg (sendFinished s now) + 1 = sg s := by
  rw [sendFinished_eq s now f h]
  refine ⟨?_, ?_, ?_⟩
  · rw [phi_setFinishedFlag, phi_sendPayload]
    exact (phi_setAR s _ (room_restart _ _) (max_restart _ _) hrs).1
  · have e : (setFinishedFlag (sendPayload (setAR s (s.timer.ack.restart now)) (.finished f)) false).prompt = s.prompt := by
      simp only [setFinishedFlag]; split <;> simp [setAR]
    simp only [promptN, e]
  · have e1 : (sendPayload (setAR s (s.timer.ack.restart now)) (.finished f)).finished = some (f, true) := by
      rw [finished_sendPayload]; exact h
    have e2 : setFinishedFlag (sendPayload (setAR s (s.timer.ack.restart now)) (.finished f)) false =
        { sendPayload (setAR s (s.timer.ack.restart now)) (.finished f) with finished := some (f, false) } := by
      simp only [setFinishedFlag, e1]
    rw [e2]
    cases hq : s.recvState with
    | ReceiveData => exact absurd hq hrs
    | Finished => simp [sg, setAR, hack, h, hq]
    | Cancelled => simp [sg, setAR, hack, h, hq]

/-- **every transmission of a receive transaction uses up the measure** (potential, Prompt to answer,
other things to transmit - in this order) -/
theorem phi_sendPdu {m Ta Ti Tn : Nat} (s : State) (now : Nat) (ha : s.state = .Active) (hinv : RInv m Ta Ti Tn s)
    (hp : hasPduToSend s = true) :
    phi (sendPdu s now) ≤ phi s ∧
    (phi (sendPdu s now) + 1 ≤ phi s ∨ promptN (sendPdu s now) < promptN s ∨
      (promptN (sendPdu s now) = promptN s ∧ sg (sendPdu s now) < sg s)) := by
  have hns : (s.state == TransactionState.Suspended) = false := by rw [ha]; rfl
  simp only [hasPduToSend, hns, Bool.false_eq_true, if_false] at hp
  by_cases hpr : s.prompt.isSome = true
  · have hpn : promptN s = 1 := by simp only [promptN, hpr, if_true]
    simp only [sendPdu, hpr, if_true]
    rw [answerPrompt_eq]
    cases hk : s.prompt with
    | none => rw [hk] at hpr; cases hpr
    | some k =>
      cases k with
      | Nak =>
        dsimp only
        obtain ⟨f1, f2⟩ := phi_noPrompt s (getAllNaks (noPrompt s)) ha hpr
        have hp0 : promptN (sendNaks (withNaks (noPrompt s) (getAllNaks (noPrompt s))) now) = 0 := by
          simp only [promptN, prompt_sendNaks]; rfl
        by_cases hrd : s.recvState = .ReceiveData
        · obtain ⟨g1, _⟩ := phi_sendNaks_rd (withNaks (noPrompt s) (getAllNaks (noPrompt s))) now ha hrd hinv.rt hinv.noIgnore.2.2
          have := f2 hrd
          exact ⟨by omega, Or.inr (Or.inl (by omega))⟩
        · have g1 := phi_sendNaks_other (withNaks (noPrompt s) (getAllNaks (noPrompt s))) now hrd hinv.rt hinv.noIgnore.2.2
          have := f1 hrd
          exact ⟨by omega, Or.inr (Or.inl (by omega))⟩
      | KeepAlive =>
        dsimp only
        rw [phi_sendPayload]
        have hp0 : promptN (sendPayload (noPrompt s) (.keepAlive (getProgress (noPrompt s)))) = 0 := by
          simp only [promptN, prompt_sendPayload]; rfl
        have hle : phi (noPrompt s) ≤ phi s := by
          by_cases hrd : s.recvState = .ReceiveData
          · rw [phi_rd s ha hrd, phi_rd (noPrompt s) ha hrd]; exact Nat.le_refl _
          · have : phi (noPrompt s) + 1 = phi s := (phi_noPrompt s s.naks ha hpr).1 hrd
            omega
        exact ⟨hle, Or.inr (Or.inl (by omega))⟩
  · have hpr' : s.prompt.isSome = false := by simpa using hpr
    simp only [sendPdu, hpr', Bool.false_eq_true, if_false]
    by_cases hack : s.ack.isSome = true
    · obtain ⟨a, hsa⟩ := Option.isSome_iff_exists.mp hack
      obtain ⟨a1, a2, a3⟩ := step_ack s a hsa
      cases hrs : s.recvState <;> simp only [hack, if_true] <;> exact ⟨by omega, Or.inr (Or.inr ⟨a2, by omega⟩)⟩
    · have hack' : s.ack.isSome = false := by simpa using hack
      cases hrs : s.recvState with
      | ReceiveData =>
        simp only [hrs, hack', hpr', Bool.false_or] at hp
        simp only [hack', Bool.false_eq_true, if_false, hp, if_true]
        have hne : s.naks ≠ [] := by intro h; rw [h] at hp; simp at hp
        obtain ⟨g1, g2⟩ := phi_sendNaks_rd s now ha hrs hinv.rt hinv.noIgnore.2.2
        have g3 : phi (withNaks s [(0, 0)]) ≤ phi s := phi_rd_mono_naks s _ ha hrs ha hrs rfl rfl rfl rfl rfl
        refine ⟨by omega, ?_⟩
        rcases g2 with g2 | ⟨g2, g4⟩
        · exact Or.inl (by omega)
        · refine Or.inr (Or.inr ⟨by simp only [promptN, prompt_sendNaks], ?_⟩)
          have ht := nakTake_pos s hne
          have hl : 1 ≤ s.naks.length := by
            cases hn : s.naks with
            | nil => exact absurd hn hne
            | cons x xs => simp
          simp only [sg, ack_sendNaks, g2, g4, hrs, List.length_drop]
          omega
      | Finished =>
        simp only [hrs] at hp
        simp only [hack', Bool.false_eq_true, if_false]
        cases hf : s.finished with
        | none => rw [hf] at hp; simp at hp
        | some x =>
          obtain ⟨f, b⟩ := x
          rw [hf] at hp
          have hb : b = true := by simpa using hp
          subst hb
          dsimp only
          obtain ⟨b1, b2, b3⟩ := step_finished s now f hf hack' (by rw [hrs]; decide)
          exact ⟨b1, Or.inr (Or.inr ⟨b2, by omega⟩)⟩
      | Cancelled =>
        simp only [hrs] at hp
        simp only [hack', Bool.false_eq_true, if_false]
        cases hf : s.finished with
        | none => rw [hf] at hp; simp at hp
        | some x =>
          obtain ⟨f, b⟩ := x
          rw [hf] at hp
          have hb : b = true := by simpa using hp
          subst hb
          dsimp only
          obtain ⟨b1, b2, b3⟩ := step_finished s now f hf hack' (by rw [hrs]; decide)
          exact ⟨b1, Or.inr (Or.inr ⟨b2, by omega⟩)⟩

end Cfdp.Recv

/-! ### the loop left alone -/
namespace Cfdp.Loop
open Cfdp.Codec Cfdp.Gen Cfdp.Timer Cfdp.Recv Cfdp.Send

theorem cfgR_recvStep (s : Recv.State) (now : Nat) (e : Ev) : (recvStep s now e).cfg = s.cfg := by
  simp only [recvStep]
  repeat' split
  all_goals first
    | rfl
    | simp only [Recv.cfg_processPdu, Recv.cfg_sendPdu, Recv.cfg_handleTimeout, Recv.cfg_cancel, Recv.cfg_resume]
    | simp only [Recv.cfg_suspend]
    | simp only [Recv.cfg_sendReport]
    | simp only [Recv.cfg_shutdown]

theorem rt_recvStep {m Ta Ti Tn : Nat} {s : Recv.State} (h : RT m Ta Ti Tn s.timer) (now : Nat) (e : Ev) :
    RT m Ta Ti Tn (recvStep s now e).timer := by
  have h0 : RT m Ta Ti Tn ({ s with sent := none, out := [] } : Recv.State).timer := h
  simp only [recvStep]
  repeat' split
  all_goals first
    | exact h0
    | exact Recv.rt_processPdu h0 _
    | exact Recv.rt_sendPdu h0
    | exact Recv.rt_handleTimeout h0
    | (simp only [Recv.cancel]; apply Recv.rt_cancelInner; exact h0)
    | exact Recv.rt_suspend h0
    | exact Recv.rt_resume h0
    | exact Recv.rt_shutdown h0
    | (simp only [Recv.timer_sendReport]; exact h0)

/-- everything the termination argument needs of a receive transaction; holds after every history -/
structure RI (m Ta Ti Tn : Nat) (s : Recv.State) : Prop where
  inv : RInv m Ta Ti Tn s
  act : Act s

theorem ri_recvStep {m Ta Ti Tn : Nat} {s : Recv.State} (h : RI m Ta Ti Tn s) (now : Nat) (e : Ev) :
    RI m Ta Ti Tn (recvStep s now e) := by
  refine ⟨⟨rt_recvStep h.inv.rt now e, ackp_recvStep h.inv.ackp now e, delok_recvStep h.inv.del now e, ?_⟩,
    act_recvStep h.act now e⟩
  have hc := cfgR_recvStep s now e
  obtain ⟨n1, n2, n3⟩ := h.inv.noIgnore
  exact ⟨by rw [handlerFor_cfg hc]; exact n1, by rw [handlerFor_cfg hc]; exact n2, by rw [handlerFor_cfg hc]; exact n3⟩

theorem ri_run {m Ta Ti Tn : Nat} (evs : List (Nat × Ev)) (s : Recv.State) (h : RI m Ta Ti Tn s) :
    RI m Ta Ti Tn (recvRun s evs).1 := by
  induction evs generalizing s with
  | nil => exact h
  | cons x rest ih => obtain ⟨t, e⟩ := x; exact ih _ (ri_recvStep h t e)

theorem cq_new (T m now : Nat) (hT : 0 < T) : CQ m T (Counter.new T m now) :=
  ⟨by simp [Counter.Ok, Counter.new], hT, rfl, rfl⟩

theorem ri_new (cfg : Recv.Config) (fs : Fs.FS) (t0 : Nat) (hti : 0 < cfg.ti) (hta : 0 < cfg.ta) (htn : 0 < cfg.tn)
    (hno : Recv.NoIgnore (Recv.new cfg fs t0)) :
    RI cfg.max (cfg.ta * 1000000000) (cfg.ti * 1000000000) (cfg.tn * 1000000000) (Recv.new cfg fs t0) := by
  refine ⟨⟨⟨?_, ?_, ?_⟩, fun _ => rfl, fun x hx => (by cases hx), hno⟩, fun _ => rfl⟩
  · exact cq_new _ _ _ (by omega)
  · exact cq_restart (cq_new _ _ _ (by omega)) t0
  · exact cq_new _ _ _ (by omega)

/-- the task loop of a receive transaction left alone: transmit while there is something to transmit,
otherwise sleep until the next timer and handle the timeout; returns the state and the clock -/
def rdrainStep (s : Recv.State) (now : Nat) : Recv.State × Nat :=
  if s.state != .Active then (s, now)
  else if Recv.hasPduToSend s then (recvStep s now .send, now)
  else match Recv.untilTimeout s now with
    | some d => (recvStep s (now + d) .timeout, now + d)
    | none => (s, now)

def rdrain : Nat → Recv.State → Nat → Recv.State × Nat
  | 0, s, now => (s, now)
  | n + 1, s, now => rdrain n (rdrainStep s now).1 (rdrainStep s now).2

theorem recv_untilTimeout_some {s : Recv.State} (h : Act s) (ha : s.state = .Active) (now : Nat) :
    ∃ d, Recv.untilTimeout s now = some d := by
  obtain ⟨d, hd⟩ := untilTimeout_some_of_inactivity s.timer now (h ha)
  have hs : (s.state == TransactionState.Suspended) = false := by rw [ha]; rfl
  simp only [Recv.untilTimeout, hs, Bool.false_eq_true, if_false, hd]
  cases s.delayed.head? with
  | none => exact ⟨_, rfl⟩
  | some x => exact ⟨_, rfl⟩

theorem recv_untilTimeout_advance (s : Recv.State) (now d : Nat) (h : Recv.untilTimeout s now = some d) :
    Recv.untilTimeout s (now + d) = some 0 := by
  simp only [Recv.untilTimeout] at h ⊢
  split
  · rename_i hs; rw [if_pos hs] at h; cases h
  · rename_i hs
    rw [if_neg hs] at h
    cases hh : s.delayed.head? with
    | none =>
      simp only [hh] at h ⊢
      exact untilTimeout_advance _ _ _ h
    | some x =>
      obtain ⟨c, a, b⟩ := x
      simp only [hh, Option.some.injEq] at h ⊢
      cases ht : s.timer.untilTimeout now with
      | none =>
        simp only [ht] at h
        have h0 : c.untilTimeout (now + d) = 0 := by rw [cu_advance]; omega
        cases s.timer.untilTimeout (now + d) with
        | none => simp only [h0]
        | some y => simp only [h0]; omega
      | some x =>
        simp only [ht] at h
        by_cases hx : x ≤ c.untilTimeout now
        · have hd : d = x := by omega
          subst hd
          rw [untilTimeout_advance _ _ _ ht]
          simp only; omega
        · have hd : d = c.untilTimeout now := by omega
          have h0 : c.untilTimeout (now + d) = 0 := by rw [cu_advance]; omega
          cases s.timer.untilTimeout (now + d) with
          | none => simp only [h0]
          | some y => simp only [h0]; omega

/-- the measure of the termination argument, in lexicographic order -/
def LexLt (s' s : Recv.State) : Prop :=
  phi s' < phi s ∨ (phi s' = phi s ∧ promptN s' < promptN s) ∨ (phi s' = phi s ∧ promptN s' = promptN s ∧ sg s' < sg s)

theorem clear_facts (s : Recv.State) :
    phi ({ s with sent := none, out := [] } : Recv.State) = phi s ∧
    promptN ({ s with sent := none, out := [] } : Recv.State) = promptN s ∧
    sg ({ s with sent := none, out := [] } : Recv.State) = sg s := ⟨rfl, rfl, rfl⟩

/-- one iteration of the loop left alone: the invariants stay, the potential does not go up and the
measure goes down -/
theorem rdrainStep_dec {m Ta Ti Tn : Nat} {s : Recv.State} (h : RI m Ta Ti Tn s) (ha : s.state = .Active) (now : Nat) :
    RI m Ta Ti Tn (rdrainStep s now).1 ∧ phi (rdrainStep s now).1 ≤ phi s ∧ LexLt (rdrainStep s now).1 s ∧
    (Recv.hasPduToSend s = false → phi (rdrainStep s now).1 + 1 ≤ phi s) := by
  have hact : (s.state != TransactionState.Active) = false := by rw [ha]; rfl
  have hnt : (({ s with sent := none, out := [] } : Recv.State).state == TransactionState.Terminated) = false := by
    show (s.state == TransactionState.Terminated) = false
    rw [ha]; rfl
  have hinv0 : RInv m Ta Ti Tn ({ s with sent := none, out := [] } : Recv.State) :=
    ⟨h.inv.rt, h.inv.ackp, h.inv.del, h.inv.noIgnore⟩
  simp only [rdrainStep, hact, Bool.false_eq_true, if_false]
  by_cases hp : Recv.hasPduToSend s = true
  · simp only [hp, if_true]
    refine ⟨ri_recvStep h now .send, ?_, ?_, fun hh => (by cases hh)⟩
    all_goals
      have e1 : Recv.hasPduToSend ({ s with sent := none, out := [] } : Recv.State) = true := hp
      simp only [recvStep, hnt, Bool.false_eq_true, if_false, e1, if_true]
      obtain ⟨g1, g2⟩ := phi_sendPdu ({ s with sent := none, out := [] } : Recv.State) now ha hinv0 e1
      obtain ⟨c1, c2, c3⟩ := clear_facts s
      rw [c1] at g1 g2; rw [c2, c3] at g2
    · exact g1
    · unfold LexLt
      rcases g2 with g2 | g2 | g2
      · exact Or.inl (by omega)
      · by_cases he : phi (Recv.sendPdu ({ s with sent := none, out := [] } : Recv.State) now) = phi s
        · exact Or.inr (Or.inl ⟨he, g2⟩)
        · exact Or.inl (by omega)
      · by_cases he : phi (Recv.sendPdu ({ s with sent := none, out := [] } : Recv.State) now) = phi s
        · exact Or.inr (Or.inr ⟨he, g2.1, g2.2⟩)
        · exact Or.inl (by omega)
  · have hp' : Recv.hasPduToSend s = false := by simpa using hp
    simp only [hp', Bool.false_eq_true, if_false]
    obtain ⟨d, hd⟩ := recv_untilTimeout_some h.act ha now
    simp only [hd]
    have hu := recv_untilTimeout_advance s now d hd
    have e1 : Recv.untilTimeout ({ s with sent := none, out := [] } : Recv.State) (now + d) = some 0 := hu
    have key : phi (recvStep s (now + d) .timeout) + 1 ≤ phi s := by
      simp only [recvStep, hnt, Bool.false_eq_true, if_false, e1, beq_self_eq_true, if_true]
      have hq : ({ s with sent := none, out := [] } : Recv.State).recvState = .ReceiveData →
          ({ s with sent := none, out := [] } : Recv.State).naks = [] := fun hr => quiescent_naks hp' ha hr
      have hdue : DueSome ({ s with sent := none, out := [] } : Recv.State) (now + d) := recv_due _ _ ha e1
      exact phi_handleTimeout _ (now + d) ha hinv0 hq hdue
    exact ⟨ri_recvStep h _ .timeout, by omega, Or.inl (by omega), fun _ => key⟩

/-- the loop left alone ends -/
theorem rdrain_ends {m Ta Ti Tn : Nat} (s : Recv.State) (now : Nat) (h : RI m Ta Ti Tn s) :
    ∃ n, (rdrain n s now).1.state ≠ .Active :=
  if ha : s.state = .Active then
    have hstep := rdrainStep_dec h ha now
    have ⟨n, hn⟩ := rdrain_ends (rdrainStep s now).1 (rdrainStep s now).2 hstep.1
    ⟨n + 1, hn⟩
  else ⟨0, ha⟩
termination_by (phi s, promptN s, sg s)
decreasing_by
  have := hstep.2.2.1
  unfold LexLt at this
  simp_wf
  simp only [Prod.lex_def]
  omega

end Cfdp.Loop

/-! ### the time it takes -/
namespace Cfdp.Loop
open Cfdp.Codec Cfdp.Gen Cfdp.Timer Cfdp.Recv Cfdp.Send

/-- a sleep of a receive transaction is never longer than the inactivity period -/
theorem rsleep_le {m Ta Ti Tn : Nat} (s : Recv.State) (now d : Nat) (hq : RT m Ta Ti Tn s.timer) (hti : TI s.timer now)
    (hact : s.timer.inactivity.paused = false) (h : Recv.untilTimeout s now = some d) : d ≤ Ti := by
  have hi : s.timer.inactivity.untilTimeout now ≤ Ti := by
    have := hti.inactivity.2; have := hq.inactivity.2.2.2
    simp only [Counter.untilTimeout]; split <;> omega
  have key : ∀ x, s.timer.untilTimeout now = some x → x ≤ Ti := by
    intro x hx
    simp only [Timer.untilTimeout, hact, Bool.not_false, if_true] at hx
    generalize s.timer.ack.untilTimeout now = a at hx
    generalize s.timer.nak.untilTimeout now = c at hx
    generalize s.timer.inactivity.untilTimeout now = b at hx hi
    cases hpa : s.timer.ack.paused <;> cases hpn : s.timer.nak.paused <;>
      simp only [hpa, hpn, Bool.not_true, Bool.not_false, Bool.false_eq_true, if_false, if_true, optMin,
        Option.some.injEq] at hx
    all_goals omega
  simp only [Recv.untilTimeout] at h
  split at h
  · cases h
  · cases hh : s.delayed.head? with
    | none => simp only [hh] at h; exact key d h
    | some x =>
      obtain ⟨c, a, b⟩ := x
      simp only [hh, Option.some.injEq] at h
      cases ht : s.timer.untilTimeout now with
      | none =>
        obtain ⟨y, hy⟩ := untilTimeout_some_of_inactivity s.timer now hact
        rw [hy] at ht; cases ht
      | some y =>
        simp only [ht] at h
        have := key y ht
        omega

/-- one iteration: the clock advances by at most one inactivity period per unit of potential used -/
theorem rdrainStep_time {m Ta Ti Tn : Nat} {s : Recv.State} (h : RI m Ta Ti Tn s) (now : Nat) (hti : TI s.timer now) :
    RI m Ta Ti Tn (rdrainStep s now).1 ∧ TI (rdrainStep s now).1.timer (rdrainStep s now).2 ∧ now ≤ (rdrainStep s now).2 ∧
    phi (rdrainStep s now).1 ≤ phi s ∧
    (rdrainStep s now).2 - now ≤ (phi s - phi (rdrainStep s now).1) * Ti := by
  by_cases ha : s.state = .Active
  · obtain ⟨d1, d2, _, d4⟩ := rdrainStep_dec h ha now
    refine ⟨d1, ?_, ?_, d2, ?_⟩
    all_goals
      have hact : (s.state != TransactionState.Active) = false := by rw [ha]; rfl
      simp only [rdrainStep, hact, Bool.false_eq_true, if_false] at d4 ⊢
    · split
      · exact ti_recvStep hti (Nat.le_refl _) .send
      · split
        · exact ti_recvStep hti (Nat.le_add_right _ _) .timeout
        · exact hti
    · split
      · exact Nat.le_refl _
      · split
        · exact Nat.le_add_right _ _
        · exact Nat.le_refl _
    · by_cases hp : Recv.hasPduToSend s = true
      · simp only [hp, if_true, Nat.sub_self, Nat.zero_le]
      · have hp' : Recv.hasPduToSend s = false := by simpa using hp
        simp only [hp', Bool.false_eq_true, if_false] at d4 ⊢
        cases hu : Recv.untilTimeout s now with
        | none => simp only [Nat.sub_self, Nat.zero_le]
        | some d =>
          simp only [hu] at d4 ⊢
          have hd := rsleep_le s now d h.inv.rt hti (h.act ha) hu
          have hk := d4 trivial
          have : Ti ≤ (phi s - phi (recvStep s (now + d) .timeout)) * Ti :=
            Nat.le_mul_of_pos_left _ (by omega)
          omega
  · have hact : (s.state != TransactionState.Active) = true := by
      cases hs : s.state <;> first | exact absurd hs ha | rfl
    simp only [rdrainStep, hact, if_true, Nat.sub_self, Nat.zero_le, Nat.le_refl, and_true]
    exact ⟨h, hti⟩

theorem rdrain_time {m Ta Ti Tn : Nat} {s : Recv.State} (h : RI m Ta Ti Tn s) (n now : Nat) (hti : TI s.timer now) :
    (rdrain n s now).2 - now ≤ (phi s - phi (rdrain n s now).1) * Ti ∧
    phi (rdrain n s now).1 ≤ phi s ∧ now ≤ (rdrain n s now).2 := by
  induction n generalizing s now with
  | zero => exact ⟨by simp [rdrain], Nat.le_refl _, Nat.le_refl _⟩
  | succ k ih =>
    obtain ⟨t0, t1, t2, t3, t4⟩ := rdrainStep_time h now hti
    obtain ⟨j1, j2, j3⟩ := ih t0 (rdrainStep s now).2 t1
    simp only [rdrain]
    refine ⟨?_, by omega, by omega⟩
    have e : (phi s - phi (rdrain k (rdrainStep s now).1 (rdrainStep s now).2).1) * Ti =
        (phi s - phi (rdrainStep s now).1) * Ti +
          (phi (rdrainStep s now).1 - phi (rdrain k (rdrainStep s now).1 (rdrainStep s now).2).1) * Ti := by
      rw [← Nat.add_mul]; congr 1; omega
    omega

/-- the potential in terms of the configured limit and the delayed checks pending -/
theorem phi_le {m Ta Ti Tn : Nat} (s : Recv.State) (h : RT m Ta Ti Tn s.timer) : phi s ≤ 10 + 8 * m + s.delayed.length := by
  have h1 := room_le_max s.timer.ack
  have h2 := room_le_max s.timer.inactivity
  have h3 := room_le_max s.timer.nak
  have h4 := h.ack.2.2.1
  have h5 := h.inactivity.2.2.1
  have h6 := h.nak.2.2.1
  have h7 := nakE_le s
  have h8 := nakU_le s
  have h9 := promptN_le s
  simp only [phi, nakP]
  split
  · cases s.recvState <;> dsimp only
    · split <;> omega
    · omega
    · omega
  · omega

/-- **C03 (receiver, the loop ends).**  From the state after any history of loop events, the task
loop of a receive transaction left alone - peer silent for good, no user request; transmit while
there is something to transmit, otherwise sleep until the next timer and handle the timeout - leaves
the Active state (terminated, or suspended by a fault handler) after finitely many iterations,
provided no limit fault is configured to be ignored. -/
theorem C03_recv_drains (cfg : Recv.Config) (fs : Fs.FS) (t0 : Nat) (hti : 0 < cfg.ti) (hta : 0 < cfg.ta) (htn : 0 < cfg.tn)
    (hno : Recv.NoIgnore (Recv.new cfg fs t0)) (evs0 : List (Nat × Ev)) (now : Nat) :
    ∃ n, (rdrain n (recvRun (Recv.new cfg fs t0) evs0).1 now).1.state ≠ .Active :=
  rdrain_ends _ now (ri_run evs0 _ (ri_new cfg fs t0 hti hta htn hno))

/-- **C03 (receiver, every wake-up counts).**  In the loop left alone every iteration that is not a
transmission - a sleep followed by `handle_timeout` - uses up at least one unit of the potential
`phi`, which no iteration raises and which is at most `10 + 8·limit +` the delayed NAK checks pending:
that many timer wake-ups at most remain, whatever the state. -/
theorem C03_recv_bounded_wakeups (cfg : Recv.Config) (fs : Fs.FS) (t0 : Nat) (hti : 0 < cfg.ti) (hta : 0 < cfg.ta)
    (htn : 0 < cfg.tn) (hno : Recv.NoIgnore (Recv.new cfg fs t0)) (evs0 : List (Nat × Ev)) (n now : Nat) :
    let s := (rdrain n (recvRun (Recv.new cfg fs t0) evs0).1 now).1
    let t := (rdrain n (recvRun (Recv.new cfg fs t0) evs0).1 now).2
    phi s ≤ 10 + 8 * cfg.max + s.delayed.length ∧
    (s.state = .Active → phi (rdrainStep s t).1 ≤ phi s ∧
      (Recv.hasPduToSend s = false → phi (rdrainStep s t).1 + 1 ≤ phi s)) := by
  intro s t
  have hri : ∀ (k : Nat) (r : Recv.State) (u : Nat),
      RI cfg.max (cfg.ta * 1000000000) (cfg.ti * 1000000000) (cfg.tn * 1000000000) r →
      RI cfg.max (cfg.ta * 1000000000) (cfg.ti * 1000000000) (cfg.tn * 1000000000) (rdrain k r u).1 := by
    intro k
    induction k with
    | zero => intro r u h; exact h
    | succ k ih =>
      intro r u h
      simp only [rdrain]
      apply ih
      by_cases ha : r.state = .Active
      · exact (rdrainStep_dec h ha u).1
      · have hact : (r.state != TransactionState.Active) = true := by
          cases hs : r.state <;> first | exact absurd hs ha | rfl
        simp only [rdrainStep, hact, if_true]; exact h
  have h := hri n _ now (ri_run evs0 _ (ri_new cfg fs t0 hti hta htn hno))
  refine ⟨phi_le s h.inv.rt, fun ha => ?_⟩
  obtain ⟨_, d2, _, d4⟩ := rdrainStep_dec h ha t
  exact ⟨d2, d4⟩

/-- **C03 (receiver, bounded time).**  From the state `s` after any history at non-decreasing clock
readings, the loop left alone from clock reading `now` on never takes the clock past
`now + phi s · inactivity period`, with `phi s ≤ 10 + 8·limit +` the delayed NAK checks pending in
`s`; by `C03_recv_drains` it has left the Active state by then. -/
theorem C03_recv_bounded_time (cfg : Recv.Config) (fs : Fs.FS) (t0 : Nat) (hti : 0 < cfg.ti) (hta : 0 < cfg.ta)
    (htn : 0 < cfg.tn) (hno : Recv.NoIgnore (Recv.new cfg fs t0)) (evs0 : List (Nat × Ev)) (hm : MonoT t0 evs0)
    (now : Nat) (hnow : lastT t0 evs0 ≤ now) (n : Nat) :
    (rdrain n (recvRun (Recv.new cfg fs t0) evs0).1 now).2 ≤
      now + (10 + 8 * cfg.max + (recvRun (Recv.new cfg fs t0) evs0).1.delayed.length) * (cfg.ti * 1000000000) := by
  have hi := ri_run evs0 _ (ri_new cfg fs t0 hti hta htn hno)
  have hT := ti_mono (C17_recv_timers cfg fs t0 evs0 hm) hnow
  obtain ⟨d1, d2, d3⟩ := rdrain_time hi n now hT
  have hb := phi_le _ hi.inv.rt
  generalize cfg.ti * 1000000000 = T at d1 ⊢
  have h1 : (phi (recvRun (Recv.new cfg fs t0) evs0).1 - phi (rdrain n (recvRun (Recv.new cfg fs t0) evs0).1 now).1) * T
      ≤ (10 + 8 * cfg.max + (recvRun (Recv.new cfg fs t0) evs0).1.delayed.length) * T := Nat.mul_le_mul_right T (by omega)
  omega

/-- the premises are satisfiable and the loop really runs: a transaction that never hears anything -/
example :
    let cfg : Recv.Config := { (default : Recv.Config) with ti := 2, ta := 1, tn := 1, max := 2 }
    (rdrain 4 (Recv.new cfg default 0) 0).1.state = .Terminated ∧ (rdrain 4 (Recv.new cfg default 0) 0).2 = 5000000000 := by
  decide

end Cfdp.Loop

#print axioms Cfdp.Loop.C03_recv_drains
#print axioms Cfdp.Loop.C03_recv_bounded_wakeups
#print axioms Cfdp.Loop.C03_recv_bounded_time
#print axioms Cfdp.Loop.C03_send_bounded_work
#print axioms Cfdp.Loop.C03_send_drains
#print axioms Cfdp.Loop.C03_send_bounded_time
#print axioms Cfdp.Loop.C03_send_never_stuck
#print axioms Cfdp.Loop.C03_recv_never_stuck
#print axioms Cfdp.Recv.C03_recv_inactivity_limit
