import Cfdp.Props.C02r
import Cfdp.Props.C03t
import Cfdp.Props.C08

/-! # C02, a whole recovery round through both models and the link

The receiver's request queue goes out in NAK PDUs (`recv_flushes_naks`), the NAKs reach the sender and every
piece of every request is queued there (`naks_arrive`), the sender answers them all (`send_flushes_queue`,
Props/C02r.lean), the answers complete the file at the receiver (`C02_receiver_recovers`): `C02_full_round`, and
with the queue as the NAK timer rebuilds it, `C02_full_round_after_wake`. -/
namespace Cfdp.Timer

/-- updating a counter that was just restarted at the same instant changes nothing -/
theorem update_restart (c : Counter) (now : Nat) (hT : 0 < c.timeout) : (c.restart now).update now = c.restart now := by
  have ht : (c.restart now).timeout = c.timeout := by
    show (c.update now).timeout = c.timeout; exact timeout_update c now
  have hs : (c.restart now).start = now := rfl
  have hp : (c.restart now).paused = false := rfl
  simp only [Counter.update, hp, Bool.false_eq_true, if_false, hs, Nat.sub_self, Nat.zero_add, updateLoop]
  rw [if_neg (by rw [ht]; omega)]

end Cfdp.Timer

namespace Cfdp.Recv
open Cfdp.Codec Cfdp.Gen Cfdp.Timer Cfdp.Send

/-- two receiver states that agree on everything the recovery argument reads apart from the queue and the timers -/
def SameData (a b : State) : Prop :=
  a.cfg = b.cfg ∧ a.state = b.state ∧ a.recvState = b.recvState ∧ a.md = b.md ∧ a.fileSize = b.fileSize ∧
  a.checksum = b.checksum ∧ a.condition = b.condition ∧ a.segs = b.segs ∧ a.tempFile = b.tempFile ∧ a.fs = b.fs

theorem sameData_refl (a : State) : SameData a a := ⟨rfl, rfl, rfl, rfl, rfl, rfl, rfl, rfl, rfl, rfl⟩
theorem sameData_trans {a b c : State} (h1 : SameData a b) (h2 : SameData b c) : SameData a c := by
  obtain ⟨a1, a2, a3, a4, a5, a6, a7, a8, a9, a10⟩ := h1
  obtain ⟨b1, b2, b3, b4, b5, b6, b7, b8, b9, b10⟩ := h2
  exact ⟨a1.trans b1, a2.trans b2, a3.trans b3, a4.trans b4, a5.trans b5, a6.trans b6, a7.trans b7, a8.trans b8,
    a9.trans b9, a10.trans b10⟩

/-- the NAK counter will not declare its limit at the next NAK (clock reading `t`): new data has arrived since the
last NAK, or the count - brought up to date - is below the limit -/
def NakRoom (s : State) (t : Nat) : Prop :=
  0 < s.timer.nak.max ∧ ((s.nakReceived == s.received) = false ∨ (s.timer.nak.update t).count ≠ (s.timer.nak.update t).max)

/-- `send_naks` below the limit: the first `nakTake` requests go out in one NAK PDU, the rest stays queued, and the
counter still has room for the next NAK at the same instant -/
theorem sendNaks_ok {m Ta Ti Tn : Nat} (s : State) (t : Nat) (hq : RT m Ta Ti Tn s.timer) (hroom : NakRoom s t) :
    ∃ s' a b, sendNaks s t = sendPayload s' (.nak ⟨a, b, s.naks.take (nakTake s)⟩) ∧
      s'.naks = s.naks.drop (nakTake s) ∧ s'.state = s.state ∧ s'.recvState = s.recvState ∧ s'.prompt = s.prompt ∧
      s'.ack = s.ack ∧ s'.cfg = s.cfg ∧ RT m Ta Ti Tn s'.timer ∧ NakRoom s' t ∧ SameData s' s := by
  obtain ⟨hmax, hr⟩ := hroom
  have hT := hq.nak.2.1
  cases hnr : (s.nakReceived == s.received) with
  | false =>
    refine ⟨withNaks { setNR s (s.timer.nak.reset t) with nakReceived := s.received } (s.naks.drop (nakTake s)),
      listMin ((s.naks.take (nakTake s)).map (·.1)) 0, listMax ((s.naks.take (nakTake s)).map (·.2)) ((Seg.endOf s.segs).getD 0), ?_,
      rfl, rfl, rfl, rfl, rfl, rfl, ⟨hq.ack, hq.inactivity, cq_reset hq.nak t⟩, ?_, sameData_refl _⟩
    · simp only [sendNaks, sendNaksTimer, hnr, Bool.false_eq_true, if_false, maxNakNum, withNaks, setNR, nakTake]
      first | done | rfl
    · refine ⟨hmax, Or.inr ?_⟩
      show ((s.timer.nak.reset t).update t).count ≠ ((s.timer.nak.reset t).update t).max
      rw [update_reset _ _ hT]
      show 0 ≠ s.timer.nak.max
      omega
  | true =>
    have hne : (s.timer.nak.update t).count ≠ (s.timer.nak.update t).max := by
      rcases hr with h | h
      · rw [hnr] at h; cases h
      · exact h
    have hb : ((s.timer.nak.update t).count == (s.timer.nak.update t).max) = false := by simpa using hne
    refine ⟨withNaks (setNR s ((s.timer.nak.update t).restart t)) (s.naks.drop (nakTake s)),
      listMin ((s.naks.take (nakTake s)).map (·.1)) 0, listMax ((s.naks.take (nakTake s)).map (·.2)) ((Seg.endOf s.segs).getD 0), ?_,
      rfl, rfl, rfl, rfl, rfl, rfl, ⟨hq.ack, hq.inactivity, cq_restart (cq_update hq.nak t) t⟩, ?_, sameData_refl _⟩
    · simp only [sendNaks, sendNaksTimer, hnr, if_true, Counter.limitReached, hb, Bool.false_eq_true, if_false, maxNakNum,
        withNaks, setNR, nakTake]
      first | done | rfl
    · refine ⟨by show ((s.timer.nak.update t).restart t).max > 0; rw [max_restart, max_update]; exact hmax, Or.inr ?_⟩
      show (((s.timer.nak.update t).restart t).update t).count ≠ (((s.timer.nak.update t).restart t).update t).max
      have hT1 : 0 < (s.timer.nak.update t).timeout := by rw [timeout_update]; exact hT
      rw [update_restart _ _ hT1]
      have hid : (s.timer.nak.update t).update t = s.timer.nak.update t := update_idem _ _ hT hq.nak.1
      show ((s.timer.nak.update t).update t).count ≠ ((s.timer.nak.update t).update t).max
      rw [hid]; exact hne

end Cfdp.Recv

namespace Cfdp.Loop
open Cfdp.Codec Cfdp.Gen Cfdp.Timer Cfdp.Recv

/-- `n` transmission opportunities in a row for a receive transaction at clock reading `t` -/
def recvN : Nat → Recv.State → Nat → Recv.State × List Pdu
  | 0, r, _ => (r, [])
  | n + 1, r, t => ((recvN n (recvStep r t .send) t).1, (recvStep r t .send).sent.toList ++ (recvN n (recvStep r t .send) t).2)

/-- what the queue-flushing argument carries from one transmission to the next -/
structure NQ (m Ta Ti Tn : Nat) (t : Nat) (r : Recv.State) : Prop where
  act : r.state = .Active
  rd : r.recvState = .ReceiveData
  pr : r.prompt = none
  ack : r.ack = none
  rt : RT m Ta Ti Tn r.timer
  room : NakRoom r t

theorem nq_clr {m Ta Ti Tn t : Nat} {r : Recv.State} (h : NQ m Ta Ti Tn t r) : NQ m Ta Ti Tn t (clrR r) :=
  ⟨h.act, h.rd, h.pr, h.ack, h.rt, h.room⟩

/-- one transmission of a collecting receiver with requests queued: a NAK PDU with the first `nakTake` of them -/
theorem recv_sends_nak {m Ta Ti Tn : Nat} (r : Recv.State) (t : Nat) (h : NQ m Ta Ti Tn t r) (hne : r.naks ≠ []) :
    NQ m Ta Ti Tn t (recvStep r t .send) ∧ (recvStep r t .send).naks = r.naks.drop (nakTake r) ∧
    SameData (recvStep r t .send) r ∧
    ∃ hd a b, (recvStep r t .send).sent = some ⟨hd, .nak ⟨a, b, r.naks.take (nakTake r)⟩⟩ := by
  have hnt : ((clrR r).state == TransactionState.Terminated) = false := by
    show (r.state == TransactionState.Terminated) = false; rw [h.act]; rfl
  have hns : ((clrR r).state == TransactionState.Suspended) = false := by
    show (r.state == TransactionState.Suspended) = false; rw [h.act]; rfl
  have k1 : (clrR r).recvState = .ReceiveData := h.rd
  have k2 : (clrR r).prompt = none := h.pr
  have k3 : (clrR r).ack = none := h.ack
  have k4 : (clrR r).naks = r.naks := rfl
  have hemp : r.naks.isEmpty = false := by
    cases hn : r.naks with
    | nil => exact absurd hn hne
    | cons x xs => rfl
  have hhas : Recv.hasPduToSend (clrR r) = true := by
    simp only [Recv.hasPduToSend, hns, Bool.false_eq_true, if_false, k1, k2, k3, k4, hemp, Option.isSome_none, Bool.false_or,
      Bool.not_false]
  have e1 : recvStep r t .send = Recv.sendNaks (clrR r) t := by
    rw [recvStep_eq]
    simp only [hnt, Bool.false_eq_true, if_false, hhas, if_true, Recv.sendPdu, k2, Option.isSome_none, k1, k3, k4, hemp,
      Bool.not_false]
  obtain ⟨s', a, b, e2, n1, n2, n3, n4, n5, n6, n7, n8, n9⟩ := sendNaks_ok (clrR r) t (nq_clr h).rt (nq_clr h).room
  rw [e1, e2]
  refine ⟨⟨?_, ?_, ?_, ?_, ?_, ?_⟩, ?_, ?_, ⟨_, a, b, rfl⟩⟩
  · rw [state_sendPayload, n2]; exact h.act
  · rw [recvState_sendPayload, n3]; exact h.rd
  · rw [prompt_sendPayload, n4]; exact h.pr
  · rw [ack_sendPayload, n5]; exact h.ack
  · rw [timer_sendPayload]; exact n7
  · unfold NakRoom at n8 ⊢
    rw [timer_sendPayload, nakReceived_sendPayload, received_sendPayload]; exact n8
  · rw [naks_sendPayload, n1]; rfl
  · obtain ⟨c1, c2, c3, c4, c5, c6, c7, c8, c9, c10⟩ := n9
    exact ⟨by rw [cfg_sendPayload]; exact c1, by rw [state_sendPayload]; exact c2, by rw [recvState_sendPayload]; exact c3,
      by rw [md_sendPayload]; exact c4, by rw [fileSize_sendPayload]; exact c5, by rw [checksum_sendPayload]; exact c6,
      by rw [condition_sendPayload]; exact c7, by rw [segs_sendPayload]; exact c8, by rw [tempFile_sendPayload]; exact c9,
      by rw [fs_sendPayload]; exact c10⟩

/-- with nothing queued a transmission opportunity passes unused -/
theorem recv_send_idle {m Ta Ti Tn : Nat} (r : Recv.State) (t : Nat) (h : NQ m Ta Ti Tn t r) (he : r.naks = []) :
    recvStep r t .send = clrR r := by
  have hnt : ((clrR r).state == TransactionState.Terminated) = false := by
    show (r.state == TransactionState.Terminated) = false; rw [h.act]; rfl
  have hns : ((clrR r).state == TransactionState.Suspended) = false := by
    show (r.state == TransactionState.Suspended) = false; rw [h.act]; rfl
  have k1 : (clrR r).recvState = .ReceiveData := h.rd
  have k2 : (clrR r).prompt = none := h.pr
  have k3 : (clrR r).ack = none := h.ack
  have k4 : (clrR r).naks = [] := he
  have hhas : Recv.hasPduToSend (clrR r) = false := by
    simp only [Recv.hasPduToSend, hns, Bool.false_eq_true, if_false, k1, k2, k3, k4, Option.isSome_none, Bool.false_or,
      List.isEmpty_nil, Bool.not_true]
  rw [recvStep_eq]
  simp only [hnt, Bool.false_eq_true, if_false, hhas]

/-- **the receiver's queue goes out**: `n ≥` queue length transmission opportunities empty the queue, and every queued
request is carried by one of the NAK PDUs transmitted -/
theorem recv_flushes_naks {m Ta Ti Tn : Nat} (n : Nat) (r : Recv.State) (t : Nat) (h : NQ m Ta Ti Tn t r)
    (hlen : r.naks.length ≤ n) :
    (recvN n r t).1.naks = [] ∧ NQ m Ta Ti Tn t (recvN n r t).1 ∧ SameData (recvN n r t).1 r ∧
    (∀ q ∈ r.naks, ∃ pdu ∈ (recvN n r t).2, ∃ nk, pdu.payload = .nak nk ∧ q ∈ nk.requests) ∧
    (∀ pdu ∈ (recvN n r t).2, ∃ nk, pdu.payload = .nak nk ∧ ∀ q ∈ nk.requests, q ∈ r.naks) := by
  induction n generalizing r with
  | zero =>
    have : r.naks = [] := List.eq_nil_of_length_eq_zero (by omega)
    exact ⟨this, h, sameData_refl _, fun q hq => (by rw [this] at hq; cases hq), fun pdu hp => (by cases hp)⟩
  | succ n ih =>
    simp only [recvN]
    cases hn : r.naks with
    | nil =>
      have e := recv_send_idle r t h hn
      have hs : (clrR r).sent = none := rfl
      rw [e, hs]
      obtain ⟨i1, i2, i0, i3, i4⟩ := ih (clrR r) (nq_clr h) (by show r.naks.length ≤ n; rw [hn]; exact Nat.zero_le _)
      refine ⟨i1, i2, sameData_trans i0 (sameData_refl _), fun q hq => (by cases hq), ?_⟩
      intro pdu hp
      obtain ⟨nk, h1, h2⟩ := i4 pdu (by simpa using hp)
      refine ⟨nk, h1, fun q hq => ?_⟩
      have : q ∈ (clrR r).naks := h2 q hq
      rw [show (clrR r).naks = r.naks from rfl, hn] at this
      cases this
    | cons x xs =>
      have hne : r.naks ≠ [] := by rw [hn]; exact List.cons_ne_nil _ _
      obtain ⟨g1, g2, g0, hd, a, b, g3⟩ := recv_sends_nak r t h hne
      have hpos := nakTake_pos r hne
      have hl : (recvStep r t .send).naks.length ≤ n := by
        rw [g2, List.length_drop]; omega
      obtain ⟨i1, i2, i0, i3, i4⟩ := ih (recvStep r t .send) g1 hl
      rw [g3]
      refine ⟨i1, i2, sameData_trans i0 g0, ?_, ?_⟩
      · intro q hq
        rw [← hn] at hq
        have hsplit : q ∈ r.naks.take (nakTake r) ∨ q ∈ r.naks.drop (nakTake r) := by
          rw [← List.take_append_drop (nakTake r) r.naks] at hq
          exact List.mem_append.mp hq
        rcases hsplit with hq1 | hq2
        · exact ⟨_, List.mem_append_left _ (List.mem_singleton.mpr rfl), _, rfl, hq1⟩
        · rw [← g2] at hq2
          obtain ⟨pdu, hp, nk, h1, h2⟩ := i3 q hq2
          exact ⟨pdu, List.mem_append_right _ hp, nk, h1, h2⟩
      · intro pdu hp
        rw [← hn]
        rcases List.mem_append.mp hp with hp | hp
        · have : pdu = ⟨hd, .nak ⟨a, b, r.naks.take (nakTake r)⟩⟩ := by simpa using hp
          subst this
          exact ⟨_, rfl, fun q hq => List.mem_of_mem_take hq⟩
        · obtain ⟨nk, h1, h2⟩ := i4 pdu hp
          exact ⟨nk, h1, fun q hq => by have := h2 q hq; rw [g2] at this; exact List.mem_of_mem_drop this⟩

end Cfdp.Loop

namespace Cfdp.Loop
open Cfdp.Codec Cfdp.Gen Cfdp.Timer Cfdp.Recv Cfdp.Send

theorem rg_of_same {src : Bytes} {m : Recv.Meta} {fs0 : Fs.FS} {r r' : Recv.State} (h : RG src m fs0 r)
    (hs : SameData r' r) : RG src m fs0 r' := by
  obtain ⟨c1, c2, c3, c4, c5, c6, c7, c8, c9, c10⟩ := hs
  exact ⟨by rw [c1]; exact h.mode, by rw [c2]; exact h.act, by rw [c3]; exact h.rd, by rw [c4]; exact h.md,
    by rw [c5]; exact h.size, by rw [c6]; exact h.ck, by rw [c7]; exact h.cond, dataOk_frame h.data c8 c9,
    by rw [c10]; exact h.fs⟩

/-- the link hands a list of PDUs to the sender, one loop iteration each -/
def deliverS (s : Send.State) (t : Nat) : List Pdu → Send.State
  | [] => s
  | p :: rest => deliverS (sendStep s t (.pdu p)) t rest

/-- what the sender's half carries from one arriving NAK to the next -/
structure SQ (st : Send.Static) (s : Send.State) : Prop where
  good : Send.Good s
  act : s.state = .Active
  mode : s.cfg.mode = .Acknowledged
  pr : s.prompt = none
  eofSent : s.sendState = .SendEof
  st : s.st = st

/-- NAK PDUs arrive one after the other: every piece of every request of every one of them ends up queued -/
theorem naks_arrive (st : Send.Static) (ps : List Pdu) (s : Send.State) (t : Nat) (h : SQ st s)
    (hk : ∀ p ∈ ps, ∃ nk, p.payload = .nak nk) :
    SQ st (deliverS s t ps) ∧ (∀ q ∈ s.naks, q ∈ (deliverS s t ps).naks) ∧
    ∀ p ∈ ps, ∀ nk, p.payload = .nak nk → ∀ r ∈ nk.requests, ∀ q ∈ splitRequest st.cfg.seg st.md.fileSize r,
      q ∈ (deliverS s t ps).naks := by
  induction ps generalizing s with
  | nil => exact ⟨h, fun q hq => hq, fun p hp => by cases hp⟩
  | cons p rest ih =>
    obtain ⟨nk, hnk⟩ := hk p (List.mem_cons_self ..)
    obtain ⟨g1, a1, p1, s1, st1, n1⟩ := nak_arrives s t p nk h.good h.act h.mode h.pr h.eofSent hnk
    have hmode : (sendStep s t (.pdu p)).cfg.mode = .Acknowledged := by
      show (sendStep s t (.pdu p)).st.cfg.mode = _; rw [st1]; exact h.mode
    have h' : SQ st (sendStep s t (.pdu p)) := ⟨g1, a1, hmode, p1, s1, by rw [st1]; exact h.st⟩
    obtain ⟨i1, i2, i3⟩ := ih (sendStep s t (.pdu p)) h' (fun x hx => hk x (List.mem_cons_of_mem _ hx))
    have hcfg : s.cfg.seg = st.cfg.seg := by show s.st.cfg.seg = _; rw [h.st]
    have hfs : s.md.fileSize = st.md.fileSize := by show s.st.md.fileSize = _; rw [h.st]
    simp only [deliverS]
    refine ⟨i1, ?_, ?_⟩
    · intro q hq
      apply i2
      rw [n1]
      exact mem_dedup _ _ _ (List.mem_append_left _ hq) (by simp)
    · intro p' hp' nk' hnk' r hr q hq
      rcases List.mem_cons.mp hp' with hp' | hp'
      · subst hp'
        rw [hnk] at hnk'
        cases hnk'
        apply i2
        rw [n1, hcfg, hfs]
        exact mem_dedup _ _ _ (List.mem_append_right _ (List.mem_flatMap.mpr ⟨r, hr, hq⟩)) (by simp)
      · exact i3 p' hp' nk' hnk' r hr q hq

/-- **C02 (a whole recovery round, both models and the link).**  The receiver is in mid-recovery with respect to
the sender's file (`RG`), something is missing, and its request queue covers everything that is missing -
which is what the queue is after it has been rebuilt by the NAK timer, `C08_exact`; its NAK counter has
room (`NakRoom`).  The sender has sent its EOF (`SQ`: acknowledged mode, `Send.Good`).  Then: the receiver
transmits its queue (as many NAK PDUs as it takes); the link hands them to the sender - all of them; the
sender transmits until its queue is empty; the link hands those PDUs to the receiver - in any order, at
any times, with any duplicates, losing none.  The delivery succeeds: Finished phase, NoError / Complete /
Retained.  (What is not in this theorem: that the NAK timer fires and that nothing of this round is lost.) -/
theorem C02_full_round {m Ta Ti Tn : Nat} (s : Send.State) (r : Recv.State) (t t' : Nat) (md : Recv.Meta) (fs0 : Fs.FS)
    (hs : SQ s.st s) (h : RG s.file md fs0 r) (hq : NQ m Ta Ti Tn t r)
    (hft : md.srcName.isEmpty = false) (hfs : (fs0.writeFile (Fs.relOf md.dstName) s.file).isSome = true)
    (hinc : ∃ x, x < s.file.length ∧ ¬ Seg.cov r.segs x)
    (hqueue : ∀ x, x < s.file.length → ¬ Seg.cov r.segs x → ∃ q ∈ r.naks, q.1 < q.2 ∧ q.1 ≤ x ∧ x < q.2)
    (ds : List (Nat × Pdu))
    (hsub : ∀ x ∈ ds, x.2 ∈ (sendN (deliverS s t' (recvN r.naks.length r t).2).naks.length
      (deliverS s t' (recvN r.naks.length r t).2) t').2)
    (hall : ∀ q ∈ (sendN (deliverS s t' (recvN r.naks.length r t).2).naks.length
      (deliverS s t' (recvN r.naks.length r t).2) t').2, q ∈ ds.map (·.2)) :
    FG (deliverAll (recvN r.naks.length r t).1 ds) := by
  -- the receiver transmits its queue
  obtain ⟨_, _, f0, f3, f4⟩ := recv_flushes_naks r.naks.length r t hq (Nat.le_refl _)
  have hrg := rg_of_same h f0
  have hsegs : (recvN r.naks.length r t).1.segs = r.segs := f0.2.2.2.2.2.2.2.1
  -- the NAKs reach the sender
  obtain ⟨k1, _, k3⟩ := naks_arrive s.st (recvN r.naks.length r t).2 s t' hs
    (fun p hp => by obtain ⟨nk, h1, _⟩ := f4 p hp; exact ⟨nk, h1⟩)
  generalize hs1 : deliverS s t' (recvN r.naks.length r t).2 = s1 at k1 k3 hsub hall
  have hfile1 : s1.file = s.file := by simp only [Send.State.file, k1.st]
  -- the sender empties its queue
  obtain ⟨_, _, _, g4, g5⟩ := send_flushes_queue s1.naks s1 t' k1.good k1.act k1.pr k1.eofSent rfl
  rw [hfile1] at g4 g5
  refine C02_receiver_recovers s.file md fs0 ds _ hrg hft hfs (fun x hx => g5 x.2 (hsub x hx)) (by rw [hsegs]; exact hinc) ?_
  intro x hx hnx
  rw [hsegs] at hnx
  obtain ⟨q, hq1, hq2, hq3, hq4⟩ := hqueue x hx hnx
  -- q went out in some NAK, a piece of it covering x was queued at the sender, and answered
  obtain ⟨pdu, hpdu, nk, hnk, hmem⟩ := f3 q hq1
  have hsz : s.md.fileSize = s.file.length := hs.good.size
  obtain ⟨pc, hpc, hpc1, hpc2⟩ := splitRequest_cover s.cfg.seg s.md.fileSize hs.good.seg.1 q hq2 x hq3 (by rw [hsz]; omega)
  have hin : pc ∈ s1.naks := k3 pdu hpdu nk hnk q hmem pc hpc
  have hok := k1.good.naks pc hin
  obtain ⟨ans, hans, hd, hh⟩ := g4 pc hin (by omega)
  have hpc3 : pc.2 ≤ s.file.length := by
    rcases hok with ⟨e1, e2⟩ | ⟨_, e2, _⟩
    · omega
    · rw [hfile1] at e2; exact e2
  refine ⟨ans, hall ans hans, pc.1, (s.file.drop pc.1).take (pc.2 - pc.1), by rw [hh], hpc1, ?_⟩
  simp only [List.length_take, List.length_drop]; omega

end Cfdp.Loop

namespace Cfdp.Loop
open Cfdp.Codec Cfdp.Gen Cfdp.Timer Cfdp.Recv Cfdp.Send

/-- the same with the queue as the NAK timer rebuilds it (`handle_timeout`: `naks = get_all_naks()`): by `C08_exact`
it lists exactly what is missing -/
theorem C02_full_round_after_wake {m Ta Ti Tn : Nat} (s : Send.State) (r : Recv.State) (t t' : Nat) (md : Recv.Meta)
    (fs0 : Fs.FS) (hs : SQ s.st s) (h : RG s.file md fs0 r) (hq : NQ m Ta Ti Tn t r)
    (hft : md.srcName.isEmpty = false) (hfs : (fs0.writeFile (Fs.relOf md.dstName) s.file).isSome = true)
    (hinc : ∃ x, x < s.file.length ∧ ¬ Seg.cov r.segs x)
    (hrebuilt : r.naks = getAllNaks r)
    (ds : List (Nat × Pdu))
    (hsub : ∀ x ∈ ds, x.2 ∈ (sendN (deliverS s t' (recvN r.naks.length r t).2).naks.length
      (deliverS s t' (recvN r.naks.length r t).2) t').2)
    (hall : ∀ q ∈ (sendN (deliverS s t' (recvN r.naks.length r t).2).naks.length
      (deliverS s t' (recvN r.naks.length r t).2) t').2, q ∈ ds.map (·.2)) :
    FG (deliverAll (recvN r.naks.length r t).1 ds) := by
  refine C02_full_round s r t t' md fs0 hs h hq hft hfs hinc ?_ ds hsub hall
  intro x hx hnx
  obtain ⟨e1, e2, e3⟩ := C08_exact r s.file.length h.data.inv h.size
  obtain ⟨q, hq1, hq2, hq3⟩ := (e2 x).mpr ⟨hx, hnx⟩
  refine ⟨q, ?_, (e3 q hq1).1, hq2, hq3⟩
  rw [hrebuilt, e1]
  exact List.mem_append_right _ hq1

/-! ### the premises are satisfiable -/

/-- the receiver of `exR` after it has transmitted the ACK of the EOF: `[4, 6)` is missing and queued -/
def exR1 : Recv.State := recvStep exR 0 .send

example :
    let out := (sendN (deliverS exS 2 (recvN exR1.naks.length exR1 1).2).naks.length
      (deliverS exS 2 (recvN exR1.naks.length exR1 1).2) 2).2
    FG (deliverAll (recvN exR1.naks.length exR1 1).1 (out.map (fun q => (3, q)))) := by
  intro out
  have hmd : exR1.md = some { srcName := [115], dstName := [100], fileSize := 6, closure := false, cksumType := .Null, requests := [] } := by
    rfl
  have hsegs : exR1.segs = [(0, 4)] := by decide
  have htmp : exR1.tempFile = some [1, 2, 3, 4] := by decide
  have hri : RI c04Cfg.max (c04Cfg.ta * 1000000000) (c04Cfg.ti * 1000000000) (c04Cfg.tn * 1000000000) exR1 := by
    have := ri_run [(0, .pdu exOut[0]!), (0, .pdu exOut[1]!), (0, .pdu exOut[3]!)] _
      (ri_new c04Cfg [([], .dir)] 0 (by decide) (by decide) (by decide) ⟨by decide, by decide, by decide⟩)
    exact ri_recvStep this 0 .send
  refine C02_full_round_after_wake exS exR1 1 2 _ exR1.fs
    ⟨good_run _ (Send.good_new Send.exCfg Send.exMd Send.exFile 0 rfl (by decide)) _, by decide, by decide, by decide,
      by decide, rfl⟩
    ⟨by decide, by decide, by decide, hmd, by decide, by decide, by decide, ?_, rfl⟩
    ⟨by decide, by decide, by decide, by decide, hri.inv.rt, ⟨by decide, Or.inr (by decide)⟩⟩
    (by decide) (by decide) ?_ (by decide) _ ?_ ?_
  · refine ⟨?_, ?_, ?_, ?_⟩
    · rw [hsegs]; exact ⟨fun sg hsg => by simp at hsg; subst hsg; decide, by simp⟩
    · rw [hsegs]; intro sg hsg; simp at hsg; subst hsg; decide
    · rw [htmp]; decide
    · rw [hsegs, htmp]
      intro x hx
      obtain ⟨sg, hsg, h1, h2⟩ := hx
      simp at hsg; subst hsg
      have : x = 0 ∨ x = 1 ∨ x = 2 ∨ x = 3 := by simp only at h1 h2; omega
      rcases this with rfl | rfl | rfl | rfl <;> rfl
  · rw [hsegs]
    refine ⟨4, by decide, ?_⟩
    rintro ⟨sg, hsg, h1, h2⟩
    simp at hsg; subst hsg; simp only at h2; omega
  · intro x hx
    obtain ⟨q, hq, rfl⟩ := List.mem_map.mp hx
    exact hq
  · intro q hq
    simp only [List.map_map]
    exact List.mem_map.mpr ⟨q, hq, rfl⟩

end Cfdp.Loop

#print axioms Cfdp.Loop.C02_full_round
#print axioms Cfdp.Loop.C02_full_round_after_wake
#print axioms Cfdp.Loop.C02_sender_answers_nak
#print axioms Cfdp.Loop.C02_receiver_recovers
#print axioms Cfdp.Loop.C02_recovery_round
#print axioms Cfdp.Net.C02_two_party_completes
#print axioms Cfdp.Loop.C02_recv_completes
#print axioms Cfdp.Loop.C02_send_completes
#print axioms Cfdp.Net.C02_two_party_no_integrity_fault
#print axioms Cfdp.Loop.C02_no_integrity_fault
#print axioms Cfdp.Recv.C02_size_check_passes
#print axioms Cfdp.Seg.C02_round_completes
#print axioms Cfdp.Seg.C02_gaps_answered
#print axioms Cfdp.Recv.C02_finishes_when_complete
#print axioms Cfdp.Recv.C02_never_waits_complete
#print axioms Cfdp.Recv.C02_complete_is_success
