import Cfdp.Tactic.Peel
import Cfdp.Props.C08

/-! # C08, headers: every PDU a receiver emits carries the transaction's identifiers and true length -/
namespace Cfdp.Recv
open Cfdp.Codec Cfdp.Gen Cfdp.Loop

/-- the header of a PDU the receiver sends: the configured ids, mode, CRC and file-size flags,
direction towards the sender, a file directive, the payload's length -/
def HeaderOf (c : Config) (p : Pdu) : Prop :=
  p.header.src = c.src ∧ p.header.seq = c.seq ∧ p.header.dst = c.dst ∧ p.header.mode = c.mode ∧
  p.header.crc = c.crc ∧ p.header.large = c.fss ∧ p.header.direction = .ToSender ∧
  p.header.pduType = .FileDirective ∧ p.header.dataLen = p.payload.len c.fss ∧
  p.header.version = .One ∧ p.header.segCtrl = .NotPreserved ∧ p.header.segMeta = .NotPresent

structure HdrOk (s : State) : Prop where
  cache : ∀ h, s.header = some h → h.src = s.cfg.src ∧ h.seq = s.cfg.seq ∧ h.dst = s.cfg.dst ∧ h.mode = s.cfg.mode ∧
    h.crc = s.cfg.crc ∧ h.large = s.cfg.fss ∧ h.direction = .ToSender ∧ h.version = .One ∧ h.segMeta = .NotPresent
  sent : ∀ p, s.sent = some p → HeaderOf s.cfg p

theorem hdrOk_frame {s s' : State} (h : HdrOk s) (h1 : s'.cfg = s.cfg) (h2 : s'.header = s.header) (h3 : s'.sent = s.sent) :
    HdrOk s' :=
  ⟨by rw [h2, h1]; exact h.cache, by rw [h3, h1]; exact h.sent⟩

theorem hdrOk_sendPayload {s : State} (h : HdrOk s) (p : Payload) : HdrOk (sendPayload s p) := by
  simp only [sendPayload, getHeader]
  split
  · rename_i hd hh
    obtain ⟨a1, a2, a3, a4, a5, a6, a7, a8, a9⟩ := h.cache hd hh
    refine ⟨h.cache, ?_⟩
    intro q hq
    cases hq
    exact ⟨a1, a2, a3, a4, a5, a6, a7, rfl, rfl, a8, rfl, a9⟩
  · refine ⟨?_, ?_⟩
    · intro hd hh
      cases hh
      exact ⟨rfl, rfl, rfl, rfl, rfl, rfl, rfl, rfl, rfl⟩
    · intro q hq
      cases hq
      exact ⟨rfl, rfl, rfl, rfl, rfl, rfl, rfl, rfl, rfl, rfl, rfl, rfl⟩

syntax "hdr_go" "[" term,* "]" : tactic
macro_rules
  | `(tactic| hdr_go [$ls,*]) => `(tactic|
      (((try dsimp only) <;> repeat' (first
        | assumption
        $[| with_reducible apply $ls]*
        | with_reducible apply hdrOk_sendPayload
        | peel hdrOk_frame 3)) <;> done))

variable {s : State} {now : Nat}

theorem hdrOk_sendNaks (h : HdrOk s) : HdrOk (sendNaks s now) := by
  simp only [sendNaks]
  repeat' split
  all_goals hdr_go []
theorem hdrOk_sendPdu (h : HdrOk s) : HdrOk (sendPdu s now) := by
  simp only [sendPdu, answerPrompt, sendAckEof, sendFinished, setFinishedFlag]
  repeat' split
  all_goals hdr_go [hdrOk_sendNaks]

theorem hdrOk_recvStep (h : HdrOk s) (e : Ev) : HdrOk (recvStep s now e) := by
  have h0 : HdrOk { s with sent := none, out := [] } := ⟨h.cache, fun p hp => (by cases hp)⟩
  simp only [recvStep]
  split
  · exact h0
  · cases e with
    | send =>
      dsimp only
      split
      · exact hdrOk_sendPdu h0
      · exact h0
    | pdu p => exact hdrOk_frame h0 (by simp) (by simp) (by simp)
    | timeout =>
      dsimp only
      split
      · exact hdrOk_frame h0 (by simp) (by simp) (by simp)
      · exact h0
    | cancel => exact hdrOk_frame h0 (by simp) (by simp) (by simp)
    | suspend => exact hdrOk_frame h0 (by simp) (by simp) (by simp)
    | resume => exact hdrOk_frame h0 (by simp) (by simp) (by simp)
    | report => exact hdrOk_frame h0 (by simp) (by simp) (by simp)
    | abandon => exact hdrOk_frame h0 (by simp) (by simp) (by simp)
    | prompt k => exact h0

/-- **C08 (headers).**  Over every history of events, every PDU a receive transaction transmits —
ACK(EOF), NAK, Finished, keep-alive — carries the transaction's source and destination entity ids
and sequence number, its mode, CRC and file-size flags, direction "to sender", type file directive
and a data-field length equal to the encoded length of its payload. -/
theorem C08_headers (cfg : Config) (fs : Fs.FS) (t0 : Nat) (evs : List (Nat × Ev)) :
    ∀ p ∈ (recvRun (new cfg fs t0) evs).2, HeaderOf cfg p := by
  have key : ∀ (evs : List (Nat × Ev)) (s : State), HdrOk s → ∀ p ∈ (recvRun s evs).2, HeaderOf s.cfg p := by
    intro evs
    induction evs with
    | nil => intro s _ p hp; simp [recvRun] at hp
    | cons x rest ih =>
      intro s h p hp
      obtain ⟨now, e⟩ := x
      have h1 := hdrOk_recvStep (now := now) h e
      have hc : (recvStep s now e).cfg = s.cfg := cfg_recvStep s now e
      simp only [recvRun, List.mem_append, Option.mem_toList] at hp
      rcases hp with hp | hp
      · rw [← hc]; exact h1.sent p hp
      · rw [← hc]; exact ih _ h1 p hp
  exact key evs _ ⟨fun h hh => (by cases hh), fun p hp => (by cases hp)⟩

end Cfdp.Recv

#print axioms Cfdp.Recv.C08_headers
#print axioms Cfdp.Loop.C08_wellformed
#print axioms Cfdp.Recv.C08_exact
#print axioms Cfdp.Recv.C08_queue_after_eof
#print axioms Cfdp.Recv.C08_queue_after_eof_delayed
#print axioms Cfdp.Recv.C08_immediate_gap
#print axioms Cfdp.Loop.C08_deferred_quiet
