import Cfdp.Props.C02w
import Cfdp.Props.Net

/-! # C02: when the whole source file has arrived, the delivery is reported as successful -/
namespace Cfdp.Recv
open Cfdp.Codec Cfdp.Gen

/-- the checksum the receiver computes over a staging file equal to the source is the checksum the
sender's EOF carries (`Send.trueChecksum`, C07_eof) -/
theorem fileChecksum_true (ct : ChecksumType) (src : Bytes) :
    fileChecksum ct src = (match ct with | .Null => 0 | .Modular => (Cksum.spec src).toNat) := by
  cases ct with
  | Null => rfl
  | Modular =>
    have hs := Cksum.chunkBy_spec [8192] (src.length + 1) 0 src (Nat.lt_succ_self _)
    simp only [fileChecksum]
    rw [Cksum.C14_chunking _ hs.2, hs.1]

/-- **C02 (the complete file is reported as delivered).**  A receiver still collecting a file
transfer, with the Metadata, a NoError EOF announcing the source's size and carrying the source's
checksum, and a staging file that agrees with the source `src` on every byte it holds (C01's
invariant, which holds when the link delivers the sender's PDUs): in the iteration in which its
segment list covers `[0, size)`, `check_finished` verifies the checksum successfully, copies the
file under the destination name (if the filestore lets it: the directory exists and the name is not
a directory), records NoError / Complete / Retained, tells its user so and queues a Finished PDU
saying the same. -/
theorem C02_complete_is_success (src : Bytes) (s : State) (now : Nat) (m : Meta)
    (hr : s.recvState = .ReceiveData) (hcond : s.condition = .NoError) (hmd : s.md = some m)
    (hft : m.srcName.isEmpty = false) (hn : s.fileSize = some src.length)
    (hck : s.checksum = some (fileChecksum m.cksumType src)) (hd : DataOk src s)
    (hc : Seg.isComplete s.segs src.length = true)
    (hfs : (s.fs.writeFile (Fs.relOf m.dstName) src).isSome = true) :
    let s' := checkFinished s now
    s'.recvState = .Finished ∧ s'.condition = .NoError ∧ s'.delivery = .Complete ∧ s'.fileStatus = .Retained ∧
    (∃ st stt rs, Ind.finished .NoError .Complete .Retained st stt rs ∈ s'.out) ∧
    (∃ f, s'.finished = some (f, true) ∧ f.cond = .NoError ∧ f.delivery = .Complete ∧ f.fileStatus = .Retained) ∧
    (m.requests = [] → s'.fs.get (Fs.relOf m.dstName) = some (.file src)) := by
  intro s'
  have hsrc : s.tempFile.getD [] = src := dataOk_complete hd hc
  have hnn : hasNaks s = false := by
    simp only [hasNaks, hmd, hn, hc, Option.isNone_some, Bool.not_true, Bool.or_self]
  have hift : isFileTransfer s = true := by simp [isFileTransfer, hmd, hft]
  have hg : (s.recvState == RecvState.ReceiveData && s.md.isSome && eofReceived s &&
      !(isFileTransfer s && hasNaks s)) = true := by
    simp [hr, hmd, eofReceived, hn, hnn]
  obtain ⟨fs', hfs'⟩ := Option.isSome_iff_exists.mp hfs
  have hget : fs'.get (Fs.relOf m.dstName) = some (.file src) := by
    simp only [Fs.FS.writeFile] at hfs'
    split at hfs'
    · cases hfs'
    · split at hfs'
      · cases hfs'
      · split at hfs'
        · cases hfs'
        · cases hfs'
          exact Fs.get_set_self _ _ _
  have hA : isFileTransfer { s with delivery := DeliveryCode.Complete } = true := hift
  have hv : verifyStage { s with delivery := DeliveryCode.Complete } now
      = ({ s with delivery := DeliveryCode.Complete, tempFile := some src }, true) := by
    simp only [verifyStage, hck, hmd, hsrc, Option.getD_some, beq_self_eq_true, Bool.not_true, Bool.false_eq_true, if_false]
  have hcp : copyStage { s with delivery := DeliveryCode.Complete, tempFile := some src }
      = ({ s with delivery := DeliveryCode.Complete, tempFile := none, fs := fs', fileStatus := .Retained }, true) := by
    simp only [copyStage, finalizeFile, hmd, Option.getD_some, hfs', if_true]
  have hfp : finalizeFilePart { s with delivery := DeliveryCode.Complete } now
      = ({ s with delivery := DeliveryCode.Complete, tempFile := none, fs := fs', fileStatus := .Retained }, true) := by
    simp only [finalizeFilePart, hA, if_true, hv, Bool.not_true, Bool.false_eq_true, if_false, hcp]
  have hdc : (if s.md.isNone || (isFileTransfer s && hasNaks s) then DeliveryCode.Incomplete else DeliveryCode.Complete)
      = DeliveryCode.Complete := by simp [hmd, hnn]
  have hne : (FileStatusCode.Retained == FileStatusCode.FileStoreRejection) = false := by decide
  simp only [s', checkFinished, hg, if_true, finalizeReceive, hdc, hfp, Bool.not_true, Bool.false_eq_true, if_false, hne,
    prepareFinished, emit]
  simp only [hmd, hcond]
  refine ⟨?_, ?_, ?_, ?_, ⟨s.state, s.status, (Fs.runRequests fs' false m.requests).1, ?_⟩, ⟨_, rfl, ?_⟩, ?_⟩
  · first | rfl | trivial
  · first | rfl | trivial
  · first | rfl | trivial
  · first | rfl | trivial
  · simp
  · first | exact ⟨rfl, rfl, rfl⟩ | trivial | simp
  · intro hreq
    simp only [hreq, Fs.runRequests]
    exact hget

end Cfdp.Recv

#print axioms Cfdp.Recv.C02_complete_is_success
#print axioms Cfdp.Seg.C02_round_completes
#print axioms Cfdp.Seg.C02_gaps_answered
#print axioms Cfdp.Recv.C02_finishes_when_complete
#print axioms Cfdp.Recv.C02_never_waits_complete
