import Cfdp.Props.C02t

/-! # C02: the NAK timer brings the recovery round about

`wake_rebuilds` (the loop iteration of a NAK-timer expiry below the limit rebuilds the request queue and leaves room for the
NAKs) and `C02_timer_round` (that expiry followed by a round in which nothing is lost completes the delivery). -/
namespace Cfdp.Timer

/-- a running NAK counter whose period is over makes the computed sleep zero -/
theorem untilTimeout_nak_due (tm : Timer) (now : Nat) (hp : tm.nak.paused = false) (hd : tm.nak.timeout ≤ now - tm.nak.start)
    (hs : tm.nak.start ≤ now) : tm.untilTimeout now = some 0 := by
  have h0 : tm.nak.untilTimeout now = 0 := by
    simp only [Counter.untilTimeout]; split <;> omega
  simp only [Timer.untilTimeout, hp, Bool.not_false, if_true, h0]
  cases tm.ack.paused <;> cases tm.inactivity.paused <;>
    simp only [Bool.not_true, Bool.not_false, Bool.false_eq_true, if_false, if_true, optMin, Nat.min_zero, Nat.zero_min]

end Cfdp.Timer

namespace Cfdp.Loop
open Cfdp.Codec Cfdp.Gen Cfdp.Timer Cfdp.Recv Cfdp.Send

/-- **the NAK timer rebuilds the queue.**  A receiver in mid-recovery (`RG`, something missing) with nothing to
transmit, no delayed check pending, and its NAK timer running out at clock reading `t` below its limit (the
inactivity limit not reached either): the loop iteration for that expiry leaves the data untouched, rebuilds
the request queue from the segment list, and leaves the NAK counter with room for the NAKs to come. -/
theorem wake_rebuilds {m Ta Ti Tn : Nat} (r : Recv.State) (t : Nat) (src : Bytes) (md : Recv.Meta) (fs0 : Fs.FS)
    (h : RG src md fs0 r) (hpr : r.prompt = none) (hack : r.ack = none) (hrt : RT m Ta Ti Tn r.timer)
    (hdel : r.delayed = [])
    (hdue : r.timer.nak.paused = false ∧ r.timer.nak.timeout ≤ t - r.timer.nak.start ∧ r.timer.nak.start ≤ t)
    (hnl : (r.timer.nak.update t).count ≠ r.timer.nak.max) (hmax : 0 < r.timer.nak.max)
    (hil : (r.timer.inactivity.update t).count ≠ r.timer.inactivity.max)
    (hinc : ∃ x, x < src.length ∧ ¬ Seg.cov r.segs x) :
    SameData (recvStep r t .timeout) r ∧ NQ m Ta Ti Tn t (recvStep r t .timeout) ∧
    (recvStep r t .timeout).naks = getAllNaks (recvStep r t .timeout) := by
  have hnt : ((clrR r).state == TransactionState.Terminated) = false := by
    show (r.state == TransactionState.Terminated) = false; rw [h.act]; rfl
  have hns : ((clrR r).state == TransactionState.Suspended) = false := by
    show (r.state == TransactionState.Suspended) = false; rw [h.act]; rfl
  -- the computed sleep is over
  have hu : Recv.untilTimeout (clrR r) t = some 0 := by
    have hd0 : (clrR r).delayed = [] := hdel
    simp only [Recv.untilTimeout, hns, Bool.false_eq_true, if_false, hd0, List.head?_nil]
    exact untilTimeout_nak_due r.timer t hdue.1 hdue.2.1 hdue.2.2
  have hmode : ((clrR r).cfg.mode == TransmissionMode.Unacknowledged) = false := by
    show (r.cfg.mode == TransmissionMode.Unacknowledged) = false; rw [h.mode]; rfl
  have e1 : recvStep r t .timeout = handleTimeoutMain (clrR r) t := by
    rw [recvStep_eq]
    simp only [hnt, Bool.false_eq_true, if_false, hu, beq_self_eq_true, if_true, Recv.handleTimeout, hns, hmode,
      Bool.false_and]
  -- the delayed checks: none
  have hd : handleDelayed (clrR r) t = clrR r := by
    have hd0 : (clrR r).delayed = [] := hdel
    rw [naks_handleDelayed_nil _ _ (by rw [hd0]; rfl), hd0]
    show ({ clrR r with delayed := [] } : Recv.State) = clrR r
    have : (clrR r) = { clrR r with delayed := (clrR r).delayed } := rfl
    rw [this, hd0]
  -- the inactivity part: no limit
  have hib : (((clrR r).timer.inactivity.limitReached t).2) = false := by
    show ((r.timer.inactivity.update t).count == (r.timer.inactivity.update t).max) = false
    rw [max_update]; simpa using hil
  obtain ⟨k, hk, hkq⟩ : ∃ k, handleInactivity (clrR r) t = (setIR (clrR r) k, true) ∧ CQ m Ti k := by
    rw [Recv.handleInactivity_eq]
    simp only [hib, Bool.false_eq_true, if_false]
    split
    · exact ⟨_, rfl, cq_restart (cq_timeoutOccurred (cq_limitReached hrt.inactivity t) t) t⟩
    · exact ⟨_, rfl, cq_timeoutOccurred (cq_limitReached hrt.inactivity t) t⟩
  -- the NAK part
  have hocc : ((setIR (clrR r) k).timer.nak.update t).occurred = true := (update_due r.timer.nak t hdue.1 hdue.2.1).1
  have hgaps : (getAllNaks (setNR (setIR (clrR r) k) (r.timer.nak.update t))).isEmpty = false := by
    have e := getAllNaks_congr (s := r) (s' := setNR (setIR (clrR r) k) (r.timer.nak.update t)) rfl rfl rfl
    rw [e]
    obtain ⟨c1, c2, _⟩ := C08_exact r src.length h.data.inv h.size
    obtain ⟨x, hx, hnx⟩ := hinc
    obtain ⟨q, hq, _⟩ := (c2 x).mpr ⟨hx, hnx⟩
    rw [c1]
    cases hg : Seg.gaps r.segs 0 src.length with
    | nil => rw [hg] at hq; cases hq
    | cons y ys => simp
  have e2 : handleTimeoutMain (clrR r) t =
      nbSet (setIR (clrR r) k) (r.timer.nak.update t) (r.timer.nak.update t) := by
    rw [Recv.handleTimeoutMain_eq]
    simp only [hns, Bool.false_eq_true, if_false, hd, hk, Bool.not_true]
    have hrd : (setIR (clrR r) k).recvState = .ReceiveData := h.rd
    simp only [hrd]
    rw [nakBranch_eq]
    have hnk : (setIR (clrR r) k).timer.nak = r.timer.nak := rfl
    rw [hnk] at hocc ⊢
    simp only [hocc, if_true, hgaps, Bool.false_eq_true, if_false]
  rw [e1, e2]
  refine ⟨⟨rfl, rfl, rfl, rfl, rfl, rfl, rfl, rfl, rfl, rfl⟩, ⟨h.act, h.rd, hpr, hack, ?_, ?_⟩, ?_⟩
  · exact ⟨hrt.ack, hkq, cq_update hrt.nak t⟩
  · refine ⟨by show (r.timer.nak.update t).max > 0; rw [max_update]; exact hmax, Or.inr ?_⟩
    show ((r.timer.nak.update t).update t).count ≠ ((r.timer.nak.update t).update t).max
    rw [update_idem _ _ hrt.nak.2.1 hrt.nak.1, max_update]
    exact hnl
  · show getAllNaks (setNR (setIR (clrR r) k) (r.timer.nak.update t)) = getAllNaks _
    exact getAllNaks_congr rfl rfl rfl

/-- **C02 (the NAK timer's recovery round).**  The receiver is in mid-recovery with something missing and nothing to
transmit; its NAK timer runs out at clock reading `t`, below its limit.  From that expiry on nothing is lost:
the receiver's NAKs reach the sender (which has sent its EOF), the sender's answers reach the receiver - in any
order, at any times, with any duplicates.  Then the delivery succeeds: Finished / NoError / Complete / Retained. -/
theorem C02_timer_round {m Ta Ti Tn : Nat} (s : Send.State) (r : Recv.State) (t t' : Nat) (md : Recv.Meta) (fs0 : Fs.FS)
    (hs : SQ s.st s) (h : RG s.file md fs0 r) (hpr : r.prompt = none) (hack : r.ack = none) (hrt : RT m Ta Ti Tn r.timer)
    (hdel : r.delayed = [])
    (hdue : r.timer.nak.paused = false ∧ r.timer.nak.timeout ≤ t - r.timer.nak.start ∧ r.timer.nak.start ≤ t)
    (hnl : (r.timer.nak.update t).count ≠ r.timer.nak.max) (hmax : 0 < r.timer.nak.max)
    (hil : (r.timer.inactivity.update t).count ≠ r.timer.inactivity.max)
    (hft : md.srcName.isEmpty = false) (hfs : (fs0.writeFile (Fs.relOf md.dstName) s.file).isSome = true)
    (hinc : ∃ x, x < s.file.length ∧ ¬ Seg.cov r.segs x)
    (ds : List (Nat × Pdu))
    (hsub : ∀ x ∈ ds, x.2 ∈ (sendN (deliverS s t' (recvN (recvStep r t .timeout).naks.length (recvStep r t .timeout) t).2).naks.length
      (deliverS s t' (recvN (recvStep r t .timeout).naks.length (recvStep r t .timeout) t).2) t').2)
    (hall : ∀ q ∈ (sendN (deliverS s t' (recvN (recvStep r t .timeout).naks.length (recvStep r t .timeout) t).2).naks.length
      (deliverS s t' (recvN (recvStep r t .timeout).naks.length (recvStep r t .timeout) t).2) t').2, q ∈ ds.map (·.2)) :
    FG (deliverAll (recvN (recvStep r t .timeout).naks.length (recvStep r t .timeout) t).1 ds) := by
  obtain ⟨w1, w2, w3⟩ := wake_rebuilds r t s.file md fs0 h hpr hack hrt hdel hdue hnl hmax hil hinc
  have hrg := rg_of_same h w1
  have hsegs : (recvStep r t .timeout).segs = r.segs := w1.2.2.2.2.2.2.2.1
  exact C02_full_round_after_wake s (recvStep r t .timeout) t t' md fs0 hs hrg w2 hft hfs (by rw [hsegs]; exact hinc) w3 ds
    hsub hall

end Cfdp.Loop

#print axioms Cfdp.Loop.C02_timer_round
#print axioms Cfdp.Loop.C02_full_round
#print axioms Cfdp.Loop.C02_full_round_after_wake
#print axioms Cfdp.Loop.C02_sender_answers_nak
#print axioms Cfdp.Loop.C02_receiver_recovers
#print axioms Cfdp.Loop.C02_recovery_round
#print axioms Cfdp.Net.C02_two_party_completes
#print axioms Cfdp.Loop.C02_recv_completes
#print axioms Cfdp.Loop.C02_send_completes
#print axioms Cfdp.Net.C02_two_party_no_integrity_fault
#print axioms Cfdp.Loop.C02_no_integrity_fault
#print axioms Cfdp.Recv.C02_size_check_passes
#print axioms Cfdp.Seg.C02_round_completes
#print axioms Cfdp.Seg.C02_gaps_answered
#print axioms Cfdp.Recv.C02_finishes_when_complete
#print axioms Cfdp.Recv.C02_never_waits_complete
#print axioms Cfdp.Recv.C02_complete_is_success
