import Cfdp.Props.C11s
import Cfdp.Props.C13
import Cfdp.Props.C10n
import Cfdp.Props.C02r

/-! # C11: a receive transaction writes nothing but its own destination name

The filestore frame of the receiver model over every loop event (`C11_writes_only_own_name`) and its reading for transactions
that share a filestore (`C11_shared_filestore`). -/
namespace Cfdp.Fs

theorem writeFile_get_other (fs fs' : FS) (p q : RelPath) (c : Codec.Bytes) (h : fs.writeFile p c = some fs') (hq : q ≠ p) :
    fs'.get q = fs.get q := by
  simp only [FS.writeFile] at h
  repeat' split at h
  all_goals first
    | (cases h; exact get_set_other fs p q _ hq)
    | cases h

end Cfdp.Fs

namespace Cfdp.Recv
open Cfdp.Codec Cfdp.Gen

/-- `q` is not this transaction's business: not its destination name, and it carries no filestore requests -/
def Foreign (s : State) (q : Fs.RelPath) : Prop := ∀ m, s.md = some m → q ≠ Fs.relOf m.dstName ∧ m.requests = []

theorem foreign_of_md {s s' : State} {q : Fs.RelPath} (h : Foreign s q) (hm : s'.md = s.md) : Foreign s' q := by
  unfold Foreign; rw [hm]; exact h

theorem get_finalizeFile (s : State) (q : Fs.RelPath) (h : Foreign s q) : (finalizeFile s).1.fs.get q = s.fs.get q := by
  simp only [finalizeFile]
  cases hm : s.md with
  | none => rfl
  | some m =>
    dsimp only
    cases hw : s.fs.writeFile (Fs.relOf m.dstName) (s.tempFile.getD []) with
    | none => rfl
    | some fs' => exact Fs.writeFile_get_other _ _ _ _ _ hw (h m hm).1

theorem get_copyStage (s : State) (q : Fs.RelPath) (h : Foreign s q) : (copyStage s).1.fs.get q = s.fs.get q := by
  simp only [copyStage]
  split
  · exact get_finalizeFile s q h
  · rfl

theorem get_finalizeFilePart (s : State) (now : Nat) (q : Fs.RelPath) (h : Foreign s q) :
    (finalizeFilePart s now).1.fs.get q = s.fs.get q := by
  simp only [finalizeFilePart]
  split
  · split
    · rw [fs_verifyStage]
    · rw [get_copyStage _ q (foreign_of_md h (md_verifyStage _ _)), fs_verifyStage]
  · rfl

theorem get_finalizeReceive (s : State) (now : Nat) (q : Fs.RelPath) (h : Foreign s q) :
    (finalizeReceive s now).1.fs.get q = s.fs.get q := by
  have h0 : Foreign { s with delivery := (if s.md.isNone || (isFileTransfer s && hasNaks s) then DeliveryCode.Incomplete else DeliveryCode.Complete) } q := h
  have ha := get_finalizeFilePart _ now q h0
  have hma : (finalizeFilePart { s with delivery := (if s.md.isNone || (isFileTransfer s && hasNaks s) then DeliveryCode.Incomplete else DeliveryCode.Complete) } now).1.md = s.md :=
    md_finalizeFilePart _ _
  simp only [finalizeReceive]
  generalize finalizeFilePart { s with delivery := (if s.md.isNone || (isFileTransfer s && hasNaks s) then DeliveryCode.Incomplete else DeliveryCode.Complete) } now = a at ha hma
  split
  · exact ha
  · have hb : ∀ (b : State × Bool), b.1.fs = a.1.fs → b.1.md = s.md →
        (if !b.2 then (b.1, false) else
          (emit { b.1 with responses := (Fs.runRequests b.1.fs false (match b.1.md with | some m => m.requests | none => [])).1,
                           fs := (Fs.runRequests b.1.fs false (match b.1.md with | some m => m.requests | none => [])).2 }
            (.finished b.1.condition b.1.delivery b.1.fileStatus b.1.state b.1.status
              (Fs.runRequests b.1.fs false (match b.1.md with | some m => m.requests | none => [])).1), true)).1.fs.get q = s.fs.get q := by
      intro b hfs hmd
      have hreq : (match b.1.md with | some m => m.requests | none => []) = [] := by
        rw [hmd]
        cases hm : s.md with
        | none => rfl
        | some m => exact (h m hm).2
      split
      · rw [hfs]; exact ha
      · rw [hreq]
        show (Fs.runRequests b.1.fs false []).2.get q = _
        simp only [Fs.runRequests]
        rw [hfs]; exact ha
    split
    · exact hb _ (fs_handleFault _ _ _) (by rw [md_handleFault]; exact hma)
    · exact hb (a.1, true) rfl hma

theorem get_checkFinished (s : State) (now : Nat) (q : Fs.RelPath) (h : Foreign s q) :
    (checkFinished s now).fs.get q = s.fs.get q := by
  simp only [checkFinished]
  split
  · exact get_finalizeReceive s now q h
  · rfl


theorem get_ackFileData (s : State) (off : Nat) (d : Bytes) (now : Nat) (q : Fs.RelPath) (h : Foreign s q) :
    (ackFileData s off d now).fs.get q = s.fs.get q := by
  simp only [ackFileData]
  rw [get_checkFinished _ now q (foreign_of_md h (by simp only [md_immediateNak, md_emit, md_storeFileData]))]
  simp only [fs_immediateNak, fs_emit, fs_storeFileData]

theorem get_ackEof (s : State) (e : Eof) (now : Nat) (q : Fs.RelPath) (h : Foreign s q) :
    (ackEof s e now).fs.get q = s.fs.get q := by
  simp only [ackEof]
  split
  · rw [fs_scheduleNaks]
    rw [get_checkFinished _ now q (foreign_of_md h (by simp only [md_checkFileSize, md_emit, prepareAckEof]))]
    simp only [fs_checkFileSize, fs_emit, prepareAckEof]
  · simp only [fs_cancelInner, fs_emit, prepareAckEof]

theorem get_unackFinish (s : State) (now : Nat) (q : Fs.RelPath) (h : Foreign s q) :
    (unackFinish s now).fs.get q = s.fs.get q := by
  simp only [unackFinish]
  split
  · simp only [fs_prepareFinished]; exact get_finalizeReceive s now q h
  · simp only [fs_shutdown]; exact get_finalizeReceive s now q h

theorem get_unackComplete (s : State) (now : Nat) (q : Fs.RelPath) (h : Foreign s q) :
    (unackComplete s now).fs.get q = s.fs.get q := by
  simp only [unackComplete]
  split
  · rw [fs_unackCheckMissing]
  · rw [get_unackFinish _ now q (foreign_of_md h (md_unackCheckMissing _ _)), fs_unackCheckMissing]

theorem get_unackEof (s : State) (e : Eof) (now : Nat) (q : Fs.RelPath) (h : Foreign s q) :
    (unackEof s e now).fs.get q = s.fs.get q := by
  simp only [unackEof]
  split
  · simp only [fs_setFinishedFlag, fs_emit]
  · split
    · simp only [unackEofNoError]
      rw [get_unackComplete _ now q (foreign_of_md h (by simp only [md_checkFileSize, md_emit]))]
      simp only [fs_checkFileSize, fs_emit]
    · simp only [fs_cancelInner, fs_emit]

/-- **a PDU makes a receive transaction write nothing but its own destination name.**  (`Foreign` is stated on the
state after the PDU, because the Metadata PDU itself may be the one that completes the delivery.) -/
theorem get_processPdu (s : State) (p : Pdu) (now : Nat) (q : Fs.RelPath) (h : Foreign (processPdu s p now).1 q) :
    (processPdu s p now).1.fs.get q = s.fs.get q := by
  have hfs0 : (pduArrived s now).fs = s.fs := fs_pduArrived s now
  rw [← hfs0]
  simp only [processPdu] at h ⊢
  generalize pduArrived s now = t at h ⊢
  simp only [processPduBody] at h ⊢
  cases hm : t.cfg.mode with
  | Acknowledged =>
    cases hp : p.payload <;> simp only [hm, hp] at h ⊢
    case metadata mm =>
      by_cases hnone : t.md.isNone = true
      · simp only [hnone, if_true] at h ⊢
        rw [get_checkFinished _ now q (foreign_of_md h (md_checkFinished _ _).symm), fs_storeMetadata]
      · simp only [hnone, Bool.false_eq_true, if_false] at h ⊢
    all_goals first
      | rfl
      | exact get_ackFileData t _ _ now q (foreign_of_md h (md_ackFileData _ _ _ _).symm)
      | exact get_ackEof t _ now q (foreign_of_md h (md_ackEof _ _ _).symm)
      | (split <;> first | rfl | (simp only [fs_shutdown]; done))
  | Unacknowledged =>
    cases hp : p.payload <;> simp only [hm, hp] at h ⊢
    case metadata mm =>
      by_cases hnone : t.md.isNone = true
      · simp only [hnone, if_true] at h ⊢
        rw [fs_storeMetadata]
      · simp only [hnone, Bool.false_eq_true, if_false] at h ⊢
    all_goals first
      | rfl
      | exact get_unackEof t _ now q (foreign_of_md h (md_unackEof _ _ _).symm)
      | (simp only [fs_emit, fs_storeFileData]; done)
      | (split <;> first | rfl | (simp only [fs_shutdown]; done))

end Cfdp.Recv

namespace Cfdp.Loop
open Cfdp.Codec Cfdp.Gen Cfdp.Recv

/-- **C11 (a receive transaction writes nothing but its own destination name).**  For every event of the task loop - any
PDU, transmission, timer expiry, user request - a filestore path that is not the destination name of the
transaction (whose Metadata, if it has arrived, carries no filestore requests) reads the same before and
after the iteration.  Two transactions with different destination names sharing a filestore therefore cannot
touch each other's files, in any interleaving of their iterations (`C11_shared_filestore`). -/
theorem C11_writes_only_own_name (s : Recv.State) (now : Nat) (e : Ev) (q : Fs.RelPath)
    (h : Foreign (recvStep s now e) q) : (recvStep s now e).fs.get q = s.fs.get q := by
  rw [recvStep_eq] at h ⊢
  by_cases hterm : ((clrR s).state == TransactionState.Terminated) = true
  · simp only [hterm, if_true]; rfl
  · simp only [hterm, Bool.false_eq_true, if_false] at h ⊢
    cases e <;> dsimp only at h ⊢
    case pdu p => exact get_processPdu (clrR s) p now q h
    case send =>
      split
      · rw [fs_sendPdu]; rfl
      · rfl
    case timeout =>
      split
      · rw [fs_handleTimeout]; rfl
      · rfl
    all_goals first
      | rfl
      | (rw [fs_cancel]; rfl)
      | (rw [fs_suspend]; rfl)
      | (rw [fs_resume]; rfl)
      | (rw [fs_sendReport]; rfl)
      | (rw [fs_shutdown]; rfl)

/-- one iteration of transaction `b` on a filestore shared with others -/
def stepShared (fs : Fs.FS) (b : Recv.State) (now : Nat) (e : Ev) : Recv.State := recvStep { b with fs := fs } now e

/-- **C11 (shared filestore).**  Whatever a receive transaction `b` does in one iteration on the shared filestore, a
path that is foreign to it - in particular the destination name of another transaction - is left as it was. -/
theorem C11_shared_filestore (fs : Fs.FS) (b : Recv.State) (now : Nat) (e : Ev) (q : Fs.RelPath)
    (h : Foreign (stepShared fs b now e) q) : (stepShared fs b now e).fs.get q = fs.get q :=
  C11_writes_only_own_name { b with fs := fs } now e q h

/-- the premise is satisfiable in the iteration that matters: the missing segment arrives at `exR` (Props/C02r.lean), the
delivery completes and the file is written under its destination name `d` - the name `z` reads as before -/
example : (recvStep exR 0 (.pdu exOut[2]!)).fs.get [['z']] = exR.fs.get [['z']] ∧
    (recvStep exR 0 (.pdu exOut[2]!)).fs.get [['d']] = some (.file Send.exFile) ∧ exR.fs.get [['d']] = none := by
  refine ⟨C11_writes_only_own_name exR 0 _ _ ?_, by decide, by decide⟩
  intro m hm
  have hmd : (recvStep exR 0 (.pdu exOut[2]!)).md =
      some { srcName := [115], dstName := [100], fileSize := 6, closure := false, cksumType := .Null, requests := [] } := rfl
  rw [hmd] at hm
  cases hm
  exact ⟨by decide, rfl⟩

end Cfdp.Loop

#print axioms Cfdp.Loop.C11_writes_only_own_name
#print axioms Cfdp.Loop.C11_shared_filestore

#print axioms Cfdp.System.C11_isolated_step
#print axioms Cfdp.System.C11_isolated_run
#print axioms Cfdp.System.C11_table_step
#print axioms Cfdp.System.C11_commute
#print axioms Cfdp.Daemon.C11_route_isolated
#print axioms Cfdp.Daemon.C11_stray_discarded
#print axioms Cfdp.Daemon.C11_spawn
#print axioms Cfdp.Daemon.C11_ids_distinct
