import Cfdp.Tactic.Peel
import Cfdp.Props.C07t

/-! # C07, headers: every PDU carries the transaction's identifiers, mode, direction and true length -/
namespace Cfdp.Send
open Cfdp.Codec Cfdp.Gen Cfdp.Loop

/-- the header of a PDU of this transaction: the configured ids, mode, CRC and file-size flags,
direction towards the receiver, the type of the payload and the payload's length -/
def HeaderOf (c : Config) (p : Pdu) : Prop :=
  p.header.src = c.src ∧ p.header.seq = c.seq ∧ p.header.dst = c.dst ∧ p.header.mode = c.mode ∧
  p.header.crc = c.crc ∧ p.header.large = c.fss ∧ p.header.direction = .ToReceiver ∧
  p.header.pduType = ptypeOf p.payload ∧ p.header.dataLen = p.payload.len c.fss ∧
  p.header.version = .One ∧ p.header.segCtrl = .NotPreserved ∧ p.header.segMeta = .NotPresent

/-- the cached header (if any) carries the configured fields -/
structure HdrOk (s : State) : Prop where
  cache : ∀ h, s.header = some h → h.src = s.cfg.src ∧ h.seq = s.cfg.seq ∧ h.dst = s.cfg.dst ∧ h.mode = s.cfg.mode ∧
    h.crc = s.cfg.crc ∧ h.large = s.cfg.fss ∧ h.direction = .ToReceiver ∧ h.version = .One ∧ h.segMeta = .NotPresent
  sent : ∀ p, s.sent = some p → HeaderOf s.cfg p

theorem hdrOk_frame {s s' : State} (h : HdrOk s) (h1 : s'.st = s.st) (h2 : s'.header = s.header) (h3 : s'.sent = s.sent) :
    HdrOk s' := by
  have hc : s'.cfg = s.cfg := by simp [State.cfg, h1]
  exact ⟨by rw [h2, hc]; exact h.cache, by rw [h3, hc]; exact h.sent⟩

theorem hdrOk_sendPayload {s : State} (h : HdrOk s) (p : Payload) : HdrOk (sendPayload s p) := by
  simp only [sendPayload, getHeader]
  split
  · rename_i hd hh
    obtain ⟨a1, a2, a3, a4, a5, a6, a7, a8, a9⟩ := h.cache hd hh
    refine ⟨h.cache, ?_⟩
    intro q hq
    cases hq
    exact ⟨a1, a2, a3, a4, a5, a6, a7, rfl, rfl, a8, rfl, a9⟩
  · refine ⟨?_, ?_⟩
    · intro hd hh
      cases hh
      exact ⟨rfl, rfl, rfl, rfl, rfl, rfl, rfl, rfl, rfl⟩
    · intro q hq
      cases hq
      exact ⟨rfl, rfl, rfl, rfl, rfl, rfl, rfl, rfl, rfl, rfl, rfl, rfl⟩

syntax "hd_go" "[" term,* "]" : tactic
macro_rules
  | `(tactic| hd_go [$ls,*]) => `(tactic|
      (((try dsimp only) <;> repeat' (first
        | assumption
        $[| with_reducible apply $ls]*
        | with_reducible apply hdrOk_sendPayload
        | peel hdrOk_frame 3)) <;> done))

variable {s : State} {now : Nat}

theorem hdrOk_sendEof (h : HdrOk s) : HdrOk (sendEof s now) := by
  simp only [sendEof, setEofFlag]
  repeat' split
  all_goals hd_go []
theorem hdrOk_sendFileSegment (h : HdrOk s) (o l : Option Nat) : HdrOk (sendFileSegment s o l) := by
  simp only [sendFileSegment]; hd_go []
theorem hdrOk_sendMissingData (h : HdrOk s) : HdrOk (sendMissingData s now) := by
  simp only [sendMissingData, answerNak, popNak, sendMetadata]
  repeat' split
  all_goals hd_go [hdrOk_sendFileSegment]
theorem hdrOk_sendPduMetadata (h : HdrOk s) : HdrOk (sendPduMetadata s now) := by
  have h1 : HdrOk (sendMetadata s) := by simp only [sendMetadata]; hd_go []
  simp only [sendPduMetadata]
  split
  all_goals hd_go []
theorem hdrOk_sendPduData (h : HdrOk s) : HdrOk (sendPduData s now) := by
  simp only [sendPduData]
  split
  all_goals hd_go [hdrOk_sendMissingData, hdrOk_sendFileSegment]
theorem hdrOk_sendPduEof (h : HdrOk s) : HdrOk (sendPduEof s now) := by
  have h1 := hdrOk_sendEof (now := now) h
  simp only [sendPduEof]
  repeat' split
  all_goals hd_go []
theorem hdrOk_sendPdu (h : HdrOk s) : HdrOk (sendPdu s now) := by
  simp only [sendPdu, sendPrompt, sendAck]
  repeat' split
  all_goals hd_go [hdrOk_sendMissingData, hdrOk_sendPduMetadata, hdrOk_sendPduData, hdrOk_sendPduEof, hdrOk_sendEof]

theorem hdrOk_sendStep (h : HdrOk s) (e : Ev) : HdrOk (sendStep s now e) := by
  have h0 : HdrOk { s with sent := none, out := [] } := ⟨h.cache, fun p hp => (by cases hp)⟩
  simp only [sendStep]
  split
  · exact h0
  · cases e with
    | send =>
      dsimp only
      split
      · exact hdrOk_sendPdu h0
      · exact h0
    | pdu p => exact hdrOk_frame h0 (by simp) (by simp) (by simp)
    | timeout =>
      dsimp only
      split
      · exact hdrOk_frame h0 (by simp) (by simp) (by simp)
      · exact h0
    | cancel => exact hdrOk_frame h0 (by simp) (by simp) (by simp)
    | suspend => exact hdrOk_frame h0 (by simp) (by simp) (by simp)
    | resume => exact hdrOk_frame h0 (by simp) (by simp) (by simp)
    | report => exact hdrOk_frame h0 (by simp) (by simp) (by simp)
    | abandon => exact hdrOk_frame h0 (by simp) (by simp) (by simp)
    | prompt k => exact hdrOk_frame h0 rfl rfl rfl

/-- **C07 (headers).**  Over every history of events, every PDU a send transaction transmits carries
the transaction's source and destination entity ids and sequence number, its transmission mode, CRC
and file-size flags, direction "to receiver", the PDU type of its payload (file data / file
directive) and a data-field length equal to the encoded length of the payload. -/
theorem C07_headers (cfg : Config) (md : Meta) (file : Bytes) (t0 : Nat) (evs : List (Nat × Ev)) :
    ∀ p ∈ (sendRun (new cfg md file t0) evs).2, HeaderOf cfg p := by
  have key : ∀ (evs : List (Nat × Ev)) (s : State), HdrOk s → ∀ p ∈ (sendRun s evs).2, HeaderOf s.cfg p := by
    intro evs
    induction evs with
    | nil => intro s _ p hp; simp [sendRun] at hp
    | cons x rest ih =>
      intro s h p hp
      obtain ⟨now, e⟩ := x
      have h1 := hdrOk_sendStep (now := now) h e
      have hc : (sendStep s now e).cfg = s.cfg := (sendStep_static s now e).2
      simp only [sendRun, List.mem_append, Option.mem_toList] at hp
      rcases hp with hp | hp
      · rw [← hc]; exact h1.sent p hp
      · rw [← hc]; exact ih _ h1 p hp
  exact key evs _ ⟨fun h hh => (by cases hh), fun p hp => (by cases hp)⟩

end Cfdp.Send

#print axioms Cfdp.Send.C07_headers
#print axioms Cfdp.Loop.C07_first_pass
#print axioms Cfdp.Send.C07_nak_answer
#print axioms Cfdp.Loop.C07_eof
#print axioms Cfdp.Send.C07_data
#print axioms Cfdp.Send.C07_nak_queue
