import Cfdp.Lemmas.Segments

/-!
# C09 — the receiver's account of which bytes it holds is exact

Property theorems about `Cfdp.Seg` (model of `cfdp-daemon/src/segments.rs`).  The segment
list refines the set of byte positions `cov l = { x | ∃ (s,e) ∈ l, s ≤ x < e }`.
-/
namespace Cfdp.Seg

/-- `merge` keeps the list well-formed (sorted, disjoint, non-adjacent, non-empty entries) -/
theorem merge_inv (l : List Seg) (a b : Nat) (h : Inv l) (hab : a < b) :
    Inv (merge l (a, b)).1 := by
  rw [inv_iff_chain] at h ⊢
  exact (merge_spec l (a, b) h hab).1

/-- after `merge` exactly the old bytes plus the bytes of the new segment are held -/
theorem merge_cov (l : List Seg) (a b : Nat) (h : Inv l) (hab : a < b) (x : Nat) :
    cov (merge l (a, b)).1 x ↔ cov l x ∨ (a ≤ x ∧ x < b) := by
  rw [inv_iff_chain] at h
  exact (merge_spec l (a, b) h hab).2.1 x

/-- the value returned by `merge` (the increment of the receiver's progress figure) is the
number of bytes that were not held before; in particular none of the u64 subtractions
underflows (`none` would be the overflow panic) -/
theorem merge_count (l : List Seg) (a b : Nat) (h : Inv l) (hab : a < b) :
    ∃ n, (merge l (a, b)).2 = some n ∧ total (merge l (a, b)).1 = total l + n := by
  rw [inv_iff_chain] at h
  exact (merge_spec l (a, b) h hab).2.2

/-- `total` (sum of the segment lengths) is the number of distinct byte positions held -/
theorem total_counts_bytes (l : List Seg) (N : Nat) (h : Inv l) (hN : ∀ s ∈ l, s.2 ≤ N) :
    total l = (List.range N).countP (fun x => decide (cov l x)) := by
  rw [inv_iff_chain] at h
  rw [total_eq_count l 0 N h hN]
  apply List.countP_congr
  intro x _
  have := covB_iff l x
  by_cases hc : cov l x <;> simp_all

/-- no value larger than the inputs is ever produced (no u64 overflow) -/
theorem merge_bounded (l : List Seg) (a b B : Nat) (h : Inv l) (hab : a < b)
    (hB : ∀ s ∈ l, s.2 ≤ B) (hb : b ≤ B) : ∀ s ∈ (merge l (a, b)).1, s.2 ≤ B := by
  intro s hs
  have hinv := merge_inv l a b h hab
  have hlt := hinv.1 s hs
  have hc : cov (merge l (a, b)).1 (s.2 - 1) := ⟨s, hs, by omega, by omega⟩
  rcases (merge_cov l a b h hab _).mp hc with ⟨t, ht, _, h2⟩ | ⟨_, h2⟩
  · have := hB t ht; omega
  · omega

/-- a file of size `n` is considered complete exactly when every byte of `[0,n)` is held;
an empty file is complete at once -/
theorem isComplete_iff (l : List Seg) (n : Nat) (h : Inv l) :
    isComplete l n = true ↔ ∀ x, x < n → cov l x := by
  rw [inv_iff_chain] at h
  exact isComplete_spec l n h

theorem isComplete_empty_file : isComplete [] 0 = true := rfl

/-- the gaps computed for a window are non-empty ranges inside the window, sorted and
non-adjacent, and they cover exactly the bytes of the window that are not held -/
theorem gaps_exact (l : List Seg) (a b : Nat) (h : Inv l) :
    Inv (gaps l a b) ∧
    (∀ g ∈ gaps l a b, a ≤ g.1 ∧ g.1 < g.2 ∧ g.2 ≤ b) ∧
    ∀ x, cov (gaps l a b) x ↔ (a ≤ x ∧ x < b ∧ ¬ cov l x) := by
  rw [inv_iff_chain] at h
  obtain ⟨g1, g2, g3⟩ := gapsScan_spec a b none l 0 (fun _ => False) h
    (by intro pe hpe; cases hpe) (by intro x _; simp)
  refine ⟨(inv_iff_chain _).mpr (g1.mono (Nat.zero_le _)), ?_, ?_⟩
  · intro g hg
    have := g1.lo_le g hg
    exact ⟨this.1, this.2, g2 g hg⟩
  · intro x
    have := g3 x
    simpa [gaps] using this

/-- each gap is maximal: it cannot be extended to the left or to the right inside the window
without including a byte that is held -/
theorem gaps_maximal (l : List Seg) (a b : Nat) (h : Inv l) :
    ∀ g ∈ gaps l a b, (g.1 = a ∨ cov l (g.1 - 1)) ∧ (g.2 = b ∨ cov l g.2) := by
  obtain ⟨hinv, hin, hcov⟩ := gaps_exact l a b h
  have hpw := hinv.2
  intro g hg
  obtain ⟨h1, h2, h3⟩ := hin g hg
  -- any other gap is separated from `g` by at least one byte
  have hsep : ∀ g' ∈ gaps l a b, g' = g ∨ g'.2 < g.1 ∨ g.2 < g'.1 := by
    intro g' hg'
    have := List.Pairwise.forall_of_forall_of_flip (l := gaps l a b)
      (R := fun x y => x = y ∨ x.2 < y.1 ∨ y.2 < x.1)
      (by intro x _; exact Or.inl rfl)
      (hpw.imp (fun h => Or.inr (Or.inl h)))
      (hpw.imp (fun h => Or.inr (Or.inr h)))
    exact this hg' hg
  constructor
  · rcases Nat.lt_or_ge a g.1 with hlt | hge
    · right
      apply Classical.byContradiction
      intro hn
      obtain ⟨g', hg', c1, c2⟩ := (hcov (g.1 - 1)).mpr ⟨by omega, by omega, hn⟩
      rcases hsep g' hg' with rfl | h' | h' <;> omega
    · left; omega
  · rcases Nat.lt_or_ge g.2 b with hlt | hge
    · right
      apply Classical.byContradiction
      intro hn
      obtain ⟨g', hg', c1, c2⟩ := (hcov g.2).mpr ⟨by omega, hlt, hn⟩
      have := (hin g' hg').2.1
      rcases hsep g' hg' with rfl | h' | h' <;> omega
    · left; omega

/-! ### whole histories -/

/-- feed a sequence of segments to `merge`, accumulating the returned counts; `none` as soon
as one call would panic -/
def mergeAll : List Seg → List Seg × Nat → Option (List Seg × Nat)
  | [], acc => some acc
  | sg :: rest, acc =>
    match (merge acc.1 sg).2 with
    | none => none
    | some n => mergeAll rest ((merge acc.1 sg).1, acc.2 + n)

theorem mergeAll_spec (segs : List Seg) (acc : List Seg × Nat)
    (hs : ∀ s ∈ segs, s.1 < s.2) (hacc : Inv acc.1) :
    ∃ l n, mergeAll segs acc = some (l, n) ∧ Inv l ∧
      (∀ x, cov l x ↔ cov acc.1 x ∨ cov segs x) ∧
      n + total acc.1 = acc.2 + total l := by
  induction segs generalizing acc with
  | nil => exact ⟨acc.1, acc.2, rfl, hacc, fun x => by simp, by omega⟩
  | cons sg rest ih =>
    obtain ⟨a, b⟩ := sg
    have hab : a < b := hs (a, b) (List.mem_cons_self ..)
    obtain ⟨n, hn, htot⟩ := merge_count acc.1 a b hacc hab
    have hinv := merge_inv acc.1 a b hacc hab
    obtain ⟨l, m, h1, h2, h3, h4⟩ := ih ((merge acc.1 (a, b)).1, acc.2 + n)
      (fun s hs' => hs s (List.mem_cons_of_mem _ hs')) hinv
    refine ⟨l, m, ?_, h2, ?_, ?_⟩
    · simp only [mergeAll, hn]; exact h1
    · intro x
      rw [h3 x, merge_cov acc.1 a b hacc hab x, cov_cons]
      constructor
      · rintro ((h | h) | h)
        · exact Or.inl h
        · exact Or.inr (Or.inl h)
        · exact Or.inr (Or.inr h)
      · rintro (h | h | h)
        · exact Or.inl (Or.inl h)
        · exact Or.inl (Or.inr h)
        · exact Or.inr h
    · simp only at h4; omega

/-- **C09 (histories).**  For every sequence of received data segments — overlapping,
duplicated, out of order, of any lengths — no call panics, the bookkeeping stays well-formed,
the bytes held are exactly the union of the segments, and the sum of the values returned by
`merge` (the receiver's progress figure) is the number of distinct bytes held. -/
theorem C09_history (segs : List Seg) (hs : ∀ s ∈ segs, s.1 < s.2) :
    ∃ l n, mergeAll segs ([], 0) = some (l, n) ∧ Inv l ∧
      (∀ x, cov l x ↔ cov segs x) ∧ n = total l ∧
      ∀ N, (∀ s ∈ l, s.2 ≤ N) → n = (List.range N).countP (fun x => decide (cov l x)) := by
  obtain ⟨l, n, h1, h2, h3, h4⟩ := mergeAll_spec segs ([], 0) hs ⟨by simp, by simp⟩
  refine ⟨l, n, h1, h2, fun x => by simpa using h3 x, by simpa using h4, ?_⟩
  intro N hN
  have : n = total l := by simpa using h4
  rw [this]
  exact total_counts_bytes l N h2 hN

/-! ### non-vacuity: the hypotheses are met by concrete non-trivial states -/

example : Inv [(0, 4), (6, 10), (12, 14)] := by
  refine ⟨by decide, by decide⟩
example : merge [(1, 2), (3, 4)] (0, 4) = ([(0, 4)], some 2) := by decide
example : gaps [(0, 4), (6, 10), (12, 14)] 0 3 = [] := by decide
example : gaps [(0, 4), (6, 10), (12, 14)] 0 10 = [(4, 6)] := by decide
example : gaps [(0, 4), (6, 10), (12, 14)] 2 20 = [(4, 6), (10, 12), (14, 20)] := by decide
example : isComplete [(3, 7)] 7 = false := by decide
example : mergeAll [(3, 7), (0, 2), (1, 5), (9, 10)] ([], 0) = some ([(0, 7), (9, 10)], 8) := by
  decide

end Cfdp.Seg

open Cfdp.Seg in
#print axioms merge_inv
open Cfdp.Seg in
#print axioms merge_cov
open Cfdp.Seg in
#print axioms merge_count
open Cfdp.Seg in
#print axioms total_counts_bytes
open Cfdp.Seg in
#print axioms merge_bounded
open Cfdp.Seg in
#print axioms isComplete_iff
open Cfdp.Seg in
#print axioms gaps_exact
open Cfdp.Seg in
#print axioms gaps_maximal
open Cfdp.Seg in
#print axioms C09_history
