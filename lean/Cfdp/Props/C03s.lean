import Cfdp.Props.C03

/-! # C03, sender side: a send transaction never sleeps forever -/
namespace Cfdp.Send
open Cfdp.Codec Cfdp.Gen Cfdp.Timer

/-- what keeps an active send transaction awake: in the Finished phase the ACK(Finished) is queued;
while waiting for the receiver (SendEof / Cancelled) either the EOF is queued or one of the two
timers is running -/
def SA (s : State) : Prop :=
  (s.sendState = .Finished → s.ack.isSome = true ∨ s.state = .Terminated) ∧
  ((s.sendState = .SendEof ∨ s.sendState = .Cancelled) →
    eofFlag s = true ∨ s.timer.ack.paused = false ∨ s.timer.inactivity.paused = false ∨ s.state ≠ .Active)

theorem sa_frame {s s' : State} (h : SA s) (h1 : s'.sendState = s.sendState) (h2 : s'.ack = s.ack)
    (h3 : s'.state = s.state) (h4 : s'.eof = s.eof) (h5 : s'.timer = s.timer) : SA s' := by
  unfold SA at *
  rw [h1, h2, h3, h5]; simp only [eofFlag, h4]; exact h

/-- close `SA r` for a record `r` built from `s` (hypothesis `h : SA s`) -/
syntax "sa_leaf" : tactic
macro_rules
  | `(tactic| sa_leaf) => `(tactic|
      (unfold SA at * <;> refine ⟨?_, ?_⟩ <;> intro hss <;> dsimp only at hss ⊢ <;>
        first
          | (exfalso; revert hss; decide; done)
          | (rcases hss with hss | hss <;> (exfalso; revert hss; decide; done))
          | (simp_all [eofFlag, paused_restart, paused_reset, paused_pause, paused_limitReached,
               paused_timeoutOccurred]; done)))

syntax "sa_go" "[" term,* "]" : tactic
macro_rules
  | `(tactic| sa_go [$ls,*]) => `(tactic|
      (((try dsimp only) <;> repeat' (first
        | assumption
        $[| with_reducible apply $ls]*
        | peel sa_frame 5
        | sa_leaf)) <;> done))

variable {s : State} {now : Nat}

theorem sa_shutdown : SA (shutdown s now) := by
  simp [shutdown, SA]

theorem sa_sendPayload (h : SA s) (p : Payload) : SA (sendPayload s p) := by
  sa_go []
theorem eofFlag_prepareEof (f : Option VarId) : eofFlag (prepareEof s f now) = true := by
  simp only [prepareEof, eofFlag]
theorem sa_prepareEof (hn : s.sendState ≠ .Finished) (f : Option VarId) : SA (prepareEof s f now) := by
  have h1 := eofFlag_prepareEof (s := s) (now := now) f
  have h2 : (prepareEof s f now).sendState = s.sendState := by simp
  unfold SA
  rw [h2, h1]
  exact ⟨fun h => absurd h hn, fun _ => Or.inl rfl⟩
theorem sa_toSendEof (h : eofFlag s = true) : SA { s with sendState := .SendEof } := by
  unfold SA
  refine ⟨fun h => ?_, fun _ => Or.inl h⟩
  exact absurd (show SendState.SendEof = .Finished from h) (by decide)
theorem sa_setEofFlag (h : SA s) : SA (setEofFlag s true) := by
  simp only [setEofFlag]
  repeat' split
  all_goals sa_go []
theorem sa_setEofFlag_running (h : SA s) (hp : s.timer.ack.paused = false) (f : Bool) : SA (setEofFlag s f) := by
  simp only [setEofFlag]
  repeat' split
  all_goals sa_go []
theorem sa_sendEof (h : SA s) : SA (sendEof s now) := by
  simp only [sendEof]
  split
  · apply sa_setEofFlag_running
    · sa_go []
    · simp only [timer_sendPayload, paused_restart]
  · exact h
theorem sa_popNak (h : SA s) : SA (popNak s now) := by
  simp only [popNak]
  repeat' split
  all_goals sa_go []
theorem sa_answerNak (h : SA s) (a b : Nat) : SA (answerNak s a b) := by
  simp only [answerNak]
  repeat' split
  all_goals sa_go []
theorem sa_sendMissingData (h : SA s) : SA (sendMissingData s now) := by
  simp only [sendMissingData]
  repeat' split
  all_goals sa_go [sa_answerNak, sa_popNak]
theorem sa_sendAck (h : SA s) : SA (sendAck s now) := by
  simp only [sendAck]
  repeat' split
  all_goals sa_go [sa_shutdown]
theorem sa_abandon : SA (abandon s now) := by
  simp only [abandon]; exact sa_shutdown
theorem sa_cancelInner (h : SA s) (c : Condition) : SA (cancelInner s c now) := by
  simp only [cancelInner]
  exact sa_prepareEof (by simp) _
theorem sa_suspend (h : SA s) (hn : s.sendState ≠ .Finished ∨ s.state ≠ .Terminated) : SA (suspend s now) := by
  simp only [suspend]
  rcases hn with hn | hn
  all_goals sa_go []
theorem sa_resume (h : SA s) (hn : s.state ≠ .Terminated) : SA (resume s now) := by
  simp only [resume]
  repeat' split
  all_goals sa_go []
theorem sa_handleFault (h : SA s) (hn : s.sendState ≠ .Finished) (c : Condition) : SA (handleFault s c now) := by
  simp only [handleFault]
  repeat' split
  · sa_go []
  · sa_go [sa_cancelInner]
  · refine sa_suspend ?_ (Or.inl hn)
    sa_go []
  · exact sa_abandon
theorem sa_sendPduMetadata (h : SA s) : SA (sendPduMetadata s now) := by
  simp only [sendPduMetadata]
  split
  · sa_go []
  · exact sa_toSendEof (eofFlag_prepareEof _)
theorem sa_afterData (h : SA s) : SA (afterData s now) := by
  simp only [afterData]
  split
  · exact sa_toSendEof (eofFlag_prepareEof _)
  · sa_go []
theorem sa_sendPduData (h : SA s) : SA (sendPduData s now) := by
  simp only [sendPduData]
  split
  all_goals sa_go [sa_afterData, sa_sendMissingData]
theorem sa_sendPduEof (h : SA s) : SA (sendPduEof s now) := by
  have h0 := sa_sendEof (now := now) h
  simp only [sendPduEof]
  repeat' split
  all_goals sa_go [sa_shutdown]
theorem sa_sendPdu (h : SA s) : SA (sendPdu s now) := by
  simp only [sendPdu, sendPrompt]
  repeat' split
  all_goals sa_go [sa_sendPduMetadata, sa_sendPduData, sa_sendMissingData, sa_sendPduEof, sa_sendEof, sa_sendAck]

/-- the fault path can only move the phase to Cancelled -/
theorem sendState_handleFault_ne (hn : s.sendState ≠ .Finished) (c : Condition) :
    (handleFault s c now).sendState ≠ .Finished := by
  simp only [handleFault, cancelInner]
  repeat' split
  all_goals (first | (simpa using hn) | (simp; done))
theorem sa_handleInactivity (h : SA s) (hn : s.sendState ≠ .Finished) (c : Bool) :
    SA (handleInactivity s now c) ∧ (handleInactivity s now c).sendState ≠ .Finished := by
  simp only [handleInactivity]
  repeat' split
  · exact ⟨sa_abandon, by simp; exact hn⟩
  · refine ⟨sa_handleFault ?_ (by exact hn) _, sendState_handleFault_ne (by exact hn) _⟩
    sa_go []
  · refine ⟨?_, hn⟩
    sa_go []
theorem sa_handleAckTimer (h : SA s) (hn : s.sendState ≠ .Finished) (c : Bool) :
    SA (handleAckTimer s now c) := by
  simp only [handleAckTimer]
  repeat' split
  · exact sa_abandon
  · refine sa_handleFault ?_ (by exact hn) _
    sa_go []
  · refine sa_setEofFlag ?_
    sa_go []
  · sa_go []
theorem sa_handleTimeout (h : SA s) : SA (handleTimeout s now) := by
  simp only [handleTimeout]
  repeat' split
  · exact h
  · rename_i hs
    have hn : s.sendState ≠ .Finished := by rw [hs]; decide
    exact sa_handleAckTimer (sa_handleInactivity h hn _).1 (sa_handleInactivity h hn _).2 _
  · rename_i hs
    have hn : s.sendState ≠ .Finished := by rw [hs]; decide
    exact sa_handleAckTimer (sa_handleInactivity h hn _).1 (sa_handleInactivity h hn _).2 _
  · exact h

theorem sa_processPdu (h : SA s) (p : Pdu) : SA (processPdu s p now).1 := by
  simp only [processPdu, processPduBody, pduArrived]
  repeat' split
  all_goals sa_go [sa_shutdown]

end Cfdp.Send

namespace Cfdp.Timer
theorem untilTimeout_some_of_ack (t : Timer) (now : Nat) (h : t.ack.paused = false) :
    ∃ d, t.untilTimeout now = some d := by
  simp only [Timer.untilTimeout, h, Bool.not_false, if_true, optMin]
  repeat' split
  all_goals exact ⟨_, rfl⟩
end Cfdp.Timer

namespace Cfdp.Loop
open Cfdp.Send Cfdp.Codec Cfdp.Gen Cfdp.Timer

theorem sa_sendStep {s : Send.State} (h : SA s) (now : Nat) (e : Ev) : SA (sendStep s now e) := by
  have h0 : SA { s with sent := none, out := [] } := sa_frame h rfl rfl rfl rfl rfl
  simp only [sendStep]
  split
  · exact h0
  · rename_i hs
    have hnt : ({ s with sent := none, out := [] } : Send.State).state ≠ .Terminated := by
      intro hc; rw [hc] at hs; exact hs rfl
    cases e with
    | pdu p => exact sa_processPdu h0 _
    | send =>
      dsimp only
      split
      · exact sa_sendPdu h0
      · exact h0
    | timeout =>
      dsimp only
      split
      · exact sa_handleTimeout h0
      · exact h0
    | cancel => exact sa_cancelInner h0 _
    | suspend => exact sa_suspend h0 (Or.inr hnt)
    | resume => exact sa_resume h0 hnt
    | report => exact sa_frame h0 rfl rfl rfl rfl rfl
    | abandon => exact sa_shutdown
    | prompt k => exact sa_frame h0 rfl rfl rfl rfl rfl

/-- **C03 (the sender never sleeps forever).**  After every history of loop events (PDUs from the
peer, transmission opportunities, timer wake-ups and user requests, at arbitrary times), a send
transaction that is neither terminated nor suspended either has a PDU to transmit right now or the
sleep its task loop computes (`until_timeout`) is finite: whatever the peer and the link do —
including nothing at all, for good — the loop runs again, and `handle_timeout` counts towards the
positive-ACK and inactivity limits. -/
theorem C03_send_never_stuck (cfg : Send.Config) (md : Send.Meta) (file : Bytes) (t0 : Nat)
    (evs : List (Nat × Ev)) (now : Nat)
    (ha : (sendRun (Send.new cfg md file t0) evs).1.state = .Active) :
    Send.hasPduToSend (sendRun (Send.new cfg md file t0) evs).1 = true ∨
    ∃ d, Send.untilTimeout (sendRun (Send.new cfg md file t0) evs).1 now = some d := by
  have key : ∀ (evs : List (Nat × Ev)) (s : Send.State), SA s → SA (sendRun s evs).1 := by
    intro evs
    induction evs with
    | nil => intro s h; exact h
    | cons x rest ih => intro s h; obtain ⟨t, e⟩ := x; exact ih _ (sa_sendStep h t e)
  have hn : (Send.new cfg md file t0).sendState = .SendMetadata := rfl
  have hsa := key evs (Send.new cfg md file t0) (by
    unfold SA; rw [hn]
    exact ⟨fun h => absurd h (by decide), fun h => h.elim (fun h => absurd h (by decide)) (fun h => absurd h (by decide))⟩)
  generalize (sendRun (Send.new cfg md file t0) evs).1 = r at ha hsa
  have hs : (r.state == TransactionState.Suspended) = false := by rw [ha]; rfl
  unfold SA at hsa
  simp only [Send.hasPduToSend, Send.untilTimeout, hs, Bool.false_eq_true, if_false]
  cases hss : r.sendState with
  | SendMetadata => left; simp
  | SendData => left; simp
  | Finished =>
    left
    rcases hsa.1 hss with h | h
    · simp [h]
    · rw [ha] at h; cases h
  | SendEof =>
    rcases hsa.2 (Or.inl hss) with h | h | h | h
    · left; simp [h]
    · right; exact untilTimeout_some_of_ack _ _ h
    · right; exact untilTimeout_some_of_inactivity _ _ h
    · exact absurd ha h
  | Cancelled =>
    rcases hsa.2 (Or.inr hss) with h | h | h | h
    · left; simp [h]
    · right; exact untilTimeout_some_of_ack _ _ h
    · right; exact untilTimeout_some_of_inactivity _ _ h
    · exact absurd ha h

/-- the premises are satisfiable: a fresh transaction is Active (and has its Metadata to send) -/
example : (sendRun (Send.new default default [] 0) []).1.state = .Active := rfl

end Cfdp.Loop

open Cfdp.Loop in
#print axioms C03_send_never_stuck
#print axioms Cfdp.Loop.C03_recv_never_stuck
#print axioms Cfdp.Recv.C03_recv_inactivity_limit
