import Cfdp.Props.C07e

/-! # C07, first pass: the file goes out once, tile by tile, in order; NAKs are answered exactly -/
namespace Cfdp.Send
open Cfdp.Codec Cfdp.Gen Cfdp.Loop

/-- **C07 (NAK answer).**  A queued request `[a, b)` that is not the metadata marker is answered
with one file-data PDU at offset `a` carrying exactly the bytes `[a, b)` of the file (requests in
the queue lie inside the file and are at most a segment long: `C07_nak_queue`). -/
theorem C07_nak_answer (s : State) (a b : Nat) (hab : a < b) (hb : b ≤ s.file.length) (hl : b - a ≤ 65535) :
    ∃ hd, (answerNak s a b).sent = some { header := hd, payload := .fileData a ((s.file.drop a).take (b - a)) } ∧
      ((s.file.drop a).take (b - a)).length = b - a := by
  have h1 : ¬ (b - a > 65535) := by omega
  have h2 : (a == 0 && b - a == 0) = false := by
    have : (b - a == 0) = false := by simp; omega
    simp [this]
  have hfile : (openHandle (openHandle s)).file = s.file := by simp [State.file]
  simp only [answerNak, h1, if_false, h2, Bool.false_eq_true, sendFileSegment, sent_sendPayload, Option.getD_some, hfile]
  refine ⟨_, rfl, ?_⟩
  simp only [List.length_take, List.length_drop]; omega

/-- the PDU of a first-pass transmission -/
theorem firstPass_sent (s : State) :
    ∃ hd, (sendFileSegment s none none).sent = some (Pdu.mk hd
      (.fileData ((openHandle s).cursor.getD 0) ((s.file.drop ((openHandle s).cursor.getD 0)).take s.cfg.seg))) := by
  have hfile : (openHandle s).file = s.file := by simp [State.file]
  have hcfg : (openHandle s).cfg = s.cfg := by simp [State.cfg]
  simp only [sendFileSegment, sent_sendPayload, Option.getD_none, hfile, hcfg]
  exact ⟨_, rfl⟩

end Cfdp.Send

namespace Cfdp.Loop
open Cfdp.Send Cfdp.Codec Cfdp.Gen

/-- the loop iterations of the first pass: a transmission opportunity taken in the data phase with
no retransmission request and no prompt pending -/
def fpStep (s : Send.State) (e : Ev) : Bool :=
  match e with
  | .send => s.state != .Terminated && Send.hasPduToSend s && !s.prompt.isSome && s.sendState == .SendData && s.naks.isEmpty
  | _ => false

/-- the PDUs transmitted by the first-pass iterations of a history, in order -/
def firstPass : Send.State → List (Nat × Ev) → List Pdu
  | _, [] => []
  | s, (now, e) :: rest =>
    (if fpStep s e then (sendStep s now e).sent.toList else []) ++ firstPass (sendStep s now e) rest

/-- `l` is the file cut into consecutive segments of `seg` octets from offset `a` up to offset `c` -/
def Tiles (file : Bytes) (seg : Nat) : List Pdu → Nat → Nat → Prop
  | [], a, c => a = c
  | p :: rest, a, c =>
    p.payload = .fileData a ((file.drop a).take seg) ∧ Tiles file seg rest (a + ((file.drop a).take seg).length) c

/-- `c` is how far the first pass has got -/
structure Track (s : Send.State) (c : Nat) : Prop where
  le : c ≤ s.file.length
  md : s.sendState = .SendMetadata → c = 0 ∧ s.cursor.getD 0 = 0
  data : s.sendState = .SendData → s.cursor.getD 0 = c
  eof : s.sendState = .SendEof → Send.isFileTransfer s = true → c = s.file.length

theorem track_frame {s s' : Send.State} {c : Nat} (h : Track s c) (h1 : s'.st = s.st) (h2 : s'.sendState = s.sendState)
    (h3 : s'.cursor = s.cursor) : Track s' c := by
  have hf : s'.file = s.file := by simp [Send.State.file, h1]
  have hi : Send.isFileTransfer s' = Send.isFileTransfer s := by simp [Send.isFileTransfer, Send.State.md, h1]
  exact ⟨by rw [hf]; exact h.le, by rw [h2, h3]; exact h.md, by rw [h2, h3]; exact h.data, by rw [h2, hi, hf]; exact h.eof⟩

/-- a step that leaves the phases in which the first pass is tracked, or keeps everything -/
theorem track_left {s s' : Send.State} {c : Nat} (h : Track s c) (h1 : s'.st = s.st)
    (h2 : s'.sendState = .Cancelled ∨ s'.sendState = .Finished) : Track s' c := by
  have hf : s'.file = s.file := by simp [Send.State.file, h1]
  refine ⟨by rw [hf]; exact h.le, ?_, ?_, ?_⟩ <;> intro hh <;> rcases h2 with h2 | h2 <;> rw [h2] at hh <;> cases hh

theorem sendState_processPdu_cases (s : Send.State) (p : Pdu) (now : Nat) :
    (Send.processPdu s p now).1.sendState = s.sendState ∨ (Send.processPdu s p now).1.sendState = .Finished := by
  simp only [Send.processPdu, Send.processPduBody, Send.pduArrived]
  repeat' split
  all_goals first
    | (left; rfl)
    | (right; rfl)
    | (left; simp; done)

theorem handleTimeout_other (s : Send.State) (now : Nat) (h1 : s.sendState ≠ .SendEof) (h2 : s.sendState ≠ .Cancelled) :
    Send.handleTimeout s now = s := by
  simp only [Send.handleTimeout]
  repeat' split
  all_goals first
    | rfl
    | (rename_i hh; exact absurd hh h1)
    | (rename_i hh; exact absurd hh h2)

theorem sendState_handleFault_cases (s : Send.State) (c : Condition) (now : Nat) :
    (Send.handleFault s c now).sendState = s.sendState ∨ (Send.handleFault s c now).sendState = .Cancelled := by
  simp only [Send.handleFault, Send.cancelInner]
  repeat' split
  all_goals first
    | (left; simp; done)
    | (right; simp; done)

theorem sendState_handleInactivity_cases (s : Send.State) (now : Nat) (b : Bool) :
    (Send.handleInactivity s now b).sendState = s.sendState ∨ (Send.handleInactivity s now b).sendState = .Cancelled := by
  simp only [Send.handleInactivity]
  repeat' split
  all_goals first
    | (left; rfl)
    | (left; simp; done)
    | exact sendState_handleFault_cases _ _ _

theorem sendState_handleAckTimer_cases (s : Send.State) (now : Nat) (b : Bool) :
    (Send.handleAckTimer s now b).sendState = s.sendState ∨ (Send.handleAckTimer s now b).sendState = .Cancelled := by
  simp only [Send.handleAckTimer]
  repeat' split
  all_goals first
    | (left; rfl)
    | (left; simp; done)
    | exact sendState_handleFault_cases _ _ _

theorem sendState_handleTimeout_cases (s : Send.State) (now : Nat) :
    (Send.handleTimeout s now).sendState = s.sendState ∨ (Send.handleTimeout s now).sendState = .Cancelled := by
  have key : ∀ b, (Send.handleAckTimer (Send.handleInactivity s now b) now b).sendState = s.sendState ∨
      (Send.handleAckTimer (Send.handleInactivity s now b) now b).sendState = .Cancelled := by
    intro b
    rcases sendState_handleAckTimer_cases (Send.handleInactivity s now b) now b with h | h
    · rcases sendState_handleInactivity_cases s now b with h' | h'
      · left; rw [h, h']
      · right; rw [h, h']
    · right; exact h
  simp only [Send.handleTimeout]
  repeat' split
  all_goals first
    | (left; rfl)
    | exact key _

theorem cursor_getD_openHandle (s : Send.State) : (Send.openHandle s).cursor.getD 0 = s.cursor.getD 0 := by
  simp only [Send.openHandle]
  split
  · rfl
  · rename_i h
    rw [h]; rfl

/-- answering a retransmission request leaves the first-pass position where it was -/
theorem cursor_sendMissingData (s : Send.State) (now : Nat) :
    (Send.sendMissingData s now).cursor.getD 0 = s.cursor.getD 0 := by
  simp only [Send.sendMissingData]
  split
  · rfl
  · simp only [Send.answerNak]
    repeat' split
    all_goals first
      | (simp; done)
      | (simp [cursor_getD_openHandle]; done)

/-- what `afterData` decides, given where the cursor is -/
theorem track_afterData {s : Send.State} {c : Nat} (g : Send.Good s) (hs : s.sendState = .SendData)
    (hc : s.cursor.getD 0 = c) (hle : c ≤ s.file.length) (now : Nat) : Track (Send.afterData s now) c := by
  simp only [Send.afterData]
  split
  · rename_i heq
    have hcl : c = s.file.length := by
      rw [cursor_getD_openHandle, hc] at heq
      simpa [Send.State.file] using heq
    refine ⟨by simpa [Send.State.file] using hle, ?_, ?_, ?_⟩
    · intro h; cases h
    · intro h; cases h
    · intro _ _; simpa [Send.State.file] using hcl
  · refine ⟨by simpa [Send.State.file] using hle, ?_, ?_, ?_⟩
    · intro h; simp [hs] at h
    · intro _; rw [cursor_getD_openHandle]; exact hc
    · intro h; simp [hs] at h

/-- the first-pass transmission proper -/
theorem track_firstPass {s : Send.State} {c : Nat} (g : Send.Good s) (h : Track s c) (hs : s.sendState = .SendData)
    (now : Nat) :
    ∃ hd, (Send.afterData (Send.sendFileSegment s none none) now).sent =
        some (Pdu.mk hd (.fileData c ((s.file.drop c).take s.cfg.seg))) ∧
      Track (Send.afterData (Send.sendFileSegment s none none) now) (c + ((s.file.drop c).take s.cfg.seg).length) := by
  have hc : (Send.openHandle s).cursor.getD 0 = c := by rw [cursor_getD_openHandle]; exact h.data hs
  obtain ⟨hd, hsent⟩ := Send.firstPass_sent s
  rw [hc] at hsent
  have hoff : (none : Option Nat).getD ((Send.openHandle s).cursor.getD 0) ≤ s.file.length := by
    simp only [Option.getD_none, hc]; exact h.le
  obtain ⟨_, hcur⟩ := Send.sendFileSegment_spec s none none hoff (by simp)
  simp only [Option.getD_none, hc] at hcur
  obtain ⟨g', _⟩ := Send.good_firstPass g
  refine ⟨hd, by rw [Send.sent_afterData]; exact hsent, ?_⟩
  have hfile : (Send.sendFileSegment s none none).file = s.file := by simp [Send.State.file]
  have := track_afterData (c := c + ((s.file.drop c).take s.cfg.seg).length) g' (by simp [hs])
    (by rw [hcur]; rfl) (by rw [hfile]; simp only [List.length_take, List.length_drop]; have := h.le; omega) now
  exact this

/-- outside the metadata and data phases only the phase and the file matter -/
theorem track_keep {s s' : Send.State} {c : Nat} (h : Track s c) (h1 : s'.st = s.st) (h2 : s'.sendState = s.sendState)
    (h3 : s.sendState = .SendEof ∨ s.sendState = .Cancelled ∨ s.sendState = .Finished) : Track s' c := by
  have hf : s'.file = s.file := by simp [Send.State.file, h1]
  have hi : Send.isFileTransfer s' = Send.isFileTransfer s := by simp [Send.isFileTransfer, Send.State.md, h1]
  refine ⟨by rw [hf]; exact h.le, ?_, ?_, ?_⟩
  · intro hh; rw [h2] at hh; rcases h3 with h3 | h3 | h3 <;> rw [h3] at hh <;> cases hh
  · intro hh; rw [h2] at hh; rcases h3 with h3 | h3 | h3 <;> rw [h3] at hh <;> cases hh
  · intro hh hft; rw [h2] at hh; rw [hi] at hft; rw [hf]; exact h.eof hh hft

/-- the condition under which a transmission opportunity belongs to the first pass -/
def fpCond (s : Send.State) : Bool := !s.prompt.isSome && s.sendState == .SendData && s.naks.isEmpty

theorem track_sendPdu {s : Send.State} {c : Nat} (g : Send.Good s) (h : Track s c) (hs0 : s.sent = none) (now : Nat) :
    ∃ c', Track (Send.sendPdu s now) c' ∧
      (if fpCond s then (∃ hd, (Send.sendPdu s now).sent = some (Pdu.mk hd (.fileData c ((s.file.drop c).take s.cfg.seg)))) ∧
          c' = c + ((s.file.drop c).take s.cfg.seg).length
       else c' = c) := by
  simp only [Send.sendPdu, fpCond]
  split
  · -- a prompt goes first
    rename_i hp
    refine ⟨c, track_frame h (by simp) (by simp) (by simp), ?_⟩
    simp [hp]
  · rename_i hp
    have hp' : s.prompt.isSome = false := by simpa using hp
    split
    · -- metadata
      rename_i hst
      refine ⟨c, ?_, by simp [hst]⟩
      obtain ⟨hc0, hcur⟩ := h.md hst
      simp only [Send.sendPduMetadata]
      split
      · refine ⟨by simpa [Send.State.file] using h.le, ?_, ?_, ?_⟩
        · intro hh; cases hh
        · intro _; simp only [Send.cursor_sendMetadata]; rw [hcur, hc0]
        · intro hh; cases hh
      · rename_i hft
        refine ⟨by simpa [Send.State.file] using h.le, ?_, ?_, ?_⟩
        · intro hh; cases hh
        · intro hh; cases hh
        · intro _ hft'
          exfalso
          apply hft
          simpa [Send.isFileTransfer, Send.State.md] using hft'
    · -- data
      rename_i hst
      simp only [Send.sendPduData]
      split
      · rename_i hn
        refine ⟨c, ?_, by simp [hst, hp']; intro hne; simp [hne] at hn⟩
        obtain ⟨g', _⟩ := Send.good_sendMissingData g hs0 now
        exact track_afterData g' (by simp [hst]) (by rw [cursor_sendMissingData]; exact h.data hst)
          (by simpa [Send.State.file] using h.le) now
      · rename_i hn
        have hn' : s.naks.isEmpty = true := by simpa using hn
        obtain ⟨hd, h1, h2⟩ := track_firstPass g h hst now
        have h1' := h1
        rw [Send.sent_afterData] at h1'
        exact ⟨_, h2, by simp [hst, hp', hn']; exact ⟨hd, h1'⟩⟩
    · rename_i hst
      refine ⟨c, ?_, by simp [hst]⟩
      split
      · exact track_keep h (by simp) (by simp) (Or.inl hst)
      · exact track_keep h (by simp) (by simp) (Or.inl hst)
    · rename_i hst
      exact ⟨c, track_keep h (by simp) (by simp) (Or.inr (Or.inl hst)), by simp [hst]⟩
    · rename_i hst
      exact ⟨c, track_keep h (by simp) (by simp) (Or.inr (Or.inr hst)), by simp [hst]⟩

theorem track_of_cases {s s' : Send.State} {c : Nat} (h : Track s c) (h1 : s'.st = s.st) (h3 : s'.cursor = s.cursor)
    (h2 : s'.sendState = s.sendState ∨ s'.sendState = .Cancelled ∨ s'.sendState = .Finished) : Track s' c := by
  rcases h2 with h2 | h2 | h2
  · exact track_frame h h1 h2 h3
  · exact track_left h h1 (Or.inl h2)
  · exact track_left h h1 (Or.inr h2)

theorem track_step {s : Send.State} {c : Nat} (g : Send.Good s) (h : Track s c) (now : Nat) (e : Ev) :
    ∃ c', Track (sendStep s now e) c' ∧
      (if fpStep s e then (∃ hd, (sendStep s now e).sent = some (Pdu.mk hd (.fileData c ((s.file.drop c).take s.cfg.seg)))) ∧
          c' = c + ((s.file.drop c).take s.cfg.seg).length
       else c' = c) := by
  have g0 : Send.Good { s with sent := none, out := [] } := Send.good_frame g rfl rfl rfl
  have h0 : Track { s with sent := none, out := [] } c := track_frame h rfl rfl rfl
  simp only [sendStep]
  split
  · rename_i ht
    refine ⟨c, h0, ?_⟩
    have : fpStep s e = false := by
      cases e <;> simp only [fpStep]
      have : (s.state != TransactionState.Terminated) = false := by simpa using ht
      simp [this]
    simp [this]
  · rename_i ht
    cases e with
    | pdu p =>
      refine ⟨c, track_of_cases h0 (by simp) (by simp) ?_, by simp [fpStep]⟩
      rcases sendState_processPdu_cases { s with sent := none, out := [] } p now with hh | hh
      · exact Or.inl hh
      · exact Or.inr (Or.inr hh)
    | send =>
      dsimp only
      split
      · rename_i hhas
        obtain ⟨c', t1, t2⟩ := track_sendPdu g0 h0 rfl now
        refine ⟨c', t1, ?_⟩
        have hfp : fpStep s .send = fpCond { s with sent := none, out := [] } := by
          have h1 : (s.state != TransactionState.Terminated) = true := by simpa using ht
          have hrec : Send.hasPduToSend { s with sent := none, out := [] } = Send.hasPduToSend s := rfl
          have h2 : Send.hasPduToSend s = true := by rw [← hrec]; exact hhas
          simp [fpStep, fpCond, h1, h2]
        rw [hfp]
        exact t2
      · rename_i hhas
        refine ⟨c, h0, ?_⟩
        have hrec : Send.hasPduToSend { s with sent := none, out := [] } = Send.hasPduToSend s := rfl
        have : Send.hasPduToSend s = false := by rw [← hrec]; simpa using hhas
        simp [fpStep, this]
    | timeout =>
      dsimp only
      split
      · refine ⟨c, ?_, by simp [fpStep]⟩
        by_cases hk : ({ s with sent := none, out := [] } : Send.State).sendState = .SendEof ∨
            ({ s with sent := none, out := [] } : Send.State).sendState = .Cancelled
        · rcases sendState_handleTimeout_cases { s with sent := none, out := [] } now with hh | hh
          · refine track_keep h0 (by simp) hh ?_
            rcases hk with hk | hk
            · exact Or.inl hk
            · exact Or.inr (Or.inl hk)
          · exact track_left h0 (by simp) (Or.inl hh)
        · have : Send.handleTimeout { s with sent := none, out := [] } now = { s with sent := none, out := [] } :=
            handleTimeout_other _ _ (fun hh => hk (Or.inl hh)) (fun hh => hk (Or.inr hh))
          rw [this]; exact h0
      · exact ⟨c, h0, by simp [fpStep]⟩
    | cancel => exact ⟨c, track_left h0 (by simp) (Or.inl (by simp [Send.cancel, Send.cancelInner])), by simp [fpStep]⟩
    | suspend => exact ⟨c, track_frame h0 (by simp) (by simp) (by simp), by simp [fpStep]⟩
    | resume => exact ⟨c, track_frame h0 (by simp) (by simp) (by simp), by simp [fpStep]⟩
    | report => exact ⟨c, track_frame h0 (by simp) (by simp) (by simp), by simp [fpStep]⟩
    | abandon => exact ⟨c, track_frame h0 (by simp) (by simp) (by simp), by simp [fpStep]⟩
    | prompt k => exact ⟨c, track_frame h0 rfl rfl rfl, by simp [fpStep]⟩

theorem sendStep_static (s : Send.State) (now : Nat) (e : Ev) :
    (sendStep s now e).file = s.file ∧ (sendStep s now e).cfg = s.cfg := by
  have hst : (sendStep s now e).st = s.st := by
    simp only [sendStep]
    repeat' split
    all_goals (first | rfl | simp only [Send.st_processPdu, Send.st_sendPdu, Send.st_handleTimeout, Send.st_cancel,
      Send.st_suspend, Send.st_resume, Send.st_sendReport, Send.st_shutdown, Send.st_preparePrompt])
  simp [Send.State.file, Send.State.cfg, hst]

theorem tiles_run (s : Send.State) (c : Nat) (g : Send.Good s) (h : Track s c) (evs : List (Nat × Ev)) :
    ∃ c', Tiles s.file s.cfg.seg (firstPass s evs) c c' ∧ Track (sendRun s evs).1 c' := by
  induction evs generalizing s c with
  | nil => exact ⟨c, rfl, h⟩
  | cons x rest ih =>
    obtain ⟨now, e⟩ := x
    obtain ⟨c1, t1, t2⟩ := track_step g h now e
    obtain ⟨g1, _⟩ := Send.good_sendStep g now e
    obtain ⟨hf, hc⟩ := sendStep_static s now e
    obtain ⟨c2, u1, u2⟩ := ih (sendStep s now e) c1 g1 t1
    rw [hf, hc] at u1
    refine ⟨c2, ?_, u2⟩
    simp only [firstPass]
    cases hfp : fpStep s e with
    | false =>
      simp only [hfp, if_false, Bool.false_eq_true] at t2 ⊢
      subst t2
      exact u1
    | true =>
      simp only [hfp, if_true] at t2 ⊢
      obtain ⟨⟨hd, hsent⟩, hc1⟩ := t2
      subst hc1
      rw [hsent]
      exact ⟨rfl, u1⟩

/-- **C07 (first pass).**  Over every history of events — NAKs arriving during the first pass and
answered in between, prompts, suspensions, timeouts — the PDUs transmitted by the first-pass
iterations are exactly the file cut into consecutive segments from offset 0: each starts where the
previous one ended and carries `seg` octets (the rest of the file for the last one); answering a
NAK ahead of or behind the first pass does not move it.  While the data phase lasts the pass has
got as far as the read position; a file transfer reaches the EOF phase only when the pass has
covered the whole file. -/
theorem C07_first_pass (cfg : Send.Config) (md : Send.Meta) (file : Bytes) (t0 : Nat) (evs : List (Nat × Ev))
    (hsize : md.fileSize = file.length) (hseg : 0 < cfg.seg ∧ cfg.seg ≤ 65535) :
    ∃ c, Tiles file cfg.seg (firstPass (Send.new cfg md file t0) evs) 0 c ∧ c ≤ file.length ∧
      ((sendRun (Send.new cfg md file t0) evs).1.sendState = .SendData →
        (sendRun (Send.new cfg md file t0) evs).1.cursor.getD 0 = c) ∧
      ((sendRun (Send.new cfg md file t0) evs).1.sendState = .SendEof → md.srcName ≠ [] → c = file.length) := by
  have h0 : Track (Send.new cfg md file t0) 0 :=
    ⟨Nat.zero_le _, fun _ => ⟨rfl, rfl⟩, fun h => (by cases h), fun h => (by cases h)⟩
  obtain ⟨c, h1, h2⟩ := tiles_run _ 0 (Send.good_new cfg md file t0 hsize hseg) h0 evs
  have key : ∀ (evs : List (Nat × Ev)) (s : Send.State),
      (sendRun s evs).1.file = s.file ∧ (sendRun s evs).1.md = s.md := by
    intro evs
    induction evs with
    | nil => intro s; exact ⟨rfl, rfl⟩
    | cons x rest ih =>
      intro s
      obtain ⟨now, e⟩ := x
      have hst : (sendStep s now e).st = s.st := by
        simp only [sendStep]
        repeat' split
        all_goals (first | rfl | simp only [Send.st_processPdu, Send.st_sendPdu, Send.st_handleTimeout, Send.st_cancel,
          Send.st_suspend, Send.st_resume, Send.st_sendReport, Send.st_shutdown, Send.st_preparePrompt])
      simp only [sendRun]
      obtain ⟨i1, i2⟩ := ih (sendStep s now e)
      exact ⟨by rw [i1]; simp [Send.State.file, hst], by rw [i2]; simp [Send.State.md, hst]⟩
  obtain ⟨kf, km⟩ := key evs (Send.new cfg md file t0)
  have hfile : (sendRun (Send.new cfg md file t0) evs).1.file = file := by rw [kf]; rfl
  refine ⟨c, h1, by rw [← hfile]; exact h2.le, h2.data, ?_⟩
  intro hs hne
  rw [← hfile]
  apply h2.eof hs
  simp only [Send.isFileTransfer, km]
  show (!md.srcName.isEmpty) = true
  cases hn : md.srcName with
  | nil => exact absurd hn hne
  | cons a l => rfl

/-- non-vacuity: with the NAK of the C07 example answered in the middle of the first pass, the
first-pass PDUs are the two tiles of the six-byte file -/
example : (firstPass (Send.new Send.exCfg Send.exMd Send.exFile 0)
    [(0, .send), (0, .send), (0, .pdu Send.exNak), (0, .send), (0, .send), (0, .send)]).map (·.payload)
    = [.fileData 0 [1, 2, 3, 4], .fileData 4 [5, 6]] := by decide

end Cfdp.Loop

#print axioms Cfdp.Loop.C07_first_pass
#print axioms Cfdp.Send.C07_nak_answer
#print axioms Cfdp.Loop.C07_eof
#print axioms Cfdp.Send.C07_data
#print axioms Cfdp.Send.C07_nak_queue
