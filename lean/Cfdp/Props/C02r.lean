import Cfdp.Props.C07t
import Cfdp.Props.C10n
import Cfdp.Props.C02n

/-! # C02, one recovery round: a NAK reaches the sender, every request is answered, the answers reach the receiver, the delivery succeeds

Sender's half (`C02_sender_answers_nak`), receiver's half (`C02_receiver_recovers`), and their composition over a link
that loses none of the answers (`C02_recovery_round`). -/
namespace Cfdp.Loop
open Cfdp.Codec Cfdp.Gen Cfdp.Send

/-- `n` transmission opportunities in a row at clock reading `t`: the state afterwards and the PDUs transmitted -/
def sendN : Nat → Send.State → Nat → Send.State × List Pdu
  | 0, s, _ => (s, [])
  | n + 1, s, t => ((sendN n (sendStep s t .send) t).1, (sendStep s t .send).sent.toList ++ (sendN n (sendStep s t .send) t).2)

/-- one transmission of a sender that has sent its EOF and has a request queued: the head of the queue is answered -/
theorem send_answers_head (s : Send.State) (t : Nat) (a b : Nat) (rest : List (Nat × Nat)) (g : Send.Good s)
    (ha : s.state = .Active) (hp : s.prompt = none) (hss : s.sendState = .SendEof) (hn : s.naks = (a, b) :: rest) :
    Send.Good (sendStep s t .send) ∧ (sendStep s t .send).state = .Active ∧ (sendStep s t .send).prompt = none ∧
    (sendStep s t .send).sendState = .SendEof ∧ (sendStep s t .send).naks = rest ∧ (sendStep s t .send).st = s.st ∧
    (a < b → ∃ h, (sendStep s t .send).sent = some ⟨h, .fileData a ((s.file.drop a).take (b - a))⟩) ∧
    (∀ pdu, (sendStep s t .send).sent = some pdu →
      (∃ off d, pdu.payload = .fileData off d ∧ Recv.Truthful s.file off d) ∨ (∃ md, pdu.payload = .metadata md)) := by
  have hnt : ((clrS s).state == TransactionState.Terminated) = false := by
    show (s.state == TransactionState.Terminated) = false; rw [ha]; rfl
  have hns : ((clrS s).state == TransactionState.Suspended) = false := by
    show (s.state == TransactionState.Suspended) = false; rw [ha]; rfl
  have k1 : (clrS s).sendState = .SendEof := hss
  have k2 : (clrS s).prompt = none := hp
  have k3 : (clrS s).naks = (a, b) :: rest := hn
  have hhas : Send.hasPduToSend (clrS s) = true := by
    simp only [Send.hasPduToSend, hns, Bool.false_eq_true, if_false, k2, k1, k3, Option.isSome_none, Bool.false_or,
      List.isEmpty_cons, Bool.not_false, Bool.true_or]
  have e1 : sendStep s t .send = Send.answerNak (Send.popNak (clrS s) t) a b := by
    rw [sendStep_eq]
    simp only [hnt, Bool.false_eq_true, if_false, hhas, if_true, Send.sendPdu, k2, Option.isSome_none, k1, k3,
      List.isEmpty_cons, Bool.not_false, Send.sendMissingData]
  have g0 : Send.Good (clrS s) := good_frame g rfl rfl rfl
  have hs0 : (clrS s).sent = none := rfl
  have g1 := good_sendMissingData g0 hs0 t
  have e2 : Send.sendMissingData (clrS s) t = Send.answerNak (Send.popNak (clrS s) t) a b := by
    simp only [Send.sendMissingData, k3]
  rw [e2] at g1
  rw [e1]
  refine ⟨g1.1, ?_, ?_, ?_, ?_, ?_, ?_, ?_⟩
  · rw [Send.state_answerNak, Send.state_popNak]; exact ha
  · rw [Send.prompt_answerNak, Send.prompt_popNak]; exact hp
  · rw [Send.sendState_answerNak, Send.sendState_popNak]; exact hss
  · rw [Send.naks_answerNak]
    have : (Send.popNak (clrS s) t).naks = (clrS s).naks.tail := by simp only [Send.popNak]; split <;> rfl
    rw [this, k3]; rfl
  · rw [Send.st_answerNak, Send.st_popNak]; rfl
  · intro hab
    have hr := g.naks (a, b) (by rw [hn]; exact List.mem_cons_self ..)
    rcases hr with ⟨h1, h2⟩ | ⟨h1, h2, h3⟩
    · simp only at h1 h2; omega
    · simp only at h1 h2 h3
      have hseg := g.seg.2
      have hfile : (Send.popNak (clrS s) t).file = s.file := by
        simp only [Send.State.file, Send.st_popNak]; rfl
      obtain ⟨hd, h4, _⟩ := C07_nak_answer (Send.popNak (clrS s) t) a b hab (by rw [hfile]; exact h2) (by omega)
      rw [hfile] at h4
      exact ⟨hd, h4⟩
  · -- what goes out is file data of the source file, or the Metadata
    intro pdu hsent
    have hkind : (∃ off d, pdu.payload = .fileData off d) ∨ (∃ md, pdu.payload = .metadata md) := by
      have hs1 : (Send.popNak (clrS s) t).sent = none := by rw [Send.sent_popNak]; rfl
      generalize Send.popNak (clrS s) t = x at hsent hs1
      simp only [Send.answerNak] at hsent
      split at hsent
      · rw [hs1] at hsent; cases hsent
      · split at hsent
        · simp only [Send.sendMetadata, Send.sendPayload] at hsent
          cases hsent
          exact Or.inr ⟨_, rfl⟩
        · simp only [Send.sendFileSegment, Send.sendPayload] at hsent
          cases hsent
          exact Or.inl ⟨_, _, rfl⟩
    rcases hkind with ⟨off, d, hpd⟩ | hmd
    · left
      have hso := g1.2.1 pdu hsent
      have hst : (Send.answerNak (Send.popNak (clrS s) t) a b).st = s.st := by rw [Send.st_answerNak, Send.st_popNak]; rfl
      rw [hst] at hso
      have hb := Cfdp.Net.truthful_bridge s.st pdu g.size hso (fun e he => by rw [hpd] at he; cases he)
      unfold Recv.TruthfulPdu at hb
      rw [hpd] at hb
      exact ⟨off, d, hpd, hb⟩
    · exact Or.inr hmd

end Cfdp.Loop

namespace Cfdp.Loop
open Cfdp.Codec Cfdp.Gen Cfdp.Send

/-- **the queue is flushed**: as many transmissions as requests are queued answer every one of them, in order -/
theorem send_flushes_queue (q : List (Nat × Nat)) (s : Send.State) (t : Nat) (g : Send.Good s)
    (ha : s.state = .Active) (hp : s.prompt = none) (hss : s.sendState = .SendEof) (hn : s.naks = q) :
    (sendN q.length s t).1.naks = [] ∧ Send.Good (sendN q.length s t).1 ∧ (sendN q.length s t).1.st = s.st ∧
    (∀ r ∈ q, r.1 < r.2 → ∃ p ∈ (sendN q.length s t).2, ∃ h, p = ⟨h, .fileData r.1 ((s.file.drop r.1).take (r.2 - r.1))⟩) ∧
    (∀ pdu ∈ (sendN q.length s t).2,
      (∃ off d, pdu.payload = .fileData off d ∧ Recv.Truthful s.file off d) ∨ (∃ md, pdu.payload = .metadata md)) := by
  induction q generalizing s with
  | nil => exact ⟨hn, g, rfl, fun r hr => (by cases hr), fun pdu hp => (by cases hp)⟩
  | cons x rest ih =>
    obtain ⟨a, b⟩ := x
    obtain ⟨g1, a1, p1, s1, n1, st1, sent1, kind1⟩ := send_answers_head s t a b rest g ha hp hss hn
    obtain ⟨i1, i2, i3, i4, i5⟩ := ih (sendStep s t .send) g1 a1 p1 s1 n1
    have hfile : (sendStep s t .send).file = s.file := by simp only [Send.State.file, st1]
    simp only [List.length_cons, sendN]
    refine ⟨i1, i2, by rw [i3, st1], ?_, ?_⟩
    rotate_left
    · intro pdu hpdu
      rcases List.mem_append.mp hpdu with hpdu | hpdu
      · cases hse : (sendStep s t .send).sent with
        | none => rw [hse] at hpdu; cases hpdu
        | some x =>
          rw [hse] at hpdu
          have : pdu = x := by simpa using hpdu
          subst this
          exact kind1 pdu hse
      · have := i5 pdu hpdu
        rw [hfile] at this
        exact this
    intro r hr hlt
    rcases List.mem_cons.mp hr with hr | hr
    · subst hr
      obtain ⟨h, hs⟩ := sent1 hlt
      exact ⟨_, List.mem_append_left _ (by rw [hs]; exact List.mem_singleton.mpr rfl), h, rfl⟩
    · obtain ⟨p, hp', h, hh⟩ := i4 r hr hlt
      rw [hfile] at hh
      exact ⟨p, List.mem_append_right _ hp', h, hh⟩

end Cfdp.Loop

namespace Cfdp.Send
open Cfdp.Codec Cfdp.Gen

/-- the pieces a request is cut into cover the request, as far as it lies inside the file -/
theorem splitPieces_cover (seg fs start endv : Nat) (hseg : 0 < seg) (fuel num x : Nat)
    (hfuel : min endv fs - num < fuel) (h1 : num ≤ x) (h2 : x < min endv fs) :
    ∃ q ∈ splitPieces seg fs start endv fuel num, q.1 ≤ x ∧ x < q.2 := by
  induction fuel generalizing num with
  | zero => omega
  | succ f ih =>
    have hlt : num < min endv fs := by omega
    simp only [splitPieces, hlt, if_true]
    by_cases hx : x < num + seg
    · refine ⟨_, List.mem_cons_self .., ?_⟩
      split
      · exact ⟨h1, hx⟩
      · exact ⟨h1, h2⟩
    · have hx' : num + seg ≤ x := by omega
      obtain ⟨q, hq, hq2⟩ := ih (num + seg) (by omega) hx'
      exact ⟨q, List.mem_cons_of_mem _ hq, hq2⟩

theorem splitRequest_cover (seg fs : Nat) (hseg : 0 < seg) (r : Nat × Nat) (hr : r.1 < r.2) (x : Nat)
    (h1 : r.1 ≤ x) (h2 : x < min r.2 fs) : ∃ q ∈ splitRequest seg fs r, q.1 ≤ x ∧ x < q.2 := by
  have hne : (r.1 == 0 && r.2 == 0) = false := by
    have : (r.2 == 0) = false := by simp; omega
    simp [this]
  simp only [splitRequest, hne, Bool.false_eq_true, if_false]
  exact splitPieces_cover seg fs r.1 r.2 hseg _ r.1 x (by omega) h1 h2

/-- de-duplication keeps one copy of everything -/
theorem mem_dedup (seen l : List (Nat × Nat)) (y : Nat × Nat) (hy : y ∈ l) (hs : y ∉ seen) : y ∈ dedup seen l := by
  induction l generalizing seen with
  | nil => cases hy
  | cons x xs ih =>
    simp only [dedup]
    by_cases hc : seen.contains x = true
    · simp only [hc, if_true]
      rcases List.mem_cons.mp hy with hy | hy
      · subst hy
        exact absurd (by simpa using hc) hs
      · exact ih seen hy hs
    · simp only [hc, Bool.false_eq_true, if_false]
      rcases List.mem_cons.mp hy with hy | hy
      · subst hy; exact List.mem_cons_self ..
      · by_cases hxy : y = x
        · subst hxy; exact List.mem_cons_self ..
        · refine List.mem_cons_of_mem _ (ih (x :: seen) hy ?_)
          intro hm
          rcases List.mem_cons.mp hm with hm | hm
          · exact hxy hm
          · exact hs hm

end Cfdp.Send

namespace Cfdp.Loop
open Cfdp.Codec Cfdp.Gen Cfdp.Send

/-- a NAK arrives at a sender that has sent its EOF (acknowledged mode): its requests, cut into pieces and
de-duplicated, join the queue; nothing else changes -/
theorem nak_arrives (s : Send.State) (t : Nat) (p : Pdu) (n : Nak) (g : Send.Good s) (ha : s.state = .Active)
    (hm : s.cfg.mode = .Acknowledged) (hp : s.prompt = none) (hss : s.sendState = .SendEof) (hpl : p.payload = .nak n) :
    Send.Good (sendStep s t (.pdu p)) ∧ (sendStep s t (.pdu p)).state = .Active ∧ (sendStep s t (.pdu p)).prompt = none ∧
    (sendStep s t (.pdu p)).sendState = .SendEof ∧ (sendStep s t (.pdu p)).st = s.st ∧
    (sendStep s t (.pdu p)).naks = dedup [] (s.naks ++ n.requests.flatMap (splitRequest s.cfg.seg s.md.fileSize)) := by
  have hnt : ((clrS s).state == TransactionState.Terminated) = false := by
    show (s.state == TransactionState.Terminated) = false; rw [ha]; rfl
  have e1 : sendStep s t (.pdu p) = (Send.processPdu (clrS s) p t).1 := by
    rw [sendStep_eq]; simp only [hnt, Bool.false_eq_true, if_false]
  have g1 := (good_sendStep g t (.pdu p)).1
  rw [e1] at g1 ⊢
  generalize hq : Send.pduArrived (clrS s) t = q
  have q1 : q.state = s.state := by rw [← hq, Send.state_pduArrived]; rfl
  have q2 : q.prompt = s.prompt := by rw [← hq, Send.prompt_pduArrived]; rfl
  have q3 : q.st = s.st := by rw [← hq, Send.st_pduArrived]; rfl
  have q4 : q.sendState = s.sendState := by rw [← hq, Send.sendState_pduArrived]; rfl
  have q5 : q.naks = s.naks := by rw [← hq, Send.naks_pduArrived]; rfl
  have hm' : q.cfg.mode = .Acknowledged := by show q.st.cfg.mode = _; rw [q3]; exact hm
  have hseg : (q.cfg.seg == 0) = false := by
    have : q.cfg.seg = s.cfg.seg := by show q.st.cfg.seg = s.st.cfg.seg; rw [q3]
    have := g.seg.1
    simp only [beq_eq_false_iff_ne, ne_eq]; omega
  have e2 : (Send.processPdu (clrS s) p t).1 =
      { q with naks := dedup [] (q.naks ++ n.requests.flatMap (splitRequest q.cfg.seg q.md.fileSize)) } := by
    simp only [Send.processPdu, hq, Send.processPduBody, hm', hpl, hseg, Bool.false_eq_true, if_false]
  rw [e2] at g1 ⊢
  refine ⟨g1, by rw [← ha, ← q1], by rw [← hp, ← q2], by rw [← hss, ← q4], q3, ?_⟩
  show dedup [] (q.naks ++ n.requests.flatMap (splitRequest q.st.cfg.seg q.st.md.fileSize)) = _
  rw [q5, q3]; rfl

/-- **C02 (the sender's half of a recovery round).**  A sender that has sent its EOF (acknowledged mode,
`Good` = the invariant of every reachable state, C07) receives a NAK and is then given as many
transmission opportunities as requests are queued.  For every request `[a, b)` of that NAK and every
byte `x` of it inside the file, one of the PDUs transmitted is a file-data PDU that covers `x` and
carries exactly the source file's bytes at its offset - whatever else was queued before, however the
requests overlap or repeat. -/
theorem C02_sender_answers_nak (s : Send.State) (t : Nat) (p : Pdu) (n : Nak) (g : Send.Good s) (ha : s.state = .Active)
    (hm : s.cfg.mode = .Acknowledged) (hp : s.prompt = none) (hss : s.sendState = .SendEof) (hpl : p.payload = .nak n) :
    ∀ r ∈ n.requests, r.1 < r.2 → ∀ x, r.1 ≤ x → x < r.2 → x < s.file.length →
      ∃ pdu ∈ (sendN (sendStep s t (.pdu p)).naks.length (sendStep s t (.pdu p)) t).2, ∃ off d,
        pdu.payload = .fileData off d ∧ off ≤ x ∧ x < off + d.length ∧ d = (s.file.drop off).take d.length := by
  obtain ⟨g1, a1, p1, s1, st1, n1⟩ := nak_arrives s t p n g ha hm hp hss hpl
  obtain ⟨_, _, _, f4, _⟩ := send_flushes_queue _ (sendStep s t (.pdu p)) t g1 a1 p1 s1 rfl
  intro r hr hlt x hx1 hx2 hx3
  have hfs : s.md.fileSize = s.file.length := g.size
  -- a piece of the request covers x
  obtain ⟨q, hq, hq1, hq2⟩ := splitRequest_cover s.cfg.seg s.md.fileSize g.seg.1 r hlt x hx1 (by rw [hfs]; omega)
  have hmem : q ∈ (sendStep s t (.pdu p)).naks := by
    rw [n1]
    apply mem_dedup _ _ _ _ (by simp)
    exact List.mem_append_right _ (List.mem_flatMap.mpr ⟨r, hr, hq⟩)
  obtain ⟨pdu, hpdu, h, hh⟩ := f4 q hmem (by omega)
  have hfile : (sendStep s t (.pdu p)).file = s.file := by simp only [Send.State.file, st1]
  rw [hfile] at hh
  -- the piece lies inside the file (queue invariant)
  have hok := g1.naks q hmem
  have hq3 : q.2 ≤ s.file.length := by
    rcases hok with ⟨h1, h2⟩ | ⟨_, h2, _⟩
    · omega
    · rw [hfile] at h2; exact h2
  refine ⟨pdu, hpdu, q.1, (s.file.drop q.1).take (q.2 - q.1), by rw [hh], hq1, ?_, ?_⟩
  · simp only [List.length_take, List.length_drop]; omega
  · simp only [List.length_take, List.length_drop]
    congr 1; omega

end Cfdp.Loop

/-! ## the receiver's half -/
namespace Cfdp.Loop
open Cfdp.Codec Cfdp.Gen Cfdp.Recv

/-- a receiver in mid-recovery: acknowledged mode, still collecting, Metadata and a truthful EOF in,
no fault so far, and what it holds agrees with the source file `src` (C01's invariant) -/
structure RG (src : Bytes) (m : Recv.Meta) (fs0 : Fs.FS) (s : Recv.State) : Prop where
  mode : s.cfg.mode = .Acknowledged
  act : s.state = .Active
  rd : s.recvState = .ReceiveData
  md : s.md = some m
  size : s.fileSize = some src.length
  ck : s.checksum = some (fileChecksum m.cksumType src)
  cond : s.condition = .NoError
  data : DataOk src s
  fs : s.fs = fs0

/-- a delivery reported as successful -/
def FG (s : Recv.State) : Prop :=
  s.recvState = .Finished ∧ s.condition = .NoError ∧ s.delivery = .Complete ∧ s.fileStatus = .Retained

theorem immediateNak_afterEof (s : Recv.State) (a b now : Nat) (h : s.fileSize.isSome = true) :
    immediateNak s a b now = s := by
  simp only [immediateNak, eofReceived, h, Bool.not_true, Bool.and_false, Bool.false_eq_true, if_false]

/-- a file-data PDU arrives at a receiver in mid-recovery: either the file is now complete and the
delivery succeeds, or the receiver goes on collecting, holding what it held plus the new bytes -/
theorem rg_step {src : Bytes} {m : Recv.Meta} {fs0 : Fs.FS} {r : Recv.State} (h : RG src m fs0 r) (t : Nat) (p : Pdu)
    (off : Nat) (d : Bytes) (hp : p.payload = .fileData off d) (ht : Truthful src off d)
    (hft : m.srcName.isEmpty = false) (hfs : (fs0.writeFile (Fs.relOf m.dstName) src).isSome = true) :
    FG (recvStep r t (.pdu p)) ∨
    (RG src m fs0 (recvStep r t (.pdu p)) ∧ Seg.isComplete (recvStep r t (.pdu p)).segs src.length = false ∧
      ∀ x, (Seg.cov r.segs x ∨ (off ≤ x ∧ x < off + d.length)) → Seg.cov (recvStep r t (.pdu p)).segs x) := by
  have hnt : ((clrR r).state == TransactionState.Terminated) = false := by
    show (r.state == TransactionState.Terminated) = false; rw [h.act]; rfl
  generalize hq : pduArrived (clrR r) t = q
  have q1 : q.cfg = r.cfg := by rw [← hq, cfg_pduArrived]; rfl
  have q2 : q.segs = r.segs := by rw [← hq, segs_pduArrived]; rfl
  have q3 : q.tempFile = r.tempFile := by rw [← hq, tempFile_pduArrived]; rfl
  have hmq : q.cfg.mode = .Acknowledged := by rw [q1]; exact h.mode
  -- the state after storing the data
  generalize hy : emit (storeFileData q off d) (.fileSegmentRecv off d.length) = y
  have e1 : recvStep r t (.pdu p) = checkFinished y t := by
    rw [recvStep_eq]
    simp only [hnt, Bool.false_eq_true, if_false, processPdu, hq, processPduBody, hmq, hp, ackFileData]
    rw [hy]
    have : y.fileSize.isSome = true := by
      rw [← hy, fileSize_emit, fileSize_storeFileData, ← hq, fileSize_pduArrived]
      show r.fileSize.isSome = true; rw [h.size]; rfl
    rw [immediateNak_afterEof y _ _ _ this]
  have y1 : y.recvState = .ReceiveData := by
    rw [← hy, recvState_emit, recvState_storeFileData, ← hq, recvState_pduArrived]; exact h.rd
  have y2 : y.md = some m := by rw [← hy, md_emit, md_storeFileData, ← hq, md_pduArrived]; exact h.md
  have y3 : y.fileSize = some src.length := by
    rw [← hy, fileSize_emit, fileSize_storeFileData, ← hq, fileSize_pduArrived]; exact h.size
  have y4 : y.checksum = some (fileChecksum m.cksumType src) := by
    rw [← hy, checksum_emit, checksum_storeFileData, ← hq, checksum_pduArrived]; exact h.ck
  have y5 : y.condition = .NoError := by
    rw [← hy, condition_emit, condition_storeFileData, ← hq, condition_pduArrived]; exact h.cond
  have y6 : y.cfg = r.cfg := by rw [← hy, cfg_emit, cfg_storeFileData, q1]
  have y7 : y.state = .Active := by
    rw [← hy, state_emit, state_storeFileData, ← hq, state_pduArrived]; exact h.act
  have y8 : y.fs = fs0 := by rw [← hy, fs_emit, fs_storeFileData, ← hq, fs_pduArrived]; exact h.fs
  have dq : DataOk src q := dataOk_frame h.data q2 q3
  have y9 : DataOk src y := by
    rw [← hy]
    exact dataOk_frame (dataOk_storeFileData dq off d ht) (segs_emit _ _) (tempFile_emit _ _)
  have ycov : ∀ x, (Seg.cov r.segs x ∨ (off ≤ x ∧ x < off + d.length)) → Seg.cov y.segs x := by
    intro x hx
    have hinv : Seg.Inv q.segs := dq.inv
    obtain ⟨c1, c2⟩ := cov_storeFileData (s := q) hinv off d x
    have : y.segs = (storeFileData q off d).segs := by rw [← hy, segs_emit]
    rw [this]
    rcases hx with hx | ⟨hx1, hx2⟩
    · exact c1 (by rw [q2]; exact hx)
    · exact c2 hx1 hx2
  rw [e1]
  by_cases hc : Seg.isComplete y.segs src.length = true
  · left
    have hfs' : (y.fs.writeFile (Fs.relOf m.dstName) src).isSome = true := by rw [y8]; exact hfs
    obtain ⟨c1, c2, c3, c4, _⟩ := C02_complete_is_success src y t m y1 y5 y2 hft y3 y4 y9 hc hfs'
    exact ⟨c1, c2, c3, c4⟩
  · right
    have hc' : Seg.isComplete y.segs src.length = false := by simpa using hc
    have hnoop : checkFinished y t = y := by
      have hift : isFileTransfer y = true := by simp [isFileTransfer, y2, hft]
      have hnn : hasNaks y = true := by
        simp only [hasNaks, y2, y3, hc', Option.isNone_some, Bool.not_false, Bool.or_true]
      simp only [checkFinished, hift, hnn, Bool.and_self, Bool.not_true, Bool.and_false, Bool.false_eq_true, if_false]
    rw [hnoop]
    exact ⟨⟨by rw [y6]; exact h.mode, y7, y1, y2, y3, y4, y5, y9, y8⟩, hc', ycov⟩


/-- a reported delivery stays as reported when more file data arrives -/
theorem fg_step {r : Recv.State} (h : FG r) (t : Nat) (p : Pdu) (off : Nat) (d : Bytes) (hp : p.payload = .fileData off d) :
    FG (recvStep r t (.pdu p)) := by
  rw [recvStep_eq]
  split
  · exact h
  · generalize hq : pduArrived (clrR r) t = q
    have q1 : q.recvState = .Finished := by rw [← hq, recvState_pduArrived]; exact h.1
    have q2 : q.condition = .NoError := by rw [← hq, condition_pduArrived]; exact h.2.1
    have q3 : q.delivery = .Complete := by rw [← hq, delivery_pduArrived]; exact h.2.2.1
    have q4 : q.fileStatus = .Retained := by rw [← hq, fileStatus_pduArrived]; exact h.2.2.2
    simp only [processPdu, hq, processPduBody, hp]
    cases hm : q.cfg.mode with
    | Acknowledged =>
      dsimp only
      simp only [ackFileData]
      generalize hz : immediateNak (emit (storeFileData q off d) (.fileSegmentRecv off d.length)) ((Seg.endOf q.segs).getD 0) off t = z
      have z1 : z.recvState = .Finished := by
        rw [← hz, recvState_immediateNak, recvState_emit, recvState_storeFileData]; exact q1
      have z2 : z.condition = .NoError := by
        rw [← hz, condition_immediateNak, condition_emit, condition_storeFileData]; exact q2
      have z3 : z.delivery = .Complete := by
        rw [← hz, delivery_immediateNak, delivery_emit, delivery_storeFileData]; exact q3
      have z4 : z.fileStatus = .Retained := by
        rw [← hz, fileStatus_immediateNak, fileStatus_emit, fileStatus_storeFileData]; exact q4
      rw [checkFinished_nr (by unfold NR; rw [z1]; decide)]
      exact ⟨z1, z2, z3, z4⟩
    | Unacknowledged =>
      dsimp only
      refine ⟨?_, ?_, ?_, ?_⟩
      · rw [recvState_emit, recvState_storeFileData]; exact q1
      · rw [condition_emit, condition_storeFileData]; exact q2
      · rw [delivery_emit, delivery_storeFileData]; exact q3
      · rw [fileStatus_emit, fileStatus_storeFileData]; exact q4

/-- a Metadata PDU arriving at a receiver that has the Metadata already changes nothing but the inactivity timer -/
theorem rg_md {src : Bytes} {m : Recv.Meta} {fs0 : Fs.FS} {r : Recv.State} (h : RG src m fs0 r) (t : Nat) (p : Pdu)
    (md : Metadata) (hp : p.payload = .metadata md) :
    RG src m fs0 (recvStep r t (.pdu p)) ∧ (recvStep r t (.pdu p)).segs = r.segs := by
  have hnt : ((clrR r).state == TransactionState.Terminated) = false := by
    show (r.state == TransactionState.Terminated) = false; rw [h.act]; rfl
  generalize hq : pduArrived (clrR r) t = q
  have q1 : q.cfg = r.cfg := by rw [← hq, cfg_pduArrived]; rfl
  have q2 : q.segs = r.segs := by rw [← hq, segs_pduArrived]; rfl
  have q3 : q.tempFile = r.tempFile := by rw [← hq, tempFile_pduArrived]; rfl
  have q4 : q.md = some m := by rw [← hq, md_pduArrived]; exact h.md
  have hmq : q.cfg.mode = .Acknowledged := by rw [q1]; exact h.mode
  have e1 : recvStep r t (.pdu p) = q := by
    rw [recvStep_eq]
    simp only [hnt, Bool.false_eq_true, if_false, processPdu, hq, processPduBody, hmq, hp, q4, Option.isNone_some]
  rw [e1]
  refine ⟨⟨hmq, ?_, ?_, q4, ?_, ?_, ?_, dataOk_frame h.data q2 q3, ?_⟩, q2⟩
  · rw [← hq, state_pduArrived]; exact h.act
  · rw [← hq, recvState_pduArrived]; exact h.rd
  · rw [← hq, fileSize_pduArrived]; exact h.size
  · rw [← hq, checksum_pduArrived]; exact h.ck
  · rw [← hq, condition_pduArrived]; exact h.cond
  · rw [← hq, fs_pduArrived]; exact h.fs

/-- ... nor does it change a delivery already reported -/
theorem fg_md {r : Recv.State} (h : FG r) (t : Nat) (p : Pdu) (md : Metadata) (hp : p.payload = .metadata md) :
    FG (recvStep r t (.pdu p)) := by
  rw [recvStep_eq]
  split
  · exact h
  · generalize hq : pduArrived (clrR r) t = q
    have q1 : q.recvState = .Finished := by rw [← hq, recvState_pduArrived]; exact h.1
    have q2 : q.condition = .NoError := by rw [← hq, condition_pduArrived]; exact h.2.1
    have q3 : q.delivery = .Complete := by rw [← hq, delivery_pduArrived]; exact h.2.2.1
    have q4 : q.fileStatus = .Retained := by rw [← hq, fileStatus_pduArrived]; exact h.2.2.2
    have hnr : NR q := by unfold NR; rw [q1]; decide
    simp only [processPdu, hq, processPduBody, hp]
    cases hm : q.cfg.mode <;> dsimp only
    all_goals (split)
    all_goals first
      | exact ⟨q1, q2, q3, q4⟩
      | (rw [checkFinished_nr (s := storeMetadata q md) hnr]
         exact ⟨q1, q2, q3, q4⟩)
      | exact ⟨q1, q2, q3, q4⟩

/-- a PDU of the kind a sender transmits when it answers requests: file data carrying the source file's
bytes at its offset, or the Metadata -/
def RPdu (src : Bytes) (p : Pdu) : Prop :=
  (∃ off d, p.payload = .fileData off d ∧ Truthful src off d) ∨ (∃ md, p.payload = .metadata md)

/-- the bytes a list of PDUs carries -/
def carries (ps : List Pdu) (x : Nat) : Prop := ∃ p ∈ ps, ∃ off d, p.payload = .fileData off d ∧ off ≤ x ∧ x < off + d.length

/-- deliver a list of PDUs, one loop iteration each, at the given clock readings -/
def deliverAll (r : Recv.State) : List (Nat × Pdu) → Recv.State
  | [] => r
  | (t, p) :: rest => deliverAll (recvStep r t (.pdu p)) rest

theorem fg_deliverAll (src : Bytes) (ps : List (Nat × Pdu)) (r : Recv.State) (h : FG r) (hd : ∀ x ∈ ps, RPdu src x.2) :
    FG (deliverAll r ps) := by
  induction ps generalizing r with
  | nil => exact h
  | cons x rest ih =>
    obtain ⟨t, p⟩ := x
    have hd' : ∀ y ∈ rest, RPdu src y.2 := fun y hy => hd y (List.mem_cons_of_mem _ hy)
    rcases hd (t, p) (List.mem_cons_self ..) with ⟨off, d, hp, _⟩ | ⟨md, hp⟩
    · exact ih _ (fg_step h t p off d hp) hd'
    · exact ih _ (fg_md h t p md hp) hd'

/-- **C02 (the receiver's half of a recovery round).**  A receiver in mid-recovery (`RG`: acknowledged mode,
Metadata and the truthful EOF in, no fault, holding only bytes of the source file, something still
missing) is handed PDUs of the kind a sender transmits when it answers requests - in any order, at any
clock readings, with any duplicates and overlaps - whose file data covers every byte it is missing.  Then
the delivery succeeds: Finished phase, NoError / Complete / Retained (provided the filestore accepts the
destination name). -/
theorem C02_receiver_recovers (src : Bytes) (m : Recv.Meta) (fs0 : Fs.FS) (ps : List (Nat × Pdu)) (r : Recv.State)
    (h : RG src m fs0 r) (hft : m.srcName.isEmpty = false)
    (hfs : (fs0.writeFile (Fs.relOf m.dstName) src).isSome = true)
    (hd : ∀ x ∈ ps, RPdu src x.2) (hinc : ∃ x, x < src.length ∧ ¬ Seg.cov r.segs x)
    (hcov : ∀ x, x < src.length → ¬ Seg.cov r.segs x → carries (ps.map (·.2)) x) :
    FG (deliverAll r ps) := by
  induction ps generalizing r with
  | nil =>
    obtain ⟨x, hx, hnx⟩ := hinc
    obtain ⟨p', hp', _⟩ := hcov x hx hnx
    cases hp'
  | cons y rest ih =>
    obtain ⟨t, p⟩ := y
    have hd' : ∀ x ∈ rest, RPdu src x.2 := fun x hx => hd x (List.mem_cons_of_mem _ hx)
    simp only [deliverAll]
    rcases hd (t, p) (List.mem_cons_self ..) with ⟨off, d, hp, ht⟩ | ⟨md, hp⟩
    · rcases rg_step h t p off d hp ht hft hfs with hfg | ⟨hrg, hnc, hc⟩
      · exact fg_deliverAll src rest _ hfg hd'
      · -- still collecting: some byte is missing, and the rest of the list carries it
        have hinv := hrg.data.inv
        have hmiss : ∃ x, x < src.length ∧ ¬ Seg.cov (recvStep r t (.pdu p)).segs x := by
          apply Classical.byContradiction
          intro hno
          have : Seg.isComplete (recvStep r t (.pdu p)).segs src.length = true := by
            rw [Seg.isComplete_iff _ _ hinv]
            intro x hx
            apply Classical.byContradiction
            intro hcx
            exact hno ⟨x, hx, hcx⟩
          rw [this] at hnc; cases hnc
        have hcov' : ∀ x, x < src.length → ¬ Seg.cov (recvStep r t (.pdu p)).segs x → carries (rest.map (·.2)) x := by
          intro x hx hnx
          have hnr : ¬ Seg.cov r.segs x := fun hh => hnx (hc x (Or.inl hh))
          obtain ⟨p', hp', off', d', h1, h2, h3⟩ := hcov x hx hnr
          simp only [List.map_cons, List.mem_cons] at hp'
          rcases hp' with hp' | hp'
          · subst hp'
            rw [hp] at h1
            cases h1
            exact absurd (hc x (Or.inr ⟨h2, h3⟩)) hnx
          · exact ⟨p', hp', off', d', h1, h2, h3⟩
        exact ih _ hrg hd' hmiss hcov'
    · obtain ⟨hrg, hsegs⟩ := rg_md h t p md hp
      have hinc' : ∃ x, x < src.length ∧ ¬ Seg.cov (recvStep r t (.pdu p)).segs x := by rw [hsegs]; exact hinc
      have hcov' : ∀ x, x < src.length → ¬ Seg.cov (recvStep r t (.pdu p)).segs x → carries (rest.map (·.2)) x := by
        intro x hx hnx
        rw [hsegs] at hnx
        obtain ⟨p', hp', off', d', h1, h2, h3⟩ := hcov x hx hnx
        simp only [List.map_cons, List.mem_cons] at hp'
        rcases hp' with hp' | hp'
        · subst hp'; rw [hp] at h1; cases h1
        · exact ⟨p', hp', off', d', h1, h2, h3⟩
      exact ih _ hrg hd' hinc' hcov'

/-- **C02 (one recovery round).**  The sender has sent its EOF (acknowledged mode; `Send.Good` is the invariant of
every reachable sender state); the receiver is in mid-recovery with respect to the sender's file (`RG`,
something missing).  A NAK whose requests contain every byte the receiver is missing - which is what the
receiver's own NAKs do, `C08_exact` - reaches the sender; the sender is given as many transmission
opportunities as requests are queued; the link delivers what it transmitted - in any order, at any
times, with any duplicates, but losing none of it.  Then the delivery succeeds at the receiver:
Finished phase, NoError / Complete / Retained. -/
theorem C02_recovery_round (s : Send.State) (r : Recv.State) (t : Nat) (p : Pdu) (n : Nak) (m : Recv.Meta) (fs0 : Fs.FS)
    (g : Send.Good s) (ha : s.state = .Active) (hm : s.cfg.mode = .Acknowledged) (hp : s.prompt = none)
    (hss : s.sendState = .SendEof) (hpl : p.payload = .nak n)
    (h : RG s.file m fs0 r) (hft : m.srcName.isEmpty = false)
    (hfs : (fs0.writeFile (Fs.relOf m.dstName) s.file).isSome = true)
    (hinc : ∃ x, x < s.file.length ∧ ¬ Seg.cov r.segs x)
    (hreq : ∀ x, x < s.file.length → ¬ Seg.cov r.segs x → ∃ q ∈ n.requests, q.1 < q.2 ∧ q.1 ≤ x ∧ x < q.2)
    (ds : List (Nat × Pdu))
    (hsub : ∀ x ∈ ds, x.2 ∈ (sendN (sendStep s t (.pdu p)).naks.length (sendStep s t (.pdu p)) t).2)
    (hall : ∀ q ∈ (sendN (sendStep s t (.pdu p)).naks.length (sendStep s t (.pdu p)) t).2, q ∈ ds.map (·.2)) :
    FG (deliverAll r ds) := by
  obtain ⟨g1, a1, p1, s1, st1, n1⟩ := nak_arrives s t p n g ha hm hp hss hpl
  obtain ⟨_, _, _, _, f5⟩ := send_flushes_queue _ (sendStep s t (.pdu p)) t g1 a1 p1 s1 rfl
  have hfile : (sendStep s t (.pdu p)).file = s.file := by simp only [Send.State.file, st1]
  refine C02_receiver_recovers s.file m fs0 ds r h hft hfs ?_ hinc ?_
  · intro x hx
    have := f5 x.2 (hsub x hx)
    rw [hfile] at this
    exact this
  · intro x hx hnx
    obtain ⟨q, hq, hq1, hq2, hq3⟩ := hreq x hx hnx
    obtain ⟨pdu, hpdu, off, d, e1, e2, e3, _⟩ := C02_sender_answers_nak s t p n g ha hm hp hss hpl q hq hq1 x hq2 hq3 hx
    exact ⟨pdu, hall pdu hpdu, off, d, e1, e2, e3⟩

end Cfdp.Loop

namespace Cfdp.Loop
open Cfdp.Codec Cfdp.Gen Cfdp.Recv

/-! ### the premises are satisfiable -/

/-- the sender after Metadata, two segments and the EOF -/
def exS : Send.State :=
  (sendRun (Send.new Send.exCfg Send.exMd Send.exFile 0) [(0, .send), (0, .send), (0, .send), (0, .send)]).1
/-- the PDUs it transmitted -/
def exOut : List Pdu :=
  (sendRun (Send.new Send.exCfg Send.exMd Send.exFile 0) [(0, .send), (0, .send), (0, .send), (0, .send)]).2
/-- the receiver after the Metadata, the first segment and the EOF: the second segment was lost -/
def exR : Recv.State :=
  (recvRun (Recv.new c04Cfg [([], .dir)] 0) [(0, .pdu exOut[0]!), (0, .pdu exOut[1]!), (0, .pdu exOut[3]!)]).1
/-- the receiver's NAK -/
def exNakPdu : Pdu := ⟨default, .nak { scopeStart := 0, scopeEnd := 6, requests := [(4, 6)] }⟩

theorem good_run (s : Send.State) (g : Send.Good s) (evs : List (Nat × Ev)) : Send.Good (sendRun s evs).1 := by
  induction evs generalizing s with
  | nil => exact g
  | cons e evs ih => exact ih _ (Send.good_sendStep g e.1 e.2).1

example :
    let ds := (sendN (sendStep exS 3 (.pdu exNakPdu)).naks.length (sendStep exS 3 (.pdu exNakPdu)) 3).2.map (fun q => (5, q))
    FG (deliverAll exR ds) := by
  intro ds
  have hmd : exR.md = some { srcName := [115], dstName := [100], fileSize := 6, closure := false, cksumType := .Null, requests := [] } := by
    rfl
  refine C02_recovery_round exS exR 3 exNakPdu _ _ exR.fs
    (good_run _ (Send.good_new Send.exCfg Send.exMd Send.exFile 0 rfl (by decide)) _) (by decide) (by decide) (by decide)
    (by decide) rfl
    ⟨by decide, by decide, by decide, hmd, by decide, by decide, by decide, ?_, rfl⟩ (by decide) (by decide) ?_ ?_ ds ?_ ?_
  · -- what the receiver holds is the source file's first segment
    have hsegs : exR.segs = [(0, 4)] := by decide
    have htmp : exR.tempFile = some [1, 2, 3, 4] := by decide
    refine ⟨?_, ?_, ?_, ?_⟩
    · rw [hsegs]; exact ⟨fun sg hsg => by simp at hsg; subst hsg; decide, by simp⟩
    · rw [hsegs]; intro sg hsg; simp at hsg; subst hsg; decide
    · rw [htmp]; decide
    · rw [hsegs, htmp]
      intro x hx
      obtain ⟨sg, hsg, h1, h2⟩ := hx
      simp at hsg; subst hsg
      have : x = 0 ∨ x = 1 ∨ x = 2 ∨ x = 3 := by simp only at h1 h2; omega
      rcases this with rfl | rfl | rfl | rfl <;> rfl
  · have hsegs : exR.segs = [(0, 4)] := by decide
    rw [hsegs]
    refine ⟨4, by decide, ?_⟩
    rintro ⟨sg, hsg, h1, h2⟩
    simp at hsg; subst hsg; simp only at h2; omega
  · have hsegs : exR.segs = [(0, 4)] := by decide
    rw [hsegs]
    intro x hx hnx
    have hlen : exS.file.length = 6 := by decide
    rw [hlen] at hx
    refine ⟨(4, 6), List.mem_singleton.mpr rfl, by decide, ?_, hx⟩
    apply Classical.byContradiction
    intro hlt
    exact hnx ⟨(0, 4), List.mem_singleton.mpr rfl, Nat.zero_le _, by simp only at hlt ⊢; omega⟩
  · intro x hx
    obtain ⟨q, hq, rfl⟩ := List.mem_map.mp hx
    exact hq
  · intro q hq
    simp only [ds, List.map_map]
    exact List.mem_map.mpr ⟨q, hq, rfl⟩

end Cfdp.Loop

#print axioms Cfdp.Loop.C02_sender_answers_nak
#print axioms Cfdp.Loop.C02_receiver_recovers
#print axioms Cfdp.Loop.C02_recovery_round
#print axioms Cfdp.Net.C02_two_party_completes
#print axioms Cfdp.Loop.C02_recv_completes
#print axioms Cfdp.Loop.C02_send_completes
#print axioms Cfdp.Net.C02_two_party_no_integrity_fault
#print axioms Cfdp.Loop.C02_no_integrity_fault
#print axioms Cfdp.Recv.C02_size_check_passes
#print axioms Cfdp.Seg.C02_round_completes
#print axioms Cfdp.Seg.C02_gaps_answered
#print axioms Cfdp.Recv.C02_finishes_when_complete
#print axioms Cfdp.Recv.C02_never_waits_complete
#print axioms Cfdp.Recv.C02_complete_is_success
