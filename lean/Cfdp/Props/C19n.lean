import Cfdp.Props.C19m
set_option linter.unusedSimpArgs false

/-! # C19: a sender resumed while its EOF is unacknowledged - under further losses

The sender's counterpart of Props/C19m.lean: a sender suspended after it had transmitted its EOF (regular or cancelling) is put
by the Resume.request back into the EOF retransmission loop with the counts it had (`send_resume_enters_wait`:
suspension stopped the counters, it did not clear them), so as long as the expiries counted on top of those stay below
the limits every expiry after the resume is followed by that same EOF (`C19_send_resume_then_lost_eofs`), and for a
regular EOF whichever retransmission reaches a receiver holding everything else completes the delivery. -/
namespace Cfdp.Loop
open Cfdp.Codec Cfdp.Gen Cfdp.Timer Cfdp.Recv Cfdp.Send

/-- **a resumed sender is back in the EOF retransmission loop** -/
theorem send_resume_enters_wait {m Ta Ti : Nat} (s : Send.State) (t j a hi : Nat) (e : Eof)
    (hsus : s.state = .Suspended) (hm : s.cfg.mode = .Acknowledged) (hp : s.prompt = none)
    (heof : s.eof = some (e, false))
    (hss : (s.sendState = .SendEof ∧ s.naks = []) ∨ s.sendState = .Cancelled)
    (hq : QT m Ta Ti s.timer) (hpa : s.timer.ack.paused = true) (hpi : s.timer.inactivity.paused = true)
    (hj : s.timer.ack.count ≤ j) (ib : IB Ti a hi s.timer.inactivity) (hle : hi ≤ t) :
    Waits e (sendStep s t .resume) ∧ (sendStep s t .resume).sendState = s.sendState ∧ (sendStep s t .resume).st = s.st ∧
    QT m Ta Ti (sendStep s t .resume).timer ∧ AB t j (sendStep s t .resume).timer.ack ∧
    IB Ti a (max a t) (sendStep s t .resume).timer.inactivity := by
  have hnt : ((clrS s).state == TransactionState.Terminated) = false := by
    show (s.state == TransactionState.Terminated) = false; rw [hsus]; rfl
  have e1 : sendStep s t .resume = Send.resume (clrS s) t := by
    rw [sendStep_eq]; simp only [hnt, Bool.false_eq_true, if_false]
  have hq2 := qt_sendStep hq t .resume
  obtain ⟨r1, r2, _, _, r5, r6⟩ := C19_send_resume (clrS s) t
  have k1 : (clrS s).eof = some (e, false) := heof
  have htm : (Send.resume (clrS s) t).timer =
      { inactivity := s.timer.inactivity.restart t, ack := s.timer.ack.restart t, nak := s.timer.nak } := by
    rcases hss with ⟨h1, _⟩ | h1
    · have k2 : (clrS s).sendState = .SendEof := h1
      simp only [Send.resume, Send.emit, k2, k1]; rfl
    · have k2 : (clrS s).sendState = .Cancelled := h1
      simp only [Send.resume, Send.emit, k2, k1]; rfl
  have hua : s.timer.ack.update t = s.timer.ack := by simp only [Counter.update, hpa, if_true]
  have hui : s.timer.inactivity.update t = s.timer.inactivity := by simp only [Counter.update, hpi, if_true]
  rw [e1] at hq2 ⊢
  refine ⟨⟨r1, ?_, ?_, by rw [r5]; exact heof, ?_⟩, r6, ?_, hq2, ⟨?_, ?_, ?_⟩, ?_⟩
  · show (Send.resume (clrS s) t).st.cfg.mode = _; rw [Send.st_resume]; exact hm
  · rw [Send.prompt_resume]; exact hp
  · rcases hss with ⟨h1, h2⟩ | h1
    · exact Or.inl ⟨by rw [r6]; exact h1, by rw [r2]; exact h2⟩
    · exact Or.inr (by rw [r6]; exact h1)
  · rw [Send.st_resume]; rfl
  · rw [htm]; rfl
  · rw [htm]; rfl
  · rw [htm]
    show (s.timer.ack.update t).count ≤ j
    rw [hua]; exact hj
  · rw [htm]
    show IB Ti a (max a t) (s.timer.inactivity.restart t)
    have h1 := ib.cnt
    have h2 := ib.lo
    have h3 := ib.hi
    refine ⟨?_, ?_, ?_⟩
    · show (s.timer.inactivity.update t).count * Ti ≤ t - a
      rw [hui]; omega
    · show a ≤ t; omega
    · show t ≤ max a t; exact Nat.le_max_right _ _

/-- **C19 (resume of a sender whose EOF is unacknowledged, under further losses).**  The sender was suspended after it had
transmitted its EOF (regular, nothing queued - or cancelling), its positive-ACK counter stopped at a count of at most `j`.
It is resumed at `t`, and the EOF is lost again and again: as long as the expiries, counted on top of `j`, stay below the
limit and within the inactivity limit (`FairT`), every expiry after the resume is followed by the transmission of that
same EOF and the sender goes on waiting - exactly as a sender that was never suspended (`waits_repeated`). -/
theorem C19_send_resume_then_lost_eofs {m Ta Ti : Nat} (s : Send.State) (t j a hi : Nat) (e : Eof) (ts : List Nat)
    (hsus : s.state = .Suspended) (hm : s.cfg.mode = .Acknowledged) (hp : s.prompt = none)
    (heof : s.eof = some (e, false))
    (hss : (s.sendState = .SendEof ∧ s.naks = []) ∨ s.sendState = .Cancelled)
    (hq : QT m Ta Ti s.timer) (hpa : s.timer.ack.paused = true) (hpi : s.timer.inactivity.paused = true)
    (hj : s.timer.ack.count ≤ j) (ib : IB Ti a hi s.timer.inactivity) (hle : hi ≤ t)
    (hf : FairT m Ta Ti t j a ts) :
    Waits e (eofRounds (sendStep s t .resume) ts).1 ∧
    (eofRounds (sendStep s t .resume) ts).1.sendState = s.sendState ∧
    (eofRounds (sendStep s t .resume) ts).2.length = ts.length ∧
    (∀ p ∈ (eofRounds (sendStep s t .resume) ts).2, ∃ hd, p = ⟨hd, .eof e⟩) := by
  obtain ⟨w, w2, _, wq, wab, wib⟩ := send_resume_enters_wait s t j a hi e hsus hm hp heof hss hq hpa hpi hj ib hle
  obtain ⟨c1, c2, c3, c4, _⟩ := waits_repeated e ts _ t j a w wq wab wib hf
  exact ⟨c1, c2.trans w2, c3, c4⟩

/-! ### the premises are satisfiable -/

/-- the sender of `exS4` (EOF out, unacknowledged), suspended at clock reading 100 -/
def exS4s : Send.State := sendStep exS4 100 .suspend

example : ∃ e, (eofRounds (sendStep exS4s 7000000000 .resume) [8000000000, 9000000500]).2.length = 2 ∧
    ∀ p ∈ (eofRounds (sendStep exS4s 7000000000 .resume) [8000000000, 9000000500]).2, ∃ hd, p = ⟨hd, .eof e⟩ := by
  have he : ∃ e, exS4s.eof = some (e, false) := ⟨_, rfl⟩
  obtain ⟨e, he⟩ := he
  have hqt : QT 4 1000000000 3000000000 exS4s.timer := by
    refine qt_sendStep (qt_run _ ⟨?_, ?_, rfl⟩ _) 100 .suspend
    · exact cq_new _ _ _ (by decide)
    · exact cq_new _ _ _ (by decide)
  obtain ⟨_, _, c3, c4⟩ := C19_send_resume_then_lost_eofs (m := 4) (Ta := 1000000000) (Ti := 3000000000) exS4s 7000000000 0 0 0 e
    [8000000000, 9000000500] (by decide) (by decide) (by decide) he (Or.inl ⟨by decide, by decide⟩) hqt (by decide) (by decide)
    (by decide) ⟨by decide, by decide, by decide⟩ (by decide)
    ⟨by decide, by decide, by decide, by decide, by decide, by decide, by decide, by decide, by decide, by decide, trivial⟩
  exact ⟨e, c3, c4⟩

end Cfdp.Loop

#print axioms Cfdp.Loop.C19_send_resume_then_lost_eofs
#print axioms Cfdp.Loop.C19_send_quiet
#print axioms Cfdp.Loop.C19_send_no_timer_fault
#print axioms Cfdp.Loop.C19_send_permit_ignored
#print axioms Cfdp.Loop.C19_send_resume
#print axioms Cfdp.Loop.C19_recv_quiet
#print axioms Cfdp.Loop.C19_recv_no_timer_fault
#print axioms Cfdp.Loop.C19_recv_suspend
#print axioms Cfdp.Loop.C19_recv_resume
#print axioms Cfdp.Loop.C19_send_run_quiet
#print axioms Cfdp.Net.C19_completes_despite_suspensions
#print axioms Cfdp.Loop.C19_resume_round
#print axioms Cfdp.Loop.C19_resume_lossy_rounds
#print axioms Cfdp.Loop.C19_resume_then_lost_finisheds
