import Cfdp.Tactic.Peel
import Cfdp.Props.C07
import Cfdp.Props.C14

/-! # C07, EOF: the EOF PDU states the true size and checksum -/
namespace Cfdp.Cksum

/-- cutting data into non-empty chunks loses nothing -/
theorem chunkBy_spec (sizes : List Nat) (fuel k : Nat) (data : List UInt8) (hf : data.length < fuel) :
    (chunkBy sizes fuel k data).flatten = data ∧ ∀ c ∈ chunkBy sizes fuel k data, c ≠ [] := by
  induction fuel generalizing k data with
  | zero => omega
  | succ fuel ih =>
    cases data with
    | nil => simp [chunkBy]
    | cons x xs =>
      simp only [chunkBy]
      generalize hn : min (max 1 (sizes.getD (k % max 1 sizes.length) 1)) 8192 = n
      have hn1 : 1 ≤ n := by omega
      have hlen : ((x :: xs).drop n).length < fuel := by
        simp only [List.length_drop, List.length_cons] at hf ⊢; omega
      obtain ⟨h1, h2⟩ := ih (k + 1) ((x :: xs).drop n) hlen
      refine ⟨?_, ?_⟩
      · rw [List.flatten_cons, h1, List.take_append_drop]
      · intro c hc
        rcases List.mem_cons.mp hc with hc | hc
        · subst hc
          obtain ⟨m, rfl⟩ : ∃ m, n = m + 1 := ⟨n - 1, by omega⟩
          simp
        · exact h2 c hc

end Cfdp.Cksum

namespace Cfdp.Send
open Cfdp.Codec Cfdp.Gen Cfdp.Timer

/-- the checksum an EOF must carry: the CCSDS modular checksum of the source file (`Cksum.spec`,
the subject of C14) for a file transfer with the Modular type, 0 otherwise -/
def trueChecksum (st : Static) : Nat :=
  if st.md.srcName.isEmpty then 0 else
  match st.md.cksumType with
  | .Null => 0
  | .Modular => (Cksum.spec st.file).toNat

/-- the cached checksum, the prepared EOF and an EOF PDU just sent all state the true size and checksum -/
structure EofOk (s : State) : Prop where
  cache : ∀ v, s.checksum = some v → v = trueChecksum s.st
  eof : ∀ e f, s.eof = some (e, f) → e.fileSize = s.st.md.fileSize ∧ e.checksum = trueChecksum s.st
  sent : ∀ p e, s.sent = some p → p.payload = .eof e → e.fileSize = s.st.md.fileSize ∧ e.checksum = trueChecksum s.st

theorem eofOk_frame {s s' : State} (h : EofOk s) (h1 : s'.st = s.st) (h2 : s'.checksum = s.checksum)
    (h3 : s'.eof = s.eof) (h4 : s'.sent = s.sent) : EofOk s' := by
  refine ⟨?_, ?_, ?_⟩
  · rw [h1, h2]; exact h.cache
  · rw [h1, h3]; exact h.eof
  · rw [h1, h4]; exact h.sent

variable {s : State} {now : Nat}

theorem eofOk_cached {s s' : State} (h : EofOk s) (h1 : s'.st = s.st) (h2 : s'.checksum = some (trueChecksum s.st))
    (h3 : s'.eof = s.eof) (h4 : s'.sent = s.sent) : EofOk s' := by
  refine ⟨?_, ?_, ?_⟩
  · rw [h1, h2]; intro v hv; cases hv; rfl
  · rw [h1, h3]; exact h.eof
  · rw [h1, h4]; exact h.sent

theorem getChecksum_spec (h : EofOk s) :
    (getChecksum s).2 = trueChecksum s.st ∧ EofOk (getChecksum s).1 := by
  simp only [getChecksum]
  split
  · rename_i v hv
    exact ⟨h.cache v hv, h⟩
  · have hs := Cksum.chunkBy_spec [8192] (s.file.length + 1) 0 s.file (Nat.lt_succ_self _)
    have hck : Cksum.checksumLoop (Cksum.chunkBy [8192] (s.file.length + 1) 0 s.file) = Cksum.spec s.file := by
      rw [Cksum.C14_chunking _ hs.2, hs.1]
    have ho : EofOk (openHandle s) := eofOk_frame h (by simp) (by simp) (by simp) (by simp)
    simp only [isFileTransfer, State.md, State.file, st_openHandle] at *
    cases hft : s.st.md.srcName.isEmpty
    · cases hct : s.st.md.cksumType with
      | Null =>
        have ht : trueChecksum s.st = 0 := by simp [trueChecksum, hft, hct]
        simp only [Bool.not_false, if_true]
        exact ⟨ht.symm, eofOk_cached ho (by simp) (by simp [ht]) rfl rfl⟩
      | Modular =>
        have ht : trueChecksum s.st = (Cksum.spec s.st.file).toNat := by simp [trueChecksum, hft, hct]
        simp only [Bool.not_false, if_true, hck]
        exact ⟨ht.symm, eofOk_cached ho (by simp) (by simp [ht]) rfl rfl⟩
    · have ht : trueChecksum s.st = 0 := by simp [trueChecksum, hft]
      simp only [Bool.not_true, Bool.false_eq_true, if_false]
      exact ⟨ht.symm, eofOk_cached h rfl (by simp [ht]) rfl rfl⟩

theorem eofOk_sendPayload (h : EofOk s) (p : Payload)
    (hp : ∀ e, p = .eof e → e.fileSize = s.st.md.fileSize ∧ e.checksum = trueChecksum s.st) :
    EofOk (sendPayload s p) := by
  refine ⟨?_, ?_, ?_⟩
  · simp only [st_sendPayload, checksum_sendPayload]; exact h.cache
  · simp only [st_sendPayload, eof_sendPayload]; exact h.eof
  · intro q e hq he
    simp only [sendPayload] at hq
    cases hq
    have := hp e he
    simpa using this

theorem eofOk_prepareEof (h : EofOk s) (f : Option VarId) : EofOk (prepareEof s f now) := by
  have h0 : EofOk { s with timer := { s.timer with ack := ((s.timer.ack.reset now).pause now) } } :=
    eofOk_frame h rfl rfl rfl rfl
  obtain ⟨h1, h2⟩ := getChecksum_spec h0
  simp only [prepareEof]
  refine ⟨?_, ?_, ?_⟩
  · exact h2.cache
  · intro e fl he
    cases he
    refine ⟨by simp [State.md], ?_⟩
    simp only [st_getChecksum]
    exact h1
  · exact h2.sent

theorem eofOk_setEofFlag (h : EofOk s) (f : Bool) : EofOk (setEofFlag s f) := by
  simp only [setEofFlag]
  split
  · rename_i e f0 he
    refine ⟨h.cache, ?_, h.sent⟩
    intro e' f' he'
    cases he'
    exact h.eof e f0 he
  · exact h

theorem eofOk_sendEof (h : EofOk s) : EofOk (sendEof s now) := by
  simp only [sendEof]
  split
  · rename_i e he
    apply eofOk_setEofFlag
    have h0 : EofOk { s with timer := { s.timer with ack := s.timer.ack.restart now } } := eofOk_frame h rfl rfl rfl rfl
    refine eofOk_sendPayload h0 _ ?_
    intro e' he'
    cases he'
    exact h.eof e true he
  · exact h

def isEof : Payload → Bool
  | .eof _ => true
  | _ => false

theorem eofOk_sendPayload_ne (h : EofOk s) (p : Payload) (hp : isEof p = false) : EofOk (sendPayload s p) := by
  apply eofOk_sendPayload h
  intro e he
  subst he
  cases hp

syntax "eo_go" "[" term,* "]" : tactic
macro_rules
  | `(tactic| eo_go [$ls,*]) => `(tactic|
      (((try dsimp only) <;> repeat' (first
        | assumption
        $[| with_reducible apply $ls]*
        | refine eofOk_sendPayload_ne ?_ _ rfl
        | peel eofOk_frame 4)) <;> done))

theorem eofOk_sendMetadata (h : EofOk s) : EofOk (sendMetadata s) := by
  simp only [sendMetadata]; eo_go []
theorem eofOk_sendFileSegment (h : EofOk s) (o l : Option Nat) : EofOk (sendFileSegment s o l) := by
  simp only [sendFileSegment]; eo_go []
theorem eofOk_shutdown (h : EofOk s) : EofOk (shutdown s now) := by
  simp only [shutdown]; eo_go []
theorem eofOk_popNak (h : EofOk s) : EofOk (popNak s now) := by
  simp only [popNak]
  repeat' split
  all_goals eo_go []
theorem eofOk_answerNak (h : EofOk s) (a b : Nat) : EofOk (answerNak s a b) := by
  simp only [answerNak]
  repeat' split
  all_goals eo_go [eofOk_sendMetadata, eofOk_sendFileSegment]
theorem eofOk_sendMissingData (h : EofOk s) : EofOk (sendMissingData s now) := by
  simp only [sendMissingData]
  repeat' split
  all_goals eo_go [eofOk_answerNak, eofOk_popNak]
theorem eofOk_sendPrompt (h : EofOk s) : EofOk (sendPrompt s) := by
  simp only [sendPrompt]
  repeat' split
  all_goals eo_go []
theorem eofOk_sendAck (h : EofOk s) : EofOk (sendAck s now) := by
  simp only [sendAck]
  repeat' split
  all_goals eo_go [eofOk_shutdown]
theorem eofOk_abandon (h : EofOk s) : EofOk (abandon s now) := by
  simp only [abandon]; eo_go [eofOk_shutdown]
theorem eofOk_cancelInner (h : EofOk s) (c : Condition) : EofOk (cancelInner s c now) := by
  simp only [cancelInner]; eo_go [eofOk_prepareEof]
theorem eofOk_suspend (h : EofOk s) : EofOk (suspend s now) := by
  simp only [suspend]; eo_go []
theorem eofOk_resume (h : EofOk s) : EofOk (resume s now) := by
  simp only [resume]
  repeat' split
  all_goals eo_go []
theorem eofOk_handleFault (h : EofOk s) (c : Condition) : EofOk (handleFault s c now) := by
  simp only [handleFault]
  repeat' split
  all_goals eo_go [eofOk_cancelInner, eofOk_suspend, eofOk_abandon]
theorem eofOk_sendPduMetadata (h : EofOk s) : EofOk (sendPduMetadata s now) := by
  simp only [sendPduMetadata]
  repeat' split
  all_goals eo_go [eofOk_prepareEof, eofOk_sendMetadata]
theorem eofOk_afterData (h : EofOk s) : EofOk (afterData s now) := by
  simp only [afterData]
  repeat' split
  all_goals eo_go [eofOk_prepareEof]
theorem eofOk_sendPduData (h : EofOk s) : EofOk (sendPduData s now) := by
  simp only [sendPduData]
  repeat' split
  all_goals eo_go [eofOk_afterData, eofOk_sendMissingData, eofOk_sendFileSegment]
theorem eofOk_sendPduEof (h : EofOk s) : EofOk (sendPduEof s now) := by
  simp only [sendPduEof]
  repeat' split
  all_goals eo_go [eofOk_shutdown, eofOk_sendEof]
theorem eofOk_sendPdu (h : EofOk s) : EofOk (sendPdu s now) := by
  simp only [sendPdu]
  repeat' split
  all_goals eo_go [eofOk_sendPrompt, eofOk_sendPduMetadata, eofOk_sendPduData, eofOk_sendMissingData, eofOk_sendPduEof,
    eofOk_sendEof, eofOk_sendAck]
theorem eofOk_handleAckTimer (h : EofOk s) (c : Bool) : EofOk (handleAckTimer s now c) := by
  simp only [handleAckTimer]
  repeat' split
  all_goals eo_go [eofOk_abandon, eofOk_handleFault, eofOk_setEofFlag]
theorem eofOk_handleInactivity (h : EofOk s) (c : Bool) : EofOk (handleInactivity s now c) := by
  simp only [handleInactivity]
  repeat' split
  all_goals eo_go [eofOk_abandon, eofOk_handleFault]
theorem eofOk_handleTimeout (h : EofOk s) : EofOk (handleTimeout s now) := by
  simp only [handleTimeout]
  repeat' split
  all_goals eo_go [eofOk_handleAckTimer, eofOk_handleInactivity]
theorem eofOk_processPdu (h : EofOk s) (p : Pdu) : EofOk (processPdu s p now).1 := by
  simp only [processPdu, processPduBody, pduArrived]
  repeat' split
  all_goals eo_go [eofOk_shutdown]

end Cfdp.Send

namespace Cfdp.Loop
open Cfdp.Send Cfdp.Codec Cfdp.Gen

theorem eofOk_sendStep {s : Send.State} (h : EofOk s) (now : Nat) (e : Ev) :
    EofOk (sendStep s now e) ∧ (sendStep s now e).st = s.st := by
  have h0 : EofOk { s with sent := none, out := [] } :=
    ⟨h.cache, h.eof, fun p e hp _ => by cases hp⟩
  simp only [sendStep]
  split
  · exact ⟨h0, rfl⟩
  · cases e with
    | pdu p => exact ⟨eofOk_processPdu h0 _, by simp⟩
    | send =>
      dsimp only
      split
      · exact ⟨eofOk_sendPdu h0, by simp⟩
      · exact ⟨h0, rfl⟩
    | timeout =>
      dsimp only
      split
      · exact ⟨eofOk_handleTimeout h0, by simp⟩
      · exact ⟨h0, rfl⟩
    | cancel => exact ⟨eofOk_cancelInner h0 _, by simp [Send.cancel]⟩
    | suspend => exact ⟨eofOk_suspend h0, by simp⟩
    | resume => exact ⟨eofOk_resume h0, by simp⟩
    | report => exact ⟨eofOk_frame h0 rfl rfl rfl rfl, rfl⟩
    | abandon => exact ⟨eofOk_shutdown h0, by simp⟩
    | prompt k => exact ⟨eofOk_frame h0 rfl rfl rfl rfl, rfl⟩

/-- **C07 (EOF).**  For every file, checksum type and history of events, every EOF PDU a send
transaction transmits — the regular one, its retransmissions after a positive-ACK timeout, and the
EOF (cancel) of a cancelled transaction — states the size the Metadata PDU announced (the true file
size, `hsize`) and the true checksum: the CCSDS modular checksum of the whole source file
(`Cksum.spec`, tied to the chunked reading loop by C14) for the Modular type, 0 for the Null type
and for transactions without a file. -/
theorem C07_eof (cfg : Send.Config) (md : Send.Meta) (file : Bytes) (t0 : Nat) (evs : List (Nat × Ev)) :
    ∀ p ∈ (sendRun (Send.new cfg md file t0) evs).2, ∀ e, p.payload = .eof e →
      e.fileSize = md.fileSize ∧ e.checksum = trueChecksum { cfg, md, file } := by
  have key : ∀ (evs : List (Nat × Ev)) (s : Send.State), EofOk s →
      ∀ p ∈ (sendRun s evs).2, ∀ e, p.payload = .eof e →
        e.fileSize = s.st.md.fileSize ∧ e.checksum = trueChecksum s.st := by
    intro evs
    induction evs with
    | nil => intro s _ p hp; simp [sendRun] at hp
    | cons x rest ih =>
      intro s h p hp e he
      obtain ⟨now, ev⟩ := x
      obtain ⟨h1, h2⟩ := eofOk_sendStep h now ev
      simp only [sendRun, List.mem_append, Option.mem_toList] at hp
      rcases hp with hp | hp
      · rw [← h2]; exact h1.sent p e hp he
      · rw [← h2]; exact ih _ h1 p hp e he
  intro p hp e he
  exact key evs (Send.new cfg md file t0)
    ⟨fun v hv => (by cases hv), fun e f hf => (by cases hf), fun p e hp _ => (by cases hp)⟩ p hp e he

end Cfdp.Loop

open Cfdp.Loop in
#print axioms C07_eof
#print axioms Cfdp.Send.C07_data
#print axioms Cfdp.Send.C07_nak_queue
