import Cfdp.Gen.RecvFrames
import Cfdp.Gen.SendFrames
import Cfdp.Model.Loop

/-!
# C17 — limit faults fire after exactly the configured expirations; the configured handler runs
-/
namespace Cfdp.Timer

/-! ### the counter -/

theorem updateLoop_fields (fuel now : Nat) (c : Counter) :
    (updateLoop fuel now c).timeout = c.timeout ∧ (updateLoop fuel now c).max = c.max ∧
    (updateLoop fuel now c).base = c.base ∧ (updateLoop fuel now c).paused = c.paused := by
  induction fuel generalizing c with
  | zero => exact ⟨rfl, rfl, rfl, rfl⟩
  | succ f ih =>
    simp only [updateLoop]
    split
    · exact ih _
    · exact ⟨rfl, rfl, rfl, rfl⟩

/-- the closed form of `Counter::update` for a running counter: `k = (now - start) / timeout` full
periods have elapsed; the count grows by `k` (saturating at the limit), the start moves `k` periods on -/
theorem updateLoop_closed (fuel now : Nat) (c : Counter) (hT : 0 < c.timeout) (hc : c.count ≤ c.max)
    (hf : (now - c.start) / c.timeout < fuel) :
    (updateLoop fuel now c).count = min (c.count + (now - c.start) / c.timeout) c.max ∧
    (updateLoop fuel now c).start = c.start + ((now - c.start) / c.timeout) * c.timeout ∧
    (updateLoop fuel now c).occurred = (c.occurred || decide (0 < (now - c.start) / c.timeout)) := by
  induction fuel generalizing c with
  | zero => exact absurd hf (Nat.not_lt_zero _)
  | succ f ih =>
    simp only [updateLoop]
    split
    · rename_i hge
      have hdiv : (now - c.start) / c.timeout = (now - c.start - c.timeout) / c.timeout + 1 :=
        Nat.div_eq_sub_div hT hge
      have hsub : now - (c.start + c.timeout) = now - c.start - c.timeout := by omega
      have := ih { c with count := min (c.count + 1) c.max, start := c.start + c.timeout, occurred := true }
        hT (Nat.min_le_right _ _) (by simp only [hsub]; omega)
      simp only [hsub] at this
      obtain ⟨t1, t2, t3⟩ := this
      rw [hdiv]
      generalize (now - c.start - c.timeout) / c.timeout = q at t1 t2 t3
      refine ⟨?_, ?_, ?_⟩
      · rw [t1]; omega
      · rw [t2, Nat.add_mul, Nat.one_mul]; omega
      · rw [t3]; simp
    · rename_i hlt
      have : (now - c.start) / c.timeout = 0 := Nat.div_eq_of_lt (by omega)
      simp only [this, Nat.add_zero, Nat.zero_mul, Nat.lt_irrefl, decide_false, Bool.or_false, and_true]
      omega

/-- `base + count · timeout ≤ start ≤ now`: every expiration counted since the count last started
from zero (at clock reading `base`) stands for one full timeout that has really elapsed -/
def CInv (c : Counter) (now : Nat) : Prop := c.base + c.count * c.timeout ≤ c.start ∧ c.start ≤ now

theorem cinv_mono {c : Counter} {now now' : Nat} (h : CInv c now) (hle : now ≤ now') : CInv c now' :=
  ⟨h.1, Nat.le_trans h.2 hle⟩

theorem cinv_updateLoop (fuel now : Nat) (c : Counter) (h : CInv c now) : CInv (updateLoop fuel now c) now := by
  induction fuel generalizing c with
  | zero => exact h
  | succ f ih =>
    simp only [updateLoop]
    split
    · rename_i hge
      apply ih
      obtain ⟨h1, h2⟩ := h
      refine ⟨?_, ?_⟩
      · show c.base + min (c.count + 1) c.max * c.timeout ≤ c.start + c.timeout
        have : min (c.count + 1) c.max * c.timeout ≤ (c.count + 1) * c.timeout :=
          Nat.mul_le_mul_right _ (Nat.min_le_left _ _)
        rw [Nat.add_mul] at this
        omega
      · show c.start + c.timeout ≤ now
        omega
    · exact h

theorem cinv_update {c : Counter} {now : Nat} (h : CInv c now) : CInv (c.update now) now := by
  simp only [Counter.update]
  split
  · exact h
  · exact cinv_updateLoop _ _ _ h

theorem cinv_pause {c : Counter} {now : Nat} (h : CInv c now) : CInv (c.pause now) now := cinv_update h

theorem cinv_reset (c : Counter) (now : Nat) : CInv (c.reset now) now := by
  simp [CInv, Counter.reset]

theorem cinv_restart {c : Counter} {now : Nat} (h : CInv c now) : CInv (c.restart now) now := by
  have hu := cinv_update h
  simp only [CInv, Counter.restart]
  refine ⟨?_, Nat.le_refl _⟩
  split
  · rename_i h0
    have : (c.update now).count = 0 := by simpa using h0
    simp [this]
  · exact Nat.le_trans hu.1 hu.2

theorem cinv_limitReached {c : Counter} {now : Nat} (h : CInv c now) : CInv (c.limitReached now).1 now := cinv_update h
theorem cinv_timeoutOccurred {c : Counter} {now : Nat} (h : CInv c now) : CInv (c.timeoutOccurred now).1 now := cinv_update h
theorem cinv_new (t m now : Nat) : CInv (Counter.new t m now) now := by simp [CInv, Counter.new]

/-- **C17 (never early), counter level.** Whenever `limit_reached` answers true, at least `max`
full timeouts have elapsed on the clock since the count last started from zero. -/
theorem C17_limit_not_early {c : Counter} {now : Nat} (h : CInv c now) (hl : (c.limitReached now).2 = true) :
    (c.limitReached now).1.base + c.max * c.timeout ≤ now := by
  have hu := cinv_update h
  simp only [Counter.limitReached] at hl ⊢
  have hc : (c.update now).count = (c.update now).max := by simpa using hl
  have hf : (c.update now).max = c.max ∧ (c.update now).timeout = c.timeout := by
    simp only [Counter.update]
    split
    · exact ⟨rfl, rfl⟩
    · exact ⟨(updateLoop_fields _ _ _).2.1, (updateLoop_fields _ _ _).1⟩
  obtain ⟨h1, h2⟩ := hu
  rw [hc, hf.1, hf.2] at h1
  omega

/-- the operations the transactions apply to a counter -/
inductive COp where
  | update | restart | reset | pause | limit | occurred

def COp.apply (o : COp) (c : Counter) (now : Nat) : Counter :=
  match o with
  | .update => c.update now
  | .restart => c.restart now
  | .reset => c.reset now
  | .pause => c.pause now
  | .limit => (c.limitReached now).1
  | .occurred => (c.timeoutOccurred now).1

/-- run a history of (clock reading, operation) pairs -/
def runOps : Counter → List (Nat × COp) → Counter
  | c, [] => c
  | c, (now, o) :: rest => runOps (o.apply c now) rest

/-- clock readings never go back -/
def Mono : Nat → List (Nat × COp) → Prop
  | _, [] => True
  | t, (now, _) :: rest => t ≤ now ∧ Mono now rest

def lastTime : Nat → List (Nat × COp) → Nat
  | t, [] => t
  | _, (now, _) :: rest => lastTime now rest

theorem cinv_runOps (c : Counter) (t : Nat) (ops : List (Nat × COp)) (h : CInv c t) (hm : Mono t ops) :
    CInv (runOps c ops) (lastTime t ops) := by
  induction ops generalizing c t with
  | nil => exact h
  | cons x rest ih =>
    obtain ⟨now, o⟩ := x
    obtain ⟨h1, h2⟩ := hm
    have h' := cinv_mono h h1
    apply ih _ _ _ h2
    cases o
    · exact cinv_update h'
    · exact cinv_restart h'
    · exact cinv_reset _ _
    · exact cinv_pause h'
    · exact cinv_limitReached h'
    · exact cinv_timeoutOccurred h'

/-- **C17 (never early), all histories of one counter.** From a fresh counter, after any sequence of
updates, restarts, resets, pauses and queries at non-decreasing clock readings: if the limit is then
reported reached at time `now`, the clock has advanced by at least `max · timeout` since the count
last started from zero. -/
theorem C17_counter_history (t m t0 : Nat) (ops : List (Nat × COp)) (hm : Mono t0 ops) (now : Nat)
    (hnow : lastTime t0 ops ≤ now) (hl : ((runOps (Counter.new t m t0) ops).limitReached now).2 = true) :
    ((runOps (Counter.new t m t0) ops).limitReached now).1.base + (runOps (Counter.new t m t0) ops).max *
      (runOps (Counter.new t m t0) ops).timeout ≤ now :=
  C17_limit_not_early (cinv_mono (cinv_runOps _ _ _ (cinv_new t m t0) hm) hnow) hl

end Cfdp.Timer

/-! ### the configured handler runs -/
namespace Cfdp.Recv
open Cfdp.Codec Cfdp.Gen Cfdp.Timer

/-- no handler configured for the condition: cancel -/
theorem C17_recv_default_cancel (s : State) (c : Condition) (h : s.cfg.fho.find? (fun e => e.1 == c) = none) :
    handlerFor s c = .Cancel := by
  simp only [handlerFor, h]

/-- **C17 (receiver, handler).** A declared fault records the condition, tells the user with the
current progress and then does exactly what is configured: ignore = carry on (`true`), cancel,
suspend, abandon = stop (`false`). -/
theorem C17_recv_handler (s : State) (c : Condition) (now : Nat) :
    let t := emit { s with condition := c } (.fault c s.received)
    (handlerFor s c = .Ignore → handleFault s c now = (t, true)) ∧
    (handlerFor s c = .Cancel → handleFault s c now = (cancelInner t now, false)) ∧
    (handlerFor s c = .Suspend → handleFault s c now = (suspend t now, false)) ∧
    (handlerFor s c = .Abandon → handleFault s c now = (abandon t now, false)) := by
  have hh : ∀ i, handlerFor (emit { s with condition := c } i) c = handlerFor s c := fun _ => rfl
  refine ⟨?_, ?_, ?_, ?_⟩ <;> intro h <;>
    simp only [handleFault, dispatchFault, getProgress, hh, h]

/-- abandon stops at once: Terminated, nothing transmitted, nothing left to transmit for the loop -/
theorem C17_recv_abandon (s : State) (now : Nat) :
    (abandon s now).state = .Terminated ∧ (abandon s now).sent = s.sent ∧
    (abandon s now).out = s.out ++ [.abandon s.condition s.received] := by
  simp only [abandon, shutdown, emit, getProgress, and_self]

/-- suspend suspends -/
theorem C17_recv_suspend (s : State) (now : Nat) : (suspend s now).state = .Suspended ∧ (suspend s now).sent = s.sent := by
  simp only [suspend, emit, and_self]

/-- progress resets the inactivity count: any PDU -/
theorem C17_recv_progress_resets (s : State) (p : Pdu) (now : Nat) :
    (pduArrived s now).timer.inactivity.count = 0 ∧ (pduArrived s now).timer.inactivity.base = now ∧
    (pduArrived s now).timer.inactivity.start = now := by
  simp only [pduArrived, Counter.reset, and_self]

/-- … and the NAK count: new data since the last NAK resets it, no new data counts an expiration -/
theorem C17_recv_nak_progress (s : State) (now : Nat) (h : s.nakReceived ≠ s.received) :
    (sendNaksTimer s now).1.timer.nak.count = 0 ∧ (sendNaksTimer s now).2 = false := by
  have : (s.nakReceived == s.received) = false := by simpa using h
  simp only [sendNaksTimer, this, Bool.false_eq_true, if_false, Counter.reset, and_self]

/-- one Finished retransmission per expiry of the positive-ACK timer, no fault before the limit -/
theorem C17_recv_ack_expiry (s : State) (now : Nat) (b : Bool)
    (hl : (s.timer.ack.limitReached now).2 = false)
    (ho : ((s.timer.ack.limitReached now).1.timeoutOccurred now).2 = true) :
    (handleAckTimer s now b).out = s.out ∧
    (handleAckTimer s now b).finished = (setFinishedFlag s true).finished ∧
    (handleAckTimer s now b).timer.ack.occurred = false := by
  simp only [handleAckTimer, hl, ho, Bool.false_eq_true, if_false, if_true]
  refine ⟨?_, ?_, ?_⟩
  · simp only [setFinishedFlag]; split <;> rfl
  · simp only [setFinishedFlag]; split <;> simp_all
  · simp only [Counter.restart]

end Cfdp.Recv

namespace Cfdp.Send
open Cfdp.Codec Cfdp.Gen Cfdp.Timer

theorem C17_send_default_cancel (s : State) (c : Condition) (h : s.cfg.fho.find? (fun e => e.1 == c) = none) :
    handlerFor s c = .Cancel := by
  simp only [handlerFor, h]

/-- **C17 (sender, handler).** -/
theorem C17_send_handler (s : State) (c : Condition) (now : Nat) :
    let t := emit { s with condition := c } (.fault c s.progress)
    (handlerFor s c = .Ignore → handleFault s c now = t) ∧
    (handlerFor s c = .Cancel → handleFault s c now = cancelInner t c now) ∧
    (handlerFor s c = .Suspend → handleFault s c now = suspend t now) ∧
    (handlerFor s c = .Abandon → handleFault s c now = abandon t now) := by
  have hh : ∀ i, handlerFor (emit { s with condition := c } i) c = handlerFor s c := fun _ => rfl
  refine ⟨?_, ?_, ?_, ?_⟩ <;> intro h <;>
    simp only [handleFault, getProgress, hh, h]

theorem C17_send_abandon (s : State) (now : Nat) :
    (abandon s now).state = .Terminated ∧ (abandon s now).sent = s.sent ∧
    (abandon s now).out = s.out ++ [.abandon s.condition s.progress] := by
  simp only [abandon, shutdown, emit, getProgress, and_self]

/-- one EOF retransmission per expiry of the positive-ACK timer, the fault only at the limit -/
theorem C17_send_ack_expiry (s : State) (now : Nat) (b : Bool)
    (ho : (s.timer.ack.timeoutOccurred now).2 = true)
    (hl : ((s.timer.ack.timeoutOccurred now).1.limitReached now).2 = false) :
    (handleAckTimer s now b).out = s.out ∧ (handleAckTimer s now b).eof = (setEofFlag s true).eof := by
  simp only [handleAckTimer, ho, hl, if_true, Bool.false_eq_true, if_false]
  refine ⟨?_, ?_⟩
  · simp only [setEofFlag]; split <;> rfl
  · simp only [setEofFlag]; split <;> simp_all

/-- …and no expiry, nothing happens -/
theorem C17_send_ack_quiet (s : State) (now : Nat) (b : Bool)
    (ho : (s.timer.ack.timeoutOccurred now).2 = false) :
    (handleAckTimer s now b).out = s.out ∧ (handleAckTimer s now b).eof = s.eof ∧
    (handleAckTimer s now b).state = s.state := by
  simp only [handleAckTimer, ho, Bool.false_eq_true, if_false, and_self]

/-- transmitting the EOF re-arms the timer (so the next retransmission needs a further expiry) and
keeps the count of unanswered expirations -/
theorem C17_send_eof_rearms (s : State) (e : Eof) (now : Nat) (h : s.eof = some (e, true)) :
    (sendEof s now).timer.ack = s.timer.ack.restart now ∧ (sendEof s now).eof = some (e, false) := by
  have h1 : ∀ t : State, ∀ p, (sendPayload t p).timer = t.timer ∧ (sendPayload t p).eof = t.eof := by
    intro t p
    simp only [sendPayload, getHeader]
    split <;> exact ⟨rfl, rfl⟩
  simp only [sendEof, h, setEofFlag]
  rw [(h1 _ _).2]
  simp only [h, (h1 _ _).1, and_self]

/-- a counter that was just reset has nothing to catch up on -/
theorem update_reset (c : Counter) (now : Nat) (ht : 0 < c.timeout) : (c.reset now).update now = c.reset now := by
  simp only [Counter.update, Counter.reset, Bool.false_eq_true, if_false, Nat.sub_self, Nat.zero_add, updateLoop]
  rw [if_neg (by omega)]

/-- a PDU from the receiver is progress: the inactivity count starts again from zero (and the
timer of a suspended transaction stays stopped) -/
theorem C17_send_progress_resets (s : State) (now : Nat) (h : s.sendState = .SendEof)
    (ht : 0 < s.timer.inactivity.timeout) :
    (pduArrived s now).timer.inactivity.count = 0 ∧ (pduArrived s now).timer.inactivity.base = now ∧
    (s.state = .Suspended → (pduArrived s now).timer.inactivity.paused = true) := by
  simp only [pduArrived, h, beq_self_eq_true, if_true]
  split
  · simp only [Counter.pause, update_reset _ _ ht]
    exact ⟨rfl, rfl, fun _ => trivial⟩
  · rename_i hs
    refine ⟨rfl, rfl, fun hh => ?_⟩
    rw [hh] at hs
    exact absurd rfl hs

end Cfdp.Send

/-! ### never early, over all histories of a transaction -/
namespace Cfdp.Timer

/-- all three counters of a transaction satisfy `CInv` -/
structure TI (t : Timer) (now : Nat) : Prop where
  ack : CInv t.ack now
  inactivity : CInv t.inactivity now
  nak : CInv t.nak now

theorem ti_mono {t : Timer} {now now' : Nat} (h : TI t now) (hle : now ≤ now') : TI t now' :=
  ⟨cinv_mono h.ack hle, cinv_mono h.inactivity hle, cinv_mono h.nak hle⟩

theorem ti_new (a b c d e f now : Nat) : TI (Timer.new a b c d e f now) now :=
  ⟨cinv_new _ _ _, cinv_new _ _ _, cinv_new _ _ _⟩

/-- close a goal `CInv c now` where `c` is built from counters known to satisfy `CInv` by counter operations -/
syntax "cinv_auto" : tactic
macro_rules
  | `(tactic| cinv_auto) => `(tactic|
      repeat' (first
        | assumption
        | exact cinv_reset _ _
        | exact cinv_new _ _ _
        | apply cinv_restart
        | apply cinv_pause
        | apply cinv_update
        | apply cinv_limitReached
        | apply cinv_timeoutOccurred))

end Cfdp.Timer

namespace Cfdp.Send
open Cfdp.Codec Cfdp.Gen Cfdp.Timer

/-- prove `TI (f s now).timer now` from `h : TI s.timer now` after unfolding `f`: reduce record
projections, rewrite with the timer frame lemmas, use the lemmas `ls` for the functions `f` calls,
split a literal timer into its counters and discharge those with the counter lemmas -/
syntax "ti_go" "[" term,* "]" : tactic
macro_rules
  | `(tactic| ti_go [$ls,*]) => `(tactic|
      (repeat' (first
        | assumption
        | exact cinv_reset _ _
        | dsimp only
        | sframes_timer
        $[| apply $ls]*
        | (refine ⟨?_, ?_, ?_⟩ <;> dsimp only)
        | apply cinv_restart
        | apply cinv_pause
        | apply cinv_update
        | apply cinv_limitReached
        | apply cinv_timeoutOccurred
        | apply TI.ack
        | apply TI.inactivity
        | apply TI.nak)) <;> done)

variable {s : State} {now : Nat}

theorem ti_prepareEof (h : TI s.timer now) (f : Option VarId) : TI (prepareEof s f now).timer now := by
  have : (prepareEof s f now).timer = { s.timer with ack := (s.timer.ack.reset now).pause now } := by
    simp only [prepareEof, getChecksum, openHandle]
    repeat' split
    all_goals rfl
  rw [this]
  ti_go []

theorem ti_sendEof (h : TI s.timer now) : TI (sendEof s now).timer now := by
  simp only [sendEof]
  repeat' split
  all_goals ti_go []

theorem ti_shutdown (h : TI s.timer now) : TI (shutdown s now).timer now := by
  simp only [shutdown]
  ti_go []

theorem ti_popNak (h : TI s.timer now) : TI (popNak s now).timer now := by
  simp only [popNak]
  repeat' split
  all_goals ti_go []

theorem ti_abandon (h : TI s.timer now) : TI (abandon s now).timer now := by
  simp only [abandon]
  ti_go [ti_shutdown]

theorem ti_cancelInner (h : TI s.timer now) (c : Condition) : TI (cancelInner s c now).timer now := by
  simp only [cancelInner]
  ti_go [ti_prepareEof]

theorem ti_suspend (h : TI s.timer now) : TI (suspend s now).timer now := by
  simp only [suspend]
  ti_go []

theorem ti_resume (h : TI s.timer now) : TI (resume s now).timer now := by
  simp only [resume]
  repeat' split
  all_goals ti_go []

theorem ti_handleFault (h : TI s.timer now) (c : Condition) : TI (handleFault s c now).timer now := by
  simp only [handleFault]
  repeat' split
  all_goals ti_go [ti_cancelInner, ti_suspend, ti_abandon]

theorem ti_sendMissingData (h : TI s.timer now) : TI (sendMissingData s now).timer now := by
  simp only [sendMissingData]
  repeat' split
  all_goals ti_go [ti_popNak]

theorem ti_sendPdu (h : TI s.timer now) : TI (sendPdu s now).timer now := by
  simp only [sendPdu, sendPduMetadata, sendPduData, afterData, sendPduEof, sendAck]
  repeat' split
  all_goals ti_go [ti_prepareEof, ti_sendMissingData, ti_sendEof, ti_shutdown]

theorem ti_handleInactivity (h : TI s.timer now) (b : Bool) : TI (handleInactivity s now b).timer now := by
  simp only [handleInactivity]
  repeat' split
  all_goals ti_go [ti_abandon, ti_handleFault]

theorem ti_handleAckTimer (h : TI s.timer now) (b : Bool) : TI (handleAckTimer s now b).timer now := by
  simp only [handleAckTimer]
  repeat' split
  all_goals ti_go [ti_abandon, ti_handleFault]

theorem ti_handleTimeout (h : TI s.timer now) : TI (handleTimeout s now).timer now := by
  simp only [handleTimeout]
  repeat' split
  all_goals ti_go [ti_handleAckTimer, ti_handleInactivity]

theorem ti_processPdu (h : TI s.timer now) (p : Pdu) : TI (processPdu s p now).1.timer now := by
  simp only [processPdu, processPduBody, pduArrived]
  repeat' split
  all_goals ti_go [ti_shutdown]

end Cfdp.Send

namespace Cfdp.Recv
open Cfdp.Codec Cfdp.Gen Cfdp.Timer

syntax "ti_gor" "[" term,* "]" : tactic
macro_rules
  | `(tactic| ti_gor [$ls,*]) => `(tactic|
      (repeat' (first
        | assumption
        | exact cinv_reset _ _
        | dsimp only
        | rframes_timer
        $[| apply $ls]*
        | (refine ⟨?_, ?_, ?_⟩ <;> dsimp only)
        | apply cinv_restart
        | apply cinv_pause
        | apply cinv_update
        | apply cinv_limitReached
        | apply cinv_timeoutOccurred
        | apply TI.ack
        | apply TI.inactivity
        | apply TI.nak)) <;> done)

variable {s : State} {now : Nat}

theorem ti_shutdown (h : TI s.timer now) : TI (shutdown s now).timer now := by
  simp only [shutdown]; ti_gor []
theorem ti_abandon (h : TI s.timer now) : TI (abandon s now).timer now := by
  simp only [abandon]; ti_gor [ti_shutdown]
theorem ti_cancelInner (h : TI s.timer now) : TI (cancelInner s now).timer now := by
  simp only [cancelInner]
  repeat' split
  all_goals ti_gor [ti_shutdown]
theorem ti_suspend (h : TI s.timer now) : TI (suspend s now).timer now := by
  simp only [suspend]; ti_gor []
theorem ti_resume (h : TI s.timer now) : TI (resume s now).timer now := by
  simp only [resume]
  repeat' split
  all_goals ti_gor []
theorem ti_handleFault (h : TI s.timer now) (c : Condition) : TI (handleFault s c now).1.timer now := by
  simp only [handleFault, dispatchFault]
  repeat' split
  all_goals ti_gor [ti_cancelInner, ti_suspend, ti_abandon]
theorem ti_checkFileSize (h : TI s.timer now) (n : Nat) : TI (checkFileSize s n now).timer now := by
  simp only [checkFileSize]
  repeat' split
  all_goals ti_gor [ti_handleFault]
theorem ti_sendFinished (h : TI s.timer now) : TI (sendFinished s now).timer now := by
  simp only [sendFinished]
  repeat' split
  all_goals ti_gor []
theorem ti_sendNaksTimer (h : TI s.timer now) : TI (sendNaksTimer s now).1.timer now := by
  simp only [sendNaksTimer]
  repeat' split
  all_goals ti_gor [ti_handleFault]
theorem ti_sendNaks (h : TI s.timer now) : TI (sendNaks s now).timer now := by
  simp only [sendNaks]
  repeat' split
  all_goals ti_gor [ti_sendNaksTimer]
theorem ti_sendPdu (h : TI s.timer now) : TI (sendPdu s now).timer now := by
  simp only [sendPdu, answerPrompt]
  repeat' split
  all_goals ti_gor [ti_sendNaks, ti_sendFinished]
theorem ti_finalizeFilePart (h : TI s.timer now) : TI (finalizeFilePart s now).1.timer now := by
  simp only [finalizeFilePart, verifyStage, copyStage]
  repeat' split
  all_goals ti_gor [ti_handleFault]
theorem ti_finalizeReceive (h : TI s.timer now) : TI (finalizeReceive s now).1.timer now := by
  simp only [finalizeReceive]
  repeat' split
  all_goals ti_gor [ti_handleFault, ti_finalizeFilePart]
theorem ti_checkFinished (h : TI s.timer now) : TI (checkFinished s now).timer now := by
  simp only [checkFinished]
  repeat' split
  all_goals ti_gor [ti_finalizeReceive]
theorem ti_immediateNak (h : TI s.timer now) (a b : Nat) : TI (immediateNak s a b now).timer now := by
  simp only [immediateNak]
  repeat' split
  all_goals ti_gor []
theorem ti_ackFileData (h : TI s.timer now) (off : Nat) (d : Bytes) : TI (ackFileData s off d now).timer now := by
  simp only [ackFileData]
  ti_gor [ti_checkFinished, ti_immediateNak]
theorem ti_ackEof (h : TI s.timer now) (e : Eof) : TI (ackEof s e now).timer now := by
  simp only [ackEof]
  repeat' split
  all_goals ti_gor [ti_checkFinished, ti_checkFileSize, ti_cancelInner]
theorem ti_unackFinish (h : TI s.timer now) : TI (unackFinish s now).timer now := by
  simp only [unackFinish]
  repeat' split
  all_goals ti_gor [ti_finalizeReceive, ti_shutdown]
theorem ti_unackEof (h : TI s.timer now) (e : Eof) : TI (unackEof s e now).timer now := by
  simp only [unackEof, unackEofNoError, unackComplete, unackCheckMissing]
  repeat' split
  all_goals ti_gor [ti_unackFinish, ti_handleFault, ti_checkFileSize, ti_cancelInner]
theorem ti_pduArrived (h : TI s.timer now) : TI (pduArrived s now).timer now := by
  simp only [pduArrived]; ti_gor []
theorem ti_processPdu (h : TI s.timer now) (p : Pdu) : TI (processPdu s p now).1.timer now := by
  have h0 := ti_pduArrived h
  simp only [processPdu]
  generalize pduArrived s now = t at h0
  simp only [processPduBody]
  cases hpl : p.payload <;> cases hm : t.cfg.mode <;> dsimp only
  all_goals (repeat' split)
  all_goals ti_gor [ti_ackFileData, ti_ackEof, ti_unackEof, ti_checkFinished, ti_shutdown]
theorem ti_handleInactivity (h : TI s.timer now) : TI (handleInactivity s now).1.timer now := by
  simp only [handleInactivity]
  repeat' split
  all_goals ti_gor [ti_abandon, ti_handleFault]
theorem ti_handleAckTimer (h : TI s.timer now) (b : Bool) : TI (handleAckTimer s now b).timer now := by
  simp only [handleAckTimer]
  repeat' split
  all_goals ti_gor [ti_abandon, ti_handleFault, ti_shutdown]
theorem ti_handleTimeoutMain (h : TI s.timer now) : TI (handleTimeoutMain s now).timer now := by
  have h1 : TI (handleInactivity (handleDelayed s now) now).1.timer now :=
    ti_handleInactivity (by rw [timer_handleDelayed]; exact h)
  simp only [handleTimeoutMain]
  generalize (handleInactivity (handleDelayed s now) now) = r at h1
  repeat' split
  all_goals first
    | exact h
    | exact h1
    | (apply ti_handleAckTimer; ti_gor [])
    | ti_gor []


theorem ti_handleTimeout (h : TI s.timer now) : TI (handleTimeout s now).timer now := by
  simp only [handleTimeout, unackFinishedLimit]
  repeat' split
  all_goals ti_gor [ti_shutdown, ti_handleTimeoutMain]

end Cfdp.Recv

/-! ### a limit fault is never declared early -/
namespace Cfdp.Send
open Cfdp.Codec Cfdp.Gen Cfdp.Timer

/-- **C17 (sender, positive-ACK limit).** If the ACK-timer part of `handle_timeout` tells the user
anything (the PositiveLimitReached fault, or Abandon in the cancelled phase), at least `max` full
timeouts have elapsed since the expiration count last started from zero — i.e. since the EOF this
count belongs to was first transmitted (`prepare_eof` resets the count, the first `send_eof`
restarts the timer with the count still at zero). -/
theorem C17_send_ack_not_early (s : State) (now : Nat) (b : Bool) (h : TI s.timer now)
    (hout : (handleAckTimer s now b).out ≠ s.out) :
    ((s.timer.ack.timeoutOccurred now).1.limitReached now).1.base +
      (s.timer.ack.timeoutOccurred now).1.max * (s.timer.ack.timeoutOccurred now).1.timeout ≤ now := by
  have hc : CInv (s.timer.ack.timeoutOccurred now).1 now := cinv_timeoutOccurred h.ack
  cases hl : ((s.timer.ack.timeoutOccurred now).1.limitReached now).2 with
  | true => exact C17_limit_not_early hc hl
  | false =>
    exfalso; apply hout
    simp only [handleAckTimer, hl]
    repeat' split
    all_goals first
      | rfl
      | (simp only [out_setEofFlag])
      | contradiction

/-- **C17 (sender, inactivity limit).** -/
theorem C17_send_inactivity_not_early (s : State) (now : Nat) (b : Bool) (h : TI s.timer now)
    (hout : (handleInactivity s now b).out ≠ s.out) :
    (s.timer.inactivity.limitReached now).1.base + s.timer.inactivity.max * s.timer.inactivity.timeout ≤ now := by
  cases hl : (s.timer.inactivity.limitReached now).2 with
  | true => exact C17_limit_not_early h.inactivity hl
  | false =>
    exfalso; apply hout
    simp only [handleInactivity, hl, Bool.false_eq_true, if_false]

end Cfdp.Send

namespace Cfdp.Recv
open Cfdp.Codec Cfdp.Gen Cfdp.Timer

/-- **C17 (receiver, positive-ACK limit for the Finished PDU).** -/
theorem C17_recv_ack_not_early (s : State) (now : Nat) (b : Bool) (h : TI s.timer now)
    (hout : (handleAckTimer s now b).out ≠ s.out) :
    (s.timer.ack.limitReached now).1.base + s.timer.ack.max * s.timer.ack.timeout ≤ now := by
  cases hl : (s.timer.ack.limitReached now).2 with
  | true => exact C17_limit_not_early h.ack hl
  | false =>
    exfalso; apply hout
    simp only [handleAckTimer, hl, Bool.false_eq_true, if_false]
    repeat' split
    all_goals first
      | rfl
      | (simp only [out_setFinishedFlag])

/-- **C17 (receiver, inactivity limit).** -/
theorem C17_recv_inactivity_not_early (s : State) (now : Nat) (h : TI s.timer now)
    (hout : (handleInactivity s now).1.out ≠ s.out) :
    (s.timer.inactivity.limitReached now).1.base + s.timer.inactivity.max * s.timer.inactivity.timeout ≤ now := by
  cases hl : (s.timer.inactivity.limitReached now).2 with
  | true => exact C17_limit_not_early h.inactivity hl
  | false =>
    exfalso; apply hout
    simp only [handleInactivity, hl, Bool.false_eq_true, if_false]
    repeat' split
    all_goals rfl

/-- **C17 (receiver, NAK limit).** The NakLimitReached fault is only declared by `send_naks` when no
new data arrived since the previous NAK and the count of such expirations has reached the limit. -/
theorem C17_recv_nak_not_early (s : State) (now : Nat) (h : TI s.timer now)
    (hout : (sendNaksTimer s now).1.out ≠ s.out) :
    s.nakReceived = s.received ∧
    (s.timer.nak.limitReached now).1.base + s.timer.nak.max * s.timer.nak.timeout ≤ now := by
  by_cases hp : s.nakReceived = s.received
  · refine ⟨hp, ?_⟩
    cases hl : (s.timer.nak.limitReached now).2 with
    | true => exact C17_limit_not_early h.nak hl
    | false =>
      exfalso; apply hout
      simp only [sendNaksTimer, hp, beq_self_eq_true, if_true, hl, Bool.false_eq_true, if_false]
  · exfalso; apply hout
    have : (s.nakReceived == s.received) = false := by simpa using hp
    simp only [sendNaksTimer, this, Bool.false_eq_true, if_false]

end Cfdp.Recv

namespace Cfdp.Loop
open Cfdp.Codec Cfdp.Gen Cfdp.Timer

theorem ti_sendStep {s : Send.State} {t now : Nat} (h : TI s.timer t) (hle : t ≤ now) (e : Ev) :
    TI (sendStep s now e).timer now := by
  have h0 : TI ({ s with sent := none, out := [] } : Send.State).timer now := ti_mono h hle
  simp only [sendStep]
  repeat' split
  all_goals first
    | exact h0
    | exact Send.ti_processPdu h0 _
    | exact Send.ti_sendPdu h0
    | exact Send.ti_handleTimeout h0
    | exact Send.ti_cancelInner h0 _
    | exact Send.ti_suspend h0
    | exact Send.ti_resume h0
    | exact Send.ti_shutdown h0
    | (simp only [Send.timer_sendReport, Send.timer_preparePrompt]; exact h0)

theorem ti_recvStep {s : Recv.State} {t now : Nat} (h : TI s.timer t) (hle : t ≤ now) (e : Ev) :
    TI (recvStep s now e).timer now := by
  have h0 : TI ({ s with sent := none, out := [] } : Recv.State).timer now := ti_mono h hle
  simp only [recvStep]
  repeat' split
  all_goals first
    | exact h0
    | exact Recv.ti_processPdu h0 _
    | exact Recv.ti_sendPdu h0
    | exact Recv.ti_handleTimeout h0
    | (simp only [Recv.cancel]; apply Recv.ti_cancelInner; exact h0)
    | exact Recv.ti_suspend h0
    | exact Recv.ti_resume h0
    | exact Recv.ti_shutdown h0
    | (simp only [Recv.timer_sendReport]; exact h0)

/-- the clock readings of a history never go back -/
def MonoT : Nat → List (Nat × Ev) → Prop
  | _, [] => True
  | t, (now, _) :: rest => t ≤ now ∧ MonoT now rest

def lastT : Nat → List (Nat × Ev) → Nat
  | t, [] => t
  | _, (now, _) :: rest => lastT now rest

/-- **C17 (all histories, sender).** After every history of loop events at non-decreasing clock
readings every counter of the transaction satisfies `base + count · timeout ≤ start ≤ now`, the
premise of the `…_not_early` theorems: each counted expiration is one full timeout really elapsed. -/
theorem C17_send_timers (cfg : Send.Config) (md : Send.Meta) (file : Bytes) (t0 : Nat) (evs : List (Nat × Ev))
    (hm : MonoT t0 evs) : TI (sendRun (Send.new cfg md file t0) evs).1.timer (lastT t0 evs) := by
  have key : ∀ (evs : List (Nat × Ev)) (s : Send.State) (t : Nat), TI s.timer t → MonoT t evs →
      TI (sendRun s evs).1.timer (lastT t evs) := by
    intro evs
    induction evs with
    | nil => intro s t h _; exact h
    | cons x rest ih =>
      intro s t h hm
      obtain ⟨now, e⟩ := x
      exact ih _ _ (ti_sendStep h hm.1 e) hm.2
  exact key evs _ t0 (by simp only [Send.new, Send.emit]; exact ti_new _ _ _ _ _ _ _) hm

/-- **C17 (all histories, receiver).** -/
theorem C17_recv_timers (cfg : Recv.Config) (fs : Fs.FS) (t0 : Nat) (evs : List (Nat × Ev))
    (hm : MonoT t0 evs) : TI (recvRun (Recv.new cfg fs t0) evs).1.timer (lastT t0 evs) := by
  have key : ∀ (evs : List (Nat × Ev)) (s : Recv.State) (t : Nat), TI s.timer t → MonoT t evs →
      TI (recvRun s evs).1.timer (lastT t evs) := by
    intro evs
    induction evs with
    | nil => intro s t h _; exact h
    | cons x rest ih =>
      intro s t h hm
      obtain ⟨now, e⟩ := x
      exact ih _ _ (ti_recvStep h hm.1 e) hm.2
  refine key evs _ t0 ?_ hm
  have := ti_new cfg.ti cfg.max cfg.ta cfg.max cfg.tn cfg.max t0
  simp only [Recv.new]
  exact ⟨this.ack, cinv_restart this.inactivity, this.nak⟩

end Cfdp.Loop

#print axioms Cfdp.Timer.updateLoop_closed
#print axioms Cfdp.Timer.C17_limit_not_early
#print axioms Cfdp.Timer.C17_counter_history
#print axioms Cfdp.Recv.C17_recv_handler
#print axioms Cfdp.Recv.C17_recv_default_cancel
#print axioms Cfdp.Recv.C17_recv_abandon
#print axioms Cfdp.Recv.C17_recv_progress_resets
#print axioms Cfdp.Recv.C17_recv_nak_progress
#print axioms Cfdp.Recv.C17_recv_ack_expiry
#print axioms Cfdp.Send.C17_send_handler
#print axioms Cfdp.Send.C17_send_default_cancel
#print axioms Cfdp.Send.C17_send_abandon
#print axioms Cfdp.Send.C17_send_ack_expiry
#print axioms Cfdp.Send.C17_send_eof_rearms
#print axioms Cfdp.Send.C17_send_progress_resets
#print axioms Cfdp.Send.C17_send_ack_not_early
#print axioms Cfdp.Send.C17_send_inactivity_not_early
#print axioms Cfdp.Recv.C17_recv_ack_not_early
#print axioms Cfdp.Recv.C17_recv_inactivity_not_early
#print axioms Cfdp.Recv.C17_recv_nak_not_early
#print axioms Cfdp.Loop.C17_send_timers
#print axioms Cfdp.Loop.C17_recv_timers
