import Cfdp.Model.Segments
import Cfdp.Model.Checksum
import Cfdp.Model.Path
import Cfdp.Model.Codec.Pdu
import Cfdp.Model.Udp

/-!
Line-protocol driver: executes the model's definitions on the op lines produced by the Rust
harness and prints one canonical answer per line.  `/verif/check` diffs these answers against
the implementation's answers.
-/
open Cfdp

structure DState where
  segs : List Seg.Seg := []
  udpBuf : Codec.Bytes := []

def fmtPairs (l : List (Nat × Nat)) : String :=
  "[" ++ ",".intercalate (l.map (fun p => s!"{p.1}-{p.2}")) ++ "]"

def rangeIncl (a b : Nat) : List Nat := (List.range (b + 1 - a)).map (· + a)

def segStep (st : DState) (toks : List String) : DState × String :=
  match toks with
  | ["new"] => ({ st with segs := [] }, "ok")
  | ["merge", a, b] =>
    match a.toNat?, b.toNat? with
    | some a, some b =>
      let r := Seg.merge st.segs (a, b)
      match r.2 with
      | some n => ({ st with segs := r.1 }, s!"n={n} l={fmtPairs r.1}")
      | none => ({ st with segs := [] }, "panic")
    | _, _ => (st, "bad-op")
  | ["gaps", a, b] =>
    match a.toNat?, b.toNat? with
    | some a, some b => (st, fmtPairs (Seg.gaps st.segs a b))
    | _, _ => (st, "bad-op")
  | ["complete", n] =>
    match n.toNat? with
    | some n => (st, if Seg.isComplete st.segs n then "1" else "0")
    | none => (st, "bad-op")
  | ["probe", m] =>
    match m.toNat? with
    | some m =>
      let c := String.join ((rangeIncl 0 m).map (fun n => if Seg.isComplete st.segs n then "1" else "0"))
      let g := String.join ((rangeIncl 0 m).map (fun a =>
        String.join ((rangeIncl a m).map (fun b => fmtPairs (Seg.gaps st.segs a b)))))
      let e := match Seg.endOf st.segs with | some x => toString x | none => "-"
      (st, s!"c={c} g={g} end={e} len={st.segs.length}")
    | none => (st, "bad-op")
  | _ => (st, "bad-op")

def hexVal (c : Char) : Option Nat :=
  if '0' ≤ c ∧ c ≤ '9' then some (c.toNat - '0'.toNat)
  else if 'a' ≤ c ∧ c ≤ 'f' then some (c.toNat - 'a'.toNat + 10)
  else none

def unhexGo : List Char → List UInt8 → Option (List UInt8)
  | [], acc => some acc.reverse
  | [_], _ => none
  | a :: b :: rest, acc =>
    match hexVal a, hexVal b with
    | some x, some y => unhexGo rest (UInt8.ofNat (x * 16 + y) :: acc)
    | _, _ => none

def unhex (s : String) : Option (List UInt8) :=
  if s == "-" then some [] else unhexGo s.toList []

def hexDigit (n : Nat) : Char :=
  if n < 10 then Char.ofNat (n + 48) else Char.ofNat (n - 10 + 97)

def hex (bs : List UInt8) : String :=
  if bs.isEmpty then "-" else
  String.ofList (bs.flatMap (fun b => [hexDigit (b.toNat / 16), hexDigit (b.toNat % 16)]))

def parseNats (s : String) : Option (List Nat) :=
  (s.splitOn ",").mapM (·.toNat?)

def linData (len a c : Nat) : List UInt8 :=
  (List.range len).map (fun i => UInt8.ofNat ((a * i + c) % 256))

def cksumOf (data : List UInt8) (sizes : List Nat) : String :=
  toString (Cksum.checksumLoop (Cksum.chunkBy sizes (data.length + 1) 0 data)).toNat

def cksumStep (toks : List String) : String :=
  match toks with
  | ["hex", h, ch] =>
    match unhex h, parseNats ch with
    | some d, some sizes => cksumOf d sizes
    | _, _ => "bad-op"
  | ["lin", len, a, c, ch] =>
    match len.toNat?, a.toNat?, c.toNat?, parseNats ch with
    | some len, some a, some c, some sizes => cksumOf (linData len a c) sizes
    | _, _, _, _ => "bad-op"
  | ["null", _] => toString Cksum.checksumNull.toNat
  | _ => "bad-op"

def unesc (s : String) : String :=
  if s == "-" then "" else ((s.replace "%20" " ").replace "%09" "\t").replace "%25" "%"

def fmtComps (cs : List Path.Comp) : String :=
  if cs.isEmpty then "-" else
  "|".intercalate (cs.map (fun c => match c with
    | .root => "R" | .cur => "." | .parent => ".." | .normal n => String.ofList n))

def pathStep (toks : List String) : String :=
  match toks with
  | ["native", root, name] =>
    match Path.nativePath (unesc root).toList (unesc name).toList with
    | some cs => fmtComps cs
    | none => "panic"
  | _ => "bad-op"

namespace CodecFmt
open Cfdp.Codec Cfdp.Gen

def idRepr (i : VarId) : String := s!"{i.width}:{i.val}"
def optId : Option VarId → String
  | none => "-"
  | some i => idRepr i
def respRepr (r : FsResponse) : String :=
  s!"R[{r.action.toNat * 16 + r.status},{hex r.name1},{hex r.name2},{hex r.msg}]"
def reqRepr (q : FsRequest) : String := s!"REQ[{q.action.toNat},{hex q.name1},{hex q.name2}]"
def tlvRepr : Tlv → String
  | .fsReq q => reqRepr q
  | .fsResp p => respRepr p
  | .msg m => s!"MSG[{hex m}]"
  | .fho c => s!"FHO[{c.toNat}]"
  | .flow v => s!"FL[{hex v}]"
  | .eid i => s!"EID[{idRepr i}]"
def headerRepr (h : Header) : String :=
  s!"H[{h.version.toNat},{h.pduType.toNat},{h.direction.toNat},{h.mode.toNat},{h.crc.toNat},{h.large.toNat},{h.dataLen},{h.segCtrl.toNat},{h.segMeta.toNat},{idRepr h.src},{idRepr h.seq},{idRepr h.dst}]"
def braces (xs : List String) : String := "{" ++ ";".intercalate xs ++ "}"
def payloadRepr : Payload → String
  | .fileData off d => s!"FD[{off},{hex d}]"
  | .fileDataSeg rcs m off d => s!"FDS[{rcs.toNat},{hex m},{off},{hex d}]"
  | .eof e => s!"EOF[{e.cond.toNat},{e.checksum},{e.fileSize},{optId e.fault}]"
  | .finished f =>
    s!"FIN[{f.cond.toNat},{f.delivery.toNat},{f.fileStatus.toNat},{braces (f.responses.map respRepr)},{optId f.fault}]"
  | .ack a => s!"ACK[{a.directive.toNat},{a.sub.toNat},{a.cond.toNat},{a.status.toNat}]"
  | .metadata m =>
    s!"MD[{if m.closure then 1 else 0},{m.cksumType.toNat},{m.fileSize},{hex m.srcName},{hex m.dstName},{braces (m.options.map tlvRepr)}]"
  | .nak n => s!"NAK[{n.scopeStart},{n.scopeEnd},{braces (n.requests.map (fun r => s!"{r.1}-{r.2}"))}]"
  | .prompt k => s!"PROMPT[{k.toNat}]"
  | .keepAlive g => s!"KA[{g}]"
def pduRepr (p : Pdu) : String := headerRepr p.header ++ " " ++ payloadRepr p.payload

def errName (e : Err) : String :=
  match e with
  | .MessageType => "MessageType" | .UnexpectedMessage => "UnexpectedMessage"
  | .UnexpectedIdentifier => "UnexpectedIdentifier" | .InvalidCondition => "InvalidCondition"
  | .InvalidChecksumType => "InvalidChecksumType" | .InvalidDirection => "InvalidDirection"
  | .InvalidDirective => "InvalidDirective" | .InvalidDeliveryCode => "InvalidDeliveryCode"
  | .InvalidState => "InvalidState" | .InvalidFileStatus => "InvalidFileStatus"
  | .InvalidTraceControl => "InvalidTraceControl" | .InvalidTransmissionMode => "InvalidTransmissionMode"
  | .InvalidSegmentControl => "InvalidSegmentControl" | .InvalidTransactionStatus => "InvalidTransactionStatus"
  | .InvalidFileStoreAction => "InvalidFileStoreAction" | .InvalidFileStoreStatus => "InvalidFileStoreStatus"
  | .InvalidFaultHandlerCode => "InvalidFaultHandlerCode" | .InvalidACKDirectiveSubType => "InvalidACKDirectiveSubType"
  | .InvalidPrompt => "InvalidPrompt" | .InvalidVersion => "InvalidVersion" | .InvalidPDUType => "InvalidPDUType"
  | .InvalidCRCFlag => "InvalidCRCFlag" | .InvalidFileSizeFlag => "InvalidFileSizeFlag"
  | .InvalidSegmentMetadataFlag => "InvalidSegmentMetadataFlag" | .CRCFailure => "CRCFailure"
  | .ReadError => "ReadError" | .UnknownIDLength => "UnknownIDLength" | .InvalidFileName => "InvalidFileName"
  | .InvalidListingCode => "InvalidListingCode" | .panic => "PANIC"

def pduAnswer (bs : Bytes) : String :=
  match Pdu.decode bs with
  | .ok p => s!"ok {pduRepr p} elen={p.len} re={hex p.encode}"
  | .error .panic => "panic"
  | .error e => "err:" ++ errName e
end CodecFmt

def codecStep (toks : List String) : String :=
  match toks with
  | ["pdu", h] =>
    match unhex h with
    | some bs => CodecFmt.pduAnswer bs
    | none => "bad-op"
  | _ => "bad-op"

def udpStep (st : DState) (toks : List String) : DState × String :=
  match toks with
  | ["new"] => ({ st with udpBuf := Udp.initBuffer }, "ok")
  | ["recv", h] =>
    match unhex h with
    | some dg =>
      let r := Udp.receive st.udpBuf dg
      ({ st with udpBuf := r.1 },
        match r.2 with
        | .ok p => "ok " ++ CodecFmt.pduRepr p
        | .error _ => "err")
    | none => (st, "bad-op")
  | _ => (st, "bad-op")

def step (st : DState) (line : String) : DState × String :=
  match (line.splitOn " ").filter (· ≠ "") with
  | "seg" :: rest => segStep st rest
  | "cksum" :: rest => (st, cksumStep rest)
  | "path" :: rest => (st, pathStep rest)
  | "codec" :: rest => (st, codecStep rest)
  | "udp" :: rest => udpStep st rest
  | _ => (st, "bad-op")

partial def loop (h : IO.FS.Stream) (out : IO.FS.Stream) (st : DState) : IO Unit := do
  let line ← h.getLine
  if line.isEmpty then return ()
  let line := (line.dropEndWhile (fun c => c == '\n' || c == '\r')).toString
  let (st', ans) := step st line
  out.putStrLn ans
  loop h out st'

def main : IO Unit := do
  let stdin ← IO.getStdin
  let stdout ← IO.getStdout
  loop stdin stdout {}
