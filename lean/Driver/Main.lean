import Cfdp.Model.Segments
import Cfdp.Model.Checksum
import Cfdp.Model.Path
import Cfdp.Model.Codec.Pdu
import Cfdp.Model.Codec.UserOps
import Cfdp.Model.Udp
import Cfdp.Model.Recv
import Cfdp.Model.Send
import Cfdp.Model.Daemon

/-!
Line-protocol driver: executes the model's definitions on the op lines produced by the Rust
harness and prints one canonical answer per line.  `/verif/check` diffs these answers against
the implementation's answers.
-/
open Cfdp

structure DState where
  segs : List Seg.Seg := []
  udpBuf : Codec.Bytes := []
  now : Nat := 0
  recv : Option Recv.State := none
  recvDead : Bool := false
  send : Option Send.State := none
  sendDead : Bool := false
  fsState : Fs.FS := []

def fmtPairs (l : List (Nat × Nat)) : String :=
  "[" ++ ",".intercalate (l.map (fun p => s!"{p.1}-{p.2}")) ++ "]"

def rangeIncl (a b : Nat) : List Nat := (List.range (b + 1 - a)).map (· + a)

def segStep (st : DState) (toks : List String) : DState × String :=
  match toks with
  | ["new"] => ({ st with segs := [] }, "ok")
  | ["merge", a, b] =>
    match a.toNat?, b.toNat? with
    | some a, some b =>
      let r := Seg.merge st.segs (a, b)
      match r.2 with
      | some n => ({ st with segs := r.1 }, s!"n={n} l={fmtPairs r.1}")
      | none => ({ st with segs := [] }, "panic")
    | _, _ => (st, "bad-op")
  | ["gaps", a, b] =>
    match a.toNat?, b.toNat? with
    | some a, some b => (st, fmtPairs (Seg.gaps st.segs a b))
    | _, _ => (st, "bad-op")
  | ["complete", n] =>
    match n.toNat? with
    | some n => (st, if Seg.isComplete st.segs n then "1" else "0")
    | none => (st, "bad-op")
  | ["probe", m] =>
    match m.toNat? with
    | some m =>
      let c := String.join ((rangeIncl 0 m).map (fun n => if Seg.isComplete st.segs n then "1" else "0"))
      let g := String.join ((rangeIncl 0 m).map (fun a =>
        String.join ((rangeIncl a m).map (fun b => fmtPairs (Seg.gaps st.segs a b)))))
      let e := match Seg.endOf st.segs with | some x => toString x | none => "-"
      (st, s!"c={c} g={g} end={e} len={st.segs.length}")
    | none => (st, "bad-op")
  | _ => (st, "bad-op")

def hexVal (c : Char) : Option Nat :=
  if '0' ≤ c ∧ c ≤ '9' then some (c.toNat - '0'.toNat)
  else if 'a' ≤ c ∧ c ≤ 'f' then some (c.toNat - 'a'.toNat + 10)
  else none

def unhexGo : List Char → List UInt8 → Option (List UInt8)
  | [], acc => some acc.reverse
  | [_], _ => none
  | a :: b :: rest, acc =>
    match hexVal a, hexVal b with
    | some x, some y => unhexGo rest (UInt8.ofNat (x * 16 + y) :: acc)
    | _, _ => none

def unhex (s : String) : Option (List UInt8) :=
  if s == "-" then some [] else unhexGo s.toList []

def hexDigit (n : Nat) : Char :=
  if n < 10 then Char.ofNat (n + 48) else Char.ofNat (n - 10 + 97)

def hex (bs : List UInt8) : String :=
  if bs.isEmpty then "-" else
  String.ofList (bs.flatMap (fun b => [hexDigit (b.toNat / 16), hexDigit (b.toNat % 16)]))

def parseNats (s : String) : Option (List Nat) :=
  (s.splitOn ",").mapM (·.toNat?)

def linData (len a c : Nat) : List UInt8 :=
  (List.range len).map (fun i => UInt8.ofNat ((a * i + c) % 256))

def cksumOf (data : List UInt8) (sizes : List Nat) : String :=
  toString (Cksum.checksumLoop (Cksum.chunkBy sizes (data.length + 1) 0 data)).toNat

def cksumStep (toks : List String) : String :=
  match toks with
  | ["hex", h, ch] =>
    match unhex h, parseNats ch with
    | some d, some sizes => cksumOf d sizes
    | _, _ => "bad-op"
  | ["lin", len, a, c, ch] =>
    match len.toNat?, a.toNat?, c.toNat?, parseNats ch with
    | some len, some a, some c, some sizes => cksumOf (linData len a c) sizes
    | _, _, _, _ => "bad-op"
  | ["null", _] => toString Cksum.checksumNull.toNat
  | _ => "bad-op"

def unesc (s : String) : String :=
  if s == "-" then "" else ((s.replace "%20" " ").replace "%09" "\t").replace "%25" "%"

def fmtComps (cs : List Path.Comp) : String :=
  if cs.isEmpty then "-" else
  "|".intercalate (cs.map (fun c => match c with
    | .root => "R" | .cur => "." | .parent => ".." | .normal n => String.ofList n))

def pathStep (toks : List String) : String :=
  match toks with
  | ["native", root, name] =>
    match Path.nativePath (unesc root).toList (unesc name).toList with
    | some cs => fmtComps cs
    | none => "panic"
  | _ => "bad-op"

namespace CodecFmt
open Cfdp.Codec Cfdp.Gen

def idRepr (i : VarId) : String := s!"{i.width}:{i.val}"
def optId : Option VarId → String
  | none => "-"
  | some i => idRepr i
def respRepr (r : FsResponse) : String :=
  s!"R[{r.action.toNat * 16 + r.status},{hex r.name1},{hex r.name2},{hex r.msg}]"
def reqRepr (q : FsRequest) : String := s!"REQ[{q.action.toNat},{hex q.name1},{hex q.name2}]"
def tlvRepr : Tlv → String
  | .fsReq q => reqRepr q
  | .fsResp p => respRepr p
  | .msg m => s!"MSG[{hex m}]"
  | .fho c => s!"FHO[{c.toNat}]"
  | .flow v => s!"FL[{hex v}]"
  | .eid i => s!"EID[{idRepr i}]"
def headerRepr (h : Header) : String :=
  s!"H[{h.version.toNat},{h.pduType.toNat},{h.direction.toNat},{h.mode.toNat},{h.crc.toNat},{h.large.toNat},{h.dataLen},{h.segCtrl.toNat},{h.segMeta.toNat},{idRepr h.src},{idRepr h.seq},{idRepr h.dst}]"
def braces (xs : List String) : String := "{" ++ ";".intercalate xs ++ "}"
def payloadRepr : Payload → String
  | .fileData off d => s!"FD[{off},{hex d}]"
  | .fileDataSeg rcs m off d => s!"FDS[{rcs.toNat},{hex m},{off},{hex d}]"
  | .eof e => s!"EOF[{e.cond.toNat},{e.checksum},{e.fileSize},{optId e.fault}]"
  | .finished f =>
    s!"FIN[{f.cond.toNat},{f.delivery.toNat},{f.fileStatus.toNat},{braces (f.responses.map respRepr)},{optId f.fault}]"
  | .ack a => s!"ACK[{a.directive.toNat},{a.sub.toNat},{a.cond.toNat},{a.status.toNat}]"
  | .metadata m =>
    s!"MD[{if m.closure then 1 else 0},{m.cksumType.toNat},{m.fileSize},{hex m.srcName},{hex m.dstName},{braces (m.options.map tlvRepr)}]"
  | .nak n => s!"NAK[{n.scopeStart},{n.scopeEnd},{braces (n.requests.map (fun r => s!"{r.1}-{r.2}"))}]"
  | .prompt k => s!"PROMPT[{k.toNat}]"
  | .keepAlive g => s!"KA[{g}]"
def pduRepr (p : Pdu) : String := headerRepr p.header ++ " " ++ payloadRepr p.payload

def errName (e : Err) : String :=
  match e with
  | .MessageType => "MessageType" | .UnexpectedMessage => "UnexpectedMessage"
  | .UnexpectedIdentifier => "UnexpectedIdentifier" | .InvalidCondition => "InvalidCondition"
  | .InvalidChecksumType => "InvalidChecksumType" | .InvalidDirection => "InvalidDirection"
  | .InvalidDirective => "InvalidDirective" | .InvalidDeliveryCode => "InvalidDeliveryCode"
  | .InvalidState => "InvalidState" | .InvalidFileStatus => "InvalidFileStatus"
  | .InvalidTraceControl => "InvalidTraceControl" | .InvalidTransmissionMode => "InvalidTransmissionMode"
  | .InvalidSegmentControl => "InvalidSegmentControl" | .InvalidTransactionStatus => "InvalidTransactionStatus"
  | .InvalidFileStoreAction => "InvalidFileStoreAction" | .InvalidFileStoreStatus => "InvalidFileStoreStatus"
  | .InvalidFaultHandlerCode => "InvalidFaultHandlerCode" | .InvalidACKDirectiveSubType => "InvalidACKDirectiveSubType"
  | .InvalidPrompt => "InvalidPrompt" | .InvalidVersion => "InvalidVersion" | .InvalidPDUType => "InvalidPDUType"
  | .InvalidCRCFlag => "InvalidCRCFlag" | .InvalidFileSizeFlag => "InvalidFileSizeFlag"
  | .InvalidSegmentMetadataFlag => "InvalidSegmentMetadataFlag" | .CRCFailure => "CRCFailure"
  | .ReadError => "ReadError" | .UnknownIDLength => "UnknownIDLength" | .InvalidFileName => "InvalidFileName"
  | .InvalidListingCode => "InvalidListingCode" | .panic => "PANIC"

def pduAnswer (bs : Bytes) : String :=
  match Pdu.decode bs with
  | .ok p => s!"ok {pduRepr p} elen={p.len} re={hex p.encode}"
  | .error .panic => "panic"
  | .error e => "err:" ++ errName e
end CodecFmt

def codecStep (toks : List String) : String :=
  match toks with
  | ["pdu", h] =>
    match unhex h with
    | some bs => CodecFmt.pduAnswer bs
    | none => "bad-op"
  -- a reserved CFDP message (user operation): decode, re-encode, announced length
  | ["userop", h] =>
    match unhex h with
    | some bs =>
      match Cfdp.Codec.UserOp.decode bs with
      | .ok (u, _) => s!"ok re={hex u.encode} elen={u.len}"
      | .error e => "err:" ++ CodecFmt.errName e
    | none => "bad-op"
  -- a status report
  | ["report", h] =>
    match unhex h with
    | some bs =>
      match Cfdp.Codec.Report.decode bs with
      | .ok (r, _) => s!"ok re={hex r.encode}"
      | .error e => "err:" ++ CodecFmt.errName e
    | none => "bad-op"
  | _ => "bad-op"

def udpStep (st : DState) (toks : List String) : DState × String :=
  match toks with
  | ["new"] => ({ st with udpBuf := Udp.initBuffer }, "ok")
  -- the next `n` datagrams are all queued at the socket before `receive()` is called for the first of them
  | ["burst", _] => (st, "ok")
  | ["recv", h] =>
    match unhex h with
    | some dg =>
      let r := Udp.receive st.udpBuf dg
      ({ st with udpBuf := r.1 },
        match r.2 with
        | .ok p => "ok " ++ CodecFmt.pduRepr p
        | .error _ => "err")
    | none => (st, "bad-op")
  | _ => (st, "bad-op")

namespace TxnFmt
open Cfdp.Codec Cfdp.Gen Cfdp.Timer

def ctr (c : Counter) (now : Nat) : String :=
  let occ := if c.occurred then "!" else ""
  if c.paused then s!"P{c.count}{occ}" else s!"R{c.count}{occ}@{now - c.start}"

def pairs (l : List (Nat × Nat)) : String := ",".intercalate (l.map (fun p => s!"{p.1}-{p.2}"))

def optNat : Option Nat → String
  | none => "-"
  | some n => toString n

def untilStr : Option Nat → String
  | none => "max"
  | some n => toString n

def b01 (b : Bool) : String := if b then "1" else "0"

def respInd (r : FsResponse) : String := s!"{r.action.toNat * 16 + r.status}.{hex r.name1}.{hex r.name2}"

def condOf (n : Nat) : Condition := (Condition.ofNat? n).getD .NoError

def parseFho (s : String) : List (Condition × FaultHandlerAction) :=
  if s == "-" then [] else
  (s.splitOn ";").filterMap (fun part =>
    match part.splitOn ":" with
    | [c, a] =>
      match c.toNat? with
      | some n => some (condOf n, match a with
          | "c" => FaultHandlerAction.Cancel | "s" => .Suspend | "i" => .Ignore | _ => .Abandon)
      | none => none
    | _ => none)

def digest (b : Bytes) : String :=
  let w := (b.zipIdx.foldl (fun acc (x, i) => (acc + (i + 1) * x.toNat) % 4294967296) 0)
  let ck := (Cksum.checksumLoop (Cksum.chunkBy [8192] (b.length + 1) 0 b)).toNat
  s!"{b.length}.{w}.{ck}"

def relStr (p : Fs.RelPath) : String := "/".intercalate (p.map String.ofList)

def pathLe : Fs.RelPath → Fs.RelPath → Bool
  | [], _ => true
  | _ :: _, [] => false
  | a :: as, b :: bs =>
    let ab := Fs.charsToBytes a; let bb := Fs.charsToBytes b
    if ab == bb then pathLe as bs
    else (ab.map (·.toNat)) < (bb.map (·.toNat))

def fsListing (fs : Fs.FS) : String :=
  let ents := (fs.filter (fun e => !e.1.isEmpty)).toArray.qsort (fun a b => pathLe a.1 b.1 && a.1 != b.1) |>.toList
  "{" ++ ",".intercalate (ents.map (fun e => match e.2 with
    | .dir => s!"d:{relStr e.1}"
    | .file c => s!"f:{relStr e.1}:{digest c}")) ++ "}"

def recvInd : Recv.Ind → String
  | .eofRecv => "EoFRecv"
  | .finished c d f st ss rs => s!"Finished({c.toNat},{d.toNat},{f.toNat},{st.toNat},{ss.toNat},<{"+".intercalate (rs.map respInd)}>)"
  | .metadataRecv a b n k => s!"MetadataRecv({hex a},{hex b},{n},{k})"
  | .fileSegmentRecv o l => s!"FileSegmentRecv({o},{l})"
  | .suspended c => s!"Suspended({c.toNat})"
  | .resumed p => s!"Resumed({p})"
  | .report st ss c => s!"Report({st.toNat},{ss.toNat},{c.toNat})"
  | .fault c p => s!"Fault({c.toNat},{p})"
  | .abandon c p => s!"Abandon({c.toNat},{p})"

def sendInd : Send.Ind → String
  | .transaction => "Transaction"
  | .eofSent => "EoFSent"
  | .finished c d f st ss rs => s!"Finished({c.toNat},{d.toNat},{f.toNat},{st.toNat},{ss.toNat},<{"+".intercalate (rs.map respInd)}>)"
  | .suspended c => s!"Suspended({c.toNat})"
  | .resumed p => s!"Resumed({p})"
  | .report st ss c => s!"Report({st.toNat},{ss.toNat},{c.toNat})"
  | .fault c p => s!"Fault({c.toNat},{p})"
  | .abandon c p => s!"Abandon({c.toNat},{p})"

def recvSnap (s : Recv.State) (now : Nat) : String :=
  let fin := match s.finished with | some (_, f) => b01 f | none => "-"
  let pr := match s.prompt with | some k => k.name | none => "-"
  let delayed := ",".intercalate (s.delayed.map (fun e => s!"{ctr e.1 now}:{e.2.1}-{e.2.2}"))
  s!"rs={s.recvState.name} st={s.state.name} status={s.status.name} cond={s.condition.name} dc={s.delivery.name} fs={s.fileStatus.name} meta={b01 s.md.isSome} eof={optNat s.fileSize} ck={optNat s.checksum} rx={s.received} nakrx={s.nakReceived} ack={b01 s.ack.isSome} fin={fin} prompt={pr} segs=[{pairs s.segs}] naks=[{pairs s.naks}] delayed=[{delayed}] ti={ctr s.timer.inactivity now} ta={ctr s.timer.ack now} tn={ctr s.timer.nak now} fh={b01 s.tempFile.isSome}"

def sendSnap (s : Send.State) (now : Nat) : String :=
  let eof := match s.eof with | some (_, f) => b01 f | none => "-"
  let pr := match s.prompt with | some k => k.name | none => "-"
  s!"ss={s.sendState.name} st={s.state.name} status={s.status.name} cond={s.condition.name} dc={s.delivery.name} fs={s.fileStatus.name} sent={s.progress} rx={s.rxProgress} eof={eof} ack={b01 s.ack.isSome} prompt={pr} naks=[{pairs s.naks}] cur={optNat s.cursor} ti={ctr s.timer.inactivity now} ta={ctr s.timer.ack now} eofind={b01 s.eofInd}"

def initFs : Fs.FS :=
  [([], .dir), (["d".toList], .dir), (["old".toList], .file "OLD".toUTF8.toList),
   (["d".toList, "x".toList], .file "xx".toUTF8.toList)]

def u16id (n : Nat) : VarId := ⟨2, n⟩

def fileOf (spec : String) : Bytes :=
  match spec.splitOn ":" with
  | ["lin", len, a, c] => linData (len.toNat?.getD 0) (a.toNat?.getD 0) (c.toNat?.getD 0)
  | ["zero", len] => List.replicate (len.toNat?.getD 0) 0
  | ["hex", h] => (unhex h).getD []
  | ["neutral", len] =>
    let n := len.toNat?.getD 0
    let rec go (fuel : Nat) (k : Nat) (acc : Bytes) : Bytes :=
      match fuel with
      | 0 => acc
      | f + 1 =>
        if acc.length ≥ n then acc else
        let neg := (4294967296 - k) % 4294967296
        go f ((k * 31 + 7) % 4294967296) (acc ++ Codec.beBytes 4 k ++ Codec.beBytes 4 neg)
    (go (n / 8 + 2) 16909060 []).take n
  | _ => []

def stdRequests (n : Nat) : List FsRequest :=
  ([ { action := .CreateFile, name1 := "new.txt".toUTF8.toList, name2 := [] },
     { action := .AppendFile, name1 := "old".toUTF8.toList, name2 := "d/x".toUTF8.toList },
     { action := .DeleteFile, name1 := "nope".toUTF8.toList, name2 := [] },
     { action := .CreateDirectory, name1 := "e".toUTF8.toList, name2 := [] } ] : List FsRequest).take n

end TxnFmt

open TxnFmt in
def recvStepFs (fs0 : Fs.FS) (st : DState) (toks : List String) : DState × String :=
  match toks with
  | ["new", mode, fss, seg, crc, mx, ti, ta, tn, np, delay, fho] =>
    let cfg : Recv.Config :=
      { mode := if mode == "ack" then .Acknowledged else .Unacknowledged,
        fss := if fss == "s" then .Small else .Large,
        seg := seg.toNat?.getD 0, crc := if crc == "1" then .Present else .NotPresent,
        max := mx.toNat?.getD 0, ti := ti.toNat?.getD 0, ta := ta.toNat?.getD 0, tn := tn.toNat?.getD 0,
        immediate := np == "imm", delay := (delay.toNat?.getD 0) * 1000000, fho := parseFho fho,
        src := u16id 1, dst := u16id 2, seq := u16id 7 }
    let s := Recv.new cfg fs0 0
    ({ st with now := 0, recv := some s, recvDead := false },
      s!"ok ind=[{";".intercalate (s.out.map recvInd)}] st={recvSnap s 0} fs={fsListing s.fs}")
  | op :: args =>
    match st.recv with
    | none => (st, "bad-op")
    | some s0 =>
      if st.recvDead then (st, "dead") else
      if s0.state == .Terminated && op != "adv" then (st, "terminated") else
      let s0 := { s0 with out := [], sent := none }
      let now := st.now
      let fin (st : DState) (s : Recv.State) (res : String) (now : Nat) : DState × String :=
        let res := if s.panicked then "panic" else res
        let pdu := match s.sent with | some p => hex p.encode | none => "-"
        ({ st with recv := some s, now := now, recvDead := s.panicked },
          s!"res={res} pdu={pdu} ind=[{";".intercalate (s.out.map recvInd)}] st={recvSnap s now} has={b01 (Recv.hasPduToSend s)} until={untilStr (Recv.untilTimeout s now)} fs={fsListing s.fs}")
      match op, args with
      | "pdu", h :: _ =>
        match unhex h with
        | none => (st, "bad-op")
        | some bs =>
          match Codec.Pdu.decode bs with
          | .error e => fin st s0 ("undecodable:" ++ CodecFmt.errName e) now
          | .ok p =>
            let (s, r) := Recv.processPdu s0 p now
            fin st s (match r with | .ok => "ok" | .unexpected => "err:UnexpectedPDU") now
      | "send", _ =>
        if Recv.hasPduToSend s0 then fin st (Recv.sendPdu s0 now) "ok" now else fin st s0 "nothing" now
      | "adv", [ms] => fin st s0 "ok" (now + (ms.toNat?.getD 0) * 1000000)
      | "timeout", _ =>
        if Recv.untilTimeout s0 now != some 0 then fin st s0 "notdue" now
        else fin st (Recv.handleTimeout s0 now) "ok" now
      | "cancel", _ => fin st (Recv.cancel s0 now) "ok" now
      | "suspend", _ => fin st (Recv.suspend s0 now) "ok" now
      | "resume", _ => fin st (Recv.resume s0 now) "ok" now
      | "report", _ => fin st (Recv.sendReport s0) "ok" now
      | "abandon", _ => fin st (Recv.shutdown s0 now) "ok" now
      | _, _ => (st, "bad-op")
  | _ => (st, "bad-op")

def recvStep (st : DState) (toks : List String) : DState × String := recvStepFs TxnFmt.initFs st toks

open TxnFmt in
def sendStep (st : DState) (toks : List String) : DState × String :=
  match toks with
  | ["new", mode, seg, crc, mx, ti, ta, tn, closure, ck, fho, file, nreq] =>
    let content := if file == "-" then [] else fileOf file
    let cfg : Send.Config :=
      { mode := if mode == "ack" then .Acknowledged else .Unacknowledged, fss := .Small,
        seg := seg.toNat?.getD 0, crc := if crc == "1" then .Present else .NotPresent,
        max := mx.toNat?.getD 0, ti := ti.toNat?.getD 0, ta := ta.toNat?.getD 0, tn := tn.toNat?.getD 0,
        fho := parseFho fho, src := u16id 1, dst := u16id 2, seq := u16id 7 }
    let md : Send.Meta :=
      { srcName := if file == "-" then [] else "src.bin".toUTF8.toList,
        dstName := if file == "-" then [] else "out/dst.bin".toUTF8.toList,
        fileSize := content.length, requests := stdRequests (nreq.toNat?.getD 0),
        messages := ["hi".toUTF8.toList], closure := closure == "1",
        cksumType := if ck == "15" then .Null else .Modular }
    let s := Send.new cfg md content 0
    ({ st with now := 0, send := some s, sendDead := false },
      s!"ok ind=[{";".intercalate (s.out.map sendInd)}] st={sendSnap s 0}")
  | op :: args =>
    match st.send with
    | none => (st, "bad-op")
    | some s0 =>
      if st.sendDead then (st, "dead") else
      if s0.state == .Terminated && op != "adv" then (st, "terminated") else
      let s0 := { s0 with out := [], sent := none }
      let now := st.now
      let fin (st : DState) (s : Send.State) (res : String) (now : Nat) : DState × String :=
        let res := if s.panicked then "panic" else res
        let pdu := match s.sent with | some p => hex p.encode | none => "-"
        ({ st with send := some s, now := now, sendDead := s.panicked },
          s!"res={res} pdu={pdu} ind=[{";".intercalate (s.out.map sendInd)}] st={sendSnap s now} has={b01 (Send.hasPduToSend s)} until={untilStr (Send.untilTimeout s now)}")
      match op, args with
      | "pdu", h :: _ =>
        match unhex h with
        | none => (st, "bad-op")
        | some bs =>
          match Codec.Pdu.decode bs with
          | .error e => fin st s0 ("undecodable:" ++ CodecFmt.errName e) now
          | .ok p =>
            let (s, r) := Send.processPdu s0 p now
            fin st s (match r with | .ok => "ok" | .unexpected => "err:UnexpectedPDU") now
      | "send", _ =>
        if Send.hasPduToSend s0 then fin st (Send.sendPdu s0 now) "ok" now else fin st s0 "nothing" now
      | "adv", [ms] => fin st s0 "ok" (now + (ms.toNat?.getD 0) * 1000000)
      | "timeout", _ =>
        if Send.untilTimeout s0 now != some 0 then fin st s0 "notdue" now
        else fin st (Send.handleTimeout s0 now) "ok" now
      | "cancel", _ => fin st (Send.cancel s0 now) "ok" now
      | "suspend", _ => fin st (Send.suspend s0 now) "ok" now
      | "resume", _ => fin st (Send.resume s0 now) "ok" now
      | "report", _ => fin st (Send.sendReport s0) "ok" now
      | "abandon", _ => fin st (Send.shutdown s0 now) "ok" now
      | "prompt", [k] => fin st (Send.preparePrompt s0 (if k == "nak" then .Nak else .KeepAlive)) "ok" now
      | _, _ => (st, "bad-op")
  | _ => (st, "bad-op")


/-- `ROOT…` names stand for the filestore root: the model's root is `Fs.modelRoot` -/
def fsName (b : Codec.Bytes) : Codec.Bytes :=
  let root := "ROOT".toUTF8.toList
  if List.take 4 b == root then Fs.charsToBytes Fs.modelRoot ++ List.drop 4 b else b

open TxnFmt in
def fsStep (st : DState) (toks : List String) : DState × String :=
  match toks with
  | ["new"] => ({ st with fsState := initFs }, s!"ok fs={fsListing initFs}")
  | ["req", code, n1, n2] =>
    match code.toNat?.bind Gen.FileStoreAction.ofNat?, unhex n1, unhex n2 with
    | some a, some b1, some b2 =>
      let r := Fs.processRequest st.fsState { action := a, name1 := fsName b1, name2 := fsName b2 }
      ({ st with fsState := r.2 }, s!"status={r.1} fs={fsListing r.2}")
    | _, _, _ => (st, "bad-op")
  | _ => (st, "bad-op")

def parseHdr (t : String) : Option Daemon.Hdr :=
  match t.splitOn ":" with
  | [d, a, b, c] =>
    match a.toNat?, b.toNat?, c.toNat? with
    | some src, some seq, some dst =>
      if d == "R" then some { dir := .toReceiver, src, seq, dst }
      else if d == "S" then some { dir := .toSender, src, seq, dst } else none
    | _, _, _ => none
  | _ => none

def tidLe (a b : Nat × Nat) : Bool := a.1 < b.1 || (a.1 == b.1 && a.2 ≤ b.2)

/-- `daemon route <entity> <peers csv> <headers csv | ->`: the receive transactions `forward_pdu` spawns -/
def daemonStep (toks : List String) : String :=
  match toks with
  | ["new"] => "ok"
  | ["key", h] =>
    match parseHdr h with
    | some hd => let k := Daemon.key hd; s!"key={k.1}.{k.2}"
    | none => "bad-op"
  | ["route", e, peers, hs] =>
    match e.toNat? with
    | some ent =>
      let ps := (peers.splitOn ",").filterMap String.toNat?
      let hdrs := if hs == "-" then [] else (hs.splitOn ",").filterMap parseHdr
      let d : Daemon.DState := { entity := ent, peers := ps }
      let d' := Daemon.run d (hdrs.map Daemon.Op.pdu)
      let ids := (d'.spawned.eraseDups.toArray.qsort (fun a b => tidLe a b && a != b)).toList
      "spawned=[" ++ ",".intercalate (ids.map (fun k => s!"{k.1}.{k.2}")) ++ "]"
    | none => "bad-op"
  | _ => "bad-op"

/-- the receiver's filestore in two-party runs: the destination directory of the transfer exists -/
def netFs : Fs.FS := TxnFmt.initFs ++ [(["out".toList], .dir)]

/-- two-party runs (`Model/Net.lean`): the sender and the receiver model side by side on one clock;
`net s <op>` / `net r <op>` are the ops of the `send` / `recv` engines, the harness plays the link -/
def netStep (st : DState) (toks : List String) : DState × String :=
  match toks with
  | "new" :: rest =>
    let sendToks := rest.takeWhile (· != "|")
    let recvToks := (rest.dropWhile (· != "|")).drop 1
    let r1 := sendStep st ("new" :: sendToks)
    let r2 := recvStepFs netFs r1.1 ("new" :: recvToks)
    (r2.1, r1.2 ++ " | " ++ r2.2)
  | "s" :: rest => sendStep st rest
  | "r" :: rest => recvStepFs netFs st rest
  | _ => (st, "bad-op")

def step (st : DState) (line : String) : DState × String :=
  match (line.splitOn " ").filter (· ≠ "") with
  | "seg" :: rest => segStep st rest
  | "cksum" :: rest => (st, cksumStep rest)
  | "path" :: rest => (st, pathStep rest)
  | "codec" :: rest => (st, codecStep rest)
  | "udp" :: rest => udpStep st rest
  | "fs" :: rest => fsStep st rest
  | "daemon" :: rest => (st, daemonStep rest)
  | "recv" :: rest => recvStep st rest
  | "send" :: rest => sendStep st rest
  | "net" :: rest => netStep st rest
  | _ => (st, "bad-op")

partial def loop (h : IO.FS.Stream) (out : IO.FS.Stream) (st : DState) : IO Unit := do
  let line ← h.getLine
  if line.isEmpty then return ()
  let line := (line.dropEndWhile (fun c => c == '\n' || c == '\r')).toString
  let (st', ans) := step st line
  out.putStrLn ans
  loop h out st'

def main : IO Unit := do
  let stdin ← IO.getStdin
  let stdout ← IO.getStdout
  loop stdin stdout {}
