import Cfdp.Model.Segments
def main : IO Unit := IO.println "stub"
