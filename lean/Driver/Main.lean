import Cfdp.Model.Segments

/-!
Line-protocol driver: executes the model's definitions on the op lines produced by the Rust
harness and prints one canonical answer per line.  `/verif/check` diffs these answers against
the implementation's answers.
-/
open Cfdp

structure DState where
  segs : List Seg.Seg := []

def fmtPairs (l : List (Nat × Nat)) : String :=
  "[" ++ ",".intercalate (l.map (fun p => s!"{p.1}-{p.2}")) ++ "]"

def rangeIncl (a b : Nat) : List Nat := (List.range (b + 1 - a)).map (· + a)

def segStep (st : DState) (toks : List String) : DState × String :=
  match toks with
  | ["new"] => ({ st with segs := [] }, "ok")
  | ["merge", a, b] =>
    match a.toNat?, b.toNat? with
    | some a, some b =>
      let r := Seg.merge st.segs (a, b)
      match r.2 with
      | some n => ({ st with segs := r.1 }, s!"n={n} l={fmtPairs r.1}")
      | none => ({ st with segs := [] }, "panic")
    | _, _ => (st, "bad-op")
  | ["gaps", a, b] =>
    match a.toNat?, b.toNat? with
    | some a, some b => (st, fmtPairs (Seg.gaps st.segs a b))
    | _, _ => (st, "bad-op")
  | ["complete", n] =>
    match n.toNat? with
    | some n => (st, if Seg.isComplete st.segs n then "1" else "0")
    | none => (st, "bad-op")
  | ["probe", m] =>
    match m.toNat? with
    | some m =>
      let c := String.join ((rangeIncl 0 m).map (fun n => if Seg.isComplete st.segs n then "1" else "0"))
      let g := String.join ((rangeIncl 0 m).map (fun a =>
        String.join ((rangeIncl a m).map (fun b => fmtPairs (Seg.gaps st.segs a b)))))
      let e := match Seg.endOf st.segs with | some x => toString x | none => "-"
      (st, s!"c={c} g={g} end={e} len={st.segs.length}")
    | none => (st, "bad-op")
  | _ => (st, "bad-op")

def step (st : DState) (line : String) : DState × String :=
  match (line.splitOn " ").filter (· ≠ "") with
  | "seg" :: rest => segStep st rest
  | _ => (st, "bad-op")

partial def loop (h : IO.FS.Stream) (out : IO.FS.Stream) (st : DState) : IO Unit := do
  let line ← h.getLine
  if line.isEmpty then return ()
  let line := (line.dropEndWhile (fun c => c == '\n' || c == '\r')).toString
  let (st', ans) := step st line
  out.putStrLn ans
  loop h out st'

def main : IO Unit := do
  let stdin ← IO.getStdin
  let stdout ← IO.getStdout
  loop stdin stdout {}
