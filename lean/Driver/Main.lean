import Cfdp.Model.Segments
import Cfdp.Model.Checksum
import Cfdp.Model.Path

/-!
Line-protocol driver: executes the model's definitions on the op lines produced by the Rust
harness and prints one canonical answer per line.  `/verif/check` diffs these answers against
the implementation's answers.
-/
open Cfdp

structure DState where
  segs : List Seg.Seg := []

def fmtPairs (l : List (Nat × Nat)) : String :=
  "[" ++ ",".intercalate (l.map (fun p => s!"{p.1}-{p.2}")) ++ "]"

def rangeIncl (a b : Nat) : List Nat := (List.range (b + 1 - a)).map (· + a)

def segStep (st : DState) (toks : List String) : DState × String :=
  match toks with
  | ["new"] => ({ st with segs := [] }, "ok")
  | ["merge", a, b] =>
    match a.toNat?, b.toNat? with
    | some a, some b =>
      let r := Seg.merge st.segs (a, b)
      match r.2 with
      | some n => ({ st with segs := r.1 }, s!"n={n} l={fmtPairs r.1}")
      | none => ({ st with segs := [] }, "panic")
    | _, _ => (st, "bad-op")
  | ["gaps", a, b] =>
    match a.toNat?, b.toNat? with
    | some a, some b => (st, fmtPairs (Seg.gaps st.segs a b))
    | _, _ => (st, "bad-op")
  | ["complete", n] =>
    match n.toNat? with
    | some n => (st, if Seg.isComplete st.segs n then "1" else "0")
    | none => (st, "bad-op")
  | ["probe", m] =>
    match m.toNat? with
    | some m =>
      let c := String.join ((rangeIncl 0 m).map (fun n => if Seg.isComplete st.segs n then "1" else "0"))
      let g := String.join ((rangeIncl 0 m).map (fun a =>
        String.join ((rangeIncl a m).map (fun b => fmtPairs (Seg.gaps st.segs a b)))))
      let e := match Seg.endOf st.segs with | some x => toString x | none => "-"
      (st, s!"c={c} g={g} end={e} len={st.segs.length}")
    | none => (st, "bad-op")
  | _ => (st, "bad-op")

def hexVal (c : Char) : Option Nat :=
  if '0' ≤ c ∧ c ≤ '9' then some (c.toNat - '0'.toNat)
  else if 'a' ≤ c ∧ c ≤ 'f' then some (c.toNat - 'a'.toNat + 10)
  else none

def unhexGo : List Char → List UInt8 → Option (List UInt8)
  | [], acc => some acc.reverse
  | [_], _ => none
  | a :: b :: rest, acc =>
    match hexVal a, hexVal b with
    | some x, some y => unhexGo rest (UInt8.ofNat (x * 16 + y) :: acc)
    | _, _ => none

def unhex (s : String) : Option (List UInt8) :=
  if s == "-" then some [] else unhexGo s.toList []

def hexDigit (n : Nat) : Char :=
  if n < 10 then Char.ofNat (n + 48) else Char.ofNat (n - 10 + 97)

def hex (bs : List UInt8) : String :=
  if bs.isEmpty then "-" else
  String.ofList (bs.flatMap (fun b => [hexDigit (b.toNat / 16), hexDigit (b.toNat % 16)]))

def parseNats (s : String) : Option (List Nat) :=
  (s.splitOn ",").mapM (·.toNat?)

def linData (len a c : Nat) : List UInt8 :=
  (List.range len).map (fun i => UInt8.ofNat ((a * i + c) % 256))

def cksumOf (data : List UInt8) (sizes : List Nat) : String :=
  toString (Cksum.checksumLoop (Cksum.chunkBy sizes (data.length + 1) 0 data)).toNat

def cksumStep (toks : List String) : String :=
  match toks with
  | ["hex", h, ch] =>
    match unhex h, parseNats ch with
    | some d, some sizes => cksumOf d sizes
    | _, _ => "bad-op"
  | ["lin", len, a, c, ch] =>
    match len.toNat?, a.toNat?, c.toNat?, parseNats ch with
    | some len, some a, some c, some sizes => cksumOf (linData len a c) sizes
    | _, _, _, _ => "bad-op"
  | ["null", _] => toString Cksum.checksumNull.toNat
  | _ => "bad-op"

def unesc (s : String) : String :=
  if s == "-" then "" else ((s.replace "%20" " ").replace "%09" "\t").replace "%25" "%"

def fmtComps (cs : List Path.Comp) : String :=
  if cs.isEmpty then "-" else
  "|".intercalate (cs.map (fun c => match c with
    | .root => "R" | .cur => "." | .parent => ".." | .normal n => String.ofList n))

def pathStep (toks : List String) : String :=
  match toks with
  | ["native", root, name] =>
    match Path.nativePath (unesc root).toList (unesc name).toList with
    | some cs => fmtComps cs
    | none => "panic"
  | _ => "bad-op"

def step (st : DState) (line : String) : DState × String :=
  match (line.splitOn " ").filter (· ≠ "") with
  | "seg" :: rest => segStep st rest
  | "cksum" :: rest => (st, cksumStep rest)
  | "path" :: rest => (st, pathStep rest)
  | _ => (st, "bad-op")

partial def loop (h : IO.FS.Stream) (out : IO.FS.Stream) (st : DState) : IO Unit := do
  let line ← h.getLine
  if line.isEmpty then return ()
  let line := (line.dropEndWhile (fun c => c == '\n' || c == '\r')).toString
  let (st', ans) := step st line
  out.putStrLn ans
  loop h out st'

def main : IO Unit := do
  let stdin ← IO.getStdin
  let stdout ← IO.getStdout
  loop stdin stdout {}
